import ScnVerif.Driver.C20
/-!
Line-protocol driver: one operation per input line, one canonical line out.
Imports only `ScnVerif.Model.*`, `ScnVerif.Gen.*`, `ScnVerif.Driver.*` (no Mathlib) so it links as
a `lean_exe`.
-/
open ScnVerif

def handlers : List (List String → Option String) := [
  Driver.C20.handle
]

def dispatch (line : String) : String :=
  let ws := Proto.words line
  match handlers.findSome? (fun h => h ws) with
  | some out => out
  | none => "bad-op"

partial def loop (hin : IO.FS.Stream) (hout : IO.FS.Stream) : IO Unit := do
  let line ← hin.getLine
  if line.isEmpty then return ()
  let line := (line.dropEndWhile (fun c => c == '\n' || c == '\r')).toString
  hout.putStrLn (dispatch line)
  loop hin hout

def main : IO Unit := do
  let hin ← IO.getStdin
  let hout ← IO.getStdout
  loop hin hout
  hout.flush
