import ScnVerif.Driver.C20
import ScnVerif.Gen.Atoms
import ScnVerif.Model.Arith
import ScnVerif.Model.Atoms
import ScnVerif.Model.Proto
import ScnVerif.Props.C20
import ScnVerif.Real.Basic
