import ScnVerif.Lemmas.TofPhys
import ScnVerif.Lemmas.FlModel
import ScnVerif.Model.TofGraph
import ScnVerif.Gen.TofGraph
import Mathlib.Analysis.SpecialFunctions.Pow.Real
import Mathlib.Tactic.NormNum
/-!
# C01 — elastic TOF kinematics reproduce the de Broglie / Bragg definitions

The kernels of `Model/TofKernels.lean` (the very definitions the driver executes against the Python
code) are read over `ℝ` and proved equal to the physical formulas

  λ = h t / (m_n L),  E = m_n L² / (2 t²) = h² / (2 m_n λ²),  d = λ / (2 sin θ),  Q = 4π sin θ / λ

for **all** positive inputs, **all** positive constants `h`, `m_n` and **all** positive unit scales
(`sT` seconds per time unit, `sL` metres per length unit, `sA` metres per ångström, `sE` joule per energy
unit, `sW` metres per wavelength unit, `sAng` radians per angle unit).  Physical quantity = numeric value
× scale, so e.g. `result * sA` is the wavelength in metres.  The division-by-zero points are excluded by
explicit hypotheses (`0 < sin(θ/2)`), never by Lean's `x / 0 = 0`.
-/
namespace ScnVerif.Props.C01
open ScnVerif ScnVerif.Tof ScnVerif.TofGraph

/-! ## each kernel equals its defining formula -/

/-- `wavelength_from_tof`: λ = h t / (m_n L), reported in ångström -/
theorem wavelength_from_tof_def (h mn sA sL sT t L : ℝ)
    (hh : 0 < h) (hmn : 0 < mn) (hA : 0 < sA) (hL : 0 < sL) (hT : 0 < sT) (ht : 0 < t) (hLL : 0 < L) :
    wavelengthFromTof (cWavelengthFromTof h mn sA sL sT) t L * sA = h * (t * sT) / (mn * (L * sL)) :=
  TofPhys.wavelength_from_tof_phys h mn sA sL sT t L hh hmn hA hL hT ht hLL

example : wavelengthFromTof (cWavelengthFromTof (6.62607015e-34 : ℝ) 1.67492749804e-27 1e-10 1 1e-6)
    1234.5678 23.456 * 1e-10 = 6.62607015e-34 * (1234.5678 * 1e-6) / (1.67492749804e-27 * (23.456 * 1)) :=
  wavelength_from_tof_def _ _ _ _ _ _ _ (by norm_num) (by norm_num) (by norm_num) (by norm_num)
    (by norm_num) (by norm_num) (by norm_num)

/-- `dspacing_from_tof`: d = h t / (m_n L · 2 sin θ), θ = two_theta/2, reported in ångström -/
theorem dspacing_from_tof_def (h mn sA sL sT sAng t L θ2 : ℝ)
    (hh : 0 < h) (hmn : 0 < mn) (hA : 0 < sA) (hL : 0 < sL) (hT : 0 < sT) (ht : 0 < t) (hLL : 0 < L)
    (hs : 0 < Real.sin (θ2 * sAng / 2)) :
    dspacingFromTof (cDspacingFromTof h mn sA sL sT) sAng t L θ2 * sA
      = h * (t * sT) / (mn * (L * sL)) / (2 * Real.sin (θ2 * sAng / 2)) :=
  TofPhys.dspacing_from_tof_phys h mn sA sL sT sAng t L θ2 hh hmn hA hL hT ht hLL hs

/-- `energy_from_tof`: E = m_n L² / (2 t²), reported in the energy unit with scale `sE` (meV in the code) -/
theorem energy_from_tof_def (mn sE sL sT t L : ℝ)
    (hmn : 0 < mn) (hE : 0 < sE) (hL : 0 < sL) (hT : 0 < sT) (ht : 0 < t) (hLL : 0 < L) :
    energyFromTof (cEnergy mn sE sL sT) t L * sE = mn * (L * sL) ^ 2 / (2 * (t * sT) ^ 2) :=
  TofPhys.energy_from_tof_phys mn sE sL sT t L hmn hE hL hT ht hLL

/-- `energy_from_wavelength`: E = h² / (2 m_n λ²) -/
theorem energy_from_wavelength_def (h mn sE sW w : ℝ)
    (hh : 0 < h) (hmn : 0 < mn) (hE : 0 < sE) (hW : 0 < sW) (hw : 0 < w) :
    energyFromWavelength (cEnergyFromWavelength h mn sE sW w) w * sE = h ^ 2 / (2 * mn * (w * sW) ^ 2) :=
  TofPhys.energy_from_wavelength_phys h mn sE sW w hh hmn hE hW hw

/-- the two expressions for the energy in the statement agree: m_n L²/(2t²) = h²/(2 m_n λ²) with λ = h t/(m_n L) -/
theorem energy_formulas_agree (h mn t L : ℝ) (hh : 0 < h) (hmn : 0 < mn) (ht : 0 < t) (hL : 0 < L) :
    mn * L ^ 2 / (2 * t ^ 2) = h ^ 2 / (2 * mn * (h * t / (mn * L)) ^ 2) :=
  TofPhys.energy_formulas_agree h mn t L hh hmn ht hL

/-- `wavelength_from_energy`: λ = h / √(2 m_n E), reported in ångström -/
theorem wavelength_from_energy_def (h mn sA sE e : ℝ)
    (hh : 0 < h) (hmn : 0 < mn) (hA : 0 < sA) (hE : 0 < sE) (he : 0 < e) :
    wavelengthFromEnergy (cWavelengthFromEnergy h mn sA sE e) e * sA = h / Real.sqrt (2 * mn * (e * sE)) :=
  TofPhys.wavelength_from_energy_phys h mn sA sE e hh hmn hA hE he

/-- `Q_from_wavelength`: Q = 4π sin θ / λ, in one over the wavelength unit -/
theorem Q_from_wavelength_def (sAng sW w θ2 : ℝ) (hW : 0 < sW) (hw : 0 < w) :
    qFromWavelength sAng w θ2 / sW = 4 * Real.pi * Real.sin (θ2 * sAng / 2) / (w * sW) :=
  TofPhys.Q_from_wavelength_phys sAng sW w θ2 hW hw

/-- `wavelength_from_Q`: λ = 4π sin θ / Q, reported in ångström (`q / sQinv` is Q in 1/m) -/
theorem wavelength_from_Q_def (sAng sQinv sA q θ2 : ℝ) (hQ : 0 < sQinv) (hA : 0 < sA) (hq : 0 < q) :
    wavelengthFromQ sAng sQinv sA q θ2 * sA = 4 * Real.pi * Real.sin (θ2 * sAng / 2) / (q / sQinv) :=
  TofPhys.wavelength_from_Q_phys sAng sQinv sA q θ2 hQ hA hq

/-- `dspacing_from_wavelength`: d = λ / (2 sin θ), reported in ångström -/
theorem dspacing_from_wavelength_def (sA sW sAng w θ2 : ℝ) (hA : 0 < sA) (hW : 0 < sW)
    (hs : 0 < Real.sin (θ2 * sAng / 2)) :
    dspacingFromWavelength (cDspacingFromWavelength sA sW w) sAng w θ2 * sA
      = w * sW / (2 * Real.sin (θ2 * sAng / 2)) :=
  TofPhys.dspacing_from_wavelength_phys sA sW sAng w θ2 hA hW hs

/-- `dspacing_from_energy`: d = h / (√(8 m_n E) sin θ), reported in ångström -/
theorem dspacing_from_energy_def (h mn sA sE sAng e θ2 : ℝ)
    (hh : 0 < h) (hmn : 0 < mn) (hA : 0 < sA) (hE : 0 < sE) (he : 0 < e)
    (hs : 0 < Real.sin (θ2 * sAng / 2)) :
    dspacingFromEnergy (cDspacingFromEnergy h mn sA sE e) sAng e θ2 * sA
      = h / (Real.sqrt (8 * mn * (e * sE)) * Real.sin (θ2 * sAng / 2)) :=
  TofPhys.dspacing_from_energy_phys h mn sA sE sAng e θ2 hh hmn hA hE he hs

/-- `sin(two_theta/2)` is positive on the whole range of scattering angles `(0, π]` of the property -/
theorem sin_half_pos_of_mem_Ioc (θ2 : ℝ) (h0 : 0 < θ2) (hpi : θ2 ≤ Real.pi) : 0 < Real.sin (θ2 / 2) :=
  Real.sin_pos_of_pos_of_lt_pi (by linarith) (by linarith [Real.pi_pos])

/-- non-vacuity of the angle hypothesis: back-scattering `two_theta = π` in radians (`sAng = 1`) -/
example : 0 < Real.sin (Real.pi * 1 / 2) := by
  have := sin_half_pos_of_mem_Ioc Real.pi Real.pi_pos le_rfl
  simp only [mul_one]; exact this

/-! ## round trips -/

/-- λ → E → λ returns the wavelength (as a physical length), whatever the units -/
theorem roundtrip_wavelength_energy (h mn sA sE sW w : ℝ)
    (hh : 0 < h) (hmn : 0 < mn) (hA : 0 < sA) (hE : 0 < sE) (hW : 0 < sW) (hw : 0 < w) :
    let e := energyFromWavelength (cEnergyFromWavelength h mn sE sW w) w
    wavelengthFromEnergy (cWavelengthFromEnergy h mn sA sE e) e * sA = w * sW := by
  intro e
  have he : e * sE = h ^ 2 / (2 * mn * (w * sW) ^ 2) := energy_from_wavelength_def h mn sE sW w hh hmn hE hW hw
  have hepos : 0 < e := by
    have : 0 < e * sE := by rw [he]; positivity
    exact (pos_iff_pos_of_mul_pos this).mpr hE
  rw [wavelength_from_energy_def h mn sA sE e hh hmn hA hE hepos, he]
  have : 2 * mn * (h ^ 2 / (2 * mn * (w * sW) ^ 2)) = (h / (w * sW)) ^ 2 := by field_simp
  rw [this, Real.sqrt_sq (by positivity)]
  field_simp

/-- E → λ → E returns the energy -/
theorem roundtrip_energy_wavelength (h mn sA sE e : ℝ)
    (hh : 0 < h) (hmn : 0 < mn) (hA : 0 < sA) (hE : 0 < sE) (he : 0 < e) :
    let w := wavelengthFromEnergy (cWavelengthFromEnergy h mn sA sE e) e
    energyFromWavelength (cEnergyFromWavelength h mn sE sA w) w * sE = e * sE := by
  intro w
  have hw : w * sA = h / Real.sqrt (2 * mn * (e * sE)) := wavelength_from_energy_def h mn sA sE e hh hmn hA hE he
  have hpos : 0 < 2 * mn * (e * sE) := by positivity
  have hr : 0 < Real.sqrt (2 * mn * (e * sE)) := Real.sqrt_pos.mpr hpos
  have hwpos : 0 < w := by
    have : 0 < w * sA := by rw [hw]; positivity
    exact (pos_iff_pos_of_mul_pos this).mpr hA
  rw [energy_from_wavelength_def h mn sE sA w hh hmn hE hA hwpos, hw, div_pow, Real.sq_sqrt hpos.le]
  field_simp

/-- λ → Q → λ returns the wavelength (Q carries the unit 1/unit(λ), so `sQinv = sW`) -/
theorem roundtrip_wavelength_Q (sAng sW sA w θ2 : ℝ) (hW : 0 < sW) (hA : 0 < sA) (hw : 0 < w)
    (hs : 0 < Real.sin (θ2 * sAng / 2)) :
    wavelengthFromQ sAng sW sA (qFromWavelength sAng w θ2) θ2 * sA = w * sW := by
  simp only [wavelengthFromQ, qFromWavelength, wavelengthQ, sinU, asFloatLike_real, i64_real,
    trans_sin_real, trans_pi_real]
  have e : θ2 / ((2:ℕ):ℝ) * sAng = θ2 * sAng / 2 := by push_cast; ring
  rw [e]
  generalize Real.sin (θ2 * sAng / 2) = s at hs
  have := Real.pi_pos
  push_cast; field_simp

/-- Q · d = 2π (Q in 1/unit(λ), d in ångström: the product of the physical quantities) -/
theorem Q_times_d (sA sW sAng w θ2 : ℝ) (hA : 0 < sA) (hW : 0 < sW) (hw : 0 < w)
    (hs : 0 < Real.sin (θ2 * sAng / 2)) :
    (qFromWavelength sAng w θ2 / sW) * (dspacingFromWavelength (cDspacingFromWavelength sA sW w) sAng w θ2 * sA)
      = 2 * Real.pi := by
  rw [Q_from_wavelength_def sAng sW w θ2 hW hw, dspacing_from_wavelength_def sA sW sAng w θ2 hA hW hs]
  generalize Real.sin (θ2 * sAng / 2) = s at hs
  field_simp; ring

/-! ## two routes to the same quantity agree (explicit pairs; the table-driven statement is `routes_agree`) -/

/-- energy straight from tof = energy from the wavelength computed from tof -/
theorem energy_routes_agree (h mn sA sE sL sT t L : ℝ)
    (hh : 0 < h) (hmn : 0 < mn) (hA : 0 < sA) (hE : 0 < sE) (hL : 0 < sL) (hT : 0 < sT) (ht : 0 < t) (hLL : 0 < L) :
    let w := wavelengthFromTof (cWavelengthFromTof h mn sA sL sT) t L
    energyFromWavelength (cEnergyFromWavelength h mn sE sA w) w = energyFromTof (cEnergy mn sE sL sT) t L := by
  intro w
  have hw : w * sA = h * (t * sT) / (mn * (L * sL)) := wavelength_from_tof_def h mn sA sL sT t L hh hmn hA hL hT ht hLL
  have hwpos : 0 < w := by
    have : 0 < w * sA := by rw [hw]; positivity
    exact (pos_iff_pos_of_mul_pos this).mpr hA
  have h1 := energy_from_wavelength_def h mn sE sA w hh hmn hE hA hwpos
  have h2 := energy_from_tof_def mn sE sL sT t L hmn hE hL hT ht hLL
  have : energyFromWavelength (cEnergyFromWavelength h mn sE sA w) w * sE
      = energyFromTof (cEnergy mn sE sL sT) t L * sE := by
    rw [h1, h2, hw]; field_simp
  exact mul_right_cancel₀ hE.ne' this

/-- d-spacing straight from tof = d-spacing from the wavelength computed from tof -/
theorem dspacing_routes_agree (h mn sA sL sT sAng t L θ2 : ℝ)
    (hh : 0 < h) (hmn : 0 < mn) (hA : 0 < sA) (hL : 0 < sL) (hT : 0 < sT) (ht : 0 < t) (hLL : 0 < L)
    (hs : 0 < Real.sin (θ2 * sAng / 2)) :
    let w := wavelengthFromTof (cWavelengthFromTof h mn sA sL sT) t L
    dspacingFromWavelength (cDspacingFromWavelength sA sA w) sAng w θ2
      = dspacingFromTof (cDspacingFromTof h mn sA sL sT) sAng t L θ2 := by
  intro w
  have hw : w * sA = h * (t * sT) / (mn * (L * sL)) := wavelength_from_tof_def h mn sA sL sT t L hh hmn hA hL hT ht hLL
  have h1 := dspacing_from_wavelength_def sA sA sAng w θ2 hA hA hs
  have h2 := dspacing_from_tof_def h mn sA sL sT sAng t L θ2 hh hmn hA hL hT ht hLL hs
  have : dspacingFromWavelength (cDspacingFromWavelength sA sA w) sAng w θ2 * sA
      = dspacingFromTof (cDspacingFromTof h mn sA sL sT) sAng t L θ2 * sA := by
    rw [h1, h2, hw]
  exact mul_right_cancel₀ hA.ne' this

/-- d-spacing from the energy computed from tof = d-spacing straight from tof -/
theorem dspacing_via_energy_agrees (h mn sA sE sL sT sAng t L θ2 : ℝ)
    (hh : 0 < h) (hmn : 0 < mn) (hA : 0 < sA) (hE : 0 < sE) (hL : 0 < sL) (hT : 0 < sT) (ht : 0 < t)
    (hLL : 0 < L) (hs : 0 < Real.sin (θ2 * sAng / 2)) :
    let e := energyFromTof (cEnergy mn sE sL sT) t L
    dspacingFromEnergy (cDspacingFromEnergy h mn sA sE e) sAng e θ2
      = dspacingFromTof (cDspacingFromTof h mn sA sL sT) sAng t L θ2 := by
  intro e
  have he : e * sE = mn * (L * sL) ^ 2 / (2 * (t * sT) ^ 2) := energy_from_tof_def mn sE sL sT t L hmn hE hL hT ht hLL
  have hepos : 0 < e := by
    have : 0 < e * sE := by rw [he]; positivity
    exact (pos_iff_pos_of_mul_pos this).mpr hE
  have h1 := dspacing_from_energy_def h mn sA sE sAng e θ2 hh hmn hA hE hepos hs
  have h2 := dspacing_from_tof_def h mn sA sL sT sAng t L θ2 hh hmn hA hL hT ht hLL hs
  have hsq : 8 * mn * (mn * (L * sL) ^ 2 / (2 * (t * sT) ^ 2)) = (2 * mn * (L * sL) / (t * sT)) ^ 2 := by
    field_simp; ring
  have : dspacingFromEnergy (cDspacingFromEnergy h mn sA sE e) sAng e θ2 * sA
      = dspacingFromTof (cDspacingFromTof h mn sA sL sT) sAng t L θ2 * sA := by
    rw [h1, h2, he, hsq, Real.sqrt_sq (by positivity)]
    generalize Real.sin (θ2 * sAng / 2) = s at hs
    field_simp
  exact mul_right_cancel₀ hA.ne' this


/-! ## any two routes through the conversion graph agree (table-driven)

`Gen/TofGraph.lean` is regenerated from `conversion/graph/tof.py:_GRAPH_DYNAMICS_BY_ORIGIN` on every run; re-wiring
an entry makes `table_well_wired` (and with it `derived_is_truth`, `routes_agree`) fail to check. -/

/-- one neutron: constants, flight time (s), flight path (m) and scattering angle (rad) -/
structure Neutron where
  h : ℝ
  mn : ℝ
  t : ℝ
  L : ℝ
  θ : ℝ

structure Neutron.Valid (γ : Neutron) : Prop where
  h : 0 < γ.h
  mn : 0 < γ.mn
  t : 0 < γ.t
  L : 0 < γ.L
  s : 0 < Real.sin (γ.θ / 2)

/-- the physical value (SI) of every scalar coordinate of the elastic graph: the definitions of the property -/
noncomputable def truth (γ : Neutron) : Node → ℝ
  | .tof => γ.t
  | .Ltotal => γ.L
  | .two_theta => γ.θ
  | .wavelength => γ.h * γ.t / (γ.mn * γ.L)
  | .energy => γ.mn * γ.L ^ 2 / (2 * γ.t ^ 2)
  | .dspacing => γ.h * γ.t / (γ.mn * γ.L) / (2 * Real.sin (γ.θ / 2))
  | .Q => 4 * Real.pi * Real.sin (γ.θ / 2) / (γ.h * γ.t / (γ.mn * γ.L))
  | .other _ => 0

theorem truth_pos (γ : Neutron) (hv : γ.Valid) : ∀ n, (∀ x, n ≠ .other x) → n ≠ .two_theta → 0 < truth γ n := by
  have := hv.h; have := hv.mn; have := hv.t; have := hv.L; have := hv.s; have := Real.pi_pos
  intro n hn hθ
  cases n <;> simp only [truth] <;> first | positivity | exact absurd rfl hθ | exact absurd rfl (hn _)

/-- every modelled kernel maps the truth of its inputs (in any units) to the truth of its output (in its
documented unit) -/
theorem kernel_sound (k : KernelId) (γ : Neutron) (hv : γ.Valid) (sA sE : ℝ) (hA : 0 < sA) (hE : 0 < sE)
    (s : Node → ℝ) (hs : ∀ n, 0 < s n) (v : ℝ)
    (hk : kernelSem k ⟨γ.h, γ.mn, sA, sE⟩ s (fun n => truth γ n / s n) = some v) :
    v * outScale k ⟨γ.h, γ.mn, sA, sE⟩ s = truth γ k.output := by
  have hh := hv.h; have hmn := hv.mn; have ht := hv.t; have hL := hv.L; have hsin := hv.s
  have e1 : ∀ n, truth γ n / s n * s n = truth γ n := fun n => by have := hs n; field_simp
  have hθ : truth γ .two_theta / s .two_theta * s .two_theta / 2 = γ.θ / 2 := by rw [e1]; rfl
  have hpos : ∀ n, (∀ x, n ≠ .other x) → n ≠ .two_theta → 0 < truth γ n / s n :=
    fun n h1 h2 => div_pos (truth_pos γ hv n h1 h2) (hs n)
  cases k with
  | wavelength_from_tof =>
    simp only [kernelSem, Option.some.injEq] at hk; subst hk
    simp only [outScale, KernelId.output]
    rw [wavelength_from_tof_def _ _ _ _ _ _ _ hh hmn hA (hs _) (hs _) (hpos .tof (by simp) (by simp)) (hpos .Ltotal (by simp) (by simp)),
      e1, e1]; rfl
  | dspacing_from_tof =>
    simp only [kernelSem, Option.some.injEq] at hk; subst hk
    simp only [outScale, KernelId.output]
    rw [dspacing_from_tof_def _ _ _ _ _ _ _ _ _ hh hmn hA (hs _) (hs _) (hpos .tof (by simp) (by simp)) (hpos .Ltotal (by simp) (by simp))
      (by rw [hθ]; exact hsin), e1, e1, hθ]; rfl
  | energy_from_tof =>
    simp only [kernelSem, Option.some.injEq] at hk; subst hk
    simp only [outScale, KernelId.output]
    rw [energy_from_tof_def _ _ _ _ _ _ hmn hE (hs _) (hs _) (hpos .tof (by simp) (by simp)) (hpos .Ltotal (by simp) (by simp)), e1, e1]; rfl
  | energy_from_wavelength =>
    simp only [kernelSem, Option.some.injEq] at hk; subst hk
    simp only [outScale, KernelId.output]
    rw [energy_from_wavelength_def _ _ _ _ _ hh hmn hE (hs _) (hpos .wavelength (by simp) (by simp)), e1]
    simp only [truth]
    exact (energy_formulas_agree γ.h γ.mn γ.t γ.L hh hmn ht hL).symm
  | wavelength_from_energy =>
    simp only [kernelSem, Option.some.injEq] at hk; subst hk
    simp only [outScale, KernelId.output]
    rw [wavelength_from_energy_def _ _ _ _ _ hh hmn hA (hs _) (hpos .energy (by simp) (by simp)), e1]
    simp only [truth]
    have : 2 * γ.mn * (γ.mn * γ.L ^ 2 / (2 * γ.t ^ 2)) = (γ.mn * γ.L / γ.t) ^ 2 := by field_simp
    rw [this, Real.sqrt_sq (by positivity)]; field_simp
  | Q_from_wavelength =>
    simp only [kernelSem, Option.some.injEq] at hk; subst hk
    simp only [outScale, KernelId.output, i64_real]
    have := Q_from_wavelength_def (s .two_theta) (s .wavelength) (truth γ .wavelength / s .wavelength)
      (truth γ .two_theta / s .two_theta) (hs _) (hpos .wavelength (by simp) (by simp))
    rw [hθ, e1] at this
    have h2 : ∀ q : ℝ, q * (((1:ℕ):ℝ) / s .wavelength) = q / s .wavelength := fun q => by push_cast; ring
    rw [h2, this]; rfl
  | wavelength_from_Q =>
    simp only [kernelSem, Option.some.injEq] at hk; subst hk
    simp only [outScale, KernelId.output, i64_real]
    have hQ : (0:ℝ) < ((1:ℕ):ℝ) / s .Q := by have := hs .Q; positivity
    rw [wavelength_from_Q_def _ _ _ _ _ hQ hA (hpos .Q (by simp) (by simp)), hθ]
    have : truth γ .Q / s .Q / (((1:ℕ):ℝ) / s .Q) = truth γ .Q := by have := hs .Q; push_cast; field_simp
    rw [this]; simp only [truth]
    generalize Real.sin (γ.θ / 2) = sn at hsin
    have := Real.pi_pos
    field_simp
  | dspacing_from_wavelength =>
    simp only [kernelSem, Option.some.injEq] at hk; subst hk
    simp only [outScale, KernelId.output]
    rw [dspacing_from_wavelength_def _ _ _ _ _ hA (hs _) (by rw [hθ]; exact hsin), e1, hθ]; rfl
  | dspacing_from_energy =>
    simp only [kernelSem, Option.some.injEq] at hk; subst hk
    simp only [outScale, KernelId.output]
    rw [dspacing_from_energy_def _ _ _ _ _ _ _ hh hmn hA (hs _) (hpos .energy (by simp) (by simp)) (by rw [hθ]; exact hsin), e1, hθ]
    simp only [truth]
    have : 8 * γ.mn * (γ.mn * γ.L ^ 2 / (2 * γ.t ^ 2)) = (2 * γ.mn * γ.L / γ.t) ^ 2 := by field_simp; ring
    rw [this, Real.sqrt_sq (by positivity)]
    generalize Real.sin (γ.θ / 2) = sn at hsin
    field_simp
  | other n => simp [kernelSem] at hk


/-- the table regenerated from the source is wired as the model expects: each modelled kernel sits under the
quantity it computes and takes exactly the coordinates the model feeds it, and no modelled quantity is produced
by a kernel outside the model.  Re-checked on every run against `Gen/TofGraph.lean`. -/
theorem table_well_wired : Gen.TofGraph.table.all wellWired = true := by decide

/-- what can be computed, and with which value (SI), by chaining entries of the graph table from the three
given coordinates of a neutron — any route, any intermediate units -/
inductive Derived (γ : Neutron) : Node → ℝ → Prop
  | tof : Derived γ .tof γ.t
  | Ltotal : Derived γ .Ltotal γ.L
  | two_theta : Derived γ .two_theta γ.θ
  | step (e : Entry) (he : e ∈ Gen.TofGraph.table) (hk : ∀ n, e.kernel ≠ .other n)
      (sA sE : ℝ) (hA : 0 < sA) (hE : 0 < sE) (s : Node → ℝ) (hs : ∀ n, 0 < s n)
      (env : Node → ℝ) (henv : ∀ i ∈ e.inputs, Derived γ i (env i * s i))
      (v : ℝ) (hv : kernelSem e.kernel ⟨γ.h, γ.mn, sA, sE⟩ s env = some v) (o : Node) (ho : e.outputs = [o]) :
      Derived γ o (v * outScale e.kernel ⟨γ.h, γ.mn, sA, sE⟩ s)

/-- `kernelSem` reads the environment only at the kernel's declared inputs -/
theorem kernelSem_congr (k : KernelId) (c : Consts ℝ) (s env env' : Node → ℝ)
    (h : ∀ i ∈ k.inputs, env i = env' i) : kernelSem k c s env = kernelSem k c s env' := by
  cases k <;> simp only [KernelId.inputs, List.mem_cons, List.mem_nil_iff, or_false, forall_eq_or_imp, forall_eq] at h <;>
    simp only [kernelSem] <;> simp [h]

/-- every value derived along any route is the defining formula of that quantity -/
theorem derived_is_truth (γ : Neutron) (hγ : γ.Valid) (n : Node) (x : ℝ) (hd : Derived γ n x) : x = truth γ n := by
  induction hd with
  | tof => rfl
  | Ltotal => rfl
  | two_theta => rfl
  | step e he hk sA sE hA hE s hs env henv v hv o ho ih =>
    have hw := List.all_eq_true.mp table_well_wired e he
    have hwire : e.inputs = e.kernel.inputs ∧ e.outputs = [e.kernel.output] := by
      unfold wellWired at hw
      cases hke : e.kernel <;> simp_all
    have henv' : ∀ i ∈ e.kernel.inputs, env i = truth γ i / s i := by
      intro i hi
      have := ih i (hwire.1 ▸ hi)
      have hsi := hs i
      field_simp; linarith
    rw [kernelSem_congr e.kernel _ s env (fun n => truth γ n / s n) henv'] at hv
    have := kernel_sound e.kernel γ hγ sA sE hA hE s hs v hv
    have ho' : o = e.kernel.output := by
      have := hwire.2; rw [ho] at this; simpa using this
    rw [this, ho']

/-- **any two routes through the conversion graph to the same quantity agree** -/
theorem routes_agree (γ : Neutron) (hγ : γ.Valid) (n : Node) (x y : ℝ)
    (hx : Derived γ n x) (hy : Derived γ n y) : x = y := by
  rw [derived_is_truth γ hγ n x hx, derived_is_truth γ hγ n y hy]


/-- non-vacuity: a valid neutron (1234.5678 µs over 23.456 m, back-scattering) -/
example : (⟨6.62607015e-34, 1.67492749804e-27, 1234.5678e-6, 23.456, Real.pi⟩ : Neutron).Valid :=
  ⟨by norm_num, by norm_num, by norm_num, by norm_num, by simp⟩

/-- non-vacuity: the wavelength is derivable (route tof → wavelength of the generated table) -/
example (γ : Neutron) : ∃ x, Derived γ .wavelength x :=
  ⟨_, Derived.step ⟨.tof, [.wavelength], .wavelength_from_tof, [.tof, .Ltotal]⟩ (by decide) (by intro n h; cases h)
    1 1 one_pos one_pos (fun _ => 1) (fun _ => one_pos)
    (fun n => match n with | .tof => γ.t | .Ltotal => γ.L | _ => 0)
    (by
      intro i hi
      simp only [List.mem_cons, List.mem_nil_iff, or_false] at hi
      rcases hi with rfl | rfl
      · simpa using Derived.tof
      · simpa using Derived.Ltotal)
    _ rfl .wavelength rfl⟩

/-- non-vacuity: the table really offers two routes to the energy (directly from tof, and from the wavelength) -/
example : (⟨.tof, [.energy], .energy_from_tof, [.tof, .Ltotal]⟩ : Entry) ∈ Gen.TofGraph.table ∧
    (⟨.wavelength, [.energy], .energy_from_wavelength, [.wavelength]⟩ : Entry) ∈ Gen.TofGraph.table := by decide


/-! ## rounding: the kernels under the standard model of floating-point arithmetic

`Fl R` (`Lemmas/FlModel.lean`) runs the *same generic kernel definitions* with every operation rounded in the element
type scipp's promotion rules select (`R : Rounding` is the standard model `fl(x) = x(1+δ)`, `|δ| ≤ u`, as a
hypothesis; no overflow/underflow).  `Approx R u a x k`: the tagged value `a` is the real `x` up to `k` roundings of
size `u`.  With `u = R.u32` the theorems cover every mix of operand types; with `u = R.u64` exactly the calls without
a float32 operand (`TyOk R R.u64 t ↔ t ≠ float32`).  `k ≤ 64` roundings are below 1e-11 (binary64) resp. 1e-5
(binary32): `Fp.Approx.bound_double / bound_single`.  For the angle-dependent kernels the accuracy of the computed
`sin(two_theta/2)` (deg→rad conversion and libm) is a hypothesis (`hsin`), validated by the oracle. -/

section rounding
open ScnVerif.Fp
variable {R : Rounding} {u : ℝ} (hu : R.u64 ≤ u) (hu1 : u < 1)
include hu hu1

theorem wavelength_from_tof_rounding (h mn sA sL sT t L : Fl R)
    (oh : TyOk R u h.ty) (om : TyOk R u mn.ty) (oA : TyOk R u sA.ty) (oL : TyOk R u sL.ty) (oT : TyOk R u sT.ty)
    (ot : TyOk R u t.ty) (ol : TyOk R u L.ty) :
    Approx R u (wavelengthFromTof (cWavelengthFromTof h mn sA sL sT) t L)
      (wavelengthFromTof (cWavelengthFromTof h.val mn.val sA.val sL.val sT.val) t.val L.val) 7 := by
  have E := fun (a : Fl R) (o : TyOk R u a.ty) => Approx.exact hu hu1 a o
  exact Approx.mono hu hu1 (by norm_num)
    (Approx.mul hu hu1 (Approx.cast hu hu1 (Approx.div hu hu1 (Approx.div hu hu1 (Approx.div hu hu1 (E h oh) (E mn om))
      (Approx.div hu hu1 (Approx.mul hu hu1 (E sA oA) (E sL oL)) (E sT oT))) (E L ol)) ot) (E t ot))

theorem dspacing_from_tof_rounding (h mn sA sL sT sAng t L θ : Fl R) (ks : ℕ)
    (oh : TyOk R u h.ty) (om : TyOk R u mn.ty) (oA : TyOk R u sA.ty) (oL : TyOk R u sL.ty) (oT : TyOk R u sT.ty)
    (ot : TyOk R u t.ty) (ol : TyOk R u L.ty)
    (hsin : Approx R u (sinU (asFloatLike θ t / i64 2) sAng) (sinU (asFloatLike θ.val t.val / i64 2) sAng.val) ks) :
    Approx R u (dspacingFromTof (cDspacingFromTof h mn sA sL sT) sAng t L θ)
      (dspacingFromTof (cDspacingFromTof h.val mn.val sA.val sL.val sT.val) sAng.val t.val L.val θ.val) (ks + 10) := by
  have E := fun (a : Fl R) (o : TyOk R u a.ty) => Approx.exact hu hu1 a o
  exact Approx.mono hu hu1 (by omega)
    (Approx.mul hu hu1 (Approx.div hu hu1 (Approx.lit hu hu1 1) (Approx.cast hu hu1 (Approx.mul hu hu1 (Approx.mul hu hu1
      (Approx.div hu hu1 (Approx.div hu hu1 (Approx.mul hu hu1 (Approx.lit hu hu1 2) (E mn om)) (E h oh))
        (Approx.div hu hu1 (Approx.div hu hu1 (E sT oT) (E sA oA)) (E sL oL))) (E L ol)) hsin) ot)) (E t ot))

theorem tyOk_cEnergy {mn sE sL sT : Fl R}
    (om : TyOk R u mn.ty) (oE : TyOk R u sE.ty) (oL : TyOk R u sL.ty) (oT : TyOk R u sT.ty) :
    TyOk R u (cEnergy mn sE sL sT).ty :=
  (Approx.div hu hu1 (Approx.div hu hu1 (Approx.exact hu hu1 mn om) (Approx.lit hu hu1 2))
    (Approx.mul hu hu1 (Approx.exact hu hu1 sE oE)
      (Approx.sq hu hu1 (Approx.div hu hu1 (Approx.exact hu hu1 sT oT) (Approx.exact hu hu1 sL oL))))).1

theorem energy_from_tof_rounding (mn sE sL sT t L : Fl R)
    (om : TyOk R u mn.ty) (oE : TyOk R u sE.ty) (oL : TyOk R u sL.ty) (oT : TyOk R u sT.ty)
    (ot : TyOk R u t.ty) (ol : TyOk R u L.ty) :
    Approx R u (energyFromTof (cEnergy mn sE sL sT) t L)
      (energyFromTof (cEnergy mn.val sE.val sL.val sT.val) t.val L.val) 16 := by
  have E := fun (a : Fl R) (o : TyOk R u a.ty) => Approx.exact hu hu1 a o
  exact Approx.mono hu hu1 (by norm_num)
    (Approx.div hu hu1 (Approx.cast hu hu1 (Approx.mul hu hu1
      (Approx.div hu hu1 (Approx.div hu hu1 (E mn om) (Approx.lit hu hu1 2))
        (Approx.mul hu hu1 (E sE oE) (Approx.sq hu hu1 (Approx.div hu hu1 (E sT oT) (E sL oL)))))
      (Approx.sq hu hu1 (Approx.cast hu hu1 (E L ol) (tyOk_cEnergy hu hu1 om oE oL oT)))) ot)
      (Approx.sqSame hu hu1 (Approx.cast hu hu1 (E t ot) ot)))

theorem energy_from_wavelength_rounding (h mn sE sW w : Fl R)
    (oh : TyOk R u h.ty) (om : TyOk R u mn.ty) (oE : TyOk R u sE.ty) (oW : TyOk R u sW.ty) (ow : TyOk R u w.ty) :
    Approx R u (energyFromWavelength (cEnergyFromWavelength h mn sE sW w) w)
      (energyFromWavelength (cEnergyFromWavelength h.val mn.val sE.val sW.val w.val) w.val) 10 := by
  have E := fun (a : Fl R) (o : TyOk R u a.ty) => Approx.exact hu hu1 a o
  exact Approx.mono hu hu1 (by norm_num)
    (Approx.div hu hu1 (Approx.cast hu hu1 (Approx.div hu hu1
      (Approx.div hu hu1 (Approx.div hu hu1 (Approx.sq hu hu1 (E h oh)) (Approx.lit hu hu1 2)) (E mn om))
      (Approx.mul hu hu1 (E sE oE) (Approx.sq hu hu1 (E sW oW)))) ow) (Approx.sq hu hu1 (E w ow)))

theorem wavelength_from_energy_rounding (h mn sA sE e : Fl R)
    (oh : TyOk R u h.ty) (om : TyOk R u mn.ty) (oA : TyOk R u sA.ty) (oE : TyOk R u sE.ty) (oe : TyOk R u e.ty)
    (hpos : 0 ≤ cWavelengthFromEnergy h.val mn.val sA.val sE.val e.val / e.val) :
    Approx R u (wavelengthFromEnergy (cWavelengthFromEnergy h mn sA sE e) e)
      (wavelengthFromEnergy (cWavelengthFromEnergy h.val mn.val sA.val sE.val e.val) e.val) 10 := by
  have E := fun (a : Fl R) (o : TyOk R u a.ty) => Approx.exact hu hu1 a o
  exact Approx.mono hu hu1 (by norm_num)
    (Approx.sqrt hu hu1 hpos (Approx.div hu hu1 (Approx.cast hu hu1 (Approx.div hu hu1
      (Approx.div hu hu1 (Approx.div hu hu1 (Approx.sq hu hu1 (E h oh)) (Approx.lit hu hu1 2)) (E mn om))
      (Approx.mul hu hu1 (Approx.sq hu hu1 (E sA oA)) (E sE oE))) oe) (E e oe)))

theorem Q_from_wavelength_rounding (sAng w θ : Fl R) (ks : ℕ) (ow : TyOk R u w.ty)
    (hpi : RelErr u 1 R.fpi Real.pi)
    (hsin : Approx R u (sinU (asFloatLike θ w / i64 2) sAng) (sinU (asFloatLike θ.val w.val / i64 2) sAng.val) ks) :
    Approx R u (qFromWavelength sAng w θ) (qFromWavelength sAng.val w.val θ.val) (ks + 6) := by
  have E := fun (a : Fl R) (o : TyOk R u a.ty) => Approx.exact hu hu1 a o
  have P : Approx R u (Trans.pi : Fl R) (Trans.pi : ℝ) 1 := ⟨(by intro h; cases h), hpi⟩
  exact Approx.mono hu hu1 (by omega)
    (Approx.div hu hu1 (Approx.mul hu hu1 (Approx.cast hu hu1 (Approx.mul hu hu1 (Approx.lit hu hu1 4) P) ow) hsin) (E w ow))

theorem wavelength_from_Q_rounding (sAng sQinv sA q θ : Fl R) (ks : ℕ) (oq : TyOk R u q.ty)
    (oQ : TyOk R u sQinv.ty) (oA : TyOk R u sA.ty) (hpi : RelErr u 1 R.fpi Real.pi)
    (hsin : Approx R u (sinU (asFloatLike θ q / i64 2) sAng) (sinU (asFloatLike θ.val q.val / i64 2) sAng.val) ks) :
    Approx R u (wavelengthFromQ sAng sQinv sA q θ) (wavelengthFromQ sAng.val sQinv.val sA.val q.val θ.val) (ks + 9) := by
  have E := fun (a : Fl R) (o : TyOk R u a.ty) => Approx.exact hu hu1 a o
  have hr := Q_from_wavelength_rounding hu hu1 sAng q θ ks oq hpi hsin
  exact Approx.mono hu hu1 (by omega)
    (Approx.mul hu hu1 hr (Approx.cast hu hu1 (Approx.div hu hu1 (E sQinv oQ) (E sA oA)) hr.1))

theorem dspacing_from_wavelength_rounding (sA sW sAng w θ : Fl R) (ks : ℕ)
    (oA : TyOk R u sA.ty) (oW : TyOk R u sW.ty) (ow : TyOk R u w.ty)
    (hsin : Approx R u (sinU (asFloatLike θ w / i64 2) sAng) (sinU (asFloatLike θ.val w.val / i64 2) sAng.val) ks) :
    Approx R u (dspacingFromWavelength (cDspacingFromWavelength sA sW w) sAng w θ)
      (dspacingFromWavelength (cDspacingFromWavelength sA.val sW.val w.val) sAng.val w.val θ.val) (ks + 5) := by
  have E := fun (a : Fl R) (o : TyOk R u a.ty) => Approx.exact hu hu1 a o
  exact Approx.mono hu hu1 (by omega)
    (Approx.div hu hu1 (Approx.mul hu hu1 (Approx.cast hu hu1 (Approx.div hu hu1 (Approx.half hu hu1)
      (Approx.div hu hu1 (E sA oA) (E sW oW))) ow) (E w ow)) hsin)

theorem dspacing_from_energy_rounding (h mn sA sE sAng e θ : Fl R) (ks : ℕ)
    (oh : TyOk R u h.ty) (om : TyOk R u mn.ty) (oA : TyOk R u sA.ty) (oE : TyOk R u sE.ty) (oe : TyOk R u e.ty)
    (hpos : 0 ≤ cDspacingFromEnergy h.val mn.val sA.val sE.val e.val / e.val)
    (hsin : Approx R u (sinU (asFloatLike θ e / i64 2) sAng) (sinU (asFloatLike θ.val e.val / i64 2) sAng.val) ks) :
    Approx R u (dspacingFromEnergy (cDspacingFromEnergy h mn sA sE e) sAng e θ)
      (dspacingFromEnergy (cDspacingFromEnergy h.val mn.val sA.val sE.val e.val) sAng.val e.val θ.val) (ks + 11) := by
  have E := fun (a : Fl R) (o : TyOk R u a.ty) => Approx.exact hu hu1 a o
  exact Approx.mono hu hu1 (by omega)
    (Approx.div hu hu1 (Approx.sqrt hu hu1 hpos (Approx.div hu hu1 (Approx.cast hu hu1 (Approx.div hu hu1
      (Approx.div hu hu1 (Approx.div hu hu1 (Approx.sq hu hu1 (E h oh)) (Approx.lit hu hu1 8)) (E mn om))
      (Approx.mul hu hu1 (Approx.sq hu hu1 (E sA oA)) (E sE oE))) oe) (E e oe))) hsin)

end rounding

section headline
open ScnVerif.Fp

/-- the rounding clause for `wavelength_from_tof`, double precision: binary64 standard model, no float32 operand
⇒ the computed wavelength is within 1e-11 (relative) of the exact value of the kernel, which is
`h t / (m_n L)` in ångström by `wavelength_from_tof_def` -/
theorem wavelength_from_tof_within_1e11 (R : Rounding) (h64 : R.u64 = (2 : ℝ)⁻¹ ^ 53) (h mn sA sL sT t L : Fl R)
    (ok : ∀ a ∈ [h, mn, sA, sL, sT, t, L], a.ty ≠ .f32) :
    |(wavelengthFromTof (cWavelengthFromTof h mn sA sL sT) t L).val
        - wavelengthFromTof (cWavelengthFromTof h.val mn.val sA.val sL.val sT.val) t.val L.val|
      ≤ 1e-11 * |wavelengthFromTof (cWavelengthFromTof h.val mn.val sA.val sL.val sT.val) t.val L.val| := by
  have o := fun a ha => tyOk_double (R := R) (ok a ha)
  exact Approx.bound_double h64 (by norm_num)
    (wavelength_from_tof_rounding le_rfl (lt_of_le_of_lt R.h64 R.h32) h mn sA sL sT t L
      (o _ (by simp)) (o _ (by simp)) (o _ (by simp)) (o _ (by simp)) (o _ (by simp)) (o _ (by simp)) (o _ (by simp)))

/-- … and single precision: any operand types, binary32 standard model ⇒ within 1e-5 -/
theorem wavelength_from_tof_within_1e5 (R : Rounding) (h32 : R.u32 = (2 : ℝ)⁻¹ ^ 24) (h mn sA sL sT t L : Fl R) :
    |(wavelengthFromTof (cWavelengthFromTof h mn sA sL sT) t L).val
        - wavelengthFromTof (cWavelengthFromTof h.val mn.val sA.val sL.val sT.val) t.val L.val|
      ≤ 1e-5 * |wavelengthFromTof (cWavelengthFromTof h.val mn.val sA.val sL.val sT.val) t.val L.val| :=
  Approx.bound_single h32 (by norm_num)
    (wavelength_from_tof_rounding R.h64 R.h32 h mn sA sL sT t L (tyOk_single _) (tyOk_single _) (tyOk_single _)
      (tyOk_single _) (tyOk_single _) (tyOk_single _) (tyOk_single _))

theorem energy_from_tof_within_1e11 (R : Rounding) (h64 : R.u64 = (2 : ℝ)⁻¹ ^ 53) (mn sE sL sT t L : Fl R)
    (ok : ∀ a ∈ [mn, sE, sL, sT, t, L], a.ty ≠ .f32) :
    |(energyFromTof (cEnergy mn sE sL sT) t L).val - energyFromTof (cEnergy mn.val sE.val sL.val sT.val) t.val L.val|
      ≤ 1e-11 * |energyFromTof (cEnergy mn.val sE.val sL.val sT.val) t.val L.val| := by
  have o := fun a ha => tyOk_double (R := R) (ok a ha)
  exact Approx.bound_double h64 (by norm_num)
    (energy_from_tof_rounding le_rfl (lt_of_le_of_lt R.h64 R.h32) mn sE sL sT t L
      (o _ (by simp)) (o _ (by simp)) (o _ (by simp)) (o _ (by simp)) (o _ (by simp)) (o _ (by simp)))

theorem energy_from_tof_within_1e5 (R : Rounding) (h32 : R.u32 = (2 : ℝ)⁻¹ ^ 24) (mn sE sL sT t L : Fl R) :
    |(energyFromTof (cEnergy mn sE sL sT) t L).val - energyFromTof (cEnergy mn.val sE.val sL.val sT.val) t.val L.val|
      ≤ 1e-5 * |energyFromTof (cEnergy mn.val sE.val sL.val sT.val) t.val L.val| :=
  Approx.bound_single h32 (by norm_num)
    (energy_from_tof_rounding R.h64 R.h32 mn sE sL sT t L (tyOk_single _) (tyOk_single _) (tyOk_single _)
      (tyOk_single _) (tyOk_single _) (tyOk_single _))

/-- with the sine accurate to `ks ≤ 50` roundings, `dspacing_from_tof` is within 1e-11 in double precision -/
theorem dspacing_from_tof_within_1e11 (R : Rounding) (h64 : R.u64 = (2 : ℝ)⁻¹ ^ 53) (h mn sA sL sT sAng t L θ : Fl R)
    (ks : ℕ) (hks : ks ≤ 50) (ok : ∀ a ∈ [h, mn, sA, sL, sT, t, L], a.ty ≠ .f32)
    (hsin : Approx R R.u64 (sinU (asFloatLike θ t / i64 2) sAng) (sinU (asFloatLike θ.val t.val / i64 2) sAng.val) ks) :
    |(dspacingFromTof (cDspacingFromTof h mn sA sL sT) sAng t L θ).val
        - dspacingFromTof (cDspacingFromTof h.val mn.val sA.val sL.val sT.val) sAng.val t.val L.val θ.val|
      ≤ 1e-11 * |dspacingFromTof (cDspacingFromTof h.val mn.val sA.val sL.val sT.val) sAng.val t.val L.val θ.val| := by
  have o := fun a ha => tyOk_double (R := R) (ok a ha)
  exact Approx.bound_double h64 (by omega)
    (dspacing_from_tof_rounding le_rfl (lt_of_le_of_lt R.h64 R.h32) h mn sA sL sT sAng t L θ ks
      (o _ (by simp)) (o _ (by simp)) (o _ (by simp)) (o _ (by simp)) (o _ (by simp)) (o _ (by simp)) (o _ (by simp)) hsin)

/-- non-vacuity: the standard model has an instance, and float64 operands satisfy the type hypotheses -/
example : ∃ R : Rounding, R.u64 = (2 : ℝ)⁻¹ ^ 53 ∧ R.u32 = (2 : ℝ)⁻¹ ^ 24 := ⟨Rounding.exact, rfl, rfl⟩
example (R : Rounding) (a : Fl R) (h : a.ty = .f64) : a.ty ≠ .f32 := by rw [h]; decide

end headline

end ScnVerif.Props.C01
