import ScnVerif.Model.Inelastic
import ScnVerif.Real.Basic
import ScnVerif.Lemmas.Inelastic
import ScnVerif.Lemmas.FloatGap
import ScnVerif.Lemmas.InelasticRounding
import Mathlib.Tactic.FieldSimp
import Mathlib.Tactic.Ring
import Mathlib.Tactic.Linarith
import Mathlib.Tactic.Positivity
import Mathlib.Tactic.NormNum
/-!
# C05 — inelastic energy transfer conserves energy; NaN exactly for unphysical times; never infinite

Carrier `ℝ`, all casts the identity.  Quantities are numeric values in arbitrary units:
`sE st sL1 sL2 > 0` are the SI scales of the energy, time and the two length units, `m > 0` the
neutron mass (SI), so `E·sE`, `tof·st`, `L·sL` are the physical quantities and the constants the
code obtains from `sc.to_unit(m_n/2, unit(E)·(unit(t)/unit(L))²)` are `energyConstant (m/2) sE st sL`.
`speed m E = √(2E/m)`.
-/
namespace ScnVerif.Props.C05
open ScnVerif ScnVerif.Inelastic ScnVerif.Lemmas.Inelastic ScnVerif.FloatGap ScnVerif.Fp
  ScnVerif.Lemmas.InelasticRounding

/-! ## the fixed-energy leg -/

/-- `_energy_transfer_t0` is the flight time of the fixed-energy leg: `t0·s_t = L·s_L / v(E·s_E)`,
for every choice of units -/
theorem t0_is_flight_time (m sE st sL E L : ℝ) (hm : 0 < m) (hsE : 0 < sE) (hst : 0 < st) (hsL : 0 < sL)
    (hE : 0 < E) :
    energyTransferT0 (Casts.id ℝ) (LenCast.id ℝ) (energyConstant (m / 2) sE st sL) E L * st
      = L * sL / speed m (E * sE) := by
  simp only [energyTransferT0, energyConstant, Casts.id, LenCast.id, trans_sqrt_real, speed]
  have h1 : m / 2 / (sE * (st / sL * (st / sL))) / E = (sL / st) ^ 2 * (m / (2 * (E * sE))) := by
    field_simp
  have h2 : 2 * (E * sE) / m = (m / (2 * (E * sE)))⁻¹ := by field_simp
  rw [h1, h2, Real.sqrt_mul (by positivity), Real.sqrt_sq (by positivity), Real.sqrt_inv]
  have : 0 < Real.sqrt (m / (2 * (E * sE))) := Real.sqrt_pos.mpr (by positivity)
  field_simp

/-! ## energy conservation -/

/-- direct geometry: a neutron that flies `L1` with `Ei` and `L2` with `Ef` and arrives at
`t = L1/v(Ei) + L2/v(Ef)` is assigned exactly `Ei − Ef`, in the unit of `Ei`, whatever the units -/
theorem direct_conserves_energy (m sE st sL1 sL2 tof L1 L2 Ei Ef : ℝ)
    (hm : 0 < m) (hsE : 0 < sE) (hst : 0 < st) (hsL1 : 0 < sL1) (hsL2 : 0 < sL2)
    (hL2 : 0 < L2) (hEi : 0 < Ei) (hEf : 0 < Ef)
    (ht : tof * st = L1 * sL1 / speed m (Ei * sE) + L2 * sL2 / speed m (Ef * sE)) :
    directFromUnits (m / 2) sE st sL1 sL2 tof L1 L2 Ei = some (Ei - Ef) := by
  have h0 := t0_is_flight_time m sE st sL1 Ei L1 hm hsE hst hsL1 hEi
  unfold directFromUnits
  rw [direct_unfold]
  set t0 := energyTransferT0 (Casts.id ℝ) (LenCast.id ℝ) (energyConstant (m / 2) sE st sL1) Ei L1
  have hδ : (tof - t0) * st = L2 * sL2 / speed m (Ef * sE) := by rw [sub_mul, ht, h0]; ring
  have hpos : 0 < (tof - t0) * st := by
    rw [hδ]; exact div_pos (mul_pos hL2 hsL2) (speed_pos hm (mul_pos hEf hsE))
  have hpos' : 0 < tof - t0 := (mul_pos_iff_of_pos_right hst).mp hpos
  rw [if_neg (not_le.mpr hpos'), scale_over_delta_sq m sE st sL2 L2 Ef _ hm hsE hst hsL2 hL2 hEf hδ]

/-- indirect geometry: the same neutron, given `Ef`, is assigned exactly `Ei − Ef` -/
theorem indirect_conserves_energy (m sE st sL1 sL2 tof L1 L2 Ei Ef : ℝ)
    (hm : 0 < m) (hsE : 0 < sE) (hst : 0 < st) (hsL1 : 0 < sL1) (hsL2 : 0 < sL2)
    (hL1 : 0 < L1) (hEi : 0 < Ei) (hEf : 0 < Ef)
    (ht : tof * st = L1 * sL1 / speed m (Ei * sE) + L2 * sL2 / speed m (Ef * sE)) :
    indirectFromUnits (m / 2) sE st sL1 sL2 tof L1 L2 Ef = some (Ei - Ef) := by
  have h0 := t0_is_flight_time m sE st sL2 Ef L2 hm hsE hst hsL2 hEf
  unfold indirectFromUnits
  rw [indirect_unfold]
  set t0 := energyTransferT0 (Casts.id ℝ) (LenCast.id ℝ) (energyConstant (m / 2) sE st sL2) Ef L2
  have hδ : (-t0 + tof) * st = L1 * sL1 / speed m (Ei * sE) := by rw [add_mul, ht, neg_mul, h0]; ring
  have hpos : 0 < (-t0 + tof) * st := by
    rw [hδ]; exact div_pos (mul_pos hL1 hsL1) (speed_pos hm (mul_pos hEi hsE))
  have hpos' : 0 < -t0 + tof := (mul_pos_iff_of_pos_right hst).mp hpos
  rw [if_neg (not_le.mpr hpos'), scale_over_delta_sq m sE st sL1 L1 Ei _ hm hsE hst hsL1 hL1 hEi hδ]

/-- the two geometries agree on the same neutron (corollary) -/
theorem direct_indirect_agree (m sE st sL1 sL2 tof L1 L2 Ei Ef : ℝ)
    (hm : 0 < m) (hsE : 0 < sE) (hst : 0 < st) (hsL1 : 0 < sL1) (hsL2 : 0 < sL2)
    (hL1 : 0 < L1) (hL2 : 0 < L2) (hEi : 0 < Ei) (hEf : 0 < Ef)
    (ht : tof * st = L1 * sL1 / speed m (Ei * sE) + L2 * sL2 / speed m (Ef * sE)) :
    directFromUnits (m / 2) sE st sL1 sL2 tof L1 L2 Ei
      = indirectFromUnits (m / 2) sE st sL1 sL2 tof L1 L2 Ef := by
  rw [direct_conserves_energy m sE st sL1 sL2 tof L1 L2 Ei Ef hm hsE hst hsL1 hsL2 hL2 hEi hEf ht,
    indirect_conserves_energy m sE st sL1 sL2 tof L1 L2 Ei Ef hm hsE hst hsL1 hsL2 hL1 hEi hEf ht]

/-! ## the value for every physical arrival time (documented formula, every unit) -/

/-- direct: for every arrival time after `t0` the result `r` satisfies
`r·s_E = Ei·s_E − (m/2)·(L2·s_L2)² / (t·s_t − L1·s_L1/v(Ei·s_E))²` — a statement about physical
quantities only, hence the result does not depend on the units the operands are given in -/
theorem direct_value (m sE st sL1 sL2 tof L1 L2 Ei : ℝ)
    (hm : 0 < m) (hsE : 0 < sE) (hst : 0 < st) (hsL1 : 0 < sL1) (hsL2 : 0 < sL2) (hEi : 0 < Ei)
    (ht : L1 * sL1 / speed m (Ei * sE) < tof * st) :
    ∃ r, directFromUnits (m / 2) sE st sL1 sL2 tof L1 L2 Ei = some r ∧
      r * sE = Ei * sE - m / 2 * (L2 * sL2) ^ 2 / (tof * st - L1 * sL1 / speed m (Ei * sE)) ^ 2 := by
  have h0 := t0_is_flight_time m sE st sL1 Ei L1 hm hsE hst hsL1 hEi
  unfold directFromUnits
  rw [direct_unfold]
  set t0 := energyTransferT0 (Casts.id ℝ) (LenCast.id ℝ) (energyConstant (m / 2) sE st sL1) Ei L1
  have hδ : (tof - t0) * st = tof * st - L1 * sL1 / speed m (Ei * sE) := by rw [sub_mul, h0]
  have hP : 0 < tof * st - L1 * sL1 / speed m (Ei * sE) := by linarith
  have hpos' : 0 < tof - t0 := (mul_pos_iff_of_pos_right hst).mp (hδ ▸ hP)
  rw [if_neg (not_le.mpr hpos')]
  refine ⟨_, rfl, ?_⟩
  rw [sub_mul, scale_over_delta_sq_phys m sE st sL2 L2 _ _ hsE hst hsL2 hP hδ]

/-- indirect: `r·s_E = (m/2)·(L1·s_L1)² / (t·s_t − L2·s_L2/v(Ef·s_E))² − Ef·s_E` -/
theorem indirect_value (m sE st sL1 sL2 tof L1 L2 Ef : ℝ)
    (hm : 0 < m) (hsE : 0 < sE) (hst : 0 < st) (hsL1 : 0 < sL1) (hsL2 : 0 < sL2) (hEf : 0 < Ef)
    (ht : L2 * sL2 / speed m (Ef * sE) < tof * st) :
    ∃ r, indirectFromUnits (m / 2) sE st sL1 sL2 tof L1 L2 Ef = some r ∧
      r * sE = m / 2 * (L1 * sL1) ^ 2 / (tof * st - L2 * sL2 / speed m (Ef * sE)) ^ 2 - Ef * sE := by
  have h0 := t0_is_flight_time m sE st sL2 Ef L2 hm hsE hst hsL2 hEf
  unfold indirectFromUnits
  rw [indirect_unfold]
  set t0 := energyTransferT0 (Casts.id ℝ) (LenCast.id ℝ) (energyConstant (m / 2) sE st sL2) Ef L2
  have hδ : (-t0 + tof) * st = tof * st - L2 * sL2 / speed m (Ef * sE) := by
    rw [add_mul, neg_mul, h0]; ring
  have hP : 0 < tof * st - L2 * sL2 / speed m (Ef * sE) := by linarith
  have hpos' : 0 < -t0 + tof := (mul_pos_iff_of_pos_right hst).mp (hδ ▸ hP)
  rw [if_neg (not_le.mpr hpos')]
  refine ⟨_, rfl, ?_⟩
  rw [sub_mul, scale_over_delta_sq_phys m sE st sL1 L1 _ _ hsE hst hsL1 hP hδ]

/-! ## NaN exactly for unphysical times -/

/-- direct: NaN (`none`) exactly when the arrival time is at or before the flight time of the
incident leg, in physical units and for every choice of units -/
theorem direct_nan_iff (m sE st sL1 sL2 tof L1 L2 Ei : ℝ)
    (hm : 0 < m) (hsE : 0 < sE) (hst : 0 < st) (hsL1 : 0 < sL1) (hEi : 0 < Ei) :
    directFromUnits (m / 2) sE st sL1 sL2 tof L1 L2 Ei = none
      ↔ tof * st ≤ L1 * sL1 / speed m (Ei * sE) := by
  have h0 := t0_is_flight_time m sE st sL1 Ei L1 hm hsE hst hsL1 hEi
  unfold directFromUnits
  rw [direct_unfold, ← h0]
  set t0 := energyTransferT0 (Casts.id ℝ) (LenCast.id ℝ) (energyConstant (m / 2) sE st sL1) Ei L1
  rw [mul_le_mul_iff_left₀ hst]
  constructor
  · intro h
    by_contra hc
    rw [if_neg (by linarith)] at h
    exact Option.some_ne_none _ h
  · intro h
    rw [if_pos (by linarith)]

/-- indirect: NaN exactly when the arrival time is at or before the flight time of the final leg -/
theorem indirect_nan_iff (m sE st sL1 sL2 tof L1 L2 Ef : ℝ)
    (hm : 0 < m) (hsE : 0 < sE) (hst : 0 < st) (hsL2 : 0 < sL2) (hEf : 0 < Ef) :
    indirectFromUnits (m / 2) sE st sL1 sL2 tof L1 L2 Ef = none
      ↔ tof * st ≤ L2 * sL2 / speed m (Ef * sE) := by
  have h0 := t0_is_flight_time m sE st sL2 Ef L2 hm hsE hst hsL2 hEf
  unfold indirectFromUnits
  rw [indirect_unfold, ← h0]
  set t0 := energyTransferT0 (Casts.id ℝ) (LenCast.id ℝ) (energyConstant (m / 2) sE st sL2) Ef L2
  rw [mul_le_mul_iff_left₀ hst]
  constructor
  · intro h
    by_contra hc
    rw [if_neg (by linarith)] at h
    exact Option.some_ne_none _ h
  · intro h
    rw [if_pos (by linarith)]

/-! ## unit independence -/

/-- unit independence: the same physical operands expressed in two unit systems give the same
physical result (NaN in both, or the same energy) -/
theorem direct_unit_independent (m sE st sL1 sL2 tof L1 L2 Ei sE' st' sL1' sL2' tof' L1' L2' Ei' : ℝ)
    (hm : 0 < m) (hsE : 0 < sE) (hst : 0 < st) (hsL1 : 0 < sL1) (hsL2 : 0 < sL2) (hEi : 0 < Ei)
    (hsE' : 0 < sE') (hst' : 0 < st') (hsL1' : 0 < sL1') (hsL2' : 0 < sL2') (hEi' : 0 < Ei')
    (ht : tof * st = tof' * st') (h1 : L1 * sL1 = L1' * sL1') (h2 : L2 * sL2 = L2' * sL2')
    (hE : Ei * sE = Ei' * sE') :
    (directFromUnits (m / 2) sE st sL1 sL2 tof L1 L2 Ei).map (· * sE)
      = (directFromUnits (m / 2) sE' st' sL1' sL2' tof' L1' L2' Ei').map (· * sE') := by
  by_cases hc : tof * st ≤ L1 * sL1 / speed m (Ei * sE)
  · have ha := (direct_nan_iff m sE st sL1 sL2 tof L1 L2 Ei hm hsE hst hsL1 hEi).mpr hc
    have hb := (direct_nan_iff m sE' st' sL1' sL2' tof' L1' L2' Ei' hm hsE' hst' hsL1' hEi').mpr
      (by rw [← ht, ← h1, ← hE]; exact hc)
    rw [ha, hb]; rfl
  · push Not at hc
    obtain ⟨r, hr, hv⟩ := direct_value m sE st sL1 sL2 tof L1 L2 Ei hm hsE hst hsL1 hsL2 hEi hc
    obtain ⟨r', hr', hv'⟩ := direct_value m sE' st' sL1' sL2' tof' L1' L2' Ei' hm hsE' hst' hsL1' hsL2' hEi'
      (by rw [← ht, ← h1, ← hE]; exact hc)
    rw [hr, hr']
    simp only [Option.map_some]
    rw [hv, hv', ht, h1, h2, hE]

/-- unit independence, indirect geometry -/
theorem indirect_unit_independent (m sE st sL1 sL2 tof L1 L2 Ef sE' st' sL1' sL2' tof' L1' L2' Ef' : ℝ)
    (hm : 0 < m) (hsE : 0 < sE) (hst : 0 < st) (hsL1 : 0 < sL1) (hsL2 : 0 < sL2) (hEf : 0 < Ef)
    (hsE' : 0 < sE') (hst' : 0 < st') (hsL1' : 0 < sL1') (hsL2' : 0 < sL2') (hEf' : 0 < Ef')
    (ht : tof * st = tof' * st') (h1 : L1 * sL1 = L1' * sL1') (h2 : L2 * sL2 = L2' * sL2')
    (hE : Ef * sE = Ef' * sE') :
    (indirectFromUnits (m / 2) sE st sL1 sL2 tof L1 L2 Ef).map (· * sE)
      = (indirectFromUnits (m / 2) sE' st' sL1' sL2' tof' L1' L2' Ef').map (· * sE') := by
  by_cases hc : tof * st ≤ L2 * sL2 / speed m (Ef * sE)
  · have ha := (indirect_nan_iff m sE st sL1 sL2 tof L1 L2 Ef hm hsE hst hsL2 hEf).mpr hc
    have hb := (indirect_nan_iff m sE' st' sL1' sL2' tof' L1' L2' Ef' hm hsE' hst' hsL2' hEf').mpr
      (by rw [← ht, ← h2, ← hE]; exact hc)
    rw [ha, hb]; rfl
  · push Not at hc
    obtain ⟨r, hr, hv⟩ := indirect_value m sE st sL1 sL2 tof L1 L2 Ef hm hsE hst hsL1 hsL2 hEf hc
    obtain ⟨r', hr', hv'⟩ := indirect_value m sE' st' sL1' sL2' tof' L1' L2' Ef' hm hsE' hst' hsL1' hsL2' hEf'
      (by rw [← ht, ← h2, ← hE]; exact hc)
    rw [hr, hr']
    simp only [Option.map_some]
    rw [hv, hv', ht, h1, h2, hE]

/-! ## never infinite next to the boundary -/

/-- Whatever rounding the subtraction uses (any monotone `fl` fixing the precision-`p` floats): if
the arrival time `t` and the computed `t0 > 0` are floats and `t0 < t`, the computed
`δ = fl (t − t0)` is positive, at least `t0·2^-p`, and the variable-leg energy `scale/δ²` is at
most `scale/t0²·4^p` — bounded, hence finite whenever `scale/t0² < max/4^p`. -/
theorem never_infinite {p : ℕ} (fl : ℝ → ℝ) (hmono : Monotone fl) (hfix : ∀ z, IsFloat p z → fl z = z)
    (t t0 scale : ℝ) (ht : IsFloat p t) (ht0 : IsFloat p t0) (h0 : 0 < t0) (hlt : t0 < t)
    (hs : 0 ≤ scale) :
    0 < fl (t - t0) ∧
      scale / (fl (t - t0) * fl (t - t0)) ≤ scale / (t0 * t0) / ((2 : ℝ) ^ (-(p : ℤ)) * (2 : ℝ) ^ (-(p : ℤ))) := by
  have hgap := rounded_gap fl hmono hfix ht0 ht h0 hlt
  have hu : (0 : ℝ) < (2 : ℝ) ^ (-(p : ℤ)) := zpow_pos (by norm_num) _
  exact ⟨lt_of_lt_of_le (mul_pos h0 hu) hgap, div_sq_le_of_gap scale t0 _ _ hs h0 hu hgap⟩

/-- double precision, the property's ranges: `scale/t0² = E_fixed·(L_var/L_fixed)² ≤ 1e4·(1e3/0.1)²`
(in meV; smaller in eV, J) gives `scale/δ² < 1e44`, far below the overflow threshold 1.8e308 -/
theorem never_infinite_double (scale t0 δ : ℝ) (hs : 0 ≤ scale) (h0 : 0 < t0)
    (hδ : t0 * (2 : ℝ) ^ (-(53 : ℕ) : ℤ) ≤ δ) (hr : scale / (t0 * t0) ≤ 1e12) :
    scale / (δ * δ) < 1e44 := by
  have hu : (0 : ℝ) < (2 : ℝ) ^ (-(53 : ℕ) : ℤ) := zpow_pos (by norm_num) _
  have h := div_sq_le_of_gap scale t0 δ _ hs h0 hu hδ
  have h2 : scale / (t0 * t0) / ((2 : ℝ) ^ (-(53 : ℕ) : ℤ) * (2 : ℝ) ^ (-(53 : ℕ) : ℤ))
      ≤ 1e12 / ((2 : ℝ) ^ (-(53 : ℕ) : ℤ) * (2 : ℝ) ^ (-(53 : ℕ) : ℤ)) :=
    div_le_div_of_nonneg_right hr (mul_pos hu hu).le
  have h3 : (1e12 : ℝ) / ((2 : ℝ) ^ (-(53 : ℕ) : ℤ) * (2 : ℝ) ^ (-(53 : ℕ) : ℤ)) < 1e44 := by
    norm_num
  linarith

/-- single precision: `scale/δ² < 1e27`, below the float32 overflow threshold 3.4e38 -/
theorem never_infinite_single (scale t0 δ : ℝ) (hs : 0 ≤ scale) (h0 : 0 < t0)
    (hδ : t0 * (2 : ℝ) ^ (-(24 : ℕ) : ℤ) ≤ δ) (hr : scale / (t0 * t0) ≤ 1e12) :
    scale / (δ * δ) < 1e27 := by
  have hu : (0 : ℝ) < (2 : ℝ) ^ (-(24 : ℕ) : ℤ) := zpow_pos (by norm_num) _
  have h := div_sq_le_of_gap scale t0 δ _ hs h0 hu hδ
  have h2 : scale / (t0 * t0) / ((2 : ℝ) ^ (-(24 : ℕ) : ℤ) * (2 : ℝ) ^ (-(24 : ℕ) : ℤ))
      ≤ 1e12 / ((2 : ℝ) ^ (-(24 : ℕ) : ℤ) * (2 : ℝ) ^ (-(24 : ℕ) : ℤ)) :=
    div_le_div_of_nonneg_right hr (mul_pos hu hu).le
  have h3 : (1e12 : ℝ) / ((2 : ℝ) ^ (-(24 : ℕ) : ℤ) * (2 : ℝ) ^ (-(24 : ℕ) : ℤ)) < 1e27 := by
    norm_num
  linarith

/-- `scale/t0²` of the model is the fixed energy times the squared ratio of the physical leg
lengths — the quantity bounded by `1e12` in the two theorems above -/
theorem scale_over_t0_sq (m sE st sL1 sL2 L1 L2 E : ℝ) (hm : 0 < m) (hsE : 0 < sE) (hst : 0 < st)
    (hsL1 : 0 < sL1) (hsL2 : 0 < sL2) (hL1 : 0 < L1) (hE : 0 < E) :
    energyConstant (m / 2) sE st sL2 * (L2 * L2) /
        (energyTransferT0 (Casts.id ℝ) (LenCast.id ℝ) (energyConstant (m / 2) sE st sL1) E L1
          * energyTransferT0 (Casts.id ℝ) (LenCast.id ℝ) (energyConstant (m / 2) sE st sL1) E L1)
      = E * ((L2 * sL2) / (L1 * sL1)) ^ 2 := by
  have h0 := t0_is_flight_time m sE st sL1 E L1 hm hsE hst hsL1 hE
  have hv := speed_pos hm (mul_pos hE hsE)
  have hv2 := speed_sq hm (mul_pos hE hsE)
  set t0 := energyTransferT0 (Casts.id ℝ) (LenCast.id ℝ) (energyConstant (m / 2) sE st sL1) E L1
  have ht0 : t0 = L1 * sL1 / speed m (E * sE) / st := by rw [eq_div_iff hst.ne', h0]
  generalize speed m (E * sE) = v at *
  rw [ht0]
  simp only [energyConstant]
  field_simp
  field_simp at hv2
  nlinarith [hv2]

/-! ## rounding under the standard model, away from the boundary -/

/-- Standard model of rounding, direct geometry, away from the boundary: for the neutron of
`direct_conserves_energy`, a floating-point evaluation in the operation order of the code — computed `t0h` and
`sh` for `t0` and `scale`, then `δh = fl(t − t0h)`, `fl(δh²)`, `fl(sh/·)`, `fl(Ei − ·)`, each with relative error
`≤ u` — returns `Ei − Ef` up to `u·(|Ei|+|Ef|) + (1+u)·5w/(1−5w)·|Ef|`, where the condition-aware level `w`
dominates `u`, the relative error of `sh`, and `(1+u)|t0h − t0|/(t − t0) + u` (see `w_of_t0_relErr`:
`w = (1+u)·(k u/(1−k u))·t0/(t−t0) + u` for `k` roundings in `t0h`). -/
theorem direct_rounding_conservation (m sE st sL1 sL2 tof L1 L2 Ei Ef u w t0h sh d1 d2 d3 d4 : ℝ)
    (hm : 0 < m) (hsE : 0 < sE) (hst : 0 < st) (hsL1 : 0 < sL1) (hsL2 : 0 < sL2)
    (hL2 : 0 < L2) (hEi : 0 < Ei) (hEf : 0 < Ef)
    (ht : tof * st = L1 * sL1 / speed m (Ei * sE) + L2 * sL2 / speed m (Ef * sE))
    (hu0 : 0 ≤ u) (huw : u ≤ w) (hw : 5 * w < 1)
    (hd1 : |d1| ≤ u) (hd2 : |d2| ≤ u) (hd3 : |d3| ≤ u) (hd4 : |d4| ≤ u)
    (h0 : |t0h - energyTransferT0 (Casts.id ℝ) (LenCast.id ℝ) (energyConstant (m / 2) sE st sL1) Ei L1| * (1 + u)
        + u * (tof - energyTransferT0 (Casts.id ℝ) (LenCast.id ℝ) (energyConstant (m / 2) sE st sL1) Ei L1)
      ≤ w * (tof - energyTransferT0 (Casts.id ℝ) (LenCast.id ℝ) (energyConstant (m / 2) sE st sL1) Ei L1))
    (hs : RelErr w 1 sh (energyConstant (m / 2) sE st sL2 * (L2 * L2))) :
    |(Ei - sh / ((tof - t0h) * (1 + d1) * ((tof - t0h) * (1 + d1)) * (1 + d2)) * (1 + d3)) * (1 + d4) - (Ei - Ef)|
      ≤ u * (|Ei| + |Ef|) + (1 + u) * (5 * w / (1 - 5 * w)) * |Ef| := by
  have h00 := t0_is_flight_time m sE st sL1 Ei L1 hm hsE hst hsL1 hEi
  set t0 := energyTransferT0 (Casts.id ℝ) (LenCast.id ℝ) (energyConstant (m / 2) sE st sL1) Ei L1
  have hδ : (tof - t0) * st = L2 * sL2 / speed m (Ef * sE) := by rw [sub_mul, ht, h00]; ring
  have hpos : 0 < (tof - t0) * st := by
    rw [hδ]; exact div_pos (mul_pos hL2 hsL2) (speed_pos hm (mul_pos hEf hsE))
  have hpos' : 0 < tof - t0 := (mul_pos_iff_of_pos_right hst).mp hpos
  have hV := scale_over_delta_sq m sE st sL2 L2 Ef _ hm hsE hst hsL2 hL2 hEf hδ
  have := direct_rounding_core (Ei := Ei) hu0 huw hw hpos' hd1 hd2 hd3 hd4 h0 hs
  rwa [hV] at this

/-- the same for the indirect geometry (`δh = fl(−t0h + t)`, result `fl(fl(sh/fl(δh²)) − Ef)`) -/
theorem indirect_rounding_conservation (m sE st sL1 sL2 tof L1 L2 Ei Ef u w t0h sh d1 d2 d3 d4 : ℝ)
    (hm : 0 < m) (hsE : 0 < sE) (hst : 0 < st) (hsL1 : 0 < sL1) (hsL2 : 0 < sL2)
    (hL1 : 0 < L1) (hEi : 0 < Ei) (hEf : 0 < Ef)
    (ht : tof * st = L1 * sL1 / speed m (Ei * sE) + L2 * sL2 / speed m (Ef * sE))
    (hu0 : 0 ≤ u) (huw : u ≤ w) (hw : 5 * w < 1)
    (hd1 : |d1| ≤ u) (hd2 : |d2| ≤ u) (hd3 : |d3| ≤ u) (hd4 : |d4| ≤ u)
    (h0 : |t0h - energyTransferT0 (Casts.id ℝ) (LenCast.id ℝ) (energyConstant (m / 2) sE st sL2) Ef L2| * (1 + u)
        + u * (-energyTransferT0 (Casts.id ℝ) (LenCast.id ℝ) (energyConstant (m / 2) sE st sL2) Ef L2 + tof)
      ≤ w * (-energyTransferT0 (Casts.id ℝ) (LenCast.id ℝ) (energyConstant (m / 2) sE st sL2) Ef L2 + tof))
    (hs : RelErr w 1 sh (energyConstant (m / 2) sE st sL1 * (L1 * L1))) :
    |(sh / ((-t0h + tof) * (1 + d1) * ((-t0h + tof) * (1 + d1)) * (1 + d2)) * (1 + d3) - Ef) * (1 + d4) - (Ei - Ef)|
      ≤ u * (|Ef| + |Ei|) + (1 + u) * (5 * w / (1 - 5 * w)) * |Ei| := by
  have h00 := t0_is_flight_time m sE st sL2 Ef L2 hm hsE hst hsL2 hEf
  set t0 := energyTransferT0 (Casts.id ℝ) (LenCast.id ℝ) (energyConstant (m / 2) sE st sL2) Ef L2
  have hδ : (-t0 + tof) * st = L1 * sL1 / speed m (Ei * sE) := by rw [add_mul, ht, neg_mul, h00]; ring
  have hpos : 0 < (-t0 + tof) * st := by
    rw [hδ]; exact div_pos (mul_pos hL1 hsL1) (speed_pos hm (mul_pos hEi hsE))
  have hpos' : 0 < -t0 + tof := (mul_pos_iff_of_pos_right hst).mp hpos
  have hV := scale_over_delta_sq m sE st sL1 L1 Ei _ hm hsE hst hsL1 hL1 hEi hδ
  have := indirect_rounding_core (Ef := Ef) hu0 huw hw hpos' hd1 hd2 hd3 hd4 h0 hs
  rwa [hV] at this

/-- the condition-aware level is explicit: with `k` roundings in the computed `t0` (the code has at most 5:
narrowing of the constant, division, square root, narrowing of the length, product) the hypothesis `h0` of the two
theorems above holds for `w = (1+u)·(k u/(1−k u))·t0/(t−t0) + u` -/
theorem rounding_level_of_t0 {u tof t0 t0h : ℝ} {k : ℕ} (hu0 : 0 ≤ u) (hu1 : u < 1) (hk : (k : ℝ) * u < 1)
    (ht0 : 0 < t0) (hδ : 0 < tof - t0) (h : RelErr u k t0h t0) :
    |t0h - t0| * (1 + u) + u * (tof - t0)
      ≤ ((1 + u) * (k * u / (1 - k * u)) * (t0 / (tof - t0)) + u) * (tof - t0) :=
  w_of_t0_relErr hu0 hu1 hk ht0 hδ h

/-- non-vacuity of the rounding theorems: exact arithmetic (`u = 0`, all `d = 0`, `t0h = t0`, `sh = s`) meets
every hypothesis with `w = 0` -/
example : RelErr (0 : ℝ) 1 (3 : ℝ) 3 ∧ |(0 : ℝ)| ≤ 0 ∧ (5 * (0 : ℝ) < 1) :=
  ⟨⟨1, by ring, by simp, by simp⟩, by simp, by norm_num⟩

/-! ## dtype rule -/

/-- the result is single precision iff both the energy and the time-of-flight are -/
theorem common_dtype_f32_iff (a b : DType) : commonDType a b = .f32 ↔ a = .f32 ∧ b = .f32 := by
  cases a <;> cases b <;> decide

/-- the dtypes of the lengths do not enter: whatever `L1` and `L2` are (float32 lengths with a float64
time-of-flight give float64; float64 lengths with float32 energy and tof are narrowed and give float32),
the result is single precision iff both the energy and the time-of-flight are -/
theorem result_dtype_lengths (e t l1 l2 : DType) :
    (energyTransferDType e t l1 l2 = .f32 ↔ e = .f32 ∧ t = .f32)
      ∧ (energyTransferDType e t l1 l2 = .f32 ∨ energyTransferDType e t l1 l2 = .f64)
      ∧ ∀ l1' l2', energyTransferDType e t l1' l2' = energyTransferDType e t l1 l2 := by
  refine ⟨?_, ?_, fun _ _ => rfl⟩
  · exact common_dtype_f32_iff e t
  · show commonDType e t = .f32 ∨ commonDType e t = .f64
    cases e <;> cases t <;> decide

/-! ## non-vacuity -/

/-- a concrete neutron (m = 2, Ei = 4, Ef = 1, L1 = 2, L2 = 3, t = 2/2 + 3/1 = 4) satisfies the
hypotheses of the conservation theorems; both kernels return 3 -/
example : directFromUnits (2 / 2 : ℝ) 1 1 1 1 4 2 3 4 = some (4 - 1) :=
  direct_conserves_energy 2 1 1 1 1 4 2 3 4 1 (by norm_num) (by norm_num) (by norm_num) (by norm_num)
    (by norm_num) (by norm_num) (by norm_num) (by norm_num)
    (by rw [speed_example.1, speed_example.2]; norm_num)

example : indirectFromUnits (2 / 2 : ℝ) 1 1 1 1 4 2 3 1 = some (4 - 1) :=
  indirect_conserves_energy 2 1 1 1 1 4 2 3 4 1 (by norm_num) (by norm_num) (by norm_num) (by norm_num)
    (by norm_num) (by norm_num) (by norm_num) (by norm_num)
    (by rw [speed_example.1, speed_example.2]; norm_num)

/-- the NaN branch is reachable: arrival exactly at t0 = 1 -/
example : directFromUnits (2 / 2 : ℝ) 1 1 1 1 1 2 3 4 = none :=
  (direct_nan_iff 2 1 1 1 1 1 2 3 4 (by norm_num) (by norm_num) (by norm_num) (by norm_num)
    (by norm_num)).mpr (by rw [speed_example.1]; norm_num)

/-- the float hypotheses of `never_infinite` are satisfiable: 1 and 1 + 2^-52 in double precision -/
example : IsFloat 53 1 ∧ IsFloat 53 (1 + (2 : ℝ) ^ (-52 : ℤ)) ∧ (1 : ℝ) < 1 + (2 : ℝ) ^ (-52 : ℤ) := by
  refine ⟨⟨1, 0, by norm_num, by norm_num⟩, ⟨2 ^ 52 + 1, -52, by norm_num, ?_⟩, ?_⟩
  · have h : (2 : ℝ) ^ (-52 : ℤ) = 1 / 4503599627370496 := by
      rw [zpow_neg, show (52 : ℤ) = ((52 : ℕ) : ℤ) by norm_num, zpow_natCast]; norm_num
    push_cast
    rw [h]; norm_num
  · have : (0 : ℝ) < (2 : ℝ) ^ (-52 : ℤ) := zpow_pos (by norm_num) _
    linarith

example : commonDType .f32 .f64 = .f64 ∧ commonDType .f32 .f32 = .f32 := by decide

end ScnVerif.Props.C05
