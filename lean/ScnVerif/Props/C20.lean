import ScnVerif.Model.Atoms
import ScnVerif.Gen.Atoms
import ScnVerif.Real.Basic
import Mathlib.Tactic.FieldSimp
import Mathlib.Tactic.Ring
/-!
# C20 — bundled nuclear data are returned verbatim; attenuation follows the 1/v law

Only property theorems (and their non-vacuity examples) live here.
General lemmas about the *lookup code* hold for any tables; table facts are re-checked by
`decide +kernel` against `Gen/Atoms.lean`, which the translator regenerates from the CSV files
in `/repo`'s working tree on every run.
-/
namespace ScnVerif.Props.C20
open ScnVerif ScnVerif.Atoms

/-! ## General lemmas about the lookup (any table) -/

/-- never another nuclide's data: whatever is returned comes from a line with exactly that name -/
theorem lookup_returns_named_row (name : Str) (ls : List Line) (r : Str)
    (h : findLine name ls = .ok (some r)) : ⟨name, some r⟩ ∈ ls := by
  induction ls with
  | nil => simp [findLine] at h
  | cons l ls ih =>
    unfold findLine at h
    cases hl : l.rest with
    | none => simp [hl] at h
    | some r' =>
      simp only [hl] at h
      by_cases hn : l.name = name
      · simp only [hn, if_true] at h
        have : r' = r := by injection h with h; injection h
        subst this
        have : l = ⟨name, some r'⟩ := by cases l; simp_all
        simp [this]
      · simp only [hn, if_false] at h
        exact List.mem_cons_of_mem _ (ih h)

/-- a name that heads no line is reported missing (or the scan hit a malformed line) -/
theorem lookup_none_of_not_mem (name : Str) (ls : List Line)
    (h : ∀ l ∈ ls, l.name ≠ name) (hw : ∀ l ∈ ls, l.rest ≠ none) :
    findLine name ls = .ok none := by
  induction ls with
  | nil => rfl
  | cons l ls ih =>
    unfold findLine
    cases hl : l.rest with
    | none => exact absurd hl (hw l (by simp))
    | some r =>
      have : l.name ≠ name := h l (by simp)
      simp only [this, if_false]
      exact ih (fun l hl => h l (by simp [hl])) (fun l hl => hw l (by simp [hl]))

/-- with pairwise distinct names and no malformed line, every line is found by its own name -/
theorem lookup_of_nodup (ls : List Line) (hnd : (ls.map (·.name)).Nodup)
    (hw : ∀ l ∈ ls, l.rest ≠ none) (l : Line) (hl : l ∈ ls) :
    findLine l.name ls = .ok l.rest := by
  induction ls with
  | nil => simp at hl
  | cons a ls ih =>
    unfold findLine
    cases ha : a.rest with
    | none => exact absurd ha (hw a (by simp))
    | some r =>
      simp only [List.map_cons, List.nodup_cons] at hnd
      rcases List.mem_cons.mp hl with rfl | hl'
      · simp [ha]
      · have hne : a.name ≠ l.name := by
          intro h; exact hnd.1 (h ▸ List.mem_map_of_mem (f := (·.name)) hl')
        simp only [hne, if_false]
        exact ih hnd.2 (fun l hl => hw l (by simp [hl])) hl'

/-! ## Table facts, re-checked against the regenerated tables -/

/-- order-respecting numeric key of a short ASCII name -/
def key (s : Str) : Nat := s.foldl (fun a c => a * 256 + c) 0
def keyPadded (w : Nat) (s : Str) : Nat := key s * 256 ^ (w - s.length)

theorem ne_of_key_ne {a b : Str} (h : key a ≠ key b) : a ≠ b := fun e => h (e ▸ rfl)

def wellFormed (ls : List Line) : Bool := ls.all (fun l => l.rest.isSome)

theorem wellFormed_spec {ls : List Line} (h : wellFormed ls = true) : ∀ l ∈ ls, l.rest ≠ none := by
  intro l hl
  have := List.all_eq_true.mp h l hl
  intro hn; simp [hn] at this

/-- strict increase of the keys along a list, as a linear Boolean pass -/
def strictIncr : List Nat → Bool
  | [] => true
  | [_] => true
  | a :: b :: rest => a < b && strictIncr (b :: rest)

theorem pairwise_of_strictIncr : ∀ (l : List Nat), strictIncr l = true → l.Pairwise (· < ·)
  | [], _ => List.Pairwise.nil
  | [a], _ => by simp
  | a :: b :: rest, h => by
    simp only [strictIncr, Bool.and_eq_true, decide_eq_true_eq] at h
    have ih := pairwise_of_strictIncr (b :: rest) h.2
    refine List.Pairwise.cons ?_ ih
    intro c hc
    rcases List.mem_cons.mp hc with rfl | hc'
    · exact h.1
    · exact Nat.lt_trans h.1 (List.rel_of_pairwise_cons ih hc')

theorem nodup_names_of_keys {ls : List Line} {f : Str → Nat}
    (h : (ls.map (fun l => f l.name)).Pairwise (· ≠ ·)) : (ls.map (·.name)).Nodup := by
  rw [List.Nodup, List.pairwise_map]
  rw [List.pairwise_map] at h
  exact h.imp (fun hne e => hne (by rw [e]))

open ScnVerif.Gen.Atoms in
theorem scattering_wellformed : wellFormed scattering = true := by decide +kernel
open ScnVerif.Gen.Atoms in
theorem weights_wellformed : wellFormed (weights.drop 2) = true := by decide +kernel
open ScnVerif.Gen.Atoms in
theorem masses_wellformed : wellFormed (masses.drop 2) = true := by decide +kernel

open ScnVerif.Gen.Atoms in
theorem scattering_names_nodup : (scattering.map (·.name)).Nodup := by
  apply nodup_names_of_keys (f := key)
  decide +kernel
open ScnVerif.Gen.Atoms in
theorem weights_names_nodup : ((weights.drop 2).map (·.name)).Nodup := by
  apply nodup_names_of_keys (f := key)
  decide +kernel
open ScnVerif.Gen.Atoms in
theorem masses_names_nodup : ((masses.drop 2).map (·.name)).Nodup := by
  apply nodup_names_of_keys (f := keyPadded 8)
  have h : strictIncr ((masses.drop 2).map (fun l => keyPadded 8 l.name)) = true := by decide +kernel
  exact (pairwise_of_strictIncr _ h).imp (fun h => Nat.ne_of_lt h)


/-! ## Row shapes -/

def restOk (n : Nat) (l : Line) : Bool :=
  match l.rest with
  | some r => !r.isEmpty && (fields r).length == n
  | none => false

open ScnVerif.Gen.Atoms in
theorem scattering_row_shape : scattering.all (restOk 16) = true := by decide +kernel
open ScnVerif.Gen.Atoms in
theorem weights_row_shape : (weights.drop 2).all (restOk 3) = true := by decide +kernel
open ScnVerif.Gen.Atoms in
theorem masses_row_shape : (masses.drop 2).all (restOk 2) = true := by decide +kernel

theorem restOk_spec {n : Nat} {ls : List Line} (h : ls.all (restOk n) = true) {l : Line} (hl : l ∈ ls) :
    ∃ r, l.rest = some r ∧ r.isEmpty = false ∧ (fields r).length = n := by
  have := List.all_eq_true.mp h l hl
  unfold restOk at this
  cases hr : l.rest with
  | none => simp [hr] at this
  | some r =>
    simp only [hr, Bool.and_eq_true, Bool.not_eq_true', beq_iff_eq] at this
    exact ⟨r, rfl, this.1, this.2⟩

def tables : Tables := ⟨Gen.Atoms.scattering, Gen.Atoms.weights, Gen.Atoms.masses⟩

/-! ## Every row is returned verbatim -/

/-- every one of the rows of `scattering_parameters.csv` is found under its own name and decoded
from its own fields -/
theorem every_scattering_row_verbatim (l : Line) (hl : l ∈ Gen.Atoms.scattering) :
    ∃ r, l.rest = some r ∧ scatteringForIsotope tables l.name = parseScatteringLine l.name r := by
  obtain ⟨r, hr, hne, _⟩ := restOk_spec scattering_row_shape hl
  refine ⟨r, hr, ?_⟩
  have hf := lookup_of_nodup _ scattering_names_nodup (wellFormed_spec scattering_wellformed) l hl
  simp only [scatteringForIsotope, tables, hf, hr]
  simp [bind, Except.bind, hne]

theorem every_weight_row_verbatim (l : Line) (hl : l ∈ Gen.Atoms.weights.drop 2) :
    ∃ z w e, (l.rest.map fields) = some [z, w, e] ∧
      loadAtomicWeight tables l.name = .ok (z, assembleScalar w e .Da) := by
  obtain ⟨r, hr, hne, hlen⟩ := restOk_spec weights_row_shape hl
  have hf := lookup_of_nodup _ weights_names_nodup (wellFormed_spec weights_wellformed) l hl
  match hfs : fields r, hlen with
  | [z, w, e], _ =>
    refine ⟨z, w, e, by simp [hr, hfs], ?_⟩
    simp only [loadAtomicWeight, tables, hf, hr]
    simp [bind, Except.bind, hne, hfs]

theorem every_mass_row_verbatim (l : Line) (hl : l ∈ Gen.Atoms.masses.drop 2) :
    ∃ w e, (l.rest.map fields) = some [w, e] ∧
      loadAtomicMass tables l.name = .ok (assembleScalar w e .Da) := by
  obtain ⟨r, hr, hne, hlen⟩ := restOk_spec masses_row_shape hl
  have hf := lookup_of_nodup _ masses_names_nodup (wellFormed_spec masses_wellformed) l hl
  match hfs : fields r, hlen with
  | [w, e], _ =>
    refine ⟨w, e, by simp [hr, hfs], ?_⟩
    simp only [loadAtomicMass, tables, hf, hr]
    simp [bind, Except.bind, hne, hfs]

/-- `None` exactly where the table is blank; the uncertainty is absent exactly where blank -/
theorem blank_iff_none (v s : Str) (u : UnitId) : assembleScalar v s u = none ↔ v.isEmpty = true := by
  unfold assembleScalar; split <;> simp_all

theorem value_verbatim (v s : Str) (u : UnitId) (h : v.isEmpty = false) :
    assembleScalar v s u = some ⟨v, if s.isEmpty then none else some s, u⟩ := by
  simp [assembleScalar, h]

/-! ## Unknown names are rejected -/

theorem unknown_scattering_rejected (name : Str)
    (h : ∀ l ∈ Gen.Atoms.scattering, l.name ≠ name) :
    scatteringForIsotope tables name = .error .value := by
  have := lookup_none_of_not_mem name _ h (wellFormed_spec scattering_wellformed)
  simp [scatteringForIsotope, tables, this, bind, Except.bind]

theorem unknown_mass_rejected (name : Str)
    (h : ∀ l ∈ Gen.Atoms.masses.drop 2, l.name ≠ name) :
    loadAtomicMass tables name = .error .value := by
  have := lookup_none_of_not_mem name _ h (wellFormed_spec masses_wellformed)
  simp [loadAtomicMass, tables, this, bind, Except.bind]

theorem unknown_element_rejected (name : Str)
    (h : ∀ l ∈ Gen.Atoms.weights.drop 2, l.name ≠ name) :
    loadAtomicWeight tables name = .error .value := by
  have := lookup_none_of_not_mem name _ h (wellFormed_spec weights_wellformed)
  simp [loadAtomicWeight, tables, this, bind, Except.bind]

/-- an isotope name whose element is unknown, or which is not in the mass table, is rejected:
`Atom.for_isotope` never answers with another nuclide's data -/
theorem atom_rejects_unknown_isotope (name el : Str) (hp : parseIsotopeName name = .ok el)
    (hne : el ≠ name) (h : ∀ l ∈ Gen.Atoms.masses.drop 2, l.name ≠ name) :
    ∃ e, atomForIsotope tables name = .error e := by
  unfold atomForIsotope
  simp only [hp, bind, Except.bind]
  cases hw : loadAtomicWeight tables el with
  | error e => exact ⟨e, rfl⟩
  | ok zw =>
    simp only [hne, if_false, unknown_mass_rejected name h]
    exact ⟨_, rfl⟩

/-- a mass only for specific isotopes: when the name is an element name the mass is `none` -/
theorem mass_only_for_isotopes (name : Str) (a : Atom)
    (hp : parseIsotopeName name = .ok name) (h : atomForIsotope tables name = .ok a) :
    a.mass = none := by
  unfold atomForIsotope at h
  simp only [hp, bind, Except.bind] at h
  cases hw : loadAtomicWeight tables name with
  | error e => simp [hw] at h
  | ok zw =>
    simp only [hw, if_true, pure, Except.pure] at h
    injection h with h; rw [← h]

/-- what is returned for an isotope is its own row of the mass table and the row of *its* element -/
theorem atom_fields_from_own_rows (name el : Str) (a : Atom)
    (hp : parseIsotopeName name = .ok el) (hne : el ≠ name)
    (h : atomForIsotope tables name = .ok a) :
    a.isotope = name ∧ loadAtomicWeight tables el = .ok (a.z, a.weight) ∧
      loadAtomicMass tables name = .ok a.mass := by
  unfold atomForIsotope at h
  simp only [hp, bind, Except.bind] at h
  cases hw : loadAtomicWeight tables el with
  | error e => simp [hw] at h
  | ok zw =>
    simp only [hw, hne, if_false] at h
    cases hm : loadAtomicMass tables name with
    | error e => simp [hm] at h
    | ok m =>
      simp only [hm, pure, Except.pure] at h
      injection h with h; subst h; exact ⟨rfl, rfl, rfl⟩

/-! ## The atomic number is that of the right element -/

/-- the periodic table, written down independently of the CSV file -/
/- H He Li Be B C N O F Ne Na Mg Al Si P S Cl Ar K Ca Sc Ti V Cr Mn Fe Co Ni Cu Zn Ga Ge As Se Br Kr Rb Sr Y Zr Nb Mo Tc Ru Rh Pd Ag Cd In Sn Sb Te I Xe Cs Ba La Ce Pr Nd Pm Sm Eu Gd Tb Dy Ho Er Tm Yb Lu Hf Ta W Re Os Ir Pt Au Hg Tl Pb Bi Po At Rn Fr Ra Ac Th Pa U Np Pu Am Cm Bk Cf Es Fm Md No Lr Rf Db Sg Bh Hs Mt Ds Rg Cn Nh Fl Mc Lv Ts Og -/
def periodic : List Str := [
  [72], [72,101], [76,105], [66,101], [66], [67], [78], [79], [70], [78,101],
  [78,97], [77,103], [65,108], [83,105], [80], [83], [67,108], [65,114], [75], [67,97],
  [83,99], [84,105], [86], [67,114], [77,110], [70,101], [67,111], [78,105], [67,117], [90,110],
  [71,97], [71,101], [65,115], [83,101], [66,114], [75,114], [82,98], [83,114], [89], [90,114],
  [78,98], [77,111], [84,99], [82,117], [82,104], [80,100], [65,103], [67,100], [73,110], [83,110],
  [83,98], [84,101], [73], [88,101], [67,115], [66,97], [76,97], [67,101], [80,114], [78,100],
  [80,109], [83,109], [69,117], [71,100], [84,98], [68,121], [72,111], [69,114], [84,109], [89,98],
  [76,117], [72,102], [84,97], [87], [82,101], [79,115], [73,114], [80,116], [65,117], [72,103],
  [84,108], [80,98], [66,105], [80,111], [65,116], [82,110], [70,114], [82,97], [65,99], [84,104],
  [80,97], [85], [78,112], [80,117], [65,109], [67,109], [66,107], [67,102], [69,115], [70,109],
  [77,100], [78,111], [76,114], [82,102], [68,98], [83,103], [66,104], [72,115], [77,116], [68,115],
  [82,103], [67,110], [78,104], [70,108], [77,99], [76,118], [84,115], [79,103]]

def zOk (l : Line) : Bool :=
  match l.rest with
  | some r => (match fields r with
      | z :: _ => (match parseNat z with
          | some n => n ≥ 1 && periodic[n - 1]? == some l.name
          | none => false)
      | [] => false)
  | none => false

open ScnVerif.Gen.Atoms in
/-- every row of the weight table carries the atomic number of the element it names -/
theorem z_matches_element : (weights.drop 2).all zOk = true := by decide +kernel

/-- every nuclide of the mass table and every entry of the scattering table parses to an element
that has a row in the weight table (so its lookup cannot fail for a listed name) and nuclides
are not element names (so they do get a mass) -/
def elementKnown (needIsotope : Bool) (elems : List Nat) (l : Line) : Bool :=
  match parseIsotopeName l.name with
  | .ok el => elems.contains (key el) && (!needIsotope || el != l.name)
  | .error _ => false

open ScnVerif.Gen.Atoms in
theorem mass_rows_have_elements :
    (masses.drop 2).all (elementKnown true ((weights.drop 2).map (fun l => key l.name))) = true := by
  decide +kernel
open ScnVerif.Gen.Atoms in
theorem scattering_rows_have_elements :
    scattering.all (elementKnown false ((weights.drop 2).map (fun l => key l.name))) = true := by
  decide +kernel

/-! ## Attenuation: the 1/v law, for every choice of units -/

/-- `μ = n (σ_s + σ_a λ/λ_ref)` in physical terms, whatever units the four quantities come in:
`N = n·sN`, `Σs = σs·sS`, `Σa = σa·sA`, `Λ = λ·sLam`, `Λref = λref·sAng` -/
theorem attenuation_law (n sigS sigA lam lamRef sN sS sA sLam sAng : ℝ)
    (hS : sS ≠ 0) (hAng : sAng ≠ 0) (hRef : lamRef ≠ 0) :
    attenuation n sigS sigA lam lamRef sS sA sLam sAng * (sN * sS)
      = (n * sN) * (sigS * sS + (sigA * sA) * ((lam * sLam) / (lamRef * sAng))) := by
  simp only [attenuation, toUnit]
  field_simp

/-- non-vacuity: the hypotheses are met by ordinary values (V, 1.8 Å, barn, Å) -/
example : attenuation (0.07 : ℝ) 5.1 5.08 1.8 1.7982 1e-28 1e-28 1e-10 1e-10 * (1e30 * 1e-28)
    = (0.07 * 1e30) * (5.1 * 1e-28 + (5.08 * 1e-28) * ((1.8 * 1e-10) / (1.7982 * 1e-10))) :=
  attenuation_law _ _ _ _ _ _ _ _ _ _ (by norm_num) (by norm_num) (by norm_num)

/-- non-vacuity of the row theorems: a concrete row is a member -/
example : ∃ l ∈ Gen.Atoms.scattering, l.name = [51, 72, 101] /- "3He" -/ := by decide +kernel

end ScnVerif.Props.C20
