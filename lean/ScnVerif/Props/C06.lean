import ScnVerif.Model.Binned
import ScnVerif.Props.C02
/-!
# C06 — event-mode conversion equals dense conversion and preserves the data

Structural theorems about `convertBinned` (for every kernel `k`, every layout, every number of bins
and events — induction on lists). Their value is that the correspondence then has an exact,
layout-independent expectation; that scipp's C++ engine really applies the scalar kernel per event
is validated by the correspondence (bit for bit), not proved.
-/
namespace ScnVerif.Props.C06
open ScnVerif ScnVerif.Binned

variable {C C' D G M : Type}

theorem convertBins_length (k : C → G → C') :
    ∀ (bins : List (List (Event C D))) (geom : List G), geom.length = bins.length →
      (convertBins k bins geom).length = bins.length
  | [], [], _ => rfl
  | [], _ :: _, h => by simp at h
  | _ :: _, [], h => by simp at h
  | es :: rest, g :: gs, h => by
    simp only [convertBins, List.length_cons]
    rw [convertBins_length k rest gs (by simpa using h)]

/-- bin `i` of the result is bin `i` of the input converted with geometry `i` (nothing else) -/
theorem convertBins_getElem? (k : C → G → C') :
    ∀ (bins : List (List (Event C D))) (geom : List G), geom.length = bins.length → ∀ (i : Nat),
      (convertBins k bins geom)[i]? =
        (bins[i]?).bind (fun es => (geom[i]?).map (fun g => convertBin k g es))
  | [], [], _, i => by simp [convertBins]
  | [], _ :: _, h, _ => by simp at h
  | _ :: _, [], h, _ => by simp at h
  | es :: rest, g :: gs, h, 0 => by simp [convertBins]
  | es :: rest, g :: gs, h, i + 1 => by
    simp only [convertBins, List.getElem?_cons_succ]
    exact convertBins_getElem? k rest gs (by simpa using h) i

theorem denseConvert_append (k : C → G → C') (g : G) :
    ∀ (a : List C) (cs : List C) (gs : List G),
      denseConvert k (a ++ cs) (List.replicate a.length g ++ gs) = a.map (fun c => k c g) ++ denseConvert k cs gs
  | [], cs, gs => by simp
  | c :: a, cs, gs => by
    simp only [List.cons_append, List.length_cons, List.replicate_succ, denseConvert, List.map_cons]
    rw [denseConvert_append k g a cs gs]

/-- **every event gets the dense formula's value**: the converted event buffer equals the dense
(element-wise) kernel applied to the flattened event coordinates with the geometry broadcast to the events -/
theorem events_value (k : C → G → C') :
    ∀ (bins : List (List (Event C D))) (geom : List G), geom.length = bins.length →
      (buffer (convertBins k bins geom)).map (·.coord) =
        denseConvert k ((buffer bins).map (·.coord)) (broadcastGeom bins geom)
  | [], [], _ => by simp [convertBins, buffer, broadcastGeom, denseConvert]
  | [], _ :: _, h => by simp at h
  | _ :: _, [], h => by simp at h
  | es :: rest, g :: gs, h => by
    have ih := events_value k rest gs (by simpa using h)
    simp only [buffer] at ih ⊢
    simp only [convertBins, List.flatten_cons, List.map_append, broadcastGeom]
    have hlen : es.length = (es.map (·.coord)).length := by simp
    rw [hlen, denseConvert_append, ← ih]
    simp [convertBin, Function.comp_def]

theorem events_value_binned (k : C → G → C') (b : Binned C D G M) (h : WellFormed b) :
    (buffer (convertBinned k b).bins).map (·.coord) =
      denseConvert k ((buffer b.bins).map (·.coord)) (broadcastGeom b.bins b.geom) :=
  events_value k b.bins b.geom h

/-- the accompanying bin-edge coordinate is converted with the same function: entry (pixel p, edge j) -/
theorem edges_same_function (k : C → G → C') (edges : List C) (pg : List G) (p j : Nat) :
    ((convertEdges k edges pg)[p]?.bind (·[j]?)) =
      (match pg[p]?, edges[j]? with
       | some g, some c => some (k c g)
       | _, _ => none) := by
  simp only [convertEdges, List.getElem?_map]
  cases pg[p]? <;> cases h : edges[j]? <;> simp [h]

/-- an event of pixel `p` whose coordinate equals edge `j` gets exactly the converted edge `(p, j)`:
events and bin edges stay consistent -/
theorem edge_event_consistent (k : C → G → C') (g : G) (c : C) (d : D) :
    (convertBin k g [⟨c, d⟩]).map (·.coord) = [k c g] ∧ convertEdges k [c] [g] = [[k c g]] := by
  simp [convertBin, convertEdges]

/-- **weights, variances, other event coordinates, event order and bin membership are unchanged**:
per bin, the list of payloads is the same list -/
theorem preserves_weights_variances (k : C → G → C') :
    ∀ (bins : List (List (Event C D))) (geom : List G), geom.length = bins.length →
      (convertBins k bins geom).map (·.map (·.payload)) = bins.map (·.map (·.payload))
  | [], [], _ => rfl
  | [], _ :: _, h => by simp at h
  | _ :: _, [], h => by simp at h
  | es :: rest, g :: gs, h => by
    simp only [convertBins, List.map_cons]
    rw [preserves_weights_variances k rest gs (by simpa using h)]
    simp [convertBin, Function.comp_def]

/-- **event order**: the j-th event of bin i of the result carries the payload of the j-th event of bin i of the input
and the kernel value of that very event's coordinate -/
theorem preserves_order (k : C → G → C') (bins : List (List (Event C D))) (geom : List G)
    (h : geom.length = bins.length) (i j : Nat) (es : List (Event C D)) (g : G) (e : Event C D)
    (hes : bins[i]? = some es) (hg : geom[i]? = some g) (he : es[j]? = some e) :
    ((convertBins k bins geom)[i]?.bind (·[j]?)) = some ⟨k e.coord g, e.payload⟩ := by
  rw [convertBins_getElem? k bins geom h i, hes, hg]
  simp [convertBin, he]

/-- **bin sizes (also of empty bins) and hence begin/end indices are unchanged** -/
theorem preserves_bin_sizes (k : C → G → C') (bins : List (List (Event C D))) (geom : List G)
    (h : geom.length = bins.length) :
    sizes (convertBins k bins geom) = sizes bins ∧
    ranges 0 (sizes (convertBins k bins geom)) = ranges 0 (sizes bins) ∧
    (buffer (convertBins k bins geom)).length = (buffer bins).length := by
  have hs : sizes (convertBins k bins geom) = sizes bins := by
    have := congrArg (List.map List.length) (preserves_weights_variances k bins geom h)
    simpa [sizes, Function.comp_def] using this
  refine ⟨hs, by rw [hs], ?_⟩
  have : (buffer (convertBins k bins geom)).length = (sizes (convertBins k bins geom)).sum := by
    simp [buffer, sizes, List.length_flatten]
  rw [this, hs]
  simp [buffer, sizes, List.length_flatten]

/-- an empty bin stays an empty bin, whatever its geometry -/
theorem empty_bin_stays_empty (k : C → G → C') (g : G) : convertBin k g ([] : List (Event C D)) = [] := rfl

/-- **masks, unrelated coordinates and the geometry are carried over unchanged** -/
theorem preserves_masks_coords (k : C → G → C') (b : Binned C D G M) :
    (convertBinned k b).carried = b.carried ∧ (convertBinned k b).geom = b.geom := ⟨rfl, rfl⟩

/-- no cross talk between bins: replacing the events of bin `j` does not change any other bin of the result -/
theorem bins_independent (k : C → G → C') (bins : List (List (Event C D))) (geom : List G)
    (h : geom.length = bins.length) (j : Nat) (es' : List (Event C D)) (i : Nat) (hij : i ≠ j) :
    (convertBins k (bins.set j es') geom)[i]? = (convertBins k bins geom)[i]? := by
  rw [convertBins_getElem? k _ geom (by simpa using h), convertBins_getElem? k bins geom h,
    List.getElem?_set_ne (Ne.symm hij)]

/-- **the input is not modified**: the conversion allocates one new buffer; every buffer that existed before
has the same content afterwards; the result shares payload and index buffers with the input and its
coordinate buffer is the new one -/
theorem input_unchanged {B : Type} (f : Heap B → BinnedRef → B) (h : Heap B) (x : BinnedRef) :
    (∀ i, i < h.cells.length → (convertHeap f h x).1.cells[i]? = h.cells[i]?) ∧
    (convertHeap f h x).2.payloadBuf = x.payloadBuf ∧ (convertHeap f h x).2.indexBuf = x.indexBuf ∧
    (convertHeap f h x).2.coordBuf = h.cells.length ∧
    (convertHeap f h x).1.cells[(convertHeap f h x).2.coordBuf]? = some (f h x) := by
  refine ⟨?_, rfl, rfl, rfl, ?_⟩
  · intro i hi
    simp [convertHeap, Heap.alloc, List.getElem?_append_left hi]
  · simp [convertHeap, Heap.alloc]

/-- the same for the compacting variant (non-contiguous input): three new buffers, nothing old is written,
and the result refers only to new buffers -/
theorem input_unchanged_copy {B : Type} (f fp fi : Heap B → BinnedRef → B) (h : Heap B) (x : BinnedRef) :
    (∀ i, i < h.cells.length → (convertHeapCopy f fp fi h x).1.cells[i]? = h.cells[i]?) ∧
    h.cells.length ≤ (convertHeapCopy f fp fi h x).2.payloadBuf ∧
    h.cells.length ≤ (convertHeapCopy f fp fi h x).2.indexBuf ∧
    h.cells.length ≤ (convertHeapCopy f fp fi h x).2.coordBuf := by
  refine ⟨?_, ?_, ?_, ?_⟩
  · intro i hi
    simp only [convertHeapCopy, Heap.alloc, List.append_assoc]
    rw [List.getElem?_append_left hi]
  · simp [convertHeapCopy, Heap.alloc]
  · simp [convertHeapCopy, Heap.alloc]
  · simp [convertHeapCopy, Heap.alloc]

/-! ## Non-vacuity -/

/-- three bins (one empty), two different geometries, symbolic kernel = pairing -/
def exBins : List (List (Event Nat Nat)) := [[⟨10, 0⟩, ⟨11, 1⟩], [], [⟨12, 2⟩]]
def exGeom : List Nat := [100, 200, 300]

example : convertBins (fun c g => (c, g)) exBins exGeom =
    [[⟨(10, 100), 0⟩, ⟨(11, 100), 1⟩], [], [⟨(12, 300), 2⟩]] := by decide
example : (buffer (convertBins (fun c g => (c, g)) exBins exGeom)).map (·.coord) =
    denseConvert (fun c g => (c, g)) [10, 11, 12] [100, 100, 300] := by decide
example : broadcastGeom exBins exGeom = [100, 100, 300] ∧ ranges 0 (sizes exBins) = [(0, 2), (2, 2), (2, 3)] := by decide
example : convertEdges (fun c g => (c, g)) [1, 2, 3] [100, 200] = [[(1, 100), (2, 100), (3, 100)], [(1, 200), (2, 200), (3, 200)]] := by decide
example : exGeom.length = exBins.length := rfl
example : (convertHeap (fun _ _ => 7) ⟨[1, 2, 3]⟩ ⟨0, 1, 2⟩) = (⟨[1, 2, 3, 7]⟩, ⟨3, 1, 2⟩) := rfl

/-! ## Graph level: the event part and the bin-edge part of the target are one derivation -/

open ScnVerif.Convert ScnVerif.Props.C02

theorem hasEventL_iff (K : Name → CoordKind) :
    ∀ {ts : List Term}, Term.hasEventL K ts = true ↔ ∃ t ∈ ts, t.hasEvent K = true
  | [] => by simp [Term.hasEventL]
  | t :: ts => by
    simp only [Term.hasEventL, Bool.or_eq_true, hasEventL_iff K (ts := ts), List.mem_cons]
    constructor
    · rintro (h | ⟨t', ht', h⟩)
      · exact ⟨t, .inl rfl, h⟩
      · exact ⟨t', .inr ht', h⟩
    · rintro ⟨t', rfl | ht', h⟩
      · exact .inl h
      · exact .inr ⟨t', ht', h⟩

theorem hasDenseL_iff (K : Name → CoordKind) :
    ∀ {ts : List Term}, Term.hasDenseL K ts = true ↔ ∀ t ∈ ts, t.hasDense K = true
  | [] => by simp [Term.hasDenseL]
  | t :: ts => by
    simp only [Term.hasDenseL, Bool.and_eq_true, hasDenseL_iff K (ts := ts), List.mem_cons]
    constructor
    · rintro ⟨h1, h2⟩ t' (rfl | ht')
      · exact h1
      · exact h2 t' ht'
    · intro h
      exact ⟨h t (.inl rfl), fun t' ht' => h t' (.inr ht')⟩

/-- **which parts the converted coordinate has**: an event part iff some fetched input has one, a dense
(bin-edge) part iff every fetched input has a dense part -/
theorem parts_spec {g : Graph} {P : Name → Bool} (K : Name → CoordKind) :
    ∀ {f : Nat} {n : Name} {t : Term}, resolve g P f n = .ok t →
      (t.hasEvent K = true ↔ ∃ m ∈ t.fetched, (K m).event = true) ∧
      (t.hasDense K = true ↔ ∀ m ∈ t.fetched, (K m).dense = true)
  | 0, n, t, h => by simp [resolve] at h
  | f + 1, n, t, h => by
    rcases resolve_ok_cases h with ⟨_, rfl⟩ | ⟨_, r, args, _, hm, rfl⟩
    · simp [Term.hasEvent, Term.hasDense, Term.fetched]
    · have hsub : ∀ t' ∈ args, (t'.hasEvent K = true ↔ ∃ m ∈ t'.fetched, (K m).event = true) ∧
          (t'.hasDense K = true ↔ ∀ m ∈ t'.fetched, (K m).dense = true) := by
        intro t' ht'
        obtain ⟨i, _, hi⟩ := (mapERev_ok hm).of_mem_right ht'
        exact parts_spec K hi
      simp only [Term.hasEvent, Term.hasDense, Term.fetched, hasEventL_iff, hasDenseL_iff]
      constructor
      · constructor
        · rintro ⟨t', ht', he⟩
          obtain ⟨m, hm1, hm2⟩ := (hsub t' ht').1.mp he
          exact ⟨m, mem_fetchedL.mpr ⟨t', ht', hm1⟩, hm2⟩
        · rintro ⟨m, hm1, hm2⟩
          obtain ⟨t', ht', hx⟩ := mem_fetchedL.mp hm1
          exact ⟨t', ht', (hsub t' ht').1.mpr ⟨m, hx, hm2⟩⟩
      · constructor
        · intro hall m hm1
          obtain ⟨t', ht', hx⟩ := mem_fetchedL.mp hm1
          exact (hsub t' ht').2.mp (hall t' ht') m hx
        · intro hall t' ht'
          exact (hsub t' ht').2.mpr (fun m hx => hall m (mem_fetchedL.mpr ⟨t', ht', hx⟩))

theorem evalL_congr {V : Type} (sem : Kernel → Name → List V → V) (e1 e2 : Name → V) :
    ∀ {ts : List Term}, (∀ t ∈ ts, t.eval sem e1 = t.eval sem e2) → Term.evalL sem e1 ts = Term.evalL sem e2 ts
  | [], _ => rfl
  | t :: ts, h => by
    simp only [Term.evalL]
    rw [h t (by simp), evalL_congr sem e1 e2 (fun t' ht' => h t' (List.mem_cons_of_mem _ ht'))]

/-- a derivation only reads the coordinates it fetches -/
theorem eval_congr {V : Type} (sem : Kernel → Name → List V → V) (e1 e2 : Name → V) {g : Graph} {P : Name → Bool} :
    ∀ {f : Nat} {n : Name} {t : Term}, resolve g P f n = .ok t →
      (∀ m ∈ t.fetched, e1 m = e2 m) → t.eval sem e1 = t.eval sem e2
  | 0, n, t, h, _ => by simp [resolve] at h
  | f + 1, n, t, h, hag => by
    rcases resolve_ok_cases h with ⟨_, rfl⟩ | ⟨_, r, args, _, hm, rfl⟩
    · simp only [Term.eval]; exact hag n (by simp [Term.fetched])
    · simp only [Term.eval]
      congr 1
      apply evalL_congr
      intro t' ht'
      obtain ⟨i, _, hi⟩ := (mapERev_ok hm).of_mem_right ht'
      exact eval_congr sem e1 e2 hi (fun m hx => hag m (by
        simp only [Term.fetched]; exact mem_fetchedL.mpr ⟨t', ht', hx⟩))

/-- **events and bin edges are converted by the same function, also through a whole conversion graph**:
the event part of the target is the derivation evaluated on the event-side values, the bin-edge part is
the same derivation on the dense values; hence an event whose event coordinates coincide with the dense
ones (an event sitting on a bin edge) gets exactly the value of the converted edge -/
theorem event_on_edge_gets_edge_value {V : Type} (sem : Kernel → Name → List V → V)
    (K : Name → CoordKind) (dense event : Name → V) {g : Graph} {P : Name → Bool}
    {f : Nat} {n : Name} {t : Term} (h : resolve g P f n = .ok t)
    (hon : ∀ m ∈ t.fetched, (K m).event = true → event m = dense m) :
    t.eval sem (eventSide K dense event) = t.eval sem dense := by
  apply eval_congr sem _ _ h
  intro m hm
  unfold eventSide
  by_cases he : (K m).event = true
  · simp [he, hon m hm he]
  · simp [he]


/-- non-vacuity on the generated tables: binned data with event `tof` only give an event wavelength without a
bin-edge part; with a dense `tof` bin-edge coordinate as well they give both parts -/
example :
    (match convert T (fun n => [nTof, nLtotal].contains n) nTof nWavelength true with
     | .ok d => some (d.hasDense (fun n => ⟨n = nLtotal, n = nTof⟩), d.hasEvent (fun n => ⟨n = nLtotal, n = nTof⟩),
                      d.hasDense (fun n => ⟨n = nLtotal || n = nTof, n = nTof⟩))
     | .error _ => none) = some (false, true, true) := by decide +kernel

end ScnVerif.Props.C06
