import ScnVerif.Model.Binned
import ScnVerif.Props.C02
/-!
# C06 — event-mode conversion equals dense conversion and preserves the data

Structural theorems about `convertBinned` (for every kernel `k`, every layout, every number of bins
and events — induction on lists). Their value is that the correspondence then has an exact,
layout-independent expectation; that scipp's C++ engine really applies the scalar kernel per event
is validated by the correspondence (bit for bit), not proved.
-/
namespace ScnVerif.Props.C06
open ScnVerif ScnVerif.Binned

variable {C C' D G M : Type}

theorem convertBins_length (k : C → G → C') :
    ∀ (bins : List (List (Event C D))) (geom : List G), geom.length = bins.length →
      (convertBins k bins geom).length = bins.length
  | [], [], _ => rfl
  | [], _ :: _, h => by simp at h
  | _ :: _, [], h => by simp at h
  | es :: rest, g :: gs, h => by
    simp only [convertBins, List.length_cons]
    rw [convertBins_length k rest gs (by simpa using h)]

/-- bin `i` of the result is bin `i` of the input converted with geometry `i` (nothing else) -/
theorem convertBins_getElem? (k : C → G → C') :
    ∀ (bins : List (List (Event C D))) (geom : List G), geom.length = bins.length → ∀ (i : Nat),
      (convertBins k bins geom)[i]? =
        (bins[i]?).bind (fun es => (geom[i]?).map (fun g => convertBin k g es))
  | [], [], _, i => by simp [convertBins]
  | [], _ :: _, h, _ => by simp at h
  | _ :: _, [], h, _ => by simp at h
  | es :: rest, g :: gs, h, 0 => by simp [convertBins]
  | es :: rest, g :: gs, h, i + 1 => by
    simp only [convertBins, List.getElem?_cons_succ]
    exact convertBins_getElem? k rest gs (by simpa using h) i

theorem denseConvert_append (k : C → G → C') (g : G) :
    ∀ (a : List C) (cs : List C) (gs : List G),
      denseConvert k (a ++ cs) (List.replicate a.length g ++ gs) = a.map (fun c => k c g) ++ denseConvert k cs gs
  | [], cs, gs => by simp
  | c :: a, cs, gs => by
    simp only [List.cons_append, List.length_cons, List.replicate_succ, denseConvert, List.map_cons]
    rw [denseConvert_append k g a cs gs]

/-- **every event gets the dense formula's value**: the converted event buffer equals the dense
(element-wise) kernel applied to the flattened event coordinates with the geometry broadcast to the events -/
theorem events_value (k : C → G → C') :
    ∀ (bins : List (List (Event C D))) (geom : List G), geom.length = bins.length →
      (buffer (convertBins k bins geom)).map (·.coord) =
        denseConvert k ((buffer bins).map (·.coord)) (broadcastGeom bins geom)
  | [], [], _ => by simp [convertBins, buffer, broadcastGeom, denseConvert]
  | [], _ :: _, h => by simp at h
  | _ :: _, [], h => by simp at h
  | es :: rest, g :: gs, h => by
    have ih := events_value k rest gs (by simpa using h)
    simp only [buffer] at ih ⊢
    simp only [convertBins, List.flatten_cons, List.map_append, broadcastGeom]
    have hlen : es.length = (es.map (·.coord)).length := by simp
    rw [hlen, denseConvert_append, ← ih]
    simp [convertBin, Function.comp_def]

theorem events_value_binned (k : C → G → C') (b : Binned C D G M) (h : WellFormed b) :
    (buffer (convertBinned k b).bins).map (·.coord) =
      denseConvert k ((buffer b.bins).map (·.coord)) (broadcastGeom b.bins b.geom) :=
  events_value k b.bins b.geom h

/-- the accompanying bin-edge coordinate is converted with the same function: entry (pixel p, edge j) -/
theorem edges_same_function (k : C → G → C') (edges : List C) (pg : List G) (p j : Nat) :
    ((convertEdges k edges pg)[p]?.bind (·[j]?)) =
      (match pg[p]?, edges[j]? with
       | some g, some c => some (k c g)
       | _, _ => none) := by
  simp only [convertEdges, List.getElem?_map]
  cases pg[p]? <;> cases h : edges[j]? <;> simp [h]

/-- an event of pixel `p` whose coordinate equals edge `j` gets exactly the converted edge `(p, j)`:
events and bin edges stay consistent -/
theorem edge_event_consistent (k : C → G → C') (g : G) (c : C) (d : D) :
    (convertBin k g [⟨c, d⟩]).map (·.coord) = [k c g] ∧ convertEdges k [c] [g] = [[k c g]] := by
  simp [convertBin, convertEdges]

/-- **weights, variances, other event coordinates, event order and bin membership are unchanged**:
per bin, the list of payloads is the same list -/
theorem preserves_weights_variances (k : C → G → C') :
    ∀ (bins : List (List (Event C D))) (geom : List G), geom.length = bins.length →
      (convertBins k bins geom).map (·.map (·.payload)) = bins.map (·.map (·.payload))
  | [], [], _ => rfl
  | [], _ :: _, h => by simp at h
  | _ :: _, [], h => by simp at h
  | es :: rest, g :: gs, h => by
    simp only [convertBins, List.map_cons]
    rw [preserves_weights_variances k rest gs (by simpa using h)]
    simp [convertBin, Function.comp_def]

/-- **event order**: the j-th event of bin i of the result carries the payload of the j-th event of bin i of the input
and the kernel value of that very event's coordinate -/
theorem preserves_order (k : C → G → C') (bins : List (List (Event C D))) (geom : List G)
    (h : geom.length = bins.length) (i j : Nat) (es : List (Event C D)) (g : G) (e : Event C D)
    (hes : bins[i]? = some es) (hg : geom[i]? = some g) (he : es[j]? = some e) :
    ((convertBins k bins geom)[i]?.bind (·[j]?)) = some ⟨k e.coord g, e.payload⟩ := by
  rw [convertBins_getElem? k bins geom h i, hes, hg]
  simp [convertBin, he]

/-- **bin sizes (also of empty bins) and hence begin/end indices are unchanged** -/
theorem preserves_bin_sizes (k : C → G → C') (bins : List (List (Event C D))) (geom : List G)
    (h : geom.length = bins.length) :
    sizes (convertBins k bins geom) = sizes bins ∧
    ranges 0 (sizes (convertBins k bins geom)) = ranges 0 (sizes bins) ∧
    (buffer (convertBins k bins geom)).length = (buffer bins).length := by
  have hs : sizes (convertBins k bins geom) = sizes bins := by
    have := congrArg (List.map List.length) (preserves_weights_variances k bins geom h)
    simpa [sizes, Function.comp_def] using this
  refine ⟨hs, by rw [hs], ?_⟩
  have : (buffer (convertBins k bins geom)).length = (sizes (convertBins k bins geom)).sum := by
    simp [buffer, sizes, List.length_flatten]
  rw [this, hs]
  simp [buffer, sizes, List.length_flatten]

/-- an empty bin stays an empty bin, whatever its geometry -/
theorem empty_bin_stays_empty (k : C → G → C') (g : G) : convertBin k g ([] : List (Event C D)) = [] := rfl

/-- **masks, unrelated coordinates and the geometry are carried over unchanged** -/
theorem preserves_masks_coords (k : C → G → C') (b : Binned C D G M) :
    (convertBinned k b).carried = b.carried ∧ (convertBinned k b).geom = b.geom := ⟨rfl, rfl⟩

/-- no cross talk between bins: replacing the events of bin `j` does not change any other bin of the result -/
theorem bins_independent (k : C → G → C') (bins : List (List (Event C D))) (geom : List G)
    (h : geom.length = bins.length) (j : Nat) (es' : List (Event C D)) (i : Nat) (hij : i ≠ j) :
    (convertBins k (bins.set j es') geom)[i]? = (convertBins k bins geom)[i]? := by
  rw [convertBins_getElem? k _ geom (by simpa using h), convertBins_getElem? k bins geom h,
    List.getElem?_set_ne (Ne.symm hij)]

/-- **the input is not modified**: the conversion allocates one new buffer; every buffer that existed before
has the same content afterwards; the result shares payload and index buffers with the input and its
coordinate buffer is the new one -/
theorem input_unchanged {B : Type} (f : Heap B → BinnedRef → B) (h : Heap B) (x : BinnedRef) :
    (∀ i, i < h.cells.length → (convertHeap f h x).1.cells[i]? = h.cells[i]?) ∧
    (convertHeap f h x).2.payloadBuf = x.payloadBuf ∧ (convertHeap f h x).2.indexBuf = x.indexBuf ∧
    (convertHeap f h x).2.coordBuf = h.cells.length ∧
    (convertHeap f h x).1.cells[(convertHeap f h x).2.coordBuf]? = some (f h x) := by
  refine ⟨?_, rfl, rfl, rfl, ?_⟩
  · intro i hi
    simp [convertHeap, Heap.alloc, List.getElem?_append_left hi]
  · simp [convertHeap, Heap.alloc]

/-- the same for the compacting variant (non-contiguous input): three new buffers, nothing old is written,
and the result refers only to new buffers -/
theorem input_unchanged_copy {B : Type} (f fp fi : Heap B → BinnedRef → B) (h : Heap B) (x : BinnedRef) :
    (∀ i, i < h.cells.length → (convertHeapCopy f fp fi h x).1.cells[i]? = h.cells[i]?) ∧
    h.cells.length ≤ (convertHeapCopy f fp fi h x).2.payloadBuf ∧
    h.cells.length ≤ (convertHeapCopy f fp fi h x).2.indexBuf ∧
    h.cells.length ≤ (convertHeapCopy f fp fi h x).2.coordBuf := by
  refine ⟨?_, ?_, ?_, ?_⟩
  · intro i hi
    simp only [convertHeapCopy, Heap.alloc, List.append_assoc]
    rw [List.getElem?_append_left hi]
  · simp [convertHeapCopy, Heap.alloc]
  · simp [convertHeapCopy, Heap.alloc]
  · simp [convertHeapCopy, Heap.alloc]

/-! ## Non-vacuity -/

/-- three bins (one empty), two different geometries, symbolic kernel = pairing -/
def exBins : List (List (Event Nat Nat)) := [[⟨10, 0⟩, ⟨11, 1⟩], [], [⟨12, 2⟩]]
def exGeom : List Nat := [100, 200, 300]

example : convertBins (fun c g => (c, g)) exBins exGeom =
    [[⟨(10, 100), 0⟩, ⟨(11, 100), 1⟩], [], [⟨(12, 300), 2⟩]] := by decide
example : (buffer (convertBins (fun c g => (c, g)) exBins exGeom)).map (·.coord) =
    denseConvert (fun c g => (c, g)) [10, 11, 12] [100, 100, 300] := by decide
example : broadcastGeom exBins exGeom = [100, 100, 300] ∧ ranges 0 (sizes exBins) = [(0, 2), (2, 2), (2, 3)] := by decide
example : convertEdges (fun c g => (c, g)) [1, 2, 3] [100, 200] = [[(1, 100), (2, 100), (3, 100)], [(1, 200), (2, 200), (3, 200)]] := by decide
example : exGeom.length = exBins.length := rfl
example : (convertHeap (fun _ _ => 7) ⟨[1, 2, 3]⟩ ⟨0, 1, 2⟩) = (⟨[1, 2, 3, 7]⟩, ⟨3, 1, 2⟩) := rfl

/-! ## Graph level: the event part and the bin-edge part of the target are one derivation -/

open ScnVerif.Convert ScnVerif.Props.C02

theorem hasEventL_iff (K : Name → CoordKind) :
    ∀ {ts : List Term}, Term.hasEventL K ts = true ↔ ∃ t ∈ ts, t.hasEvent K = true
  | [] => by simp [Term.hasEventL]
  | t :: ts => by
    simp only [Term.hasEventL, Bool.or_eq_true, hasEventL_iff K (ts := ts), List.mem_cons]
    constructor
    · rintro (h | ⟨t', ht', h⟩)
      · exact ⟨t, .inl rfl, h⟩
      · exact ⟨t', .inr ht', h⟩
    · rintro ⟨t', rfl | ht', h⟩
      · exact .inl h
      · exact .inr ⟨t', ht', h⟩

theorem hasDenseL_iff (K : Name → CoordKind) :
    ∀ {ts : List Term}, Term.hasDenseL K ts = true ↔ ∀ t ∈ ts, t.hasDense K = true
  | [] => by simp [Term.hasDenseL]
  | t :: ts => by
    simp only [Term.hasDenseL, Bool.and_eq_true, hasDenseL_iff K (ts := ts), List.mem_cons]
    constructor
    · rintro ⟨h1, h2⟩ t' (rfl | ht')
      · exact h1
      · exact h2 t' ht'
    · intro h
      exact ⟨h t (.inl rfl), fun t' ht' => h t' (.inr ht')⟩

/-- **which parts the converted coordinate has**: an event part iff some fetched input has one, a dense
(bin-edge) part iff every fetched input has a dense part -/
theorem parts_spec {g : Graph} {P : Name → Bool} (K : Name → CoordKind) :
    ∀ {f : Nat} {n : Name} {t : Term}, resolve g P f n = .ok t →
      (t.hasEvent K = true ↔ ∃ m ∈ t.fetched, (K m).event = true) ∧
      (t.hasDense K = true ↔ ∀ m ∈ t.fetched, (K m).dense = true)
  | 0, n, t, h => by simp [resolve] at h
  | f + 1, n, t, h => by
    rcases resolve_ok_cases h with ⟨_, rfl⟩ | ⟨_, r, args, _, hm, rfl⟩
    · simp [Term.hasEvent, Term.hasDense, Term.fetched]
    · have hsub : ∀ t' ∈ args, (t'.hasEvent K = true ↔ ∃ m ∈ t'.fetched, (K m).event = true) ∧
          (t'.hasDense K = true ↔ ∀ m ∈ t'.fetched, (K m).dense = true) := by
        intro t' ht'
        obtain ⟨i, _, hi⟩ := (mapERev_ok hm).of_mem_right ht'
        exact parts_spec K hi
      simp only [Term.hasEvent, Term.hasDense, Term.fetched, hasEventL_iff, hasDenseL_iff]
      constructor
      · constructor
        · rintro ⟨t', ht', he⟩
          obtain ⟨m, hm1, hm2⟩ := (hsub t' ht').1.mp he
          exact ⟨m, mem_fetchedL.mpr ⟨t', ht', hm1⟩, hm2⟩
        · rintro ⟨m, hm1, hm2⟩
          obtain ⟨t', ht', hx⟩ := mem_fetchedL.mp hm1
          exact ⟨t', ht', (hsub t' ht').1.mpr ⟨m, hx, hm2⟩⟩
      · constructor
        · intro hall m hm1
          obtain ⟨t', ht', hx⟩ := mem_fetchedL.mp hm1
          exact (hsub t' ht').2.mp (hall t' ht') m hx
        · intro hall t' ht'
          exact (hsub t' ht').2.mpr (fun m hx => hall m (mem_fetchedL.mpr ⟨t', ht', hx⟩))

theorem evalL_congr {V : Type} (sem : Kernel → Name → List V → V) (e1 e2 : Name → V) :
    ∀ {ts : List Term}, (∀ t ∈ ts, t.eval sem e1 = t.eval sem e2) → Term.evalL sem e1 ts = Term.evalL sem e2 ts
  | [], _ => rfl
  | t :: ts, h => by
    simp only [Term.evalL]
    rw [h t (by simp), evalL_congr sem e1 e2 (fun t' ht' => h t' (List.mem_cons_of_mem _ ht'))]

/-- a derivation only reads the coordinates it fetches -/
theorem eval_congr {V : Type} (sem : Kernel → Name → List V → V) (e1 e2 : Name → V) {g : Graph} {P : Name → Bool} :
    ∀ {f : Nat} {n : Name} {t : Term}, resolve g P f n = .ok t →
      (∀ m ∈ t.fetched, e1 m = e2 m) → t.eval sem e1 = t.eval sem e2
  | 0, n, t, h, _ => by simp [resolve] at h
  | f + 1, n, t, h, hag => by
    rcases resolve_ok_cases h with ⟨_, rfl⟩ | ⟨_, r, args, _, hm, rfl⟩
    · simp only [Term.eval]; exact hag n (by simp [Term.fetched])
    · simp only [Term.eval]
      congr 1
      apply evalL_congr
      intro t' ht'
      obtain ⟨i, _, hi⟩ := (mapERev_ok hm).of_mem_right ht'
      exact eval_congr sem e1 e2 hi (fun m hx => hag m (by
        simp only [Term.fetched]; exact mem_fetchedL.mpr ⟨t', ht', hx⟩))

/-- **events and bin edges are converted by the same function, also through a whole conversion graph**:
the event part of the target is the derivation evaluated on the event-side values, the bin-edge part is
the same derivation on the dense values; hence an event whose event coordinates coincide with the dense
ones (an event sitting on a bin edge) gets exactly the value of the converted edge -/
theorem event_on_edge_gets_edge_value {V : Type} (sem : Kernel → Name → List V → V)
    (K : Name → CoordKind) (dense event : Name → V) {g : Graph} {P : Name → Bool}
    {f : Nat} {n : Name} {t : Term} (h : resolve g P f n = .ok t)
    (hon : ∀ m ∈ t.fetched, (K m).event = true → event m = dense m) :
    t.eval sem (eventSide K dense event) = t.eval sem dense := by
  apply eval_congr sem _ _ h
  intro m hm
  unfold eventSide
  by_cases he : (K m).event = true
  · simp [he, hon m hm he]
  · simp [he]


/-- non-vacuity on the generated tables: binned data with event `tof` only give an event wavelength without a
bin-edge part; with a dense `tof` bin-edge coordinate as well they give both parts -/
example :
    (match convert T (fun n => [nTof, nLtotal].contains n) nTof nWavelength true with
     | .ok d => some (d.hasDense (fun n => ⟨n = nLtotal, n = nTof⟩), d.hasEvent (fun n => ⟨n = nLtotal, n = nTof⟩),
                      d.hasDense (fun n => ⟨n = nLtotal || n = nTof, n = nTof⟩))
     | .error _ => none) = some (false, true, true) := by decide +kernel

section binnedValue
open ScnVerif.ConvertValue

/-! ## Event mode ∘ value clause: every event gets the documented formula of ITS neutron -/

/-- two worlds with the same constants and unit scales (they may differ in positions, times, energies) -/
def SameConstants (W W' : World) : Prop :=
  W.h = W'.h ∧ W.mn = W'.mn ∧ W.sT = W'.sT ∧ W.sL = W'.sL ∧ W.sA = W'.sA ∧ W.sE = W'.sE ∧ W.sEn = W'.sEn

/-- the meaning of the kernels depends on the world only through the constants and unit scales -/
theorem sem_congr {W W' : World} (h : SameConstants W W') : sem W = sem W' := by
  obtain ⟨h1, h2, h3, h4, h5, h6, h7⟩ := h
  cases W; cases W'
  simp only at h1 h2 h3 h4 h5 h6 h7
  subst h1 h2 h3 h4 h5 h6 h7
  rfl

/-- the kernel of a whole conversion in event mode: the derivation `d` that `convert` returns, evaluated on the
event-side values (`coords` of the bin for dense coordinates, the event's own values for event coordinates).
The same function converts the accompanying bin-edge coordinate (`c` = the edge's values). -/
noncomputable def convKernel (W0 : World) (K : Name → CoordKind) (d : Term) (c g : Name → Val) : Val :=
  d.eval (sem W0) (eventSide K g c)

/-- one (event or edge, pixel) pair whose supplied values are the ground truth of a neutron `We` gets the documented
value of the target for THAT neutron -/
theorem convKernel_value (W0 We : World) (hv : We.Valid) (hc : SameConstants W0 We)
    (P : Name → Bool) {o : Name} (ho : o ∈ origins) (t : Name) (s : Bool) {d : Term}
    (h : convert T P o t s = .ok d) (K : Name → CoordKind) (c g : Name → Val)
    (htruth : ∀ n, P n = true → eventSide K g c n = truth We s n)
    (hfl : t = nEnergyTransfer → We.Flight) :
    convKernel W0 K d c g = truth We s t := by
  unfold convKernel
  rw [sem_congr hc]
  exact convert_value We hv P ho t s h _ htruth hfl


/-- **`binned_convert_value`** — the C06 statement over ℝ, for every binned layout (any number of bins and events,
empty bins included), every supported origin, every target, both scatter flags and every presence predicate:
if `convert` returns the derivation `d`, and for every event `j` of every bin `i` the event's own event-coordinates
together with the dense coordinates of its bin are the ground truth of that event's neutron `world i j` (a valid
`World` with the constants of `W0`; for `energy_transfer` obeying the inelastic flight-time relation), then after the
event-mode conversion `convertBinned (convKernel W0 K d)`

1. EVERY event carries exactly the documented value of the target for ITS neutron (`truth (world i j) s t`:
   λ = h t/(m_n L), E = m_n L²/(2t²), d = λ/(2 sin θ), Q = 4π sin θ/λ, ΔE = Ei − Ef, …) together with its own,
   unchanged payload (weight, variance, other event coordinates), at its own position `j` of its own bin `i`;
2. payload lists, bin sizes (also of empty bins), `begin`/`end` and the number of events are unchanged;
3. masks / unrelated coordinates (`carried`) and the geometry are unchanged;
4. the accompanying bin-edge coordinate is converted by the SAME function: entry (pixel `p`, edge `q`) of
   `convertEdges (convKernel W0 K d)` is `convKernel W0 K d` of that edge and that pixel, hence — if the edge values
   with the pixel's dense coordinates are the ground truth of a neutron `We` — the documented value for `We`. -/
theorem binned_convert_value {D M : Type} (W0 : World)
    (P : Name → Bool) {o : Name} (ho : o ∈ origins) (t : Name) (s : Bool) {d : Term}
    (h : convert T P o t s = .ok d) (K : Name → CoordKind)
    (b : Binned (Name → Val) D (Name → Val) M) (hwf : WellFormed b)
    (world : Nat → Nat → World)
    (hworld : ∀ i j, (world i j).Valid ∧ SameConstants W0 (world i j) ∧ (t = nEnergyTransfer → (world i j).Flight))
    (htruth : ∀ i j es g (e : Event (Name → Val) D), b.bins[i]? = some es → b.geom[i]? = some g → es[j]? = some e →
      ∀ n, P n = true → eventSide K g e.coord n = truth (world i j) s n) :
    (∀ i j es g (e : Event (Name → Val) D), b.bins[i]? = some es → b.geom[i]? = some g → es[j]? = some e →
        ((convertBinned (convKernel W0 K d) b).bins[i]?.bind (·[j]?))
          = some (⟨truth (world i j) s t, e.payload⟩ : Event Val D)) ∧
    ((convertBinned (convKernel W0 K d) b).bins.map (·.map (·.payload)) = b.bins.map (·.map (·.payload)) ∧
      sizes (convertBinned (convKernel W0 K d) b).bins = sizes b.bins ∧
      ranges 0 (sizes (convertBinned (convKernel W0 K d) b).bins) = ranges 0 (sizes b.bins) ∧
      (buffer (convertBinned (convKernel W0 K d) b).bins).length = (buffer b.bins).length) ∧
    ((convertBinned (convKernel W0 K d) b).carried = b.carried ∧ (convertBinned (convKernel W0 K d) b).geom = b.geom) ∧
    (∀ (edges pg : List (Name → Val)) (p q : Nat) (c g : Name → Val), pg[p]? = some g → edges[q]? = some c →
        ((convertEdges (convKernel W0 K d) edges pg)[p]?.bind (·[q]?)) = some (convKernel W0 K d c g) ∧
        ∀ We : World, We.Valid → SameConstants W0 We → (t = nEnergyTransfer → We.Flight) →
          (∀ n, P n = true → eventSide K g c n = truth We s n) → convKernel W0 K d c g = truth We s t) := by
  refine ⟨?_, ?_, preserves_masks_coords _ b, ?_⟩
  · intro i j es g e hes hg he
    have hval := convKernel_value W0 (world i j) (hworld i j).1 (hworld i j).2.1 P ho t s h K e.coord g
      (htruth i j es g e hes hg he) (hworld i j).2.2
    have := preserves_order (convKernel W0 K d) b.bins b.geom hwf i j es g e hes hg he
    simp only [convertBinned]
    rw [this, hval]
  · have h1 := preserves_weights_variances (convKernel W0 K d) b.bins b.geom hwf
    have h2 := preserves_bin_sizes (convKernel W0 K d) b.bins b.geom hwf
    exact ⟨h1, h2.1, h2.2.1, h2.2.2⟩
  · intro edges pg p q c g hg hc
    refine ⟨?_, ?_⟩
    · rw [edges_same_function, hg, hc]
    · intro We hv hcs hfl hte
      exact convKernel_value W0 We hv hcs P ho t s h K c g hte hfl


/-- the documented formulas spelled out for one event (or edge) of pixel geometry `g` whose neutron is `We`
(the event-mode reading of `C02.convert_value_formulas`) -/
theorem convKernel_formulas (W0 We : World) (hv : We.Valid) (hc : SameConstants W0 We)
    (P : Name → Bool) {o : Name} (ho : o ∈ origins) (t : Name) (s : Bool) {d : Term}
    (h : convert T P o t s = .ok d) (K : Name → CoordKind) (c g : Name → Val)
    (htruth : ∀ n, P n = true → eventSide K g c n = truth We s n)
    (hfl : t = nEnergyTransfer → We.Flight) :
    let L : ℝ := if s then Props.C03.dist We.sample We.source + Props.C03.dist We.position We.sample
                 else Props.C03.dist We.position We.source
    let lam : ℝ := We.h * (We.t * We.sT) / (We.mn * (L * We.sL))
    (t = nWavelength → convKernel W0 K d c g = .s (lam / We.sA)) ∧
    (t = nEnergy → convKernel W0 K d c g = .s (We.mn * (L * We.sL) ^ 2 / (2 * (We.t * We.sT) ^ 2) / We.sE)) ∧
    (t = nDspacing → convKernel W0 K d c g = .s (lam / (2 * Real.sin (V3R.angle We.ib We.sb / 2)) / We.sA)) ∧
    (t = nQ → convKernel W0 K d c g = .s (4 * Real.pi * Real.sin (V3R.angle We.ib We.sb / 2) / (lam / We.sA))) ∧
    (t = nEnergyTransfer → convKernel W0 K d c g = .s (We.Ei - We.Ef)) ∧
    (t = nL1 → convKernel W0 K d c g = .s (Props.C03.dist We.sample We.source)) ∧
    (t = nL2 → convKernel W0 K d c g = .s (Props.C03.dist We.position We.sample)) ∧
    (t = nLtotal → convKernel W0 K d c g = .s L) ∧
    (t = nTwoTheta → convKernel W0 K d c g = .s (V3R.angle We.ib We.sb)) := by
  unfold convKernel
  rw [sem_congr hc]
  exact convert_value_formulas We hv P ho t s h _ htruth hfl

/-! ### non-vacuity: two pixels (bins), the second bin empty, two events with different flight times -/

/-- a valid world stays valid when only the flight time changes -/
theorem valid_with_t {W : World} (hv : W.Valid) {t' : ℝ} (ht : 0 < t') : ({ W with t := t' } : World).Valid :=
  ⟨hv.h, hv.mn, hv.sT, hv.sL, hv.sA, hv.sE, hv.sEn, ht, hv.ib, hv.sb, hv.direct, hv.s, hv.Ei, hv.Ef⟩

/-- tof is an event coordinate, Ltotal a dense (per-pixel) coordinate -/
def exK : Name → CoordKind := fun n => ⟨n = nLtotal, n = nTof⟩
def exP : Name → Bool := fun n => n = nTof || n = nLtotal
/-- event coordinates of an event with time of flight `x` -/
def exEvent (x : ℝ) : Name → Val := fun n => if n = nTof then .s x else .bad
/-- dense coordinates of a pixel with flight path `L` -/
def exPixel (L : ℝ) : Name → Val := fun n => if n = nLtotal then .s L else .bad
/-- bin 0: two events (tof 1 and 2, weights 10 and 20); bin 1: empty; both pixels 2 length units from the source -/
def exBinned : Binned (Name → Val) Nat (Name → Val) Unit :=
  ⟨[[⟨exEvent 1, 10⟩, ⟨exEvent 2, 20⟩], []], [exPixel 2, exPixel 2], ()⟩
/-- the neutron of event `j` of bin 0: `exWorld` (L1 = L2 = 1) with flight time `j + 1` -/
noncomputable def exWorldOf (_i j : Nat) : World := { exWorld with t := (j : ℝ) + 1 }

example (d : Term) (h : convert T exP nTof nWavelength true = .ok d) :
    -- event 0 and event 1 of bin 0 carry the wavelength of THEIR neutron, h t/(m_n L)/sA = 1·t/(2·2)/1, and their own weights
    (convertBinned (convKernel exWorld exK d) exBinned).bins[0]?.bind (·[0]?) = some ⟨.s (1 / 4), 10⟩ ∧
    (convertBinned (convKernel exWorld exK d) exBinned).bins[0]?.bind (·[1]?) = some ⟨.s (2 / 4), 20⟩ ∧
    -- the empty bin stays empty, sizes and begin/end are those of the input
    sizes (convertBinned (convKernel exWorld exK d) exBinned).bins = [2, 0] ∧
    ranges 0 (sizes (convertBinned (convKernel exWorld exK d) exBinned).bins) = [(0, 2), (2, 2)] := by
  have hv : ∀ i j, (exWorldOf i j).Valid ∧ SameConstants exWorld (exWorldOf i j) ∧
      (nWavelength = nEnergyTransfer → (exWorldOf i j).Flight) :=
    fun i j => ⟨valid_with_t exWorld_valid.1 (by positivity), ⟨rfl, rfl, rfl, rfl, rfl, rfl, rfl⟩, fun hne => by cases hne⟩
  have ht : ∀ i j, (exWorldOf i j).t = (j : ℝ) + 1 := fun _ _ => rfl
  have hL : ∀ i j, (exWorldOf i j).Ltot true = 2 := by
    intro i j
    have := exWorld_norms
    show (exWorldOf i j).L1 + (exWorldOf i j).L2 = 2
    have e1 : (exWorldOf i j).L1 = exWorld.L1 := rfl
    have e2 : (exWorldOf i j).L2 = exWorld.L2 := rfl
    rw [e1, e2, this.1, this.2]; norm_num
  have hlam : ∀ i j, (exWorldOf i j).lam true / (exWorldOf i j).sA = ((j : ℝ) + 1) / 4 := by
    intro i j
    have e : (exWorldOf i j).lam true
        = (exWorldOf i j).h * ((exWorldOf i j).t * (exWorldOf i j).sT) / ((exWorldOf i j).mn * ((exWorldOf i j).Ltot true * (exWorldOf i j).sL)) := rfl
    rw [e, hL, ht]
    show (1 : ℝ) * (((j : ℝ) + 1) * 1) / (2 * (2 * 1)) / 1 = ((j : ℝ) + 1) / 4
    ring
  have htruth : ∀ i j es g (e : Event (Name → Val) Nat), exBinned.bins[i]? = some es → exBinned.geom[i]? = some g →
      es[j]? = some e → ∀ n, exP n = true → eventSide exK g e.coord n = truth (exWorldOf i j) true n := by
    intro i j es g e hes hg he n hn
    have hn' : n = nTof ∨ n = nLtotal := by simpa [exP] using hn
    match i, j with
    | 0, 0 | 0, 1 =>
      simp [exBinned] at hes hg he
      subst hes hg
      simp at he; subst he
      rcases hn' with rfl | rfl <;>
        simp [eventSide, exK, exEvent, exPixel, truth, nTof, nLtotal, nPosition, nSourcePosition, nSamplePosition,
          nIncidentBeam, nScatteredBeam, nL1, nL2, nTwoTheta, nIncidentEnergy, nFinalEnergy, hL, ht]
      all_goals norm_num
    | 0, j + 2 => simp [exBinned] at hes he; subst hes; simp at he
    | 1, j => simp [exBinned] at hes he; subst hes; simp at he
    | i + 2, j => simp [exBinned] at hes
  obtain ⟨hev, ⟨_, hsz, hrg, _⟩, _, _⟩ :=
    binned_convert_value exWorld exP (o := nTof) (by decide +kernel) nWavelength true h exK exBinned rfl exWorldOf hv htruth
  have hw : ∀ i j, truth (exWorldOf i j) true nWavelength = .s (((j : ℝ) + 1) / 4) := by
    intro i j
    simp [truth, nWavelength, nPosition, nSourcePosition, nSamplePosition, nIncidentBeam, nScatteredBeam, nL1, nL2,
      nLtotal, nTwoTheta, nIncidentEnergy, nFinalEnergy, nTof, hlam]
  refine ⟨?_, ?_, ?_, ?_⟩
  · rw [hev 0 0 _ _ ⟨exEvent 1, 10⟩ rfl rfl rfl, hw]; norm_num
  · rw [hev 0 1 _ _ ⟨exEvent 2, 20⟩ rfl rfl rfl, hw]; norm_num
  · rw [hsz]; rfl
  · rw [hrg]; rfl

/-- … and that conversion does succeed (the hypothesis of the example above is satisfiable) -/
example : ∃ d, convert T exP nTof nWavelength true = .ok d := by
  cases h : convert T exP nTof nWavelength true with
  | ok d => exact ⟨d, rfl⟩
  | error e =>
    have : nodesOf (convert T exP nTof nWavelength true) ≠ none := by decide +kernel
    simp [h, nodesOf] at this

end binnedValue

end ScnVerif.Props.C06
