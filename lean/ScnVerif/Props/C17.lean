import ScnVerif.Lemmas.Fit
import Mathlib.Tactic.NormNum
import Mathlib.Algebra.Order.Ring.Rat
/-!
# C17 — peak fitting returns one coherent result per peak; removal touches only windows

Only property theorems and their non-vacuity examples live here (helper lemmas: `Lemmas/Fit.lean`).
The model (`Model/Fit.lean`) has the optimiser, the parameter guesses, the χ² cdf, `log`, the model
functions and `nextafter` as parameters (`Env`); every theorem below holds **for every `Env`**, i.e.
for every optimiser behaviour. `Variant` records the two shapes of the source that the translator
reads off the working tree; theorems that depend on the shape say so.
-/
set_option linter.unusedSectionVars false
namespace ScnVerif.Props.C17
open ScnVerif ScnVerif.Fit ScnVerif.Lemmas.Fit

/-! ## Bookkeeping of `fit_peaks` -/
section FitThms
variable {α : Type} [Add α] [Sub α] [Mul α] [Div α] [LT α] [DecidableLT α]
  [OfNat α 0] [OfNat α 1] [OfNat α 2]

/-- **one_result_per_peak**: exactly one result per window, in the order of the windows; result `i`
carries window `i`. (For every optimiser, guess and cdf.) -/
theorem one_result_per_peak {V : Variant} {E : Env α} {R : Req α} {pts : List (Pt α)} {peaks : List PeakKind}
    {bgs : List Nat} {ws : List (α × α)} {rs : List (Option (Result α))}
    (h : fitPeaks V E R pts peaks bgs ws = .ok rs) :
    rs.length = ws.length ∧
    ∀ (i : Nat) (w : α × α), ws[i]? = some w → ∃ r, rs[i]? = some (some r) ∧ r.window = w := by
  unfold fitPeaks at h
  split_ifs at h with hemp
  simp only [Bool.or_eq_true, List.isEmpty_iff, not_or] at hemp
  have hne := candidates_ne_nil hemp.2 hemp.1
  have hf := fitAll_forall₂ V E R pts _ ws rs h
  refine ⟨hf.length_eq.symm, ?_⟩
  intro i w hw
  have hi : i < ws.length := (List.getElem?_eq_some_iff.mp hw).1
  have hi' : i < rs.length := by rw [← hf.length_eq]; exact hi
  have hwi : ws[i] = w := (List.getElem?_eq_some_iff.mp hw).2
  have := (List.forall₂_iff_get.mp hf).2 i hi hi'
  simp only [List.get_eq_getElem, hwi] at this
  unfold fitWindow at this
  split at this
  · simp at this
  · next rg hrg =>
    obtain ⟨r, r0, pk, deg, hres, _, hs0, hcore⟩ := fitPeak_some hne this
    refine ⟨r, by rw [List.getElem?_eq_getElem hi', hres], ?_⟩
    have h1 := (single_fields hs0).1
    have h2 : r.window = r0.window := by
      have := congrArg (fun t => t.2.2.2.1) hcore
      simpa [core] using this
    rw [h2, h1]

/-- **results_independent** (a): result `i` is `_fit_peak` of window `i` alone — no other window, no other
result enters. -/
theorem results_independent {V : Variant} {E : Env α} {R : Req α} {pts : List (Pt α)} {peaks : List PeakKind}
    {bgs : List Nat} {ws : List (α × α)} {rs : List (Option (Result α))}
    (h : fitPeaks V E R pts peaks bgs ws = .ok rs) :
    ∀ (i : Nat) (w : α × α), ws[i]? = some w →
      ∃ r, rs[i]? = some r ∧ fitWindow V E R pts (candidates peaks bgs) w = .ok r := by
  unfold fitPeaks at h
  split_ifs at h with hemp
  have hf := fitAll_forall₂ V E R pts _ ws rs h
  intro i w hw
  have hi : i < ws.length := (List.getElem?_eq_some_iff.mp hw).1
  have hi' : i < rs.length := by rw [← hf.length_eq]; exact hi
  have hwi : ws[i] = w := (List.getElem?_eq_some_iff.mp hw).2
  have := (List.forall₂_iff_get.mp hf).2 i hi hi'
  simp only [List.get_eq_getElem, hwi] at this
  exact ⟨rs[i], List.getElem?_eq_getElem hi', this⟩

/-- **results_independent** (b): the fit of one window consults the optimiser and the guesses only on
that window's data — two optimisers that agree there give the same result, whatever they do elsewhere
(in particular whether they fail on other peaks). -/
theorem results_independent_of_other_windows {V : Variant} {E : Env α} {R : Req α} {pts : List (Pt α)}
    {cands : List (PeakKind × Nat)} {w : α × α} {rg : Nat × Nat}
    (fit' : ModelId → List (Pt α) → Option (Popt α)) (guess' : PeakKind → Nat → List (Pt α) → Bool)
    (hr : sliceRange (pts.map (·.x)) w = .ok rg)
    (hfit : ∀ m, fit' m (sliceList pts rg) = E.fit m (sliceList pts rg))
    (hguess : ∀ pk deg, guess' pk deg (sliceList pts rg) = E.guessOk pk deg (sliceList pts rg)) :
    fitWindow V { E with fit := fit', guessOk := guess' } R pts cands w = fitWindow V E R pts cands w := by
  unfold fitWindow
  simp only [hr]
  unfold fitPeak
  generalize (none : Option (Result α)) = cand
  generalize ([] : List ModelId) = calls
  induction cands generalizing cand calls with
  | nil => simp [fitPeakLoop]
  | cons c cs ih =>
    obtain ⟨pk, deg⟩ := c
    have hsingle : fitPeakSingle V { E with fit := fit', guessOk := guess' } R (sliceList pts rg) w pk deg
        = fitPeakSingle V E R (sliceList pts rg) w pk deg := by
      simp only [fitPeakSingle, hfit, hguess]
      rfl
    simp only [fitPeakLoop, hsingle]
    cases fitPeakSingle V E R (sliceList pts rg) w pk deg with
    | error e => rfl
    | ok r => simp only; split_ifs <;> [rfl; exact ih _ _]

/-- **narrow_window_no_exception** (single model): fewer points than parameters gives the
`window_too_narrow` result *whatever the guesses and the optimiser would do* — also when every
guess raises (`guessOk = false`): the guard precedes every partial operation, and no optimiser
call is made. -/
theorem narrow_window_single (V : Variant) (E : Env α) (R : Req α) (pts : List (Pt α)) (w : α × α)
    (pk : PeakKind) (deg : Nat) (h : pts.length < (ModelId.mk (some pk) deg).nParams) :
    fitPeakSingle V E R pts w pk deg = .ok (Fit.failure .windowTooNarrow pk deg w []) := by
  simp [fitPeakSingle, h]

/-- **narrow_window_no_exception**: a window with fewer points than any candidate model has parameters
yields a `window_too_narrow` result for the first candidate — never an exception, for every `Env`. -/
theorem narrow_window_no_exception (V : Variant) (E : Env α) (R : Req α) (pts : List (Pt α)) (w : α × α)
    (pk : PeakKind) (deg : Nat) (rest : List (PeakKind × Nat))
    (h : ∀ c ∈ (pk, deg) :: rest, pts.length < (ModelId.mk (some c.1) c.2).nParams) :
    fitPeak V E R pts w ((pk, deg) :: rest) = .ok (some (Fit.failure .windowTooNarrow pk deg w [])) := by
  unfold fitPeak
  rw [narrow_loop V E R pts w _ none [] h]
  simp [Option.orElse, Fit.failure]

/-- **first_success_wins**: the returned result is that of the first candidate (in product order, peaks
outer, backgrounds inner) whose single-model fit is successful — every candidate before it was tried and
was not successful; if none succeeds it is the result of the first candidate. -/
theorem first_success_wins {V : Variant} {E : Env α} {R : Req α} {pts : List (Pt α)} {w : α × α}
    {c : PeakKind × Nat} {cs : List (PeakKind × Nat)} {res : Option (Result α)}
    (h : fitPeak V E R pts w (c :: cs) = .ok res) :
    (∃ pre pk deg post r0 r, c :: cs = pre ++ (pk, deg) :: post ∧
        (∀ c' ∈ pre, ∃ r', fitPeakSingle V E R pts w c'.1 c'.2 = .ok r' ∧ r'.success = false) ∧
        fitPeakSingle V E R pts w pk deg = .ok r0 ∧ r0.success = true ∧ res = some r ∧ core r = core r0) ∨
    ((∀ c' ∈ c :: cs, ∃ r', fitPeakSingle V E R pts w c'.1 c'.2 = .ok r' ∧ r'.success = false) ∧
        ∃ r0 r, fitPeakSingle V E R pts w c.1 c.2 = .ok r0 ∧ res = some r ∧ core r = core r0) := by
  rcases loop_spec V E R pts w (c :: cs) none [] res h with hsucc | ⟨hall, hres⟩
  · exact Or.inl hsucc
  · rcases hres with ⟨c0, hc0, _⟩ | ⟨_, hm⟩
    · simp at hc0
    · exact Or.inr ⟨hall, hm⟩

/-- the candidates are tried in the order of `itertools.product(peaks, backgrounds)` -/
theorem candidates_order (p1 p2 : PeakKind) (b1 b2 : Nat) :
    candidates [p1, p2] [b1, b2] = [(p1, b1), (p1, b2), (p2, b1), (p2, b2)] := by
  simp [candidates]

/-- **success_satisfies_requirements**: a result marked successful satisfies every requirement, stated
on the parameters and statistics *it carries* and on the data of *its* window. -/
theorem success_satisfies_requirements {V : Variant} {E : Env α} {R : Req α} {pts : List (Pt α)} {w : α × α}
    {cands : List (PeakKind × Nat)} {r : Result α} (hne : cands ≠ [])
    (h : fitPeak V E R pts w cands = .ok (some r)) (hs : r.success = true) :
    (r.peak, r.degree) ∈ cands ∧
    ∃ popt st, r.popt = some popt ∧ r.stats = some st ∧ Requirements V E R pts r.peak r.degree popt st := by
  obtain ⟨r', r0, pk, deg, hres, hmem, hs0, hcore⟩ := fitPeak_some hne h
  injection hres with hres
  subst hres
  simp only [core, Prod.mk.injEq] at hcore
  obtain ⟨ha, hp, hd, _, hpo, hst⟩ := hcore
  have hsucc0 : r0.assessment = .success := by
    rw [← ha]; simpa [Result.success] using hs
  rcases single_cases hs0 with ⟨_, hr⟩ | ⟨_, _, hr⟩ | ⟨hn, popt, a, hfit, hass, hr⟩
  · subst hr; simp [Fit.failure] at hsucc0
  · subst hr; simp [Fit.failure] at hsucc0
  · subst hr
    simp only at hsucc0 ha hp hd hpo hst
    subst hsucc0
    obtain ⟨hb, h2, h3, h4, h5, h6⟩ := assess_success hass
    rw [hp, hd]
    refine ⟨hmem, popt, _, hpo, hst, ⟨hn, h2, h3, h4, h5, h6, ?_⟩⟩
    intro bpopt hbp
    exact hb _ (by simp [hbp])

/-- **stats_recomputed**: the reported statistics are the stated functions (`goodness`: χ²/ν,
`1 - chi2cdf ν χ²`, `n·log(χ²/n) + 2k`) of the returned parameters, the returned model and the data in the
window; the returned parameters are what the optimiser gave for that model on that window; a result
without parameters is a failure. -/
theorem stats_recomputed {V : Variant} {E : Env α} {R : Req α} {pts : List (Pt α)} {w : α × α}
    {cands : List (PeakKind × Nat)} {r : Result α} (hne : cands ≠ [])
    (h : fitPeak V E R pts w cands = .ok (some r)) :
    (∀ popt, r.popt = some popt →
        E.fit ⟨some r.peak, r.degree⟩ pts = some popt ∧
        r.stats = some (goodness E ⟨some r.peak, r.degree⟩ pts popt)) ∧
    (r.popt = none → r.stats = none ∧ (r.assessment = .failed ∨ r.assessment = .windowTooNarrow)) := by
  obtain ⟨r', r0, pk, deg, hres, _, hs0, hcore⟩ := fitPeak_some hne h
  injection hres with hres
  subst hres
  simp only [core, Prod.mk.injEq] at hcore
  obtain ⟨ha, hp, hd, _, hpo, hst⟩ := hcore
  rw [ha, hp, hd, hpo, hst]
  rcases single_cases hs0 with ⟨_, hr⟩ | ⟨_, _, hr⟩ | ⟨hn, popt, a, hfit, hass, hr⟩
  · subst hr; simp [Fit.failure]
  · subst hr; simp [Fit.failure]
  · subst hr; simp [hfit]

end FitThms

/-! ## Automatic fit windows (over any linearly ordered field) -/
section Windows
variable {α : Type} [Field α] [LinearOrder α] [IsStrictOrderedRing α]

/-- **windows_in_range** (current shape: clip first). With all estimates inside the data range,
`0 ≤ factor ≤ 1`, every automatic window lies inside the data range. -/
theorem windows_in_range {V : Variant} {next : α → α} {dmin dmax width f : α} {cs : List α} {ws : List (α × α)}
    (h : fitWindows V next dmin dmax cs width f = .ok ws)
    (hf0 : 0 ≤ f) (hf1 : f ≤ 1) (hin : ∀ c ∈ cs, dmin ≤ c ∧ c ≤ dmax) :
    ∀ (i : Nat) (w : α × α), ws[i]? = some w → (dmin ≤ w.1 ∧ w.1 ≤ dmax) ∧ (dmin ≤ w.2 ∧ w.2 ≤ dmax) := by
  obtain ⟨hs, hlen, hget⟩ := fitWindows_get h
  intro i w hw
  have hi : i < cs.length := by
    have := (List.getElem?_eq_some_iff.mp hw).1; omega
  have hc : cs[i]? = some cs[i] := List.getElem?_eq_getElem hi
  have hci := hin cs[i] (List.getElem_mem hi)
  have hdd : dmin ≤ dmax := le_trans hci.1 hci.2
  rw [hget i _ hc] at hw
  injection hw with hw
  subst hw
  -- facts about the neighbours
  have hprev : ∀ l, (if i = 0 then none else cs[i - 1]?) = some l → l ≤ cs[i] ∧ dmin ≤ l ∧ l ≤ dmax := by
    intro l hl
    cases i with
    | zero => simp at hl
    | succ j =>
      simp only [Nat.succ_ne_zero, if_false, Nat.add_sub_cancel] at hl
      have hm := hin l (List.mem_of_getElem? hl)
      exact ⟨isSorted_get cs hs j l _ hl hc, hm.1, hm.2⟩
  have hnext : ∀ r, cs[i + 1]? = some r → cs[i] ≤ r ∧ dmin ≤ r ∧ r ≤ dmax := by
    intro r hr
    have hm := hin r (List.mem_of_getElem? hr)
    exact ⟨isSorted_get cs hs i _ r hc hr, hm.1, hm.2⟩
  unfold windowAt
  cases hV : V.clipFirst
  · simp only [Bool.false_eq_true, if_false]
    exact ⟨clip1_mem hdd _, clip1_mem hdd _⟩
  · simp only [if_true]
    have hlo := clip1_mem hdd (cs[i] - width / 2)
    have hhi := clip1_mem hdd (next (cs[i] + width / 2))
    refine ⟨⟨le_trans hlo.1 (sepLo_ge_lo _ _ _ _), ?_⟩, ⟨?_, le_trans (sepHi_le_hi _ _ _ _) hhi.2⟩⟩
    · generalize hp : (if i = 0 then none else cs[i - 1]?) = prev at hprev
      cases prev with
      | none => simpa [sepLo] using hlo.2
      | some l =>
        obtain ⟨h1, h2, h3⟩ := hprev l rfl
        have := (bound_between h1 hf0 hf1).2
        simp only [sepLo]; split_ifs <;> linarith
    · generalize hn : cs[i + 1]? = nxt at hnext
      cases nxt with
      | none => simpa [sepHi] using hhi.1
      | some r =>
        obtain ⟨h1, h2, h3⟩ := hnext r rfl
        have := (bound_between' h1 hf0 hf1).1
        simp only [sepHi]; split_ifs <;> linarith

/-- **windows_in_range**, shape "clip last": unconditional (any estimates, any factor). -/
theorem windows_in_range_clip_last {V : Variant} {next : α → α} {dmin dmax width f : α} {cs : List α}
    {ws : List (α × α)} (hV : V.clipFirst = false) (hdd : dmin ≤ dmax)
    (h : fitWindows V next dmin dmax cs width f = .ok ws) :
    ∀ (i : Nat) (w : α × α), ws[i]? = some w → (dmin ≤ w.1 ∧ w.1 ≤ dmax) ∧ (dmin ≤ w.2 ∧ w.2 ≤ dmax) := by
  obtain ⟨hs, hlen, hget⟩ := fitWindows_get h
  intro i w hw
  have hi : i < cs.length := by
    have := (List.getElem?_eq_some_iff.mp hw).1; omega
  rw [hget i _ (List.getElem?_eq_getElem hi)] at hw
  injection hw with hw
  subst hw
  simp only [windowAt, hV, Bool.false_eq_true, if_false]
  exact ⟨clip1_mem hdd _, clip1_mem hdd _⟩

/-- the statement without the hypothesis on the estimates -/
def FullStatementWindowsInRange (V : Variant) : Prop :=
  ∀ (next : ℚ → ℚ) (dmin dmax width f : ℚ) (cs : List ℚ) (ws : List (ℚ × ℚ)),
    (∀ x, x ≤ next x) → dmin ≤ dmax → 0 ≤ width → 0 ≤ f → f ≤ 1 →
    fitWindows V next dmin dmax cs width f = .ok ws →
    ∀ (i : Nat) (w : ℚ × ℚ), ws[i]? = some w → (dmin ≤ w.1 ∧ w.1 ≤ dmax) ∧ (dmin ≤ w.2 ∧ w.2 ≤ dmax)

/-- … is false of the code as it stands (clip first): data on `[0, 10]`, estimates `9` and `20`,
width `2`, factor `1/3` give the second window `(38/3, 10)`. The real code then raises `IndexError`
when slicing (`end < begin`). -/
theorem windows_in_range_full_fails_clip_first (c : Bool) : ¬ FullStatementWindowsInRange ⟨true, c⟩ := by
  intro h
  have := h id 0 10 2 (1/3) [9, 20] [(8, 10), (38/3, 10)] (fun x => le_refl x) (by norm_num) (by norm_num)
    (by norm_num) (by norm_num) (by
      simp [fitWindows, rawWindows, clipAll, separate, isSorted, clip1, sepLo, sepHi]
      norm_num) 1 (38/3, 10) (by simp)
  norm_num at this

/-- **windows_contain_estimate** (both shapes): for an estimate inside the data range, sorted estimates,
`factor ≤ 1`, a non-negative width and `x ≤ nextafter x`, the window contains its estimate. -/
theorem windows_contain_estimate {V : Variant} {next : α → α} {dmin dmax width f : α} {cs : List α}
    {ws : List (α × α)} (h : fitWindows V next dmin dmax cs width f = .ok ws)
    (hnext : ∀ x, x ≤ next x) (hw0 : 0 ≤ width) (hf1 : f ≤ 1) :
    ∀ (i : Nat) (c : α) (w : α × α), cs[i]? = some c → ws[i]? = some w → dmin ≤ c → c ≤ dmax →
      w.1 ≤ c ∧ c ≤ w.2 := by
  obtain ⟨hs, hlen, hget⟩ := fitWindows_get h
  intro i c w hc hw hc0 hc1
  rw [hget i c hc] at hw
  injection hw with hw
  subst hw
  have hh : 0 ≤ width / 2 := div_nonneg hw0 (by norm_num)
  have hraw_lo : c - width / 2 ≤ c := by linarith
  have hraw_hi : c ≤ next (c + width / 2) := le_trans (by linarith) (hnext _)
  have hprev : ∀ l, (if i = 0 then none else cs[i - 1]?) = some l → l + (c - l) * f ≤ c := by
    intro l hl
    cases i with
    | zero => simp at hl
    | succ j =>
      simp only [Nat.succ_ne_zero, if_false, Nat.add_sub_cancel] at hl
      have hle : l ≤ c := isSorted_get cs hs j l c hl hc
      nlinarith [mul_nonneg (sub_nonneg.mpr hle) (sub_nonneg.mpr hf1)]
  have hnxt : ∀ r, cs[i + 1]? = some r → c ≤ r - (r - c) * f := by
    intro r hr
    have hle : c ≤ r := isSorted_get cs hs i c r hc hr
    nlinarith [mul_nonneg (sub_nonneg.mpr hle) (sub_nonneg.mpr hf1)]
  unfold windowAt
  cases hV : V.clipFirst
  · simp only [Bool.false_eq_true, if_false]
    exact ⟨clip1_le_of_le (sepLo_le hraw_lo hprev) hc0, le_clip1_of_le (le_sepHi hraw_hi hnxt) hc1⟩
  · simp only [if_true]
    exact ⟨sepLo_le (clip1_le_of_le hraw_lo hc0) hprev, le_sepHi (le_clip1_of_le hraw_hi hc1) hnxt⟩

/-- **windows_keep_distance** (current shape, clip first): every inner edge keeps at least
`factor · (distance of the two estimates)` from the neighbouring estimate — unconditionally. -/
theorem windows_keep_distance {V : Variant} {next : α → α} {dmin dmax width f : α} {cs : List α}
    {ws : List (α × α)} (hV : V.clipFirst = true)
    (h : fitWindows V next dmin dmax cs width f = .ok ws) :
    ∀ (i : Nat) (c : α) (w : α × α), cs[i]? = some c → ws[i]? = some w →
      (∀ l, i ≠ 0 → cs[i - 1]? = some l → l + (c - l) * f ≤ w.1) ∧
      (∀ r, cs[i + 1]? = some r → w.2 ≤ r - (r - c) * f) := by
  obtain ⟨hs, hlen, hget⟩ := fitWindows_get h
  intro i c w hc hw
  rw [hget i c hc] at hw
  injection hw with hw
  subst hw
  simp only [windowAt, hV, if_true]
  constructor
  · intro l hi hl
    simp only [hi, if_false, hl]
    exact sepLo_ge_bound _ _ _ _
  · intro r hr
    simp only [hr]
    exact sepHi_le_bound _ _ _ _

/-- **windows_keep_distance**, shape "clip last": the distance is kept up to the data boundary
(when the neighbour bound lies beyond the data, "inside the data range" wins). -/
theorem windows_keep_distance_clip_last {V : Variant} {next : α → α} {dmin dmax width f : α} {cs : List α}
    {ws : List (α × α)} (hV : V.clipFirst = false)
    (h : fitWindows V next dmin dmax cs width f = .ok ws) :
    ∀ (i : Nat) (c : α) (w : α × α), cs[i]? = some c → ws[i]? = some w →
      (∀ l, i ≠ 0 → cs[i - 1]? = some l → l + (c - l) * f ≤ dmax → l + (c - l) * f ≤ w.1) ∧
      (∀ r, cs[i + 1]? = some r → dmin ≤ r - (r - c) * f → w.2 ≤ r - (r - c) * f) := by
  obtain ⟨hs, hlen, hget⟩ := fitWindows_get h
  intro i c w hc hw
  rw [hget i c hc] at hw
  injection hw with hw
  subst hw
  simp only [windowAt, hV, Bool.false_eq_true, if_false]
  constructor
  · intro l hi hl hb
    simp only [hi, if_false, hl]
    exact le_clip1_of_le (sepLo_ge_bound _ _ _ _) hb
  · intro r hr hb
    simp only [hr]
    exact clip1_le_of_le (sepHi_le_bound _ _ _ _) hb

/-- non-vacuity: a concrete run over `ℚ` (data on `[0,10]`, estimates `4`, `9`, width `2`, factor `1/3`) -/
example : fitWindows (⟨true, false⟩ : Variant) (fun x : ℚ => x + 1/1000) 0 10 [4, 9] 2 (1/3)
    = .ok [(3, 5001/1000), (8, 10)] := by
  simp [fitWindows, rawWindows, clipAll, separate, isSorted, clip1, sepLo, sepHi]
  norm_num

end Windows

/-! ## No exception escapes (partial) -/
section NoExc
variable {α : Type} [Field α] [LinearOrder α] [IsStrictOrderedRing α]

/-- **no_exception_partial**: with the neighbour indices of the width check clamped (`clampIdx`), windows
whose lower edge does not exceed the upper edge, non-empty model lists and guesses that do not raise on
windows with enough points, `fit_peaks` returns a result list — for every optimiser. -/
theorem no_exception_partial (V : Variant) (hV : V.clampIdx = true) (E : Env α)
    (hg : ∀ pk deg pts, E.guessOk pk deg pts = true) (R : Req α) (pts : List (Pt α))
    (peaks : List PeakKind) (bgs : List Nat) (hp : peaks ≠ []) (hb : bgs ≠ [])
    (ws : List (α × α)) (hw : ∀ w ∈ ws, w.1 ≤ w.2) :
    ∃ rs, fitPeaks V E R pts peaks bgs ws = .ok rs := by
  unfold fitPeaks
  have hemp : (bgs.isEmpty || peaks.isEmpty) = false := by
    cases peaks <;> cases bgs <;> simp_all
  simp only [hemp, Bool.false_eq_true, if_false]
  induction ws with
  | nil => exact ⟨_, rfl⟩
  | cons w ws ih =>
    obtain ⟨rs, hrs⟩ := ih (fun w' hw' => hw w' (by simp [hw']))
    have hle := lowerIdx_mono (hw w (by simp)) (pts.map (·.x))
    obtain ⟨res, hres⟩ := loop_ok V hV E hg R
      (sliceList pts (lowerIdx w.1 (pts.map (·.x)), lowerIdx w.2 (pts.map (·.x)))) w (candidates peaks bgs) none []
    have hwin : fitWindow V E R pts (candidates peaks bgs) w = .ok res := by
      simp only [fitWindow, sliceRange, Nat.not_lt.mpr hle, if_false, fitPeak, hres]
    simp only [fitAll, hwin, hrs]
    exact ⟨_, rfl⟩

/-- the statement for the code as it stands (raw indexing in the width check, any window) -/
def FullStatementNoException (V : Variant) : Prop :=
  ∀ (E : Env ℚ) (R : Req ℚ) (pts : List (Pt ℚ)) (ws : List (ℚ × ℚ)),
    (∀ pk deg p, E.guessOk pk deg p = true) →
    ∃ rs, fitPeaks V E R pts [.gaussian] [1] ws = .ok rs

/-- … is false of both shapes as soon as a window is inverted (`lo > hi` with data in between — what the
automatic windows produce for a neighbouring estimate beyond the data when clipping comes first) -/
theorem no_exception_full_fails (V : Variant) : ¬ FullStatementNoException V := by
  intro h
  obtain ⟨rs, hrs⟩ := h
    { next := id, evalModel := fun _ _ _ => 0, evalPeak := fun _ _ _ => 0, fwhm := fun _ _ => 0, chi2cdf := fun _ _ => 0,
      log := id, ofNat := fun n => (n : ℚ), guessOk := fun _ _ _ => true, fit := fun _ _ => none }
    ⟨0, 1, 1⟩ [⟨1, 0, 1⟩, ⟨2, 0, 1⟩] [(3, 2)] (fun _ _ _ => rfl)
  revert hrs
  norm_num [fitPeaks, fitAll, fitWindow, sliceRange, lowerIdx]
  intro h; cases h

end NoExc

/-! ## `remove_peaks` -/
section RemoveThms
variable {α : Type} [Sub α] [LT α] [DecidableLT α]

/-- **remove_inside_subtracts** (general form): the output value at every index is the input value with the
fitted peak of every successful result whose window contains the index subtracted, in order; coordinates
and length are unchanged. -/
theorem remove_formula (E : Env α) : ∀ (rs : List (Result α)) (data out : List (α × α)),
    removeLoop E data rs = .ok out →
    out.map (·.1) = data.map (·.1) ∧
    ∀ (j : Nat) (p : α × α), data[j]? = some p →
      out[j]? = some (p.1, rs.foldl (fun y r => applyOne E (data.map (·.1)) j p.1 y r) p.2) := by
  intro rs
  induction rs with
  | nil => intro data out h; simp [removeLoop] at h; subst h; simp
  | cons r rs ih =>
    intro data out h
    unfold removeLoop at h
    cases h1 : removeOne E data r with
    | error e => simp [h1] at h
    | ok d =>
      simp only [h1] at h
      obtain ⟨hx1, hv1⟩ := removeOne_spec h1
      obtain ⟨hx2, hv2⟩ := ih d out h
      refine ⟨hx2.trans hx1, ?_⟩
      intro j p hj
      have := hv2 j _ (hv1 j p hj)
      rw [this, hx1]
      rfl


/-- **remove_outside_unchanged**: a point that lies in no successful window keeps its value exactly; and
the coordinates are never touched. -/
theorem remove_outside_unchanged (E : Env α) (rs : List (Result α)) (data out : List (α × α))
    (h : removeLoop E data rs = .ok out) (j : Nat)
    (hout : ∀ r ∈ rs, r.success = true → ∀ b e, sliceRange (data.map (·.1)) r.window = .ok (b, e) → ¬ (b ≤ j ∧ j < e)) :
    out[j]? = data[j]? ∧ out.map (·.1) = data.map (·.1) := by
  obtain ⟨hx, hv⟩ := remove_formula E rs data out h
  refine ⟨?_, hx⟩
  cases hj : data[j]? with
  | none =>
    have hl : out.length = data.length := by simpa using congrArg List.length hx
    simp only [List.getElem?_eq_none_iff] at hj ⊢; omega
  | some p =>
    rw [hv j p hj]
    have : ∀ (l : List (Result α)), (∀ r ∈ l, r ∈ rs) → ∀ y,
        l.foldl (fun y r => applyOne E (data.map (·.1)) j p.1 y r) y = y := by
      intro l
      induction l with
      | nil => intro _ y; rfl
      | cons r l ih =>
        intro hl y
        simp only [List.foldl_cons]
        have hr : applyOne E (data.map (·.1)) j p.1 y r = y := by
          unfold applyOne
          by_cases hs : r.success = true
          · simp only [hs, if_true]
            cases hp : r.popt with
            | none => rfl
            | some popt =>
              cases hr : sliceRange (data.map (·.1)) r.window with
              | error e => rfl
              | ok be =>
                obtain ⟨b, e⟩ := be
                have := hout r (hl r (by simp)) hs b e hr
                simp [this]
          · simp [hs]
        rw [hr]
        exact ih (fun r hr => hl r (by simp [hr])) y
    rw [this rs (fun r hr => hr)]

/-- **remove_inside_subtracts**: with one successful result, the output inside its window is exactly
`data - eval_peak(popt)(x)` (for several overlapping windows `remove_formula` gives the iterated form). -/
theorem remove_inside_subtracts (E : Env α) (r : Result α) (popt : Popt α) (data out : List (α × α)) (b e j : Nat)
    (p : α × α) (h : removeLoop E data [r] = .ok out) (hs : r.success = true) (hp : r.popt = some popt)
    (hr : sliceRange (data.map (·.1)) r.window = .ok (b, e)) (hj : data[j]? = some p) (hin : b ≤ j ∧ j < e) :
    out[j]? = some (p.1, p.2 - E.evalPeak r.peak popt p.1) := by
  obtain ⟨_, hv⟩ := remove_formula E [r] data out h
  rw [hv j p hj]
  simp [applyOne, hs, hp, hr, hin]

/-- **remove_input_unchanged**: the code as written (copy first) never writes the caller's buffer, whatever
the results are. -/
theorem remove_input_unchanged (E : Env α) (data : List (α × α)) (rs : List (Result α)) (m : Mem α)
    (h : removePeaks true E data rs = .ok m) :
    m.caller = data ∧ removeLoop E data rs = .ok m.work := by
  unfold removePeaks at h
  cases hl : removeLoop E data rs with
  | error e => simp [hl] at h
  | ok out => simp [hl] at h; subst h; exact ⟨rfl, rfl⟩

end RemoveThms

/-! ## Non-vacuity: concrete runs of the model over `ℚ` -/
section Examples

/-- an `Env` over `ℚ` whose optimiser always answers with the same parameters -/
def envQ (ok : Bool) : Env ℚ :=
  { next := fun x => x + 1/1000
    evalModel := fun _ p x => p.bg.headD 0 + p.amplitude * x
    evalPeak := fun _ p x => p.amplitude * x
    fwhm := fun _ p => 2 * p.scale
    chi2cdf := fun _ _ => 1/2
    log := fun x => x
    ofNat := fun n => (n : ℚ)
    guessOk := fun _ _ _ => ok
    fit := fun m _ => if m.peak.isSome then some ⟨[1, 0], 1, 2, 1, 0⟩ else none }

def ptsQ : List (Pt ℚ) := (List.range 8).map (fun i => ⟨(i : ℚ), 1 + (i : ℚ), 1⟩)

/-- a window with enough points is fitted and assessed successful: the hypotheses of the success theorems
are satisfiable -/
example : ((fitPeak ⟨true, false⟩ (envQ true) ⟨1/100, 1, 1⟩ ptsQ (0, 10) [(.gaussian, 1)]).toOption.bind id).map
    (fun r => (r.assessment, r.calls.length)) = some (.success, 2) := by
  decide +kernel

/-- a window with four points for a five-parameter model: `window_too_narrow`, also when every guess raises -/
example : fitPeak ⟨true, false⟩ (envQ false) ⟨1/100, 1, 1⟩ (ptsQ.take 4) (0, 4) [(.gaussian, 1), (.pseudoVoigt, 2)]
    = .ok (some (Fit.failure .windowTooNarrow .gaussian 1 (0, 4) [])) :=
  narrow_window_no_exception _ _ _ _ _ _ _ _ (by decide)

/-- … whereas with enough points a raising guess does propagate (the model has the error path) -/
example : (match fitPeak ⟨true, false⟩ (envQ false) ⟨1/100, 1, 1⟩ ptsQ (0, 10) [(.gaussian, 1)] with
    | .error .guess => true | _ => false) = true := by
  decide +kernel

/-- removal: without the copy the caller's buffer would be written — the model distinguishes the two -/
example : (removePeaks false (envQ true) [(0, 5), (1, 5), (2, 5)]
      [{ assessment := .success, peak := .gaussian, degree := 1, window := (1, 2),
         popt := some ⟨[], 1, 0, 0, 0⟩, stats := none, calls := [] }]).toOption.map (·.caller)
    = some [(0, 5), (1, 4), (2, 5)] := by
  decide +kernel

end Examples

end ScnVerif.Props.C17
