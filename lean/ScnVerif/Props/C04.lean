import ScnVerif.Model.Gravity
import ScnVerif.Lemmas.Gravity
import ScnVerif.Props.C03
import ScnVerif.Lemmas.BeamlineEuclid
import Mathlib.Topology.Algebra.Order.Field
import Mathlib.Tactic.FunProp
/-!
# C04 — gravity-corrected angles follow the documented construction on every code path

`Spec` below is the documented construction (module docstring and docstring of
`scattering_angles_with_gravity`): `δ = |g|·m_n²/(2h²)·λ²·L2²`, `b2' = b2 + δ·ê_y`, `ê_y = −g/|g|`,
`2θ = ∠(b1, b2')`, `φ = atan2(b2'·ê_y, b2·ê_x)`.  The model (`Model/Gravity.lean`) is a transcription
of the code, instantiated here at `α = β = ℝ` with identity dtype conversions.
-/
namespace ScnVerif.Props.C04
open ScnVerif ScnVerif.Beamline ScnVerif.Gravity ScnVerif.V3R Real Filter Topology

/-! ## Specification (the documented construction) -/
namespace Spec
/-- `ê_y = −g/|g|` -/
noncomputable def ey (g : V3 ℝ) : V3 ℝ := V3.smul (-1 / V3.norm g) g
/-- `z_proj = b1 − (b1·ê_y) ê_y` -/
noncomputable def zproj (b1 g : V3 ℝ) : V3 ℝ := V3.sub b1 (V3.smul (V3.dot b1 (ey g)) (ey g))
/-- `ê_z = z_proj/|z_proj|` -/
noncomputable def ez (b1 g : V3 ℝ) : V3 ℝ := V3.smul (1 / V3.norm (zproj b1 g)) (zproj b1 g)
/-- `ê_x = ê_y × ê_z` -/
noncomputable def ex (b1 g : V3 ℝ) : V3 ℝ := V3.cross (ey g) (ez b1 g)
/-- `δ = |g| · m_n²/(2h²) · λ² · L2²` with `c = m_n²/(2h²)` -/
noncomputable def delta (c : ℝ) (g : V3 ℝ) (lam L2 : ℝ) : ℝ := V3.norm g * c * lam ^ 2 * L2 ^ 2
/-- the raised beam `b2' = b2 + δ ê_y` -/
noncomputable def raised (g b2 : V3 ℝ) (δ : ℝ) : V3 ℝ := V3.add b2 (V3.smul δ (ey g))
/-- `2θ = ∠(b1, b2')` -/
noncomputable def twoTheta (b1 g b2 : V3 ℝ) (δ : ℝ) : ℝ := angle b1 (raised g b2 δ)
/-- `φ = atan2(b2'·ê_y, b2·ê_x)` -/
noncomputable def phi (b1 g b2 : V3 ℝ) (δ : ℝ) : ℝ :=
  Complex.arg ⟨V3.dot b2 (ex b1 g), V3.dot (raised g b2 δ) (ey g)⟩
end Spec

theorem unitY_eq_spec (g : V3 ℝ) : unitY g = Spec.ey g := by
  simp only [unitY, Spec.ey, V3.sdiv, Gravity.V3.neg, V3.smul]; apply V3R.ext <;> ring

theorem zProj_eq_spec (b1 g : V3 ℝ) : zProj b1 (unitY g) = Spec.zproj b1 g := by
  rw [unitY_eq_spec]; rfl

theorem frame_eq_spec (b1 g : V3 ℝ) :
    frame b1 g = ⟨Spec.ex b1 g, Spec.ey g, Spec.ez b1 g⟩ := by
  have : V3.sdiv (Spec.zproj b1 g) (V3.norm (Spec.zproj b1 g)) = Spec.ez b1 g := by
    simp only [Spec.ez, V3.sdiv, V3.smul]; apply V3R.ext <;> ring
  simp only [frame, unitY_eq_spec, Spec.ex]
  rw [show zProj b1 (Spec.ey g) = Spec.zproj b1 g from rfl, this]

theorem ey_unit {g : V3 ℝ} (hg : g ≠ zero) : V3.dot (Spec.ey g) (Spec.ey g) = 1 := by
  have hn := norm_ne_zero hg
  have := norm_mul_self g
  simp only [Spec.ey, dot_smul_smul]
  field_simp
  linarith

theorem ey_dot_g {g : V3 ℝ} (hg : g ≠ zero) : V3.dot (Spec.ey g) g = - V3.norm g := by
  have hn := norm_ne_zero hg
  have := norm_mul_self g
  simp only [Spec.ey, dot_smul_left]
  field_simp
  linarith

theorem zproj_dot_ey {g : V3 ℝ} (hg : g ≠ zero) (b1 : V3 ℝ) :
    V3.dot (Spec.ey g) (Spec.zproj b1 g) = 0 := by
  have h := ey_unit hg
  rw [dot_comm]
  simp only [Spec.zproj, dot_sub_left, dot_smul_left, h]; ring

theorem ez_unit {b1 g : V3 ℝ} (hz : Spec.zproj b1 g ≠ zero) : V3.dot (Spec.ez b1 g) (Spec.ez b1 g) = 1 := by
  have hn := norm_ne_zero hz
  have := norm_mul_self (Spec.zproj b1 g)
  simp only [Spec.ez, dot_smul_smul]
  field_simp
  linarith

theorem ey_dot_ez {b1 g : V3 ℝ} (hg : g ≠ zero) : V3.dot (Spec.ey g) (Spec.ez b1 g) = 0 := by
  simp only [Spec.ez, dot_smul_right, zproj_dot_ey hg, mul_zero]

/-- the beam-aligned unit vectors form a right-handed orthonormal frame; ê_y is antiparallel to
gravity; ê_z is the (positively) normalised projection of the incident beam onto the plane
perpendicular to gravity -/
theorem unit_vectors_orthonormal (b1 g : V3 ℝ) (hg : g ≠ zero) (hz : zProj b1 (unitY g) ≠ zero) :
    Orthonormal (frame b1 g).ex (frame b1 g).ey (frame b1 g).ez ∧
    V3.smul (V3.norm g) (frame b1 g).ey = V3.smul (-1) g ∧
    (∃ k : ℝ, 0 < k ∧ (frame b1 g).ez = V3.smul k (V3.sub b1 (V3.smul (V3.dot b1 (frame b1 g).ey) (frame b1 g).ey))) ∧
    0 < V3.dot (frame b1 g).ez b1 := by
  rw [zProj_eq_spec] at hz
  rw [frame_eq_spec]
  refine ⟨orthonormal_of_pair (ey_unit hg) (ez_unit hz) (ey_dot_ez hg), ?_, ?_, ?_⟩
  · have hn := norm_ne_zero hg
    simp only [Spec.ey, V3.smul]; apply V3R.ext <;> field_simp
  · exact ⟨1 / V3.norm (Spec.zproj b1 g), by have := norm_pos hz; positivity, rfl⟩
  · -- ez·b1 = |z_proj| > 0
    have hn := norm_pos hz
    have h1 : V3.dot (Spec.zproj b1 g) b1 = V3.dot (Spec.zproj b1 g) (Spec.zproj b1 g) := by
      have h0 := zproj_dot_ey hg b1
      have key : ∀ z : V3 ℝ, V3.dot z (Spec.zproj b1 g)
          = V3.dot z b1 - V3.dot b1 (Spec.ey g) * V3.dot z (Spec.ey g) := by
        intro z; simp only [Spec.zproj, V3.dot, V3.sub, V3.smul]; ring
      rw [key (Spec.zproj b1 g), dot_comm (Spec.zproj b1 g) (Spec.ey g), h0]; ring
    simp only [Spec.ez, dot_smul_left, h1, ← norm_mul_self]
    field_simp
    exact hn

/-- `|z_proj|² = |b1 × g|²/|g|²`: the projection vanishes exactly when the incident beam is parallel
to gravity, so the hypothesis `z_proj ≠ 0` of the theorems is "b1 not parallel to g" -/
theorem zproj_eq_zero_iff_parallel (b1 g : V3 ℝ) (hg : g ≠ zero) :
    Spec.zproj b1 g = zero ↔ V3.cross b1 g = zero := by
  have hgg := dot_self_pos hg
  have hey := ey_unit hg
  have hey_b1 : V3.dot b1 (Spec.ey g) = - V3.dot b1 g / V3.norm g := by
    rw [Spec.ey, dot_smul_right]; ring
  have key : ∀ z : V3 ℝ, V3.dot z (Spec.zproj b1 g)
      = V3.dot z b1 - V3.dot b1 (Spec.ey g) * V3.dot z (Spec.ey g) := by
    intro z; simp only [Spec.zproj, V3.dot, V3.sub, V3.smul]; ring
  have hzz : V3.dot (Spec.zproj b1 g) (Spec.zproj b1 g)
      = V3.dot (V3.cross b1 g) (V3.cross b1 g) / V3.dot g g := by
    have h0 := zproj_dot_ey hg b1
    rw [key (Spec.zproj b1 g), dot_comm (Spec.zproj b1 g) (Spec.ey g), h0, dot_comm (Spec.zproj b1 g) b1, key b1,
      ← lagrange, hey_b1, ← norm_mul_self g]
    have hn := norm_ne_zero hg
    field_simp
    ring
  rw [← dot_self_eq_zero, ← dot_self_eq_zero (a := V3.cross b1 g), hzz, div_eq_zero_iff]
  constructor
  · rintro (h | h)
    · exact h
    · exact absurd h hgg.ne'
  · exact Or.inl

/-! ## The drop -/

/-- `_drop_due_to_gravity` is `δ = |g|·c·λ²·L2²` (λ already multiplied by the unit factor) -/
theorem drop_def (c s L2 lam : ℝ) (g : V3 ℝ) :
    dropDueToGravity (Conv.id ℝ) c s L2 lam g = Spec.delta c g (lam * s) L2 := by
  simp only [dropDueToGravity, Conv.id, Spec.delta]; ring

/-- all unit scales: with the distance in a unit of `ud` metres, the wavelength in a unit of `ul`
metres, gravity in a unit of `ug` m/s², `c` in a unit of `uc` s²/m⁴, and the wavelength converted
as the code does to the unit `√(1/(unit(distance)·unit(const)))`, the returned number times `ud`
is the physical drop `|g|·m_n²/(2h²)·λ²·L2²` in metres -/
theorem drop_def_units (c L2 lam : ℝ) (g : V3 ℝ) (ud ul ug uc : ℝ)
    (hd : 0 < ud) (hg : 0 < ug) (hc : 0 < uc) :
    dropDueToGravity (Conv.id ℝ) c (ul / √(1 / (ud * (ug * uc)))) L2 lam g * ud
      = (V3.norm g * ug) * (c * uc) * (lam * ul) ^ 2 * (L2 * ud) ^ 2 := by
  have hk : 0 < ud * (ug * uc) := by positivity
  have hs : √(1 / (ud * (ug * uc))) ^ 2 = 1 / (ud * (ug * uc)) := Real.sq_sqrt (by positivity)
  have hs0 : √(1 / (ud * (ug * uc))) ≠ 0 := (Real.sqrt_pos.mpr (by positivity)).ne'
  have e : (ul / √(1 / (ud * (ug * uc)))) ^ 2 = ul ^ 2 * (ud * (ug * uc)) := by
    rw [div_pow, hs]; field_simp
  rw [drop_def, Spec.delta, mul_pow, e]; ring

/-! ## Both implementations equal the documented construction -/

theorem add_comm_v3 (a b : V3 ℝ) : V3.add a b = V3.add b a := by
  simp only [V3.add]; apply V3R.ext <;> ring

theorem raised_dot_ey {g : V3 ℝ} (hg : g ≠ zero) (b2 : V3 ℝ) (δ : ℝ) :
    V3.dot (Spec.raised g b2 δ) (Spec.ey g) = V3.dot b2 (Spec.ey g) + δ := by
  simp only [Spec.raised, dot_add_left, dot_smul_left, ey_unit hg, mul_one]

/-- general implementation = specification, for every incident beam not parallel to gravity -/
theorem generic_eq_spec (c s lam : ℝ) (b1 b2 g : V3 ℝ) (hg : g ≠ zero) (h1 : b1 ≠ zero)
    (h2 : Spec.raised g b2 (Spec.delta c g (lam * s) (V3.norm b2)) ≠ zero) :
    anglesGeneric (Conv.id ℝ) c s (frame b1 g) b1 b2 lam g
      = ⟨Spec.twoTheta b1 g b2 (Spec.delta c g (lam * s) (V3.norm b2)),
         Spec.phi b1 g b2 (Spec.delta c g (lam * s) (V3.norm b2))⟩ := by
  simp only [anglesGeneric, frame_eq_spec, drop_def]
  simp only [Conv.id, trans_atan2_real, Spec.twoTheta, Spec.phi]
  rw [add_comm_v3 _ b2, show V3.add b2 (V3.smul _ (Spec.ey g)) = Spec.raised g b2 _ from rfl,
    C03.two_theta_eq_angle _ _ h1 h2, raised_dot_ey hg, add_comm]

/-! ### the optimised path -/

theorem b1_dot_ey_of_perp {b1 g : V3 ℝ} (hperp : V3.dot g b1 = 0) : V3.dot b1 (Spec.ey g) = 0 := by
  rw [Spec.ey, dot_smul_right, dot_comm, hperp, mul_zero]

theorem zproj_of_perp {b1 g : V3 ℝ} (hperp : V3.dot g b1 = 0) : Spec.zproj b1 g = b1 := by
  rw [Spec.zproj, b1_dot_ey_of_perp hperp]
  simp only [V3.sub, V3.smul]; apply V3R.ext <;> ring

/-- the value `atan2(√(x²+y'²), z)` computed by the optimised path is the angle between the raised
beam and ê_z (always), which is the incident-beam direction when `g·b1 = 0` -/
theorem orth_two_theta_eq_angle_ez (b1 g b2 : V3 ℝ) (δ : ℝ) (hg : g ≠ zero)
    (hz : Spec.zproj b1 g ≠ zero) (h2 : Spec.raised g b2 δ ≠ zero) :
    Complex.arg ⟨V3.dot b2 (Spec.ez b1 g),
        √((δ + V3.dot b2 (Spec.ey g)) * (δ + V3.dot b2 (Spec.ey g))
          + V3.dot b2 (Spec.ex b1 g) * V3.dot b2 (Spec.ex b1 g))⟩
      = angle (Spec.ez b1 g) (Spec.raised g b2 δ) := by
  have hy := ey_unit hg
  have hzz := ez_unit hz
  have hyz := ey_dot_ez (b1 := b1) hg
  have hon := orthonormal_of_pair hy hzz hyz
  set ex := Spec.ex b1 g with hex
  set ey := Spec.ey g with hey
  set ez := Spec.ez b1 g with hez
  set r := Spec.raised g b2 δ with hr
  have rx : V3.dot r ex = V3.dot b2 ex := by
    have hxy : V3.dot ey ex = 0 := by rw [dot_comm]; exact hon.xy
    simp only [hr, Spec.raised, dot_add_left, dot_smul_left]
    rw [hxy]; ring
  have ry : V3.dot r ey = δ + V3.dot b2 ey := by rw [hr, raised_dot_ey hg, add_comm]
  have rz : V3.dot r ez = V3.dot b2 ez := by
    simp only [hr, Spec.raised, dot_add_left, dot_smul_left]
    rw [hyz]; ring
  have pars := parseval hy hzz hyz r
  rw [show V3.cross ey ez = ex from rfl, rx, ry, rz] at pars
  have hrr := dot_self_pos h2
  have hsum : 0 ≤ (δ + V3.dot b2 ey) * (δ + V3.dot b2 ey) + V3.dot b2 ex * V3.dot b2 ex :=
    add_nonneg (mul_self_nonneg _) (mul_self_nonneg _)
  have hne : V3.dot b2 ez ≠ 0 ∨
      √((δ + V3.dot b2 ey) * (δ + V3.dot b2 ey) + V3.dot b2 ex * V3.dot b2 ex) ≠ 0 := by
    by_contra hcon
    obtain ⟨hz0, hr0⟩ := not_or.mp hcon
    have hz0 := not_not.mp hz0
    have hr0 := not_not.mp hr0
    have := Real.sqrt_eq_zero'.mp hr0
    have h0 : (δ + V3.dot b2 ey) * (δ + V3.dot b2 ey) + V3.dot b2 ex * V3.dot b2 ex = 0 := le_antisymm this hsum
    rw [hz0] at pars
    nlinarith
  rw [arg_eq_arccos (Real.sqrt_nonneg _) hne, Real.sq_sqrt hsum, angle, cosAngle]
  congr 1
  have hez1 : V3.norm ez = 1 := by rw [norm_def, hzz, Real.sqrt_one]
  rw [hez1, one_mul, dot_comm ez r, rz, norm_def r, ← pars]
  congr 2
  ring

/-- optimised implementation = specification when the incident beam is perpendicular to gravity -/
theorem orthogonal_eq_spec (c s lam : ℝ) (b1 b2 g : V3 ℝ) (hg : g ≠ zero) (h1 : b1 ≠ zero)
    (hperp : V3.dot g b1 = 0)
    (h2 : Spec.raised g b2 (Spec.delta c g (lam * s) (V3.norm b2)) ≠ zero) :
    anglesOrthogonal (Conv.id ℝ) c s (frame b1 g) b2 lam g
      = ⟨Spec.twoTheta b1 g b2 (Spec.delta c g (lam * s) (V3.norm b2)),
         Spec.phi b1 g b2 (Spec.delta c g (lam * s) (V3.norm b2))⟩ := by
  have hz : Spec.zproj b1 g ≠ zero := by rw [zproj_of_perp hperp]; exact h1
  simp only [anglesOrthogonal, frame_eq_spec, drop_def]
  simp only [Conv.id, trans_atan2_real, trans_sqrt_real, Spec.twoTheta, Spec.phi]
  rw [orth_two_theta_eq_angle_ez b1 g b2 _ hg hz h2, raised_dot_ey hg, add_comm (V3.dot b2 (Spec.ey g))]
  congr 1
  -- ∠(ê_z, b2') = ∠(b1, b2') because ê_z = b1/|b1|
  have hn := norm_pos h1
  have : Spec.ez b1 g = V3.smul (1 / V3.norm b1) b1 := by rw [Spec.ez, zproj_of_perp hperp]
  rw [this, angle, angle, cosAngle_smul_left (by positivity) _ _ h1 h2]

/-- hence the two implementations agree wherever both are defined without approximation -/
theorem paths_agree_on_overlap (c s lam : ℝ) (b1 b2 g : V3 ℝ) (hg : g ≠ zero) (h1 : b1 ≠ zero)
    (hperp : V3.dot g b1 = 0)
    (h2 : Spec.raised g b2 (Spec.delta c g (lam * s) (V3.norm b2)) ≠ zero) :
    anglesGeneric (Conv.id ℝ) c s (frame b1 g) b1 b2 lam g
      = anglesOrthogonal (Conv.id ℝ) c s (frame b1 g) b2 lam g := by
  rw [generic_eq_spec c s lam b1 b2 g hg h1 h2, orthogonal_eq_spec c s lam b1 b2 g hg h1 hperp h2]

/-! ## Limits -/

/-- no drop (λ = 0, or any δ = 0): the general implementation returns the gravity-free kernel
`two_theta(b1, b2)` and `φ = atan2(b2·ê_y, b2·ê_x)` — for every input -/
theorem lambda_zero_gives_gravity_free (c s : ℝ) (b1 b2 g : V3 ℝ) :
    anglesGeneric (Conv.id ℝ) c s (frame b1 g) b1 b2 0 g
      = ⟨twoTheta b1 b2, Complex.arg ⟨V3.dot b2 (Spec.ex b1 g), V3.dot b2 (Spec.ey g)⟩⟩ := by
  have h0 : dropDueToGravity (Conv.id ℝ) c s (V3.norm b2) 0 g = 0 := by
    simp only [dropDueToGravity, Conv.id]; ring
  have hb : V3.add (V3.smul 0 (Spec.ey g)) b2 = b2 := by
    simp only [V3.add, V3.smul]; apply V3R.ext <;> ring
  simp only [anglesGeneric, frame_eq_spec, h0]
  simp only [Conv.id, trans_atan2_real, hb, zero_add]

theorem orth_lambda_zero (c s : ℝ) (b1 b2 g : V3 ℝ) :
    (anglesOrthogonal (Conv.id ℝ) c s (frame b1 g) b2 0 g).phi
      = Complex.arg ⟨V3.dot b2 (Spec.ex b1 g), V3.dot b2 (Spec.ey g)⟩ := by
  have h0 : dropDueToGravity (Conv.id ℝ) c s (V3.norm b2) 0 g = 0 := by
    simp only [dropDueToGravity, Conv.id]; ring
  simp only [anglesOrthogonal, frame_eq_spec, h0]
  simp only [Conv.id, trans_atan2_real, zero_add]

/-- δ is proportional to |g| and to λ²: it vanishes with either -/
theorem delta_scaling (c lam L2 t : ℝ) (g : V3 ℝ) (ht : 0 ≤ t) :
    Spec.delta c (V3.smul t g) lam L2 = t * Spec.delta c g lam L2 ∧
    Spec.delta c g (t * lam) L2 = t ^ 2 * Spec.delta c g lam L2 := by
  simp only [Spec.delta, norm_smul ht]; constructor <;> ring

/-- the direction ê_y does not depend on the magnitude of gravity -/
theorem ey_smul (t : ℝ) (ht : 0 < t) (g : V3 ℝ) (hg : g ≠ zero) : Spec.ey (V3.smul t g) = Spec.ey g := by
  have hn := norm_ne_zero hg
  rw [Spec.ey, norm_smul ht.le, Spec.ey]
  simp only [V3.smul]
  apply V3R.ext <;> field_simp


theorem raised_zero (g b2 : V3 ℝ) : Spec.raised g b2 0 = b2 := by
  simp only [Spec.raised, V3.add, V3.smul]; apply V3R.ext <;> ring

/-- the construction is continuous in the drop at δ = 0 -/
theorem spec_two_theta_continuousAt (b1 g b2 : V3 ℝ) (h1 : b1 ≠ zero) (h2 : b2 ≠ zero) :
    ContinuousAt (fun δ => Spec.twoTheta b1 g b2 δ) 0 := by
  have hden : V3.norm b1 * V3.norm (Spec.raised g b2 0) ≠ 0 := by
    rw [raised_zero]; exact mul_ne_zero (norm_ne_zero h1) (norm_ne_zero h2)
  unfold Spec.twoTheta angle cosAngle
  apply Real.continuous_arccos.continuousAt.comp
  refine ContinuousAt.div (f := fun δ => V3.dot b1 (Spec.raised g b2 δ))
    (g := fun δ => V3.norm b1 * V3.norm (Spec.raised g b2 δ)) ?_ ?_ hden
  · simp only [Spec.raised, V3.dot, V3.add, V3.smul]; fun_prop
  · simp only [Spec.raised, V3.norm, V3.dot, V3.add, V3.smul, trans_sqrt_real]; fun_prop

/-- hence 2θ tends to the gravity-free angle as the drop tends to zero … -/
theorem two_theta_tendsto_gravity_free (b1 g b2 : V3 ℝ) (h1 : b1 ≠ zero) (h2 : b2 ≠ zero) :
    Tendsto (fun δ => Spec.twoTheta b1 g b2 δ) (𝓝 0) (𝓝 (twoTheta b1 b2)) := by
  have := (spec_two_theta_continuousAt b1 g b2 h1 h2).tendsto
  rwa [Spec.twoTheta, raised_zero, ← C03.two_theta_eq_angle b1 b2 h1 h2] at this

/-- … in particular as λ → 0 (the drop is `|g|·c·(λ s)²·L2²`) -/
theorem limit_lambda_zero (c s L2 : ℝ) (b1 g b2 : V3 ℝ) (h1 : b1 ≠ zero) (h2 : b2 ≠ zero) :
    Tendsto (fun lam => Spec.twoTheta b1 g b2 (Spec.delta c g (lam * s) L2)) (𝓝 0) (𝓝 (twoTheta b1 b2)) := by
  have hδ : Tendsto (fun lam : ℝ => Spec.delta c g (lam * s) L2) (𝓝 0) (𝓝 0) := by
    have : Continuous (fun lam : ℝ => Spec.delta c g (lam * s) L2) := by
      unfold Spec.delta; fun_prop
    have h := this.tendsto 0
    simpa [Spec.delta] using h
  exact (two_theta_tendsto_gravity_free b1 g b2 h1 h2).comp hδ

/-- … and as |g| → 0 along any fixed direction -/
theorem limit_g_zero (c lam L2 : ℝ) (b1 g b2 : V3 ℝ) (hg : g ≠ zero) (h1 : b1 ≠ zero) (h2 : b2 ≠ zero) :
    Tendsto (fun t => Spec.twoTheta b1 (V3.smul t g) b2 (Spec.delta c (V3.smul t g) lam L2))
      (𝓝[>] 0) (𝓝 (twoTheta b1 b2)) := by
  have hδ : Tendsto (fun t : ℝ => t * Spec.delta c g lam L2) (𝓝[>] 0) (𝓝 0) := by
    have : Continuous (fun t : ℝ => t * Spec.delta c g lam L2) := by fun_prop
    have h := (this.tendsto 0).mono_left (nhdsWithin_le_nhds (s := Set.Ioi 0))
    simpa using h
  have key := (two_theta_tendsto_gravity_free b1 g b2 h1 h2).comp hδ
  refine key.congr' ?_
  filter_upwards [self_mem_nhdsWithin] with t ht
  have ht' : 0 < t := ht
  simp only [Function.comp, Spec.twoTheta, Spec.raised, ey_smul t ht' g hg, (delta_scaling c lam L2 t g ht'.le).1]


/-- cosine of the angle between ê_z and the raised beam, in beam-aligned coordinates -/
theorem cosAngle_ez_raised (b1 g b2 : V3 ℝ) (δ : ℝ) (hg : g ≠ zero) (hz : Spec.zproj b1 g ≠ zero) :
    cosAngle (Spec.ez b1 g) (Spec.raised g b2 δ)
      = V3.dot b2 (Spec.ez b1 g) /
        √(V3.dot b2 (Spec.ex b1 g) ^ 2 + (V3.dot b2 (Spec.ey g) + δ) ^ 2 + V3.dot b2 (Spec.ez b1 g) ^ 2) := by
  have hy := ey_unit hg
  have hzz := ez_unit hz
  have hyz := ey_dot_ez (b1 := b1) hg
  have hon := orthonormal_of_pair hy hzz hyz
  have hxy : V3.dot (Spec.ey g) (Spec.ex b1 g) = 0 := by rw [dot_comm]; exact hon.xy
  have rx : V3.dot (Spec.raised g b2 δ) (Spec.ex b1 g) = V3.dot b2 (Spec.ex b1 g) := by
    simp only [Spec.raised, dot_add_left, dot_smul_left, hxy]; ring
  have rz : V3.dot (Spec.raised g b2 δ) (Spec.ez b1 g) = V3.dot b2 (Spec.ez b1 g) := by
    simp only [Spec.raised, dot_add_left, dot_smul_left, hyz]; ring
  have pars := parseval hy hzz hyz (Spec.raised g b2 δ)
  rw [show V3.cross (Spec.ey g) (Spec.ez b1 g) = Spec.ex b1 g from rfl, rx, raised_dot_ey hg, rz] at pars
  have hez1 : V3.norm (Spec.ez b1 g) = 1 := by rw [norm_def, hzz, Real.sqrt_one]
  rw [cosAngle, hez1, one_mul, dot_comm, rz, norm_def, ← pars]

/-- **partial** (forward detectors only): incident beam horizontal (`g·b1 = 0`), detector above the
beam (`y_d ≥ 0`) in the forward hemisphere (`z_d > 0`), positive drop ⇒ the gravity-corrected 2θ of
the construction is strictly larger than the gravity-free one. -/
theorem raises_angle_above_horizontal_partial (b1 g b2 : V3 ℝ) (δ : ℝ) (hg : g ≠ zero) (h1 : b1 ≠ zero)
    (hperp : V3.dot g b1 = 0) (hy : 0 ≤ V3.dot b2 (Spec.ey g)) (hzd : 0 < V3.dot b2 (Spec.ez b1 g))
    (hδ : 0 < δ) :
    Spec.twoTheta b1 g b2 0 < Spec.twoTheta b1 g b2 δ := by
  have hz : Spec.zproj b1 g ≠ zero := by rw [zproj_of_perp hperp]; exact h1
  have hn := norm_pos h1
  have hez : Spec.ez b1 g = V3.smul (1 / V3.norm b1) b1 := by rw [Spec.ez, zproj_of_perp hperp]
  -- both raised beams are non-zero because their z-component is positive
  have nz : ∀ d : ℝ, Spec.raised g b2 d ≠ zero := by
    intro d h
    have hyz := ey_dot_ez (b1 := b1) hg
    have : V3.dot (Spec.raised g b2 d) (Spec.ez b1 g) = V3.dot b2 (Spec.ez b1 g) := by
      simp only [Spec.raised, dot_add_left, dot_smul_left, hyz]; ring
    rw [h] at this
    have h0 : V3.dot zero (Spec.ez b1 g) = 0 := by simp [V3.dot, zero]
    rw [h0] at this
    linarith
  have e : ∀ d : ℝ, Spec.twoTheta b1 g b2 d = arccos (cosAngle (Spec.ez b1 g) (Spec.raised g b2 d)) := by
    intro d
    rw [Spec.twoTheta, angle, hez, cosAngle_smul_left (by positivity) _ _ h1 (nz d)]
  rw [e 0, e δ, cosAngle_ez_raised b1 g b2 0 hg hz, cosAngle_ez_raised b1 g b2 δ hg hz]
  set x := V3.dot b2 (Spec.ex b1 g)
  set y := V3.dot b2 (Spec.ey g)
  set z := V3.dot b2 (Spec.ez b1 g)
  have hS0 : 0 < x ^ 2 + (y + 0) ^ 2 + z ^ 2 := by positivity
  have hlt : x ^ 2 + (y + 0) ^ 2 + z ^ 2 < x ^ 2 + (y + δ) ^ 2 + z ^ 2 := by nlinarith
  have hs0 : 0 < √(x ^ 2 + (y + 0) ^ 2 + z ^ 2) := Real.sqrt_pos.mpr hS0
  have hslt : √(x ^ 2 + (y + 0) ^ 2 + z ^ 2) < √(x ^ 2 + (y + δ) ^ 2 + z ^ 2) :=
    Real.sqrt_lt_sqrt hS0.le hlt
  apply Real.arccos_lt_arccos
  · have : 0 ≤ z / √(x ^ 2 + (y + δ) ^ 2 + z ^ 2) := by positivity
    linarith
  · exact div_lt_div_of_pos_left hzd hs0 hslt
  · rw [div_le_one hs0]
    apply Real.le_sqrt_of_sq_le
    nlinarith [sq_nonneg x, sq_nonneg (y + 0)]


/-- the unrestricted statement "a detector above a horizontal beam sees a larger angle" -/
def RaisesAngleFull : Prop :=
  ∀ (b1 g b2 : V3 ℝ) (δ : ℝ), g ≠ zero → b1 ≠ zero → V3.dot g b1 = 0 → 0 ≤ V3.dot b2 (Spec.ey g) →
    b2 ≠ zero → 0 < δ → Spec.twoTheta b1 g b2 0 < Spec.twoTheta b1 g b2 δ

/-- … is false of the documented construction itself: for a back-scattering detector
(`b1 = ẑ`, `b2 = −ẑ`) raising the beam *decreases* the angle from π.  Not a defect of the code. -/
theorem raises_angle_full_false : ¬ RaisesAngleFull := by
  intro h
  have hg : (⟨0, -1, 0⟩ : V3 ℝ) ≠ zero := by
    intro e; have := congrArg V3.y e; simp [zero] at this
  have hb1 : (⟨0, 0, 1⟩ : V3 ℝ) ≠ zero := by
    intro e; have := congrArg V3.z e; simp [zero] at this
  have hb2 : (⟨0, 0, -1⟩ : V3 ℝ) ≠ zero := by
    intro e; have := congrArg V3.z e; simp [zero] at this
  have := h ⟨0, 0, 1⟩ ⟨0, -1, 0⟩ ⟨0, 0, -1⟩ 1 hg hb1 (by simp [V3.dot])
    (by simp [V3.dot, Spec.ey, V3.smul]) hb2 one_pos
  have hpi : Spec.twoTheta ⟨0, 0, 1⟩ ⟨0, -1, 0⟩ ⟨0, 0, -1⟩ 0 = π := by
    rw [Spec.twoTheta, raised_zero, angle, cosAngle]
    have : V3.dot (⟨0, 0, 1⟩ : V3 ℝ) ⟨0, 0, -1⟩ / (V3.norm (⟨0, 0, 1⟩ : V3 ℝ) * V3.norm (⟨0, 0, -1⟩ : V3 ℝ)) = -1 := by
      simp [V3.dot, V3.norm]
    rw [this, arccos_neg_one]
  rw [hpi] at this
  have hle : Spec.twoTheta ⟨0, 0, 1⟩ ⟨0, -1, 0⟩ ⟨0, 0, -1⟩ 1 ≤ π := arccos_le_pi _
  linarith

/-! ## The reflectometry variant -/

/-- `scattering_angle_in_yz_plane` (after its checks) is `atan2(|y_d + δ|, z_d)` -/
theorem yz_def (c s lam : ℝ) (b1 b2 g : V3 ℝ) :
    angleYZ (Conv.id ℝ) c s (frame b1 g) b2 lam g
      = Complex.arg ⟨V3.dot b2 (Spec.ez b1 g),
          |V3.dot b2 (Spec.ey g) + Spec.delta c g (lam * s) (V3.norm b2)|⟩ := by
  simp only [angleYZ, frame_eq_spec, drop_def]
  simp only [Conv.id, trans_atan2_real, hasAbs_real, add_comm]

/-- it lies in `[0, π]` -/
theorem yz_mem_Icc (c s lam : ℝ) (b1 b2 g : V3 ℝ) :
    0 ≤ angleYZ (Conv.id ℝ) c s (frame b1 g) b2 lam g ∧ angleYZ (Conv.id ℝ) c s (frame b1 g) b2 lam g ≤ π := by
  rw [yz_def]
  exact ⟨Complex.arg_nonneg_iff.mpr (abs_nonneg _), Complex.arg_le_pi _⟩

/-- decision logic of the two `ValueError`s: the reflectometry variant answers iff every incident beam
is perpendicular to gravity up to `|g·b1| ≤ 1e-10·|g|` and none is parallel to it (`|z_proj| ≥ 1e-10`),
and then it answers `atan2(|y_d+δ|, z_d)` for every element -/
theorem yz_refuses_iff (c s : ℝ) (g : V3 ℝ) (pixels : List (Pixel ℝ ℝ)) :
    (scatteringAngleInYZPlane (Conv.id ℝ) c s g pixels
        = .ok (pixels.map (fun p => p.wavelengths.map (fun w => angleYZ (Conv.id ℝ) c s (frame p.b1 g) p.b2 w g)))
      ↔ (∀ p ∈ pixels, |V3.dot g p.b1| ≤ 1e-10 * V3.norm g) ∧
        (∀ p ∈ pixels, 1e-10 ≤ V3.norm (zProj p.b1 (unitY g)))) ∧
    (scatteringAngleInYZPlane (Conv.id ℝ) c s g pixels = .error .value
      ↔ (∃ p ∈ pixels, 1e-10 * V3.norm g < |V3.dot g p.b1|) ∨
        (∃ p ∈ pixels, V3.norm (zProj p.b1 (unitY g)) < 1e-10)) := by
  unfold scatteringAngleInYZPlane
  by_cases h1 : (pixels.any (fun p => needsGeneric g p.b1)) = true
  · have e1 : ∃ p ∈ pixels, 1e-10 * V3.norm g < |V3.dot g p.b1| := by
      obtain ⟨p, hp, hd⟩ := List.any_eq_true.mp h1
      exact ⟨p, hp, by simpa [needsGeneric] using hd⟩
    simp only [h1, if_true]
    refine ⟨⟨(fun h => by simp at h), fun h => ?_⟩, ⟨fun _ => Or.inl e1, fun _ => by simp⟩⟩
    obtain ⟨p, hp, hd⟩ := e1
    exact absurd (h.1 p hp) (not_le.mpr hd)
  · have n1 : ∀ p ∈ pixels, |V3.dot g p.b1| ≤ 1e-10 * V3.norm g := by
      intro p hp
      by_contra hc
      exact h1 (List.any_eq_true.mpr ⟨p, hp, by simpa [needsGeneric] using not_le.mp hc⟩)
    simp only [h1]
    by_cases h2 : (pixels.any (fun p => zNormTooSmall p.b1 g)) = true
    · have e2 : ∃ p ∈ pixels, V3.norm (zProj p.b1 (unitY g)) < 1e-10 := by
        obtain ⟨p, hp, hd⟩ := List.any_eq_true.mp h2
        exact ⟨p, hp, by simpa [zNormTooSmall] using hd⟩
      simp only [h2, if_true]
      refine ⟨⟨(fun h => by simp at h), fun h => ?_⟩, ⟨fun _ => Or.inr e2, fun _ => by simp⟩⟩
      obtain ⟨p, hp, hd⟩ := e2
      exact absurd (h.2 p hp) (not_le.mpr hd)
    · have n2 : ∀ p ∈ pixels, 1e-10 ≤ V3.norm (zProj p.b1 (unitY g)) := by
        intro p hp
        by_contra hc
        exact h2 (List.any_eq_true.mpr ⟨p, hp, by simpa [zNormTooSmall] using not_le.mp hc⟩)
      simp only [h2]
      refine ⟨⟨fun _ => ⟨n1, n2⟩, fun _ => by simp⟩, ⟨fun h => by simp at h, fun h => ?_⟩⟩
      rcases h with ⟨p, hp, hd⟩ | ⟨p, hp, hd⟩
      · exact absurd (n1 p hp) (not_le.mpr hd)
      · exact absurd (n2 p hp) (not_le.mpr hd)

/-! ## Arrays: dispatch (`sc.any`) and the public function -/

/-- the general implementation is chosen iff some incident beam has `|g·b1| > 1e-10·|g|` -/
theorem dispatch_generic_iff (g : V3 ℝ) (pixels : List (Pixel ℝ ℝ)) :
    dispatch g pixels = .generic ↔ ∃ p ∈ pixels, 1e-10 * V3.norm g < |V3.dot g p.b1| := by
  unfold dispatch
  by_cases h : (pixels.any (fun p => needsGeneric g p.b1)) = true
  · simp only [h, if_true, true_iff]
    obtain ⟨p, hp, hd⟩ := List.any_eq_true.mp h
    exact ⟨p, hp, by simpa [needsGeneric] using hd⟩
  · simp only [h]
    refine ⟨fun e => by simp at e, fun ⟨p, hp, hd⟩ => ?_⟩
    exact absurd (List.any_eq_true.mpr ⟨p, hp, by simpa [needsGeneric] using hd⟩) h

/-- the public function refuses iff some incident beam is parallel to gravity (`|z_proj| < 1e-10`) -/
theorem angles_refuses_iff (c s : ℝ) (g : V3 ℝ) (pixels : List (Pixel ℝ ℝ)) :
    scatteringAnglesWithGravity (Conv.id ℝ) c s g pixels = .error .value
      ↔ ∃ p ∈ pixels, V3.norm (zProj p.b1 (unitY g)) < 1e-10 := by
  unfold scatteringAnglesWithGravity
  by_cases h : (pixels.any (fun p => zNormTooSmall p.b1 g)) = true
  · simp only [h, if_true, true_iff]
    obtain ⟨p, hp, hd⟩ := List.any_eq_true.mp h
    exact ⟨p, hp, by simpa [zNormTooSmall] using hd⟩
  · simp only [h]
    refine ⟨fun e => by simp at e, fun ⟨p, hp, hd⟩ => ?_⟩
    exact absurd (List.any_eq_true.mpr ⟨p, hp, by simpa [zNormTooSmall] using hd⟩) h

/-- the documented construction, one element -/
noncomputable def Spec.angles (c s : ℝ) (g : V3 ℝ) (p : Pixel ℝ ℝ) (w : ℝ) : Angles ℝ :=
  ⟨Spec.twoTheta p.b1 g p.b2 (Spec.delta c g (w * s) (V3.norm p.b2)),
   Spec.phi p.b1 g p.b2 (Spec.delta c g (w * s) (V3.norm p.b2))⟩

/-- **every code path of the public function**: whenever it answers, and whichever implementation
the dispatch chose, every element (pixel, wavelength / event) is the documented construction —
provided that on the optimised path the incident beams are exactly perpendicular to gravity
(`g·b1 = 0`; for `0 < |g·b1| ≤ 1e-10|g|` see `orth_two_theta_eq_angle_ez`) -/
theorem public_eq_spec (c s : ℝ) (g : V3 ℝ) (pixels : List (Pixel ℝ ℝ)) (hg : g ≠ zero)
    (hb1 : ∀ p ∈ pixels, p.b1 ≠ zero)
    (hr : ∀ p ∈ pixels, ∀ w ∈ p.wavelengths,
      Spec.raised g p.b2 (Spec.delta c g (w * s) (V3.norm p.b2)) ≠ zero)
    (horth : dispatch g pixels = .orthogonal → ∀ p ∈ pixels, V3.dot g p.b1 = 0)
    (path : Path) (rows : List (List (Angles ℝ)))
    (h : scatteringAnglesWithGravity (Conv.id ℝ) c s g pixels = .ok (path, rows)) :
    path = dispatch g pixels ∧
    rows = pixels.map (fun p => p.wavelengths.map (fun w => Spec.angles c s g p w)) := by
  unfold scatteringAnglesWithGravity at h
  by_cases hz : (pixels.any (fun p => zNormTooSmall p.b1 g)) = true
  · simp [hz] at h
  · simp only [hz] at h
    injection h with h
    injection h with hp hrows
    refine ⟨hp.symm, ?_⟩
    rw [← hrows]
    apply List.map_congr_left
    intro p hpm
    apply List.map_congr_left
    intro w hw
    cases hd : dispatch g pixels with
    | generic =>
      simp only []
      exact generic_eq_spec c s w p.b1 p.b2 g hg (hb1 p hpm) (hr p hpm w hw)
    | orthogonal =>
      simp only []
      exact orthogonal_eq_spec c s w p.b1 p.b2 g hg (hb1 p hpm) (horth hd p hpm) (hr p hpm w hw)

/-! ## The optimised path off the exact overlap: continuity across the dispatch threshold -/

/-- the tilt of the incident beam out of the horizontal plane, `τ = ∠(b1, ê_z)`, has
`sin τ = |b1·ê_y|/|b1| = |g·b1|/(|g||b1|)` and `0 ≤ τ ≤ π/2` -/
theorem tilt_sin (b1 g : V3 ℝ) (hg : g ≠ zero) (h1 : b1 ≠ zero) (hz : Spec.zproj b1 g ≠ zero) :
    sin (angle b1 (Spec.ez b1 g)) = |V3.dot g b1| / (V3.norm g * V3.norm b1) ∧
    0 ≤ angle b1 (Spec.ez b1 g) ∧ angle b1 (Spec.ez b1 g) ≤ π / 2 := by
  have hn1 := norm_pos h1
  have hng := norm_pos hg
  have hnz := norm_pos hz
  have hez1 : V3.norm (Spec.ez b1 g) = 1 := by rw [norm_def, ez_unit hz, Real.sqrt_one]
  have hey := ey_unit hg
  -- b1·ê_z = |z_proj|
  have key : ∀ z : V3 ℝ, V3.dot z (Spec.zproj b1 g)
      = V3.dot z b1 - V3.dot b1 (Spec.ey g) * V3.dot z (Spec.ey g) := by
    intro z; simp only [Spec.zproj, V3.dot, V3.sub, V3.smul]; ring
  have hzz : V3.dot (Spec.zproj b1 g) (Spec.zproj b1 g) = V3.dot b1 b1 - V3.dot b1 (Spec.ey g) ^ 2 := by
    have h0 := zproj_dot_ey hg b1
    rw [key (Spec.zproj b1 g), dot_comm (Spec.zproj b1 g) (Spec.ey g), h0, dot_comm (Spec.zproj b1 g) b1, key b1]
    ring
  have hb1ez : V3.dot b1 (Spec.ez b1 g) = V3.norm (Spec.zproj b1 g) := by
    have h0 := zproj_dot_ey hg b1
    have hzz' : V3.dot (Spec.zproj b1 g) (Spec.zproj b1 g)
        = V3.dot b1 b1 - V3.dot b1 (Spec.ey g) * V3.dot b1 (Spec.ey g) := by rw [hzz]; ring
    rw [Spec.ez, dot_smul_right, key b1, ← hzz', ← norm_mul_self]
    field_simp
  have hcos : cosAngle b1 (Spec.ez b1 g) = V3.norm (Spec.zproj b1 g) / V3.norm b1 := by
    rw [cosAngle, hb1ez, hez1, mul_one]
  have hc0 : 0 ≤ cosAngle b1 (Spec.ez b1 g) := by rw [hcos]; positivity
  have hey_b1 : V3.dot b1 (Spec.ey g) = - V3.dot g b1 / V3.norm g := by
    rw [Spec.ey, dot_smul_right, dot_comm b1 g]; ring
  refine ⟨?_, arccos_nonneg _, ?_⟩
  · rw [angle, Real.sin_arccos, hcos]
    have h1sq : V3.norm b1 ^ 2 = V3.dot b1 b1 := norm_sq b1
    have hzsq : V3.norm (Spec.zproj b1 g) ^ 2 = V3.dot (Spec.zproj b1 g) (Spec.zproj b1 g) := norm_sq _
    have : 1 - (V3.norm (Spec.zproj b1 g) / V3.norm b1) ^ 2
        = (|V3.dot g b1| / (V3.norm g * V3.norm b1)) ^ 2 := by
      have hbb : V3.dot b1 b1 ≠ 0 := (dot_self_pos h1).ne'
      have hgn : V3.norm g ≠ 0 := hng.ne'
      rw [div_pow, div_pow, hzsq, hzz, hey_b1, sq_abs, mul_pow, h1sq]
      field_simp
      ring
    rw [this, Real.sqrt_sq (by positivity)]
  · rw [angle]; exact Real.arccos_le_pi_div_two.mpr hc0

/-- **the optimised path off the exact overlap**: for *any* tilt the value it returns differs from the
documented construction by at most the tilt `τ = ∠(b1, ê_z)`; when the dispatch selects it
(`|g·b1| ≤ 1e-10·|g|`), `sin τ ≤ 1e-10/|b1|`.  So the result jumps by at most `arcsin(1e-10/|b1|)` when
the incident beam is tilted across the dispatch threshold. -/
theorem orthogonal_path_error_le_tilt (c s lam : ℝ) (b1 b2 g : V3 ℝ) (hg : g ≠ zero) (h1 : b1 ≠ zero)
    (hz : Spec.zproj b1 g ≠ zero)
    (h2 : Spec.raised g b2 (Spec.delta c g (lam * s) (V3.norm b2)) ≠ zero)
    (hdisp : |V3.dot g b1| ≤ 1e-10 * V3.norm g) :
    |(anglesOrthogonal (Conv.id ℝ) c s (frame b1 g) b2 lam g).twoTheta
        - Spec.twoTheta b1 g b2 (Spec.delta c g (lam * s) (V3.norm b2))| ≤ angle b1 (Spec.ez b1 g) ∧
    sin (angle b1 (Spec.ez b1 g)) ≤ 1e-10 / V3.norm b1 ∧
    (anglesOrthogonal (Conv.id ℝ) c s (frame b1 g) b2 lam g).phi
      = Spec.phi b1 g b2 (Spec.delta c g (lam * s) (V3.norm b2)) := by
  have hn1 := norm_pos h1
  have hng := norm_pos hg
  have e : (anglesOrthogonal (Conv.id ℝ) c s (frame b1 g) b2 lam g)
      = ⟨angle (Spec.ez b1 g) (Spec.raised g b2 (Spec.delta c g (lam * s) (V3.norm b2))),
         Spec.phi b1 g b2 (Spec.delta c g (lam * s) (V3.norm b2))⟩ := by
    simp only [anglesOrthogonal, frame_eq_spec, drop_def]
    simp only [Conv.id, trans_atan2_real, trans_sqrt_real, Spec.phi]
    rw [orth_two_theta_eq_angle_ez b1 g b2 _ hg hz h2, raised_dot_ey hg, add_comm (V3.dot b2 (Spec.ey g))]
  rw [e]
  refine ⟨abs_angle_sub_le _ _ _, ?_, rfl⟩
  rw [(tilt_sin b1 g hg h1 hz).1, div_le_div_iff₀ (by positivity) hn1]
  nlinarith [abs_nonneg (V3.dot g b1)]

/-! ## Non-vacuity: the hypotheses of the theorems above are satisfiable -/

/-- `generic_eq_spec`, `public_eq_spec` (general path): gravity along −y, incident beam tilted by 45°,
detector along x, any drop -/
example (δ : ℝ) : (⟨0, -1, 0⟩ : V3 ℝ) ≠ zero ∧ (⟨0, 1, 1⟩ : V3 ℝ) ≠ zero ∧
    V3.dot (⟨0, -1, 0⟩ : V3 ℝ) ⟨0, 1, 1⟩ ≠ 0 ∧ Spec.raised ⟨0, -1, 0⟩ ⟨1, 0, 0⟩ δ ≠ zero := by
  refine ⟨?_, ?_, ?_, ?_⟩
  · intro e; have := congrArg V3.y e; simp [zero] at this
  · intro e; have := congrArg V3.z e; simp [zero] at this
  · simp [V3.dot]
  · intro e; have := congrArg V3.x e; simp [Spec.raised, V3.add, V3.smul, Spec.ey, zero] at this

/-- `orthogonal_eq_spec`, `paths_agree_on_overlap`, `raises_angle_above_horizontal_partial`:
horizontal incident beam along z, detector in the forward hemisphere above the beam -/
example : V3.dot (⟨0, -1, 0⟩ : V3 ℝ) ⟨0, 0, 1⟩ = 0 ∧ (⟨0, 0, 1⟩ : V3 ℝ) ≠ zero ∧
    0 ≤ V3.dot (⟨0, 1, 1⟩ : V3 ℝ) (Spec.ey ⟨0, -1, 0⟩) ∧
    0 < V3.dot (⟨0, 1, 1⟩ : V3 ℝ) (Spec.ez ⟨0, 0, 1⟩ ⟨0, -1, 0⟩) := by
  have hperp : V3.dot (⟨0, -1, 0⟩ : V3 ℝ) ⟨0, 0, 1⟩ = 0 := by simp [V3.dot]
  have hn : V3.norm (⟨0, 0, 1⟩ : V3 ℝ) = 1 := by simp [V3.norm, V3.dot]
  have hg : V3.norm (⟨0, -1, 0⟩ : V3 ℝ) = 1 := by simp [V3.norm, V3.dot]
  refine ⟨hperp, ?_, ?_, ?_⟩
  · intro e; have := congrArg V3.z e; simp [zero] at this
  · simp [V3.dot, Spec.ey, V3.smul, hg]
  · rw [Spec.ez, zproj_of_perp hperp, hn]; simp [V3.dot, V3.smul]

/-- `yz_refuses_iff`: both branches occur — a horizontal beam is accepted, a tilted one refused -/
example : (|V3.dot (⟨0, -1, 0⟩ : V3 ℝ) ⟨0, 0, 1⟩| ≤ 1e-10 * V3.norm (⟨0, -1, 0⟩ : V3 ℝ)) ∧
    (1e-10 * V3.norm (⟨0, -1, 0⟩ : V3 ℝ) < |V3.dot (⟨0, -1, 0⟩ : V3 ℝ) ⟨0, 1, 1⟩|) := by
  have hg : V3.norm (⟨0, -1, 0⟩ : V3 ℝ) = 1 := by simp [V3.norm, V3.dot]
  constructor
  · rw [hg]; simp [V3.dot]; norm_num
  · rw [hg]; simp [V3.dot]; norm_num

/-- `drop_def_units`: metres, ångström, m/s² -/
example : (0:ℝ) < 1 ∧ (0:ℝ) < 1e-10 := by norm_num

end ScnVerif.Props.C04
