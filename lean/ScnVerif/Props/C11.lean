import ScnVerif.Lemmas.CascadeSort
import ScnVerif.Lemmas.CascadeComplete
import ScnVerif.Lemmas.CascadeHull
import ScnVerif.Lemmas.CascadeRounding
import ScnVerif.Lemmas.CascadeTypedGlue
/-!
# C11 — chopper-cascade frames are exactly the set of transmitted neutrons

All statements are about the executable model `Model/Cascade.lean` (the same definitions the driver
runs at `Float` against the real code), over an arbitrary linearly ordered field `α`, for every
pulse rectangle, every list of choppers / windows and every history of `chop` / `propagate_to`
calls (`Reach`; `ReachFwd` = forward propagation only).  Definitions used in the statements:
`Lemmas/CascadeGeom.lean` (`cmb`, `Hull`, `lam`), `Lemmas/CascadeSpec.lean` (`Transmitted`,
`TransmittedAt`, `Reach`, `ReachFwd`), `Lemmas/CascadeOrient.lean` (`LeftAll`, `AllLeft`),
`Lemmas/CascadeRegular.lean` (`IsExt`, `Regular`, `Region`).

Rounding: the theorems up to `seq_ops_reachFwd` are about exact arithmetic (any linearly ordered
field); at binary64 the same definitions are replayed bit for bit against the code by the harness. The
last section holds for **every** carrier / every linear order with arbitrary `+ - * /` (so also for the
rounded binary64 operations): an edge of constant wavelength is cut at exactly that wavelength (the
repair of `C11:subbounds-raises:interpolation-rounding`), which keeps the subframe regular whenever the
window edge passes through the bottom / top edge. Regularity under rounding for cuts through slanted
edges only is validated by the harness, not proved (`RegularPreservedRounded`).
Completeness and regularity need forward propagation (`ReachFwd`) and `m_n/h·s ≥ 0`; soundness holds for
every history (`Reach`).
-/
set_option linter.unusedSectionVars false
set_option linter.unnecessarySeqFocus false
namespace ScnVerif.Props.C11
open ScnVerif ScnVerif.Cascade
variable {α : Type} [Field α] [LinearOrder α] [IsStrictOrderedRing α]

/-! ## one `_chop` call -/

/-- `clip_sound`: every vertex `_chop` outputs is either an input vertex on the inner side, kept
unchanged, or a new vertex on the line `t = c` lying on the cyclic edge it came from (a convex
combination with parameter in `[0,1]` of an inside and an outside endpoint). -/
theorem clip_sound {c : α} {dir : Bool} {poly out : Poly α} (h : chopStep c dir poly = some out)
    {v : Vtx α} (hv : v ∈ out) :
    (v ∈ poly ∧ inside c dir v.1 = true) ∨
    ∃ e ∈ cycPairs poly, inside c dir e.1.1 ≠ inside c dir e.2.1 ∧
      v = cmb (lam c e.1 e.2) e.1 e.2 ∧ v.1 = c ∧ 0 ≤ lam c e.1 e.2 ∧ lam c e.1 e.2 ≤ 1 :=
  mem_chopStep h hv

/-- every output vertex lies in the convex hull of the input vertices and in the half-plane -/
theorem clip_in_hull_and_halfplane {c : α} {dir : Bool} {poly out : Poly α}
    (h : chopStep c dir poly = some out) {x : Vtx α} (hx : Hull out x) :
    Hull poly x ∧ inside c dir x.1 = true := by
  have hv : ∀ v ∈ out, Hull poly v ∧ inside c dir v.1 = true := fun v hv => chopStep_hull_inside h hv
  exact Hull.le (P := fun x => Hull poly x ∧ inside c dir x.1 = true)
    (convex_and (fun _ _ _ hp hq h0 h1 => Hull.seg hp hq h0 h1) (inside_convex c dir)) hv x hx

/-- `_chop` returns `None` only if no input vertex is on the inner side; inside vertices are kept -/
theorem clip_keeps_inside {c : α} {dir : Bool} {poly : Poly α} {v : Vtx α} (hv : v ∈ poly)
    (hin : inside c dir v.1 = true) : ∃ out, chopStep c dir poly = some out ∧ v ∈ out := by
  obtain ⟨out, h⟩ := chopStep_isSome_of_inside hv hin
  exact ⟨out, h, mem_chopStep_of_inside h hv hin⟩

example : chopStep (1 : ℚ) true [(0, 0), (2, 0), (2, 2), (0, 2)] = some [(1, 0), (2, 0), (2, 2), (1, 2)] := by
  decide +kernel

/-! ## soundness of every reported polygon, for every cascade and history -/

/-- `frame_sound`: every point of the convex hull of every subframe of every frame the code can
produce is the (arrival time, wavelength) of a transmitted neutron: emitted inside the pulse
rectangle and inside some window of every chopper applied so far. -/
theorem frame_sound {k : Consts α} {pl : Pulse α} (hpl : pl.Valid) {f : Frame α}
    {cs : List (Chopper α)} (h : Reach k pl f cs) {sub : Poly α} (hsub : sub ∈ f.subframes)
    {x : Vtx α} (hx : Hull sub x) : TransmittedAt k pl cs f.dist x := by
  obtain ⟨P, hP, hT, hV⟩ := soundInv_of_reach hpl h sub hsub
  exact hT x (Hull.le hP hV x hx)

/-- `inside_source_band`: wavelengths of every reported polygon stay in the source band -/
theorem inside_source_band {k : Consts α} {pl : Pulse α} (hpl : pl.Valid) {f : Frame α}
    {cs : List (Chopper α)} (h : Reach k pl f cs) {sub : Poly α} (hsub : sub ∈ f.subframes)
    {x : Vtx α} (hx : Hull sub x) : pl.wmin ≤ x.2 ∧ x.2 ≤ pl.wmax := by
  have := (frame_sound hpl h hsub hx).1
  exact ⟨this.2.2.1, this.2.2.2⟩

/-- the emission time of every reported point lies inside the pulse -/
theorem inside_pulse_time {k : Consts α} {pl : Pulse α} (hpl : pl.Valid) {f : Frame α}
    {cs : List (Chopper α)} (h : Reach k pl f cs) {sub : Poly α} (hsub : sub ∈ f.subframes)
    {x : Vtx α} (hx : Hull sub x) : pl.tmin ≤ emission k f.dist x ∧ emission k f.dist x ≤ pl.tmax := by
  have := (frame_sound hpl h hsub hx).1
  exact ⟨this.1, this.2.1⟩

/-! ## two steps = one step -/

/-- `shear_compose`: propagating by `d₁` then `d₂` is propagating by `d₁ + d₂` -/
theorem shear_compose (k : Consts α) (t w d1 d2 : α) :
    propagateTimes k (propagateTimes k t w d1) w d2 = propagateTimes k t w (d1 + d2) := by
  simp only [propagateTimes]; ring

/-- `Frame.propagate_to(d₁).propagate_to(d₂) = Frame.propagate_to(d₂)` -/
theorem two_steps_one_step (k : Consts α) (f : Frame α) (d1 d2 : α) :
    (f.propagateTo k d1).propagateTo k d2 = f.propagateTo k d2 := by
  simp only [Frame.propagateTo, List.map_map, Frame.mk.injEq, true_and]
  apply List.map_congr_left
  intro sub _
  simp only [Function.comp, shearPoly_eq, List.map_map]
  apply List.map_congr_left
  intro v _
  simp only [Function.comp, shearV_shearV]
  congr 1; ring

/-- chopping after an intermediate propagation (not beyond the chopper) changes nothing -/
theorem chop_after_propagate (k : Consts α) (f : Frame α) (c : Chopper α) (d : α)
    (h1 : f.dist ≤ d) (h2 : d ≤ c.dist) : (f.propagateTo k d).chop k c = f.chop k c := by
  unfold Frame.chop
  have a : ¬ c.dist < (f.propagateTo k d).dist := by simpa [Frame.propagateTo] using h2
  have b : ¬ c.dist < f.dist := not_lt.2 (h1.trans h2)
  simp only [a, b, if_false, two_steps_one_step]

/-! ## order of the chopper list -/

/-- `sorted_cascade`: `FrameSequence.chop` applies a permutation of the given choppers that is
sorted by distance, whatever the listing order -/
theorem sorted_cascade (k : Consts α) (frames : List (Frame α)) (cs : List (Chopper α)) :
    seqChop k frames cs = seqChopSorted k frames (sortByDist cs) ∧
    (sortByDist cs).Perm cs ∧ (sortByDist cs).Pairwise (fun a b => a.dist ≤ b.dist) :=
  ⟨rfl, sortByDist_perm cs, sortByDist_sorted cs⟩

/-- the result of `FrameSequence.chop` does not depend on the listing order (choppers at pairwise
different distances; at equal distances the stable sort keeps the listing order of those) -/
theorem order_independent (k : Consts α) (frames : List (Frame α)) {cs cs' : List (Chopper α)}
    (h : cs.Perm cs') (hnd : (cs.map (·.dist)).Nodup) : seqChop k frames cs = seqChop k frames cs' := by
  unfold seqChop; rw [sortByDist_eq_of_perm h hnd]

/-- `spec_order_independent`: the set of transmitted neutrons does not depend on the listing order
(any distances) -/
theorem spec_order_independent (k : Consts α) (pl : Pulse α) {cs cs' : List (Chopper α)}
    (h : cs.Perm cs') (t0 w : α) : Transmitted k pl cs t0 w ↔ Transmitted k pl cs' t0 w := by
  unfold Transmitted
  constructor
  · rintro ⟨he, hc⟩; exact ⟨he, fun c hc' => hc c (h.mem_iff.2 hc')⟩
  · rintro ⟨he, hc⟩; exact ⟨he, fun c hc' => hc c (h.mem_iff.1 hc')⟩

/-! ## the FrameSequence operations only produce reachable frames -/

/-- every frame of the sequence is reachable from the source pulse -/
def SeqReach (k : Consts α) (pl : Pulse α) (frames : List (Frame α)) : Prop :=
  ∀ f ∈ frames, ∃ cs, Reach k pl f cs

theorem seqChopSorted_reach (k : Consts α) (pl : Pulse α) : ∀ (cs : List (Chopper α))
    (frames frames' : List (Frame α)), SeqReach k pl frames → seqChopSorted k frames cs = .ok frames' →
    SeqReach k pl frames'
  | [], frames, frames', h, he => by
      simp only [seqChopSorted, Except.ok.injEq] at he; subst he; exact h
  | c :: cs, frames, frames', h, he => by
      unfold seqChopSorted at he
      cases hl : frames.getLast? with
      | none => simp [hl] at he
      | some last =>
        simp only [hl] at he
        cases hc : last.chop k c with
        | error e => simp [hc] at he
        | ok f =>
          simp only [hc] at he
          refine seqChopSorted_reach k pl cs _ _ ?_ he
          intro g hg
          rcases List.mem_append.1 hg with hg | hg
          · exact h g hg
          · simp only [List.mem_singleton] at hg; subst hg
            obtain ⟨cs0, hr⟩ := h last (List.mem_of_getLast? hl)
            exact ⟨_, Reach.chop hr hc⟩

/-- `FrameSequence.chop`, `.propagate_to` and `[distance]` keep / return reachable frames, so the
theorems above apply to everything a program of such calls can observe -/
theorem seq_ops_reach (k : Consts α) (pl : Pulse α) {frames : List (Frame α)} (h : SeqReach k pl frames) :
    (∀ cs frames', seqChop k frames cs = .ok frames' → SeqReach k pl frames') ∧
    (∀ d frames', seqPropagateTo k frames d = .ok frames' → SeqReach k pl frames') ∧
    (∀ d f, seqGetItem k frames d = .ok f → ∃ cs, Reach k pl f cs) := by
  refine ⟨fun cs frames' he => seqChopSorted_reach k pl _ _ _ h he, ?_, ?_⟩
  · intro d frames' he
    unfold seqPropagateTo at he
    cases hl : frames.getLast? with
    | none => simp [hl] at he
    | some last =>
      simp only [hl, Except.ok.injEq] at he; subst he
      intro g hg
      rcases List.mem_append.1 hg with hg | hg
      · exact h g hg
      · simp only [List.mem_singleton] at hg; subst hg
        obtain ⟨cs0, hr⟩ := h last (List.mem_of_getLast? hl)
        exact ⟨_, Reach.prop d hr⟩
  · intro d f he
    unfold seqGetItem at he
    have key : ∀ (l : List (Frame α)) (acc : Option (Frame α)), (∀ g ∈ l, ∃ cs, Reach k pl g cs) →
        (∀ g, acc = some g → ∃ cs, Reach k pl g cs) → ∀ g, frameBefore d l acc = some g → ∃ cs, Reach k pl g cs := by
      intro l
      induction l with
      | nil => intro acc _ hacc g hg; exact hacc g hg
      | cons a l ih =>
        intro acc hl hacc g hg
        unfold frameBefore at hg
        split at hg
        · exact hacc g hg
        · exact ih (some a) (fun g hg => hl g (List.mem_cons_of_mem _ hg))
            (fun g hg => by cases hg; exact hl _ (List.mem_cons_self ..)) g hg
    cases hb : frameBefore d frames none with
    | none => simp [hb] at he
    | some g =>
      simp only [hb, Except.ok.injEq] at he; subst he
      obtain ⟨cs, hr⟩ := key frames none h (by simp) g hb
      exact ⟨cs, Reach.prop d hr⟩

theorem seqReach_source (k : Consts α) (pl : Pulse α) : SeqReach k pl [sourceFrame pl] := by
  intro f hf; simp only [List.mem_singleton] at hf; subst hf; exact ⟨[], Reach.source⟩

/-! ## convex cycles, regular subframes, completeness (forward histories, `m_n/h·s ≥ 0`) -/

/-- `_chop` keeps the inner side: a point of the half-plane on the inner side of every edge of a convex
counter-clockwise cycle is on the inner side of every edge of the clipped cycle; in particular the
clipped cycle is again convex counter-clockwise -/
theorem clip_complete_halfplanes {c : α} {dir : Bool} {poly out : Poly α}
    (h : chopStep c dir poly = some out) (hconv : AllLeft poly) :
    (∀ x, LeftAll poly x → inside c dir x.1 = true → LeftAll out x) ∧ AllLeft out :=
  ⟨fun _ hx hin => chopStep_leftAll h hconv hx hin, chopStep_allLeft h hconv⟩

/-- `clip_complete`: for a convex counter-clockwise cycle, every point of its region that lies in the
half-plane survives: `_chop` does not return `None` and the point is in the region of the output -/
theorem clip_complete {c : α} {dir : Bool} {poly : Poly α} (hconv : AllLeft poly) {x : Vtx α}
    (hx : Region poly x) (hxin : inside c dir x.1 = true) :
    ∃ out, chopStep c dir poly = some out ∧ Region out x :=
  chopStep_region hconv hx hxin

/-- `regular_preserved` (one `_chop` call): a convex counter-clockwise cycle with a vertex attaining
both minima and one attaining both maxima keeps such vertices -/
theorem regular_preserved_clip {c : α} {dir : Bool} {poly out : Poly α}
    (h : chopStep c dir poly = some out) (hconv : AllLeft poly) (hr : Regular poly) : Regular out :=
  chopStep_regular h hconv hr

/-- `regular_preserved` (shear by `d ≥ 0`) -/
theorem regular_preserved_shear (k : Consts α) {d : α} (hκ : 0 ≤ k.mn / k.h * k.s) (hd : 0 ≤ d)
    {poly : Poly α} (hr : Regular poly) : Regular (shearPoly k d poly) :=
  regular_shear k hκ hd hr

/-- `regular_preserved` (exact arithmetic; for rounding see the last section): every subframe of every frame reached by forward propagation and chopping is
a convex counter-clockwise cycle and is regular: some vertex has both the minimal time and the minimal
wavelength, some vertex has both maxima -/
theorem regular_preserved {k : Consts α} {pl : Pulse α} (hpl : pl.Valid) (hκ : 0 ≤ k.mn / k.h * k.s)
    {f : Frame α} {cs : List (Chopper α)} (h : ReachFwd k pl f cs) {sub : Poly α} (hsub : sub ∈ f.subframes) :
    AllLeft sub ∧
    (∃ m ∈ sub, ∀ v ∈ sub, m.1 ≤ v.1 ∧ m.2 ≤ v.2) ∧ (∃ M ∈ sub, ∀ v ∈ sub, v.1 ≤ M.1 ∧ v.2 ≤ M.2) := by
  obtain ⟨ha, ⟨m, hm⟩, ⟨M, hM⟩⟩ := (completeInv_of_reachFwd hpl hκ h).1 sub hsub
  rw [isExt_true_iff] at hm
  rw [isExt_false_iff] at hM
  exact ⟨ha, ⟨m, hm.1, hm.2⟩, ⟨M, hM.1, hM.2⟩⟩

/-- so `Frame.subbounds()` of the model never raises `NotImplementedError` on such a frame (it returns
the bounds whenever the frame has a subframe) — in exact arithmetic -/
theorem subbounds_defined {k : Consts α} {pl : Pulse α} (hpl : pl.Valid) (hκ : 0 ≤ k.mn / k.h * k.s)
    {f : Frame α} {cs : List (Chopper α)} (h : ReachFwd k pl f cs) (hne : f.subframes ≠ []) :
    ∃ b, f.subbounds = .ok b := by
  unfold Frame.subbounds
  have h1 : f.subframes.isEmpty = false := by
    cases hs : f.subframes with
    | nil => exact absurd hs hne
    | cons _ _ => rfl
  have h2 : f.subframes.all isRegular = true := by
    rw [List.all_eq_true]
    intro sub hsub
    exact (isRegular_iff sub).2 ((completeInv_of_reachFwd hpl hκ h).1 sub hsub).2
  simp [h1, h2]

/-- `frame_complete`: every transmitted neutron lies in the region of some reported subframe — on the
inner side of all its edges and inside its bounding box; in particular that subframe was not dropped -/
theorem frame_complete {k : Consts α} {pl : Pulse α} (hpl : pl.Valid) (hκ : 0 ≤ k.mn / k.h * k.s)
    {f : Frame α} {cs : List (Chopper α)} (h : ReachFwd k pl f cs) {t0 w : α}
    (ht : Transmitted k pl cs t0 w) : ∃ sub ∈ f.subframes, Region sub (arrival k t0 w f.dist, w) :=
  (completeInv_of_reachFwd hpl hκ h).2 t0 w ht

/-- the sandwich: `⋃ Hull sub ⊆ {transmitted} ⊆ ⋃ Region sub` -/
theorem frames_sandwich {k : Consts α} {pl : Pulse α} (hpl : pl.Valid) (hκ : 0 ≤ k.mn / k.h * k.s)
    {f : Frame α} {cs : List (Chopper α)} (h : ReachFwd k pl f cs) (x : Vtx α) :
    ((∃ sub ∈ f.subframes, Hull sub x) → TransmittedAt k pl cs f.dist x) ∧
    (TransmittedAt k pl cs f.dist x → ∃ sub ∈ f.subframes, Region sub x) := by
  constructor
  · rintro ⟨sub, hsub, hx⟩
    exact frame_sound hpl h.reach hsub hx
  · intro ht
    obtain ⟨sub, hsub, hr⟩ := frame_complete hpl hκ h ht
    rw [arrival_emission] at hr
    exact ⟨sub, hsub, hr⟩

/-- for the cycles the code produces, the convex hull and the region (inner side of every edge, inside
the bounding box) are the same set: the polygon -/
theorem hull_eq_region {poly : Poly α} (hconv : AllLeft poly) (hr : Regular poly) (x : Vtx α) :
    Hull poly x ↔ Region poly x := by
  constructor
  · intro hx
    obtain ⟨⟨m, hm⟩, ⟨M, hM⟩⟩ := hr
    exact ⟨Hull.le (leftAll_convex poly) hconv x hx,
      ⟨m, hm, Hull.le (convex_quadrant true m) hm.2 x hx⟩,
      ⟨M, hM, Hull.le (convex_quadrant false M) hM.2 x hx⟩⟩
  · exact region_subset_hull

/-- **main theorem** `frames_exact`: for every frame reached from a source pulse by forward propagation
and chopping (any choppers, windows, histories), a point `x = (arrival time, wavelength)` lies in (the
convex hull of) one of the reported subframe polygons **if and only if** it is a transmitted neutron:
emitted inside the pulse rectangle and inside some window of every chopper applied. -/
theorem frames_exact {k : Consts α} {pl : Pulse α} (hpl : pl.Valid) (hκ : 0 ≤ k.mn / k.h * k.s)
    {f : Frame α} {cs : List (Chopper α)} (h : ReachFwd k pl f cs) (x : Vtx α) :
    (∃ sub ∈ f.subframes, Hull sub x) ↔ TransmittedAt k pl cs f.dist x := by
  constructor
  · exact (frames_sandwich hpl hκ h x).1
  · intro ht
    obtain ⟨sub, hsub, hr⟩ := (frames_sandwich hpl hκ h x).2 ht
    exact ⟨sub, hsub, region_subset_hull hr⟩

/-- the same in neutron coordinates: the neutron `(t0, w)` is transmitted iff its arrival point at the
frame's distance is in a reported polygon -/
theorem frames_exact_neutron {k : Consts α} {pl : Pulse α} (hpl : pl.Valid) (hκ : 0 ≤ k.mn / k.h * k.s)
    {f : Frame α} {cs : List (Chopper α)} (h : ReachFwd k pl f cs) (t0 w : α) :
    Transmitted k pl cs t0 w ↔ ∃ sub ∈ f.subframes, Hull sub (arrival k t0 w f.dist, w) := by
  rw [frames_exact hpl hκ h]
  unfold TransmittedAt
  rw [emission_arrival]

/-! ## the user-facing API: `FrameSequence.from_source_pulse(...).chop(choppers)` -/

/-- the loop of `FrameSequence.chop`: the last frame has passed the choppers of the list, in order -/
theorem seqChopSorted_last (k : Consts α) (pl : Pulse α) : ∀ (l : List (Chopper α))
    (frames frames' : List (Frame α)) (last : Frame α) (cs0 : List (Chopper α)),
    frames.getLast? = some last → ReachFwd k pl last cs0 → seqChopSorted k frames l = .ok frames' →
    ∃ last', frames'.getLast? = some last' ∧ ReachFwd k pl last' (l.reverse ++ cs0)
  | [], frames, frames', last, cs0, hl, hr, he => by
      simp only [seqChopSorted, Except.ok.injEq] at he; subst he
      exact ⟨last, hl, by simpa using hr⟩
  | c :: l, frames, frames', last, cs0, hl, hr, he => by
      unfold seqChopSorted at he
      simp only [hl] at he
      cases hc : last.chop k c with
      | error e => simp [hc] at he
      | ok f =>
        simp only [hc] at he
        obtain ⟨last', h1, h2⟩ := seqChopSorted_last k pl l (frames ++ [f]) frames' f (c :: cs0)
          (by simp) (ReachFwd.chop hr hc) he
        exact ⟨last', h1, by simpa using h2⟩

/-- **end-to-end**: the last frame of `FrameSequence.from_source_pulse(pulse).chop(choppers)` consists
of exactly the neutrons transmitted by `choppers` — in whatever order they are listed -/
theorem from_source_pulse_chop_exact {k : Consts α} {pl : Pulse α} (hpl : pl.Valid)
    (hκ : 0 ≤ k.mn / k.h * k.s) (cs : List (Chopper α)) {frames : List (Frame α)}
    (h : seqChop k [sourceFrame pl] cs = .ok frames) :
    ∃ f, frames.getLast? = some f ∧ ∀ x : Vtx α,
      (∃ sub ∈ f.subframes, Hull sub x) ↔ TransmittedAt k pl cs f.dist x := by
  obtain ⟨f, hf, hr⟩ := seqChopSorted_last k pl (sortByDist cs) [sourceFrame pl] frames (sourceFrame pl) []
    rfl ReachFwd.source h
  refine ⟨f, hf, fun x => ?_⟩
  rw [frames_exact hpl hκ hr x]
  unfold TransmittedAt
  apply spec_order_independent
  simpa using (List.reverse_perm _).trans (sortByDist_perm cs)

/-- `FrameSequence.__getitem__(distance)` only ever propagates forward: the frame it starts from is a
frame of the sequence that is not behind `distance` -/
theorem getitem_forward (k : Consts α) (frames : List (Frame α)) (d : α) {f : Frame α}
    (h : seqGetItem k frames d = .ok f) : ∃ g ∈ frames, g.dist ≤ d ∧ f = g.propagateTo k d := by
  unfold seqGetItem at h
  have key : ∀ (l : List (Frame α)) (acc : Option (Frame α)),
      (∀ g, acc = some g → g ∈ frames ∧ g.dist ≤ d) → (∀ g ∈ l, g ∈ frames) →
      ∀ g, frameBefore d l acc = some g → g ∈ frames ∧ g.dist ≤ d := by
    intro l
    induction l with
    | nil => intro acc hacc _ g hg; exact hacc g hg
    | cons a l ih =>
      intro acc hacc hl g hg
      unfold frameBefore at hg
      split at hg
      · exact hacc g hg
      · rename_i hnlt
        exact ih (some a) (fun g hg => by cases hg; exact ⟨hl _ (List.mem_cons_self ..), not_lt.1 hnlt⟩)
          (fun g hg => hl g (List.mem_cons_of_mem _ hg)) g hg
  cases hb : frameBefore d frames none with
  | none => simp [hb] at h
  | some g =>
    simp only [hb, Except.ok.injEq] at h
    obtain ⟨hg1, hg2⟩ := key frames none (by simp) (fun g hg => hg) g hb
    exact ⟨g, hg1, hg2, h.symm⟩

/-- every frame of the sequence is reachable by forward propagation and chopping -/
def SeqReachFwd (k : Consts α) (pl : Pulse α) (frames : List (Frame α)) : Prop :=
  ∀ f ∈ frames, ∃ cs, ReachFwd k pl f cs

theorem seqChopSorted_reachFwd (k : Consts α) (pl : Pulse α) : ∀ (cs : List (Chopper α))
    (frames frames' : List (Frame α)), SeqReachFwd k pl frames → seqChopSorted k frames cs = .ok frames' →
    SeqReachFwd k pl frames'
  | [], frames, frames', h, he => by
      simp only [seqChopSorted, Except.ok.injEq] at he; subst he; exact h
  | c :: cs, frames, frames', h, he => by
      unfold seqChopSorted at he
      cases hl : frames.getLast? with
      | none => simp [hl] at he
      | some last =>
        simp only [hl] at he
        cases hc : last.chop k c with
        | error e => simp [hc] at he
        | ok f =>
          simp only [hc] at he
          refine seqChopSorted_reachFwd k pl cs _ _ ?_ he
          intro g hg
          rcases List.mem_append.1 hg with hg | hg
          · exact h g hg
          · simp only [List.mem_singleton] at hg; subst hg
            obtain ⟨cs0, hr⟩ := h last (List.mem_of_getLast? hl)
            exact ⟨_, ReachFwd.chop hr hc⟩

/-- any program of `chop`, forward `propagate_to` and `[distance]` calls on a sequence started by
`from_source_pulse` only observes frames to which `frames_exact`, `regular_preserved` and
`subbounds_defined` apply -/
theorem seq_ops_reachFwd (k : Consts α) (pl : Pulse α) {frames : List (Frame α)}
    (h : SeqReachFwd k pl frames) :
    (∀ cs frames', seqChop k frames cs = .ok frames' → SeqReachFwd k pl frames') ∧
    (∀ d frames', (∀ last, frames.getLast? = some last → last.dist ≤ d) →
      seqPropagateTo k frames d = .ok frames' → SeqReachFwd k pl frames') ∧
    (∀ d f, seqGetItem k frames d = .ok f → ∃ cs, ReachFwd k pl f cs) := by
  refine ⟨fun cs frames' he => seqChopSorted_reachFwd k pl _ _ _ h he, ?_, ?_⟩
  · intro d frames' hd he
    unfold seqPropagateTo at he
    cases hl : frames.getLast? with
    | none => simp [hl] at he
    | some last =>
      simp only [hl, Except.ok.injEq] at he; subst he
      intro g hg
      rcases List.mem_append.1 hg with hg | hg
      · exact h g hg
      · simp only [List.mem_singleton] at hg; subst hg
        obtain ⟨cs0, hr⟩ := h last (List.mem_of_getLast? hl)
        exact ⟨_, ReachFwd.prop d (hd last hl) hr⟩
  · intro d f he
    obtain ⟨g, hg, hgd, rfl⟩ := getitem_forward k frames d he
    obtain ⟨cs, hr⟩ := h g hg
    exact ⟨cs, ReachFwd.prop d hgd hr⟩

theorem seqReachFwd_source (k : Consts α) (pl : Pulse α) : SeqReachFwd k pl [sourceFrame pl] := by
  intro f hf; simp only [List.mem_singleton] at hf; subst hf; exact ⟨[], ReachFwd.source⟩

/-- the set of neutrons covered by the reported polygons does not depend on the order in which the
choppers are listed, also when several choppers sit at the same distance (where the subframes
themselves may be listed / cut in another order) -/
theorem chop_region_order_independent {k : Consts α} {pl : Pulse α} (hpl : pl.Valid)
    (hκ : 0 ≤ k.mn / k.h * k.s) {cs cs' : List (Chopper α)} (hp : cs.Perm cs')
    {frames frames' : List (Frame α)} (h : seqChop k [sourceFrame pl] cs = .ok frames)
    (h' : seqChop k [sourceFrame pl] cs' = .ok frames') :
    ∃ f f', frames.getLast? = some f ∧ frames'.getLast? = some f' ∧
      ∀ t0 w : α, (∃ sub ∈ f.subframes, Hull sub (arrival k t0 w f.dist, w)) ↔
        (∃ sub ∈ f'.subframes, Hull sub (arrival k t0 w f'.dist, w)) := by
  obtain ⟨f, hf, hr⟩ := seqChopSorted_last k pl (sortByDist cs) [sourceFrame pl] frames (sourceFrame pl) []
    rfl ReachFwd.source h
  obtain ⟨f', hf', hr'⟩ := seqChopSorted_last k pl (sortByDist cs') [sourceFrame pl] frames' (sourceFrame pl) []
    rfl ReachFwd.source h'
  refine ⟨f, f', hf, hf', fun t0 w => ?_⟩
  rw [← frames_exact_neutron hpl hκ hr, ← frames_exact_neutron hpl hκ hr']
  apply spec_order_independent
  have p1 : ((sortByDist cs).reverse ++ []).Perm cs := by
    simpa using (List.reverse_perm _).trans (sortByDist_perm cs)
  have p2 : ((sortByDist cs').reverse ++ []).Perm cs' := by
    simpa using (List.reverse_perm _).trans (sortByDist_perm cs')
  exact p1.trans (hp.trans p2.symm)

/-! ## `bounds()` / `subbounds()` report the extreme vertex values -/

/-- the per-subframe bounds are the extreme vertex times and wavelengths, each attained by a vertex -/
theorem polyBounds_extreme {poly : Poly α} {b : α × α × α × α} (h : polyBounds poly = some b) :
    (∀ v ∈ poly, b.1 ≤ v.1 ∧ v.1 ≤ b.2.1 ∧ b.2.2.1 ≤ v.2 ∧ v.2 ≤ b.2.2.2) ∧
    (∃ v ∈ poly, v.1 = b.1) ∧ (∃ v ∈ poly, v.1 = b.2.1) ∧ (∃ v ∈ poly, v.2 = b.2.2.1) ∧ (∃ v ∈ poly, v.2 = b.2.2.2) := by
  cases poly with
  | nil => simp [polyBounds] at h
  | cons u l =>
    simp only [polyBounds, Option.some.injEq] at h
    subst h
    obtain ⟨tm1, tm2⟩ := minOf_spec u.1 (l.map (·.1))
    obtain ⟨wm1, wm2⟩ := minOf_spec u.2 (l.map (·.2))
    obtain ⟨tM1, tM2⟩ := maxOf_spec u.1 (l.map (·.1))
    obtain ⟨wM1, wM2⟩ := maxOf_spec u.2 (l.map (·.2))
    have hmap1 : ∀ v ∈ u :: l, v.1 ∈ u.1 :: l.map (·.1) := by
      intro v hv
      rcases List.mem_cons.1 hv with rfl | hv
      · simp
      · exact List.mem_cons_of_mem _ (List.mem_map_of_mem hv)
    have hmap2 : ∀ v ∈ u :: l, v.2 ∈ u.2 :: l.map (·.2) := by
      intro v hv
      rcases List.mem_cons.1 hv with rfl | hv
      · simp
      · exact List.mem_cons_of_mem _ (List.mem_map_of_mem hv)
    have hex1 : ∀ y ∈ u.1 :: l.map (·.1), ∃ v ∈ u :: l, v.1 = y := by
      intro y hy
      rcases List.mem_cons.1 hy with rfl | hy
      · exact ⟨u, by simp, rfl⟩
      · obtain ⟨v, hv, rfl⟩ := List.mem_map.1 hy
        exact ⟨v, List.mem_cons_of_mem _ hv, rfl⟩
    have hex2 : ∀ y ∈ u.2 :: l.map (·.2), ∃ v ∈ u :: l, v.2 = y := by
      intro y hy
      rcases List.mem_cons.1 hy with rfl | hy
      · exact ⟨u, by simp, rfl⟩
      · obtain ⟨v, hv, rfl⟩ := List.mem_map.1 hy
        exact ⟨v, List.mem_cons_of_mem _ hv, rfl⟩
    exact ⟨fun v hv => ⟨tm2 _ (hmap1 v hv), tM2 _ (hmap1 v hv), wm2 _ (hmap2 v hv), wM2 _ (hmap2 v hv)⟩,
      hex1 _ tm1, hex1 _ tM1, hex2 _ wm1, hex2 _ wM1⟩

/-- when `subbounds()` succeeds it lists exactly the bounds of the subframes, in order, and for each
of them the start (end) time and the start (end) wavelength belong to one and the same vertex — which
is what callers of `subbounds` rely on -/
theorem subbounds_spec {f : Frame α} {bs : List (α × α × α × α)} (h : f.subbounds = .ok bs) :
    bs = f.subframes.filterMap polyBounds ∧
    ∀ sub ∈ f.subframes, ∀ b, polyBounds sub = some b →
      (∃ v ∈ sub, v.1 = b.1 ∧ v.2 = b.2.2.1) ∧ (∃ v ∈ sub, v.1 = b.2.1 ∧ v.2 = b.2.2.2) := by
  unfold Frame.subbounds at h
  split at h
  · cases h
  · split at h
    · rename_i _ hall
      simp only [Except.ok.injEq] at h
      refine ⟨h.symm, ?_⟩
      intro sub hsub b hb
      have hreg := (isRegular_iff sub).1 (List.all_eq_true.1 hall sub hsub)
      obtain ⟨⟨m, hm⟩, ⟨M, hM⟩⟩ := hreg
      rw [isExt_true_iff] at hm
      rw [isExt_false_iff] at hM
      obtain ⟨hall', ⟨v1, hv1, e1⟩, ⟨v2, hv2, e2⟩, ⟨v3, hv3, e3⟩, ⟨v4, hv4, e4⟩⟩ := polyBounds_extreme hb
      refine ⟨⟨m, hm.1, ?_, ?_⟩, ⟨M, hM.1, ?_, ?_⟩⟩
      · exact le_antisymm (e1 ▸ (hm.2 v1 hv1).1) (hall' m hm.1).1
      · exact le_antisymm (e3 ▸ (hm.2 v3 hv3).2) (hall' m hm.1).2.2.1
      · exact le_antisymm (hall' M hM.1).2.1 (e2 ▸ (hM.2 v2 hv2).1)
      · exact le_antisymm (hall' M hM.1).2.2.2 (e4 ▸ (hM.2 v4 hv4).2)
    · cases h

/-! ## what survives rounding (every carrier, arbitrary arithmetic) -/
section Rounding
variable {β : Type} [Add β] [Sub β] [Mul β] [Div β] [OfNat β 1]

/-- `const_edge_exact`, for **every** carrier (in particular the `Float` instance that mirrors the
code): every vertex `_chop` outputs is a kept input vertex or the intersection vertex of a cyclic
edge, with time exactly `c`; on an edge whose endpoints have equal wavelengths the new vertex has
exactly that wavelength, whatever the rounding of the interpolation -/
theorem const_edge_exact [LE β] [DecidableLE β] {c : β} {dir : Bool} {poly out : Poly β}
    (h : chopStep c dir poly = some out) {v : Vtx β} (hv : v ∈ out) :
    (v ∈ poly ∧ inside c dir v.1 = true) ∨
    ∃ e ∈ cycPairs poly, inside c dir e.1.1 ≠ inside c dir e.2.1 ∧ v = interp c e.1 e.2 ∧ v.1 = c ∧
      ((decide (e.1.2 ≤ e.2.2) && decide (e.2.2 ≤ e.1.2)) = true → v.2 = e.1.2) :=
  mem_chopStep_generic h hv

/-- it applies to the carrier the driver runs -/
example (c : Float) (p q : Vtx Float) (h : (decide (p.2 ≤ q.2) && decide (q.2 ≤ p.2)) = true) :
    interp c p q = (c, p.2) := interp_const_edge c p q h

/-- `regular_preserved_rounded_partial` (opening edge): over any linear order with arbitrary
arithmetic, if the window opens inside an edge lying at the minimal wavelength of the subframe (the
bottom edge of the sheared source rectangle), the clipped subframe has a vertex attaining both the
minimal time and the minimal wavelength — the situation in which the unrepaired code failed -/
theorem regular_preserved_rounded_partial_open [LinearOrder β] {c : β} {poly out : Poly β}
    (h : chopStep c true poly = some out) {m : Vtx β} (hm : ∀ v ∈ poly, m.2 ≤ v.2)
    {e : Vtx β × Vtx β} (he : e ∈ cycPairs poly) (hd : inside c true e.1.1 ≠ inside c true e.2.1)
    (h1 : e.1.2 = m.2) (h2 : e.2.2 = m.2) : ∃ m' ∈ out, ∀ v ∈ out, m'.1 ≤ v.1 ∧ m'.2 ≤ v.2 :=
  minmin_after_open_clip_const_edge h hm he hd h1 h2

/-- `regular_preserved_rounded_partial` (closing edge through the top edge): the mirror statement -/
theorem regular_preserved_rounded_partial_close [LinearOrder β] {c : β} {poly out : Poly β}
    (h : chopStep c false poly = some out) {M : Vtx β} (hM : ∀ v ∈ poly, v.2 ≤ M.2)
    {e : Vtx β × Vtx β} (he : e ∈ cycPairs poly) (hd : inside c false e.1.1 ≠ inside c false e.2.1)
    (h1 : e.1.2 = M.2) (h2 : e.2.2 = M.2) : ∃ M' ∈ out, ∀ v ∈ out, v.1 ≤ M'.1 ∧ v.2 ≤ M'.2 :=
  maxmax_after_close_clip_const_edge h hM he hd h1 h2

/-- a window edge that cuts nothing returns the subframe unchanged, vertex for vertex (any rounding) -/
theorem clip_noop_rounded [LinearOrder β] {c : β} {dir : Bool} {poly : Poly β} (hne : poly ≠ [])
    (hall : ∀ v ∈ poly, inside c dir v.1 = true) : chopStep c dir poly = some poly :=
  chopStep_all_inside hne hall

/-- the full statement under rounding: every `_chop` of a regular subframe that the code can produce
is regular, for the rounded arithmetic. Not proved (cuts through slanted edges need properties of the
rounded interpolation); validated at binary64 on every run by the oracle (`C11:subbounds-raises…`). -/
def RegularPreservedRounded (β : Type) [Add β] [Sub β] [Mul β] [Div β] [OfNat β 1] [LinearOrder β] : Prop :=
  ∀ (c : β) (dir : Bool) (poly out : Poly β), isRegular poly = true → chopStep c dir poly = some out →
    isRegular out = true

end Rounding

/-! ## dtype-dependent behaviour (hooks) -/
section Hooks
variable {β : Type} [Add β] [Sub β] [Mul β] [Div β] [OfNat β 1] [LE β] [DecidableLE β] [LT β] [DecidableLT β]

/-- the versions of the model that carry the dtype-dependent behaviour of the code (single precision
cast in `propagate_times`, `DTypeError` of `sc.concat` in `_chop`, `UnitError` for window times in
another unit) — run at the typed carrier `TV` against typed operands — are the plain functions all
theorems above are about whenever that behaviour does not occur (trivial hooks: double precision) -/
theorem hooked_model_is_plain (k : Consts β) (frames : List (Frame β)) (f : Frame β) (c : Chopper β)
    (cs : List (Chopper β)) (d : β) :
    f.chopH Hooks.trivial k c = f.chop k c ∧
    f.propagateToH Hooks.trivial k d = f.propagateTo k d ∧
    seqChopH Hooks.trivial k frames cs = seqChop k frames cs ∧
    seqPropagateToH Hooks.trivial k frames d = seqPropagateTo k frames d ∧
    seqGetItemH Hooks.trivial k frames d = seqGetItem k frames d :=
  ⟨chopH_trivial k f c, propagateToH_trivial k f d, seqChopH_trivial k frames cs,
    seqPropagateToH_trivial k frames d, seqGetItemH_trivial k frames d⟩

/-- with arbitrary hooks, `_chop`'s vertices are still those of the plain `_chop` (the hook only
decides whether `sc.concat` accepts them) -/
theorem hooked_chop_vertices (H : Hooks β) (c : β) (dir : Bool) (poly out : Poly β)
    (h : chopStepH H c dir poly = .ok (some out)) : chopStep c dir poly = some out := by
  unfold chopStepH at h
  cases hc : chopStep c dir poly with
  | none => simp [hc] at h
  | some o =>
    simp only [hc] at h
    split at h
    · simp only [Except.ok.injEq, Option.some.injEq] at h; rw [h]
    · cases h

end Hooks

/-! ## non-vacuity: a concrete cascade over ℚ -/
section Examples

def k0 : Consts ℚ := ⟨1, 1, 1⟩
def pl0 : Pulse ℚ := ⟨0, 1, 1, 2⟩
def c0 : Chopper ℚ := ⟨1, [(3/2, 5/2)]⟩
def f0 : Frame ℚ := ⟨1, [[(3/2, 1), (2, 1), (5/2, 3/2), (5/2, 2), (2, 2), (3/2, 3/2)]]⟩

instance : DecidableEq (Frame ℚ) := fun a b =>
  decidable_of_iff (a.dist = b.dist ∧ a.subframes = b.subframes) (by cases a; cases b; simp)
instance {β : Type} [DecidableEq β] : DecidableEq (Except Err β) := fun a b =>
  match a, b with
  | .ok x, .ok y => decidable_of_iff (x = y) (by simp)
  | .error x, .error y => decidable_of_iff (x = y) (by simp)
  | .ok _, .error _ => isFalse (by simp)
  | .error _, .ok _ => isFalse (by simp)

example : pl0.Valid ∧ (0 : ℚ) ≤ k0.mn / k0.h * k0.s := by
  constructor
  · constructor <;> simp [pl0]
  · simp [k0]

/-- the hypotheses of the frame theorems are satisfiable by a cascade that really cuts the frame -/
example : ReachFwd k0 pl0 f0 [c0] :=
  ReachFwd.chop ReachFwd.source (by decide +kernel)

/-- a transmitted neutron of that cascade (emitted at 1/2 with wavelength 3/2, arriving at 2) -/
example : Transmitted k0 pl0 [c0] (1/2) (3/2) := by
  refine ⟨⟨by simp [pl0], by simp [pl0]; norm_num, by simp [pl0]; norm_num, by simp [pl0]; norm_num⟩, ?_⟩
  intro c hc
  simp only [List.mem_singleton] at hc; subst hc
  refine ⟨(3/2, 5/2), by simp [c0], ?_, ?_⟩ <;> simp [arrival, propagateTimes, k0, c0] <;> norm_num

/-- the end-to-end theorem applies: `FrameSequence.chop` of that cascade succeeds, also with a second
chopper listed first although it is further away -/
example : seqChop k0 [sourceFrame pl0] [c0] = .ok [sourceFrame pl0, f0] := by decide +kernel

example : ∃ frames, seqChop k0 [sourceFrame pl0] [⟨2, [(3, 4)]⟩, c0] = .ok frames ∧ frames.length = 3 := by
  refine ⟨[sourceFrame pl0, f0, ⟨2, [[(3, 1), (3, 1), (4, 3/2), (4, 3/2), (4, 2), (4, 2), (3, 3/2), (3, 3/2)]]⟩], ?_, rfl⟩
  decide +kernel

/-- `order_independent` / `sorted_cascade` are not vacuous: two choppers listed in both orders -/
example : sortByDist [(⟨2, []⟩ : Chopper ℚ), ⟨1, []⟩] = sortByDist [⟨1, []⟩, ⟨2, []⟩] :=
  sortByDist_eq_of_perm (List.Perm.swap _ _ _) (by simp)

/-- the hypotheses of `regular_preserved_rounded_partial_open` are met by the first chopper of the
example cascade: the window opens inside the bottom edge `(1,1) → (2,1)` of the sheared rectangle -/
example : ∃ out, chopStep (3/2 : ℚ) true [(1, 1), (2, 1), (3, 2), (2, 2)] = some out ∧
    ((1 : ℚ), (1 : ℚ)) ∈ [((1 : ℚ), (1 : ℚ)), (2, 1), (3, 2), (2, 2)] ∧
    (((1 : ℚ), (1 : ℚ)), ((2 : ℚ), (1 : ℚ))) ∈ cycPairs [((1 : ℚ), (1 : ℚ)), (2, 1), (3, 2), (2, 2)] ∧
    inside (3/2 : ℚ) true 1 ≠ inside (3/2 : ℚ) true 2 := by
  refine ⟨[(3/2, 1), (2, 1), (3, 2), (2, 2), (3/2, 3/2)], by decide +kernel, by decide +kernel, by decide +kernel,
    by decide +kernel⟩

/-- regular and irregular subframes are told apart by the model's `is_regular` -/
example : isRegular f0.subframes.head! = true ∧ isRegular [((0 : ℚ), (1 : ℚ)), (1, 0)] = false := by
  decide +kernel

end Examples

end ScnVerif.Props.C11
