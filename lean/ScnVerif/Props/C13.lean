import ScnVerif.Model.Sqw.Units
import ScnVerif.Model.Sqw.Build
import ScnVerif.Model.Sqw.Decode
import ScnVerif.Gen.SqwTables
import ScnVerif.Lemmas.SqwBytes
import ScnVerif.Lemmas.SqwIR
import ScnVerif.Lemmas.SqwFile
import ScnVerif.Lemmas.SqwRun
import ScnVerif.Lemmas.SqwReaderParse
import Mathlib.Tactic.Linarith
import Mathlib.Tactic.Ring
import Mathlib.Data.Real.Basic
/-!
# C13 — SQW content is what was supplied; the reader never re-labels a value with another dimension

The unit tables `Gen.SqwTables.writerUnits / readerUnits / pixRows` are regenerated from
`_models.py`, `_sqw.py`, `_build.py` on every run; the table theorems below are re-checked against
them by `decide +kernel`.
-/
namespace ScnVerif.Props.C13
open ScnVerif ScnVerif.Sqw ScnVerif.Gen.SqwTables

/-! ## Unit labels of the reader against the units of the writer -/

def isAlatt (e : UnitEntry) : Bool := e.field == sAlatt

/-- FULL statement: every field the writer converts to a unit is labelled by the reader with a unit
of the same physical dimension. It is FALSE of the current code (see `reader_units_alatt_mismatch`). -/
def ReaderUnitsSameDimension : Prop := writerUnits.all (sameDimension readerUnits) = true

/-- every field other than the lattice spacings `alatt`: same dimension (known finding
`C13:reader-unit:alatt` is exactly the excluded part) -/
theorem reader_units_same_dimension_partial :
    (writerUnits.filter (fun e => !isAlatt e)).all (sameDimension readerUnits) = true := by
  decide +kernel

/-- the excluded part really fails: the writer stores `alatt` of the sample and of the line
projection in angstrom, the reader labels both `1/angstrom`; nothing else mismatches -/
theorem reader_units_alatt_mismatch :
    writerUnits.filter (fun w => !sameDimension readerUnits w) =
      [⟨[108,105,110,101,95,112,114,111,106] /-line_proj-/, [97,108,97,116,116] /-alatt-/, some [97,110,103,115,116,114,111,109] /-angstrom-/⟩, ⟨[73,88,95,115,97,109,112,108,101] /-IX_sample-/, [97,108,97,116,116] /-alatt-/, some [97,110,103,115,116,114,111,109] /-angstrom-/⟩] := by
  decide +kernel

theorem reader_units_full_statement_false : ¬ ReaderUnitsSameDimension := by
  unfold ReaderUnitsSameDimension
  decide +kernel

/-- the comparison is not vacuous: at least 20 fields carry a unit on both sides (30 today) -/
example : 20 ≤ ((writerUnits.filter (fun w => w.unit.isSome)).filter
    (fun w => match lookupUnit w.cls w.field readerUnits with | some (some _) => true | _ => false)).length := by
  decide +kernel

/-- the nine pixel rows and the unit each is converted to are the documented ones
(momenta in 1/angstrom, energy transfer in meV, indices without unit, counts, counts²) -/
theorem pix_rows_declared_units :
    pixRows = [([117,49] /-u1-/, some [49,47,97,110,103,115,116,114,111,109] /-1/angstrom-/), ([117,50] /-u2-/, some [49,47,97,110,103,115,116,114,111,109] /-1/angstrom-/), ([117,51] /-u3-/, some [49,47,97,110,103,115,116,114,111,109] /-1/angstrom-/),
      ([117,52] /-u4-/, some [109,101,86] /-meV-/), ([105,114,117,110] /-irun-/, none), ([105,100,101,116] /-idet-/, none), ([105,101,110] /-ien-/, none),
      ([115,105,103,110,97,108] /-signal-/, some [99,111,117,110,116] /-count-/), ([101,114,114,111,114] /-error-/, some [99,111,117,110,116,42,42,50] /-count**2-/)] := by
  decide +kernel

/-- run energies are written in meV, goniometer angles in radians (and the flag that tells a reader
how to interpret the angles is written `False`, see `Experiment.fields`) -/
theorem energies_meV :
    lookupUnit [73,88,95,101,120,112,101,114,105,109,101,110,116,47,97,114,114,97,121,95,100,97,116] /-IX_experiment/array_dat-/ [101,102,105,120] /-efix-/ writerUnits = some (some [109,101,86] /-meV-/) ∧
    lookupUnit [73,88,95,101,120,112,101,114,105,109,101,110,116,47,97,114,114,97,121,95,100,97,116] /-IX_experiment/array_dat-/ [101,110] /-en-/ writerUnits = some (some [109,101,86] /-meV-/) := by
  decide +kernel

theorem angles_radians :
    ∀ f ∈ [[112,115,105] /-psi-/, [111,109,101,103,97] /-omega-/, [100,112,115,105] /-dpsi-/, [103,108] /-gl-/, [103,115] /-gs-/],
      lookupUnit [73,88,95,101,120,112,101,114,105,109,101,110,116,47,97,114,114,97,121,95,100,97,116] /-IX_experiment/array_dat-/ f writerUnits = some (some [114,97,100] /-rad-/) := by
  decide +kernel

/-! ## The file holds what was supplied -/

/-- MASTER THEOREM (pure codec; payload floats are opaque bit patterns): for every builder program
whose arguments fit the format, the strict independent decoder returns exactly: the header, the
blocks in canonical order, every regular block as the IR object built from the supplied model
(`Block.toObj`: main header, experiments, pixel metadata, containers, histogram metadata), a zero
histogram of the declared shape, and all pixels in order, each value passed once through `round`. -/
theorem decode_encode_content (lt : Lt) (o : Order) (full fp fn title : Str) (ops : List Op)
    (st : Stamps) (round : Nat → Nat) (chunk : Nat)
    (hs : StrOk full ∧ StrOk fp ∧ StrOk fn ∧ StrOk title ∧ StrOk st.main ∧ StrOk st.dnd)
    (hops : ∀ op ∈ ops, op.Ok) (hc : 1 ≤ chunk) (hr : ∀ v, round v < 2 ^ 32)
    (hsize : (create blockOrder (run lt (Builder.init o full fp fn title) ops) st round chunk).length < 2 ^ 32) :
    let b := run lt (Builder.init o full fp fn title) ops
    decodeFile (create blockOrder b st round chunk) =
      .ok ⟨b.order, ⟨sHorace, fFour, 1, b.nDims⟩, (batBody b.order (finalDescs blockOrder b st round chunk)).length,
        (finalDescs blockOrder b st round chunk).map toDDesc, contentsOf blockOrder b st round⟩ := by
  obtain ⟨h1, h2, h3, h4, h5, h6⟩ := hs
  have hinv := inv_run lt _ ops (inv_init o full fp fn title)
  have hst := stateOk_run lt _ st ops (stateOk_init o full fp fn title st h1 h2 h3 h4 h5 h6) hops
  have hord : OrderOk blockOrder := ⟨by decide +kernel, by decide +kernel⟩
  exact decode_create _ _ st round chunk (createOk_of_stateOk _ hord _ st round chunk hinv hst hc hr hsize)

/-- the hypotheses are satisfiable by a non-trivial program (pixels, two runs, a sample) and the
statement computes: decoding the model's file gives back the pixel payload -/
example :
    let e : Experiment := ⟨[114,46,110,120,115,112,101] /-r.nxspe-/, [47,100] /-/d-/, 4, [1], 1, 1, 2, [2, 3], 4, [5, 6, 7], [8, 9, 10], 11, 12, 13, 14⟩
    let rows : List PixRow := (List.range 9).map (fun i => ⟨0, 0, [10 * i, 10 * i + 1, 10 * i + 2]⟩)
    let ops := [Op.addDefaultSample ⟨[86] /-V-/, [1, 2, 3], [4, 5, 6]⟩, Op.addPixelData rows [e, e] 4]
    (match decodeFile (create blockOrder (run (fun a b => decide (a < b)) (Builder.init .big [105,110,95,109,101,109,111,114,121] /-in_memory-/ [] [] [116] /-t-/) ops)
        ⟨[50,48,50,54,45,48,57,45,51,48,84,49,53,58,51,54,58,48,53,43,48,48,58,48,48] /-2026-09-30T15:36:05+00:00-/, []⟩ id 2) with
      | .ok f => (f.blocks.getLast? matches some (.pix 9 3 [0, 10, 20, 30, 40, 50, 60, 70, 80, 1, 11, 21, 31, 41, 51,
          61, 71, 81, 2, 12, 22, 32, 42, 52, 62, 72, 82]))
      | .error _ => false) = true := by
  decide +kernel

/-- all N pixels, in order, nine (or however many) rows each: the bytes of the pixel block are the
row count, the pixel count, and then for pixel 0, 1, …, N-1 the value of every row — for every
chunk size ≥ 1 -/
theorem pix_all_pixels_in_order (o : Order) (round : Nat → Nat) (rows : List PixRow) (chunk : Nat)
    (hc : 1 ≤ chunk) :
    pixWrite o round rows chunk =
      u32 o rows.length ++ (u64 o (nPixels rows) ++
        ((List.range (nPixels rows)).flatMap
          (fun k => rows.map (fun r => round (r.vals.getD k 0)))).flatMap (f32 o)) :=
  pixWrite_eq o round rows chunk hc

/-- the result does not depend on the chunk size -/
theorem pix_chunk_independent (o : Order) (round : Nat → Nat) (rows : List PixRow) (c1 c2 : Nat)
    (h1 : 1 ≤ c1) (h2 : 1 ≤ c2) : pixWrite o round rows c1 = pixWrite o round rows c2 := by
  rw [pixWrite_eq o round rows c1 h1, pixWrite_eq o round rows c2 h2]

/-- rounded ONCE (standard model of rounding): if the unit conversion returns `x·s·(1+δ₁)` and
the float32 store returns `y·(1+δ₂)`, the stored value is within `2^-24 + 2^-52 (+ product)` of `x·s` -/
theorem pix_rounded_once (x s δ₁ δ₂ : ℝ) (h1 : |δ₁| ≤ 2⁻¹ ^ 52) (h2 : |δ₂| ≤ 2⁻¹ ^ 24) :
    |x * s * (1 + δ₁) * (1 + δ₂) - x * s| ≤ |x * s| * (2⁻¹ ^ 24 + 2⁻¹ ^ 52 + 2⁻¹ ^ 76) := by
  have e : x * s * (1 + δ₁) * (1 + δ₂) - x * s = (x * s) * (δ₁ + δ₂ + δ₁ * δ₂) := by ring
  rw [e, abs_mul]
  apply mul_le_mul_of_nonneg_left _ (abs_nonneg _)
  have t1 : |δ₁ + δ₂ + δ₁ * δ₂| ≤ |δ₁| + |δ₂| + |δ₁| * |δ₂| := by
    calc |δ₁ + δ₂ + δ₁ * δ₂| ≤ |δ₁ + δ₂| + |δ₁ * δ₂| := abs_add_le _ _
      _ ≤ |δ₁| + |δ₂| + |δ₁| * |δ₂| := by rw [abs_mul]; linarith [abs_add_le δ₁ δ₂]
  have t2 : |δ₁| * |δ₂| ≤ 2⁻¹ ^ 52 * 2⁻¹ ^ 24 := mul_le_mul h1 h2 (abs_nonneg _) (by positivity)
  have t3 : (2⁻¹ : ℝ) ^ 52 * 2⁻¹ ^ 24 = 2⁻¹ ^ 76 := by rw [← pow_add]
  linarith

/-! ### Pixel metadata -/

/-- `data_range` is the per-row minimum and maximum: for a non-empty row and any strict weak order
`lt` (IEEE `<` on non-NaN doubles), the stored pair consists of members of the row that bound it -/
theorem data_range_minmax (lt : Lt) (r : PixRow) (x : Nat) (xs : List Nat) (hv : r.vals = x :: xs)
    (trans : ∀ a b c, lt a b = true → lt b c = true → lt a c = true)
    (negTrans : ∀ a b c, lt a b = false → lt b c = false → lt a c = false)
    (irrefl : ∀ a, lt a a = false) :
    (rowRange lt r).1 ∈ r.vals ∧ (rowRange lt r).2 ∈ r.vals ∧
    (∀ v ∈ r.vals, lt v (rowRange lt r).1 = false) ∧ (∀ v ∈ r.vals, lt (rowRange lt r).2 v = false) := by
  have hmin : ∀ (acc : Nat) (l : List Nat), ∀ v ∈ acc :: l, lt v (minBy lt acc l) = false := by
    intro acc l
    induction l generalizing acc with
    | nil => intro v hv; simp at hv; subst hv; exact irrefl _
    | cons y ys ih =>
      intro v hv
      unfold minBy
      have ih' := ih (if lt y acc then y else acc)
      by_cases hy : lt y acc = true
      · simp only [hy, if_true] at ih' ⊢
        rcases List.mem_cons.mp hv with rfl | hv'
        · -- v = acc: lt y acc, ¬ lt y m  ⇒ ¬ lt acc m
          have h1 := ih' y (by simp)
          cases hc : lt v (minBy lt y ys) with
          | false => rfl
          | true => rw [trans y v _ hy hc] at h1; cases h1
        · exact ih' v (by simpa using hv')
      · have hy' : lt y acc = false := by simpa using hy
        simp only [hy', Bool.false_eq_true, if_false] at ih' ⊢
        rcases List.mem_cons.mp hv with rfl | hv'
        · exact ih' v (by simp)
        · rcases List.mem_cons.mp hv' with rfl | hv''
          · exact negTrans v acc _ hy' (ih' acc (by simp))
          · exact ih' v (by simp [hv''])
  have hmax : ∀ (acc : Nat) (l : List Nat), ∀ v ∈ acc :: l, lt (maxBy lt acc l) v = false := by
    intro acc l
    induction l generalizing acc with
    | nil => intro v hv; simp at hv; subst hv; exact irrefl _
    | cons y ys ih =>
      intro v hv
      unfold maxBy
      have ih' := ih (if lt acc y then y else acc)
      by_cases hy : lt acc y = true
      · simp only [hy, if_true] at ih' ⊢
        rcases List.mem_cons.mp hv with rfl | hv'
        · have h1 := ih' y (by simp)
          cases hc : lt (maxBy lt y ys) v with
          | false => rfl
          | true => rw [trans _ v y hc hy] at h1; cases h1
        · exact ih' v (by simpa using hv')
      · have hy' : lt acc y = false := by simpa using hy
        simp only [hy', Bool.false_eq_true, if_false] at ih' ⊢
        rcases List.mem_cons.mp hv with rfl | hv'
        · exact ih' v (by simp)
        · rcases List.mem_cons.mp hv' with rfl | hv''
          · exact negTrans _ acc v (ih' acc (by simp)) hy'
          · exact ih' v (by simp [hv''])
  unfold rowRange
  simp only [hv]
  exact ⟨minBy_mem lt x xs, maxBy_mem lt x xs, hmin x xs, hmax x xs⟩

example : rowRange (fun a b => decide (a < b)) ⟨0, 0, [5, 3, 9, 4]⟩ = (3, 9) := by decide

/-- the pixel metadata written by `add_pixel_data` holds N and the per-row range -/
theorem pix_metadata_content (lt : Lt) (b : Builder) (rows : List PixRow) (exps : List Experiment) (nd : Nat) :
    dictGet nPixMeta (step lt b (.addPixelData rows exps nd)).dataBlocks =
      some (.pixMeta ⟨b.fullFilename, nPixels rows, rows.map (rowRange lt)⟩) := by
  have key : ∀ (l : List (BlockName × Block)) (v : Block) (n : Nat), (∀ h, v ≠ .mainHeader h) →
      dictGet nPixMeta (setNfiles n (dictSet nPixMeta v l)) = some v := by
    intro l v n hv
    induction l with
    | nil =>
      cases v <;> first | (exfalso; exact hv _ rfl) | simp [dictSet, setNfiles, dictGet]
    | cons kv rest ih =>
      obtain ⟨k, blk⟩ := kv
      by_cases hk : k = nPixMeta
      · subst hk
        cases v <;> first | (exfalso; exact hv _ rfl) | simp [dictSet, setNfiles, dictGet]
      · cases blk <;> simp [dictSet, setNfiles, dictGet, hk, ih]
  exact key _ _ _ (by intro h; simp)

/-- `data_range` has one (min, max) pair per SELECTED row: extents `[2, rows.length]` (read back as
`rows.length × 2`), for any selection of rows — nine by default, fewer or more with `rows=` -/
theorem data_range_shape (lt : Lt) (full : Str) (rows : List PixRow) :
    ∃ vals, lookupField [100,97,116,97,95,114,97,110,103,101] /-data_range-/
        ((PixMeta.mk full (nPixels rows) (rows.map (rowRange lt))).fields.map (·.1))
        ((PixMeta.mk full (nPixels rows) (rows.map (rowRange lt))).fields.map (·.2)) =
      some (.f64s [2, rows.length] vals) ∧ vals.length = 2 * rows.length := by
  refine ⟨(rows.map (rowRange lt)).flatMap (fun p => [p.1, p.2]), ?_, ?_⟩
  · have : (rows.map (rowRange lt)).length = rows.length := by simp
    rw [← this]; rfl
  · rw [pairs_flat_length]; simp

/-- and it is an array of DOUBLES whatever the dtype of the rows (current code, commit 88e1902: min
and max are converted with `dtype='float64'`): type tag 3 and eight bytes per value -/
theorem data_range_is_float64 (o : Order) (shape vals : List Nat) :
    writeObj o (.f64s shape vals) = 3 :: (shapeBytes o shape ++ vals.flatMap (f64 o)) ∧
    (writeObj o (.f64s shape vals)).length = 1 + (1 + 4 * shape.length) + 8 * vals.length := by
  refine ⟨by simp [writeObj], ?_⟩
  simp only [writeObj, List.length_cons, List.length_append, shapeBytes_length]
  rw [length_flatMap_const _ _ 8 (fun v => f64_length o v)]
  omega

example : (writeObj .little (.f64s [2, 11] (List.replicate 22 0))).length = 1 + 9 + 8 * 22 := by decide +kernel

/-! ### Experiments -/

/-- run ids are 1-based: the stored double denotes exactly `run_id + 1` -/
theorem run_ids_one_based (e : Experiment) (h : e.runId + 1 < 2 ^ 53) :
    lookupField [114,117,110,95,105,100] /-run_id-/ (e.fields.map (·.1)) (e.fields.map (·.2)) = some (f64Field (natToF64 (e.runId + 1))) ∧
    f64ToNat? (natToF64 (e.runId + 1)) = some (e.runId + 1) :=
  ⟨rfl, f64ToNat_natToF64 _ h⟩

/-- one experiment record per run, in the order supplied -/
theorem one_record_per_run (es : List Experiment) :
    lookupField [97,114,114,97,121,95,100,97,116] /-array_dat-/ ((multiExperimentFields es).map (·.1)) ((multiExperimentFields es).map (·.2)) =
      some (.structs [es.length] es.length (match es with | [] => [] | e :: _ => e.fields.map (·.1))
        (es.flatMap (fun e => e.fields.map (·.2)))) := rfl

/-- the angle fields hold the supplied radian values verbatim and the file says they are not degrees -/
theorem angles_stored_verbatim (e : Experiment) :
    lookupField [112,115,105] /-psi-/ (e.fields.map (·.1)) (e.fields.map (·.2)) = some (f64Field e.psi) ∧
    lookupField [97,110,103,117,108,97,114,95,105,115,95,100,101,103,114,101,101] /-angular_is_degree-/ (e.fields.map (·.1)) (e.fields.map (·.2)) = some (boolField false) :=
  ⟨rfl, rfl⟩

/-! ### Shared instrument / sample -/

/-- the container broadcast to `n` runs stores ONE object and `n` indices that all denote 1 -/
theorem shared_object (baseclass : Str) (obj : Obj) (n : Nat) :
    lookupField [117,110,105,113,117,101,95,111,98,106,101,99,116,115] /-unique_objects-/ ((uniqueObjFields baseclass [obj] n).map (·.1))
      ((uniqueObjFields baseclass [obj] n).map (·.2)) = some (.cell [1] [obj]) ∧
    lookupField [105,100,120] /-idx-/ ((uniqueObjFields baseclass [obj] n).map (·.1))
      ((uniqueObjFields baseclass [obj] n).map (·.2)) = some (.f64s [n] (List.replicate n fOne)) ∧
    f64ToNat? fOne = some 1 :=
  ⟨rfl, rfl, by decide +kernel⟩

/-- and the number of indices is the number of runs of the last `add_pixel_data` -/
theorem nfiles_is_run_count (lt : Lt) (b : Builder) (rows : List PixRow) (exps : List Experiment) (nd : Nat)
    (hmain : ∃ h rest, b.dataBlocks = (nMainHeader, .mainHeader h) :: rest) :
    nfilesOf (step lt b (.addPixelData rows exps nd)).dataBlocks = exps.length := by
  obtain ⟨h, rest, hb⟩ := hmain
  have e1 : nMainHeader ≠ nExpdata := by decide
  have e2 : nMainHeader ≠ nPixMeta := by decide
  simp [step, hb, dictSet, e1, e2, setNfiles, nfilesOf]

/-! ## Reading back with the package's own reader

`rdObj` transcribes `read_object_array`, `parse*` the `_parse_*` functions of `_sqw.py`
(Model/Sqw/Reader.lean); the reader has no recursion bound, so the statements hold for every
sufficient fuel `f`. Unit labels are the subject of `reader_units_same_dimension_partial` above. -/

/-- object layer: for every block the builder writes, `read_object_array` returns the very IR object
that was written and stops exactly at the end of its bytes -/
theorem reader_object_roundtrip (b : Builder) (st : Stamps) (blk : Block) (hok : blk.Ok b st)
    (hr : blk.ReaderOk) (f : Nat) (hf : depthR (blk.toObj b st) ≤ f) (rest : Bytes) :
    rdObj b.order f (writeObj b.order (blk.toObj b st) ++ rest) = some (blk.toObj b st, rest) :=
  rdObj_writeObj b.order _ f rest (wf_block b st blk hok) (simple_block b st blk hr) hf

/-- main header: same file name, title, number of runs and time stamp -/
theorem reader_roundtrip_main_header (h : MainHeader) (stamp : Str) (hn : h.nfiles < 2 ^ 53) :
    typeId ((h.fields stamp).map (·.1)) ((h.fields stamp).map (·.2)) = some ([109,97,105,110,95,104,101,97,100,101,114,95,99,108] /-main_header_cl-/, fTwo) ∧
    parseMainHeader ((h.fields stamp).map (·.1)) ((h.fields stamp).map (·.2)) =
      some ⟨h.fullFilename, h.title, h.nfiles, stamp⟩ := parse_mainHeader h stamp hn

/-- pixel metadata: same N, and `data_range` comes back as an (rows × 2) array of the same numbers -/
theorem reader_roundtrip_pix_metadata (m : PixMeta) (hn : m.npix < 2 ^ 53) :
    typeId (m.fields.map (·.1)) (m.fields.map (·.2)) = some ([112,105,120,95,109,101,116,97,100,97,116,97] /-pix_metadata-/, fOne) ∧
    parsePixMeta (m.fields.map (·.1)) (m.fields.map (·.2)) =
      some ⟨m.fullFilename, m.npix, [m.dataRange.length, 2], m.dataRange.flatMap (fun p => [p.1, p.2])⟩ :=
  parse_pixMeta m hn

/-- experiments: one record per run in order; 0-based run id restored; `efix` scalar iff one value;
`en` 1-d, or 2-d (detector, energy_transfer) when there is more than one detector row; angles
flagged as radians; every number bit-identical -/
theorem reader_roundtrip_experiments (es : List Experiment) (hne : es ≠ []) (h : ∀ e ∈ es, e.Readable) :
    parseExperiments ((multiExperimentFields es).map (·.1)) ((multiExperimentFields es).map (·.2)) =
      some (es.map readBack) := parse_experiments es hne h

example : (⟨[], [], 4, [1], 1, 3, 2, [1, 2, 3, 4, 5, 6], 0, [1, 2, 3], [4, 5, 6], 0, 0, 0, 0⟩ : Experiment).Readable ∧
    (readBack ⟨[], [], 4, [1], 1, 3, 2, [1, 2, 3, 4, 5, 6], 0, [1, 2, 3], [4, 5, 6], 0, 0, 0, 0⟩).enShape = [3, 2] := by
  refine ⟨⟨by decide, by decide, by decide, by decide, by decide, by decide⟩, by decide⟩

/-- sample / instrument containers: `n` references to the one stored object, which parses to the
supplied sample / instrument -/
theorem reader_roundtrip_containers (g bc : Str) (obj : Obj) (n : Nat) (s : Sample) (i : Instrument)
    (h1 : s.alatt.length = 3) (h2 : s.angdeg.length = 3) :
    parseContainer ((uniqueRefFields g bc [obj] n).map (·.1)) ((uniqueRefFields g bc [obj] n).map (·.2)) =
      some ([obj], List.replicate n 0) ∧
    parseSample (s.fields.map (·.1)) (s.fields.map (·.2)) = some ⟨s.name, s.alatt, s.angdeg⟩ ∧
    parseInstrument (i.fields.map (·.1)) (i.fields.map (·.2)) =
      some ⟨i.name, i.source.name, i.source.targetName, i.source.frequency⟩ :=
  ⟨parse_container g bc obj n, (parse_sample s h1 h2).2, (parse_instrument i).2⟩

/-- histogram metadata: the reader returns the supplied axes (title, labels, scales, ranges, bin
counts, flags, zero-based display axes, offsets, file name/path), projection (lattice, offset, title,
labels, u, v, w or none, flags) and time stamp -/
theorem reader_roundtrip_histogram_metadata (d : DndMeta) (fn fp stamp : Str) (ha : d.axes.Readable)
    (hp : d.proj.Readable) :
    typeId ((d.fields fn fp stamp).map (·.1)) ((d.fields fn fp stamp).map (·.2)) = some ([100,110,100,95,109,101,116,97,100,97,116,97] /-dnd_metadata-/, fOne) ∧
    parseDnd ((d.fields fn fp stamp).map (·.1)) ((d.fields fn fp stamp).map (·.2)) =
      some ⟨⟨d.axes.title, d.axes.label, d.axes.imgScales, d.axes.imgRange, d.axes.nBins, d.axes.singleBin,
          d.axes.dax, d.axes.offset, d.axes.changesAspectRatio, fn, fp⟩,
        ⟨d.proj.alatt, d.proj.angdeg, d.proj.offset, d.proj.title, d.proj.label, d.proj.u, d.proj.v, d.proj.w,
          d.proj.nonOrthogonal⟩, stamp⟩ := parse_dnd d fn fp stamp ha hp

end ScnVerif.Props.C13
