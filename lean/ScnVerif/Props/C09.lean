import ScnVerif.Lemmas.Heap
import ScnVerif.Gen.Kernels
/-!
# C09 — computations never modify their arguments; results do not depend on call history

(a) `analysis_sound`: the may-write analysis of `Model/Heap.lean` is sound for the heap semantics, for every
program, configuration, buffer contents, write effect and alias choice. `kernels_checked` re-runs the analysis
(by kernel evaluation) over **all** `2^bits` aliasing configurations of every function the translator
extracted from the working tree into `Gen/Kernels.lean`; together: no translated public function writes a
caller-owned buffer in any aliasing configuration, and private helpers write only the parameters recorded
as their summary (which is what their callers were translated with). Module-level mutable state is a
pseudo-argument of every function that touches it (`kernels_no_global_write`).

(b) `handle_independent`: in the state machine of `Model/Factories.lean` with copying hand-out, after *any*
sequence of lookups, factory calls, combinators and caller-side mutations, a fresh lookup / factory call
still yields the pristine value.
-/
namespace ScnVerif.Props.C09
open ScnVerif ScnVerif.Heap ScnVerif.Lemmas.Heap

/-- **analysis_sound**: an argument that the analysis does not list as possibly written is left
unchanged by every run of the program — whatever the contents, the effect of writes, and the buffer a
`view` picks among its candidates. -/
theorem analysis_sound {β : Type} (S : Sem β) (c : Nat) (p : Program) (vals : List β) (j : Nat)
    (hj : j < vals.length) (hw : j ∉ writtenArgs vals.length p c) :
    (run S c p (initState vals)).heap[j]? = vals[j]? :=
  (run_inv S c p _ _ _ (init_inv vals)).unchanged j hj hw

/-- corollary in the form of the design: `writesArg = false` ⇒ every argument-owned buffer is unchanged -/
theorem analysis_sound_all {β : Type} (S : Sem β) (c : Nat) (p : Program) (vals : List β)
    (h : writesArg vals.length p c = false) :
    ∀ j, j < vals.length → (run S c p (initState vals)).heap[j]? = vals[j]? := by
  intro j hj
  apply analysis_sound S c p vals j hj
  simp only [writesArg, Bool.not_eq_false', List.isEmpty_iff] at h
  simp [h]

/-- **return_alias_sound**: if the returned variable refers to a caller-owned buffer at the end of a run,
that argument is among the ones the analysis reports (this is what call sites rely on). -/
theorem return_alias_sound {β : Type} (S : Sem β) (c : Nat) (p : Program) (vals : List β) (r : Var) (b : Nat)
    (hb : (run S c p (initState vals)).lookup r = some b) (hlt : b < vals.length) :
    b ∈ returnAliases vals.length p c r :=
  (run_inv S c p _ _ _ (init_inv vals)).aliases r b hb hlt

/-- **kernels_checked** (`K_no_arg_write` for every translated function at once): the decidable check holds
for every kernel in the regenerated table — all `2^bits` configurations each. -/
theorem kernels_checked : Gen.Kernels.all.all Kernel.check = true := by decide +kernel

/-- **kernels_no_arg_write**: for every translated function, every aliasing configuration `c` (not only those
below `2^bits`), every argument outside the function's declared summary is unchanged by every run. -/
theorem kernels_no_arg_write {β : Type} (k : Kernel) (hk : k ∈ Gen.Kernels.all) (S : Sem β) (c : Nat)
    (vals : List β) (hn : vals.length = k.nargs) (j : Nat) (hj : j < k.nargs) (hja : j ∉ k.allowed) :
    (run S c k.ir (initState vals)).heap[j]? = vals[j]? := by
  have hc := List.all_eq_true.mp kernels_checked k hk
  apply analysis_sound S c k.ir vals j (by omega)
  intro hmem
  rw [hn] at hmem
  exact hja (check_sound k hc c j hmem)

/-- **public_kernels_no_arg_write**: a translated *public* function leaves every argument unchanged, in every
aliasing configuration. -/
theorem public_kernels_no_arg_write {β : Type} (k : Kernel) (hk : k ∈ Gen.Kernels.all) (hp : k.isPublic = true)
    (S : Sem β) (c : Nat) (vals : List β) (hn : vals.length = k.nargs) :
    ∀ j, j < k.nargs → (run S c k.ir (initState vals)).heap[j]? = vals[j]? := by
  intro j hj
  have hc := List.all_eq_true.mp kernels_checked k hk
  have := check_public k hc hp
  exact kernels_no_arg_write k hk S c vals hn j hj (by simp [this])

/-- **kernels_no_global_write**: module-level mutable objects (dicts / lists / sets of the module, `global`
variables) enter a translated function as pseudo-arguments `nreal ≤ j < nargs`; no translated function — public or
helper — writes one, in any configuration: nothing is cached or accumulated between calls. -/
theorem kernels_no_global_write {β : Type} (k : Kernel) (hk : k ∈ Gen.Kernels.all) (S : Sem β) (c : Nat)
    (vals : List β) (hn : vals.length = k.nargs) (j : Nat) (hj1 : k.nreal ≤ j) (hj2 : j < k.nargs) :
    (run S c k.ir (initState vals)).heap[j]? = vals[j]? := by
  have hc := List.all_eq_true.mp kernels_checked k hk
  apply kernels_no_arg_write k hk S c vals hn j hj2
  intro hmem
  have := check_globals k hc j hmem
  omega

/-- **public_kernels_return_no_module_state**: a translated public function that returns a value of its own (not a
container it created) never returns an object of module-level state: if the returned variable refers to a
caller-visible buffer at all, that buffer is one of the real arguments. -/
theorem public_kernels_return_no_module_state {β : Type} (k : Kernel) (hk : k ∈ Gen.Kernels.all)
    (hp : k.isPublic = true) (hcont : k.retContainer = false) (S : Sem β) (c : Nat) (vals : List β)
    (hn : vals.length = k.nargs) (r : Var) (al : List Nat) (hr : (r, al) ∈ k.rets) (b : Nat)
    (hb : (run S c k.ir (initState vals)).lookup r = some b) (hlt : b < k.nargs) : b < k.nreal := by
  have hc := List.all_eq_true.mp kernels_checked k hk
  have h1 := return_alias_sound S c k.ir vals r b hb (by omega)
  rw [hn] at h1
  exact check_ret_globals k hc hp hcont (r, al) hr b (check_sound_ret k hc r al hr c b h1)

/-- non-vacuity: the table is not empty and contains public functions with aliasing conversions -/
example : ∃ k ∈ Gen.Kernels.all, k.isPublic = true ∧ 0 < k.bits := by decide +kernel

/-- non-vacuity of the analysis: the in-place product on an aliasing conversion IS reported
(`d = distance.to(dtype, copy=False); d *= d` writes argument 0 exactly when the configuration bit is set) -/
example : writtenArgs 1 [.conv 1 0 0, .write 1] 1 = [0] ∧ writtenArgs 1 [.conv 1 0 0, .write 1] 0 = [] := by
  decide

/-- … and the semantics agrees: with the bit set the caller's buffer does change -/
example : (run (β := Nat) ⟨0, (· + 1), fun _ => 0⟩ 1 [.conv 1 0 0, .write 1] (initState [7])).heap = [8] := by
  decide

/-! ## (b) factories and caches -/
open ScnVerif.Factories ScnVerif.Lemmas.Factories in
/-- **tables_invariant**: with copying hand-out, whatever callers do, every module table and every cache entry
still holds its pristine value, and no handle refers to a module-owned object. -/
theorem tables_invariant {β : Type} (S : Factories.Sem β) (ops : List Op) :
    let s := Factories.run S false ops Factories.empty
    (∀ k r, (k, r) ∈ s.cache → s.store[r]? = some (S.pristine k)) ∧
    (∀ k r, (k, r) ∈ s.tables → s.store[r]? = some (S.pristine k)) ∧
    (∀ h ∈ s.handles, (∀ k r, (k, r) ∈ s.cache → r ≠ h) ∧ (∀ k r, (k, r) ∈ s.tables → r ≠ h)) := by
  have h := Lemmas.Factories.run_inv S ops _ (empty_inv S)
  exact ⟨h.cacheOk, h.tablesOk, fun hd hm => ⟨(h.handlesOk hd hm).2.1, (h.handlesOk hd hm).2.2⟩⟩

open ScnVerif.Factories ScnVerif.Lemmas.Factories in
/-- **handle_independent**: after any sequence of operations (lookups, factory calls, combinators, arbitrary
mutations of anything handed out) a later lookup / factory result equals the pristine value. -/
theorem handle_independent {β : Type} (S : Factories.Sem β) (ops : List Op) (k : Nat) :
    lookupValue S (Factories.run S false ops Factories.empty) k = S.pristine k ∧
    factoryValue S (Factories.run S false ops Factories.empty) k = S.pristine k := by
  have h := Lemmas.Factories.run_inv S ops _ (empty_inv S)
  constructor
  · unfold lookupValue
    split
    · next r hr =>
      have := h.cacheOk k r (find_mem hr)
      simp [List.getD, this]
    · rfl
  · unfold factoryValue
    split
    · next r hr =>
      have := h.tablesOk k r (find_mem hr)
      simp [List.getD, this]
    · rfl

/-- the model can express the defect: with sharing hand-out (`ScatteringParams.for_isotope` before its fix),
lookup – mutate – lookup returns the mutated value -/
example : Factories.lookupValue (β := Nat) ⟨fun k => 10 * k, (· + 1)⟩
    (Factories.run ⟨fun k => 10 * k, (· + 1)⟩ true [.lookup 3, .mutate 0] Factories.empty) 3 = 31 := by
  decide

/-- … and with copying hand-out it does not -/
example : Factories.lookupValue (β := Nat) ⟨fun k => 10 * k, (· + 1)⟩
    (Factories.run ⟨fun k => 10 * k, (· + 1)⟩ false [.lookup 3, .mutate 0] Factories.empty) 3 = 30 := by
  decide

end ScnVerif.Props.C09
