import ScnVerif.Model.Beamline
import ScnVerif.Lemmas.Beamline
import ScnVerif.Lemmas.BeamlineOrth
import ScnVerif.Lemmas.BeamlineEuclid
/-!
# C03 — straight-beamline geometry equals its Euclidean definition; 2θ is stable

The model (`Model/Beamline.lean`) is a transcription of the kernels in
`src/scippneutron/conversion/beamline.py`; the same definitions run at `Float` in the driver.
Here they are instantiated at `ℝ`.  `V3R.angle a b = arccos(⟪a,b⟫/(‖a‖‖b‖))` is the Euclidean
angle; `V3R.dist` the Euclidean distance.

The floating-point clause of the property (1e-15 rad absolute accuracy near degenerate angles) is
not a theorem: it is validated by the oracle of `harness/props/c03.py` on dyadic-rational beams
whose true angle is known exactly.
-/
namespace ScnVerif.Props.C03
open ScnVerif ScnVerif.Beamline ScnVerif.V3R Real

/-- Euclidean distance of two points -/
noncomputable def dist (p q : V3 ℝ) : ℝ := √((p.x - q.x) ^ 2 + (p.y - q.y) ^ 2 + (p.z - q.z) ^ 2)

/-! ## Euclidean definitions -/

theorem incident_beam_def (source sample : V3 ℝ) :
    straightIncidentBeam source sample
      = ⟨sample.x - source.x, sample.y - source.y, sample.z - source.z⟩ := rfl

theorem scattered_beam_def (position sample : V3 ℝ) :
    straightScatteredBeam position sample
      = ⟨position.x - sample.x, position.y - sample.y, position.z - sample.z⟩ := rfl

theorem L1_def (b : V3 ℝ) : l1 b = √(b.x ^ 2 + b.y ^ 2 + b.z ^ 2) := by
  simp only [l1, V3.norm, V3.dot, trans_sqrt_real]; congr 1; ring

theorem L2_def (b : V3 ℝ) : l2 b = √(b.x ^ 2 + b.y ^ 2 + b.z ^ 2) := L1_def b

theorem norm_sub_eq_dist (p q : V3 ℝ) : V3.norm (V3.sub p q) = dist p q := by
  simp only [dist, V3.norm, V3.dot, V3.sub, trans_sqrt_real]; congr 1; ring

/-- `L1`, `L2`, `Ltotal` computed by the scatter graph from the three positions are the
distances source→sample, sample→detector and their sum -/
theorem scatter_lengths_def (source sample position : V3 ℝ) :
    (scatterGraph source sample position).L1 = dist sample source ∧
    (scatterGraph source sample position).L2 = dist position sample ∧
    (scatterGraph source sample position).Ltotal = dist sample source + dist position sample := by
  simp only [scatterGraph, l1, l2, totalBeamLength, straightIncidentBeam, straightScatteredBeam,
    norm_sub_eq_dist, and_self]

theorem Ltotal_noscatter_def (source position : V3 ℝ) :
    totalStraightNoScatter source position = dist position source := by
  simp only [totalStraightNoScatter, norm_sub_eq_dist]

example : (scatterGraph (⟨0, 0, -3⟩ : V3 ℝ) ⟨0, 0, 0⟩ ⟨0, 4, 0⟩).Ltotal = 3 + 4 := by
  rw [(scatter_lengths_def _ _ _).2.2]
  simp only [dist]
  rw [show ((0:ℝ) - 0) ^ 2 + (0 - 0) ^ 2 + (0 - -3) ^ 2 = 3 ^ 2 by norm_num,
    show ((0:ℝ) - 0) ^ 2 + (4 - 0) ^ 2 + (0 - 0) ^ 2 = 4 ^ 2 by norm_num,
    Real.sqrt_sq (by norm_num), Real.sqrt_sq (by norm_num)]

/-! ## The scattering angle is the Euclidean angle (Kahan's formula is exact over ℝ) -/

/-- `two_theta` equals `arccos(⟪b1,b2⟫/(‖b1‖‖b2‖))` for all non-zero beams -/
theorem two_theta_eq_angle (b1 b2 : V3 ℝ) (h1 : b1 ≠ zero) (h2 : b2 ≠ zero) :
    twoTheta b1 b2 = angle b1 b2 := by
  have hc := cosAngle_mem h1 h2
  have hu := dot_normalize_self h1
  have hv := dot_normalize_self h2
  have huv := dot_normalize h1 h2
  have hvu : V3.dot (V3.sdiv b2 (V3.norm b2)) (V3.sdiv b1 (V3.norm b1)) = cosAngle b1 b2 := by
    rw [dot_comm]; exact huv
  simp only [twoTheta, l1, l2, trans_atan2_real, angle]
  rw [norm_def (V3.sub _ _), norm_def (V3.add _ _), dot_sub_sub, dot_add_add, hu, hv, huv, hvu]
  rw [show (1:ℝ) + 1 - 2 * cosAngle b1 b2 = 2 - 2 * cosAngle b1 b2 by ring,
      show (1:ℝ) + 1 + 2 * cosAngle b1 b2 = 2 + 2 * cosAngle b1 b2 by ring]
  rw [mul_comm]
  exact kahan_core _ hc.1 hc.2

/-- hence `cos(2θ)` is the normalised dot product (the documented definition) -/
theorem cos_two_theta (b1 b2 : V3 ℝ) (h1 : b1 ≠ zero) (h2 : b2 ≠ zero) :
    cos (twoTheta b1 b2) = V3.dot b1 b2 / (V3.norm b1 * V3.norm b2) := by
  rw [two_theta_eq_angle b1 b2 h1 h2]
  have hc := cosAngle_mem h1 h2
  exact cos_arccos hc.1 hc.2

/-- range: `0 ≤ 2θ ≤ π` (for every input of the real model, degenerate ones included) -/
theorem two_theta_mem_Icc (b1 b2 : V3 ℝ) : 0 ≤ twoTheta b1 b2 ∧ twoTheta b1 b2 ≤ π := by
  simp only [twoTheta, trans_atan2_real]
  set x := V3.norm (V3.add (V3.sdiv b2 (l2 b2)) (V3.sdiv b1 (l1 b1)))
  set y := V3.norm (V3.sub (V3.sdiv b1 (l1 b1)) (V3.sdiv b2 (l2 b2)))
  have hx : 0 ≤ x := norm_nonneg _
  have hy : 0 ≤ y := norm_nonneg _
  have h0 : 0 ≤ Complex.arg ⟨x, y⟩ := Complex.arg_nonneg_iff.mpr hy
  have h1 : Complex.arg ⟨x, y⟩ ≤ π / 2 := Complex.arg_le_pi_div_two_iff.mpr (Or.inl hx)
  constructor <;> linarith

/-- symmetry in the two beams (every input) -/
theorem two_theta_symm (b1 b2 : V3 ℝ) : twoTheta b1 b2 = twoTheta b2 b1 := by
  simp only [twoTheta, l1, l2]
  have e1 : ∀ u v : V3 ℝ, V3.norm (V3.sub u v) = V3.norm (V3.sub v u) := by
    intro u v; simp only [V3.norm, V3.dot, V3.sub]; congr 1; ring
  have e2 : ∀ u v : V3 ℝ, V3.norm (V3.add u v) = V3.norm (V3.add v u) := by
    intro u v; simp only [V3.norm, V3.dot, V3.add]; congr 1; ring
  rw [e1, e2]

/-- rescaling the incident beam by any positive factor leaves 2θ unchanged -/
theorem two_theta_scale_left (c : ℝ) (hc : 0 < c) (b1 b2 : V3 ℝ) (h1 : b1 ≠ zero) (h2 : b2 ≠ zero) :
    twoTheta (V3.smul c b1) b2 = twoTheta b1 b2 := by
  rw [two_theta_eq_angle _ _ (smul_ne_zero hc.ne' h1) h2, two_theta_eq_angle _ _ h1 h2, angle, angle,
    cosAngle_smul_left hc _ _ h1 h2]

/-- rescaling the scattered beam by any positive factor leaves 2θ unchanged -/
theorem two_theta_scale_right (c : ℝ) (hc : 0 < c) (b1 b2 : V3 ℝ) (h1 : b1 ≠ zero) (h2 : b2 ≠ zero) :
    twoTheta b1 (V3.smul c b2) = twoTheta b1 b2 := by
  rw [two_theta_symm, two_theta_scale_left c hc b2 b1 h2 h1, two_theta_symm]

/-- reversing one beam gives the supplementary angle -/
theorem two_theta_neg_left (b1 b2 : V3 ℝ) (h1 : b1 ≠ zero) (h2 : b2 ≠ zero) :
    twoTheta (V3.smul (-1) b1) b2 = π - twoTheta b1 b2 := by
  rw [two_theta_eq_angle _ _ (smul_ne_zero (by norm_num) h1) h2, two_theta_eq_angle _ _ h1 h2, angle, angle]
  have : cosAngle (V3.smul (-1) b1) b2 = - cosAngle b1 b2 := by
    unfold cosAngle
    have hn : V3.norm (V3.smul (-1) b1) = V3.norm b1 := by
      simp only [V3.norm, V3.dot, V3.smul]; congr 1; ring
    rw [hn, show V3.dot (V3.smul (-1) b1) b2 = - V3.dot b1 b2 by simp only [V3.dot, V3.smul]; ring, neg_div]
  rw [this, arccos_neg]

/-- any map that preserves the dot product (rotation, reflection) leaves 2θ unchanged -/
theorem two_theta_rot (f : V3 ℝ → V3 ℝ) (hf : PreservesDot f) (b1 b2 : V3 ℝ)
    (h1 : b1 ≠ zero) (h2 : b2 ≠ zero) : twoTheta (f b1) (f b2) = twoTheta b1 b2 := by
  rw [two_theta_eq_angle _ _ (hf.ne_zero h1) (hf.ne_zero h2), two_theta_eq_angle _ _ h1 h2, angle, angle,
    hf.cosAngle]

/-- in particular every orthogonal 3×3 matrix (`MᵀM = 1`) -/
theorem two_theta_orthogonal_matrix (M : M3) (hM : M.IsOrthogonal) (b1 b2 : V3 ℝ)
    (h1 : b1 ≠ zero) (h2 : b2 ≠ zero) : twoTheta (M.mulVec b1) (M.mulVec b2) = twoTheta b1 b2 :=
  two_theta_rot _ hM.preservesDot b1 b2 h1 h2

/-! ## The positions → (L1, L2, Ltotal, 2θ) pipeline: translation, rotation, length unit -/

/-- common translation of source, sample and detector changes nothing -/
theorem scatter_graph_translate (t source sample position : V3 ℝ) :
    scatterGraph (V3.add source t) (V3.add sample t) (V3.add position t)
      = scatterGraph source sample position := by
  have e : ∀ p q : V3 ℝ, V3.sub (V3.add p t) (V3.add q t) = V3.sub p q := by
    intro p q; simp only [V3.sub, V3.add]; apply V3R.ext <;> ring
  simp only [scatterGraph, straightIncidentBeam, straightScatteredBeam, e]

theorem Ltotal_noscatter_translate (t source position : V3 ℝ) :
    totalStraightNoScatter (V3.add source t) (V3.add position t) = totalStraightNoScatter source position := by
  have e : ∀ p q : V3 ℝ, V3.sub (V3.add p t) (V3.add q t) = V3.sub p q := by
    intro p q; simp only [V3.sub, V3.add]; apply V3R.ext <;> ring
  simp only [totalStraightNoScatter, e]

/-- common rotation/reflection of the three positions: lengths and angle are unchanged, the beams
rotate along -/
theorem scatter_graph_rotate (M : M3) (hM : M.IsOrthogonal) (source sample position : V3 ℝ)
    (h1 : sample ≠ source) (h2 : position ≠ sample) :
    let r := scatterGraph source sample position
    let r' := scatterGraph (M.mulVec source) (M.mulVec sample) (M.mulVec position)
    r'.incidentBeam = M.mulVec r.incidentBeam ∧ r'.scatteredBeam = M.mulVec r.scatteredBeam ∧
    r'.L1 = r.L1 ∧ r'.L2 = r.L2 ∧ r'.Ltotal = r.Ltotal ∧ r'.twoTheta = r.twoTheta := by
  have hd := hM.preservesDot
  have nz : ∀ p q : V3 ℝ, p ≠ q → V3.sub p q ≠ zero := by
    intro p q hpq h
    apply hpq
    have hx : p.x - q.x = 0 := congrArg V3.x h
    have hy : p.y - q.y = 0 := congrArg V3.y h
    have hz : p.z - q.z = 0 := congrArg V3.z h
    apply V3R.ext <;> linarith
  simp only [scatterGraph, straightIncidentBeam, straightScatteredBeam, ← M3.mulVec_sub, l1, l2, hd.norm,
    totalBeamLength, true_and]
  exact two_theta_rot _ hd _ _ (nz _ _ h1) (nz _ _ h2)

theorem Ltotal_noscatter_rotate (M : M3) (hM : M.IsOrthogonal) (source position : V3 ℝ) :
    totalStraightNoScatter (M.mulVec source) (M.mulVec position) = totalStraightNoScatter source position := by
  simp only [totalStraightNoScatter, ← M3.mulVec_sub, hM.preservesDot.norm]

/-- change of length unit (all positions multiplied by `s > 0`): lengths scale by `s`, 2θ is unchanged -/
theorem scatter_graph_unit_scale (s : ℝ) (hs : 0 < s) (source sample position : V3 ℝ)
    (h1 : sample ≠ source) (h2 : position ≠ sample) :
    let r := scatterGraph source sample position
    let r' := scatterGraph (V3.smul s source) (V3.smul s sample) (V3.smul s position)
    r'.L1 = s * r.L1 ∧ r'.L2 = s * r.L2 ∧ r'.Ltotal = s * r.Ltotal ∧ r'.twoTheta = r.twoTheta := by
  have e : ∀ p q : V3 ℝ, V3.sub (V3.smul s p) (V3.smul s q) = V3.smul s (V3.sub p q) := by
    intro p q; simp only [V3.sub, V3.smul]; apply V3R.ext <;> ring
  have nz : ∀ p q : V3 ℝ, p ≠ q → V3.sub p q ≠ zero := by
    intro p q hpq h
    apply hpq
    have hx : p.x - q.x = 0 := congrArg V3.x h
    have hy : p.y - q.y = 0 := congrArg V3.y h
    have hz : p.z - q.z = 0 := congrArg V3.z h
    apply V3R.ext <;> linarith
  simp only [scatterGraph, straightIncidentBeam, straightScatteredBeam, e, l1, l2, norm_smul hs.le,
    totalBeamLength, true_and]
  refine ⟨by ring, ?_⟩
  rw [two_theta_scale_left s hs _ _ (nz _ _ h1) (smul_ne_zero hs.ne' (nz _ _ h2)),
    two_theta_scale_right s hs _ _ (nz _ _ h1) (nz _ _ h2)]


/-! ## The same statements in Mathlib's Euclidean space `EuclideanSpace ℝ (Fin 3)` -/

/-- `L1`/`L2` are Mathlib's Euclidean norm of the beam -/
theorem L1_eq_euclidean_norm (b : V3 ℝ) : l1 b = ‖toE b‖ := (norm_toE b).symm

/-- `Ltotal` without scattering is Mathlib's Euclidean distance of detector and source -/
theorem Ltotal_noscatter_eq_euclidean_dist (source position : V3 ℝ) :
    totalStraightNoScatter source position = Dist.dist (toE position) (toE source) := by
  rw [totalStraightNoScatter, ← norm_toE, dist_eq_norm]
  congr 1
  ext i; fin_cases i <;> simp [toE, V3.sub]

/-- `two_theta` is Mathlib's unoriented angle `InnerProductGeometry.angle` between the beams -/
theorem two_theta_eq_euclidean_angle (b1 b2 : V3 ℝ) (h1 : b1 ≠ zero) (h2 : b2 ≠ zero) :
    twoTheta b1 b2 = InnerProductGeometry.angle (toE b1) (toE b2) := by
  rw [two_theta_eq_angle b1 b2 h1 h2, angle_eq_mathlib]

/-! ## Non-vacuity: the angles 0, π/2 and π are attained -/

theorem two_theta_parallel (b : V3 ℝ) (hb : b ≠ zero) : twoTheta b b = 0 := by
  rw [two_theta_eq_angle b b hb hb, angle, cosAngle_self hb, arccos_one]

theorem two_theta_antiparallel (b : V3 ℝ) (hb : b ≠ zero) : twoTheta (V3.smul (-1) b) b = π := by
  rw [two_theta_neg_left b b hb hb, two_theta_parallel b hb, sub_zero]

theorem two_theta_perpendicular (b1 b2 : V3 ℝ) (h1 : b1 ≠ zero) (h2 : b2 ≠ zero)
    (h : V3.dot b1 b2 = 0) : twoTheta b1 b2 = π / 2 := by
  rw [two_theta_eq_angle b1 b2 h1 h2, angle, cosAngle, h, zero_div, arccos_zero]

theorem ez_ne : (⟨0, 0, 1⟩ : V3 ℝ) ≠ zero := by
  intro h; have := congrArg V3.z h; simp [zero] at this
theorem ex_ne : (⟨1, 0, 0⟩ : V3 ℝ) ≠ zero := by
  intro h; have := congrArg V3.x h; simp [zero] at this

example : twoTheta (⟨0, 0, 1⟩ : V3 ℝ) ⟨0, 0, 1⟩ = 0 := two_theta_parallel _ ez_ne
example : twoTheta (⟨0, 0, 1⟩ : V3 ℝ) ⟨1, 0, 0⟩ = π / 2 :=
  two_theta_perpendicular _ _ ez_ne ex_ne (by simp [V3.dot])
example : twoTheta (V3.smul (-1) (⟨0, 0, 1⟩ : V3 ℝ)) ⟨0, 0, 1⟩ = π := two_theta_antiparallel _ ez_ne
/-- the 3-4-5 rotation about z is an orthogonal matrix (hypothesis of `two_theta_orthogonal_matrix`) -/
example : (⟨⟨3/5, -4/5, 0⟩, ⟨4/5, 3/5, 0⟩, ⟨0, 0, 1⟩⟩ : M3).IsOrthogonal := by
  constructor <;> simp only [M3.c1, M3.c2, M3.c3, V3.dot] <;> norm_num
/-- hypotheses of the pipeline theorems are satisfiable -/
example : (⟨0, 0, 0⟩ : V3 ℝ) ≠ ⟨0, 0, -3⟩ ∧ (⟨0, 4, 0⟩ : V3 ℝ) ≠ ⟨0, 0, 0⟩ := by
  constructor <;> intro h
  · have := congrArg V3.z h; norm_num at this
  · have := congrArg V3.y h; norm_num at this

end ScnVerif.Props.C03
