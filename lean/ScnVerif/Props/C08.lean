import ScnVerif.Model.QVec
import ScnVerif.Real.Basic
import ScnVerif.Lemmas.QVec
import ScnVerif.Lemmas.LArr
import ScnVerif.Lemmas.TofPhys
import ScnVerif.Props.C03
import Mathlib.Tactic.FieldSimp
import Mathlib.Tactic.Ring
import Mathlib.Tactic.Linarith
import Mathlib.Tactic.Positivity
import Mathlib.Tactic.NormNum
import Mathlib.Tactic.LinearCombination
import Mathlib.Analysis.SpecialFunctions.Trigonometric.Inverse
/-!
# C08 — Q-vector and hkl conversions satisfy their defining algebra

Carrier `ℝ`.  `IsOrthogonal r` is `rᵀ·r = 1`; `cosAngle a b = a·b / (‖a‖‖b‖)`.
-/
namespace ScnVerif.Props.C08
open ScnVerif ScnVerif.QVec ScnVerif.Lemmas.QVec ScnVerif.Lemmas.LArr

/-! ## the momentum-transfer vector -/

/-- `Q⃗ = (2π/λ)(ê_i − ê_f)` with `ê = beam/‖beam‖` -/
theorem Qvec_def (lam : ℝ) (bi bf : V3 ℝ) :
    qElements lam bi bf = V3.smul (2 * Real.pi / lam) (V3.sub (V3.normalize bi) (V3.normalize bf)) := rfl

/-- elastic scattering: `Q⃗ = k⃗_i − k⃗_f` with `k⃗` along the beams and `|k⃗_i| = |k⃗_f| = 2π/λ` -/
theorem Qvec_eq_ki_sub_kf (lam : ℝ) (bi bf : V3 ℝ) (hl : 0 < lam) (hi : 0 < V3.norm bi)
    (hf : 0 < V3.norm bf) :
    qElements lam bi bf
        = V3.sub (V3.smul (2 * Real.pi / lam) (V3.normalize bi)) (V3.smul (2 * Real.pi / lam) (V3.normalize bf))
      ∧ V3.norm (V3.smul (2 * Real.pi / lam) (V3.normalize bi)) = 2 * Real.pi / lam
      ∧ V3.norm (V3.smul (2 * Real.pi / lam) (V3.normalize bf)) = 2 * Real.pi / lam := by
  have hk : 0 ≤ 2 * Real.pi / lam := by positivity
  refine ⟨?_, ?_, ?_⟩
  · simp only [qElements, qElementsCast, V3.sub, V3.smul, V3.normalize, V3.sdiv, twoPi_real, V3.mk.injEq]
    refine ⟨?_, ?_, ?_⟩ <;> ring
  · rw [norm_smul _ hk, norm_normalize bi hi, mul_one]
  · rw [norm_smul _ hk, norm_normalize bf hf, mul_one]

/-- `‖Q⃗‖² = (2π/λ)²·(2 − 2 cos 2θ)`, `2θ` the angle between the beams -/
theorem norm_sq_Qvec (lam : ℝ) (bi bf : V3 ℝ) (hi : 0 < V3.norm bi) (hf : 0 < V3.norm bf) :
    V3.dot (qElements lam bi bf) (qElements lam bi bf)
      = (2 * Real.pi / lam) ^ 2 * (2 - 2 * cosAngle bi bf) := by
  have h1 := norm_mul_self bi
  have h2 := norm_mul_self bf
  simp only [qElements, qElementsCast, cosAngle, V3.dot, V3.sub, V3.sdiv, twoPi_real]
  set ni := V3.norm bi
  set nf := V3.norm bf
  have e1 : (bi.x / ni) ^ 2 + (bi.y / ni) ^ 2 + (bi.z / ni) ^ 2 = 1 := by
    field_simp; linarith
  have e2 : (bf.x / nf) ^ 2 + (bf.y / nf) ^ 2 + (bf.z / nf) ^ 2 = 1 := by
    field_simp; linarith
  linear_combination (2 * Real.pi / lam) ^ 2 * e1 + (2 * Real.pi / lam) ^ 2 * e2

/-- the norm of the vector equals the scalar `Q = 4π sin θ / λ` for every scattering angle
`2θ ∈ [0, 2π]` whose cosine is the cosine of the angle between the beams (in particular for the
`two_theta` of the beamline graph, C03) -/
theorem norm_Qvec_eq_Q (lam : ℝ) (bi bf : V3 ℝ) (θ2 : ℝ) (hl : 0 < lam) (hi : 0 < V3.norm bi)
    (hf : 0 < V3.norm bf) (h0 : 0 ≤ θ2) (h1 : θ2 ≤ 2 * Real.pi) (hc : Real.cos θ2 = cosAngle bi bf) :
    V3.norm (qElements lam bi bf) = 4 * Real.pi * Real.sin (θ2 / 2) / lam := by
  have hs : 0 ≤ Real.sin (θ2 / 2) := Real.sin_nonneg_of_nonneg_of_le_pi (by linarith) (by linarith)
  have hcos : Real.cos θ2 = 1 - 2 * Real.sin (θ2 / 2) ^ 2 := by
    have := Real.cos_two_mul (θ2 / 2)
    have h3 := Real.sin_sq_add_cos_sq (θ2 / 2)
    rw [show 2 * (θ2 / 2) = θ2 by ring] at this
    linarith
  have hd := norm_sq_Qvec lam bi bf hi hf
  rw [← hc, hcos] at hd
  have : V3.norm (qElements lam bi bf) = Real.sqrt (V3.dot (qElements lam bi bf) (qElements lam bi bf)) := rfl
  rw [this, hd, show (2 * Real.pi / lam) ^ 2 * (2 - 2 * (1 - 2 * Real.sin (θ2 / 2) ^ 2))
      = (4 * Real.pi * Real.sin (θ2 / 2) / lam) ^ 2 by ring]
  exact Real.sqrt_sq (by positivity)

/-- with `2θ` *defined* as the angle between the beams, `‖Q⃗‖ = 4π sin θ / λ` -/
theorem norm_Qvec_angle (lam : ℝ) (bi bf : V3 ℝ) (hl : 0 < lam) (hi : 0 < V3.norm bi)
    (hf : 0 < V3.norm bf) :
    V3.norm (qElements lam bi bf) = 4 * Real.pi * Real.sin (Real.arccos (cosAngle bi bf) / 2) / lam := by
  obtain ⟨hlo, hhi⟩ := cosAngle_mem bi bf hi hf
  exact norm_Qvec_eq_Q lam bi bf _ hl hi hf (Real.arccos_nonneg _)
    (by linarith [Real.arccos_le_pi (cosAngle bi bf), Real.pi_pos]) (Real.cos_arccos hlo hhi)

/-- "its norm equals the scalar Q for the same beams", with no free hypothesis: for non-zero beams the norm
of the Q-vector of the model equals `Q_from_wavelength` (agent A's kernel, angle unit rad) evaluated at the
`two_theta` of the beamline model (Kahan's formula, agent C), i.e. `4π sin(two_theta/2)/λ` -/
theorem norm_Qvec_eq_Q_of_two_theta (lam : ℝ) (bi bf : V3 ℝ) (hl : 0 < lam) (hi : bi ≠ V3R.zero)
    (hf : bf ≠ V3R.zero) :
    V3.norm (qElements lam bi bf) = Tof.qFromWavelength 1 lam (Beamline.twoTheta bi bf)
      ∧ V3.norm (qElements lam bi bf) = 4 * Real.pi * Real.sin (Beamline.twoTheta bi bf / 2) / lam := by
  have hni := V3R.norm_pos hi
  have hnf := V3R.norm_pos hf
  have hr := C03.two_theta_mem_Icc bi bf
  have hcos : Real.cos (Beamline.twoTheta bi bf) = cosAngle bi bf := C03.cos_two_theta bi bf hi hf
  have key := norm_Qvec_eq_Q lam bi bf (Beamline.twoTheta bi bf) hl hni hnf hr.1
    (by linarith [hr.2, Real.pi_pos]) hcos
  refine ⟨?_, key⟩
  have hq := TofPhys.Q_from_wavelength_phys 1 1 lam (Beamline.twoTheta bi bf) one_pos hl
  simp only [div_one, mul_one] at hq
  rw [hq, key]

/-- the result does not depend on the lengths of the beams -/
theorem Qvec_beam_length_invariant (lam a b : ℝ) (bi bf : V3 ℝ) (ha : 0 < a) (hb : 0 < b)
    (hi : 0 < V3.norm bi) (hf : 0 < V3.norm bf) :
    qElements lam (V3.smul a bi) (V3.smul b bf) = qElements lam bi bf := by
  simp only [qElements, qElementsCast]
  rw [normalize_smul a ha bi hi, normalize_smul b hb bf hf]

/-- the vector rotates with the beamline: for every orthogonal `R`, `Q⃗(R b_i, R b_f) = R·Q⃗(b_i, b_f)` -/
theorem Qvec_rotates (lam : ℝ) (r : M3 ℝ) (hr : IsOrthogonal r) (bi bf : V3 ℝ) :
    qElements lam (M3.mulVec r bi) (M3.mulVec r bf) = M3.mulVec r (qElements lam bi bf) := by
  simp only [qElements, qElementsCast]
  rw [norm_mulVec_of_orthogonal r hr bi, norm_mulVec_of_orthogonal r hr bf]
  simp only [M3.mulVec, V3.sub, V3.sdiv]
  congr 1 <;> ring

/-- dtype contract of the components: single precision iff the wavelength is single precision; integer
wavelengths give double precision (never an integer result) -/
theorem q_result_dtype (w : Inelastic.DType) :
    (qResultDType w = .f32 ↔ w = .f32) ∧ (w ≠ .f32 → qResultDType w = .f64)
      ∧ qResultDType w ≠ .i64 ∧ qResultDType w ≠ .i32 := by
  cases w <;> decide

/-! ## hkl -/

/-- `2π·R·UB·hkl = Q⃗` whenever `R·UB` is non-singular -/
theorem hkl_inverse (q : V3 ℝ) (ub r : M3 ℝ) (hd : M3.det (M3.mul r ub) ≠ 0) :
    V3.smul (2 * Real.pi) (M3.mulVec (M3.mul r ub) (hklVecFromQVec q ub r)) = q := by
  have hpi : (2 * Real.pi) ≠ 0 := by positivity
  have key := mulVec_inv (M3.mul r ub) hd q
  simp only [hklVecFromQVec, twoPi_real]
  set w := M3.mulVec (M3.inv (M3.mul r ub)) q
  obtain ⟨qx, qy, qz⟩ := q
  simp only [M3.mulVec, V3.mk.injEq] at key
  obtain ⟨k1, k2, k3⟩ := key
  simp only [M3.mulVec, V3.sdiv, V3.smul, V3.mk.injEq]
  refine ⟨?_, ?_, ?_⟩
  · rw [← k1]; field_simp
  · rw [← k2]; field_simp
  · rw [← k3]; field_simp

/-- and it is the only solution -/
theorem hkl_unique (q h : V3 ℝ) (ub r : M3 ℝ) (hd : M3.det (M3.mul r ub) ≠ 0)
    (hq : V3.smul (2 * Real.pi) (M3.mulVec (M3.mul r ub) h) = q) :
    hklVecFromQVec q ub r = h := by
  have hpi : (2 * Real.pi) ≠ 0 := by positivity
  have key := inv_mulVec (M3.mul r ub) hd h
  subst hq
  simp only [hklVecFromQVec, twoPi_real]
  set m := M3.mul r ub
  set mi := M3.inv m
  obtain ⟨hx, hy, hz⟩ := h
  simp only [M3.mulVec, V3.mk.injEq] at key
  obtain ⟨k1, k2, k3⟩ := key
  simp only [M3.mulVec, V3.sdiv, V3.smul, V3.mk.injEq]
  refine ⟨?_, ?_, ?_⟩
  · field_simp; linear_combination k1
  · field_simp; linear_combination k2
  · field_simp; linear_combination k3

/-- `UB = U·B`: applying `UB` is applying `B`, then `U` -/
theorem UB_def (u b : M3 ℝ) (v : V3 ℝ) :
    M3.mulVec (ubFromUAndB u b) v = M3.mulVec u (M3.mulVec b v) := by
  simp only [ubFromUAndB, M3.mulVec, M3.mul, V3.mk.injEq]
  refine ⟨?_, ?_, ?_⟩ <;> ring

/-- the whole chain `Q⃗ = 2π R U B hkl` -/
theorem hkl_chain (q : V3 ℝ) (u b r : M3 ℝ) (hd : M3.det (M3.mul r (ubFromUAndB u b)) ≠ 0) :
    V3.smul (2 * Real.pi)
      (M3.mulVec r (M3.mulVec u (M3.mulVec b (hklVecFromQVec q (ubFromUAndB u b) r)))) = q := by
  have assoc : ∀ v : V3 ℝ, M3.mulVec (M3.mul r (ubFromUAndB u b)) v
      = M3.mulVec r (M3.mulVec u (M3.mulVec b v)) := by
    intro v
    simp only [ubFromUAndB, M3.mulVec, M3.mul, V3.mk.injEq]
    refine ⟨?_, ?_, ?_⟩ <;> ring
  rw [← assoc]
  exact hkl_inverse q (ubFromUAndB u b) r hd

/-! ## splitting and reassembling -/

section arrays
variable {α : Type}

theorem sizesEq_iff (a b : Sizes) : sizesEq a b = true ↔ a.length = b.length ∧ ∀ p ∈ a, p ∈ b := by
  simp [sizesEq, List.all_eq_true]

theorem sizesEq_refl (s : Sizes) : sizesEq s s = true := by
  rw [sizesEq_iff]; exact ⟨rfl, fun _ h => h⟩

/-- the `DimensionError` guard: raised exactly when the sizes of `Qy` or `Qz` differ from `Qx` -/
theorem qvec_guard (x y z : LArr α) :
    qVecFromElements x y z = .error .dimension
      ↔ (sizesEq x.sizes y.sizes = false ∨ sizesEq x.sizes z.sizes = false) := by
  unfold qVecFromElements
  cases h1 : sizesEq x.sizes y.sizes <;> cases h2 : sizesEq x.sizes z.sizes <;> simp

/-- reassembling then splitting gives back the three operands, element for element (by dimension
label), with the dimensions of `Qx` -/
theorem split_reassemble (x y z : LArr α) (v : LArr (V3 α)) (h : qVecFromElements x y z = .ok v) :
    v.sizes = x.sizes ∧ (hklElementsArr v).1.get = x.get ∧ (hklElementsArr v).2.1.get = y.get
      ∧ (hklElementsArr v).2.2.get = z.get := by
  unfold qVecFromElements at h
  split at h
  · cases h
  · injection h with h
    subst h
    exact ⟨rfl, rfl, rfl, rfl⟩

/-- splitting then reassembling gives back the vector array -/
theorem reassemble_split (v : LArr (V3 α)) :
    qVecFromElements (hklElementsArr v).1 (hklElementsArr v).2.1 (hklElementsArr v).2.2 = .ok v := by
  unfold qVecFromElements hklElementsArr
  simp [sizesEq_refl]

/-- on row-major buffers (how the values are actually stored): combining three buffers with the same
sizes and splitting the result returns the three buffers, for every shape -/
theorem split_reassemble_flat (d : α) (s : Sizes) (xs ys zs : List α) (hn : (s.map (·.1)).Nodup)
    (hx : xs.length = prodSizes s) (hy : ys.length = prodSizes s) (hz : zs.length = prodSizes s) :
    ∃ v, qVecFromElements (LArr.ofFlat d s xs) (LArr.ofFlat d s ys) (LArr.ofFlat d s zs) = .ok v
      ∧ v.sizes = s ∧ (hklElementsArr v).1.toFlat = xs ∧ (hklElementsArr v).2.1.toFlat = ys
      ∧ (hklElementsArr v).2.2.toFlat = zs := by
  refine ⟨⟨s, fun i => ⟨(LArr.ofFlat d s xs).get i, (LArr.ofFlat d s ys).get i, (LArr.ofFlat d s zs).get i⟩⟩,
    ?_, rfl, ?_, ?_, ?_⟩
  · unfold qVecFromElements
    simp [LArr.ofFlat, sizesEq_refl]
  · exact toFlat_ofFlat d s xs hn hx
  · exact toFlat_ofFlat d s ys hn hy
  · exact toFlat_ofFlat d s zs hn hz

/-- one element: `hkl_elements_from_hkl_vec` returns the three components -/
theorem hklElements_components (h k l : α) : hklElements (⟨h, k, l⟩ : V3 α) = (h, k, l) := rfl

end arrays

/-! ## non-vacuity -/

/-- rotation by 90° about z -/
def rotZ : M3 ℝ := ⟨0, -1, 0, 1, 0, 0, 0, 0, 1⟩

example : IsOrthogonal rotZ := by
  simp [IsOrthogonal, rotZ, M3.mul, M3.transpose, M3.one]

/-- beams along z and x: hypotheses of `norm_Qvec_eq_Q` hold with 2θ = π/2 -/
example : V3.norm (qElements 2 (⟨0, 0, 1⟩ : V3 ℝ) ⟨1, 0, 0⟩) = 4 * Real.pi * Real.sin (Real.pi / 2 / 2) / 2 :=
  norm_Qvec_eq_Q 2 _ _ (Real.pi / 2) (by norm_num) (by rw [norm_ez]; norm_num) (by rw [norm_ex]; norm_num)
    (by positivity) (by linarith [Real.pi_pos])
    (by rw [Real.cos_pi_div_two]; simp [cosAngle, V3.dot])

/-- the hypotheses of `norm_Qvec_eq_Q_of_two_theta` are satisfiable -/
example : V3.norm (qElements 2 (⟨0, 0, 1⟩ : V3 ℝ) ⟨1, 0, 0⟩)
    = Tof.qFromWavelength 1 2 (Beamline.twoTheta (⟨0, 0, 1⟩ : V3 ℝ) ⟨1, 0, 0⟩) :=
  (norm_Qvec_eq_Q_of_two_theta 2 _ _ (by norm_num) (by simp [V3R.zero]) (by simp [V3R.zero])).1

/-- a non-singular, non-orthogonal `R·UB` -/
example : M3.det (M3.mul rotZ (ubFromUAndB rotZ (⟨2, 1, 0, 0, 3, 0, 0, 0, 4⟩ : M3 ℝ))) ≠ 0 := by
  simp only [rotZ, ubFromUAndB, M3.mul, M3.det, M3.c00, M3.c10, M3.c20]
  norm_num

/-- the guard is reachable in both directions -/
example : sizesEq [(0, 2), (1, 3)] [(1, 3), (0, 2)] = true ∧ sizesEq [(0, 2), (1, 3)] [(1, 3)] = false := by
  decide

end ScnVerif.Props.C08
