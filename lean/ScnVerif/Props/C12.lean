import ScnVerif.Model.Sqw.Build
import ScnVerif.Model.Sqw.Decode
import ScnVerif.Gen.SqwTables
import ScnVerif.Lemmas.SqwBytes
import ScnVerif.Lemmas.SqwIR
import ScnVerif.Lemmas.SqwFile
import ScnVerif.Lemmas.SqwRun
import ScnVerif.Lemmas.SqwOrderIndep
/-!
# C12 — every SQW file written is a structurally complete, self-consistent container

Theorems about the executable builder model `ScnVerif.Sqw.create` (Model/Sqw/Build.lean), which the
correspondence run of `./check C12` compares byte for byte with the real `SqwBuilder` on every run,
and about the independent decoder `decodeFile` (Model/Sqw/Decode.lean).
The canonical block order table is `Gen.SqwTables.blockOrder`, regenerated from
`_to_canonical_block_order` on every run.
-/
namespace ScnVerif.Props.C12
open ScnVerif ScnVerif.Sqw

/-! ## Header and byte order -/

/-- every file starts with the `horace` 4.0 header in the chosen byte order -/
theorem header_prefix (order : List BlockName) (b : Builder) (st : Stamps) (round : Nat → Nat)
    (chunk : Nat) :
    ∃ rest, create order b st round chunk =
      u32 b.order 6 ++ ([104, 111, 114, 97, 99, 101] ++
        (f64 b.order 0x4010000000000000 ++ (u32 b.order 1 ++ (u32 b.order b.nDims ++ rest)))) := by
  refine ⟨(serializeBat b.order ((blockOuts order b st round chunk).map (·.desc))
      (fileHeader b.order b.nDims).length).1 ++ ((blockOuts order b st round chunk).map (·.bytes)).flatten, ?_⟩
  have h4 : fFour = 0x4010000000000000 := by decide
  simp only [create, fileHeader, charArray, sHorace, List.append_assoc, h4]
  rfl

/-- the reader's byte-order guess on a written file is the order it was written in
(6 against 6·2^24) -/
theorem byteorder_deduced (order : List BlockName) (b : Builder) (st : Stamps) (round : Nat → Nat)
    (chunk : Nat) : deduceOrder (create order b st round chunk) = b.order := by
  rw [create_layout]
  exact deduceOrder_fileHeader b.order b.nDims _

/-! ## Declared size = bytes written, per block type -/

/-- the chunk loop covers exactly `npix` pixels for every chunk size ≥ 1 -/
theorem pix_size_exact (o : Order) (round : Nat → Nat) (rows : List PixRow) (chunk : Nat)
    (hc : 1 ≤ chunk) : (pixWrite o round rows chunk).length = pixSize rows := by
  have h := pixLoop_length o round rows (nPixels rows) chunk hc (nPixels rows) 0 (nPixels rows)
    (by simp) (by simp)
  unfold pixWrite pixWriteBound pixSize
  simp only [List.length_append, u32_length, u64_length, h, Nat.sub_zero]
  rw [Nat.mul_comm (nPixels rows) (rows.length * 4)]
  omega

/-- HEADLINE: for ANY selection of rows (`add_pixel_data(rows=…)`: fewer or more than nine), any pixel
count and any chunk size ≥ 1, the pixel block is `12 + 4·(number of rows)·npix` bytes long — which is
what `_PixWrap.size` declares -/
theorem pix_block_size_rows (o : Order) (round : Nat → Nat) (rows : List PixRow) (chunk : Nat)
    (hc : 1 ≤ chunk) :
    (pixWrite o round rows chunk).length = 12 + 4 * rows.length * nPixels rows ∧
    pixSize rows = 12 + 4 * rows.length * nPixels rows := by
  have h := pix_size_exact o round rows chunk hc
  have e : pixSize rows = 12 + 4 * rows.length * nPixels rows := by
    unfold pixSize; rw [Nat.mul_comm rows.length 4]
  exact ⟨h.trans e, e⟩

/-- eleven rows, two pixels, chunk 1 -/
example : (pixWrite .big id (List.replicate 11 ⟨0, 0, [7, 9]⟩) 1).length = 12 + 4 * 11 * 2 := by decide +kernel

/-- with nine rows this is the documented `12 + 4·9·npix` -/
theorem pix_size_nine_rows (o : Order) (round : Nat → Nat) (rows : List PixRow) (chunk : Nat)
    (hc : 1 ≤ chunk) (h9 : rows.length = 9) :
    (pixWrite o round rows chunk).length = 12 + 4 * 9 * nPixels rows := by
  rw [pix_size_exact o round rows chunk hc, pixSize, h9]

example : (pixWrite .little id [⟨0, 0, [1, 2, 3, 4, 5]⟩, ⟨0, 0, [6, 7, 8, 9, 10]⟩] 2).length = 12 + 4 * 2 * 5 := by
  decide

/-- the earlier loop (`range(0, n_rows, chunk)`, before commit d2d86d4) wrote fewer bytes than the
table declared as soon as `npix > n_rows·…`: concrete instance, 1 row, 3 pixels, chunk 1 -/
theorem old_row_bounded_loop_truncates :
    (pixWriteBound .little id [⟨0, 0, [1, 2, 3]⟩] 1 1).length < pixSize [⟨0, 0, [1, 2, 3]⟩] := by
  decide

theorem dnd_size_exact (o : Order) (shape : List Nat) : (dndWrite o shape).length = dndSize shape := by
  unfold dndWrite dndSize
  simp only [List.length_append, u32_length, List.length_replicate]
  rw [length_flatMap_const _ _ 4 (fun d => by simp)]
  omega

/-- every block's declared size is the number of bytes written for it -/
theorem regular_size_exact (order : List BlockName) (b : Builder) (st : Stamps) (round : Nat → Nat)
    (chunk : Nat) (hc : 1 ≤ chunk) :
    ∀ x ∈ blockOuts order b st round chunk, x.desc.size = x.bytes.length := by
  intro x hx
  simp only [blockOuts, List.mem_append, List.mem_map] at hx
  rcases hx with ⟨⟨n, blk⟩, _, rfl⟩ | hx | hx
  · rfl
  · cases hd : b.dnd with
    | none => simp [hd] at hx
    | some shape =>
      simp only [hd, List.mem_singleton] at hx
      subst hx
      exact (dnd_size_exact b.order shape).symm
  · cases hp : b.pix with
    | none => simp [hp] at hx
    | some rows =>
      simp only [hp, List.mem_singleton] at hx
      subst hx
      exact (pix_size_exact b.order round rows chunk hc).symm

/-! ## Extents tile the file -/

/-- the file is header ++ table ++ blocks; the table lists descriptors `ds` whose extents start
right after the table, follow each other without gap or overlap, and end at end-of-file; the size
field of the table is the length of its body -/
theorem extents_tile (order : List BlockName) (b : Builder) (st : Stamps) (round : Nat → Nat)
    (chunk : Nat) (hc : 1 ≤ chunk) :
    ∃ ds payload,
      create order b st round chunk =
        fileHeader b.order b.nDims ++ ((u32 b.order (batBody b.order ds).length ++ batBody b.order ds) ++ payload) ∧
      ds.map (·.name) = (blockOuts order b st round chunk).map (·.desc.name) ∧
      ds.map (·.size) = (blockOuts order b st round chunk).map (·.bytes.length) ∧
      Tiles ((fileHeader b.order b.nDims).length + (4 + (batBody b.order ds).length)) ds
        (create order b st round chunk).length := by
  let outs := blockOuts order b st round chunk
  let descs := outs.map (·.desc)
  let hl := (fileHeader b.order b.nDims).length
  let start := hl + (u32 b.order 0 ++ batBody b.order descs).length
  refine ⟨assignPos start descs, (outs.map (·.bytes)).flatten, ?_, ?_, ?_, ?_⟩
  · simp only [create, serializeBat, List.length_append, u32_length, batBody_assignPos_length]
    simp [outs, descs, hl, start, List.append_assoc]
  · simp [assignPos_map_name, descs, outs, List.map_map, Function.comp_def]
  · rw [assignPos_map_size]
    simp only [descs, outs, List.map_map, Function.comp_def]
    apply List.map_congr_left
    intro x hx
    exact regular_size_exact order b st round chunk hc x hx
  · have hsz := flatten_length_of_sizes outs (regular_size_exact order b st round chunk hc)
    have htile := tiles_assignPos start descs
    have hlen : (create order b st round chunk).length = start + sumSizes descs := by
      simp only [create, serializeBat, List.length_append, u32_length, batBody_assignPos_length]
      simp only [outs, descs, hl, start, List.length_append, u32_length] at hsz ⊢
      omega
    rw [hlen, batBody_assignPos_length]
    simpa [start, hl, Nat.add_comm] using htile

/-! ## The block allocation table -/

open ScnVerif.Gen.SqwTables in
/-- table facts, re-checked against the regenerated `_to_canonical_block_order` table: it lists no
name twice and lists every name a regular block can get -/
theorem order_table_ok : OrderOk blockOrder := ⟨by decide +kernel, by decide +kernel⟩

open ScnVerif.Gen.SqwTables in
/-- the table lists exactly the blocks the calls made require — as a function of WHICH calls were
made, not of their order or multiplicity — … -/
theorem bat_lists_expected_blocks (lt : Lt) (o : Order) (full fp fn title : Str) (ops : List Op)
    (st : Stamps) (round : Nat → Nat) (chunk : Nat) :
    descNames blockOrder (run lt (Builder.init o full fp fn title) ops) st round chunk =
      expectedNames blockOrder (has .P ops) (has .I ops) (has .S ops) (has .N ops) (has .D ops) :=
  descNames_run blockOrder order_table_ok lt o full fp fn title ops st round chunk

open ScnVerif.Gen.SqwTables in
/-- … and each of them exactly once -/
theorem bat_lists_each_once (lt : Lt) (o : Order) (full fp fn title : Str) (ops : List Op)
    (st : Stamps) (round : Nat → Nat) (chunk : Nat) :
    (descNames blockOrder (run lt (Builder.init o full fp fn title) ops) st round chunk).Nodup := by
  rw [bat_lists_expected_blocks]
  have : ∀ p i s n d : Bool, (expectedNames blockOrder p i s n d).Nodup := by decide +kernel
  exact this _ _ _ _ _

open ScnVerif.Gen.SqwTables in
/-- the order of the table does not depend on the order (or repetition) of the builder calls:
two programs that make the same SET of calls list the same blocks in the same order -/
theorem bat_order_canonical (lt : Lt) (o o' : Order) (full fp fn title full' fp' fn' title' : Str)
    (ops ops' : List Op) (st st' : Stamps) (round round' : Nat → Nat) (chunk chunk' : Nat)
    (h : ∀ k, has k ops = has k ops') :
    descNames blockOrder (run lt (Builder.init o full fp fn title) ops) st round chunk =
      descNames blockOrder (run lt (Builder.init o' full' fp' fn' title') ops') st' round' chunk' := by
  rw [bat_lists_expected_blocks, bat_lists_expected_blocks, h .P, h .I, h .S, h .N, h .D]

/-- in particular for every permutation of the calls -/
theorem bat_order_perm_invariant (lt : Lt) (o : Order) (full fp fn title : Str) (ops ops' : List Op)
    (st : Stamps) (round : Nat → Nat) (chunk : Nat) (h : ops.Perm ops') :
    descNames Gen.SqwTables.blockOrder (run lt (Builder.init o full fp fn title) ops) st round chunk =
      descNames Gen.SqwTables.blockOrder (run lt (Builder.init o full fp fn title) ops') st round chunk := by
  apply bat_order_canonical
  intro k
  unfold has
  exact h.any_eq

/-- STRONGER: not only the table — every byte of the file depends on the program only through the
last call of each kind (repeated calls: the last one wins; calls of different kinds commute) -/
theorem file_depends_on_last_calls (lt : Lt) (o : Order) (full fp fn title : Str) (ops ops' : List Op)
    (st : Stamps) (round : Nat → Nat) (chunk : Nat) (h : lastCalls ops = lastCalls ops') :
    create Gen.SqwTables.blockOrder (run lt (Builder.init o full fp fn title) ops) st round chunk =
      create Gen.SqwTables.blockOrder (run lt (Builder.init o full fp fn title) ops') st round chunk :=
  create_last_calls _ order_table_ok lt o full fp fn title ops ops' st round chunk h

/-- where `lastCalls ops k` is the last element of `ops` of kind `k` -/
theorem last_calls_spec (ops : List Op) (k : Kind) :
    lastCalls ops k = (ops.filter (fun op => decide (op.kind = k))).getLast? := lastCalls_eq ops k

/-- in particular: a program without repeated calls writes the same file in every call order -/
theorem file_call_order_independent (lt : Lt) (o : Order) (full fp fn title : Str) (ops ops' : List Op)
    (st : Stamps) (round : Nat → Nat) (chunk : Nat) (h : ops.Perm ops') (hn : (ops.map (·.kind)).Nodup) :
    create Gen.SqwTables.blockOrder (run lt (Builder.init o full fp fn title) ops) st round chunk =
      create Gen.SqwTables.blockOrder (run lt (Builder.init o full fp fn title) ops') st round chunk :=
  file_depends_on_last_calls lt o full fp fn title ops ops' st round chunk (lastCalls_perm ops ops' h hn)

example : ([Op.addEmptyDetectorParams, Op.addDefaultSample ⟨[], [], []⟩].map (·.kind)).Nodup := by decide

example : expectedNames Gen.SqwTables.blockOrder true true false true false =
    [nMainHeader, nDataMeta, nInstruments, nExpdata, nPixMeta, nNdData, nPixData] := by decide +kernel

/-! ## Every block decodes completely within its extent -/

/-- a regular block whose inputs fit the format decodes to the object that was written and
consumes exactly the bytes of its extent (strings may hold any bytes, e.g. UTF-8 beyond ASCII) -/
theorem block_decodes_within_extent (order : List BlockName) (b : Builder) (st : Stamps)
    (kv : BlockName × Block) (_ : kv ∈ prepareBlocks order b) (hok : kv.2.Ok b st) :
    decObj b.order (2 * (writeObj b.order (kv.2.toObj b st)).length) (writeObj b.order (kv.2.toObj b st)) =
      some (kv.2.toObj b st, []) :=
  decObj_block b.order _ (wf_block b st kv.2 hok)

def isOk : Except DecErr File → Bool
  | .ok _ => true
  | .error _ => false

/-- regression of the defect fixed in bd4be20 (`len(str)` characters declared, UTF-8 bytes written):
the title "Å" (UTF-8 `c3 85`) now gives a file the strict decoder accepts -/
example : isOk (decodeFile (create Gen.SqwTables.blockOrder
    (Builder.init .little [105, 110] [] [] [195, 133]) ⟨[], []⟩ id 8192)) = true := by
  decide +kernel

/-- the whole file is accepted by the strict independent decoder (header, table size, extents that
tile the file, every block decoding within its extent), is re-opened with the byte order it was
written in, and lists the expected blocks — for every builder program whose arguments fit the format -/
theorem file_accepted_by_strict_decoder (lt : Lt) (o : Order) (full fp fn title : Str) (ops : List Op)
    (st : Stamps) (round : Nat → Nat) (chunk : Nat)
    (hs : StrOk full ∧ StrOk fp ∧ StrOk fn ∧ StrOk title ∧ StrOk st.main ∧ StrOk st.dnd)
    (hops : ∀ op ∈ ops, op.Ok) (hc : 1 ≤ chunk) (hr : ∀ v, round v < 2 ^ 32)
    (hsize : (create Gen.SqwTables.blockOrder (run lt (Builder.init o full fp fn title) ops) st round chunk).length < 2 ^ 32) :
    ∃ f, decodeFile (create Gen.SqwTables.blockOrder (run lt (Builder.init o full fp fn title) ops) st round chunk) = .ok f ∧
      f.order = o ∧
      f.descs.map (fun d => (d.name0, d.name1)) =
        expectedNames Gen.SqwTables.blockOrder (has .P ops) (has .I ops) (has .S ops) (has .N ops) (has .D ops) := by
  obtain ⟨h1, h2, h3, h4, h5, h6⟩ := hs
  have hinv := inv_run lt _ ops (inv_init o full fp fn title)
  have hst := stateOk_run lt _ st ops (stateOk_init o full fp fn title st h1 h2 h3 h4 h5 h6) hops
  have hok := createOk_of_stateOk _ order_table_ok _ st round chunk hinv hst hc hr hsize
  refine ⟨_, decode_create _ _ st round chunk hok, ?_, ?_⟩
  · show (run lt (Builder.init o full fp fn title) ops).order = o
    rw [order_run]; rfl
  · rw [← bat_lists_expected_blocks lt o full fp fn title ops st round chunk]
    have e : ((fun d : DDesc => (d.name0, d.name1)) ∘ toDDesc) = (fun d : Desc => d.name) := by
      funext d; rfl
    simp only [List.map_map, finalDescs, descNames]
    rw [e, assignPos_map_name, List.map_map]
    rfl

/-! ## The output target -/

/-- what a path holds after `create` is exactly the file `create` writes, whatever the path held
before: `create` opens the path with mode "wb" (`openWb`), so the result is a function of the builder
state alone. (That the real `open(path, "wb")` truncates is validated by the output-target histories of
the correspondence run, not proved.) -/
theorem create_overwrites_exactly (previous previous' : Bytes) (order : List BlockName) (b : Builder)
    (st : Stamps) (round : Nat → Nat) (chunk : Nat) :
    pathAfterCreate previous order b st round chunk = create order b st round chunk ∧
    pathAfterCreate previous order b st round chunk = pathAfterCreate previous' order b st round chunk := by
  have h : ∀ p, pathAfterCreate p order b st round chunk = create order b st round chunk := by
    intro p; unfold pathAfterCreate openWb; exact List.nil_append _
  exact ⟨h previous, (h previous).trans (h previous').symm⟩

example (b : Builder) (st : Stamps) : pathAfterCreate [170, 170, 170, 170, 170] Gen.SqwTables.blockOrder b st id 8192 =
    create Gen.SqwTables.blockOrder b st id 8192 := (create_overwrites_exactly _ [] _ b st id 8192).1

end ScnVerif.Props.C12
