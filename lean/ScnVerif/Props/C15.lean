import ScnVerif.Lemmas.XyeText
import ScnVerif.Lemmas.XyeNumbers
import ScnVerif.Lemmas.XyeDigits
import ScnVerif.Lemmas.XyeParser
import ScnVerif.Gen.Xye
import Mathlib.Tactic.Ring
import Mathlib.Tactic.Linarith
import Mathlib.Tactic.NormNum
import Mathlib.Tactic.Positivity
import Mathlib.Tactic.FieldSimp
import Mathlib.Analysis.SpecialFunctions.Sqrt
/-!
# C15 — XYE files round-trip coordinates and values exactly, uncertainties to rounding

The theorems are about `ScnVerif/Model/Xye.lean`, the character-level transcription of
`save_xye` / `load_xye` (and of what they use of `numpy.savetxt` / `numpy.loadtxt`) that the
correspondence run compares with the real functions text-for-text and bit-for-bit.

* `refuses_unrepresentable` — the decision table of the refusals;
* `load_save_fileobj`, `load_save_path_partial`, `rows_any_n_*`, `header_inert_*` — the saved
  text loads back to exactly the rows, for every `n ≥ 1` and every header (paths: every header
  without a bare carriage return; `header_inert_path_full_false` shows that this restriction is
  a property of the model = code, not of the proof);
* `formatE18_safe` — the exact `%.18e` printer of the model only emits characters that cannot be
  taken for separators, so the text theorems apply to it;
* `digitsAt_half_ulp`, `print_parse_id`, `eps_lt_gap` — exact rounding of the printer to half a
  unit of the 19th digit; print-then-parse-to-nearest is the identity on any set with relative
  gaps `≥ 2^-53` (binary64: hypothesis, validated by the oracle) because `2·10^-18 < 2^-53`;
* `variance_few_ulp` — `√` on save and squaring on load under the standard rounding model;
* Tier 2 (number level): `binary64_gap`, `binary64_abs_gap` (proved from first principles),
  `print_parse_id_binary64`, `formatE18_error` (19 digits within `½·10^-18` relative),
  `formatE18_decodes` (the parser's tokenizer inverts the renderer), `zeros_back`,
  `numbersBack_gBack` (the former hypothesis `NumbersBack` now holds outright),
  `nearestBits_of_close`, `parser_nearest` (the rounding core of the parser: proved),
  `numbers_back`, `coord_value_bit_exact`, `xye_roundtrip_fileobj`: every finite bit pattern comes
  back bit for bit — no hypothesis left at the number level.
-/
namespace ScnVerif.Props.C15
open ScnVerif ScnVerif.Xye

/-! ## refusals -/
section refusals
variable {N : Type} [DecidableEq N]

/-- which coordinate `save_xye` is determined to write: the one asked for, else the only one,
else the dimension-coordinate -/
def Determined (d : Desc N) (coordArg : Option N) (c : N) : Prop :=
  coordArg = some c ∨ (coordArg = none ∧ ((∃ k, d.coords = [k] ∧ k.name = c) ∨
    (c = d.dim ∧ ∃ k ∈ d.coords, k.name = d.dim)))

/-- whatever `save_xye` accepts is one-dimensional, has variances, no masks, at least one
coordinate, a *determined* coordinate that exists, is one-dimensional, is not bin edges and has
a numeric dtype -/
theorem refuses_unrepresentable (d : Desc N) (coordArg : Option N) (c : N)
    (h : saveCheck d coordArg = .ok c) :
    d.hasVariances = true ∧ d.ndim = 1 ∧ d.hasMasks = false ∧ d.coords ≠ [] ∧
    Determined d coordArg c ∧
    ∃ k ∈ d.coords, k.name = c ∧ k.ndim ≠ 0 ∧ k.edges = false ∧ k.numeric = true := by
  unfold saveCheck at h
  split at h; · cases h
  split at h; · cases h
  split at h; · cases h
  split at h; · cases h
  rename_i hv hn hm hc
  split at h; · cases h
  rename_i c' hco
  split at h
  · cases h
  · cases h
  · rename_i hie
    split at h; · cases h
    rename_i hnum
    injection h with h; subst h
    refine ⟨by simpa using hv, by simpa using hn, by simpa using hm, by simpa using hc, ?_, ?_⟩
    · cases coordArg with
      | some a => left; simp only [chooseCoord] at hco; injection hco with hco; rw [hco]
      | none =>
        right; refine ⟨rfl, ?_⟩
        simp only [chooseCoord, deduceCoord] at hco
        split at hco
        · rename_i k hk; left; exact ⟨k, hk, by injection hco⟩
        · split at hco
          · cases hco
          · rename_i hne hcond
            right
            injection hco with hco
            refine ⟨hco.symm, ?_⟩
            have hlen : d.coords.length > 1 := by
              rcases hl : d.coords with _ | ⟨a, _ | ⟨b, t⟩⟩
              · simp [hl] at hc
              · exact absurd hl (hne a)
              · simp
            simp only [Bool.and_eq_true, decide_eq_true_eq, Bool.not_eq_eq_eq_not, Bool.not_true,
              not_and, Bool.not_eq_false] at hcond
            have := hcond hlen
            simpa [List.any_eq_true] using this
    · unfold isEdges at hie
      split at hie
      · cases hie
      · rename_i k hk
        split at hie
        · cases hie
        · rename_i hnd
          injection hie with hie
          have hmem := List.mem_of_find?_eq_some hk
          have hname := List.find?_some hk
          rw [hk] at hnum
          exact ⟨k, hmem, by simpa using hname, hnd, hie, by simpa using hnum⟩

example : saveCheck (⟨true, 1, false, 7, [⟨3, 1, false, true⟩, ⟨7, 1, false, true⟩]⟩ : Desc Nat) none = .ok 7 := rfl
example : saveCheck (⟨true, 1, false, 7, [⟨3, 1, false, true⟩, ⟨4, 1, false, true⟩]⟩ : Desc Nat) none = .error .value := rfl
example : saveCheck (⟨true, 1, false, 7, [⟨3, 1, false, true⟩, ⟨4, 1, false, true⟩]⟩ : Desc Nat) (some 4) = .ok 4 := rfl
example : saveCheck (⟨true, 1, false, 7, [⟨7, 1, true, true⟩]⟩ : Desc Nat) none = .error .coord := rfl
example : saveCheck (⟨true, 1, false, 7, [⟨7, 1, false, false⟩]⟩ : Desc Nat) none = .error .type := rfl

end refusals

/-! ## the file and its table -/
section roundtrip
variable {F : Type}

/-- what comes back for a row `(x, y, variance)`: numbers through print-and-parse (`g`), the
variance through `sqrt`, print-and-parse, squaring -/
def backRow (g : F → F) (sqrt sq : F → F) (r : F × F × F) : F × F × F :=
  (g r.1, g r.2.1, sq (g (sqrt r.2.2)))

theorem finishLoad_rows (sq : F → F) (g : F → F) (sqrt : F → F)
    (rows : List (F × F × F)) (hrows : rows ≠ []) :
    finishLoad sq (rows.map (fun r => [g r.1, g r.2.1, g (sqrt r.2.2)]))
      = .ok (rows.map (backRow g sqrt sq)) := by
  cases rows with
  | nil => exact absurd rfl hrows
  | cons r rows =>
    have hall : (([g r.1, g r.2.1, g (sqrt r.2.2)] :: rows.map (fun r => [g r.1, g r.2.1, g (sqrt r.2.2)])).all
        (fun l => decide (l.length = [g r.1, g r.2.1, g (sqrt r.2.2)].length))) = true := by
      simp [List.all_eq_true]
    have hm : ∀ rs : List (F × F × F),
        (rs.map (fun r => [g r.1, g r.2.1, g (sqrt r.2.2)])).mapM (fun r => match r with
          | x :: y :: e :: _ => (Except.ok (x, y, sq e) : Except Err _)
          | _ => .error Err.index) = .ok (rs.map (backRow g sqrt sq)) := by
      intro rs
      induction rs with
      | nil => rfl
      | cons a rs ih =>
        simp only [List.map_cons, List.mapM_cons, ih, bind, Except.bind, pure, Except.pure, backRow]
    unfold finishLoad
    simp only [List.map_cons]
    rw [hall]
    have h3 : ([g r.1, g r.2.1, g (sqrt r.2.2)].length = 1) = False := by simp
    simp only [Bool.not_true, Bool.false_eq_true, if_false, h3, List.isEmpty_cons]
    exact hm (r :: rows)

variable (fmt : F → List Char) (sqrt sq : F → F) (parse : List Char → Option F) (g : F → F)

theorem tableRows_saved (hs : ∀ a, Safe (fmt a)) (hp : ∀ a, parse (fmt a) = some (g a))
    (header : List Char) (rows : List (F × F × F)) :
    tableRows parse (splitOn '\n' (saveText fmt sqrt header rows))
      = .ok (rows.map (fun r => [g r.1, g r.2.1, g (sqrt r.2.2)])) := by
  unfold saveText
  obtain ⟨ls, hls, e⟩ := splitOn_header header (rows.map (rowText fmt sqrt)).flatten
  rw [e, splitOn_rows fmt sqrt hs, tableRows_comments parse ls _ ?_, tableRows_rows fmt sqrt parse g hs hp]
  intro l hl
  obtain ⟨t, rfl⟩ := hls l hl
  exact processLine_comment parse t

/-- **file objects**: whatever the header contains (newlines, `#`, digits, carriage returns),
loading the saved text returns exactly the rows, for every number of rows `n ≥ 1` -/
theorem load_save_fileobj (hs : ∀ a, Safe (fmt a)) (hp : ∀ a, parse (fmt a) = some (g a))
    (header : List Char) (rows : List (F × F × F)) (hrows : rows ≠ []) :
    loadText parse sq false (saveText fmt sqrt header rows) = .ok (rows.map (backRow g sqrt sq)) := by
  unfold loadText
  simp only [Bool.false_eq_true, if_false, tableRows_saved fmt sqrt parse g hs hp header rows]
  exact finishLoad_rows sq g sqrt rows hrows

theorem mem_replaceNewlines (c : Char) (h : List Char) (hc : c ∈ replaceNewlines h) :
    c ∈ h ∨ c = '\n' ∨ c = '#' ∨ c = ' ' := by
  induction h with
  | nil => simp [replaceNewlines] at hc
  | cons a h ih =>
    simp only [replaceNewlines] at hc
    split at hc
    · simp only [List.mem_cons] at hc
      rcases hc with rfl | rfl | rfl | hc
      · simp
      · simp
      · simp
      · rcases ih hc with h1 | h1
        · left; simp [h1]
        · right; exact h1
    · simp only [List.mem_cons] at hc
      rcases hc with rfl | hc
      · simp
      · rcases ih hc with h1 | h1
        · left; simp [h1]
        · right; exact h1

theorem cr_not_mem_saveText (hs : ∀ a, Safe (fmt a)) (header : List Char) (hcr : '\r' ∉ header)
    (rows : List (F × F × F)) : '\r' ∉ saveText fmt sqrt header rows := by
  unfold saveText
  simp only [List.mem_append, List.mem_flatten, List.mem_map, not_or, not_exists, not_and]
  constructor
  · intro hmem
    unfold headerText at hmem
    split at hmem
    · simp at hmem
    · have hmem' : '\r' ∈ replaceNewlines header := by simpa using hmem
      rcases mem_replaceNewlines _ _ hmem' with h | h | h | h
      · exact hcr h
      · simp at h
      · simp at h
      · simp at h
  · rintro l ⟨r, _, rfl⟩ hmem
    rw [rowText_eq] at hmem
    simp only [List.mem_append, List.mem_singleton] at hmem
    rcases hmem with h | h
    · exact rowLine_not_mem fmt sqrt hs r '\r' (by simp) h
    · simp at h

/-- **paths** (the file is re-opened in text mode, universal newlines): the same for every header
without a carriage return -/
theorem load_save_path_partial (hs : ∀ a, Safe (fmt a))
    (hp : ∀ a, parse (fmt a) = some (g a))
    (header : List Char) (hcr : '\r' ∉ header) (rows : List (F × F × F)) (hrows : rows ≠ []) :
    loadText parse sq true (saveText fmt sqrt header rows) = .ok (rows.map (backRow g sqrt sq)) := by
  unfold loadText
  simp only [if_true, univNewlines_of_not_mem _ (cr_not_mem_saveText fmt sqrt hs header hcr rows),
    tableRows_saved fmt sqrt parse g hs hp header rows]
  exact finishLoad_rows sq g sqrt rows hrows

end roundtrip
/-! ## the concrete `%.18e` printer only emits harmless characters -/

/-- the characters `'%.18e'` can produce -/
def okc (c : Char) : Bool := isDigit c || c = '.' || c = 'e' || c = '+' || c = '-' || c = 'i' || c = 'n' || c = 'f' || c = 'a'

theorem digitChar_ok (d : Nat) : okc (digitChar d) = true := by
  unfold digitChar
  have h : d % 10 < 10 := Nat.mod_lt _ (by decide)
  generalize d % 10 = k at h
  match k, h with
  | 0, _ | 1, _ | 2, _ | 3, _ | 4, _ | 5, _ | 6, _ | 7, _ | 8, _ | 9, _ => decide
  | k + 10, h => omega

theorem digitsFixed_ok (w n : Nat) : ∀ c ∈ digitsFixed w n, okc c = true := by
  induction w generalizing n with
  | zero => simp [digitsFixed]
  | succ w ih =>
    intro c hc
    simp only [digitsFixed, List.mem_append, List.mem_singleton] at hc
    rcases hc with hc | rfl
    · exact ih _ c hc
    · exact digitChar_ok n

theorem natDecAux_ok (fuel n : Nat) (acc : List Char) (hacc : ∀ c ∈ acc, okc c = true) :
    ∀ c ∈ natDecAux fuel n acc, okc c = true := by
  induction fuel generalizing n acc with
  | zero => simpa [natDecAux] using hacc
  | succ f ih =>
    unfold natDecAux
    split
    · intro c hc
      rcases List.mem_cons.mp hc with rfl | hc
      · exact digitChar_ok n
      · exact hacc c hc
    · apply ih
      intro c hc
      rcases List.mem_cons.mp hc with rfl | hc
      · exact digitChar_ok n
      · exact hacc c hc

theorem expField_ok (k : Int) : ∀ c ∈ expField k, okc c = true := by
  intro c hc
  unfold expField at hc
  simp only [List.mem_cons] at hc
  rcases hc with rfl | hc
  · split <;> decide
  · split at hc
    · simp only [List.mem_cons, List.not_mem_nil, or_false] at hc
      rcases hc with rfl | rfl
      · decide
      · exact digitChar_ok _
    · exact natDecAux_ok _ _ [] (by simp) c hc

theorem mantField_ok (D : Nat) : ∀ c ∈ mantField D, okc c = true := by
  intro c hc
  unfold mantField at hc
  split at hc
  · rename_i d rest h
    have hall := digitsFixed_ok 19 D
    rw [h] at hall
    simp only [List.mem_cons] at hc
    rcases hc with rfl | rfl | hc
    · exact hall _ (by simp)
    · decide
    · exact hall _ (by simp [hc])
  · simp at hc

theorem signChars_ok (neg : Bool) : ∀ c ∈ signChars neg, okc c = true := by
  intro c hc; cases neg <;> simp [signChars] at hc; subst hc; decide

theorem formatFinite_ok (neg : Bool) (D : Nat) (k : Int) : ∀ c ∈ formatFinite neg D k, okc c = true := by
  intro c hc
  simp only [formatFinite, List.mem_append, List.mem_cons] at hc
  rcases hc with (hc | hc) | rfl | hc
  · exact signChars_ok _ _ hc
  · exact mantField_ok _ c hc
  · decide
  · exact expField_ok _ c hc

theorem render_ok (p : Printed) : ∀ c ∈ render p, okc c = true := by
  intro c hc
  cases p with
  | nan =>
    simp only [render, List.mem_cons, List.not_mem_nil, or_false] at hc
    rcases hc with rfl | rfl | rfl <;> decide
  | inf neg =>
    simp only [render, List.mem_append, List.mem_cons, List.not_mem_nil, or_false] at hc
    rcases hc with hc | rfl | rfl | rfl
    · exact signChars_ok _ _ hc
    all_goals decide
  | fin neg D k => exact formatFinite_ok neg D k c hc

theorem formatE18_ok (b : Nat) : ∀ c ∈ formatE18 b, okc c = true := render_ok (classify b)

/-- so the numbers written by the model's printer can never be mistaken for a separator, a line
end or a comment -/
theorem formatE18_safe (b : Nat) : Safe (formatE18 b) := by
  have h := formatE18_ok b
  refine ⟨?_, ?_, ?_, ?_⟩ <;> intro hm <;> have := h _ hm <;> revert this <;> decide

/-! ## the model's own printer and parser -/

/-- number-level round trip of the concrete pair: `parseDecimal (formatE18 b)` is the bit pattern
`g b`. For finite `b` the correspondence run observes `g b = b` on every sample (text equality with
the real `%.18e` plus bit equality of what `loadtxt` returns); `print_parse_id` is the reason. -/
def NumbersBack (g : Nat → Nat) : Prop := ∀ b, parseDecimal (formatE18 b) = some (g b)

/-- `n ≥ 1` rows give `n` rows back — file objects, any header -/
theorem rows_any_n_fileobj (g : Nat → Nat) (hg : NumbersBack g) (sqrt sq : Nat → Nat)
    (header : List Char) (rows : List (Nat × Nat × Nat)) (hrows : rows ≠ []) :
    ∃ back, loadText parseDecimal sq false (saveText formatE18 sqrt header rows) = .ok back
      ∧ back.length = rows.length ∧ back = rows.map (backRow g sqrt sq) :=
  ⟨_, load_save_fileobj formatE18 sqrt sq parseDecimal g formatE18_safe hg header rows hrows, by simp, rfl⟩

/-- `n ≥ 1` rows give `n` rows back — paths, any header without a carriage return -/
theorem rows_any_n_path_partial (g : Nat → Nat) (hg : NumbersBack g) (sqrt sq : Nat → Nat)
    (header : List Char) (hcr : '\r' ∉ header) (rows : List (Nat × Nat × Nat)) (hrows : rows ≠ []) :
    ∃ back, loadText parseDecimal sq true (saveText formatE18 sqrt header rows) = .ok back
      ∧ back.length = rows.length ∧ back = rows.map (backRow g sqrt sq) :=
  ⟨_, load_save_path_partial formatE18 sqrt sq parseDecimal g formatE18_safe hg header hcr rows hrows, by simp, rfl⟩

/-- the header has no influence on what is loaded: any two headers give the same table -/
theorem header_inert_fileobj (g : Nat → Nat) (hg : NumbersBack g) (sqrt sq : Nat → Nat)
    (h1 h2 : List Char) (rows : List (Nat × Nat × Nat)) (hrows : rows ≠ []) :
    loadText parseDecimal sq false (saveText formatE18 sqrt h1 rows)
      = loadText parseDecimal sq false (saveText formatE18 sqrt h2 rows) := by
  rw [load_save_fileobj formatE18 sqrt sq parseDecimal g formatE18_safe hg h1 rows hrows,
    load_save_fileobj formatE18 sqrt sq parseDecimal g formatE18_safe hg h2 rows hrows]

theorem header_inert_path_partial (g : Nat → Nat) (hg : NumbersBack g) (sqrt sq : Nat → Nat)
    (h1 h2 : List Char) (c1 : '\r' ∉ h1) (c2 : '\r' ∉ h2) (rows : List (Nat × Nat × Nat)) (hrows : rows ≠ []) :
    loadText parseDecimal sq true (saveText formatE18 sqrt h1 rows)
      = loadText parseDecimal sq true (saveText formatE18 sqrt h2 rows) := by
  rw [load_save_path_partial formatE18 sqrt sq parseDecimal g formatE18_safe hg h1 c1 rows hrows,
    load_save_path_partial formatE18 sqrt sq parseDecimal g formatE18_safe hg h2 c2 rows hrows]

/-- every header line is written behind a `#`: the lines of the file are comment lines followed
by exactly one line per row (and the empty piece after the last newline) -/
theorem header_lines_are_comments (sqrt : Nat → Nat) (header : List Char) (rows : List (Nat × Nat × Nat)) :
    ∃ ls : List (List Char), (∀ l ∈ ls, ∃ t, l = '#' :: t) ∧
      splitOn '\n' (saveText formatE18 sqrt header rows)
        = ls ++ (rows.map (rowLine formatE18 sqrt) ++ [[]]) := by
  obtain ⟨ls, hls, e⟩ := splitOn_header header (rows.map (rowText formatE18 sqrt)).flatten
  exact ⟨ls, hls, by unfold saveText; rw [e, splitOn_rows formatE18 sqrt formatE18_safe]⟩

/-! ## the full statement for paths is false: a toy printer / parser shows the phenomenon -/

def toyFmt (b : Bool) : List Char := if b then ['1'] else ['0']
def toyParse (s : List Char) : Option Bool := if s = ['1'] then some true else if s = ['0'] then some false else none

/-- "for every header" in path mode -/
def HeaderInertPathFull : Prop :=
  ∀ (F : Type) (fmt : F → List Char) (sqrt sq : F → F) (parse : List Char → Option F) (g : F → F),
    (∀ a, Safe (fmt a)) → (∀ a, parse (fmt a) = some (g a)) →
    ∀ (header : List Char) (rows : List (F × F × F)), rows ≠ [] →
      loadText parse sq true (saveText fmt sqrt header rows) = .ok (rows.map (backRow g sqrt sq))

/-- a bare carriage return in the header ends the comment for a text-mode reader: the rest of the
header is read as a table row (here `a\r1 1 1` adds the row `(1, 1, 1)`) -/
theorem header_inert_path_full_false : ¬ HeaderInertPathFull := by
  intro h
  have := h Bool toyFmt id id toyParse id (by intro a; cases a <;> simp [Safe, toyFmt])
    (by intro a; cases a <;> rfl) ['a', '\r', '1', ' ', '1', ' ', '1'] [(false, false, false)] (by simp)
  have e : loadText toyParse id true (saveText toyFmt id ['a', '\r', '1', ' ', '1', ' ', '1'] [(false, false, false)])
      = .ok [(true, true, true), (false, false, false)] := by rfl
  rw [e] at this
  simp [backRow] at this

/-! ## rounding of the printer: half a unit of the last digit -/

theorem roundHalfEven_spec (n d : Nat) (hd : 0 < d) :
    2 * n ≤ 2 * (roundHalfEven n d * d) + d ∧ 2 * (roundHalfEven n d * d) ≤ 2 * n + d :=
  Xye.roundHalfEven_spec n d hd

theorem half_of_scaled (R q d : ℝ) (hd : 0 < d) (lo : 2 * (q * d) ≤ 2 * (R * d) + d)
    (hi : 2 * (R * d) ≤ 2 * (q * d) + d) : |R - q| ≤ 1 / 2 :=
  Xye.half_of_scaled R q d hd lo hi

/-- the 19-digit integer the printer emits is within one half of the exactly scaled value -/
theorem digitsAt_half_ulp (num den : Nat) (hden : 0 < den) (k : Int) :
    |(digitsAt num den k : ℝ) - (num : ℝ) / den * (10 : ℝ) ^ (18 - k)| ≤ 1 / 2 :=
  Xye.digitsAt_half_ulp num den hden k

example : digitsAt 1 3 (-1) = 3333333333333333333 := by decide +kernel
example : roundHalfEven 5 2 = 2 ∧ roundHalfEven 7 2 = 4 := by decide

/-! ## print, then parse to the nearest element: identity -/

/-- For a set `S ⊂ ℝ` whose distinct elements are at least `γ·|x|` apart, any printer with
relative error `≤ ε`, `2ε < γ`, followed by any nearest-element parser, is the identity on `S`.
(binary64: `γ = 2^-53`; `%.18e`: `ε ≤ 10^-18`.) -/
theorem print_parse_id (S : Set ℝ) (γ ε : ℝ) (hε : 2 * ε < γ)
    (gap : ∀ x ∈ S, ∀ y ∈ S, x ≠ y → γ * |x| ≤ |x - y|)
    (print : ℝ → ℝ) (hprint : ∀ x ∈ S, |print x - x| ≤ ε * |x|)
    (parse : ℝ → ℝ) (hparse : ∀ p, parse p ∈ S ∧ ∀ z ∈ S, |p - parse p| ≤ |p - z|)
    (x : ℝ) (hx : x ∈ S) : parse (print x) = x := by
  by_contra hne
  set p := print x
  set y := parse p
  have hy := (hparse p).1
  have hnear := (hparse p).2 x hx
  have hp := hprint x hx
  have h1 : |x - y| ≤ 2 * ε * |x| := by
    calc |x - y| = |(p - y) - (p - x)| := by ring_nf
      _ ≤ |p - y| + |p - x| := abs_sub _ _
      _ ≤ |p - x| + |p - x| := by linarith
      _ ≤ 2 * ε * |x| := by linarith
  have h2 := gap x hx y hy (fun e => hne e.symm)
  have hx0 : |x| ≤ 0 := by
    by_contra hpos
    rw [not_le] at hpos
    nlinarith
  have hx0' : |x| = 0 := le_antisymm hx0 (abs_nonneg _)
  rw [hx0'] at hp h1
  have : x = y := by
    have := abs_nonneg (x - y)
    have h0 : |x - y| = 0 := by linarith
    exact sub_eq_zero.mp (abs_eq_zero.mp h0)
  exact hne this.symm

/-- the numeric side condition for binary64 and 19 significant digits -/
theorem eps_lt_gap : 2 * (10 : ℝ) ^ (-18 : ℤ) < (2 : ℝ) ^ (-53 : ℤ) := by
  rw [zpow_neg, zpow_neg, show ((10:ℝ) ^ (18:ℤ)) = 10 ^ 18 by norm_cast, show ((2:ℝ) ^ (53:ℤ)) = 2 ^ 53 by norm_cast]
  rw [← one_div, ← one_div, mul_one_div, div_lt_div_iff₀ (by positivity) (by positivity)]
  norm_num

example : ∃ (S : Set ℝ), (1 : ℝ) ∈ S ∧ ∀ x ∈ S, ∀ y ∈ S, x ≠ y → (2 : ℝ) ^ (-53 : ℤ) * |x| ≤ |x - y| :=
  ⟨{1}, rfl, by intro x hx y hy hne; exact absurd (hx.trans hy.symm) hne⟩

/-! ## variances: square root on save, square on load -/

/-- standard model: `fl(√v) = √v(1+δ₁)`, `fl(s²) = s²(1+δ₂)`, `|δᵢ| ≤ u ≤ 1`; the variance that comes
back differs from `v` by at most `((1+u)³-1)·v ≈ 3u·v` (no overflow / underflow) -/
theorem variance_few_ulp (v u d1 d2 : ℝ) (hv : 0 ≤ v) (hu0 : 0 ≤ u) (hu1 : u ≤ 1)
    (h1 : |d1| ≤ u) (h2 : |d2| ≤ u) :
    |(Real.sqrt v * (1 + d1)) ^ 2 * (1 + d2) - v| ≤ ((1 + u) ^ 3 - 1) * v := by
  have hs : Real.sqrt v ^ 2 = v := Real.sq_sqrt hv
  have e : (Real.sqrt v * (1 + d1)) ^ 2 * (1 + d2) - v = v * ((1 + d1) ^ 2 * (1 + d2) - 1) := by
    rw [mul_pow, hs]; ring
  rw [e, abs_mul, abs_of_nonneg hv, mul_comm]
  apply mul_le_mul_of_nonneg_right _ hv
  obtain ⟨a1, b1⟩ := abs_le.mp h1
  obtain ⟨a2, b2⟩ := abs_le.mp h2
  have p1 : 0 ≤ 1 + d1 := by linarith
  have p2 : 0 ≤ 1 + d2 := by linarith
  have q1 : (1 + d1) ^ 2 ≤ (1 + u) ^ 2 := by nlinarith
  have q1' : (1 - u) ^ 2 ≤ (1 + d1) ^ 2 := by nlinarith
  rw [abs_le]
  constructor
  · have : (1 - u) ^ 2 * (1 - u) ≤ (1 + d1) ^ 2 * (1 + d2) := by
      apply mul_le_mul q1' (by linarith) (by linarith) (by positivity)
    nlinarith [mul_nonneg hu0 hu0, mul_nonneg (mul_nonneg hu0 hu0) hu0]
  · have : (1 + d1) ^ 2 * (1 + d2) ≤ (1 + u) ^ 2 * (1 + u) := by
      apply mul_le_mul q1 (by linarith) p2 (by positivity)
    nlinarith

example : ((1 + (2:ℝ)^(-53:ℤ)) ^ 3 - 1) ≤ 4 * (2:ℝ)^(-53:ℤ) := by
  have h : (2:ℝ)^(-53:ℤ) ≤ 1/8 := by
    rw [zpow_neg, show ((2:ℝ) ^ (53:ℤ)) = 2 ^ 53 by norm_cast, ← one_div, div_le_div_iff₀ (by positivity) (by positivity)]
    norm_num
  have h0 : (0:ℝ) ≤ (2:ℝ)^(-53:ℤ) := by positivity
  generalize (2:ℝ)^(-53:ℤ) = t at *
  nlinarith [mul_nonneg h0 h0, mul_nonneg h0 (sub_nonneg.mpr h), mul_nonneg (mul_nonneg h0 h0) (sub_nonneg.mpr h)]

/-! ## binary64: the set, its gaps, and the printer's error (Tier 2) -/

/-- **(1) binary64 gap**, relative: two distinct finite binary64 numbers (`±m·2^e`, `m < 2^53`,
`-1074 ≤ e ≤ 971`) are at least `2^-53·max(|x|,|y|)` apart -/
theorem binary64_gap {x y : ℝ} (hx : Binary64.B64 x) (hy : Binary64.B64 y) (hne : x ≠ y) :
    (2 : ℝ) ^ (-53 : ℤ) * max |x| |y| ≤ |x - y| := Binary64.binary64_gap hx hy hne

/-- **(1) binary64 gap**, absolute (the one that matters for subnormals) -/
theorem binary64_abs_gap {x y : ℝ} (hx : Binary64.B64 x) (hy : Binary64.B64 y) (hne : x ≠ y) :
    (2 : ℝ) ^ (-1074 : ℤ) ≤ |x - y| := Binary64.binary64_abs_gap hx hy hne

/-- every finite bit pattern denotes an element of that set -/
theorem finite_bits_in_B64 (b : Nat) (hfin : (decode b).2.1 ≠ 2047) : Binary64.B64 (absReal b) :=
  absReal_mem b hfin

/-- `print_parse_id` with its gap hypothesis discharged for binary64: any printer with relative
error `≤ ½·10^-18` followed by any nearest-element parser is the identity on the binary64 numbers -/
theorem print_parse_id_binary64 (print : ℝ → ℝ)
    (hprint : ∀ x, Binary64.B64 x → |print x - x| ≤ 1 / 2 * (10 : ℝ) ^ (-18 : ℤ) * |x|)
    (parse : ℝ → ℝ) (hparse : ∀ p, Binary64.B64 (parse p) ∧ ∀ z, Binary64.B64 z → |p - parse p| ≤ |p - z|)
    (x : ℝ) (hx : Binary64.B64 x) : parse (print x) = x := by
  apply print_parse_id {x | Binary64.B64 x} ((2 : ℝ) ^ (-53 : ℤ)) (1 / 2 * (10 : ℝ) ^ (-18 : ℤ)) ?_ ?_
    print hprint parse hparse x hx
  · have := eps_lt_gap; linarith [show (0 : ℝ) < (10 : ℝ) ^ (-18 : ℤ) by positivity]
  · intro x hx y hy hne
    exact Binary64.sig53_gap_left hx.sig53 hy.sig53 hne

/-- **(2) `formatE18_error`**: for a finite non-zero bit pattern `b` the model's printer emits the
sign of `b`, 19 significant digits `10^18 ≤ D < 10^19` and an exponent `k`, the text is
`formatFinite neg D k = [-]d.dddddddddddddddddde±XX`, and the number it denotes, `D·10^(k-18)`, is
within `½·10^-18` relative of `|x|` -/
theorem formatE18_error (b : Nat) (hfin : (decode b).2.1 ≠ 2047) (hnz : sigOf b ≠ 0) :
    ∃ (D : Nat) (k : Int), formatE18 b = formatFinite (decode b).1 D k ∧ 10 ^ 18 ≤ D ∧ D < 10 ^ 19 ∧
      |(D : ℝ) * (10 : ℝ) ^ (k - 18) - absReal b| ≤ 1 / 2 * (10 : ℝ) ^ (-18 : ℤ) * absReal b := by
  obtain ⟨D, k, hc, h1, h2, h3⟩ := classify_finite b hfin hnz
  exact ⟨D, k, by simp [formatE18, hc, render], h1, h2, h3⟩

/-- **(2) the text denotes those digits**: the model's parser reads the printed text back as
exactly `±D·10^(k-18)` (`decodeE18` is the parser's own tokenizer `parseLit`) -/
theorem formatE18_decodes (b : Nat) (hfin : (decode b).2.1 ≠ 2047) (hnz : sigOf b ≠ 0) :
    ∃ (D : Nat) (k : Int), classify b = .fin (decode b).1 D k ∧
      parseLit (formatE18 b) = some (.num (decode b).1 D (k - 18)) ∧
      parseDecimal (formatE18 b) = some (litBits (.num (decode b).1 D (k - 18))) := by
  obtain ⟨D, k, hc, _, h2, _⟩ := classify_finite b hfin hnz
  have hp : parseLit (formatE18 b) = some (.num (decode b).1 D (k - 18)) := by
    simp only [formatE18, hc, render]; exact parseLit_formatFinite D h2 k _
  exact ⟨D, k, hc, hp, by simp [parseDecimal, hp]⟩

/-- both zeros come back bit for bit -/
theorem zeros_back (b : Nat) (hb : b < 2 ^ 64) (hfin : (decode b).2.1 ≠ 2047) (hz : sigOf b = 0) :
    parseDecimal (formatE18 b) = some b := by
  have hc := classify_zero b hfin hz
  have hp : parseLit (formatE18 b) = some (.num (decode b).1 0 (0 - 18)) := by
    simp only [formatE18, hc, render]; exact parseLit_formatFinite 0 (by norm_num) 0 _
  simp only [parseDecimal, hp, Option.map_some, litBits, if_true, Option.some.injEq]
  -- the bit pattern of a zero is its sign bit
  have hz' : (decode b).2.1 = 0 ∧ (decode b).2.2 = 0 := by
    unfold sigOf at hz
    split at hz
    · rename_i h; exact ⟨h, hz⟩
    · omega
  simp only [decode] at hz' ⊢
  obtain ⟨h0, h1⟩ := hz'
  by_cases hs : b / 2 ^ 63 % 2 = 1
  · simp only [hs, decide_true, if_true]; omega
  · simp only [hs, decide_false, Bool.false_eq_true, if_false]; omega

/-! ## what remains of the number-level round trip -/

/-- **(3)** (proved below as `parser_nearest`; the `_partial` theorems that take it as a
hypothesis are kept under their names): the rounding core of the model's parser (`litBits`, i.e.
`nearestBits` with `binExpFrom` and `roundHalfEven`) maps a decimal `D·10^(k-18)` that is within
`½·10^-18` relative of the finite non-zero binary64 `b` back to the bit pattern `b`.
By `binary64_gap` that decimal is closer to `b` than to any other binary64 number (this is
`print_parse_id_binary64`), so the hypothesis says exactly that `nearestBits` returns the nearest
binary64. -/
def ParserNearest : Prop :=
  ∀ (b : Nat) (D : Nat) (k : Int), b < 2 ^ 64 → (decode b).2.1 ≠ 2047 → sigOf b ≠ 0 →
    10 ^ 18 ≤ D → D < 10 ^ 19 →
    |(D : ℝ) * (10 : ℝ) ^ (k - 18) - absReal b| ≤ 1 / 2 * (10 : ℝ) ^ (-18 : ℤ) * absReal b →
    litBits (.num (decode b).1 D (k - 18)) = b

/-- **(4) `numbers_back`, partial**: every finite binary64 bit pattern survives
`parseDecimal ∘ formatE18` — text generation, tokenizing, digit evaluation and the printer's
rounding are proved; the parser's rounding enters as `ParserNearest` -/
theorem numbers_back_partial (hN : ParserNearest) (b : Nat) (hb : b < 2 ^ 64)
    (hfin : (decode b).2.1 ≠ 2047) : parseDecimal (formatE18 b) = some b := by
  by_cases hz : sigOf b = 0
  · exact zeros_back b hb hfin hz
  · obtain ⟨D, k, hc, h1, h2, h3⟩ := classify_finite b hfin hz
    obtain ⟨D', k', hc', _, hp⟩ := formatE18_decodes b hfin hz
    rw [hc] at hc'
    injection hc' with _ hD hk
    subst hD; subst hk
    rw [hp, hN b D k hb hfin hz h1 h2 h3]

/-- what comes back for an arbitrary bit pattern (finite, infinite or NaN) -/
def gBack (b : Nat) : Nat := (parseDecimal (formatE18 b)).getD 0

theorem gBack_finite (hN : ParserNearest) (b : Nat) (hb : b < 2 ^ 64) (hfin : (decode b).2.1 ≠ 2047) :
    gBack b = b := by simp [gBack, numbers_back_partial hN b hb hfin]

/-- the text the printer writes always parses (finite numbers by `parseLit_formatFinite`,
infinities and NaN by evaluation): the former *hypothesis* `NumbersBack` holds outright for
`gBack`, and under `ParserNearest` `gBack b = b` for every finite `b` (`gBack_finite`) -/
theorem numbersBack_gBack : NumbersBack gBack := by
  intro b
  have hsome : ∃ v, parseDecimal (formatE18 b) = some v := by
    by_cases hfin : (decode b).2.1 ≠ 2047
    · by_cases hz : sigOf b = 0
      · have hc := classify_zero b hfin hz
        have hp : parseLit (formatE18 b) = some (.num (decode b).1 0 (0 - 18)) := by
          simp only [formatE18, hc, render]; exact parseLit_formatFinite 0 (by norm_num) 0 _
        exact ⟨_, by rw [parseDecimal, hp]; rfl⟩
      · obtain ⟨D, k, _, _, hp⟩ := formatE18_decodes b hfin hz
        exact ⟨_, hp⟩
    · have hfin' : (decode b).2.1 = 2047 := by simpa using hfin
      have hcl : classify b = .nan ∨ classify b = .inf true ∨ classify b = .inf false := by
        unfold classify
        simp only [hfin', if_true]
        split
        · cases (decode b).1 <;> simp
        · simp
      rcases hcl with h | h | h <;> simp only [formatE18, h] <;> exact ⟨_, rfl⟩
  obtain ⟨v, hv⟩ := hsome
  simp [gBack, hv]

/-- `n ≥ 1` rows give `n` rows back — file objects, any header — **without** the `NumbersBack`
hypothesis; the coordinate and value columns come back as `gBack x`, `gBack y`, which are `x`, `y`
themselves for finite numbers under `ParserNearest` -/
theorem rows_any_n_fileobj_concrete (sqrt sq : Nat → Nat) (header : List Char)
    (rows : List (Nat × Nat × Nat)) (hrows : rows ≠ []) :
    ∃ back, loadText parseDecimal sq false (saveText formatE18 sqrt header rows) = .ok back
      ∧ back.length = rows.length ∧ back = rows.map (backRow gBack sqrt sq) :=
  rows_any_n_fileobj gBack numbersBack_gBack sqrt sq header rows hrows

theorem rows_any_n_path_concrete_partial (sqrt sq : Nat → Nat) (header : List Char) (hcr : '\r' ∉ header)
    (rows : List (Nat × Nat × Nat)) (hrows : rows ≠ []) :
    ∃ back, loadText parseDecimal sq true (saveText formatE18 sqrt header rows) = .ok back
      ∧ back.length = rows.length ∧ back = rows.map (backRow gBack sqrt sq) :=
  rows_any_n_path_partial gBack numbersBack_gBack sqrt sq header hcr rows hrows

theorem header_inert_fileobj_concrete (sqrt sq : Nat → Nat) (h1 h2 : List Char)
    (rows : List (Nat × Nat × Nat)) (hrows : rows ≠ []) :
    loadText parseDecimal sq false (saveText formatE18 sqrt h1 rows)
      = loadText parseDecimal sq false (saveText formatE18 sqrt h2 rows) :=
  header_inert_fileobj gBack numbersBack_gBack sqrt sq h1 h2 rows hrows

/-- coordinates and values of finite rows come back bit for bit (under `ParserNearest`) -/
theorem coord_value_bit_exact_partial (hN : ParserNearest) (sqrt sq : Nat → Nat) (r : Nat × Nat × Nat)
    (hx : r.1 < 2 ^ 64 ∧ (decode r.1).2.1 ≠ 2047) (hy : r.2.1 < 2 ^ 64 ∧ (decode r.2.1).2.1 ≠ 2047) :
    (backRow gBack sqrt sq r).1 = r.1 ∧ (backRow gBack sqrt sq r).2.1 = r.2.1 :=
  ⟨gBack_finite hN r.1 hx.1 hx.2, gBack_finite hN r.2.1 hy.1 hy.2⟩


/-! ## the parser's rounding, and the unconditional number-level round trip -/

/-- **(3a)** the exponent search of the parser brackets the value: `2^52 ≤ v/2^E < 2^53`, or
`E = -1074` with only the upper bound (for every positive rational below `2^1025`) -/
theorem binExp_brackets (num den : Nat) (hden : 0 < den) (hhi : (num : ℝ) / den < 2 ^ 1025) :
    -1074 ≤ binExp num den ∧ (num : ℝ) / den / (2 : ℝ) ^ binExp num den < 2 ^ 53 ∧
      (2 ^ 52 ≤ (num : ℝ) / den / (2 : ℝ) ^ binExp num den ∨ binExp num den = -1074) :=
  Xye.binExp_spec num den hden hhi

/-- **(3b) the parser's rounding**: a positive rational within an eighth of a unit in the last
place of the canonical binary64 `m·2^e` (normal `2^52 ≤ m < 2^53`, or subnormal `m < 2^52`,
`e = -1074`; also just below a binade boundary) is mapped by `nearestBits` to the exponent and
fraction fields of exactly that number -/
theorem nearestBits_of_close (num den : Nat) (hden : 0 < den) (m : Nat) (e : Int) (hm : m < 2 ^ 53)
    (he : -1074 ≤ e) (he2 : e ≤ 971) (hcanon : 2 ^ 52 ≤ m ∨ e = -1074)
    (hclose : |(num : ℝ) / den - (m : ℝ) * (2 : ℝ) ^ e| ≤ 1 / 8 * (2 : ℝ) ^ e) :
    nearestBits num den = packBits m e :=
  Xye.nearestBits_of_close num den hden m e hm he he2 hcanon hclose

/-- **(3) `parser_nearest`**: the last hypothesis of the number-level round trip holds -/
theorem parser_nearest : ParserNearest :=
  fun b D k hb hfin hnz h1 h2 herr => Xye.litBits_of_close b D k hb hfin hnz h1 h2 herr

/-- **(4) `numbers_back`**: every finite binary64 bit pattern survives printing with `%.18e` and
parsing, in the model, bit for bit — no hypothesis left -/
theorem numbers_back (b : Nat) (hb : b < 2 ^ 64) (hfin : (decode b).2.1 ≠ 2047) :
    parseDecimal (formatE18 b) = some b := numbers_back_partial parser_nearest b hb hfin

theorem gBack_finite_eq (b : Nat) (hb : b < 2 ^ 64) (hfin : (decode b).2.1 ≠ 2047) : gBack b = b :=
  gBack_finite parser_nearest b hb hfin

/-- coordinates and values of finite rows come back bit for bit -/
theorem coord_value_bit_exact (sqrt sq : Nat → Nat) (r : Nat × Nat × Nat)
    (hx : r.1 < 2 ^ 64 ∧ (decode r.1).2.1 ≠ 2047) (hy : r.2.1 < 2 ^ 64 ∧ (decode r.2.1).2.1 ≠ 2047) :
    (backRow gBack sqrt sq r).1 = r.1 ∧ (backRow gBack sqrt sq r).2.1 = r.2.1 :=
  coord_value_bit_exact_partial parser_nearest sqrt sq r hx hy

/-- **the C15 round trip of the model, end to end**: for every header (file objects) and every
`n ≥ 1` rows of finite numbers, loading the saved text gives `n` rows whose coordinate and value are
the bit patterns written, and whose third entry is `sq (gBack (sqrt v))` -/
theorem xye_roundtrip_fileobj (sqrt sq : Nat → Nat) (header : List Char) (rows : List (Nat × Nat × Nat))
    (hrows : rows ≠ [])
    (hfin : ∀ r ∈ rows, (r.1 < 2 ^ 64 ∧ (decode r.1).2.1 ≠ 2047) ∧ (r.2.1 < 2 ^ 64 ∧ (decode r.2.1).2.1 ≠ 2047)) :
    ∃ back, loadText parseDecimal sq false (saveText formatE18 sqrt header rows) = .ok back ∧
      back.length = rows.length ∧
      ∀ i (h1 : i < back.length) (h2 : i < rows.length),
        (back[i]).1 = (rows[i]).1 ∧ (back[i]).2.1 = (rows[i]).2.1 := by
  obtain ⟨back, hb, hlen, hmap⟩ := rows_any_n_fileobj_concrete sqrt sq header rows hrows
  refine ⟨back, hb, hlen, ?_⟩
  intro i h1 h2
  subst hmap
  simp only [List.getElem_map]
  exact coord_value_bit_exact sqrt sq rows[i] (hfin _ (List.getElem_mem h2)).1 (hfin _ (List.getElem_mem h2)).2

/-! ## header rewriting statements of `save_xye` (regenerated from the source on every run) -/

/-- the repair `header.replace('\r\n', '\n').replace('\r', '\n')` -/
def crFix : List (List Char × List Char) := [(['\r', '\n'], ['\n']), (['\r'], ['\n'])]

theorem replace_cr_no_cr (s : List Char) : '\r' ∉ replaceSubAux ['\r'] ['\n'] 0 s := by
  induction s with
  | nil => simp [replaceSubAux]
  | cons c cs ih =>
    unfold replaceSubAux
    split
    · simp only [List.length_cons, List.length_nil, Nat.zero_add, Nat.sub_self, List.cons_append,
        List.nil_append, List.mem_cons, not_or]
      exact ⟨by decide, ih⟩
    · rename_i hc
      simp only [List.mem_cons, not_or]
      refine ⟨?_, ih⟩
      intro e; apply hc; subst e; simp [List.isPrefixOf]

/-- with the repair in place no carriage return reaches `savetxt`, whatever the header -/
theorem normalize_crFix_no_cr (header : List Char) : '\r' ∉ normalizeHeader crFix header := by
  simp only [normalizeHeader, crFix, List.foldl_cons, List.foldl_nil, replaceSub]
  exact replace_cr_no_cr _

/-- **paths, any header**: if the source contains the repair (`Gen.Xye.headerReplacements`, which
the translator re-extracts from `save_xye` on every run, equals `crFix`), loading the saved file
returns exactly the rows for every header and every `n ≥ 1`. For the unrepaired source the list is
empty and `load_save_path_partial` (no carriage return in the header) is what holds. -/
theorem load_save_path_of_fix {F : Type} (fmt : F → List Char) (sqrt sq : F → F)
    (parse : List Char → Option F) (g : F → F)
    (hfix : Gen.Xye.headerReplacements = crFix)
    (hs : ∀ a, Safe (fmt a)) (hp : ∀ a, parse (fmt a) = some (g a))
    (header : List Char) (rows : List (F × F × F)) (hrows : rows ≠ []) :
    loadText parse sq true (saveXye Gen.Xye.headerReplacements fmt sqrt header rows)
      = .ok (rows.map (backRow g sqrt sq)) := by
  unfold saveXye
  rw [hfix]
  exact load_save_path_partial fmt sqrt sq parse g hs hp _ (normalize_crFix_no_cr header) rows hrows

/-- the source as translated: either no rewriting (original) or exactly the repair -/
theorem header_rewriting_known :
    Gen.Xye.untranslated = false ∧
      (Gen.Xye.headerReplacements = [] ∨ Gen.Xye.headerReplacements = crFix) := by
  decide

end ScnVerif.Props.C15
