import ScnVerif.Model.Filtering
import ScnVerif.Lemmas.ChopperRound
import Mathlib.Tactic.Ring
import Mathlib.Tactic.Linarith
import Mathlib.Data.Real.Basic
import Mathlib.Algebra.Order.Floor.Ring
import Mathlib.Algebra.Order.Round
import Mathlib.Algebra.Order.Archimedean.Real.Basic
import Mathlib.Tactic.FieldSimp
import Mathlib.Tactic.Positivity
/-!
# C19 — plateau finding and in-phase filtering return exactly the defined selections

The grouping theorems hold for every list of "slope exceeds the tolerance" flags, i.e. for every
series length, coordinate type and tolerance; they are proved by induction over the slope list.
-/
namespace ScnVerif.Props.C19
open ScnVerif ScnVerif.Filtering ScnVerif.ChopperRat ScnVerif.Lemmas.ChopperRound

/-! ## The run formulation -/

/-- bins as runs: a new bin starts after every exceeding slope. `s l` = start and length of the open bin. -/
def runs : Nat → Nat → List Bool → List (Nat × Nat)
  | s, l, [] => [(s, l)]
  | s, l, true :: es => (s, l) :: runs (s + l) 1 es
  | s, l, false :: es => runs s (l + 1) es

theorem chunk_cumsum (ex : List Bool) : ∀ s l g, chunk s l g (cumsumFrom g ex) = runs s l ex := by
  induction ex with
  | nil => intro s l g; rfl
  | cons e es ih =>
    intro s l g
    cases e with
    | true =>
      simp only [cumsumFrom, if_true, chunk, runs]
      rw [if_neg (by omega), ih]
    | false =>
      simp only [cumsumFrom, chunk, runs]
      simp [ih]

/-- the group-id formulation of the code (cumulative count of exceeding slopes, then `group`)
produces exactly the runs -/
theorem groups_eq_runs (ex : List Bool) : groups ex = runs 0 1 ex := by
  simp [groups, groupIds, chunk_cumsum]

/-! ## Maximal runs (specification) -/

def EndsTrue (pre : List Bool) : Prop := pre = [] ∨ ∃ p, pre = p ++ [true]
def StartsTrue (post : List Bool) : Prop := post = [] ∨ ∃ q, post = true :: q

theorem mem_runs (es : List Bool) : ∀ s l a b, (a, b) ∈ runs s l es ↔
    (a = s ∧ ∃ m post, es = List.replicate m false ++ post ∧ StartsTrue post ∧ b = l + m) ∨
    (∃ pre m post, es = pre ++ true :: (List.replicate m false ++ post) ∧ StartsTrue post ∧
      a = s + l + pre.length ∧ b = m + 1) := by
  induction es with
  | nil =>
    intro s l a b
    simp only [runs, List.mem_singleton, Prod.mk.injEq]
    constructor
    · rintro ⟨rfl, rfl⟩
      exact Or.inl ⟨rfl, 0, [], by simp, Or.inl rfl, by omega⟩
    · rintro (⟨rfl, m, post, h, _, rfl⟩ | ⟨pre, m, post, h, _⟩)
      · have : m = 0 := by
          cases m with
          | zero => rfl
          | succ k => simp [List.replicate_succ] at h
        subst this; exact ⟨rfl, by omega⟩
      · simp at h
  | cons e t ih =>
    intro s l a b
    cases e with
    | true =>
      simp only [runs, List.mem_cons, Prod.mk.injEq, ih]
      constructor
      · rintro (⟨rfl, rfl⟩ | ⟨rfl, m, post, h, hp, rfl⟩ | ⟨pre, m, post, h, hp, rfl, rfl⟩)
        · exact Or.inl ⟨rfl, 0, true :: t, by simp, Or.inr ⟨t, rfl⟩, by omega⟩
        · exact Or.inr ⟨[], m, post, by simp [h], hp, by simp, by omega⟩
        · exact Or.inr ⟨true :: pre, m, post, by simp [h], hp, by simp; omega, rfl⟩
      · rintro (⟨rfl, m, post, h, hp, rfl⟩ | ⟨pre, m, post, h, hp, rfl, rfl⟩)
        · cases m with
          | zero => exact Or.inl ⟨rfl, by omega⟩
          | succ k => simp [List.replicate_succ] at h
        · cases pre with
          | nil =>
            simp only [List.nil_append, List.cons.injEq, true_and] at h
            exact Or.inr (Or.inl ⟨by simp, m, post, h, hp, by omega⟩)
          | cons x pre' =>
            simp only [List.cons_append, List.cons.injEq] at h
            exact Or.inr (Or.inr ⟨pre', m, post, h.2, hp, by simp; omega, rfl⟩)
    | false =>
      simp only [runs, ih]
      constructor
      · rintro (⟨rfl, m, post, h, hp, rfl⟩ | ⟨pre, m, post, h, hp, rfl, rfl⟩)
        · exact Or.inl ⟨rfl, m + 1, post, by simp [List.replicate_succ, h], hp, by omega⟩
        · exact Or.inr ⟨false :: pre, m, post, by simp [h], hp, by simp; omega, rfl⟩
      · rintro (⟨rfl, m, post, h, hp, rfl⟩ | ⟨pre, m, post, h, hp, rfl, rfl⟩)
        · cases m with
          | zero =>
            simp only [List.replicate_zero, List.nil_append] at h
            rcases hp with hp | ⟨q, hq⟩
            · simp [hp] at h
            · simp [hq] at h
          | succ k =>
            simp only [List.replicate_succ, List.cons_append, List.cons.injEq, true_and] at h
            exact Or.inl ⟨rfl, k, post, h, hp, by omega⟩
        · cases pre with
          | nil => simp at h
          | cons x pre' =>
            simp only [List.cons_append, List.cons.injEq] at h
            exact Or.inr ⟨pre', m, post, h.2, hp, by simp; omega, rfl⟩


/-- **Specification.** The index interval `[i, i+len)` of the points is a *maximal run*: the
slope list splits as `pre ++ (len-1 slopes within tolerance) ++ post`, where `pre` has `i`
entries and is empty or ends with an exceeding slope, and `post` is empty or starts with an
exceeding slope. -/
def IsMaxRun (ex : List Bool) (i len : Nat) : Prop :=
  ∃ pre post, ex = pre ++ (List.replicate (len - 1) false ++ post) ∧ pre.length = i ∧ 1 ≤ len ∧
    EndsTrue pre ∧ StartsTrue post

/-- the bins produced by grouping on the cumulative count are exactly the maximal runs -/
theorem groups_are_maximal_runs (ex : List Bool) (i len : Nat) :
    (i, len) ∈ groups ex ↔ IsMaxRun ex i len := by
  rw [groups_eq_runs, mem_runs]
  constructor
  · rintro (⟨rfl, m, post, h, hp, rfl⟩ | ⟨pre, m, post, h, hp, rfl, rfl⟩)
    · exact ⟨[], post, by simpa using h, rfl, by omega, Or.inl rfl, hp⟩
    · refine ⟨pre ++ [true], post, by simp [h], by simp; omega, by omega, Or.inr ⟨pre, rfl⟩, hp⟩
  · rintro ⟨pre, post, h, rfl, hl, hpre, hpost⟩
    rcases hpre with rfl | ⟨p, rfl⟩
    · exact Or.inl ⟨rfl, len - 1, post, by simpa using h, hpost, by omega⟩
    · exact Or.inr ⟨p, len - 1, post, by simp [h], hpost, by simp; omega, by omega⟩

/-- **plateaus_are_maximal_runs**: a bin is returned iff it is a maximal run with at least
`min_n_points` points -/
theorem plateaus_are_maximal_runs (ex : List Bool) (minN i len : Nat) :
    (i, len) ∈ findPlateausIdx ex minN ↔ IsMaxRun ex i len ∧ minN ≤ len := by
  simp [findPlateausIdx, List.mem_filter, groups_are_maximal_runs]

/-- **none_missing**: every maximal run that is long enough is among the returned bins -/
theorem none_missing (ex : List Bool) (minN i len : Nat) (h : IsMaxRun ex i len) (hl : minN ≤ len) :
    (i, len) ∈ findPlateausIdx ex minN :=
  (plateaus_are_maximal_runs ex minN i len).mpr ⟨h, hl⟩

example : IsMaxRun [false, true, false, false] 2 3 :=
  ⟨[false, true], [], by decide, rfl, by decide, Or.inr ⟨[false], rfl⟩, Or.inl rfl⟩
example : findPlateausIdx [false, true, false, false] 3 = [(2, 3)] := by decide

/-! ### the same specification by indices -/

/-- index form of the specification: no exceeding slope strictly inside, an exceeding slope (or
the end of the series) on either side -/
def IsMaxRunIdx (ex : List Bool) (i len : Nat) : Prop :=
  1 ≤ len ∧ i + len ≤ ex.length + 1 ∧
  (∀ k, i ≤ k → k + 1 < i + len → ex[k]? = some false) ∧
  (i = 0 ∨ ex[i - 1]? = some true) ∧
  (i + len = ex.length + 1 ∨ ex[i + len - 1]? = some true)

theorem isMaxRun_idx_of_isMaxRun {ex : List Bool} {i len : Nat} (h : IsMaxRun ex i len) :
    IsMaxRunIdx ex i len := by
  obtain ⟨pre, post, rfl, rfl, hl, hpre, hpost⟩ := h
  refine ⟨hl, by simp; omega, ?_, ?_, ?_⟩
  · intro k hk1 hk2
    rw [List.getElem?_append_right hk1, List.getElem?_append_left (by simp; omega)]
    rw [List.getElem?_replicate]
    have : k - pre.length < len - 1 := by omega
    simp [this]
  · rcases hpre with rfl | ⟨p, rfl⟩
    · exact Or.inl rfl
    · right; simp
  · rcases hpost with rfl | ⟨q, rfl⟩
    · left; simp; omega
    · right
      rw [List.getElem?_append_right (by omega), List.getElem?_append_right (by simp; omega)]
      simp
      have : pre.length + len - 1 - pre.length - (len - 1) = 0 := by omega
      simp [this]

theorem isMaxRun_of_isMaxRunIdx {ex : List Bool} {i len : Nat} (h : IsMaxRunIdx ex i len) :
    IsMaxRun ex i len := by
  obtain ⟨hl, hb, hin, hpre, hpost⟩ := h
  refine ⟨ex.take i, ex.drop (i + len - 1), ?_, by simp; omega, hl, ?_, ?_⟩
  · have hmid : (ex.drop i).take (len - 1) = List.replicate (len - 1) false := by
      apply List.ext_getElem?
      intro k
      by_cases hk : k < len - 1
      · rw [List.getElem?_take_of_lt hk, List.getElem?_drop, hin (i + k) (by omega) (by omega)]
        simp [hk]
      · simp [hk]
    have h1 : ex = ex.take i ++ ex.drop i := (List.take_append_drop i ex).symm
    have h2 : ex.drop i = (ex.drop i).take (len - 1) ++ (ex.drop i).drop (len - 1) :=
      (List.take_append_drop _ _).symm
    have h3 : (ex.drop i).drop (len - 1) = ex.drop (i + len - 1) := by
      rw [List.drop_drop]; congr 1; omega
    rw [← hmid, ← h3, ← h2, ← h1]
  · cases i with
    | zero => left; simp
    | succ j =>
      right
      rcases hpre with h0 | hp
      · omega
      · refine ⟨ex.take j, ?_⟩
        rw [List.take_add_one]
        simp at hp
        simp [hp]
  · rcases hpost with he | hp
    · left
      apply List.drop_eq_nil_of_le; omega
    · right
      obtain ⟨hlt, hv⟩ := List.getElem?_eq_some_iff.mp hp
      exact ⟨ex.drop (i + len - 1 + 1), by rw [List.drop_eq_getElem_cons hlt, hv]⟩

theorem isMaxRun_iff_idx (ex : List Bool) (i len : Nat) : IsMaxRun ex i len ↔ IsMaxRunIdx ex i len :=
  ⟨isMaxRun_idx_of_isMaxRun, isMaxRun_of_isMaxRunIdx⟩

/-- **plateaus_are_maximal_runs**, index form: the bin `[i, i+len)` is returned iff it has at least
`min_n_points` points, no slope strictly inside exceeds the tolerance, and it is bounded on
each side by an exceeding slope or by the end of the series -/
theorem plateaus_are_maximal_runs_idx (ex : List Bool) (minN i len : Nat) :
    (i, len) ∈ findPlateausIdx ex minN ↔ IsMaxRunIdx ex i len ∧ minN ≤ len := by
  rw [plateaus_are_maximal_runs, isMaxRun_iff_idx]

/-! ## Disjoint, in input order, covering -/

/-- `L` tiles the index interval `[a, b)` with non-empty consecutive bins -/
def Tiles : Nat → List (Nat × Nat) → Nat → Prop
  | a, [], b => a = b
  | a, r :: rest, b => r.1 = a ∧ 1 ≤ r.2 ∧ Tiles (a + r.2) rest b

theorem runs_tile (es : List Bool) : ∀ s l, 1 ≤ l → Tiles s (runs s l es) (s + l + es.length) := by
  induction es with
  | nil => intro s l hl; exact ⟨rfl, hl, rfl⟩
  | cons e t ih =>
    intro s l hl
    cases e with
    | true =>
      refine ⟨rfl, hl, ?_⟩
      have := ih (s + l) 1 (le_refl 1)
      simpa [Nat.add_assoc, Nat.add_comm, Nat.add_left_comm] using this
    | false =>
      have := ih s (l + 1) (by omega)
      simpa [runs, Nat.add_assoc, Nat.add_comm, Nat.add_left_comm] using this

/-- the groups tile the whole series: every point is in exactly one group, groups are in input order -/
theorem groups_tile (ex : List Bool) : Tiles 0 (groups ex) (ex.length + 1) := by
  rw [groups_eq_runs]
  have := runs_tile ex 0 1 (le_refl 1)
  rwa [show 0 + 1 + ex.length = ex.length + 1 by omega] at this

theorem tiles_bounds : ∀ (L : List (Nat × Nat)) (a b : Nat), Tiles a L b →
    a ≤ b ∧ ∀ r ∈ L, a ≤ r.1 ∧ r.1 + r.2 ≤ b ∧ 1 ≤ r.2
  | [], a, b, h => by simp [Tiles] at h; subst h; simp
  | r :: rest, a, b, h => by
    obtain ⟨h1, h2, h3⟩ := h
    obtain ⟨hab, hr⟩ := tiles_bounds rest _ _ h3
    refine ⟨by omega, ?_⟩
    intro x hx
    rcases List.mem_cons.mp hx with rfl | hx
    · exact ⟨by omega, by omega, h2⟩
    · have := hr x hx; exact ⟨by omega, this.2.1, this.2.2⟩

theorem tiles_pairwise : ∀ (L : List (Nat × Nat)) (a b : Nat), Tiles a L b →
    L.Pairwise (fun r r' => r.1 + r.2 ≤ r'.1)
  | [], _, _, _ => List.Pairwise.nil
  | r :: rest, a, b, h => by
    obtain ⟨h1, _, h3⟩ := h
    refine List.Pairwise.cons ?_ (tiles_pairwise rest _ _ h3)
    intro x hx
    have := (tiles_bounds rest _ _ h3).2 x hx
    omega

theorem tiles_cover : ∀ (L : List (Nat × Nat)) (a b : Nat), Tiles a L b →
    ∀ i, a ≤ i → i < b → ∃ r ∈ L, r.1 ≤ i ∧ i < r.1 + r.2
  | [], a, b, h => by simp [Tiles] at h; subst h; intro i h1 h2; omega
  | r :: rest, a, b, h => by
    obtain ⟨h1, h2, h3⟩ := h
    intro i hi1 hi2
    by_cases hlt : i < a + r.2
    · exact ⟨r, by simp, by omega, by omega⟩
    · obtain ⟨x, hx, hx'⟩ := tiles_cover rest _ _ h3 i (by omega) hi2
      exact ⟨x, List.mem_cons_of_mem _ hx, hx'⟩

/-- **disjoint, in_input_order**: each returned bin ends before the next one begins -/
theorem plateaus_disjoint_in_input_order (ex : List Bool) (minN : Nat) :
    (findPlateausIdx ex minN).Pairwise (fun r r' => r.1 + r.2 ≤ r'.1) :=
  (tiles_pairwise _ _ _ (groups_tile ex)).sublist List.filter_sublist

/-- bins are non-empty index ranges of the input -/
theorem plateaus_within_input (ex : List Bool) (minN : Nat) :
    ∀ r ∈ findPlateausIdx ex minN, 1 ≤ r.2 ∧ r.1 + r.2 ≤ ex.length + 1 ∧ minN ≤ r.2 := by
  intro r hr
  have hm := List.mem_filter.mp hr
  have := (tiles_bounds _ _ _ (groups_tile ex)).2 r hm.1
  exact ⟨this.2.2, this.2.1, by simpa using hm.2⟩

/-- every point of the series lies in exactly one group (before the size filter) -/
theorem every_point_in_one_group (ex : List Bool) (i : Nat) (hi : i < ex.length + 1) :
    ∃ r ∈ groups ex, r.1 ≤ i ∧ i < r.1 + r.2 :=
  tiles_cover _ _ _ (groups_tile ex) i (Nat.zero_le _) hi

/-- **points_unchanged**: a bin holds exactly the input points of its index range, in order -/
theorem points_unchanged {β : Type} (pts : List β) (r : Nat × Nat) (h : r.1 + r.2 ≤ pts.length) :
    (extract pts r).length = r.2 ∧ ∀ k, k < r.2 → (extract pts r)[k]? = pts[r.1 + k]? := by
  constructor
  · simp [extract]; omega
  · intro k hk
    simp [extract, hk]

example : extract [10, 11, 12, 13, 14] (2, 3) = [12, 13, 14] := by decide

/-! ## Slopes: what the flags mean -/

theorem derive_getElem? (pts : List (ℝ × ℝ)) : ∀ k, k + 1 < pts.length →
    ∃ p q, pts[k]? = some p ∧ pts[k + 1]? = some q ∧ (derive pts)[k]? = some ((q.2 - p.2) / (q.1 - p.1)) := by
  induction pts with
  | nil => intro k hk; simp at hk
  | cons p rest ih =>
    intro k hk
    cases rest with
    | nil => simp at hk
    | cons q rest' =>
      cases k with
      | zero => exact ⟨p, q, rfl, rfl, by simp [derive]⟩
      | succ j =>
        obtain ⟨a, b, ha, hb, hd⟩ := ih j (by simpa using hk)
        exact ⟨a, b, by simpa using ha, by simpa using hb, by simpa [derive] using hd⟩

/-- flag `k` is set iff the slope between points `k` and `k+1` exceeds the tolerance in absolute value -/
theorem slope_flag_spec (pts : List (ℝ × ℝ)) (atol : ℝ) (k : Nat) (hk : k + 1 < pts.length) :
    ∃ p q, pts[k]? = some p ∧ pts[k + 1]? = some q ∧
      (exceeds atol (derive pts))[k]? = some (decide (atol < |(q.2 - p.2) / (q.1 - p.1)|)) := by
  obtain ⟨p, q, hp, hq, hd⟩ := derive_getElem? pts k hk
  exact ⟨p, q, hp, hq, by simp [exceeds, hd, absv_eq_abs]⟩

theorem derive_length (pts : List (ℝ × ℝ)) : (derive pts).length = pts.length - 1 := by
  induction pts with
  | nil => rfl
  | cons p rest ih =>
    cases rest with
    | nil => rfl
    | cons q r => simp [derive] at ih ⊢; omega

/-! ## Collapsing -/

theorem seqSum_eq_sum (l : List ℝ) : seqSum l = l.sum := by
  simp [seqSum, List.sum_eq_foldl]

/-- **collapse_mean**: the collapsed value of a non-empty bin is the arithmetic mean of its points -/
theorem collapse_mean (l : List ℝ) (h : l ≠ []) : mean l = l.sum / (l.length : ℝ) := by
  have : (l.length : ℝ) ≠ 0 := by
    have := List.length_pos_iff.mpr h
    positivity
  simp only [mean, seqSum_eq_sum]
  push_cast
  field_simp

example : mean ([1, 2, 6] : List ℝ) = 3 := by
  rw [collapse_mean _ (by simp)]; norm_num

section Interval
variable {α : Type} [LinearOrder α]

theorem maxL_spec (l : List α) : ∀ a, a ≤ maxL a l ∧ ∀ x ∈ l, x ≤ maxL a l := by
  induction l with
  | nil => intro a; simp [maxL]
  | cons v t ih =>
    intro a
    simp only [maxL, List.foldl_cons]
    by_cases h : a < v
    · simp only [h, if_true]
      have := ih v
      refine ⟨le_trans (le_of_lt h) this.1, ?_⟩
      intro x hx
      rcases List.mem_cons.mp hx with rfl | hx
      · exact this.1
      · exact this.2 x hx
    · simp only [h, if_false]
      have := ih a
      refine ⟨this.1, ?_⟩
      intro x hx
      rcases List.mem_cons.mp hx with rfl | hx
      · exact le_trans (not_lt.mp h) this.1
      · exact this.2 x hx

theorem minL_spec (l : List α) : ∀ a, minL a l ≤ a ∧ ∀ x ∈ l, minL a l ≤ x := by
  induction l with
  | nil => intro a; simp [minL]
  | cons v t ih =>
    intro a
    simp only [minL, List.foldl_cons]
    by_cases h : v < a
    · simp only [h, if_true]
      have := ih v
      refine ⟨le_trans this.1 (le_of_lt h), ?_⟩
      intro x hx
      rcases List.mem_cons.mp hx with rfl | hx
      · exact this.1
      · exact this.2 x hx
    · simp only [h, if_false]
      have := ih a
      refine ⟨this.1, ?_⟩
      intro x hx
      rcases List.mem_cons.mp hx with rfl | hx
      · exact le_trans this.1 (not_lt.mp h)
      · exact this.2 x hx

/-- **collapse_interval_contains**: `[min, next(max))` contains every coordinate of the bin, for any
linearly ordered coordinate type with a successor-like `next` (`x < next x`) -/
theorem collapse_interval_contains (next : α → α) (hnext : ∀ x, x < next x) (a : α) (l : List α) :
    ∀ x ∈ a :: l, minL a l ≤ x ∧ x < next (maxL a l) := by
  intro x hx
  rcases List.mem_cons.mp hx with rfl | hx
  · exact ⟨(minL_spec l x).1, lt_of_le_of_lt (maxL_spec l x).1 (hnext _)⟩
  · exact ⟨(minL_spec l a).2 x hx, lt_of_le_of_lt ((maxL_spec l a).2 x hx) (hnext _)⟩

end Interval

/-- integer and datetime coordinates: `next = (· + 1)` -/
theorem collapse_interval_contains_int (a : ℤ) (l : List ℤ) :
    ∀ x ∈ a :: l, minL a l ≤ x ∧ x < maxL a l + 1 :=
  collapse_interval_contains (· + 1) (fun x => by omega) a l

example : minL (3 : ℤ) [5, 4] = 3 ∧ maxL (3 : ℤ) [5, 4] + 1 = 6 := by decide

/-! ## In-phase filtering (over the reals) -/

/-- **in_phase_iff**: an element is kept iff its frequency is within `rtol` of an integer multiple
of the reference, or the reference is within `rtol` of an integer multiple of it -/
theorem in_phase_iff (x ref rtol : ℝ) (h : rtol ≤ 1 / 2) :
    isApproximateMultiple x ref rtol = true ↔
      (∃ n : ℤ, |x / ref - n| < rtol) ∨ (∃ n : ℤ, |ref / x - n| < rtol) := by
  rw [isApproximateMultiple, int_or_inverse_iff _ _ h, one_div_div]

example : isApproximateMultiple (28.001 : ℝ) 14 (1 / 100) = true :=
  (in_phase_iff _ _ _ (by norm_num)).mpr (Or.inl ⟨2, by rw [abs_lt]; constructor <;> norm_num⟩)

/-- **filter_keeps_exactly**: the result consists of exactly the in-phase elements, in input order -/
theorem filter_keeps_exactly (xs : List ℝ) (ref rtol : ℝ) :
    (filterInPhase xs ref rtol).Sublist xs ∧
    ∀ x, x ∈ filterInPhase xs ref rtol ↔ x ∈ xs ∧ isApproximateMultiple x ref rtol = true := by
  refine ⟨List.filter_sublist, fun x => ?_⟩
  simp [filterInPhase, List.mem_filter]

/-- the indices kept are exactly the positions of in-phase elements, ascending -/
theorem kept_indices_spec (xs : List ℝ) (ref rtol : ℝ) (i : Nat) :
    i ∈ keptIndices xs ref rtol ↔ ∃ x, xs[i]? = some x ∧ isApproximateMultiple x ref rtol = true := by
  simp only [keptIndices, List.mem_filter, List.mem_range]
  constructor
  · rintro ⟨hi, hx⟩
    have : xs[i]? = some xs[i] := List.getElem?_eq_getElem hi
    rw [this] at hx
    exact ⟨xs[i], this, hx⟩
  · rintro ⟨x, hx, hp⟩
    obtain ⟨hi, _⟩ := List.getElem?_eq_some_iff.mp hx
    exact ⟨hi, by rw [hx]; exact hp⟩

theorem kept_indices_ascending (xs : List ℝ) (ref rtol : ℝ) :
    (keptIndices xs ref rtol).Pairwise (· < ·) :=
  List.Pairwise.sublist List.filter_sublist List.pairwise_lt_range

/-! ## The executable (`Float`) `find_plateaus` returns exactly these bins -/

/-- whenever the executable model of `find_plateaus` returns, the coordinate was sorted, the bins are
`findPlateausIdx` of the flags `|slope| > atol` computed in floating point (so all theorems above
apply to them), and no returned plateau trips the total-drift guard -/
theorem find_plateaus_returns (c : Coords) (ys : List Float) (atol : Float) (minN : Nat)
    (bins : List (Nat × Nat)) (h : findPlateaus c ys atol minN = .ok bins) :
    sortedOk c = true ∧ bins = findPlateausIdx (exceeds atol (slopesFloat c ys)) minN ∧
    ∀ r ∈ bins, plateauExceeds atol (extract ys r) (meanStepFloat c r) = false := by
  unfold findPlateaus at h
  by_cases hs : sortedOk c = true
  · simp only [hs, Bool.not_true, Bool.false_eq_true, if_false] at h
    split at h
    · next hbad =>
      simp only [Except.ok.injEq] at h
      refine ⟨hs, h.symm, ?_⟩
      intro r hr
      rw [← h] at hr
      obtain ⟨k, hk, hkr⟩ := List.getElem_of_mem hr
      rw [List.isEmpty_iff] at hbad
      have := List.filter_eq_nil_iff.mp hbad k (List.mem_range.mpr hk)
      have hget : (findPlateausIdx (exceeds atol (slopesFloat c ys)) minN)[k]? = some r := by
        rw [List.getElem?_eq_getElem hk, hkr]
      simpa [hget] using this
    · cases h
  · simp [hs] at h

/-- it raises `RuntimeError` exactly when some plateau trips the guard, `CoordError` when unsorted -/
theorem find_plateaus_errors (c : Coords) (ys : List Float) (atol : Float) (minN : Nat) (e : Err) (bad : List Nat)
    (h : findPlateaus c ys atol minN = .error (e, bad)) :
    (e = .coord ∧ sortedOk c = false) ∨
    (e = .runtime ∧ sortedOk c = true ∧ bad ≠ [] ∧ ∀ k ∈ bad, ∃ r,
      (findPlateausIdx (exceeds atol (slopesFloat c ys)) minN)[k]? = some r ∧
      plateauExceeds atol (extract ys r) (meanStepFloat c r) = true) := by
  unfold findPlateaus at h
  by_cases hs : sortedOk c = true
  · right
    simp only [hs, Bool.not_true, Bool.false_eq_true, if_false] at h
    split at h
    · cases h
    · next hbad =>
      simp only [Except.error.injEq, Prod.mk.injEq] at h
      obtain ⟨rfl, rfl⟩ := h
      refine ⟨rfl, hs, by simpa [List.isEmpty_iff] using hbad, ?_⟩
      intro k hk
      have := (List.mem_filter.mp hk).2
      cases hget : (findPlateausIdx (exceeds atol (slopesFloat c ys)) minN)[k]? with
      | none => simp [hget] at this
      | some r => exact ⟨r, rfl, by simpa [hget] using this⟩
  · left
    simp only [Bool.not_eq_true] at hs
    simp only [hs, Bool.not_false, if_true, Except.error.injEq, Prod.mk.injEq] at h
    exact ⟨h.1.symm, hs⟩

/-! ## Group ids: the cumulative count labels the bins -/

theorem cumsumFrom_length (ex : List Bool) : ∀ g, (cumsumFrom g ex).length = ex.length := by
  induction ex with
  | nil => intro g; rfl
  | cons e t ih => intro g; simp [cumsumFrom, ih]

/-- one group id per point -/
theorem groupIds_length (ex : List Bool) : (groupIds ex).length = ex.length + 1 := by
  simp [groupIds, cumsumFrom_length]

theorem cumsumFrom_step (ex : List Bool) : ∀ g k, k < ex.length →
    ∃ a b e, (g :: cumsumFrom g ex)[k]? = some a ∧ (g :: cumsumFrom g ex)[k + 1]? = some b ∧ ex[k]? = some e ∧
      b = if e then a + 1 else a := by
  induction ex with
  | nil => intro g k hk; simp at hk
  | cons e t ih =>
    intro g k hk
    cases k with
    | zero => exact ⟨g, _, e, rfl, rfl, rfl, rfl⟩
    | succ j =>
      obtain ⟨a, b, e', h1, h2, h3, h4⟩ := ih (if e then g + 1 else g) j (by simpa using hk)
      exact ⟨a, b, e', by simpa [cumsumFrom] using h1, by simpa [cumsumFrom] using h2, by simpa using h3, h4⟩

/-- the group id starts at 0 and increases by one exactly across an exceeding slope -/
theorem groupIds_step (ex : List Bool) (k : Nat) (hk : k < ex.length) :
    (groupIds ex)[0]? = some 0 ∧
    ∃ a b e, (groupIds ex)[k]? = some a ∧ (groupIds ex)[k + 1]? = some b ∧ ex[k]? = some e ∧
      b = if e then a + 1 else a :=
  ⟨rfl, cumsumFrom_step ex 0 k hk⟩

/-! ## Points carry everything: further coordinates, variances, masks -/

/-- **points_unchanged**, for whole records: whatever a point carries besides its dimension coordinate and
value (further per-point coordinates, a variance, mask flags — `β` is arbitrary), bin `k` of the result holds
exactly the records of its index range, in order; there is one content list per bin -/
theorem bin_contents_unchanged {β : Type} (pts : List β) (bins : List (Nat × Nat)) :
    (binContents pts bins).length = bins.length ∧
    ∀ (k : Nat) (r : Nat × Nat), bins[k]? = some r → (binContents pts bins)[k]? = some (extract pts r) := by
  constructor
  · simp [binContents]
  · intro k r h; simp [binContents, h]

/-- projecting the records to one of their components (a coordinate, the mask flag, …) commutes with
taking the bin: no component is lost or re-ordered -/
theorem bin_contents_component {β γ : Type} (f : β → γ) (pts : List β) (r : Nat × Nat) :
    (extract pts r).map f = extract (pts.map f) r := by
  simp [extract, List.map_take, List.map_drop]

/-- the collapsed value of a bin with masks is the mean of its unmasked points -/
theorem collapse_masked_value (ys vars : List Float) (masked : List Bool) (r : Nat × Nat) :
    (collapseMasked ys vars masked r).1 =
      mean (((extract (ys.zip (vars.zip masked)) r).filter (fun p => !p.2.2)).map (·.1)) := rfl

example : binContents ["a", "b", "c", "d"] [(1, 2)] = [["b", "c"]] := by decide

/-- `collapse_plateaus(coord=c)` for ANY per-point coordinate `c` (it need not be sorted inside a plateau):
the interval `[min, max + 1)` of the integer / datetime coordinate values of a bin contains every one of them -/
theorem collapse_interval_any_coordinate (cs : List ℤ) (r : Nat × Nat) (a : ℤ) (l : List ℤ)
    (h : extract cs r = a :: l) : ∀ x ∈ extract cs r, minL a l ≤ x ∧ x < maxL a l + 1 := by
  rw [h]; exact collapse_interval_contains_int a l

example : ∀ x ∈ extract ([30, 10, 20, 5, 5, 7] : List ℤ) (0, 3), (10 : ℤ) ≤ x ∧ x < 31 := by decide

end ScnVerif.Props.C19
