import ScnVerif.Lemmas.PeakIntegrals
import Mathlib.Tactic.FieldSimp
import Mathlib.Tactic.Ring
import Mathlib.Tactic.Linarith
import Mathlib.Tactic.NormNum
import Mathlib.Tactic.Positivity
import Mathlib.Algebra.BigOperators.Intervals
import Mathlib.Analysis.Complex.ExponentialBounds
/-!
# C16 — peak and background models satisfy their analytic definitions

All theorems are about the definitions of `ScnVerif/Model/PeakModels.lean` (the transcription of
`scippneutron/peaks/model.py` that the correspondence run executes at `Float`), instantiated at `ℝ`.
The guard `max(scale, 1e-15)` is part of the model: theorems are stated on the guard's domain
`1e-15 ≤ scale`, and `*_guarded` says what the code computes below it.
-/
namespace ScnVerif.Props.C16
open ScnVerif ScnVerif.PeakModels Real MeasureTheory

/-! ## the guard -/

theorem guard_of_ge {σ : ℝ} (h : 1e-15 ≤ σ) : guardScale σ = σ := by
  unfold guardScale; exact max_eq_left h

theorem guard_of_lt {σ : ℝ} (h : σ < 1e-15) : guardScale σ = 1e-15 := by
  unfold guardScale; exact max_eq_right h.le

theorem pos_of_guard_domain {σ : ℝ} (h : 1e-15 ≤ σ) : 0 < σ := lt_of_lt_of_le (by norm_num) h

/-- below the guard the code evaluates the Gaussian of width `1e-15`, whatever the scale -/
theorem gaussian_guarded (A μ σ x : ℝ) (h : σ < 1e-15) : gaussian A μ σ x = gaussian A μ 1e-15 x := by
  simp only [gaussian, guard_of_lt h, guard_of_ge (le_refl (1e-15 : ℝ))]

theorem lorentzian_guarded (A μ σ x : ℝ) (h : σ < 1e-15) :
    lorentzian A μ σ x = lorentzian A μ 1e-15 x := by
  simp only [lorentzian, guard_of_lt h, guard_of_ge (le_refl (1e-15 : ℝ))]

example : (1e-16 : ℝ) < 1e-15 := by norm_num

/-! ## closed forms (the docstring formulas) on the guard's domain -/

theorem gaussian_closed_form (A μ σ x : ℝ) (h : 1e-15 ≤ σ) :
    gaussian A μ σ x = A / (√(2 * π) * σ) * rexp (-(x - μ) ^ 2 / (2 * σ ^ 2)) := by
  have hσ := pos_of_guard_domain h
  simp only [gaussian, guard_of_ge h, trans_exp_real, trans_sqrt_real, trans_pi_real]
  have : (x - μ) * (x - μ) / (-2.0 * (σ * σ)) = -(x - μ) ^ 2 / (2 * σ ^ 2) := by
    norm_num; field_simp
  rw [this]; norm_num; ring

theorem lorentzian_closed_form (A μ σ x : ℝ) (h : 1e-15 ≤ σ) :
    lorentzian A μ σ x = A * σ / π * ((x - μ) ^ 2 + σ ^ 2)⁻¹ := by
  simp only [lorentzian, guard_of_ge h, trans_pi_real]
  norm_num; ring

example : (1e-15 : ℝ) ≤ 0.05 := by norm_num

/-! ## normalisation: the models integrate to their amplitude -/

theorem gaussian_integral (A μ σ : ℝ) (h : 1e-15 ≤ σ) : ∫ x : ℝ, gaussian A μ σ x = A := by
  simp_rw [gaussian_closed_form A μ σ _ h]
  exact gauss_norm A μ σ (pos_of_guard_domain h)

theorem lorentzian_integral (A μ σ : ℝ) (h : 1e-15 ≤ σ) : ∫ x : ℝ, lorentzian A μ σ x = A := by
  simp_rw [lorentzian_closed_form A μ σ _ h]
  exact lorentz_norm A μ σ (pos_of_guard_domain h)

theorem gaussian_integrable (A μ σ : ℝ) (h : 1e-15 ≤ σ) : Integrable (fun x : ℝ => gaussian A μ σ x) := by
  simp_rw [gaussian_closed_form A μ σ _ h]
  exact gauss_integrable A μ σ (pos_of_guard_domain h)

theorem lorentzian_integrable (A μ σ : ℝ) (h : 1e-15 ≤ σ) :
    Integrable (fun x : ℝ => lorentzian A μ σ x) := by
  simp_rw [lorentzian_closed_form A μ σ _ h]
  exact lorentz_integrable A μ σ (pos_of_guard_domain h)

/-- pseudo-Voigt: any real fraction; both parts on the guard's domain (`σ/√(2 ln 2)` is the Gaussian
part's scale, so the hypothesis is on it; it follows from `1.2e-15 ≤ σ`, see `pv_domain`) -/
theorem pseudo_voigt_integral (A μ σ f : ℝ) (h : 1e-15 ≤ σ) (hg : 1e-15 ≤ pvGaussScale σ) :
    ∫ x : ℝ, pseudoVoigt A μ σ f x = A := by
  unfold pseudoVoigt
  rw [integral_add ((lorentzian_integrable A μ σ h).const_mul f)
      ((gaussian_integrable A μ _ hg).const_mul (1.0 - f)),
    integral_const_mul, integral_const_mul, lorentzian_integral A μ σ h, gaussian_integral A μ _ hg]
  norm_num; ring

theorem sqrt_two_log_two_pos : 0 < √(2 * Real.log 2) :=
  Real.sqrt_pos.mpr (by have := Real.log_pos (by norm_num : (1:ℝ) < 2); positivity)

theorem sqrt_two_log_two_le : √(2 * Real.log 2) ≤ 1.2 := by
  rw [show (1.2:ℝ) = √(1.44) by
    rw [show (1.44:ℝ) = 1.2 ^ 2 by norm_num, Real.sqrt_sq (by norm_num)]]
  apply Real.sqrt_le_sqrt
  have := Real.log_two_lt_d9
  linarith

/-- the whole quantifier range of the property (`scale ≥ 1e-6`) lies inside both guards' domains -/
theorem pv_domain {σ : ℝ} (h : 1.2e-15 ≤ σ) : 1e-15 ≤ σ ∧ 1e-15 ≤ pvGaussScale σ := by
  refine ⟨le_trans (by norm_num) h, ?_⟩
  simp only [pvGaussScale, trans_sqrt_real, consts_ln2_real]
  rw [show (2.0:ℝ) = 2 by norm_num, le_div_iff₀ sqrt_two_log_two_pos]
  calc (1e-15:ℝ) * √(2 * Real.log 2) ≤ 1e-15 * 1.2 := by
        apply mul_le_mul_of_nonneg_left sqrt_two_log_two_le (by norm_num)
    _ ≤ σ := by linarith

theorem pseudo_voigt_integral_in_range (A μ σ f : ℝ) (h : 1e-6 ≤ σ) :
    ∫ x : ℝ, pseudoVoigt A μ σ f x = A :=
  have hd := pv_domain (σ := σ) (le_trans (by norm_num) h)
  pseudo_voigt_integral A μ σ f hd.1 hd.2

/-! ## symmetry about the location (no hypothesis: holds in the guarded region too) -/

theorem gaussian_symmetric (A μ σ t : ℝ) : gaussian A μ σ (μ + t) = gaussian A μ σ (μ - t) := by
  simp only [gaussian]; congr 3; ring

theorem lorentzian_symmetric (A μ σ t : ℝ) : lorentzian A μ σ (μ + t) = lorentzian A μ σ (μ - t) := by
  simp only [lorentzian]; congr 3; ring

theorem pseudo_voigt_symmetric (A μ σ f t : ℝ) :
    pseudoVoigt A μ σ f (μ + t) = pseudoVoigt A μ σ f (μ - t) := by
  simp only [pseudoVoigt, gaussian_symmetric, lorentzian_symmetric]

/-! ## half of the peak value at `loc ± FWHM/2`, with the FWHM the model reports -/

theorem exp_half (σ : ℝ) (hσ : 0 < σ) :
    rexp (-(√(2 * Real.log 2) * σ) ^ 2 / (2 * σ ^ 2)) = 1 / 2 := by
  have hl : 0 ≤ 2 * Real.log 2 := by have := Real.log_pos (by norm_num : (1:ℝ) < 2); positivity
  have : -(√(2 * Real.log 2) * σ) ^ 2 / (2 * σ ^ 2) = -Real.log 2 := by
    rw [mul_pow, Real.sq_sqrt hl]; field_simp
  rw [this, Real.exp_neg, Real.exp_log (by norm_num)]; norm_num

theorem gaussian_half_max_at_fwhm (A μ σ : ℝ) (h : 1e-15 ≤ σ) (sgn : ℝ) (hs : sgn = 1 ∨ sgn = -1) :
    gaussian A μ σ (μ + sgn * (gaussianFwhm σ / 2)) = gaussian A μ σ μ / 2 := by
  have hσ := pos_of_guard_domain h
  rw [gaussian_closed_form _ _ _ _ h, gaussian_closed_form _ _ _ _ h]
  have e1 : -(μ + sgn * (gaussianFwhm σ / 2) - μ) ^ 2 / (2 * σ ^ 2)
      = -(√(2 * Real.log 2) * σ) ^ 2 / (2 * σ ^ 2) := by
    simp only [gaussianFwhm, trans_sqrt_real, consts_ln2_real]
    rcases hs with rfl | rfl <;> norm_num <;> ring
  have e0 : -(μ - μ) ^ 2 / (2 * σ ^ 2) = 0 := by simp
  rw [e1, exp_half σ hσ, e0, Real.exp_zero]; ring

theorem lorentzian_half_max_at_fwhm (A μ σ : ℝ) (h : 1e-15 ≤ σ) (sgn : ℝ) (hs : sgn = 1 ∨ sgn = -1) :
    lorentzian A μ σ (μ + sgn * (lorentzianFwhm σ / 2)) = lorentzian A μ σ μ / 2 := by
  have hσ := pos_of_guard_domain h
  rw [lorentzian_closed_form _ _ _ _ h, lorentzian_closed_form _ _ _ _ h]
  simp only [lorentzianFwhm]
  rcases hs with rfl | rfl <;> norm_num <;> field_simp <;> ring

/-- the Gaussian part of the pseudo-Voigt has FWHM `2·scale` as well -/
theorem pv_gauss_half (A μ σ : ℝ) (h : 1e-15 ≤ σ) (hg : 1e-15 ≤ pvGaussScale σ) (sgn : ℝ)
    (hs : sgn = 1 ∨ sgn = -1) :
    gaussian A μ (pvGaussScale σ) (μ + sgn * σ) = gaussian A μ (pvGaussScale σ) μ / 2 := by
  have hσ := pos_of_guard_domain h
  have := gaussian_half_max_at_fwhm A μ (pvGaussScale σ) hg sgn hs
  have e : gaussianFwhm (pvGaussScale σ) / 2 = σ := by
    simp only [gaussianFwhm, pvGaussScale, trans_sqrt_real, consts_ln2_real]
    have := sqrt_two_log_two_pos.ne'
    norm_num; field_simp
  rwa [e] at this

theorem pseudo_voigt_half_max_at_fwhm (A μ σ f : ℝ) (h : 1e-15 ≤ σ) (hg : 1e-15 ≤ pvGaussScale σ)
    (sgn : ℝ) (hs : sgn = 1 ∨ sgn = -1) :
    pseudoVoigt A μ σ f (μ + sgn * (pseudoVoigtFwhm σ / 2)) = pseudoVoigt A μ σ f μ / 2 := by
  have e : pseudoVoigtFwhm σ / 2 = σ := by
    simp only [pseudoVoigtFwhm]; rw [show (2.0:ℝ) = 2 by norm_num]; ring
  have l := lorentzian_half_max_at_fwhm A μ σ h sgn hs
  have e' : lorentzianFwhm σ / 2 = σ := by
    simp only [lorentzianFwhm]; rw [show (2.0:ℝ) = 2 by norm_num]; ring
  rw [e'] at l
  rw [e]; unfold pseudoVoigt
  rw [l, pv_gauss_half A μ σ h hg sgn hs, show (1.0:ℝ) = 1 by norm_num]; ring

example : (1e-15 : ℝ) ≤ 2 ∧ 1e-15 ≤ pvGaussScale (2 : ℝ) := pv_domain (by norm_num)

set_option linter.unusedSectionVars false

/-! ## polynomial -/

/-- `Σ aᵢ xⁱ` for ascending coefficients -/
def evalAsc (x : ℝ) : List ℝ → ℝ
  | [] => 0
  | a :: as => a + x * evalAsc x as

theorem evalAsc_append_single (x : ℝ) (l : List ℝ) (a : ℝ) :
    evalAsc x (l ++ [a]) = evalAsc x l + a * x ^ l.length := by
  induction l with
  | nil => simp [evalAsc]
  | cons b l ih => simp only [List.cons_append, evalAsc, ih, List.length_cons]; ring

theorem hornerDesc_eq (x hi : ℝ) (lower : List ℝ) :
    hornerDesc x hi lower = hi * x ^ lower.length + evalAsc x lower.reverse := by
  induction lower generalizing hi with
  | nil => simp [hornerDesc, evalAsc]
  | cons a rest ih =>
    have : hornerDesc x hi (a :: rest) = hornerDesc x (hi * x + a) rest := rfl
    rw [this, ih, List.reverse_cons, evalAsc_append_single, List.length_reverse, List.length_cons]
    ring

theorem evalAsc_eq_sum (x : ℝ) (l : List ℝ) :
    evalAsc x l = ∑ i ∈ Finset.range l.length, l.getD i 0 * x ^ i := by
  induction l with
  | nil => simp [evalAsc]
  | cons a as ih =>
    rw [evalAsc, List.length_cons, Finset.sum_range_succ', ih, Finset.mul_sum]
    simp only [List.getD_cons_succ, List.getD_cons_zero, pow_zero, mul_one]
    rw [add_comm]; congr 1
    apply Finset.sum_congr rfl; intro i _; ring

/-- the Horner loop of `PolynomialModel._call` equals `Σ aᵢ xⁱ`, for every degree -/
theorem polynomial_eq_sum (a0 : ℝ) (as : List ℝ) (x : ℝ) :
    polynomial a0 as x = ∑ i ∈ Finset.range (as.length + 1), (a0 :: as).getD i 0 * x ^ i := by
  have hlen : (a0 :: as).length = as.length + 1 := rfl
  rw [← hlen, ← evalAsc_eq_sum]
  unfold polynomial
  cases hrev : (a0 :: as).reverse with
  | nil => simp at hrev
  | cons hi lower =>
    simp only
    have : a0 :: as = lower.reverse ++ [hi] := by
      have := congrArg List.reverse hrev; simpa using this
    rw [this, evalAsc_append_single, hornerDesc_eq, List.length_reverse]; ring

example : polynomial (1:ℝ) [2, 3] 2 = 1 + 2 * 2 + 3 * 2 ^ 2 := by
  rw [polynomial_eq_sum]; simp [Finset.sum_range_succ]

/-! ## parameter names: prefix independence, refusal of missing / unknown parameters -/
section names
variable {α : Type} [Add α] [Sub α] [Mul α] [Div α] [Neg α] [Max α] [OfScientific α] [Trans α]
  [Consts α]

theorem contains_map_prefix (q : Str) (b : List Str) (k : Str) :
    (b.map (q ++ ·)).contains (q ++ k) = b.contains k := by
  rw [Bool.eq_iff_iff]; simp only [List.contains_iff_mem, List.mem_map]
  constructor
  · rintro ⟨a, ha, h⟩; rwa [← List.append_cancel_left h]
  · intro h; exact ⟨k, h, rfl⟩

theorem sameKeys_prefix (q : Str) (a b : List Str) :
    sameKeys (a.map (q ++ ·)) (b.map (q ++ ·)) = sameKeys a b := by
  simp only [sameKeys, List.all_map, Function.comp_def, contains_map_prefix]

theorem sameKeys_iff (a b : List Str) : sameKeys a b = true ↔ ∀ k, k ∈ a ↔ k ∈ b := by
  simp only [sameKeys, Bool.and_eq_true, List.all_eq_true, List.contains_iff_mem]
  constructor
  · rintro ⟨h1, h2⟩ k; exact ⟨h1 k, h2 k⟩
  · intro h; exact ⟨fun k hk => (h k).1 hk, fun k hk => (h k).2 hk⟩

theorem stripKeys_prefix {β : Type} (q : Str) (params : List (Str × β)) :
    stripKeys q (params.map (fun kv => (q ++ kv.1, kv.2))) = params := by
  simp [stripKeys, List.map_map, Function.comp_def]

theorem stripKeys_nil {β : Type} (params : List (Str × β)) : stripKeys [] params = params := by
  simp [stripKeys]

theorem paramNames_withPrefix (m : M) (q : Str) :
    (m.withPrefix q).paramNames = m.ownNames.map (q ++ ·) := by
  cases m <;> rfl

/-- `with_prefix` changes nothing but the names: evaluating the re-prefixed model on re-prefixed
keys gives the value (or the error) of the unprefixed model on the bare keys — for every prefix
string, every model (composites included) and every parameter dictionary. -/
theorem prefix_independent (m : M) (q : Str) (x : Value α) (params : List (Str × Value α)) :
    call (m.withPrefix q) x (params.map (fun kv => (q ++ kv.1, kv.2)))
      = call (m.withPrefix []) x params := by
  have hk : (params.map (fun kv => (q ++ kv.1, kv.2))).map (·.1) = (params.map (·.1)).map (q ++ ·) := by
    simp [List.map_map, Function.comp_def]
  have hn : ∀ l : List Str, l.map (fun s => ([] : Str) ++ s) = l := by intro l; simp
  cases m with
  | composite l r p =>
    simp only [M.withPrefix, call]
    rw [show M.paramNames (.composite l r q) = (l.paramNames ++ r.paramNames).map (q ++ ·) from rfl,
      show M.paramNames (.composite l r []) = (l.paramNames ++ r.paramNames).map (([] : Str) ++ ·) from rfl,
      hk, sameKeys_prefix, hn, stripKeys_prefix, stripKeys_nil]
  | gaussian p =>
    simp only [M.withPrefix, call, callChecked, M.pre]
    rw [show M.paramNames (.gaussian q) = [sAmplitude, sLoc, sScale].map (q ++ ·) from rfl,
      show M.paramNames (.gaussian []) = [sAmplitude, sLoc, sScale].map (([] : Str) ++ ·) from rfl,
      hk, sameKeys_prefix, hn, stripKeys_prefix, stripKeys_nil]; rfl
  | lorentzian p =>
    simp only [M.withPrefix, call, callChecked, M.pre]
    rw [show M.paramNames (.lorentzian q) = [sAmplitude, sLoc, sScale].map (q ++ ·) from rfl,
      show M.paramNames (.lorentzian []) = [sAmplitude, sLoc, sScale].map (([] : Str) ++ ·) from rfl,
      hk, sameKeys_prefix, hn, stripKeys_prefix, stripKeys_nil]; rfl
  | pseudoVoigt p =>
    simp only [M.withPrefix, call, callChecked, M.pre]
    rw [show M.paramNames (.pseudoVoigt q) = [sAmplitude, sLoc, sScale, sFraction].map (q ++ ·) from rfl,
      show M.paramNames (.pseudoVoigt []) = [sAmplitude, sLoc, sScale, sFraction].map (([] : Str) ++ ·) from rfl,
      hk, sameKeys_prefix, hn, stripKeys_prefix, stripKeys_nil]; rfl
  | polynomial d p =>
    simp only [M.withPrefix, call, callChecked, M.pre]
    rw [show M.paramNames (.polynomial d q) = ((List.range (d + 1)).map sCoef).map (q ++ ·) from rfl,
      show M.paramNames (.polynomial d []) = ((List.range (d + 1)).map sCoef).map (([] : Str) ++ ·) from rfl,
      hk, sameKeys_prefix, hn, stripKeys_prefix, stripKeys_nil]; rfl

/-- any key set other than exactly the prefixed parameter names is refused with `ValueError` -/
theorem call_refuses_bad_keys (m : M) (x : Value α) (params : List (Str × Value α))
    (h : ¬ ∀ k, k ∈ params.map (·.1) ↔ k ∈ m.paramNames) : call m x params = .error .value := by
  have h' : sameKeys (params.map (·.1)) m.paramNames = false := by
    rw [← Bool.not_eq_true, sameKeys_iff]; exact h
  cases m <;> simp [call, callChecked, h']

theorem call_refuses_missing (m : M) (x : Value α) (params : List (Str × Value α)) (n : Str)
    (hn : n ∈ m.paramNames) (hmiss : n ∉ params.map (·.1)) : call m x params = .error .value :=
  call_refuses_bad_keys m x params (fun h => hmiss ((h n).2 hn))

theorem call_refuses_unknown (m : M) (x : Value α) (params : List (Str × Value α)) (k : Str)
    (hk : k ∈ params.map (·.1)) (hunk : k ∉ m.paramNames) : call m x params = .error .value :=
  call_refuses_bad_keys m x params (fun h => hunk ((h k).1 hk))

/-- conversely: anything but a `ValueError` means the keys were exactly the parameter names -/
theorem call_accepts_only_exact_keys (m : M) (x : Value α) (params : List (Str × Value α))
    (h : call m x params ≠ .error .value) : ∀ k, k ∈ params.map (·.1) ↔ k ∈ m.paramNames := by
  by_contra hc; exact h (call_refuses_bad_keys m x params hc)

end names
section comp
variable {α : Type} [Add α] [Sub α] [Mul α] [Div α] [Neg α] [Max α] [OfScientific α] [Trans α]
  [Consts α]

theorem sameUnit_ok {a b : U} (h : sameUnit a b = .ok ()) : a = b := by
  unfold sameUnit at h; split at h
  · assumption
  · cases h

/-- a composite that evaluates is the sum of its parts, each evaluated through its own
`__call__` on its own parameters; the parts must agree in unit -/
theorem composite_eq_sum (l r : M) (p : Str) (x : Value α) (params : List (Str × Value α))
    (v : Value α) (h : call (.composite l r p) x params = .ok v) :
    ∃ pl pr a b, selectKeys l.paramNames (stripKeys p params) = some pl
      ∧ selectKeys r.paramNames (stripKeys p params) = some pr
      ∧ call l x pl = .ok a ∧ call r x pr = .ok b
      ∧ v.val = a.val + b.val ∧ v.unit = a.unit ∧ a.unit = b.unit := by
  rw [call] at h
  split at h
  · cases h
  · simp only at h
    split at h
    · rename_i pl pr hl hr
      refine ⟨pl, pr, ?_⟩
      cases ha : call l x pl with
      | error e => simp [ha, bind, Except.bind] at h
      | ok a =>
        cases hb : call r x pr with
        | error e => simp [ha, hb, bind, Except.bind] at h
        | ok b =>
          simp only [ha, hb, bind, Except.bind] at h
          cases hu : sameUnit a.unit b.unit with
          | error e => simp [hu] at h
          | ok u =>
            simp only [hu, pure, Except.pure] at h
            injection h with h
            exact ⟨a, b, hl, hr, rfl, rfl, by rw [← h], by rw [← h], sameUnit_ok hu⟩
    · cases h

end comp

/-! ## units -/
section units
variable {α : Type} [Add α] [Sub α] [Mul α] [Div α] [Neg α] [Max α] [OfScientific α] [Trans α]
  [Consts α]

theorem U_ext {a b : U} (h1 : a.m = b.m) (h2 : a.s = b.s) (h3 : a.c = b.c) (h4 : a.p10 = b.p10) :
    a = b := by cases a; cases b; simp_all

/-- a Gaussian evaluates only when `loc` and `scale` carry the unit of `x`; the result then has
unit `amplitude / x` (a density in `x`, so that its integral has the amplitude's unit) -/
theorem gaussian_units (A μ σ x v : Value α) (h : gaussianV A μ σ x = .ok v) :
    μ.unit = x.unit ∧ σ.unit = x.unit ∧ v.unit = U.div A.unit x.unit := by
  unfold gaussianV at h
  cases h1 : sameUnit x.unit μ.unit with
  | error e => simp [h1, bind, Except.bind] at h
  | ok _ =>
    simp only [h1, bind, Except.bind] at h
    cases h2 : sameUnit (U.div (U.mul x.unit x.unit) (U.mul σ.unit σ.unit)) U.one with
    | error e => simp [h2] at h
    | ok _ =>
      simp only [h2, pure, Except.pure] at h
      injection h with h
      have e1 := sameUnit_ok h1
      have e2 := sameUnit_ok h2
      have e2' := congrArg U.m e2; have e3 := congrArg U.s e2
      have e4 := congrArg U.c e2; have e5 := congrArg U.p10 e2
      simp only [U.div, U.mul, U.one] at e2' e3 e4 e5
      have hσ : σ.unit = x.unit := by apply U_ext <;> omega
      refine ⟨e1.symm, hσ, ?_⟩
      rw [← h]; simp only [hσ]
      apply U_ext <;> simp only [U.div, U.mul] <;> omega

theorem lorentzian_units (A μ σ x v : Value α) (h : lorentzianV A μ σ x = .ok v) :
    μ.unit = x.unit ∧ σ.unit = x.unit ∧ v.unit = U.div A.unit x.unit := by
  unfold lorentzianV at h
  cases h1 : sameUnit x.unit μ.unit with
  | error e => simp [h1, bind, Except.bind] at h
  | ok _ =>
    simp only [h1, bind, Except.bind] at h
    cases h2 : sameUnit (U.mul x.unit x.unit) (U.mul σ.unit σ.unit) with
    | error e => simp [h2] at h
    | ok _ =>
      simp only [h2, pure, Except.pure] at h
      injection h with h
      have e1 := sameUnit_ok h1
      have e2 := sameUnit_ok h2
      have e2' := congrArg U.m e2; have e3 := congrArg U.s e2
      have e4 := congrArg U.c e2; have e5 := congrArg U.p10 e2
      simp only [U.mul] at e2' e3 e4 e5
      have hσ : σ.unit = x.unit := by apply U_ext <;> omega
      refine ⟨e1.symm, hσ, ?_⟩
      rw [← h]; simp only [hσ]
      apply U_ext <;> simp only [U.div, U.mul, U.one] <;> omega

theorem pseudo_voigt_units (A μ σ f x v : Value α) (h : pseudoVoigtV A μ σ f x = .ok v) :
    μ.unit = x.unit ∧ σ.unit = x.unit ∧ f.unit = U.one ∧ v.unit = U.div A.unit x.unit := by
  unfold pseudoVoigtV at h
  cases hl : lorentzianV A μ σ x with
  | error e => simp [hl, bind, Except.bind] at h
  | ok l =>
    simp only [hl, bind, Except.bind] at h
    cases hg : gaussianV A μ ⟨pvGaussScale σ.val, σ.unit⟩ x with
    | error e => simp [hg] at h
    | ok g =>
      simp only [hg] at h
      cases h1 : sameUnit U.one f.unit with
      | error e => simp [h1] at h
      | ok _ =>
        simp only [h1] at h
        cases h2 : sameUnit (U.mul f.unit l.unit) (U.mul f.unit g.unit) with
        | error e => simp [h2] at h
        | ok _ =>
          simp only [h2, pure, Except.pure] at h
          injection h with h
          obtain ⟨a1, a2, a3⟩ := lorentzian_units A μ σ x l hl
          have hf := (sameUnit_ok h1).symm
          refine ⟨a1, a2, hf, ?_⟩
          rw [← h]; simp only [hf, a3]
          apply U_ext <;> simp only [U.div, U.mul, U.one] <;> omega

/-- units along the Horner loop: each coefficient is the next-higher one times the unit of `x`,
and the value carries the unit of the last one processed (`a_0`) -/
theorem hornerUnits_spec (xu : U) (hi : U) (lower : List U) (u : U)
    (h : hornerUnits xu hi lower = .ok u) :
    List.IsChain (fun a b => U.mul a xu = b) (hi :: lower) ∧ u = (hi :: lower).getLast (by simp) := by
  induction lower generalizing hi with
  | nil => simp only [hornerUnits] at h; injection h with h; simp [h]
  | cons a rest ih =>
    simp only [hornerUnits, bind, Except.bind] at h
    cases h1 : sameUnit (U.mul hi xu) a with
    | error e => simp [h1] at h
    | ok _ =>
      simp only [h1] at h
      obtain ⟨c, hu⟩ := ih a h
      exact ⟨List.IsChain.cons_cons (sameUnit_ok h1) c, by simpa using hu⟩

end units
/-! ## FWHM lookup and bounds under prefixes -/
section metaops
variable {α : Type} [Add α] [Sub α] [Mul α] [Div α] [Neg α] [Max α] [OfScientific α] [Trans α]
  [Consts α]

theorem lookup_prefix {β : Type} (q k : Str) (params : List (Str × β)) :
    (params.map (fun kv => (q ++ kv.1, kv.2))).lookup (q ++ k) = params.lookup k := by
  induction params with
  | nil => rfl
  | cons kv rest ih =>
    obtain ⟨a, b⟩ := kv
    by_cases h : k = a
    · subst h; simp [List.lookup]
    · have h1 : (q ++ k == q ++ a) = false := by
        simp only [beq_eq_false_iff_ne, ne_eq]; intro e; exact h (List.append_cancel_left e)
      have h2 : (k == a) = false := by simp [h]
      simp only [List.map_cons, List.lookup, h1, h2, ih]

/-- the FWHM the model reports does not depend on the prefix either (it looks the scale up under
the prefixed name) -/
theorem fwhm_prefix_independent (m : M) (q : Str) (params : List (Str × Value α)) :
    fwhm (m.withPrefix q) (params.map (fun kv => (q ++ kv.1, kv.2)))
      = fwhm (m.withPrefix []) params := by
  cases m <;> simp only [M.withPrefix, fwhm, PeakModels.get, lookup_prefix, List.nil_append]

/-- bounds are reported under the prefixed names -/
theorem paramBounds_withPrefix (m : M) (q : Str) :
    (paramBounds (m.withPrefix q)).map (·.1) = (paramBounds (m.withPrefix [])).map (q ++ ·.1) := by
  cases m <;> simp [M.withPrefix, paramBounds, List.map_map, Function.comp_def]

/-- every bounded parameter is a parameter of the model -/
theorem paramBounds_subset_names (m : M) : ∀ k ∈ (paramBounds m).map (·.1), k ∈ m.paramNames := by
  induction m with
  | gaussian p => intro k hk; simp [paramBounds] at hk; subst hk; simp [M.paramNames, M.names]
  | lorentzian p => intro k hk; simp [paramBounds] at hk; subst hk; simp [M.paramNames, M.names]
  | pseudoVoigt p =>
    intro k hk; simp [paramBounds] at hk
    rcases hk with rfl | rfl <;> simp [M.paramNames, M.names]
  | polynomial d p => intro k hk; simp [paramBounds] at hk
  | composite l r p ihl ihr =>
    intro k hk
    simp only [paramBounds, List.map_map, List.mem_map, Function.comp_apply, List.mem_append] at hk
    obtain ⟨kb, hkb, rfl⟩ := hk
    simp only [M.paramNames, M.names, List.mem_map, List.mem_append]
    refine ⟨kb.1, ?_, rfl⟩
    rcases hkb with h | h
    · left; exact ihl kb.1 (List.mem_map_of_mem (f := (·.1)) h)
    · right; exact ihr kb.1 (List.mem_map_of_mem (f := (·.1)) h)

end metaops

/-! ## FWHM given the parameters of several models -/
section foreign
variable {α : Type} [Add α] [Sub α] [Mul α] [Div α] [Neg α] [Max α] [OfScientific α] [Trans α]
  [Consts α]

theorem lookup_append_of_not_mem {β : Type} (k : Str) (extra params : List (Str × β))
    (h : ∀ kv ∈ extra, kv.1 ≠ k) : (extra ++ params).lookup k = params.lookup k := by
  induction extra with
  | nil => rfl
  | cons kv rest ih =>
    obtain ⟨a, b⟩ := kv
    have ha : (k == a) = false := by
      simp only [beq_eq_false_iff_ne, ne_eq]; exact fun e => h (a, b) (by simp) e.symm
    simp only [List.cons_append, List.lookup, ha]
    exact ih (fun kv hkv => h kv (by simp [hkv]))

theorem lookup_append_right_of_not_mem {β : Type} (k : Str) (params extra : List (Str × β))
    (h : ∀ kv ∈ extra, kv.1 ≠ k) : (params ++ extra).lookup k = params.lookup k := by
  induction params with
  | nil =>
    simp only [List.nil_append, List.lookup]
    have := lookup_append_of_not_mem k extra ([] : List (Str × β)) h
    simpa using this
  | cons kv rest ih =>
    obtain ⟨a, b⟩ := kv
    by_cases hk : k = a
    · subst hk; simp [List.lookup]
    · have ha : (k == a) = false := by simp [hk]
      simp only [List.cons_append, List.lookup, ha, ih]

/-- the key under which a model looks its scale up in `fwhm` -/
def scaleKey (m : M) : Str := m.pre ++ sScale

/-- `fwhm` reads nothing but the model's own (prefixed) scale: parameters of other models in the
dictionary — whatever their prefixes: equally long, nested, empty — do not change the reported FWHM,
wherever they stand in the dictionary -/
theorem fwhm_foreign_parameters (m : M) (own before after : List (Str × Value α))
    (hb : ∀ kv ∈ before, kv.1 ≠ scaleKey m) (ha : ∀ kv ∈ after, kv.1 ≠ scaleKey m) :
    fwhm m (before ++ own ++ after) = fwhm m own := by
  cases m <;>
    simp only [fwhm, PeakModels.get, scaleKey, M.pre] at * <;>
    first
      | rfl
      | (rw [lookup_append_right_of_not_mem _ _ _ ha, lookup_append_of_not_mem _ _ _ hb])

/-- and the FWHM it reports is that of this scale -/
theorem fwhm_of_own_scale (m : M) (params : List (Str × Value α)) (s : Value α)
    (h : params.lookup (scaleKey m) = some s) :
    fwhm m params = match m with
      | .gaussian _ => .ok ⟨gaussianFwhm s.val, s.unit⟩
      | .lorentzian _ => .ok ⟨lorentzianFwhm s.val, s.unit⟩
      | .pseudoVoigt _ => .ok ⟨pseudoVoigtFwhm s.val, s.unit⟩
      | _ => .error .notimpl := by
  cases m <;> simp only [fwhm, PeakModels.get] <;> first | rfl | (unfold scaleKey M.pre at h; simp only at h; rw [h]; rfl)

end foreign

/-! ## element types of the results -/

/-- the Horner accumulator keeps the dtype of the leading coefficient: when the polynomial
evaluates, the result has that dtype, whatever the dtypes of `x` and of the other coefficients -/
theorem polynomialDT_result (x hi : DT) (lower : List DT) (d : DT)
    (h : polynomialDT x hi lower = .ok d) : d = hi := by
  induction lower generalizing hi with
  | nil => simp [polynomialDT] at h; exact h.symm
  | cons a rest ih =>
    simp only [polynomialDT, bind, Except.bind] at h
    cases h1 : DT.inplace hi x with
    | error e => simp [h1] at h
    | ok v =>
      simp only [h1] at h
      cases h2 : DT.inplace v a with
      | error e => simp [h2] at h
      | ok w =>
        simp only [h2] at h
        have e1 : v = hi := by unfold DT.inplace at h1; split at h1 <;> simp_all
        have e2 : w = v := by unfold DT.inplace at h2; split at h2 <;> simp_all
        rw [ih w h, e2, e1]

/-- a floating leading coefficient is never refused: `x` and the lower coefficients may be
float64, float32, int64 or int32 (their values are used exactly) -/
theorem polynomialDT_float_leading (x hi : DT) (lower : List DT) (hf : hi.isFloat = true) :
    polynomialDT x hi lower = .ok hi := by
  induction lower with
  | nil => rfl
  | cons a rest ih =>
    have h1 : ∀ b, DT.inplace hi b = .ok hi := by intro b; simp [DT.inplace, hf]
    simp only [polynomialDT, bind, Except.bind, h1, ih]

/-- a peak evaluates to the promoted dtype of `x` and `loc`, which must be floating -/
theorem gaussianDT_result (A μ σ x : DT) (below : Bool) (d : DT)
    (h : gaussianDT A μ σ x below = .ok d) : d = DT.promote x μ ∧ d.isFloat = true := by
  cases A <;> cases μ <;> cases σ <;> cases x <;> cases below <;> cases d <;> revert h <;> decide

theorem lorentzianDT_result (A μ σ x : DT) (below : Bool) (d : DT)
    (h : lorentzianDT A μ σ x below = .ok d) : d = DT.promote x μ ∧ d.isFloat = true := by
  cases A <;> cases μ <;> cases σ <;> cases x <;> cases below <;> cases d <;> revert h <;> decide

/-- with float64 parameters every dtype of `x` is accepted and the result is float64 -/
theorem float64_params_any_x (x : DT) (below belowG : Bool) :
    gaussianDT .f64 .f64 .f64 x below = .ok .f64 ∧ lorentzianDT .f64 .f64 .f64 x below = .ok .f64 ∧
    pseudoVoigtDT .f64 .f64 .f64 .f64 x below belowG = .ok .f64 ∧
    ∀ lower : List DT, polynomialDT x .f64 lower = .ok .f64 := by
  refine ⟨?_, ?_, ?_, fun lower => polynomialDT_float_leading x .f64 lower rfl⟩ <;>
    cases x <;> cases below <;> (try cases belowG) <;> decide

example : polynomialDT .f64 .i64 [.f64] = .error .dtype := by decide
example : gaussianDT .f64 .f64 .i32 .f64 false = .error .dtype := by decide
example : gaussianDT .f64 .f64 .i32 .f64 true = .ok .f64 := by decide


/-! ## non-vacuity of the key / unit statements: a carrier on which everything computes -/
section nonvacuity
local instance : Add Unit := ⟨fun _ _ => ()⟩
local instance : Sub Unit := ⟨fun _ _ => ()⟩
local instance : Mul Unit := ⟨fun _ _ => ()⟩
local instance : Div Unit := ⟨fun _ _ => ()⟩
local instance : Neg Unit := ⟨fun _ => ()⟩
local instance : Max Unit := ⟨fun _ _ => ()⟩
local instance : OfScientific Unit := ⟨fun _ _ _ => ()⟩
local instance : Trans Unit := ⟨id, id, id, fun _ _ => (), id, ()⟩
local instance : Consts Unit := ⟨()⟩

def uM : U := ⟨1, 0, 0, 0⟩
def uC : U := ⟨0, 0, 1, 0⟩
/-- `(PolynomialModel(degree=1, prefix='b') + GaussianModel(prefix='g')).with_prefix('c')` -/
def exModel : M := .composite (.polynomial 1 [98]) (.gaussian [103]) [99]
def exParams : List (Str × Value Unit) :=
  [([99, 98] ++ sCoef 0, ⟨(), U.div uC uM⟩), ([99, 98] ++ sCoef 1, ⟨(), U.div (U.div uC uM) uM⟩),
   ([99, 103] ++ sAmplitude, ⟨(), uC⟩), ([99, 103] ++ sLoc, ⟨(), uM⟩), ([99, 103] ++ sScale, ⟨(), uM⟩)]

example : exModel.paramNames = exParams.map (·.1) := by decide
example : ∃ v, call exModel ⟨(), uM⟩ exParams = .ok v ∧ v.unit = U.div uC uM := ⟨_, rfl, rfl⟩
example : call exModel ⟨(), uM⟩ (exParams.drop 1) = .error .value := rfl
example : call exModel ⟨(), uM⟩ (([120], ⟨(), uM⟩) :: exParams) = .error .value := rfl
example : ∃ v, gaussianV (⟨(), uC⟩ : Value Unit) ⟨(), uM⟩ ⟨(), uM⟩ ⟨(), uM⟩ = .ok v := ⟨_, rfl⟩
example : gaussianV (⟨(), uC⟩ : Value Unit) ⟨(), uM⟩ ⟨(), ⟨1, 0, 0, -3⟩⟩ ⟨(), uM⟩ = .error .unit := rfl
example : ∃ v, pseudoVoigtV (⟨(), uC⟩ : Value Unit) ⟨(), uM⟩ ⟨(), uM⟩ ⟨(), U.one⟩ ⟨(), uM⟩ = .ok v := ⟨_, rfl⟩
example : hornerUnits uM (U.div uC uM) [uC] = .ok uC := rfl
example : mkComposite (.gaussian []) (.lorentzian []) [] = .error .value := rfl
example : mkPolynomial 0 [] = .error .value := rfl
/-- peak `p1_` handed the scales of `p2_` and of itself reports its own -/
example : fwhm (M.gaussian [112, 49, 95]) ([([112, 50, 95] ++ sScale, (⟨(), uM⟩ : Value Unit))] ++
    [([112, 49, 95] ++ sScale, ⟨(), uC⟩)] ++ []) = .ok ⟨(), uC⟩ := rfl

end nonvacuity

end ScnVerif.Props.C16
