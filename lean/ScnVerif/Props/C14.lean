import ScnVerif.Lemmas.CifBuilder
/-!
# C14 — CIF output is valid CIF 1.1 and parses back to exactly what was supplied

Objects: the writer model `Model/Cif/Writer.lean` + `Model/Cif/Builder.lean` (a transcription of
`src/scippneutron/io/cif.py`, compared byte for byte with the implementation on every run) and the
independent CIF 1.1 reader `Model/Cif/Parser.lean` (`tokenize`, `parseToks`).

The theorems are about **the code as it stands** (`Variant.current`; the quoting decision and the
file heading were repaired in commits 667eecd and 0de43de, found by this check), and the harness
compares the implementation with that model unconditionally.  `Variant.beforeFix` is kept only for
the regression counterexamples `before_fix_…` below: one proved counterexample per former defect
class, so that a regression contradicts a theorem and not only the correspondence.

The one class no quoting decision can repair — a multi-line value with a line beginning with `;`,
which CIF 1.1 cannot represent — is excluded by the decidable predicate `Benign`; the full statement
is kept as `FullValueRoundtrip` with a proof that it is false of the model.

Helper lemmas (all proved, no Mathlib) are in `Lemmas/Cif.lean`; the device is
`Piece t toks` = "read from the start of a line, `t` yields exactly `toks` and ends at the start of a
line", which every written unit satisfies and which composes by concatenation.
-/
namespace ScnVerif.Props.C14
open ScnVerif ScnVerif.Cif

/-! ## 1. values -/

/-- **value round trip (partial: `Benign`)**.  For every string `s` (already escaped; any characters
at all except a carriage return) in which no line after the first begins with `;`, the formatted
value followed by a newline is read, from the start of a line, as exactly one value token, the
reader ends at the start of a line, and the token carries `s` up to surrounding blanks. -/
theorem value_roundtrip_partial (s : Str) (hcr : 13 ∉ s) (hb : Benign s) :
    run (.ws true, []) (fmtE s ++ [10]) = (.ws true, [.value (tokenValue s)])
      ∧ tokenize (fmtE s ++ [10]) = [.value (tokenValue s)]
      ∧ strip (tokenValue s) = strip s := by
  have h := fmt_run s hcr hb true (fun _ => rfl) 10 (by decide) []
  have h' : run (.ws true, []) (fmtE s ++ [10]) = (.ws true, [.value (tokenValue s)]) := by
    simpa [fmtE, isEol] using h
  exact ⟨h', by simp [tokenize, h', finish], strip_tokenValue s⟩

/-- in any position: after a blank or at the start of a line, followed by any white space; only a
text field needs the start of a line (and the writer puts it there, see `pair_roundtrip`) -/
theorem value_roundtrip_any_position (s : Str) (hcr : 13 ∉ s) (hb : Benign s) (ls : Bool)
    (hls : quotesFor true s = .text → ls = true) (w : Nat) (hw : isWs w = true) (out : List Tok) :
    run (.ws ls, out) (fmtE s ++ [w]) = (.ws (isEol w), out ++ [.value (tokenValue s)]) :=
  fmt_run s hcr hb ls hls w hw out

/-- the hypotheses can be checked on the supplied string, before escaping: `_encode_non_ascii` turns
a non-ASCII character into `\`, a letter and hexadecimal digits, so it neither creates nor removes a
line beginning with `;` or a carriage return -/
theorem value_hypotheses_on_supplied_string (raw : Str) (hcr : 13 ∉ raw) (hb : Benign raw) :
    ValueOk (encodeNonAscii raw) :=
  valueOk_of_raw raw hcr hb

example : 13 ∉ ofString "µ-metal\n; _x" ∧ Benign (ofString "µ-metal\n ;_x") := by decide

/-- the statement at full strength: every string of printable ASCII, tab and newline survives -/
def FullValueRoundtrip : Prop :=
  ∀ s : Str, (∀ c ∈ s, (32 ≤ c ∧ c ≤ 126) ∨ c = 9 ∨ c = 10) →
    ∃ v, tokenize (fmtE s ++ [10]) = [.value v] ∧ strip v = strip s

/-- … is false of the writer, before and after the repair: `"x\n;y"` closes its own text field
(`C14:text-field-self-terminates`; CIF 1.1 has no representation for this value) -/
theorem full_value_roundtrip_false : ¬ FullValueRoundtrip := by
  intro h
  obtain ⟨v, hv, _⟩ := h [120, 10, 59, 121] (by decide)
  have : tokenize (fmtE [120, 10, 59, 121] ++ [10]) = [.value [32, 120], .bad 9, .value [121], .bad 8] := by decide
  rw [this] at hv
  simp at hv

/-- `Benign` is exactly "no end-of-line is followed by `;`" and is inhabited by non-trivial strings,
including every class the code got wrong before 667eecd -/
example : Benign (ofString "a\nb; c\n ;d") ∧ ¬ Benign (ofString "a\n;b") := by decide
example : ∀ s ∈ ["_abc", "#abc", "$x", "[a]", "]", "loop_", "Data_1", "global_", "stop_", "save_x", "a\tb", ";abc", "",
      "it's", "say \"x\"", "'a' \"b\"", "a\nb", "x;y", "a' b", "\\xb5"].map ofString,
    ValueOk s ∧ tokenize (fmtE s ++ [10]) = [.value (tokenValue s)] := by decide

/-! ### regression counterexamples: the code before 667eecd / 0de43de, one per former defect class
(`writePair Variant.beforeFix` is `Chunk.write` of one pair with the old `_quotes_for_string_value`) -/

/-- `_abc` is read back as a tag -/
theorem before_fix_leading_underscore :
    tokenize (writePair Variant.beforeFix (ofString "k", ofString "_abc")) = [.tag (ofString "k"), .tag (ofString "abc")] := by
  decide
/-- `#abc` is read back as a comment: the value is lost -/
theorem before_fix_hash :
    tokenize (writePair Variant.beforeFix (ofString "k", ofString "#abc")) = [.tag (ofString "k")] := by decide
/-- `$x` and `[a]` are reserved in CIF 1.1 -/
theorem before_fix_dollar_bracket :
    tokenize (writePair Variant.beforeFix (ofString "k", ofString "$x")) = [.tag (ofString "k"), .bad 2]
    ∧ tokenize (writePair Variant.beforeFix (ofString "k", ofString "[a]")) = [.tag (ofString "k"), .bad 3] := by decide
/-- reserved words are read back as keywords -/
theorem before_fix_reserved_word :
    tokenize (writePair Variant.beforeFix (ofString "k", ofString "loop_")) = [.tag (ofString "k"), .loop]
    ∧ tokenize (writePair Variant.beforeFix (ofString "k", ofString "Data_1")) = [.tag (ofString "k"), .data (ofString "1")]
    ∧ tokenize (writePair Variant.beforeFix (ofString "k", ofString "global_")) = [.tag (ofString "k"), .bad 6] := by decide
/-- a tab splits the value in two -/
theorem before_fix_tab :
    tokenize (writePair Variant.beforeFix (ofString "k", ofString "a\tb"))
      = [.tag (ofString "k"), .value (ofString "a"), .value (ofString "b")] := by decide
/-- `;abc` is put at the start of a line by `Chunk.write` and opens a text field that swallows what follows -/
theorem before_fix_semicolon :
    tokenize (writePair Variant.beforeFix (ofString "k", ofString ";abc") ++ writePair Variant.beforeFix (ofString "z", ofString "end"))
      = [.tag (ofString "k"), .bad 8] := by decide
/-- `save_cif` writes a non-ASCII file comment as it is -/
theorem before_fix_heading_not_ascii : ¬ Ascii (fileHeading Variant.beforeFix [181]) := by decide

/-! ## 2. pairs, loops, comments -/

/-- a key–value pair is read back as its tag followed by its value (the text field is put on its own
line by `Chunk.write`) -/
theorem pair_roundtrip (k raw : Str) (hk : TagOk k) (hv : ValueOk (encodeNonAscii raw)) :
    Piece (writePair Variant.current (k, raw)) [.tag k, valueTok raw]
      ∧ tokenize (writePair Variant.current (k, raw)) = [.tag k, valueTok raw] :=
  ⟨piece_pair k raw hk hv, (piece_pair k raw hk hv).tokenize⟩

example : TagOk (ofString "audit.creation_method") ∧ ValueOk (encodeNonAscii (ofString "written by 'scippneutron'\n ;-)")) := by
  decide

/-- **loops, both layouts**: for every number of rows and columns, whatever the comment, a loop is
read back as `loop_`, its tags in order, and its values row by row — in the table layout and in the
flat layout (which is chosen as soon as any formatted value contains `;`) -/
theorem loop_roundtrip (l : Loop) (h : LoopOk l) :
    Piece (l.write Variant.current) ([.loop] ++ l.columns.map (fun c => .tag c.1) ++ l.rowMajor.map valueTok)
      ∧ tokenize (l.write Variant.current) = [.loop] ++ l.columns.map (fun c => .tag c.1) ++ l.rowMajor.map valueTok :=
  ⟨piece_loop l h, (piece_loop l h).tokenize⟩

/-- row-major order of an `n × m` loop: `n·m` values, and row `i` is the `i`-th entry of every column -/
theorem loop_row_major (l : Loop) (n : Nat) (h : LoopRect l n) :
    l.rowMajor.length = n * l.columns.length
      ∧ ∀ i < n, (rowsOf n (l.columns.map (·.2)))[i]? = some ((l.columns.map (·.2)).filterMap (·[i]?)) :=
  ⟨rowMajor_length l n h, fun i hi => rowsOf_getElem? n _ i hi⟩

/-- non-vacuity: a 2×2 loop with a multi-line value, a reserved word, `_x` and `;` (flat layout) -/
def exLoop : Loop :=
  ⟨ofString "made up\n_tag x", [(ofString "a", [ofString "water\nand salt", ofString "_x"]),
                                 (ofString "b", [ofString "loop_", ofString ";"])], none⟩

example : LoopOk exLoop ∧ LoopRect exLoop 2 ∧ tokenize (exLoop.write Variant.current)
      = [.loop, .tag (ofString "a"), .tag (ofString "b"), .value (ofString " water\nand salt"), .value (ofString "loop_"),
         .value (ofString "_x"), .value (ofString ";")] := by
  refine ⟨by decide, ⟨by decide, by decide, by decide⟩, by decide⟩

/-- **comments never leak**: for *every* string, what `_write_comment` writes yields no token and
leaves the reader at the start of a line -/
theorem comment_never_leaks (c : Str) : Piece (writeComment c) [] ∧ tokenize (writeComment c) = [] :=
  ⟨piece_comment c, (piece_comment c).tokenize⟩

example : tokenize (writeComment (ofString "_a b\r\ndata_x\x0bloop_\n; '")) = [] := by decide

/-! ## 3. blocks and documents -/

/-- **a block is read back as exactly what was supplied**: its name, the generated schema loop, and
its items in order — pairs with their values, loops with their tags and their values row by row -/
theorem block_roundtrip (ordered : List Schema) (b : Block) (h : BlockOk ordered b)
    (hs : ∀ it ∈ b.content, ItemShape it) :
    Piece (b.writeWith Variant.current ordered) (blockToks ordered b)
      ∧ parseToks (tokenize (b.writeWith Variant.current ordered)) = some [blockP ordered b] := by
  refine ⟨piece_block ordered b h, ?_⟩
  rw [(piece_block ordered b h).tokenize]
  have := parse_docToks [(ordered, b)] (by simpa using hs)
  simpa [docToks] using this

/-- the block-name hypothesis is the check made by the `Block.name` setter, plus "not empty" (an empty
name gives a bare `data_`: `C14:empty-block-name`) and "no carriage return" -/
theorem block_name_hypothesis (b : Block) (h : b.nameOk = true) (hne : b.name ≠ []) (hcr : 13 ∉ b.name) :
    NameOk (encodeNonAscii b.name) :=
  nameOk_of_check b h hne hcr

/-- **documents**: heading, file comment and any number of blocks -/
theorem document_roundtrip (comment : Str) (blocks : List (List Schema × Block))
    (h : ∀ ob ∈ blocks, BlockOk ob.1 ob.2) (hs : ∀ ob ∈ blocks, ∀ it ∈ ob.2.content, ItemShape it) :
    Piece (docText comment blocks) (docToks blocks)
      ∧ parseToks (tokenize (docText comment blocks)) = some (blocks.map (fun ob => blockP ob.1 ob.2)) := by
  refine ⟨piece_doc comment blocks h, ?_⟩
  rw [(piece_doc comment blocks h).tokenize]
  exact parse_docToks blocks hs

/-- the executable `save_cif` of the model (the function compared with the implementation) produces
`docText`; `CIF.save` of the builder model is `save_cif` of the assembled block by definition -/
theorem save_cif_is_document (core : Schema) (comment : Str) (blocks : List (Block × List Nat)) (t : Str)
    (h : saveCif Variant.current core comment blocks = some t) :
    t = docText comment (blocks.map (fun bp => (orderedOf core bp.1 bp.2, bp.1))) :=
  saveCif_docText core comment blocks t h

theorem builder_save_is_save_cif (k : Consts) (date : Str) (perm : List Nat) (b : Builder) :
    (b.save Variant.current k date perm).1
      = saveCif Variant.current k.core (encodeNonAscii b.comment) [(b.block k date, perm)] := rfl

/-- non-vacuity: a hostile two-block document satisfies the hypotheses and reads back -/
def exCore : Schema := ⟨ofString "coreCIF", ofString "3.3.0", ofString "https://x/cif_core.dic"⟩
def exBlock1 : Block :=
  ⟨ofString "a#b", ofString "_x y\ndata_q",
   [.chunk ⟨ofString "loop_", [(ofString "k.a", ofString "_abc"), (ofString "k.b", ofString "x\ny 'q' \"r\"")], none⟩,
    .loop ⟨[], [(ofString "c1", [ofString "#1", ofString "a\tb"]), (ofString "c2", [ofString "", ofString "\xb5"])], none⟩],
   none⟩
def exBlock2 : Block := ⟨ofString "second", [], [.chunk ⟨[], [(ofString "z", ofString "stop_")], none⟩], none⟩
def exDoc : List (List Schema × Block) := [([exCore], exBlock1), ([], exBlock2)]

example : BlockOk [exCore] exBlock1 ∧ BlockOk [] exBlock2 :=
  ⟨⟨by decide, by decide, by decide⟩, ⟨by decide, by decide, by decide⟩⟩
example : ∀ ob ∈ exDoc, ∀ it ∈ ob.2.content, ItemShape it := by decide
example : parseToks (tokenize (docText (ofString "file\ncomment \xb5") exDoc)) =
    some [⟨ofString "a#b",
            [.loop [ofString "audit_conform.dict_name", ofString "audit_conform.dict_version", ofString "audit_conform.dict_location"]
               [ofString "coreCIF", ofString "3.3.0", ofString "https://x/cif_core.dic"],
             .pair (ofString "k.a") (ofString "_abc"), .pair (ofString "k.b") (ofString " x\ny 'q' \"r\""),
             .loop [ofString "c1", ofString "c2"] [ofString "#1", ofString "", ofString "a\tb", ofString "\\xb5"]]⟩,
          ⟨ofString "second", [.pair (ofString "z") (ofString "stop_")]⟩] := by
  decide +kernel

/-! ## 4. ASCII -/

/-- **the output is ASCII**: every character of a written document is below 128, whatever the values,
comments and block names (tags are written as given, so they are assumed ASCII) -/
theorem ascii_only (comment : Str) (blocks : List (List Schema × Block))
    (hk : ∀ ob ∈ blocks, ∀ it ∈ ob.2.content, ∀ k ∈ it.keys, Ascii k) :
    ∀ c ∈ docText comment blocks, c < 128 :=
  ascii_doc comment blocks hk

/-- **only the CIF 1.1 character set**: if the supplied text (comments, names, values, schema fields)
consists of printable ASCII, tab, newline and arbitrary non-ASCII code points, and the tags of
printable ASCII, then every character written is printable ASCII, HT or LF/CR -/
theorem valid_characters_only (comment : Str) (blocks : List (List Schema × Block)) (hc : DomComment comment)
    (hd : ∀ ob ∈ blocks, BlockDom ob.1 ob.2) : ∀ c ∈ docText comment blocks, validChar c = true :=
  valid_doc comment blocks hc hd

/-- **the complete reader** (`parseCif` = character set + tokenizer + parser, the function the harness
runs on the text produced by the implementation) returns exactly the supplied structure -/
theorem document_roundtrip_complete_reader (comment : Str) (blocks : List (List Schema × Block))
    (hc : DomComment comment) (hd : ∀ ob ∈ blocks, BlockDom ob.1 ob.2) (h : ∀ ob ∈ blocks, BlockOk ob.1 ob.2)
    (hs : ∀ ob ∈ blocks, ∀ it ∈ ob.2.content, ItemShape it) :
    parseCif (docText comment blocks) = some (blocks.map (fun ob => blockP ob.1 ob.2)) :=
  parseCif_doc comment blocks hc hd h hs

example : DomComment (ofString "file\r\ncomment \xb5\x0b") ∧ BlockDom [exCore] exBlock1 ∧ BlockDom [] exBlock2 :=
  ⟨by decide, ⟨by decide, by decide, by decide, by decide⟩, ⟨by decide, by decide, by decide, by decide⟩⟩

/-- `_encode_non_ascii` yields ASCII for every string and is idempotent (a comment passes through it
once per setter) -/
theorem encode_ascii_idempotent (s : Str) :
    (∀ c ∈ encodeNonAscii s, c < 128) ∧ encodeNonAscii (encodeNonAscii s) = encodeNonAscii s :=
  ⟨ascii_encode s, encode_idempotent s⟩

example : encodeNonAscii [181, 8232, 128512] = ofString "\\xb5\\u2028\\U0001f600" := by decide

/-! ## 4b. line terminators in comments, Unicode in any position -/

/-- **comments never leak, whatever the line terminator**: for every comment string — with bare CR,
CRLF, VT, FF, FS, GS, RS, NEL, LS, PS or anything else — what `_write_comment` writes yields no
token, ends at the start of a line, and contains no line terminator of `str.splitlines` other than
the `\n` the writer itself puts after each `# …` line (in particular no CR, which CIF 1.1 reads as
an end of line) -/
theorem comment_never_leaks_any_line_terminator (c : Str) :
    tokenize (writeComment c) = [] ∧ Piece (writeComment c) []
      ∧ ∀ ch ∈ writeComment c, isLineBreak ch = true → ch = 10 :=
  ⟨(piece_comment c).tokenize, piece_comment c, writeComment_breaks c⟩

example : ∀ sep ∈ [[13], [13, 10], [11], [12], [28], [29], [30], [133], [8232], [8233]],
    tokenize (writeComment (ofString "first" ++ sep ++ ofString "data_x _t 'v'")) = [] := by decide

/-- regression counter-model (seeded change C14_5): a `_write_comment` that treats only LF as a line
break, `comment.rstrip('\n').replace('\n', '\n# ')`, leaks the text after a bare CR -/
def writeCommentLfOnly (c : Str) : Str :=
  [35, 32] ++ ((c.reverse.dropWhile (· == 10)).reverse).flatMap (fun ch => if ch = 10 then [10, 35, 32] else [ch]) ++ [10]

theorem lf_only_comment_leaks :
    tokenize (writeCommentLfOnly (ofString "first\rdata_x")) = [.data (ofString "x")] := by decide

/-- **only printable ASCII, tab and newline are written**, for arbitrary Unicode input: if the
supplied text (file comment, block names and comments, item comments, every value *in every
position* — plain `str` in a chunk, scalar Variable, element of a loop column — and schema fields)
consists of printable ASCII, tab, newline and arbitrary non-ASCII code points, and the tags of
printable ASCII, then every character of the document is printable ASCII, tab or newline (no CR, no
other control character, nothing ≥ 128) -/
theorem ascii_only_document (comment : Str) (blocks : List (List Schema × Block)) (hc : DomC printableNl comment)
    (hd : ∀ ob ∈ blocks, BlockDomP printableNl ob.1 ob.2) :
    ∀ c ∈ docText comment blocks, (32 ≤ c ∧ c ≤ 126) ∨ c = 9 ∨ c = 10 := by
  intro c hcm
  have := all_doc acceptsPrintable_printableNl comment blocks hc hd c hcm
  simp only [printableNl, Bool.or_eq_true, Bool.and_eq_true, decide_eq_true_eq, beq_iff_eq] at this
  rcases this with (h | h) | h
  · exact Or.inl h
  · exact Or.inr (Or.inl h)
  · exact Or.inr (Or.inr h)

/-- every element of every loop column is escaped: the same `formatValue` serves all containers
(seeded change C14_6 escaped only plain `str` values) -/
theorem loop_values_escaped (l : Loop) (h : LoopDomP printableNl l) : All printableNl (l.write Variant.current) :=
  all_loop acceptsPrintable_printableNl Variant.current l h

example : LoopDomP printableNl ⟨ofString "Å", [(ofString "audit_author.name", [ofString "Jürgen Müller", ofString "Åsa"])], none⟩
    ∧ BlockDomP printableNl [exCore] exBlock1 :=
  ⟨by decide, ⟨by decide, by decide, by decide, by decide⟩⟩

/-! ## 4c. standard-uncertainty columns -/

/-- **which tokens stand under which tag in the reduced-powder loop**: the loop built by
`_make_reduced_powder_loop` has exactly the columns `point_id`, the coordinate, *the coordinate's*
standard uncertainties under the coordinate's tag + `_su` (iff the coordinate has variances), the
intensities, *the intensities'* standard uncertainties under the intensity tag + `_su` (iff the data
have variances), and these five tags are pairwise distinct.  The harness supplies
`d.coordSu = str(sqrt(var))` of the coordinate and `d.valuesSu` of the data, so a mix-up of the two
(seeded change C14_4) contradicts this theorem together with the text equality. -/
theorem su_column_is_sqrt_variance (k : Consts) (d : PowderData) (comment : Str) (l : Loop)
    (h : reducedPowderLoop k d comment = .ok l) :
    ∃ cn dn, powderNames d = .ok (cn, dn) ∧ cn ∈ coordNames ∧ dn ∈ dataNames
      ∧ l.columns = [(ofString "pd_data.point_id", d.pointIds), (cn, d.coord)]
          ++ (match d.coordSu with | some su => [(suffixSu cn, su)] | none => [])
          ++ [(dn, d.values)]
          ++ (match d.valuesSu with | some su => [(suffixSu dn, su)] | none => [])
      ∧ [ofString "pd_data.point_id", cn, suffixSu cn, dn, suffixSu dn].Nodup :=
  powder_columns k d comment l h

/-- the calibration loop: the `coeff_su` column is the supplied uncertainty tokens of the coefficients -/
theorem calibration_su_column (k : Consts) (powers coeffs : List Str) (su : Option (List Str)) (comment : Str) :
    (calibrationLoop k powers coeffs su comment).columns =
      [(ofString "pd_calib_d_to_tof.id", powers.map calibId), (ofString "pd_calib_d_to_tof.power", powers),
       (ofString "pd_calib_d_to_tof.coeff", coeffs)]
      ++ (match su with | some s => [(ofString "pd_calib_d_to_tof.coeff_su", s)] | none => []) := rfl

def exPowder : PowderData :=
  ⟨ofString "tof", ofString "µs", [], ofString "counts", false, [ofString "0", ofString "1"],
   [ofString "1.2", ofString "1.4"], some [ofString "0.1", ofString "0.2"], [ofString "13.6", ofString "26.0"],
   some [ofString "0.9", ofString "1.0"]⟩

example : (reducedPowderLoop ⟨exCore, exCore, []⟩ exPowder (ofString "c")).toOption.map (·.columns.map (·.1)) =
    some ([ "pd_data.point_id", "pd_meas.time_of_flight", "pd_meas.time_of_flight_su", "pd_proc.intensity_norm",
            "pd_proc.intensity_norm_su"].map ofString) := by decide

/-! ## 4d. the high-level builder -/

/-- **round trip of the high-level builder.**  Take any builder object: `CIF(name, comment=…)`
followed by any chain of `with_authors`, `with_reducers`, `with_beamline`,
`with_reduced_powder_data`, `with_powder_calibration`, `copy`, name and comment assignments and
`save` calls (a builder object in a branching call history is reached by the chain of its own
ancestry; `save` only advances the id counter, about which `role_ids_wellformed` speaks).  If the
string arguments of the calls satisfy the value hypothesis `CallOk` (no carriage return, no line
after the first beginning with `;`, printable ASCII / tab / newline / any non-ASCII code point; authors
have a name; number columns are `n ≥ 1` tokens each; the name is accepted by the setter and not
empty), then whatever `CIF.save` writes is read by the complete reader (`parseCif`: character set,
tokenizer, parser) as exactly one block: the block the builder assembled (`Builder.block`: audit
chunk, reducers, authors and roles with their ids, content in call order) with its schema loop in the
order written — and consists of printable ASCII, tab and newline only. -/
theorem builder_document_roundtrip (k : Consts) (hk : k.Ok printableNl) (date : Str) (hd : StrOk printableNl date)
    (name comment : Str) (hn : NameArgOk printableNl name) (hc : DomC printableNl comment)
    (calls : List Call) (hcalls : ∀ c ∈ calls, CallOk printableNl c) (perm : List Nat) (t : Str)
    (ht : ((calls.foldl (Builder.apply k) (Builder.new name comment)).save Variant.current k date perm).1 = some t) :
    let b := calls.foldl (Builder.apply k) (Builder.new name comment)
    parseCif t = some [blockP (orderedOf k.core (b.block k date) perm) (b.block k date)]
      ∧ All printableNl t :=
  builder_roundtrip k hk date hd name comment hn hc calls hcalls perm t ht

/-- non-vacuity: a chain with hostile strings satisfies the hypotheses and `save` produces a text -/
def exConsts : Consts := ⟨exCore, ⟨ofString "pdCIF", ofString "2.5.0", ofString "https://x/cif_pow.dic"⟩, ofString "25.1.0+g1"⟩
def exPerson (name role : String) (corr : Bool) : Person := ⟨ofString name, [], ofString "Lund; SE", [], ofString role, corr⟩
def exCalls : List Call :=
  [.withAuthors [exPerson "Jürgen #1" "_measurement" true, exPerson "loop_" "" false, exPerson "a\tb" "data\n reduction" false],
   .withReducers [ofString ";abc", ofString "$x"], .setComment (ofString "first\rdata_x"),
   .withBeamline (ofString "DREAM") (some (ofString "ESS")) none (ofString "_x y"),
   .withReducedPowderData exPowder (ofString "made up"), .copy, .save (ofString "d") [0, 1],
   .withPowderCalibration [ofString "0", ofString "1.5"] [ofString "1.2", ofString "4.5"] none []]

example : exConsts.Ok printableNl ∧ StrOk printableNl (ofString "2026-10-01T12:00:00+00:00")
    ∧ NameArgOk printableNl (ofString "my/name") ∧ ∀ c ∈ exCalls, CallOk printableNl c := by
  refine ⟨⟨⟨by decide, by decide⟩, ⟨by decide, by decide⟩, by decide⟩, by decide, ⟨by decide, by decide, by decide, by decide⟩, ?_⟩
  have hp : ∀ n r c, StrOk printableNl (ofString n) → StrOk printableNl (ofString r) → ofString n ≠ [] →
      PersonOk printableNl (exPerson n r c) :=
    fun n r c h1 h2 h3 => ⟨h3, h1, (by decide : StrOk printableNl []), (by decide : StrOk printableNl (ofString "Lund; SE")),
      (by decide : StrOk printableNl []), h2⟩
  intro c hc
  simp only [exCalls, List.mem_cons, List.not_mem_nil, or_false] at hc
  rcases hc with rfl | rfl | rfl | rfl | rfl | rfl | rfl | rfl
  · intro a ha
    simp only [List.mem_cons, List.not_mem_nil, or_false] at ha
    rcases ha with rfl | rfl | rfl
    · exact hp _ _ _ (by decide) (by decide) (by decide)
    · exact hp _ _ _ (by decide) (by decide) (by decide)
    · exact hp _ _ _ (by decide) (by decide) (by decide)
  · exact (by decide : ∀ r ∈ [ofString ";abc", ofString "$x"], StrOk printableNl r)
  · exact (by decide : DomC printableNl (ofString "first\rdata_x"))
  · exact ⟨by decide, fun x hx => by cases hx; decide, by decide⟩
  · exact ⟨⟨2, by decide, by decide, by decide, by decide,
      fun su hs => by cases hs; decide, by decide, fun su hs => by cases hs; decide⟩, by decide⟩
  · trivial
  · trivial
  · exact ⟨2, by decide, by decide, by decide, by decide, fun s hs => by cases hs⟩

example : (((exCalls.foldl (Builder.apply exConsts) (Builder.new (ofString "my/name") (ofString "c"))).save
    Variant.current exConsts (ofString "2026-10-01T12:00:00+00:00") [1, 0]).1).isSome = true := by decide +kernel

/-! ## 5. author-role ids -/

/-- **author-role ids**, for every list of authors and every value of the builder's id counter (so
after any sequence of builder calls, copies and saves): the author id columns contain no id twice,
the role loop contains no id twice, and every id of the role loop occurs in an author id column —
it refers to exactly one author id of the same file -/
theorem role_ids_wellformed (authors : List Person) (nextId : Nat) :
    (assignIds authors nextId).authorIds.Nodup ∧ (assignIds authors nextId).roleIds.Nodup ∧
      ∀ i ∈ (assignIds authors nextId).roleIds, i ∈ (assignIds authors nextId).authorIds :=
  role_ids_wellformed' authors nextId

/-- non-vacuity: contact author with role, regular authors with and without -/
example :
    let p (role : String) (corr : Bool) : Person := ⟨ofString "N", [], [], [], ofString role, corr⟩
    let x := assignIds [p "" false, p "measurement" true, p "reduction" false] 4
    x.authorIds = [4, 5, 6] ∧ x.roleIds = [4, 6] := by decide

end ScnVerif.Props.C14
