import ScnVerif.Lemmas.Cylinder
import ScnVerif.Gen.Quadratures
import Mathlib.MeasureTheory.Measure.Lebesgue.Basic
/-!
# C18 — cylinder absorption: path lengths, quadrature and transmission are geometric

Property theorems about the executable model `Model/Cylinder.lean` instantiated at ℝ
(the same definitions run at `Float` in the driver and are compared with the Python code on every run).
Helper lemmas live in `Lemmas/Cylinder.lean`.
-/
namespace ScnVerif.Props.C18
open ScnVerif ScnVerif.Cylinder


/-- infinite cylinder: a ray parameter is within distance `r` of the axis iff it lies in the returned
    interval (covers the parallel case, where the interval is the whole line or empty) -/
theorem cyl_interval_iff (a b n : V3 ℝ) (r t : ℝ) (ha : V3.dot a a = 1) (hr : 0 ≤ r) :
    V3.norm (V3.cross (V3.sub (V3.smul t n) b) a) ≤ r ↔ (lineInfiniteCylinder a b r n).Mem t := by
  rw [norm_le_iff _ _ hr, lineInfiniteCylinder_eq_old]
  have hexp : V3.dot (V3.cross (V3.sub (V3.smul t n) b) a) (V3.cross (V3.sub (V3.smul t n) b) a)
      = V3.dot (V3.cross n a) (V3.cross n a) * t ^ 2 - 2 * V3.dot (V3.cross n a) (V3.cross b a) * t
        + V3.dot (V3.cross b a) (V3.cross b a) := by
    simp only [V3.dot, V3.cross, V3.sub, V3.smul]; ring
  by_cases hq : V3.dot (V3.cross n a) (V3.cross n a) = 0
  · -- parallel: the distance from the axis does not depend on t
    have hz : isZero (V3.dot (V3.cross n a) (V3.cross n a)) = true := (isZero_iff _).2 hq
    have hm : V3.dot (V3.cross n a) (V3.cross b a) = 0 := by
      have h1 : (V3.cross n a).x = 0 ∧ (V3.cross n a).y = 0 ∧ (V3.cross n a).z = 0 := by
        simp only [V3.dot] at hq
        refine ⟨?_, ?_, ?_⟩ <;> nlinarith [sq_nonneg (V3.cross n a).x, sq_nonneg (V3.cross n a).y, sq_nonneg (V3.cross n a).z]
      simp only [V3.dot, h1.1, h1.2.1, h1.2.2]; ring
    have hperp : V3.dot (V3.sub b (V3.smul (V3.dot b a) a)) (V3.sub b (V3.smul (V3.dot b a) a))
        = V3.dot (V3.cross b a) (V3.cross b a) := by
      simp only [V3.dot, V3.cross, V3.sub, V3.smul] at ha ⊢
      linear_combination (-((b.x * b.x + b.y * b.y + b.z * b.z) - (b.x * a.x + b.y * a.y + b.z * a.z) ^ 2)) * ha
    simp only [lineInfiniteCylinderOld, hz, if_true, Itv.Mem, decide_eq_true_eq]
    rw [hexp, hq, hm, norm_le_iff _ _ hr, hperp]
    constructor
    · intro h; exact ⟨by linarith, by simp, by simp⟩
    · rintro ⟨h, _, _⟩; linarith
  · have hz := isZero_false hq
    have hqpos : 0 < V3.dot (V3.cross n a) (V3.cross n a) := by
      rcases lt_or_gt_of_ne hq with h | h
      · exfalso; simp only [V3.dot] at h
        nlinarith [sq_nonneg (V3.cross n a).x, sq_nonneg (V3.cross n a).y, sq_nonneg (V3.cross n a).z]
      · exact h
    have hdisc : V3.dot (V3.cross n a) (V3.cross b a) ^ 2
        - V3.dot (V3.cross n a) (V3.cross n a) * (V3.dot (V3.cross b a) (V3.cross b a) - r ^ 2)
        = V3.dot (V3.cross n a) (V3.cross n a) * (r * r) - V3.dot b (V3.cross n a) * V3.dot b (V3.cross n a) := by
      simp only [V3.dot, V3.cross] at ha ⊢
      linear_combination (-(b.x * (n.y * a.z - n.z * a.y) + b.y * (n.z * a.x - n.x * a.z) + b.z * (n.x * a.y - n.y * a.x)) ^ 2) * ha
    have hq2 := quad_le_iff (V3.dot (V3.cross n a) (V3.cross n a)) (V3.dot (V3.cross n a) (V3.cross b a))
      (V3.dot (V3.cross b a) (V3.cross b a) - r ^ 2) t hqpos
    rw [hdisc] at hq2
    simp only [lineInfiniteCylinderOld, hz, Bool.false_eq_true, if_false, Itv.Mem, decide_eq_true_eq,
      Option.some.injEq, forall_eq', trans_sqrt_real]
    rw [hexp, ← hq2]
    constructor <;> intro h <;> linarith

/-- slab between the two cap planes: same statement (covers rays parallel to the caps) -/
theorem slab_interval_iff (a b n : V3 ℝ) (h t : ℝ) (hh : 0 ≤ h) :
    (0 ≤ V3.dot (V3.sub (V3.smul t n) b) a ∧ V3.dot (V3.sub (V3.smul t n) b) a ≤ h) ↔
      (lineSlab a b h n).Mem t := by
  have key : V3.dot (V3.sub (V3.smul t n) b) a = t * V3.dot n a - V3.dot b a := by
    simp only [V3.dot, V3.sub, V3.smul]; ring
  rw [key]
  by_cases hn : V3.dot n a = 0
  · have hz : isZero (V3.dot n a) = true := (isZero_iff _).2 hn
    simp only [lineSlab, hz, if_true, Itv.Mem, Bool.and_eq_true, decide_eq_true_eq]
    rw [hn]
    constructor
    · rintro ⟨h1, h2⟩; exact ⟨⟨by linarith, by linarith⟩, by simp, by simp⟩
    · rintro ⟨⟨h1, h2⟩, _, _⟩; constructor <;> linarith
  · have hz := isZero_false hn
    simp only [lineSlab, hz, Bool.false_eq_true, if_false, Itv.Mem, minW_eq, maxW_eq, Option.some.injEq,
      forall_eq', true_and]
    generalize V3.dot n a = nd at hn ⊢
    generalize V3.dot b a = bd
    rcases lt_or_gt_of_ne hn with hneg | hpos
    · have e1 : bd / nd + h / nd ≤ bd / nd := by
        have : h / nd ≤ 0 := div_nonpos_of_nonneg_of_nonpos hh hneg.le
        linarith
      rw [min_eq_right e1, max_eq_right e1, ← add_div, div_le_iff_of_neg hneg, le_div_iff_of_neg hneg]
      constructor <;> rintro ⟨h1, h2⟩ <;> constructor <;> linarith
    · have e1 : bd / nd ≤ bd / nd + h / nd := by
        have : 0 ≤ h / nd := div_nonneg hh hpos.le
        linarith
      rw [min_eq_left e1, max_eq_left e1, ← add_div, div_le_iff₀ hpos, le_div_iff₀ hpos]
      constructor <;> rintro ⟨h1, h2⟩ <;> constructor <;> linarith



/-- the reported path length is the length of the part of the ray inside the solid -/

theorem path_length_is_measure (a base start n : V3 ℝ) (r h : ℝ) (ha : V3.dot a a = 1) (hn : V3.dot n n ≠ 0)
    (hr : 0 ≤ r) (hh : 0 ≤ h) :
    ∃ lo hi : ℝ, (∀ t, (0 ≤ t ∧ InSolid a base r h (V3.add start (V3.smul t n))) ↔ lo ≤ t ∧ t ≤ hi) ∧
      beamIntersection a base r h start n = some (max 0 (hi - lo)) := by
  have hsub : ∀ t, V3.sub (V3.add start (V3.smul t n)) base = V3.sub (V3.smul t n) (V3.sub base start) := by
    intro t; simp only [V3.sub, V3.add, V3.smul, V3.mk.injEq]; refine ⟨?_, ?_, ?_⟩ <;> ring
  have hmem : ∀ t, InSolid a base r h (V3.add start (V3.smul t n)) ↔
      (lineSlab a (V3.sub base start) h n).Mem t ∧ (lineInfiniteCylinder a (V3.sub base start) r n).Mem t := by
    intro t
    rw [← slab_interval_iff a _ n h t hh, ← cyl_interval_iff a _ n r t ha hr, InSolid, hsub t]
    tauto
  obtain ⟨R, hR⟩ := exists_right a (V3.sub base start) n r h ha hn
  obtain ⟨hspec, hval⟩ := posItv_spec _ _ R hR
  by_cases hit : (lineSlab a (V3.sub base start) h n).hit = true ∧
      (lineInfiniteCylinder a (V3.sub base start) r n).hit = true
  · refine ⟨max0Left (maxLeft (lineSlab a (V3.sub base start) h n).left (lineInfiniteCylinder a (V3.sub base start) r n).left), R, ?_, ?_⟩
    · intro t; rw [hmem t, hspec t]; tauto
    · simp only [beamIntersection, hit.1, hit.2, Bool.and_self, if_true]; exact hval
  · refine ⟨1, 0, ?_, ?_⟩
    · intro t; rw [hmem t, hspec t]
      constructor
      · rintro ⟨h1, _⟩; exact absurd h1 hit
      · rintro ⟨h1, h2⟩; linarith
    · have : ((lineInfiniteCylinder a (V3.sub base start) r n).hit &&
          (lineSlab a (V3.sub base start) h n).hit) = false := by
        rw [Bool.eq_false_iff]; intro hc
        rw [Bool.and_eq_true] at hc; exact hit ⟨hc.2, hc.1⟩
      simp only [beamIntersection, this, Bool.false_eq_true, if_false]
      norm_num

/-- a reported path length is never negative -/
theorem beam_nonneg (a base start n : V3 ℝ) (r h L : ℝ)
    (hL : beamIntersection a base r h start n = some L) : 0 ≤ L := by
  simp only [beamIntersection] at hL
  split_ifs at hL
  · simp only [positiveIntervalIntersection] at hL
    split at hL
    · simp at hL
    · simp only [Option.some.injEq] at hL; rw [← hL]; exact max0_nonneg _
  · simp only [Option.some.injEq] at hL; rw [← hL]


/-- the same point set described from the other end -/

theorem other_end_same_solid (a base x : V3 ℝ) (r h : ℝ) (ha : V3.dot a a = 1) :
    InSolid (vneg a) (V3.add base (V3.smul h a)) r h x ↔ InSolid a base r h x := by
  have h1 : V3.dot (V3.sub x (V3.add base (V3.smul h a))) (vneg a) = h - V3.dot (V3.sub x base) a := by
    simp only [V3.dot, V3.sub, V3.add, V3.smul, vneg] at ha ⊢
    linear_combination h * ha
  have h2 : V3.norm (V3.cross (V3.sub x (V3.add base (V3.smul h a))) (vneg a))
      = V3.norm (V3.cross (V3.sub x base) a) := by
    simp only [V3.norm]; congr 1
    simp only [V3.dot, V3.cross, V3.sub, V3.add, V3.smul, vneg]; ring
  simp only [InSolid, h1, h2]
  constructor <;> rintro ⟨p, q, s⟩ <;> refine ⟨by linarith, by linarith, s⟩

/-- the path length does not depend on the end from which the solid is described -/

theorem other_end_same_path (a base start n : V3 ℝ) (r h : ℝ) (ha : V3.dot a a = 1) :
    beamIntersection (vneg a) (V3.add base (V3.smul h a)) r h start n = beamIntersection a base r h start n := by
  have hb : V3.sub (V3.add base (V3.smul h a)) start = V3.add (V3.sub base start) (V3.smul h a) := by
    simp only [V3.sub, V3.add, V3.smul, V3.mk.injEq]; refine ⟨?_, ?_, ?_⟩ <;> ring
  simp only [beamIntersection, hb, cyl_other_end _ _ _ _ _ ha, slab_other_end _ _ _ _ ha]


/-- moving cylinder, start point and direction by the same rigid motion `x ↦ Q x + d`
    (`Q` additive and scalar-product preserving: rotations and reflections) leaves the path length unchanged -/

theorem path_rigid_invariant (Q : V3 ℝ → V3 ℝ) (d a base start n : V3 ℝ) (r h : ℝ)
    (hsub : ∀ u v, Q (V3.sub u v) = V3.sub (Q u) (Q v))
    (hdot : ∀ u v, V3.dot (Q u) (Q v) = V3.dot u v) :
    beamIntersection (Q a) (V3.add (Q base) d) r h (V3.add (Q start) d) (Q n)
      = beamIntersection a base r h start n := by
  have hb : V3.sub (V3.add (Q base) d) (V3.add (Q start) d) = Q (V3.sub base start) := by
    rw [hsub]; simp only [V3.sub, V3.add, V3.mk.injEq]; refine ⟨?_, ?_, ?_⟩ <;> ring
  simp only [beamIntersection, hb]
  rw [cyl_congr a (V3.sub base start) n (Q a) (Q (V3.sub base start)) (Q n) r (hdot _ _) (hdot _ _) (hdot _ _)
    (hdot _ _) (hdot _ _) (hdot _ _),
    slab_congr a (V3.sub base start) n (Q a) (Q (V3.sub base start)) (Q n) h (hdot _ _) (hdot _ _)]

/-- non-vacuity: a quarter turn about z followed by a translation is such a motion -/

example : ∃ Q : V3 ℝ → V3 ℝ, (∀ u v, Q (V3.sub u v) = V3.sub (Q u) (Q v)) ∧
    (∀ u v, V3.dot (Q u) (Q v) = V3.dot u v) ∧ Q ⟨1, 0, 0⟩ = ⟨0, 1, 0⟩ := by
  refine ⟨fun u => ⟨-u.y, u.x, u.z⟩, ?_, ?_, ?_⟩
  · intro u v; simp only [V3.sub, V3.mk.injEq]; refine ⟨by ring, trivial, trivial⟩
  · intro u v; simp only [V3.dot]; ring
  · simp


/-- the coded rotation is Rodrigues' rotation about `(ẑ × a)/|ẑ × a|` with cosine `a.z`, sine `|ẑ × a|` -/

theorem axisRotation_eq (eps : ℝ) (a v : V3 ℝ) (ha : V3.dot a a = 1) (heps : 0 < eps)
    (hun : eps ≤ V3.norm (V3.cross zhat a)) :
    axisRotation eps a v =
      rodrigues (V3.sdiv (V3.cross zhat a) (V3.norm (V3.cross zhat a))) a.z (V3.norm (V3.cross zhat a)) v := by
  have hun0 : 0 < V3.norm (V3.cross zhat a) := lt_of_lt_of_le heps hun
  set un := V3.norm (V3.cross zhat a) with hdef
  have hun2 : un ^ 2 = a.x ^ 2 + a.y ^ 2 := by
    rw [hdef, zcross]; simp only [V3.norm, V3.dot, trans_sqrt_real]
    rw [Real.sq_sqrt (by nlinarith [sq_nonneg a.x, sq_nonneg a.y])]; ring
  have hnorm : ‖(⟨a.z, un⟩ : ℂ)‖ = 1 := by
    rw [Complex.norm_def, Complex.normSq_mk]
    have : a.z * a.z + un * un = 1 := by
      simp only [V3.dot] at ha; nlinarith
    rw [this, Real.sqrt_one]
  have hne : (⟨a.z, un⟩ : ℂ) ≠ 0 := by
    intro h; rw [h, norm_zero] at hnorm; exact zero_ne_one hnorm
  set ang := Complex.arg ⟨a.z, un⟩ with hang
  have hcos : Real.cos ang = a.z := by rw [hang, Complex.cos_arg hne, hnorm]; simp
  have hsin : Real.sin ang = un := by rw [hang, Complex.sin_arg, hnorm]; simp
  have hang0 : 0 < ang := by
    have h1 : 0 ≤ ang := Complex.arg_nonneg_iff.2 (le_of_lt hun0)
    rcases eq_or_lt_of_le h1 with h | h
    · exfalso
      have := (Complex.arg_eq_zero_iff.1 h.symm).2
      simp only at this; linarith
    · exact h
  -- the rotation vector has length `ang` and direction `u / un`
  have hw : V3.norm (V3.smul (ang / un) (V3.cross zhat a)) = ang := by
    rw [zcross]; simp only [V3.norm, V3.dot, V3.smul, trans_sqrt_real]
    have : ang / un * -a.y * (ang / un * -a.y) + ang / un * a.x * (ang / un * a.x) + ang / un * 0 * (ang / un * 0)
        = ang ^ 2 := by
      have hu : un ≠ 0 := ne_of_gt hun0
      field_simp
      first | linear_combination hun2 | linear_combination (-1 : ℝ) * hun2 | linear_combination (-ang ^ 2) * hun2 | linear_combination (ang ^ 2) * hun2
    rw [this, Real.sqrt_sq (le_of_lt hang0)]
  have hk : V3.sdiv (V3.smul (ang / un) (V3.cross zhat a)) ang = V3.sdiv (V3.cross zhat a) un := by
    simp only [V3.sdiv, V3.smul, V3.mk.injEq]
    have hu : un ≠ 0 := ne_of_gt hun0
    have ha0 : ang ≠ 0 := ne_of_gt hang0
    refine ⟨?_, ?_, ?_⟩ <;> field_simp
  simp only [axisRotation, ← hdef, hun, if_true, trans_atan2_real, zdot, ← hang, rotvecRotate, hw, hk,
    trans_cos_real, trans_sin_real, hcos, hsin, rodrigues]

/-- the rotation with the coded angle `atan2(|ẑ × a|, ẑ·a)` maps ẑ to the axis, for every unit axis
    (upper and lower hemisphere) that is rotated at all -/

theorem rotation_maps_z_to_axis (eps : ℝ) (a : V3 ℝ) (ha : V3.dot a a = 1) (heps : 0 < eps)
    (hun : eps ≤ V3.norm (V3.cross zhat a)) : axisRotation eps a zhat = a := by
  rw [axisRotation_eq eps a zhat ha heps hun]
  have hun0 : 0 < V3.norm (V3.cross zhat a) := lt_of_lt_of_le heps hun
  generalize hu : V3.norm (V3.cross zhat a) = un at hun0
  have hu' : un ≠ 0 := ne_of_gt hun0
  rw [zcross]
  obtain ⟨ax, ay, az⟩ := a
  simp only [rodrigues, V3.add, V3.smul, V3.cross, V3.dot, V3.sdiv, zhat, V3.mk.injEq]
  refine ⟨?_, ?_, ?_⟩ <;> field_simp <;> ring

/-! ## quadrature -/


/-- the product rule keeps the nodes in the unit cylinder `x²+y² ≤ 1, |z| ≤ 1` and the weights positive -/
theorem product_rule_inside (disk : List (ℝ × ℝ × ℝ)) (line : List (ℝ × ℝ))
    (hd : ∀ d ∈ disk, 0 < d.2.2 ∧ d.1 ^ 2 + d.2.1 ^ 2 ≤ 1) (hl : LineOk line) :
    ∀ qw ∈ productRule disk line,
      qw.1.x ^ 2 + qw.1.y ^ 2 ≤ 1 ∧ -1 ≤ qw.1.z ∧ qw.1.z ≤ 1 ∧ 0 < qw.2 := by
  intro qw hqw
  obtain ⟨d, hdm, l, hlm, rfl⟩ := (mem_productRule disk line qw).1 hqw
  exact ⟨(hd d hdm).2, (hl.node l hlm).1, (hl.node l hlm).2, mul_pos (hd d hdm).1 (hl.pos l hlm)⟩

/-- all weights of `Cylinder.quadrature` are positive -/
theorem weights_positive (eps : ℝ) (disk : List (ℝ × ℝ × ℝ)) (line : List (ℝ × ℝ)) (a base : V3 ℝ) (r h sr : ℝ)
    (hd : ∀ d ∈ disk, 0 < d.2.2 ∧ d.1 ^ 2 + d.2.1 ^ 2 ≤ 1) (hl : LineOk line) (hr : 0 < r) (hh : 0 < h) :
    ∀ pw ∈ quadrature eps disk line a base r h sr, 0 < pw.2 := by
  intro pw hpw
  simp only [quadrature, List.mem_map] at hpw
  obtain ⟨qw, hqw, rfl⟩ := hpw
  have := (product_rule_inside disk line hd hl qw hqw).2.2.2
  positivity

/-- the weights sum to the volume, up to the accuracy `ε` of the disk table's weight sum -/
theorem weights_sum_volume (eps ε : ℝ) (disk : List (ℝ × ℝ × ℝ)) (line : List (ℝ × ℝ)) (a base : V3 ℝ) (r h sr : ℝ)
    (hm : |rmom 0 0 disk - Real.pi| ≤ ε) (hl : LineOk line) (hr : 0 < r) (hh : 0 < h) :
    |sumList ((quadrature eps disk line a base r h sr).map (·.2)) - volume r h| ≤ ε * (r * r * h) := by
  have e : sumList ((quadrature eps disk line a base r h sr).map (·.2))
      = rmom 0 0 disk * sumList (line.map (·.2)) * (r * r * h / 2) := by
    rw [← sum_productRule]
    simp only [quadrature, List.map_map]
    rfl
  rw [e, hl.sum]
  simp only [volume, trans_pi_real]
  have : rmom 0 0 disk * 2 * (r * r * h / 2) - r * r * h * Real.pi = (rmom 0 0 disk - Real.pi) * (r * r * h) := by ring
  rw [this, abs_mul, abs_of_pos (by positivity : 0 < r * r * h)]
  exact mul_le_mul_of_nonneg_right hm (by positivity)

/-- the coded rotation preserves scalar products (it is the identity when the axis is not rotated) -/
theorem axisRotation_dot (eps : ℝ) (a v w : V3 ℝ) (ha : V3.dot a a = 1) (heps : 0 < eps) :
    V3.dot (axisRotation eps a v) (axisRotation eps a w) = V3.dot v w := by
  by_cases hun : eps ≤ V3.norm (V3.cross zhat a)
  · rw [axisRotation_eq eps a v ha heps hun, axisRotation_eq eps a w ha heps hun]
    have hun0 : 0 < V3.norm (V3.cross zhat a) := lt_of_lt_of_le heps hun
    have hsq : V3.norm (V3.cross zhat a) ^ 2 = V3.dot (V3.cross zhat a) (V3.cross zhat a) := by
      simp only [V3.norm, trans_sqrt_real]
      rw [Real.sq_sqrt]; simp only [V3.dot]; nlinarith [sq_nonneg (V3.cross zhat a).x, sq_nonneg (V3.cross zhat a).y, sq_nonneg (V3.cross zhat a).z]
    apply rodrigues_dot
    · generalize V3.norm (V3.cross zhat a) = un at hun0 hsq
      have hu : un ≠ 0 := ne_of_gt hun0
      simp only [V3.dot, V3.sdiv] at hsq ⊢
      field_simp
      linarith
    · rw [hsq, zcross]; simp only [V3.dot] at ha ⊢; nlinarith
  · simp only [axisRotation, hun, if_false]

/-- a point of the unit-cylinder rule, scaled, moved by an isometry that maps ẑ to the axis and
    translated to the centre, lies in the solid -/
theorem inside_of_isometry (R : V3 ℝ → V3 ℝ) (a base q : V3 ℝ) (ρ h : ℝ) (ha : V3.dot a a = 1)
    (hR : ∀ v w, V3.dot (R v) (R w) = V3.dot v w) (hz : R zhat = a)
    (hq : q.x ^ 2 + q.y ^ 2 ≤ ρ ^ 2) (hz1 : -(h / 2) ≤ q.z) (hz2 : q.z ≤ h / 2) (hρ : 0 ≤ ρ) :
    InSolid a base ρ h (V3.add (R q) (center a base h)) := by
  have hA : V3.dot (R q) (R q) = q.x ^ 2 + q.y ^ 2 + q.z ^ 2 := by rw [hR]; simp only [V3.dot]; ring
  have hB : V3.dot (R q) a = q.z := by
    rw [← hz, hR]; simp only [V3.dot, zhat]; ring
  generalize R q = P at hA hB
  have hd : V3.sub (V3.add P (center a base h)) base = V3.add P (V3.sdiv (V3.smul h a) 2) := by
    simp only [center, V3.sub, V3.add, V3.sdiv, V3.smul, V3.mk.injEq]; refine ⟨?_, ?_, ?_⟩ <;> ring
  have hda : V3.dot (V3.add P (V3.sdiv (V3.smul h a) 2)) a = q.z + h / 2 := by
    simp only [V3.dot, V3.add, V3.sdiv, V3.smul] at ha hB ⊢
    linear_combination hB + (h / 2) * ha
  have hdd : V3.dot (V3.add P (V3.sdiv (V3.smul h a) 2)) (V3.add P (V3.sdiv (V3.smul h a) 2))
      = q.x ^ 2 + q.y ^ 2 + q.z ^ 2 + h * q.z + h ^ 2 / 4 := by
    simp only [V3.dot, V3.add, V3.sdiv, V3.smul] at ha hA hB ⊢
    linear_combination hA + h * hB + (h ^ 2 / 4) * ha
  simp only [InSolid, hd, hda]
  refine ⟨by linarith, by linarith, ?_⟩
  rw [norm_le_iff _ _ hρ, lagrange', ha, hda, hdd]
  nlinarith

/-- the same for an axis that is exactly ±ẑ and no rotation -/
theorem inside_of_axis_z (a base q : V3 ℝ) (ρ h : ℝ) (hax : a.x = 0) (hay : a.y = 0) (haz : a.z = 1 ∨ a.z = -1)
    (hq : q.x ^ 2 + q.y ^ 2 ≤ ρ ^ 2) (hz1 : -(h / 2) ≤ q.z) (hz2 : q.z ≤ h / 2) (hρ : 0 ≤ ρ) :
    InSolid a base ρ h (V3.add q (center a base h)) := by
  obtain ⟨ax, ay, az⟩ := a
  simp only at hax hay haz
  subst hax hay
  have hd : V3.sub (V3.add q (center ⟨0, 0, az⟩ base h)) base = ⟨q.x, q.y, q.z + h * az / 2⟩ := by
    simp only [center, V3.sub, V3.add, V3.sdiv, V3.smul, V3.mk.injEq]; refine ⟨?_, ?_, ?_⟩ <;> ring
  simp only [InSolid, hd]
  rw [norm_le_iff _ _ hρ]
  simp only [V3.dot, V3.cross]
  rcases haz with rfl | rfl
  · refine ⟨by linarith, by linarith, by nlinarith⟩
  · refine ⟨by linarith, by linarith, by nlinarith⟩

/-- the full statement for every unit axis: NOT provable for the model, because the code skips the rotation
    when `0 < |ẑ × a| < eps` (eps = 1e-10) and the points are then off by up to `|ẑ × a| · h/2`
    (validated by the oracle to be below the 1e-9 tolerance); the theorem below excludes that sliver -/
def PointsInsideSolidFull (eps : ℝ) : Prop :=
  ∀ (disk : List (ℝ × ℝ × ℝ)) (line : List (ℝ × ℝ)) (a base : V3 ℝ) (r h sr : ℝ),
    (∀ d ∈ disk, 0 < d.2.2 ∧ d.1 ^ 2 + d.2.1 ^ 2 ≤ 1) → LineOk line → V3.dot a a = 1 → 0 ≤ r * sr → 0 ≤ h →
    ∀ pw ∈ quadrature eps disk line a base r h sr, InSolid a base (r * sr) h pw.1

/-- PARTIAL (axes with `0 < |ẑ × a| < eps` excluded, see `PointsInsideSolidFull`):
    every point returned by `Cylinder.quadrature` lies in the solid (radius `r·sr` in the unit of the
    centre), for every unit axis that is rotated (`|ẑ × a| ≥ eps`) or is exactly ±ẑ -/
theorem points_inside_solid_partial (eps : ℝ) (disk : List (ℝ × ℝ × ℝ)) (line : List (ℝ × ℝ)) (a base : V3 ℝ) (r h sr : ℝ)
    (hd : ∀ d ∈ disk, 0 < d.2.2 ∧ d.1 ^ 2 + d.2.1 ^ 2 ≤ 1) (hl : LineOk line)
    (ha : V3.dot a a = 1) (heps : 0 < eps) (hr : 0 ≤ r * sr) (hh : 0 ≤ h)
    (hax : eps ≤ V3.norm (V3.cross zhat a) ∨ (a.x = 0 ∧ a.y = 0)) :
    ∀ pw ∈ quadrature eps disk line a base r h sr, InSolid a base (r * sr) h pw.1 := by
  intro pw hpw
  simp only [quadrature, List.mem_map] at hpw
  obtain ⟨qw, hqw, rfl⟩ := hpw
  obtain ⟨h1, h2, h3, _⟩ := product_rule_inside disk line hd hl qw hqw
  have hq : (qw.1.x * r * sr) ^ 2 + (qw.1.y * r * sr) ^ 2 ≤ (r * sr) ^ 2 := by
    have : (qw.1.x * r * sr) ^ 2 + (qw.1.y * r * sr) ^ 2 = (qw.1.x ^ 2 + qw.1.y ^ 2) * (r * sr) ^ 2 := by ring
    rw [this]; nlinarith [sq_nonneg (r * sr)]
  have hz1 : -(h / 2) ≤ qw.1.z * h / 2 := by nlinarith
  have hz2 : qw.1.z * h / 2 ≤ h / 2 := by nlinarith
  rcases hax with hun | ⟨hx, hy⟩
  · exact inside_of_isometry (axisRotation eps a) a base ⟨qw.1.x * r * sr, qw.1.y * r * sr, qw.1.z * h / 2⟩ (r * sr) h ha
      (fun v w => axisRotation_dot eps a v w ha heps) (rotation_maps_z_to_axis eps a ha heps hun) hq hz1 hz2 hr
  · have hun : ¬ eps ≤ V3.norm (V3.cross zhat a) := by
      rw [zcross, hx, hy]; simp only [V3.norm, V3.dot, trans_sqrt_real]; norm_num; exact heps
    have haz : a.z = 1 ∨ a.z = -1 := by
      simp only [V3.dot, hx, hy] at ha
      have : (a.z - 1) * (a.z + 1) = 0 := by nlinarith
      rcases mul_eq_zero.1 this with h | h
      · left; linarith
      · right; linarith
    simp only [axisRotation, hun, if_false]
    exact inside_of_axis_z a base _ (r * sr) h hx hy haz hq hz1 hz2 hr

/-- the full statement is false of the model (hence of the code's formula in exact arithmetic): for the unit
    axis `a = (2t, 0, 1 − t²)/(1 + t²)`, `t = 1e-12`, the rotation is skipped and the node `(1, 0, 1)` of a
    one-point rule ends up outside the solid (beyond the far cap by about `t`) -/
theorem points_inside_solid_full_false : ¬ PointsInsideSolidFull (1 / 10 ^ 10) := by
  intro hfull
  let a : V3 ℝ := ⟨2000000000000 / 1000000000000000000000001, 0, 999999999999999999999999 / 1000000000000000000000001⟩
  have ha : V3.dot a a = 1 := by simp only [a, V3.dot]; norm_num
  have hl : LineOk [((1 : ℝ), (2 : ℝ))] := by
    refine ⟨?_, ?_, ?_⟩
    · intro l hl; simp only [List.mem_singleton] at hl; subst hl; norm_num
    · intro l hl; simp only [List.mem_singleton] at hl; subst hl; norm_num
    · simp [sumList]
  have hd : ∀ d ∈ [((1 : ℝ), (0 : ℝ), (1 : ℝ))], 0 < d.2.2 ∧ d.1 ^ 2 + d.2.1 ^ 2 ≤ 1 := by
    intro d hd; simp only [List.mem_singleton] at hd; subst hd; norm_num
  have hun : ¬ (1 / 10 ^ 10 : ℝ) ≤ V3.norm (V3.cross zhat a) := by
    rw [zcross, not_le]
    simp only [V3.norm, V3.dot, trans_sqrt_real, a]
    rw [Real.sqrt_lt' (by norm_num)]
    norm_num
  have h := hfull [((1 : ℝ), (0 : ℝ), (1 : ℝ))] [((1 : ℝ), (2 : ℝ))] a ⟨0, 0, 0⟩ 1 1 1 hd hl ha (by norm_num) (by norm_num)
  simp only [quadrature, productRule, List.flatMap_cons, List.flatMap_nil, List.map_cons, List.map_nil,
    List.append_nil, List.mem_singleton, forall_eq, axisRotation, hun, if_false] at h
  have h2 := h.2.1
  simp only [V3.dot, V3.sub, V3.add, center, V3.sdiv, V3.smul, a] at h2
  norm_num at h2

/-! ## disk tables -/

/-- what the theorems need of a disk rule, with accuracy `ε`: positive weights, nodes in the closed unit
    disk, and all monomial moments up to degree 3 within `ε` of the exact integrals over the unit disk -/
structure DiskOk (disk : List (ℝ × ℝ × ℝ)) (ε : ℝ) : Prop where
  rows : ∀ d ∈ disk, 0 < d.2.2 ∧ d.1 ^ 2 + d.2.1 ^ 2 ≤ 1
  m00 : |rmom 0 0 disk - Real.pi| ≤ ε
  m10 : |rmom 1 0 disk| ≤ ε
  m01 : |rmom 0 1 disk| ≤ ε
  m20 : |rmom 2 0 disk - Real.pi / 4| ≤ ε
  m11 : |rmom 1 1 disk| ≤ ε
  m02 : |rmom 0 2 disk - Real.pi / 4| ≤ ε
  m30 : |rmom 3 0 disk| ≤ ε
  m21 : |rmom 2 1 disk| ≤ ε
  m12 : |rmom 1 2 disk| ≤ ε
  m03 : |rmom 0 3 disk| ≤ ε

theorem diskOk_of_tableOk (den : Nat) (rows : List (Int × Int × Int)) (E : Int)
    (h : tableOk den rows E = true) : DiskOk (realDisk den rows) ((E : ℝ) / 10 ^ 20) := by
  simp only [tableOk, Bool.and_eq_true, decide_eq_true_eq] at h
  obtain ⟨⟨⟨⟨⟨⟨⟨⟨⟨⟨⟨hden, hrows⟩, h00⟩, h10⟩, h01⟩, h20⟩, h11⟩, h02⟩, h30⟩, h21⟩, h12⟩, h03⟩ := h
  have hdn : 0 < den := by exact_mod_cast hden
  have hdr : (0 : ℝ) < den := by exact_mod_cast hdn
  have mom : ∀ i j (p q : Int), 0 ≤ p → 0 < q → momOk den rows i j p q E = true →
      |rmom i j (realDisk den rows) - (p : ℝ) / q * Real.pi| ≤ (E : ℝ) / 10 ^ 20 := by
    intro i j p q hp hq hm
    rw [rmom_realDisk den hdn]
    have := momOk_real den rows i j p q E hden hp hq hm
    simpa using this
  refine ⟨?_, ?_, ?_, ?_, ?_, ?_, ?_, ?_, ?_, ?_, ?_⟩
  · intro d hd
    simp only [realDisk, List.mem_map] at hd
    obtain ⟨r, hr, rfl⟩ := hd
    have := List.all_eq_true.mp hrows r hr
    simp only [Bool.and_eq_true, decide_eq_true_eq] at this
    obtain ⟨hw, hin⟩ := this
    have hwr : (0 : ℝ) < r.2.2 := by exact_mod_cast hw
    have hinr : (r.1 : ℝ) * r.1 + (r.2.1 : ℝ) * r.2.1 ≤ (den : ℝ) * den := by exact_mod_cast hin
    refine ⟨by positivity, ?_⟩
    rw [div_pow, div_pow, ← add_div, div_le_one (by positivity)]
    nlinarith
  · have := mom 0 0 1 1 (by norm_num) (by norm_num) h00; simpa using this
  · have := mom 1 0 0 1 (by norm_num) (by norm_num) h10; simpa using this
  · have := mom 0 1 0 1 (by norm_num) (by norm_num) h01; simpa using this
  · have := mom 2 0 1 4 (by norm_num) (by norm_num) h20
    have e : ((1 : Int) : ℝ) / ((4 : Int) : ℝ) * Real.pi = Real.pi / 4 := by push_cast; ring
    rwa [e] at this
  · have := mom 1 1 0 1 (by norm_num) (by norm_num) h11; simpa using this
  · have := mom 0 2 1 4 (by norm_num) (by norm_num) h02
    have e : ((1 : Int) : ℝ) / ((4 : Int) : ℝ) * Real.pi = Real.pi / 4 := by push_cast; ring
    rwa [e] at this
  · have := mom 3 0 0 1 (by norm_num) (by norm_num) h30; simpa using this
  · have := mom 2 1 0 1 (by norm_num) (by norm_num) h21; simpa using this
  · have := mom 1 2 0 1 (by norm_num) (by norm_num) h12; simpa using this
  · have := mom 0 3 0 1 (by norm_num) (by norm_num) h03; simpa using this

open ScnVerif.Gen.Quadratures in
/-- the three bundled disk tables (regenerated from `quadratures.py` on every run): weights positive,
    nodes in the unit disk, all moments up to degree 3 exact to 1e-14 (`disk12`, 15-digit table) resp.
    5e-7 (`disk55`, `disk256_cheb`, 8-digit tables) -/
theorem disk_tables_ok :
    DiskOk (realDisk disk12Den disk12) (1 / 10 ^ 14) ∧
    DiskOk (realDisk disk55Den disk55) (5 / 10 ^ 7) ∧
    DiskOk (realDisk disk256_chebDen disk256_cheb) (5 / 10 ^ 7) := by
  have h12 : tableOk disk12Den disk12 1000000 = true := by decide +kernel
  have h55 : tableOk disk55Den disk55 50000000000000 = true := by decide +kernel
  have h256 : tableOk disk256_chebDen disk256_cheb 50000000000000 = true := by decide +kernel
  have e1 : ((1000000 : Int) : ℝ) / 10 ^ 20 = 1 / 10 ^ 14 := by norm_num
  have e2 : ((50000000000000 : Int) : ℝ) / 10 ^ 20 = 5 / 10 ^ 7 := by norm_num
  exact ⟨e1 ▸ diskOk_of_tableOk _ _ _ h12, e2 ▸ diskOk_of_tableOk _ _ _ h55, e2 ▸ diskOk_of_tableOk _ _ _ h256⟩

open ScnVerif.Gen.Quadratures in
/-- the weights of `disk256_cheb` sum to MORE than π (by 2.66e-7): see `transmission_le_one_false` -/
theorem disk256_sum_gt_pi : Real.pi < rmom 0 0 (realDisk disk256_chebDen disk256_cheb) := by
  have hd : (0 : Nat) < disk256_chebDen := by decide
  rw [rmom_realDisk _ hd, show (0 + 0 + 1 : ℕ) = 1 from rfl, pow_one]
  have h : piHi * (disk256_chebDen : Int) ≤ momNum 0 0 disk256_cheb * ten20 := by decide +kernel
  have hr : ((piHi * (disk256_chebDen : Int) : Int) : ℝ) ≤ ((momNum 0 0 disk256_cheb * ten20 : Int) : ℝ) := by
    exact_mod_cast h
  push_cast at hr
  have hD : (0 : ℝ) < (disk256_chebDen : ℝ) := by exact_mod_cast hd
  have hhi : Real.pi < (piHi : ℝ) / 10 ^ 20 := by
    have := Real.pi_lt_d20; simp only [piHi]; norm_num at this ⊢; linarith
  have ht : ((ten20 : Int) : ℝ) = 10 ^ 20 := by simp only [ten20]; norm_num
  rw [ht] at hr
  rw [lt_div_iff₀ hD]
  have : (piHi : ℝ) / 10 ^ 20 * (disk256_chebDen : ℝ) ≤ momNum 0 0 disk256_cheb := by
    rw [div_mul_eq_mul_div, div_le_iff₀ (by positivity)]; linarith
  calc Real.pi * (disk256_chebDen : ℝ) < (piHi : ℝ) / 10 ^ 20 * (disk256_chebDen : ℝ) :=
        mul_lt_mul_of_pos_right hhi hD
    _ ≤ _ := this

/-! ## transmission -/

theorem wsum_eq : ∀ wl : List (ℝ × ℝ), wsum wl = sumList (wl.map (·.1))
  | [] => rfl
  | (w, l) :: rest => by simp only [wsum, List.map_cons, sumList, wsum_eq rest]

theorem scatterDistance_nonneg (a base beam det p : V3 ℝ) (r h l : ℝ)
    (hl : scatterDistance a base r h beam det p = some l) : 0 ≤ l := by
  simp only [scatterDistance] at hl
  split at hl
  · rename_i l1 l2 h1 h2
    simp only [Option.some.injEq] at hl
    have := beam_nonneg _ _ _ _ _ _ _ h1
    have := beam_nonneg _ _ _ _ _ _ _ h2
    linarith
  · simp at hl

theorem pathLengths_spec (a base beam det : V3 ℝ) (r h : ℝ) : ∀ (pts : List (V3 ℝ × ℝ)) (wl : List (ℝ × ℝ)),
    pathLengths a base r h beam det pts = some wl →
      wl.map (·.1) = pts.map (·.2) ∧ ∀ p ∈ wl, 0 ≤ p.2
  | [], wl, hwl => by
      simp only [pathLengths, Option.some.injEq] at hwl; subst hwl; simp
  | (p, w) :: rest, wl, hwl => by
      simp only [pathLengths] at hwl
      split at hwl
      · rename_i l ls h1 h2
        simp only [Option.some.injEq] at hwl; subst hwl
        obtain ⟨ih1, ih2⟩ := pathLengths_spec a base beam det r h rest ls h2
        refine ⟨by simp [ih1], ?_⟩
        intro q hq
        rcases List.mem_cons.1 hq with rfl | hq
        · exact scatterDistance_nonneg _ _ _ _ _ _ _ _ h1
        · exact ih2 q hq
      · simp at hwl

/-- common core: the weighted sum behind a transmission value -/
theorem transmission_unfold (pts : List (V3 ℝ × ℝ)) (a base beam det : V3 ℝ) (r h mu T : ℝ)
    (hT : transmission pts a base r h beam det mu = some T) :
    ∃ wl : List (ℝ × ℝ), pathLengths a base r h beam det pts = some wl ∧
      T = weightedTransmission mu wl / volume r h := by
  simp only [transmission] at hT
  split at hT
  · rename_i wl hwl; simp only [Option.some.injEq] at hT; exact ⟨wl, hwl, hT.symm⟩
  · simp at hT

theorem volume_pos (r h : ℝ) (hr : 0 < r) (hh : 0 < h) : 0 < volume r h := by
  simp only [volume, trans_pi_real]; have := Real.pi_pos; positivity

theorem wl_pos (pts : List (V3 ℝ × ℝ)) (wl : List (ℝ × ℝ)) (hw : ∀ p ∈ pts, 0 < p.2)
    (hmap : wl.map (·.1) = pts.map (·.2)) (hl : ∀ p ∈ wl, 0 ≤ p.2) : ∀ p ∈ wl, 0 < p.1 ∧ 0 ≤ p.2 := by
  intro p hp
  refine ⟨?_, hl p hp⟩
  have : p.1 ∈ wl.map (·.1) := List.mem_map_of_mem hp
  rw [hmap, List.mem_map] at this
  obtain ⟨q, hq, e⟩ := this
  rw [← e]; exact hw q hq

/-- the transmission is positive and at most (sum of the weights)/volume -/
theorem transmission_bounds (pts : List (V3 ℝ × ℝ)) (a base beam det : V3 ℝ) (r h mu T : ℝ)
    (hne : pts ≠ []) (hw : ∀ p ∈ pts, 0 < p.2) (hr : 0 < r) (hh : 0 < h) (hmu : 0 ≤ mu)
    (hT : transmission pts a base r h beam det mu = some T) :
    0 < T ∧ T ≤ sumList (pts.map (·.2)) / volume r h := by
  obtain ⟨wl, hwl, rfl⟩ := transmission_unfold pts a base beam det r h mu T hT
  obtain ⟨hmap, hl⟩ := pathLengths_spec a base beam det r h pts wl hwl
  have hV := volume_pos r h hr hh
  have hpos := wl_pos pts wl hw hmap hl
  have hne' : wl ≠ [] := by
    intro e; rw [e] at hmap; simp at hmap; exact hne hmap
  constructor
  · exact div_pos (wt_pos mu wl hne' (fun p hp => (hpos p hp).1)) hV
  · rw [← hmap, ← wsum_eq]
    exact div_le_div_of_nonneg_right (wt_le_wsum mu hmu wl hpos) (le_of_lt hV)

/-- without attenuation the transmission is exactly (sum of the weights)/volume -/
theorem transmission_mu_zero (pts : List (V3 ℝ × ℝ)) (a base beam det : V3 ℝ) (r h T : ℝ)
    (hT : transmission pts a base r h beam det 0 = some T) :
    T = sumList (pts.map (·.2)) / volume r h := by
  obtain ⟨wl, hwl, rfl⟩ := transmission_unfold pts a base beam det r h 0 T hT
  obtain ⟨hmap, _⟩ := pathLengths_spec a base beam det r h pts wl hwl
  rw [← hmap, ← wsum_eq, wt_zero]

/-- the transmission does not increase when the attenuation coefficient grows -/
theorem transmission_antitone_mu (pts : List (V3 ℝ × ℝ)) (a base beam det : V3 ℝ) (r h m1 m2 T1 T2 : ℝ)
    (hw : ∀ p ∈ pts, 0 < p.2) (hr : 0 < r) (hh : 0 < h) (hm : m1 ≤ m2)
    (h1 : transmission pts a base r h beam det m1 = some T1)
    (h2 : transmission pts a base r h beam det m2 = some T2) : T2 ≤ T1 := by
  obtain ⟨wl, hwl, rfl⟩ := transmission_unfold pts a base beam det r h m1 T1 h1
  obtain ⟨wl2, hwl2, rfl⟩ := transmission_unfold pts a base beam det r h m2 T2 h2
  rw [hwl] at hwl2; simp only [Option.some.injEq] at hwl2; subst hwl2
  obtain ⟨hmap, hl⟩ := pathLengths_spec a base beam det r h pts wl hwl
  exact div_le_div_of_nonneg_right (wt_antitone m1 m2 hm wl (wl_pos pts wl hw hmap hl)) (le_of_lt (volume_pos r h hr hh))

theorem ratio_simp (m v p : ℝ) (hv : v ≠ 0) : m * v / (v * p) = m / p := by
  rw [mul_comm m v, mul_div_mul_left _ _ hv]

theorem quadrature_weight_sum (eps : ℝ) (disk : List (ℝ × ℝ × ℝ)) (line : List (ℝ × ℝ)) (a base : V3 ℝ) (r h sr : ℝ)
    (hl : LineOk line) :
    sumList ((quadrature eps disk line a base r h sr).map (·.2)) = rmom 0 0 disk * (r * r * h) := by
  have e : sumList ((quadrature eps disk line a base r h sr).map (·.2))
      = rmom 0 0 disk * sumList (line.map (·.2)) * (r * r * h / 2) := by
    rw [← sum_productRule]
    simp only [quadrature, List.map_map]
    rfl
  rw [e, hl.sum]; ring

theorem quadrature_ne_nil (eps : ℝ) (disk : List (ℝ × ℝ × ℝ)) (line : List (ℝ × ℝ)) (a base : V3 ℝ) (r h sr : ℝ)
    (hd : disk ≠ []) (hl : LineOk line) : quadrature eps disk line a base r h sr ≠ [] := by
  have hline : line ≠ [] := by
    intro e; have := hl.sum; rw [e] at this; simp [sumList] at this
  obtain ⟨d, ds, rfl⟩ := List.exists_cons_of_ne_nil hd
  obtain ⟨l, ls, rfl⟩ := List.exists_cons_of_ne_nil hline
  simp [quadrature, productRule]

/-- PARTIAL (the bound is `1 + ε/π`, not `1`): the transmission computed with `Cylinder.quadrature`
    lies in `(0, 1 + ε/π]` where `ε` bounds the error of the disk table's weight sum -/
theorem transmission_mem_Ioc_partial (eps ε : ℝ) (disk : List (ℝ × ℝ × ℝ)) (line : List (ℝ × ℝ))
    (a base beam det : V3 ℝ) (r h sr mu T : ℝ) (hne : disk ≠ []) (hd : DiskOk disk ε) (hl : LineOk line)
    (hr : 0 < r) (hh : 0 < h) (hmu : 0 ≤ mu)
    (hT : transmission (quadrature eps disk line a base r h sr) a base r h beam det mu = some T) :
    0 < T ∧ T ≤ 1 + ε / Real.pi := by
  have hw := weights_positive eps disk line a base r h sr hd.rows hl hr hh
  obtain ⟨h0, h1⟩ := transmission_bounds _ a base beam det r h mu T
    (quadrature_ne_nil eps disk line a base r h sr hne hl) hw hr hh hmu hT
  refine ⟨h0, le_trans h1 ?_⟩
  rw [quadrature_weight_sum eps disk line a base r h sr hl]
  simp only [volume, trans_pi_real]
  have hpi := Real.pi_pos
  have hv : 0 < r * r * h := by positivity
  rw [ratio_simp _ _ _ (ne_of_gt hv), div_le_iff₀ hpi]
  have := (abs_le.1 hd.m00).2
  field_simp
  linarith

/-- PARTIAL (`|T − 1| ≤ ε/π`, not `T = 1`): without attenuation the transmission is 1 up to the
    accuracy of the disk table's weight sum -/
theorem transmission_one_of_mu_zero_partial (eps ε : ℝ) (disk : List (ℝ × ℝ × ℝ)) (line : List (ℝ × ℝ))
    (a base beam det : V3 ℝ) (r h sr T : ℝ) (hd : DiskOk disk ε) (hl : LineOk line) (hr : 0 < r) (hh : 0 < h)
    (hT : transmission (quadrature eps disk line a base r h sr) a base r h beam det 0 = some T) :
    |T - 1| ≤ ε / Real.pi := by
  rw [transmission_mu_zero _ a base beam det r h T hT, quadrature_weight_sum eps disk line a base r h sr hl]
  simp only [volume, trans_pi_real]
  have hpi := Real.pi_pos
  have hv : 0 < r * r * h := by positivity
  rw [ratio_simp _ _ _ (ne_of_gt hv)]
  have : rmom 0 0 disk / Real.pi - 1 = (rmom 0 0 disk - Real.pi) / Real.pi := by field_simp
  rw [this, abs_div, abs_of_pos hpi]
  exact div_le_div_of_nonneg_right hd.m00 (le_of_lt hpi)

/-- the full statement of the property's clause "the transmission map lies in (0, 1]" for the model -/
def TransmissionAtMostOne (disk : List (ℝ × ℝ × ℝ)) : Prop :=
  ∀ (eps : ℝ) (line : List (ℝ × ℝ)) (a base beam det : V3 ℝ) (r h sr mu T : ℝ),
    LineOk line → 0 < r → 0 < h → 0 ≤ mu →
    transmission (quadrature eps disk line a base r h sr) a base r h beam det mu = some T → T ≤ 1

open ScnVerif.Gen.Quadratures in
/-- ... and why only the partial form holds: the 8-digit table `disk256_cheb` has weights summing to more
    than π, so every transmission value computed with it at μ = 0 exceeds 1 (by 8.5e-8) -/
theorem transmission_exceeds_one_disk256 (eps : ℝ) (line : List (ℝ × ℝ)) (a base beam det : V3 ℝ) (r h sr T : ℝ)
    (hl : LineOk line) (hr : 0 < r) (hh : 0 < h)
    (hT : transmission (quadrature eps (realDisk disk256_chebDen disk256_cheb) line a base r h sr)
      a base r h beam det 0 = some T) : 1 < T := by
  rw [transmission_mu_zero _ a base beam det r h T hT, quadrature_weight_sum eps _ line a base r h sr hl]
  simp only [volume, trans_pi_real]
  have hpi := Real.pi_pos
  have hv : 0 < r * r * h := by positivity
  rw [ratio_simp _ _ _ (ne_of_gt hv), lt_div_iff₀ hpi, one_mul]
  exact disk256_sum_gt_pi

/-! ## polynomial exactness -/

/-- the product rule integrates a monomial `xⁱ yʲ zᵏ` to (disk moment) × (line moment): its polynomial
    exactness is that of its two factors -/
theorem product_rule_moment (i j k : Nat) (line : List (ℝ × ℝ)) : ∀ disk : List (ℝ × ℝ × ℝ),
    sumList ((productRule disk line).map fun qw => qw.2 * (qw.1.x ^ i * qw.1.y ^ j * qw.1.z ^ k))
      = rmom i j disk * lmom k line
  | [] => by simp [productRule, sumList, rmom]
  | (x, y, w) :: ds => by
      have ih := product_rule_moment i j k line ds
      simp only [productRule, List.flatMap_cons, List.map_append, List.map_map, sumList_append, rmom] at ih ⊢
      rw [ih]
      have : sumList (List.map ((fun qw : V3 ℝ × ℝ => qw.2 * (qw.1.x ^ i * qw.1.y ^ j * qw.1.z ^ k)) ∘
          fun l : ℝ × ℝ => (({ x := x, y := y, z := l.1 } : V3 ℝ), w * l.2)) line)
          = (w * x ^ i * y ^ j) * lmom k line := by
        rw [← lmom_eq k (w * x ^ i * y ^ j) line]
        congr 1
        apply List.map_congr_left
        intro l _; simp only [Function.comp]; ring
      rw [this]; ring

/-- exactness of the cylinder rule in the frame of the solid, up to the table accuracy: for a line rule
    that integrates `zᵏ` exactly (`lmom k line = ∫_{-1}^{1} zᵏ`), every monomial `xⁱ yʲ zᵏ` with
    `i + j ≤ 1` (centroid), and — with the second and third disk moments — up to degree 3, is integrated
    to within `ε · |∫ zᵏ|` of its integral over the unit cylinder -/
theorem frame_exactness (ε : ℝ) (disk : List (ℝ × ℝ × ℝ)) (line : List (ℝ × ℝ)) (hd : DiskOk disk ε)
    (k : Nat) (Ik : ℝ) (hk : lmom k line = Ik) :
    |sumList ((productRule disk line).map fun qw => qw.2 * (qw.1.x ^ 0 * qw.1.y ^ 0 * qw.1.z ^ k)) - Real.pi * Ik| ≤ ε * |Ik| ∧
    |sumList ((productRule disk line).map fun qw => qw.2 * (qw.1.x ^ 1 * qw.1.y ^ 0 * qw.1.z ^ k))| ≤ ε * |Ik| ∧
    |sumList ((productRule disk line).map fun qw => qw.2 * (qw.1.x ^ 0 * qw.1.y ^ 1 * qw.1.z ^ k))| ≤ ε * |Ik| ∧
    |sumList ((productRule disk line).map fun qw => qw.2 * (qw.1.x ^ 2 * qw.1.y ^ 0 * qw.1.z ^ k)) - Real.pi / 4 * Ik| ≤ ε * |Ik| ∧
    |sumList ((productRule disk line).map fun qw => qw.2 * (qw.1.x ^ 1 * qw.1.y ^ 1 * qw.1.z ^ k))| ≤ ε * |Ik| ∧
    |sumList ((productRule disk line).map fun qw => qw.2 * (qw.1.x ^ 0 * qw.1.y ^ 2 * qw.1.z ^ k)) - Real.pi / 4 * Ik| ≤ ε * |Ik| := by
  simp only [product_rule_moment, hk]
  have key : ∀ m c : ℝ, |m - c| ≤ ε → |m * Ik - c * Ik| ≤ ε * |Ik| := by
    intro m c h
    rw [← sub_mul, abs_mul]; exact mul_le_mul_of_nonneg_right h (abs_nonneg _)
  have key0 : ∀ m : ℝ, |m| ≤ ε → |m * Ik| ≤ ε * |Ik| := by
    intro m h; rw [abs_mul]; exact mul_le_mul_of_nonneg_right h (abs_nonneg _)
  exact ⟨key _ _ hd.m00, key0 _ hd.m10, key0 _ hd.m01, key _ _ hd.m20, key0 _ hd.m11, key _ _ hd.m02⟩

/-- the formula used before fix ef5a368 (`lineInfiniteCylinderOld`, kept in the model as a named variant) is the
    same function over the reals as the current code, for every axis (unit or not): the fix only changes
    the floating-point behaviour. All theorems above are about the current code. -/
theorem old_variant_same (a b n : V3 ℝ) (r : ℝ) :
    lineInfiniteCylinderOld a b r n = lineInfiniteCylinder a b r n :=
  (lineInfiniteCylinder_eq_old a b n r).symm

/-- the coded rotation has an adjoint that preserves length: `g · (R v) = g' · v` with `|g'| = |g|` -/
theorem axisRotation_adjoint (eps : ℝ) (a g : V3 ℝ) (ha : V3.dot a a = 1) (heps : 0 < eps) :
    ∃ g' : V3 ℝ, V3.dot g' g' = V3.dot g g ∧ ∀ v, V3.dot g (axisRotation eps a v) = V3.dot g' v := by
  by_cases hun : eps ≤ V3.norm (V3.cross zhat a)
  · have hun0 : 0 < V3.norm (V3.cross zhat a) := lt_of_lt_of_le heps hun
    have hsq : V3.norm (V3.cross zhat a) ^ 2 = V3.dot (V3.cross zhat a) (V3.cross zhat a) := by
      simp only [V3.norm, trans_sqrt_real]
      rw [Real.sq_sqrt]; simp only [V3.dot]; nlinarith [sq_nonneg (V3.cross zhat a).x, sq_nonneg (V3.cross zhat a).y, sq_nonneg (V3.cross zhat a).z]
    have hk : V3.dot (V3.sdiv (V3.cross zhat a) (V3.norm (V3.cross zhat a))) (V3.sdiv (V3.cross zhat a) (V3.norm (V3.cross zhat a))) = 1 := by
      generalize V3.norm (V3.cross zhat a) = un at hun0 hsq
      have hu : un ≠ 0 := ne_of_gt hun0
      simp only [V3.dot, V3.sdiv] at hsq ⊢
      field_simp
      linarith
    have hcs : a.z ^ 2 + (-V3.norm (V3.cross zhat a)) ^ 2 = 1 := by
      rw [neg_sq, hsq, zcross]; simp only [V3.dot] at ha ⊢; nlinarith
    refine ⟨rodrigues (V3.sdiv (V3.cross zhat a) (V3.norm (V3.cross zhat a))) a.z (-V3.norm (V3.cross zhat a)) g, ?_, ?_⟩
    · exact rodrigues_dot _ g g _ _ hk hcs
    · intro v
      rw [axisRotation_eq eps a v ha heps hun]
      simp only [rodrigues, V3.dot, V3.add, V3.smul, V3.cross]; ring
  · exact ⟨g, rfl, fun v => by simp only [axisRotation, hun, if_false]⟩

/-- linear functions are integrated exactly (centroid at the centre of the solid) up to the accuracy `ε`
    of the disk table's first moments: for every gradient `g`,
    `(Σ Wᵢ g·(pᵢ − centre))² ≤ 2 ε² (r² h · r sr)² |g|²`, for every unit axis and every symmetric line rule -/
theorem linear_exact (eps ε : ℝ) (disk : List (ℝ × ℝ × ℝ)) (line : List (ℝ × ℝ)) (a base g : V3 ℝ) (r h sr : ℝ)
    (hd : DiskOk disk ε) (hl : LineOk line) (hsym : lmom 1 line = 0) (ha : V3.dot a a = 1) (heps : 0 < eps) :
    (sumList ((quadrature eps disk line a base r h sr).map fun pw =>
        pw.2 * V3.dot g (V3.sub pw.1 (center a base h)))) ^ 2
      ≤ 2 * ε ^ 2 * (r * r * h * (r * sr)) ^ 2 * V3.dot g g := by
  obtain ⟨g', hg', hadj⟩ := axisRotation_adjoint eps a g ha heps
  have hsub : ∀ P c : V3 ℝ, V3.sub (V3.add P c) c = P := by
    intro P c; simp only [V3.sub, V3.add]; congr 1 <;> ring
  have e : sumList ((quadrature eps disk line a base r h sr).map fun pw =>
        pw.2 * V3.dot g (V3.sub pw.1 (center a base h)))
      = sumList ((productRule disk line).map fun qw =>
          (r * r * h / 2 * (g'.x * (r * sr))) * (qw.2 * (qw.1.x ^ 1 * qw.1.y ^ 0 * qw.1.z ^ 0))
          + (r * r * h / 2 * (g'.y * (r * sr))) * (qw.2 * (qw.1.x ^ 0 * qw.1.y ^ 1 * qw.1.z ^ 0))
          + (r * r * h / 2 * (g'.z * (h / 2))) * (qw.2 * (qw.1.x ^ 0 * qw.1.y ^ 0 * qw.1.z ^ 1))) := by
    simp only [quadrature, List.map_map]
    congr 1
    apply List.map_congr_left
    intro qw _
    simp only [Function.comp, hsub, hadj]
    simp only [V3.dot]
    ring
  rw [e, sumList_map_lin3, product_rule_moment, product_rule_moment, product_rule_moment, lmom_zero, hl.sum, hsym, ← hg']
  have h1 := abs_le.1 hd.m10
  have h2 := abs_le.1 hd.m01
  have hε : 0 ≤ ε := le_trans (abs_nonneg _) hd.m10
  have e2 : r * r * h / 2 * (g'.x * (r * sr)) * (rmom 1 0 disk * 2) + r * r * h / 2 * (g'.y * (r * sr)) * (rmom 0 1 disk * 2)
      + r * r * h / 2 * (g'.z * (h / 2)) * (rmom 0 0 disk * 0)
      = (r * r * h * (r * sr)) * (g'.x * rmom 1 0 disk + g'.y * rmom 0 1 disk) := by ring
  rw [e2, mul_pow]
  have hcs : (g'.x * rmom 1 0 disk + g'.y * rmom 0 1 disk) ^ 2 ≤ 2 * ε ^ 2 * V3.dot g' g' := by
    have ha1 : rmom 1 0 disk ^ 2 ≤ ε ^ 2 := by nlinarith
    have ha2 : rmom 0 1 disk ^ 2 ≤ ε ^ 2 := by nlinarith
    simp only [V3.dot]
    nlinarith [sq_nonneg (g'.x * rmom 0 1 disk - g'.y * rmom 1 0 disk), sq_nonneg g'.z, sq_nonneg g'.x, sq_nonneg g'.y,
      mul_le_mul_of_nonneg_left ha1 (sq_nonneg g'.x), mul_le_mul_of_nonneg_left ha2 (sq_nonneg g'.y),
      mul_le_mul_of_nonneg_left ha1 (sq_nonneg g'.y), mul_le_mul_of_nonneg_left ha2 (sq_nonneg g'.x)]
  nlinarith [sq_nonneg (r * r * h * (r * sr))]

/-! ## path length as a measure -/

/-- the reported path length is the Lebesgue measure of the set of ray parameters `t ≥ 0` whose point
    `start + t n` lies in the solid (for a unit direction: the length of the part of the ray inside) -/
theorem path_length_is_lebesgue_measure (a base start n : V3 ℝ) (r h : ℝ) (ha : V3.dot a a = 1)
    (hn : V3.dot n n ≠ 0) (hr : 0 ≤ r) (hh : 0 ≤ h) :
    ∃ L : ℝ, beamIntersection a base r h start n = some L ∧
      MeasureTheory.volume {t : ℝ | 0 ≤ t ∧ InSolid a base r h (V3.add start (V3.smul t n))} = ENNReal.ofReal L := by
  obtain ⟨lo, hi, hset, hval⟩ := path_length_is_measure a base start n r h ha hn hr hh
  refine ⟨_, hval, ?_⟩
  have : {t : ℝ | 0 ≤ t ∧ InSolid a base r h (V3.add start (V3.smul t n))} = Set.Icc lo hi := by
    ext t; exact (hset t).trans Set.mem_Icc.symm
  rw [this, Real.volume_Icc]
  rcases le_total 0 (hi - lo) with h0 | h0
  · rw [max_eq_right h0]
  · rw [max_eq_left h0, ENNReal.ofReal_of_nonpos h0, ENNReal.ofReal_zero]

/-! ## non-vacuity: the hypotheses of the theorems above are satisfiable by concrete, non-trivial instances -/

/-- a unit axis in the LOWER hemisphere that is rotated: `a = (3/5, 0, −4/5)`, `|ẑ × a| = 3/5 ≥ 1e-10` -/
example : axisRotation (1 / 10 ^ 10) (⟨3 / 5, 0, -4 / 5⟩ : V3 ℝ) zhat = ⟨3 / 5, 0, -4 / 5⟩ := by
  apply rotation_maps_z_to_axis
  · simp only [V3.dot]; norm_num
  · norm_num
  · rw [zcross]; simp only [V3.norm, V3.dot, trans_sqrt_real]
    rw [show ((-0 : ℝ) * -0 + 3 / 5 * (3 / 5) + 0 * 0) = (3 / 5) ^ 2 by ring, Real.sqrt_sq (by norm_num)]
    norm_num

/-- a tilted ray through a unit-radius cylinder along ẑ: the interval theorems apply -/
example (t : ℝ) := cyl_interval_iff (⟨0, 0, 1⟩ : V3 ℝ) ⟨1, 2, 3⟩ ⟨3 / 5, 0, 4 / 5⟩ 1 t
  (by simp only [V3.dot]; norm_num) (by norm_num)
example (t : ℝ) := slab_interval_iff (⟨0, 0, 1⟩ : V3 ℝ) ⟨1, 2, 3⟩ ⟨3 / 5, 0, 4 / 5⟩ 2 t (by norm_num)

/-- path length from the centre of a cylinder (r = 1, h = 2, axis ẑ) along x: hypotheses hold -/
example := path_length_is_measure (⟨0, 0, 1⟩ : V3 ℝ) ⟨0, 0, -1⟩ ⟨0, 0, 0⟩ ⟨1, 0, 0⟩ 1 2
  (by simp only [V3.dot]; norm_num) (by simp only [V3.dot]; norm_num) (by norm_num) (by norm_num)

/-- other-end invariance for an axis with all components non-zero -/
example (x : V3 ℝ) := other_end_same_solid (⟨2 / 3, -1 / 3, -2 / 3⟩ : V3 ℝ) ⟨1, 2, 3⟩ x 1 2
  (by simp only [V3.dot]; norm_num)

/-- a two-point line rule (Gauss–Legendre, k = 2, nodes ±1/2 taken rational for the example) is a `LineOk` rule -/
example : LineOk [((-1 / 2 : ℝ), 1), (1 / 2, 1)] := by
  refine ⟨?_, ?_, ?_⟩
  · intro l hl; simp only [List.mem_cons, List.not_mem_nil, or_false] at hl
    rcases hl with rfl | rfl <;> norm_num
  · intro l hl; simp only [List.mem_cons, List.not_mem_nil, or_false] at hl
    rcases hl with rfl | rfl <;> norm_num
  · simp [sumList]; norm_num

/-- `DiskOk` is inhabited by the bundled tables (see `disk_tables_ok`); the tables are not empty -/
example : ScnVerif.Gen.Quadratures.disk12.length = 12 ∧ ScnVerif.Gen.Quadratures.disk55.length = 55 ∧
    ScnVerif.Gen.Quadratures.disk256_cheb.length = 257 := by decide +kernel

end ScnVerif.Props.C18
