import ScnVerif.Lemmas.TofPhys
import ScnVerif.Lemmas.C07Geometry
/-!
# C07 — kernels are unit-equivariant and keep the documented dtype contract

Three groups of theorems about the kernels of `Model/TofKernels.lean`:

* **unit equivariance** (carrier `ℝ`): re-expressing every operand in *any* other unit (arbitrary positive
  scales, not only the finite grid of the property) leaves the physical result unchanged, and the result
  comes in the documented unit (ångström / meV / one over the wavelength unit) whatever the input units;
* **dtype contract** (carrier `DTy`, the abstract interpretation of the *same* kernel definitions): for all
  element types of all operands, the result is float32 iff the data operand is float32 and float64 otherwise,
  except for the int32 cases scipp has no `pow` kernel for, where evaluation fails;
* **the executable model obeys the abstract dtype evaluation** (carrier `Val`): for all values, the dtype tag
  of the model's result is what the abstract evaluation predicts.
-/
namespace ScnVerif.Props.C07
open ScnVerif ScnVerif.Tof ScnVerif.TofPhys

/-! ## unit equivariance over ℝ -/

/-- `wavelength_from_tof`: same physical tof and flight path in other units ⇒ same wavelength in ångström -/
theorem wavelength_from_tof_unit_equivariant (h mn sA sL sL' sT sT' t t' L L' : ℝ)
    (hh : 0 < h) (hmn : 0 < mn) (hA : 0 < sA) (hL : 0 < sL) (hL' : 0 < sL') (hT : 0 < sT) (hT' : 0 < sT')
    (ht : 0 < t) (ht' : 0 < t') (hLL : 0 < L) (hLL' : 0 < L')
    (et : t * sT = t' * sT') (eL : L * sL = L' * sL') :
    wavelengthFromTof (cWavelengthFromTof h mn sA sL sT) t L
      = wavelengthFromTof (cWavelengthFromTof h mn sA sL' sT') t' L' := by
  apply mul_right_cancel₀ hA.ne'
  rw [wavelength_from_tof_phys h mn sA sL sT t L hh hmn hA hL hT ht hLL,
    wavelength_from_tof_phys h mn sA sL' sT' t' L' hh hmn hA hL' hT' ht' hLL', et, eL]

/-- non-vacuity: 1234.5678 µs over 23.456 m is 1.2345678 ms over 2345.6 cm -/
example : wavelengthFromTof (cWavelengthFromTof (6.62607015e-34 : ℝ) 1.67492749804e-27 1e-10 1 1e-6) 1234.5678 23.456
    = wavelengthFromTof (cWavelengthFromTof 6.62607015e-34 1.67492749804e-27 1e-10 1e-2 1e-3) 1.2345678 2345.6 := by
  apply wavelength_from_tof_unit_equivariant <;> norm_num

theorem dspacing_from_tof_unit_equivariant (h mn sA sL sL' sT sT' sAng sAng' t t' L L' θ θ' : ℝ)
    (hh : 0 < h) (hmn : 0 < mn) (hA : 0 < sA) (hL : 0 < sL) (hL' : 0 < sL') (hT : 0 < sT) (hT' : 0 < sT')
    (ht : 0 < t) (ht' : 0 < t') (hLL : 0 < L) (hLL' : 0 < L')
    (hs : 0 < Real.sin (θ * sAng / 2))
    (et : t * sT = t' * sT') (eL : L * sL = L' * sL') (eθ : θ * sAng = θ' * sAng') :
    dspacingFromTof (cDspacingFromTof h mn sA sL sT) sAng t L θ
      = dspacingFromTof (cDspacingFromTof h mn sA sL' sT') sAng' t' L' θ' := by
  apply mul_right_cancel₀ hA.ne'
  rw [dspacing_from_tof_phys h mn sA sL sT sAng t L θ hh hmn hA hL hT ht hLL hs,
    dspacing_from_tof_phys h mn sA sL' sT' sAng' t' L' θ' hh hmn hA hL' hT' ht' hLL' (eθ ▸ hs), et, eL, eθ]

theorem energy_from_tof_unit_equivariant (mn sE sL sL' sT sT' t t' L L' : ℝ)
    (hmn : 0 < mn) (hE : 0 < sE) (hL : 0 < sL) (hL' : 0 < sL') (hT : 0 < sT) (hT' : 0 < sT')
    (ht : 0 < t) (ht' : 0 < t') (hLL : 0 < L) (hLL' : 0 < L')
    (et : t * sT = t' * sT') (eL : L * sL = L' * sL') :
    energyFromTof (cEnergy mn sE sL sT) t L = energyFromTof (cEnergy mn sE sL' sT') t' L' := by
  apply mul_right_cancel₀ hE.ne'
  rw [energy_from_tof_phys mn sE sL sT t L hmn hE hL hT ht hLL,
    energy_from_tof_phys mn sE sL' sT' t' L' hmn hE hL' hT' ht' hLL', et, eL]

theorem energy_from_wavelength_unit_equivariant (h mn sE sW sW' w w' : ℝ)
    (hh : 0 < h) (hmn : 0 < mn) (hE : 0 < sE) (hW : 0 < sW) (hW' : 0 < sW') (hw : 0 < w) (hw' : 0 < w')
    (ew : w * sW = w' * sW') :
    energyFromWavelength (cEnergyFromWavelength h mn sE sW w) w
      = energyFromWavelength (cEnergyFromWavelength h mn sE sW' w') w' := by
  apply mul_right_cancel₀ hE.ne'
  rw [energy_from_wavelength_phys h mn sE sW w hh hmn hE hW hw,
    energy_from_wavelength_phys h mn sE sW' w' hh hmn hE hW' hw', ew]

theorem wavelength_from_energy_unit_equivariant (h mn sA sE sE' e e' : ℝ)
    (hh : 0 < h) (hmn : 0 < mn) (hA : 0 < sA) (hE : 0 < sE) (hE' : 0 < sE') (he : 0 < e) (he' : 0 < e')
    (ee : e * sE = e' * sE') :
    wavelengthFromEnergy (cWavelengthFromEnergy h mn sA sE e) e
      = wavelengthFromEnergy (cWavelengthFromEnergy h mn sA sE' e') e' := by
  apply mul_right_cancel₀ hA.ne'
  rw [wavelength_from_energy_phys h mn sA sE e hh hmn hA hE he,
    wavelength_from_energy_phys h mn sA sE' e' hh hmn hA hE' he', ee]

/-- `Q_from_wavelength`: the result carries one over the wavelength unit; as a physical quantity (1/m) it does
not depend on the units of wavelength and angle -/
theorem Q_from_wavelength_unit_equivariant (sAng sAng' sW sW' w w' θ θ' : ℝ)
    (hW : 0 < sW) (hW' : 0 < sW') (hw : 0 < w) (hw' : 0 < w')
    (ew : w * sW = w' * sW') (eθ : θ * sAng = θ' * sAng') :
    qFromWavelength sAng w θ / sW = qFromWavelength sAng' w' θ' / sW' := by
  rw [Q_from_wavelength_phys sAng sW w θ hW hw, Q_from_wavelength_phys sAng' sW' w' θ' hW' hw', ew, eθ]

theorem wavelength_from_Q_unit_equivariant (sAng sAng' sQ sQ' sA q q' θ θ' : ℝ)
    (hQ : 0 < sQ) (hQ' : 0 < sQ') (hA : 0 < sA) (hq : 0 < q) (hq' : 0 < q')
    (eq : q / sQ = q' / sQ') (eθ : θ * sAng = θ' * sAng') :
    wavelengthFromQ sAng sQ sA q θ = wavelengthFromQ sAng' sQ' sA q' θ' := by
  apply mul_right_cancel₀ hA.ne'
  rw [wavelength_from_Q_phys sAng sQ sA q θ hQ hA hq, wavelength_from_Q_phys sAng' sQ' sA q' θ' hQ' hA hq', eq, eθ]

theorem dspacing_from_wavelength_unit_equivariant (sA sW sW' sAng sAng' w w' θ θ' : ℝ)
    (hA : 0 < sA) (hW : 0 < sW) (hW' : 0 < sW') (hs : 0 < Real.sin (θ * sAng / 2))
    (ew : w * sW = w' * sW') (eθ : θ * sAng = θ' * sAng') :
    dspacingFromWavelength (cDspacingFromWavelength sA sW w) sAng w θ
      = dspacingFromWavelength (cDspacingFromWavelength sA sW' w') sAng' w' θ' := by
  apply mul_right_cancel₀ hA.ne'
  rw [dspacing_from_wavelength_phys sA sW sAng w θ hA hW hs,
    dspacing_from_wavelength_phys sA sW' sAng' w' θ' hA hW' (eθ ▸ hs), ew, eθ]

theorem dspacing_from_energy_unit_equivariant (h mn sA sE sE' sAng sAng' e e' θ θ' : ℝ)
    (hh : 0 < h) (hmn : 0 < mn) (hA : 0 < sA) (hE : 0 < sE) (hE' : 0 < sE') (he : 0 < e) (he' : 0 < e')
    (hs : 0 < Real.sin (θ * sAng / 2))
    (ee : e * sE = e' * sE') (eθ : θ * sAng = θ' * sAng') :
    dspacingFromEnergy (cDspacingFromEnergy h mn sA sE e) sAng e θ
      = dspacingFromEnergy (cDspacingFromEnergy h mn sA sE' e') sAng' e' θ' := by
  apply mul_right_cancel₀ hA.ne'
  rw [dspacing_from_energy_phys h mn sA sE sAng e θ hh hmn hA hE he hs,
    dspacing_from_energy_phys h mn sA sE' sAng' e' θ' hh hmn hA hE' he' (eθ ▸ hs), ee, eθ]

/-- `time_at_sample_from_tof`: the result, in the unit of `tof`, is `pulse_time + tof − L2·λ·m_n/h` as a physical
time, whatever the units of tof and L2 (wavelength in ångström, as the code requires) -/
theorem time_at_sample_def (h mn sA sL sT p t L2 w : ℝ)
    (hh : 0 < h) (hmn : 0 < mn) (hA : 0 < sA) (hL : 0 < sL) (hT : 0 < sT) :
    timeAtSampleFromTof (cWavelengthFromTof h mn sA sL sT) p t L2 w * sT
      = p * sT + t * sT - (L2 * sL) * (w * sA) * mn / h := by
  simp only [timeAtSampleFromTof, cWavelengthFromTof, toUnitC, asCommon4_real]
  field_simp

theorem time_at_sample_unit_equivariant (h mn sA sL sL' sT sT' p p' t t' L2 L2' w : ℝ)
    (hh : 0 < h) (hmn : 0 < mn) (hA : 0 < sA) (hL : 0 < sL) (hL' : 0 < sL') (hT : 0 < sT) (hT' : 0 < sT')
    (ep : p * sT = p' * sT') (et : t * sT = t' * sT') (eL : L2 * sL = L2' * sL') :
    timeAtSampleFromTof (cWavelengthFromTof h mn sA sL sT) p t L2 w * sT
      = timeAtSampleFromTof (cWavelengthFromTof h mn sA sL' sT') p' t' L2' w * sT' := by
  rw [time_at_sample_def h mn sA sL sT p t L2 w hh hmn hA hL hT,
    time_at_sample_def h mn sA sL' sT' p' t' L2' w hh hmn hA hL' hT', ep, et, eL]

/-- one component of `Q_elements_from_wavelength`: `2π/λ · e` as a physical quantity, any wavelength unit -/
theorem Q_element_unit_equivariant (sW sW' w w' e : ℝ) (hW : 0 < sW) (hW' : 0 < sW') (hw : 0 < w) (hw' : 0 < w')
    (ew : w * sW = w' * sW') :
    qElement w e / sW = qElement w' e / sW' := by
  have h1 : ∀ (w sW : ℝ), 0 < w → 0 < sW → qElement w e / sW = 2 * Real.pi * e / (w * sW) := by
    intro w sW hw hW
    simp only [qElement, i64_real, trans_pi_real, asFloatLike_real]; push_cast; field_simp
  rw [h1 w sW hw hW, h1 w' sW' hw' hW', ew]

/-! ## the dtype contract, decided over all element types

Constants and unit scales are float64 scalars in the code.  `DTy.floatDType d` is float32 for float32 and
float64 for float64 / int64 / int32. -/

open DTy in
theorem wavelength_from_tof_dtype (dt dL : DTy) (h1 : dt ≠ err) (h2 : dL ≠ err) :
    wavelengthFromTof (cWavelengthFromTof f64 f64 f64 f64 f64) dt dL = floatDType dt := by
  cases dt <;> cases dL <;> first | rfl | contradiction

open DTy in
theorem dspacing_from_tof_dtype (dt dL dθ : DTy) (h1 : dt ≠ err) (h2 : dL ≠ err) (h3 : dθ ≠ err) :
    dspacingFromTof (cDspacingFromTof f64 f64 f64 f64 f64) f64 dt dL dθ = floatDType dt := by
  cases dt <;> cases dL <;> cases dθ <;> first | rfl | contradiction

open DTy in
/-- `energy_from_tof`: the flight path is promoted to float64 and the time to its floating type before they are
squared, so every dtype can be evaluated and the precision follows tof -/
theorem energy_from_tof_dtype (dt dL : DTy) (h1 : dt ≠ err) (h2 : dL ≠ err) :
    energyFromTof (cEnergy f64 f64 f64 f64) dt dL = floatDType dt := by
  cases dt <;> cases dL <;> first | rfl | contradiction

open DTy in
theorem energy_from_wavelength_dtype (dw : DTy) (h1 : dw ≠ err) :
    energyFromWavelength (cEnergyFromWavelength f64 f64 f64 f64 dw) dw = if dw = i32 then err else floatDType dw := by
  cases dw <;> first | rfl | contradiction

open DTy in
theorem wavelength_from_energy_dtype (de : DTy) (h1 : de ≠ err) :
    wavelengthFromEnergy (cWavelengthFromEnergy f64 f64 f64 f64 de) de = floatDType de := by
  cases de <;> first | rfl | contradiction

open DTy in
theorem Q_from_wavelength_dtype (dw dθ : DTy) (h1 : dw ≠ err) (h2 : dθ ≠ err) :
    qFromWavelength f64 dw dθ = floatDType dw := by
  cases dw <;> cases dθ <;> first | rfl | contradiction

open DTy in
theorem wavelength_from_Q_dtype (dq dθ : DTy) (h1 : dq ≠ err) (h2 : dθ ≠ err) :
    wavelengthFromQ f64 f64 f64 dq dθ = floatDType dq := by
  cases dq <;> cases dθ <;> first | rfl | contradiction

open DTy in
theorem dspacing_from_wavelength_dtype (dw dθ : DTy) (h1 : dw ≠ err) (h2 : dθ ≠ err) :
    dspacingFromWavelength (cDspacingFromWavelength f64 f64 dw) f64 dw dθ = floatDType dw := by
  cases dw <;> cases dθ <;> first | rfl | contradiction

open DTy in
theorem dspacing_from_energy_dtype (de dθ : DTy) (h1 : de ≠ err) (h2 : dθ ≠ err) :
    dspacingFromEnergy (cDspacingFromEnergy f64 f64 f64 f64 de) f64 de dθ = floatDType de := by
  cases de <;> cases dθ <;> first | rfl | contradiction

open DTy in
/-- `Q_elements_from_wavelength`: single precision iff the wavelength is float32 -/
theorem Q_element_dtype (dw : DTy) (h1 : dw ≠ err) : qElement dw f64 = floatDType dw := by
  cases dw <;> first | rfl | contradiction

open DTy in
/-- `time_at_sample_from_tof`: float32 iff all four operands are float32, else float64 — decided over all
4^4 combinations of element types -/
theorem time_at_sample_dtype (dp dt dL dw : DTy) (h1 : dp ≠ err) (h2 : dt ≠ err) (h3 : dL ≠ err) (h4 : dw ≠ err) :
    timeAtSampleFromTof (cWavelengthFromTof f64 f64 f64 f64 f64) dp dt dL dw
      = if dp = f32 ∧ dt = f32 ∧ dL = f32 ∧ dw = f32 then f32 else f64 := by
  cases dp <;> cases dt <;> cases dL <;> cases dw <;> first | rfl | contradiction

/-! ## the executable model's dtype tags follow the abstract evaluation (all values) -/

theorem dty_bin (d : DTy) (f g i) (a b : Val) : (Val.bin d f g i a b).dty = d := by
  cases d <;> rfl

theorem dty_un (t : DTy) (f g) (a : Val) : (Val.un (DTy.floatOnly t) f g a).dty = DTy.floatOnly t := by
  cases t <;> rfl

theorem dty_mul (a b : Val) : (a * b).dty = a.dty * b.dty := dty_bin _ _ _ _ a b
theorem dty_div (a b : Val) : (a / b).dty = a.dty / b.dty := dty_bin _ _ _ _ a b
theorem dty_add (a b : Val) : (a + b).dty = a.dty + b.dty := dty_bin _ _ _ _ a b
theorem dty_sub (a b : Val) : (a - b).dty = a.dty - b.dty := dty_bin _ _ _ _ a b
theorem dty_sin (a : Val) : (Trans.sin a).dty = Trans.sin a.dty := dty_un _ _ _ a
theorem dty_sqrt (a : Val) : (Trans.sqrt a).dty = Trans.sqrt a.dty := dty_un _ _ _ a
theorem dty_sq (a : Val) : (sq a).dty = sq a.dty := dty_bin _ _ _ _ a a
theorem dty_sqSame (a : Val) : (sqSame a).dty = sqSame a.dty := dty_bin _ _ _ _ a a
theorem dty_i64 (n : Nat) : (i64 n : Val).dty = (i64 n : DTy) := rfl
theorem dty_half : (half : Val).dty = (half : DTy) := rfl
theorem dty_pi : (Trans.pi : Val).dty = (Trans.pi : DTy) := rfl

theorem dty_asCommon4 (x a b c d : Val) :
    (asCommon4 x a b c d).dty = asCommon4 x.dty a.dty b.dty c.dty d.dty := by
  show (Val.cast (DTy.asCommon4 x.dty a.dty b.dty c.dty d.dty) x).dty = DTy.asCommon4 x.dty a.dty b.dty c.dty d.dty
  generalize a.dty = ta; generalize b.dty = tb; generalize c.dty = tc; generalize d.dty = td
  by_cases h : ta = DTy.f32 ∧ tb = DTy.f32 ∧ tc = DTy.f32 ∧ td = DTy.f32
  · cases x <;> simp [DTy.asCommon4, h, Val.dty, Val.cast]
  · cases x <;> simp [DTy.asCommon4, h, Val.dty, Val.cast]

theorem dty_asFloatLike (a r : Val) : (asFloatLike a r).dty = asFloatLike a.dty r.dty := by
  show (Val.cast (DTy.asFloatLike a.dty r.dty) a).dty = DTy.asFloatLike a.dty r.dty
  cases a <;> cases r <;> rfl

/-- for all values: the dtype tag of every modelled kernel's result is the abstract evaluation of the same
kernel on the operands' dtypes -/
theorem model_dtype_is_abstract_wavelength_from_tof (c t L : Val) :
    (wavelengthFromTof c t L).dty = wavelengthFromTof c.dty t.dty L.dty := by
  simp only [wavelengthFromTof, dty_mul, dty_div, dty_asFloatLike]

theorem model_dtype_is_abstract_dspacing_from_tof (c s t L θ : Val) :
    (dspacingFromTof c s t L θ).dty = dspacingFromTof c.dty s.dty t.dty L.dty θ.dty := by
  simp only [dspacingFromTof, sinU, dty_mul, dty_div, dty_asFloatLike, dty_sin, dty_i64]

theorem model_dtype_is_abstract_energy_from_tof (c t L : Val) :
    (energyFromTof c t L).dty = energyFromTof c.dty t.dty L.dty := by
  simp only [energyFromTof, dty_mul, dty_div, dty_asFloatLike, dty_sq, dty_sqSame]

theorem model_dtype_is_abstract_energy_from_wavelength (c w : Val) :
    (energyFromWavelength c w).dty = energyFromWavelength c.dty w.dty := by
  simp only [energyFromWavelength, dty_div, dty_sq]

theorem model_dtype_is_abstract_wavelength_from_energy (c e : Val) :
    (wavelengthFromEnergy c e).dty = wavelengthFromEnergy c.dty e.dty := by
  simp only [wavelengthFromEnergy, dty_div, dty_sqrt]

theorem model_dtype_is_abstract_wavelengthQ (s x θ : Val) :
    (wavelengthQ s x θ).dty = wavelengthQ s.dty x.dty θ.dty := by
  simp only [wavelengthQ, sinU, dty_mul, dty_div, dty_asFloatLike, dty_sin, dty_i64, dty_pi]

theorem model_dtype_is_abstract_wavelength_from_Q (s sQ sA q θ : Val) :
    (wavelengthFromQ s sQ sA q θ).dty = wavelengthFromQ s.dty sQ.dty sA.dty q.dty θ.dty := by
  simp only [wavelengthFromQ, dty_mul, dty_div, dty_asFloatLike, model_dtype_is_abstract_wavelengthQ]

theorem model_dtype_is_abstract_dspacing_from_wavelength (c s w θ : Val) :
    (dspacingFromWavelength c s w θ).dty = dspacingFromWavelength c.dty s.dty w.dty θ.dty := by
  simp only [dspacingFromWavelength, sinU, dty_mul, dty_div, dty_asFloatLike, dty_sin, dty_i64]

theorem model_dtype_is_abstract_dspacing_from_energy (c s e θ : Val) :
    (dspacingFromEnergy c s e θ).dty = dspacingFromEnergy c.dty s.dty e.dty θ.dty := by
  simp only [dspacingFromEnergy, sinU, dty_mul, dty_div, dty_asFloatLike, dty_sin, dty_sqrt, dty_i64]

theorem model_dtype_is_abstract_constants (h mn sA sL sT sE : Val) :
    (cWavelengthFromTof h mn sA sL sT).dty = cWavelengthFromTof h.dty mn.dty sA.dty sL.dty sT.dty ∧
    (cDspacingFromTof h mn sA sL sT).dty = cDspacingFromTof h.dty mn.dty sA.dty sL.dty sT.dty ∧
    (cEnergy mn sE sL sT).dty = cEnergy mn.dty sE.dty sL.dty sT.dty := by
  simp only [cWavelengthFromTof, cDspacingFromTof, cEnergy, toUnitC, dty_mul, dty_div, dty_sq, dty_i64, and_self]

theorem model_dtype_is_abstract_time_at_sample (c p t L w : Val) :
    (timeAtSampleFromTof c p t L w).dty = timeAtSampleFromTof c.dty p.dty t.dty L.dty w.dty := by
  simp only [timeAtSampleFromTof, dty_add, dty_sub, dty_mul, dty_div, dty_asCommon4]

theorem model_dtype_is_abstract_Q_element (w e : Val) : (qElement w e).dty = qElement w.dty e.dty := by
  simp only [qElement, dty_mul, dty_div, dty_i64, dty_pi, dty_asFloatLike]

/-! # Geometry, gravity, inelastic, cascade and Q-vector kernels

The property speaks about every conversion *and* geometry kernel.  The kernels of `conversion/beamline.py`, the
inelastic kernels, `propagate_times` and the Q-vector / hkl kernels are modelled by C03, C04, C05, C11 and C08
(`Model/Beamline.lean`, `Model/Gravity.lean`, `Model/Inelastic.lean`, `Model/Cascade.lean`, `Model/QVec.lean`); the
theorems below are about those definitions (not re-modelled here) and cite the theorems of those properties.
Vectors: the same physical vector given in units `u` and `u'` is `u • b = u' • b'`. -/

section geometry
open ScnVerif.Beamline ScnVerif.Gravity ScnVerif.V3R ScnVerif.C07Geometry ScnVerif.Props.C04 Real

/-! ## geometry kernels -/

/-- `L1`: a beam given in another length unit (`u•b = u'•b'` is the same physical vector) has the same physical length -/
theorem L1_unit_equivariant (u u' : ℝ) (hu : 0 < u) (hu' : 0 < u') (b b' : V3 ℝ)
    (h : V3.smul u b = V3.smul u' b') : l1 b * u = l1 b' * u' := by
  have e1 := norm_smul hu.le b
  have e2 := norm_smul hu'.le b'
  simp only [l1]
  rw [mul_comm, ← e1, mul_comm (V3.norm b'), ← e2, h]

theorem L2_unit_equivariant (u u' : ℝ) (hu : 0 < u) (hu' : 0 < u') (b b' : V3 ℝ)
    (h : V3.smul u b = V3.smul u' b') : l2 b * u = l2 b' * u' := L1_unit_equivariant u u' hu hu' b b' h

/-- `total_beam_length`, `total_straight_beam_length_no_scatter` and the whole scatter graph: positions in a unit of
`s` metres ⇒ every length is multiplied by `s`, the angle does not change (C03 `scatter_graph_unit_scale`) -/
theorem Ltotal_unit_equivariant (s : ℝ) (hs : 0 < s) (source sample position : V3 ℝ)
    (h1 : sample ≠ source) (h2 : position ≠ sample) :
    (scatterGraph (V3.smul s source) (V3.smul s sample) (V3.smul s position)).Ltotal
        = s * (scatterGraph source sample position).Ltotal ∧
    totalStraightNoScatter (V3.smul s source) (V3.smul s position) = s * totalStraightNoScatter source position := by
  refine ⟨(C03.scatter_graph_unit_scale s hs source sample position h1 h2).2.2.1, ?_⟩
  have e : V3.sub (V3.smul s position) (V3.smul s source) = V3.smul s (V3.sub position source) := by
    simp only [V3.sub, V3.smul]; apply V3R.ext <;> ring
  simp only [totalStraightNoScatter, e, norm_smul hs.le]

/-- `two_theta`: each beam may come in its own length unit -/
theorem two_theta_unit_equivariant (u1 u1' u2 u2' : ℝ) (h1 : 0 < u1) (h1' : 0 < u1') (h2 : 0 < u2) (h2' : 0 < u2')
    (b1 b1' b2 b2' : V3 ℝ) (n1 : b1 ≠ zero) (n1' : b1' ≠ zero) (n2 : b2 ≠ zero) (n2' : b2' ≠ zero)
    (e1 : V3.smul u1 b1 = V3.smul u1' b1') (e2 : V3.smul u2 b2 = V3.smul u2' b2') :
    twoTheta b1 b2 = twoTheta b1' b2' := by
  rw [← C03.two_theta_scale_left u1 h1 b1 b2 n1 n2,
    ← C03.two_theta_scale_right u2 h2 _ b2 (smul_ne_zero h1.ne' n1) n2,
    ← C03.two_theta_scale_left u1' h1' b1' b2' n1' n2',
    ← C03.two_theta_scale_right u2' h2' _ b2' (smul_ne_zero h1'.ne' n1') n2', e1, e2]

/-! ## gravity -/

/-- `_drop_due_to_gravity`: distance in a unit of `ud` m, wavelength `ul` m, gravity `ug` m/s², the constant's unit
`uc`, the wavelength converted as the code does — the physical drop does not depend on any of them -/
theorem drop_due_to_gravity_unit_equivariant (c L2 L2' lam lam' : ℝ) (g g' : V3 ℝ) (ud ud' ul ul' ug ug' uc : ℝ)
    (hd : 0 < ud) (hd' : 0 < ud') (hg : 0 < ug) (hg' : 0 < ug') (hc : 0 < uc)
    (eL : L2 * ud = L2' * ud') (el : lam * ul = lam' * ul') (eg : V3.norm g * ug = V3.norm g' * ug') :
    dropDueToGravity (Conv.id ℝ) c (ul / √(1 / (ud * (ug * uc)))) L2 lam g * ud
      = dropDueToGravity (Conv.id ℝ) c (ul' / √(1 / (ud' * (ug' * uc)))) L2' lam' g' * ud' := by
  rw [drop_def_units c L2 lam g ud ul ug uc hd hg hc, drop_def_units c L2' lam' g' ud' ul' ug' uc hd' hg' hc, eL, el, eg]

/-- the gravity kernel in arbitrary units equals the documented construction evaluated on the physical (SI) vectors -/
theorem gravity_generic_phys (c lam : ℝ) (b1 b2 g : V3 ℝ) (u1 ud ug ul uc : ℝ)
    (h1 : 0 < u1) (hd : 0 < ud) (hgs : 0 < ug) (hc : 0 < uc)
    (hg : g ≠ zero) (hb1 : b1 ≠ zero) (hz : Spec.zproj b1 g ≠ zero)
    (hr : Spec.raised g b2 (Spec.delta c g (lam * (ul / √(1 / (ud * (ug * uc))))) (V3.norm b2)) ≠ zero) :
    anglesGeneric (Conv.id ℝ) c (ul / √(1 / (ud * (ug * uc)))) (frame b1 g) b1 b2 lam g
      = ⟨Spec.twoTheta (V3.smul u1 b1) (V3.smul ug g) (V3.smul ud b2)
            (Spec.delta (c * uc) (V3.smul ug g) (lam * ul) (V3.norm (V3.smul ud b2))),
         Spec.phi (V3.smul u1 b1) (V3.smul ug g) (V3.smul ud b2)
            (Spec.delta (c * uc) (V3.smul ug g) (lam * ul) (V3.norm (V3.smul ud b2)))⟩ := by
  rw [generic_eq_spec c _ lam b1 b2 g hg hb1 hr]
  have hδ : Spec.delta (c * uc) (V3.smul ug g) (lam * ul) (V3.norm (V3.smul ud b2))
      = ud * Spec.delta c g (lam * (ul / √(1 / (ud * (ug * uc))))) (V3.norm b2) := by
    have := drop_def_units c (V3.norm b2) lam g ud ul ug uc hd hgs hc
    rw [drop_def] at this
    rw [mul_comm ud, this, Spec.delta, norm_smul hgs.le, norm_smul hd.le]; ring
  rw [hδ]
  obtain ⟨e1, e2⟩ := spec_scale h1 hd hgs b1 b2 g _ hg hb1 hz hr
  rw [e1, e2]

/-- `scattering_angles_with_gravity` (general path): beams, wavelength and gravity in any units -/
theorem gravity_angles_unit_equivariant (c lam lam' : ℝ) (b1 b1' b2 b2' g g' : V3 ℝ)
    (u1 u1' ud ud' ug ug' ul ul' uc : ℝ)
    (h1 : 0 < u1) (h1' : 0 < u1') (hd : 0 < ud) (hd' : 0 < ud') (hgs : 0 < ug) (hgs' : 0 < ug') (hc : 0 < uc)
    (hg : g ≠ zero) (hg' : g' ≠ zero) (hb1 : b1 ≠ zero) (hb1' : b1' ≠ zero)
    (hz : Spec.zproj b1 g ≠ zero) (hz' : Spec.zproj b1' g' ≠ zero)
    (hr : Spec.raised g b2 (Spec.delta c g (lam * (ul / √(1 / (ud * (ug * uc))))) (V3.norm b2)) ≠ zero)
    (hr' : Spec.raised g' b2' (Spec.delta c g' (lam' * (ul' / √(1 / (ud' * (ug' * uc))))) (V3.norm b2')) ≠ zero)
    (e1 : V3.smul u1 b1 = V3.smul u1' b1') (e2 : V3.smul ud b2 = V3.smul ud' b2')
    (eg : V3.smul ug g = V3.smul ug' g') (el : lam * ul = lam' * ul') :
    anglesGeneric (Conv.id ℝ) c (ul / √(1 / (ud * (ug * uc)))) (frame b1 g) b1 b2 lam g
      = anglesGeneric (Conv.id ℝ) c (ul' / √(1 / (ud' * (ug' * uc)))) (frame b1' g') b1' b2' lam' g' := by
  rw [gravity_generic_phys c lam b1 b2 g u1 ud ug ul uc h1 hd hgs hc hg hb1 hz hr,
    gravity_generic_phys c lam' b1' b2' g' u1' ud' ug' ul' uc h1' hd' hgs' hc hg' hb1' hz' hr', e1, e2, eg, el]

/-- optimised path (incident beam perpendicular to gravity): same physical construction -/
theorem gravity_orthogonal_phys (c lam : ℝ) (b1 b2 g : V3 ℝ) (u1 ud ug ul uc : ℝ)
    (h1 : 0 < u1) (hd : 0 < ud) (hgs : 0 < ug) (hc : 0 < uc)
    (hg : g ≠ zero) (hb1 : b1 ≠ zero) (hperp : V3.dot g b1 = 0)
    (hr : Spec.raised g b2 (Spec.delta c g (lam * (ul / √(1 / (ud * (ug * uc))))) (V3.norm b2)) ≠ zero) :
    anglesOrthogonal (Conv.id ℝ) c (ul / √(1 / (ud * (ug * uc)))) (frame b1 g) b2 lam g
      = ⟨Spec.twoTheta (V3.smul u1 b1) (V3.smul ug g) (V3.smul ud b2)
            (Spec.delta (c * uc) (V3.smul ug g) (lam * ul) (V3.norm (V3.smul ud b2))),
         Spec.phi (V3.smul u1 b1) (V3.smul ug g) (V3.smul ud b2)
            (Spec.delta (c * uc) (V3.smul ug g) (lam * ul) (V3.norm (V3.smul ud b2)))⟩ := by
  have hz : Spec.zproj b1 g ≠ zero := by rw [zproj_of_perp hperp]; exact hb1
  rw [orthogonal_eq_spec c _ lam b1 b2 g hg hb1 hperp hr]
  have hδ : Spec.delta (c * uc) (V3.smul ug g) (lam * ul) (V3.norm (V3.smul ud b2))
      = ud * Spec.delta c g (lam * (ul / √(1 / (ud * (ug * uc))))) (V3.norm b2) := by
    have := drop_def_units c (V3.norm b2) lam g ud ul ug uc hd hgs hc
    rw [drop_def] at this
    rw [mul_comm ud, this, Spec.delta, norm_smul hgs.le, norm_smul hd.le]; ring
  rw [hδ]
  obtain ⟨e1, e2⟩ := spec_scale h1 hd hgs b1 b2 g _ hg hb1 hz hr
  rw [e1, e2]

/-- `scattering_angles_with_gravity` (optimised path, incident beams perpendicular to gravity): unit independent -/
theorem gravity_orthogonal_unit_equivariant (c lam lam' : ℝ) (b1 b1' b2 b2' g g' : V3 ℝ)
    (u1 u1' ud ud' ug ug' ul ul' uc : ℝ)
    (h1 : 0 < u1) (h1' : 0 < u1') (hd : 0 < ud) (hd' : 0 < ud') (hgs : 0 < ug) (hgs' : 0 < ug') (hc : 0 < uc)
    (hg : g ≠ zero) (hg' : g' ≠ zero) (hb1 : b1 ≠ zero) (hb1' : b1' ≠ zero)
    (hperp : V3.dot g b1 = 0) (hperp' : V3.dot g' b1' = 0)
    (hr : Spec.raised g b2 (Spec.delta c g (lam * (ul / √(1 / (ud * (ug * uc))))) (V3.norm b2)) ≠ zero)
    (hr' : Spec.raised g' b2' (Spec.delta c g' (lam' * (ul' / √(1 / (ud' * (ug' * uc))))) (V3.norm b2')) ≠ zero)
    (e1 : V3.smul u1 b1 = V3.smul u1' b1') (e2 : V3.smul ud b2 = V3.smul ud' b2')
    (eg : V3.smul ug g = V3.smul ug' g') (el : lam * ul = lam' * ul') :
    anglesOrthogonal (Conv.id ℝ) c (ul / √(1 / (ud * (ug * uc)))) (frame b1 g) b2 lam g
      = anglesOrthogonal (Conv.id ℝ) c (ul' / √(1 / (ud' * (ug' * uc)))) (frame b1' g') b2' lam' g' := by
  rw [gravity_orthogonal_phys c lam b1 b2 g u1 ud ug ul uc h1 hd hgs hc hg hb1 hperp hr,
    gravity_orthogonal_phys c lam' b1' b2' g' u1' ud' ug' ul' uc h1' hd' hgs' hc hg' hb1' hperp' hr', e1, e2, eg, el]

/-- `scattering_angle_in_yz_plane` in arbitrary units: `atan2(|y_d + δ|, z_d)` of the physical vectors -/
theorem gravity_yz_phys (c lam : ℝ) (b1 b2 g : V3 ℝ) (u1 ud ug ul uc : ℝ)
    (h1 : 0 < u1) (hd : 0 < ud) (hgs : 0 < ug) (hc : 0 < uc) (hg : g ≠ zero) (hz : Spec.zproj b1 g ≠ zero) :
    angleYZ (Conv.id ℝ) c (ul / √(1 / (ud * (ug * uc)))) (frame b1 g) b2 lam g
      = Complex.arg ⟨V3.dot (V3.smul ud b2) (Spec.ez (V3.smul u1 b1) (V3.smul ug g)),
          |V3.dot (V3.smul ud b2) (Spec.ey (V3.smul ug g))
            + Spec.delta (c * uc) (V3.smul ug g) (lam * ul) (V3.norm (V3.smul ud b2))|⟩ := by
  rw [yz_def]
  have hδ : Spec.delta (c * uc) (V3.smul ug g) (lam * ul) (V3.norm (V3.smul ud b2))
      = ud * Spec.delta c g (lam * (ul / √(1 / (ud * (ug * uc))))) (V3.norm b2) := by
    have := drop_def_units c (V3.norm b2) lam g ud ul ug uc hd hgs hc
    rw [drop_def] at this
    rw [mul_comm ud, this, Spec.delta, norm_smul hgs.le, norm_smul hd.le]; ring
  rw [hδ, ez_smul h1 hgs b1 g hg hz, ey_smul ug hgs g hg, dot_smul_left, dot_smul_left, ← mul_add, abs_mul,
    abs_of_pos hd, arg_scale hd]

theorem gravity_yz_unit_equivariant (c lam lam' : ℝ) (b1 b1' b2 b2' g g' : V3 ℝ)
    (u1 u1' ud ud' ug ug' ul ul' uc : ℝ)
    (h1 : 0 < u1) (h1' : 0 < u1') (hd : 0 < ud) (hd' : 0 < ud') (hgs : 0 < ug) (hgs' : 0 < ug') (hc : 0 < uc)
    (hg : g ≠ zero) (hg' : g' ≠ zero) (hz : Spec.zproj b1 g ≠ zero) (hz' : Spec.zproj b1' g' ≠ zero)
    (e1 : V3.smul u1 b1 = V3.smul u1' b1') (e2 : V3.smul ud b2 = V3.smul ud' b2')
    (eg : V3.smul ug g = V3.smul ug' g') (el : lam * ul = lam' * ul') :
    angleYZ (Conv.id ℝ) c (ul / √(1 / (ud * (ug * uc)))) (frame b1 g) b2 lam g
      = angleYZ (Conv.id ℝ) c (ul' / √(1 / (ud' * (ug' * uc)))) (frame b1' g') b2' lam' g' := by
  rw [gravity_yz_phys c lam b1 b2 g u1 ud ug ul uc h1 hd hgs hc hg hz,
    gravity_yz_phys c lam' b1' b2' g' u1' ud' ug' ul' uc h1' hd' hgs' hc hg' hz', e1, e2, eg, el]


/-- non-vacuity of the gravity hypotheses (C04's instance: gravity along −y, incident beam tilted by 45°, detector
along x) together with a second unit system: metres vs centimetres -/
example : V3.smul (1 : ℝ) (⟨0, 1, 1⟩ : V3 ℝ) = V3.smul (1e-2 : ℝ) ⟨0, 100, 100⟩ ∧ (⟨0, 1, 1⟩ : V3 ℝ) ≠ zero ∧
    (⟨0, -1, 0⟩ : V3 ℝ) ≠ zero := by
  refine ⟨?_, ?_, ?_⟩
  · simp only [V3.smul]; apply V3R.ext <;> norm_num
  · intro e; have := congrArg V3.z e; simp [zero] at this
  · intro e; have := congrArg V3.y e; simp [zero] at this

/-- non-vacuity of `L1_unit_equivariant`: (3,4,0) m is (300,400,0) cm -/
example : l1 (⟨3, 4, 0⟩ : V3 ℝ) * 1 = l1 (⟨300, 400, 0⟩ : V3 ℝ) * 1e-2 :=
  L1_unit_equivariant 1 1e-2 (by norm_num) (by norm_num) _ _ (by simp only [V3.smul]; apply V3R.ext <;> norm_num)

end geometry

section inelastic
open ScnVerif.Inelastic

/-- `energy_transfer_direct_from_tof`: tof, L1, L2 and the energy in any units give the same physical result — NaN in
both unit systems or the same energy (C05 `direct_unit_independent`, with the folded constant `m_n/2` converted as the
code does) -/
theorem energy_transfer_direct_unit_equivariant
    (m sE st sL1 sL2 tof L1 L2 Ei sE' st' sL1' sL2' tof' L1' L2' Ei' : ℝ)
    (hm : 0 < m) (hsE : 0 < sE) (hst : 0 < st) (hsL1 : 0 < sL1) (hsL2 : 0 < sL2) (hEi : 0 < Ei)
    (hsE' : 0 < sE') (hst' : 0 < st') (hsL1' : 0 < sL1') (hsL2' : 0 < sL2') (hEi' : 0 < Ei')
    (ht : tof * st = tof' * st') (h1 : L1 * sL1 = L1' * sL1') (h2 : L2 * sL2 = L2' * sL2')
    (hE : Ei * sE = Ei' * sE') :
    (directFromUnits (m / 2) sE st sL1 sL2 tof L1 L2 Ei).map (· * sE)
      = (directFromUnits (m / 2) sE' st' sL1' sL2' tof' L1' L2' Ei').map (· * sE') :=
  Props.C05.direct_unit_independent m sE st sL1 sL2 tof L1 L2 Ei sE' st' sL1' sL2' tof' L1' L2' Ei'
    hm hsE hst hsL1 hsL2 hEi hsE' hst' hsL1' hsL2' hEi' ht h1 h2 hE

/-- `energy_transfer_indirect_from_tof` (C05 `indirect_unit_independent`) -/
theorem energy_transfer_indirect_unit_equivariant
    (m sE st sL1 sL2 tof L1 L2 Ef sE' st' sL1' sL2' tof' L1' L2' Ef' : ℝ)
    (hm : 0 < m) (hsE : 0 < sE) (hst : 0 < st) (hsL1 : 0 < sL1) (hsL2 : 0 < sL2) (hEf : 0 < Ef)
    (hsE' : 0 < sE') (hst' : 0 < st') (hsL1' : 0 < sL1') (hsL2' : 0 < sL2') (hEf' : 0 < Ef')
    (ht : tof * st = tof' * st') (h1 : L1 * sL1 = L1' * sL1') (h2 : L2 * sL2 = L2' * sL2')
    (hE : Ef * sE = Ef' * sE') :
    (indirectFromUnits (m / 2) sE st sL1 sL2 tof L1 L2 Ef).map (· * sE)
      = (indirectFromUnits (m / 2) sE' st' sL1' sL2' tof' L1' L2' Ef').map (· * sE') :=
  Props.C05.indirect_unit_independent m sE st sL1 sL2 tof L1 L2 Ef sE' st' sL1' sL2' tof' L1' L2' Ef'
    hm hsE hst hsL1 hsL2 hEf hsE' hst' hsL1' hsL2' hEf' ht h1 h2 hE

end inelastic

section cascade
/-! ## propagate_times -/
open ScnVerif.Cascade in
/-- `propagate_times` with the folded conversion factor the code computes: `(wavelength·m_n/h).to('s/m')` multiplies by
`sW` (metres per wavelength unit), `(distance · …).to(time.unit)` by `sD/sT`: the result, as a physical time, is
`t + d·λ·m_n/h` -/
theorem propagate_times_phys (mn h sW sD sT t w d : ℝ) (hh : h ≠ 0) (hT : sT ≠ 0) :
    propagateTimes ⟨mn, h, sW * (sD / sT)⟩ t w d * sT = t * sT + (d * sD) * (w * sW) * mn / h := by
  simp only [propagateTimes]; field_simp

open ScnVerif.Cascade in
theorem propagate_times_unit_equivariant (mn h sW sW' sD sD' sT sT' t t' w w' d d' : ℝ) (hh : h ≠ 0)
    (hT : sT ≠ 0) (hT' : sT' ≠ 0) (et : t * sT = t' * sT') (ew : w * sW = w' * sW') (ed : d * sD = d' * sD') :
    propagateTimes ⟨mn, h, sW * (sD / sT)⟩ t w d * sT = propagateTimes ⟨mn, h, sW' * (sD' / sT')⟩ t' w' d' * sT' := by
  rw [propagate_times_phys mn h sW sD sT t w d hh hT, propagate_times_phys mn h sW' sD' sT' t' w' d' hh hT', et, ew, ed]


/-- non-vacuity: 1 ms, 2 Å, 3 m  =  1000 µs, 0.2 nm, 300 cm -/
example : Cascade.propagateTimes ⟨(1.67e-27 : ℝ), 6.63e-34, 1e-10 * (1 / 1e-3)⟩ 1 2 3 * 1e-3
    = Cascade.propagateTimes ⟨1.67e-27, 6.63e-34, 1e-9 * (1e-2 / 1e-6)⟩ 1000 0.2 300 * 1e-6 := by
  apply propagate_times_unit_equivariant <;> norm_num

end cascade

section qvec
open ScnVerif.QVec ScnVerif.Lemmas.QVec Real

open ScnVerif.QVec ScnVerif.Lemmas.QVec in
/-- the whole vector of `Q_elements_from_wavelength`: wavelength and both beams in any units -/
theorem Q_elements_unit_equivariant (sW sW' lam lam' a a' b b' : ℝ) (bi bi' bf bf' : V3 ℝ)
    (hW : 0 < sW) (hW' : 0 < sW') (hl : 0 < lam) (hl' : 0 < lam')
    (ha : 0 < a) (ha' : 0 < a') (hb : 0 < b) (hb' : 0 < b')
    (hi : 0 < V3.norm bi) (hi' : 0 < V3.norm bi') (hf : 0 < V3.norm bf) (hf' : 0 < V3.norm bf')
    (el : lam * sW = lam' * sW') (ei : V3.smul a bi = V3.smul a' bi') (ef : V3.smul b bf = V3.smul b' bf') :
    V3.smul (1 / sW) (qElements lam bi bf) = V3.smul (1 / sW') (qElements lam' bi' bf') := by
  have key : ∀ (s l : ℝ) (x y : V3 ℝ), 0 < s → 0 < l →
      V3.smul (1 / s) (qElements l x y) = V3.smul (2 * Real.pi / (l * s)) (V3.sub (V3.normalize x) (V3.normalize y)) := by
    intro s l x y hs hl
    rw [Props.C08.Qvec_def]
    simp only [V3.smul]; apply V3R.ext <;> field_simp
  rw [← Props.C08.Qvec_beam_length_invariant lam a b bi bf ha hb hi hf,
    ← Props.C08.Qvec_beam_length_invariant lam' a' b' bi' bf' ha' hb' hi' hf', key _ _ _ _ hW hl, key _ _ _ _ hW' hl',
    el, ei, ef]

/-- a matrix in another unit: every entry multiplied by `a` -/
def m3scale (a : ℝ) (m : M3 ℝ) : M3 ℝ :=
  ⟨a * m.a11, a * m.a12, a * m.a13, a * m.a21, a * m.a22, a * m.a23, a * m.a31, a * m.a32, a * m.a33⟩

theorem det_mul_scale (a : ℝ) (r ub : M3 ℝ) : M3.det (M3.mul r (m3scale a ub)) = a ^ 3 * M3.det (M3.mul r ub) := by
  simp only [M3.det, M3.mul, m3scale, M3.c00, M3.c10, M3.c20]; ring

/-- `hkl_vec_from_Q_vec`: Q and UB are both inverse lengths; re-expressing both in another inverse-length unit
(factor `a > 0`) does not change the (dimensionless) hkl -/
theorem hkl_unit_equivariant (a : ℝ) (ha : 0 < a) (q : V3 ℝ) (ub r : M3 ℝ) (hd : M3.det (M3.mul r ub) ≠ 0) :
    hklVecFromQVec (V3.smul a q) (m3scale a ub) r = hklVecFromQVec q ub r := by
  have hd' : M3.det (M3.mul r (m3scale a ub)) ≠ 0 := by rw [det_mul_scale]; positivity
  have hp := twoPi_pos
  simp only [hklVecFromQVec, M3.inv, det_mul_scale]
  generalize hD : M3.det (M3.mul r ub) = D at hd
  simp only [M3.mulVec, M3.mul, m3scale, M3.c00, M3.c10, M3.c20, V3.sdiv, V3.smul]
  apply V3R.ext <;> field_simp

end qvec

section units
open ScnVerif.C07Geometry ScnVerif.C07Geometry.U Real

/-! ## documented output units, replayed in the unit algebra

`U` = (SI scale, dimension).  Each theorem replays the unit computation the kernel performs (the unit the constant is
converted to, then the arithmetic of the return expression) for **arbitrary** input unit scales and concludes that the
result unit is the documented one — scale (by `field_simp`) and dimension (by `rfl` on the exponent vector). -/
variable (sA sE sL sL1 sL2 sT sW sD sG : ℝ)

/-- `wavelength_from_tof`: `c` is converted to `Å·unit(L)/unit(t)`; the result `c / L * t` comes in ångström whatever
the units of tof and Ltotal -/
theorem wavelength_from_tof_out_unit (hL : sL ≠ 0) (hT : sT ≠ 0) :
    (lengthU sA * lengthU sL / timeU sT) / lengthU sL * timeU sT = lengthU sA := by
  apply U.ext'
  · show sA * sL / sT / sL * sT = sA
    field_simp
  · rfl


theorem dspacing_from_tof_out_unit (hA : sA ≠ 0) (hL : sL ≠ 0) (hT : sT ≠ 0) :
    U.one / ((timeU sT / lengthU sA / lengthU sL) * lengthU sL * plainU 1) * timeU sT = lengthU sA := by
  apply U.ext'
  · show 1 / (sT / sA / sL * sL * 1) * sT = sA
    field_simp
  · rfl

theorem energy_from_tof_out_unit (hL : sL ≠ 0) (hT : sT ≠ 0) :
    energyU sE * U.sq (timeU sT / lengthU sL) * U.sq (lengthU sL) / U.sq (timeU sT) = energyU sE := by
  apply U.ext'
  · show sE * (sT / sL * (sT / sL)) * (sL * sL) / (sT * sT) = sE
    field_simp
  · rfl

theorem energy_from_wavelength_out_unit (hW : sW ≠ 0) :
    energyU sE * U.sq (lengthU sW) / U.sq (lengthU sW) = energyU sE := by
  apply U.ext'
  · show sE * (sW * sW) / (sW * sW) = sE
    field_simp
  · rfl

theorem wavelength_from_energy_out_unit (hA : 0 < sA) (hE : sE ≠ 0) :
    U.sqrt (U.sq (lengthU sA) * energyU sE / energyU sE) = lengthU sA := by
  apply U.ext'
  · show √(sA * sA * sE / sE) = sA
    rw [mul_div_assoc, div_self hE, mul_one, Real.sqrt_mul_self hA.le]
  · rfl

theorem Q_from_wavelength_out_unit : plainU 1 * plainU 1 / lengthU sW = U.one / lengthU sW := by
  apply U.ext'
  · show 1 * 1 / sW = 1 / sW
    ring
  · rfl

/-- `wavelength_from_Q` converts explicitly to ångström; the conversion is legal because `1/unit(Q)` is a length -/
theorem wavelength_from_Q_convertible (sQ : ℝ) : (plainU 1 / (U.one / lengthU sQ)).dim = (lengthU sA).dim := rfl

theorem dspacing_from_wavelength_out_unit (hW : sW ≠ 0) :
    (lengthU sA / lengthU sW) * lengthU sW / plainU 1 = lengthU sA := by
  apply U.ext'
  · show sA / sW * sW / 1 = sA
    field_simp
  · rfl

theorem dspacing_from_energy_out_unit (hA : 0 < sA) (hE : sE ≠ 0) :
    U.sqrt (U.sq (lengthU sA) * energyU sE / energyU sE) / plainU 1 = lengthU sA := by
  apply U.ext'
  · show √(sA * sA * sE / sE) / 1 = sA
    rw [mul_div_assoc, div_self hE, mul_one, Real.sqrt_mul_self hA.le, div_one]
  · rfl

theorem time_at_sample_out_unit (hA : sA ≠ 0) (hL : sL ≠ 0) :
    lengthU sL * lengthU sA / (lengthU sA * lengthU sL / timeU sT) = timeU sT := by
  apply U.ext'
  · show sL * sA / (sA * sL / sT) = sT
    field_simp
  · rfl

/-- `L1`, `L2`, `Ltotal`: `norm` = `sqrt(b·b)` keeps the unit of the beam -/
theorem L_out_unit (hL : 0 < sL) : U.sqrt (U.sq (lengthU sL)) = lengthU sL := by
  apply U.ext'
  · show √(sL * sL) = sL
    exact Real.sqrt_mul_self hL.le
  · rfl

/-- `two_theta`, `phi`, `gamma`: both arguments of `atan2` carry the same length unit (normalised beams are
dimensionless; `drop` comes in the unit of the scattered beam, see `drop_out_unit`), the result is in radians -/
theorem angle_out_unit (hL : sL ≠ 0) : lengthU sL / lengthU sL = U.one := by
  apply U.ext'
  · show sL / sL = 1
    exact div_self hL
  · rfl

/-- `_drop_due_to_gravity`: `const` has the unit of `|g|·m_n²/h²`; the wavelength is converted to
`sqrt(1/(unit(distance)·unit(const)))` (a length); `λ²·const·distance²` comes in the unit of the distance -/
theorem drop_out_unit (hD : 0 < sD) (hG : 0 < sG) :
    let uconst : U := accelU sG * (U.sq ⟨1, Dim.massD⟩ / U.sq ⟨1, Dim.action⟩)
    let uw := U.sqrt (U.one / (lengthU sD * uconst))
    uw.dim = Dim.length ∧ U.sq uw * uconst * U.sq (lengthU sD) = lengthU sD := by
  intro uconst uw
  refine ⟨rfl, ?_⟩
  apply U.ext'
  · show √(1 / (sD * (sG * (1 * 1 / (1 * 1))))) * √(1 / (sD * (sG * (1 * 1 / (1 * 1))))) * (sG * (1 * 1 / (1 * 1))) * (sD * sD) = sD
    rw [Real.mul_self_sqrt (by positivity)]
    field_simp
  · rfl

/-- inelastic kernels: `t0 = L·sqrt(c/E)` is a time in the unit of tof, the result an energy in the unit of `E` -/
theorem energy_transfer_out_unit (hE : sE ≠ 0) (hT : 0 < sT) (hL1 : 0 < sL1) (hL2 : sL2 ≠ 0) :
    lengthU sL1 * U.sqrt (energyU sE * U.sq (timeU sT / lengthU sL1) / energyU sE) = timeU sT ∧
    energyU sE * U.sq (timeU sT / lengthU sL2) * U.sq (lengthU sL2) / U.sq (timeU sT) = energyU sE := by
  constructor
  · apply U.ext'
    · show sL1 * √(sE * (sT / sL1 * (sT / sL1)) / sE) = sT
      have e : sE * (sT / sL1 * (sT / sL1)) / sE = (sT / sL1) * (sT / sL1) := by field_simp
      rw [e, Real.sqrt_mul_self (by positivity)]
      field_simp
    · rfl
  · exact energy_from_tof_out_unit sE sL2 sT hL2 hT.ne'

/-- `propagate_times`: `distance · (s/m)` is a time, so the explicit conversion to `time.unit` is legal; the result
carries `time.unit` -/
theorem propagate_times_convertible : (lengthU sD * (timeU 1 / lengthU 1)).dim = (timeU sT).dim := rfl


end units

section dtypes
/-! ## dtype table over the models of the other properties -/
open ScnVerif.Cascade in
theorem propagate_times_dtype (tk : Chopper TV → Bool) (k : Consts TV) (t w d : TV)
    (h1 : k.mn.dt = .f64) (h2 : k.h.dt = .f64) (h3 : k.s.dt = .f64) :
    (propagateTimesH (hooksTV tk) k t w d).dt
      = if t.dt = .f32 ∧ w.dt = .f32 ∧ d.dt = .f32 then .f32 else .f64 := by
  obtain ⟨mn, h, s⟩ := k
  obtain ⟨dmn, vmn⟩ := mn; obtain ⟨dh, vh⟩ := h; obtain ⟨ds, vs⟩ := s
  obtain ⟨dt, vt⟩ := t; obtain ⟨dw, vw⟩ := w; obtain ⟨dd, vd⟩ := d
  simp only at h1 h2 h3
  subst h1 h2 h3
  cases dt <;> cases dw <;> cases dd <;> rfl

open ScnVerif.Gravity in
/-- **the dtype contract of every kernel, one table.**  Elastic kernels, `time_at_sample_from_tof` and
`Q_elements_from_wavelength`: abstract dtype evaluation of this file's model.  Inelastic kernels: C05's
`energyTransferDType` (= `_common_dtype(energy, tof)`).  Q-vector components: C08's `qResultDType`.
`propagate_times`: C11's typed carrier `TV` with `hooksTV` (float32 iff time, wavelength and distance are all float32).
Gravity kernels: in `Model/Gravity.lean` the result lives in the carrier `β` of the wavelength *by typing* — the last
four conjuncts instantiate that at the two carriers the driver runs (`Float32` for a float32 wavelength, `Float` for
everything else, into which `float_dtype` promotes the integers). -/
theorem all_kernels_dtype_contract :
    -- elastic kernels of conversion/tof.py (data operand decides)
    (∀ dt dL, dt ≠ DTy.err → dL ≠ DTy.err →
      wavelengthFromTof (cWavelengthFromTof DTy.f64 .f64 .f64 .f64 .f64) dt dL = DTy.floatDType dt) ∧
    (∀ dt dL dθ, dt ≠ DTy.err → dL ≠ DTy.err → dθ ≠ DTy.err →
      dspacingFromTof (cDspacingFromTof DTy.f64 .f64 .f64 .f64 .f64) .f64 dt dL dθ = DTy.floatDType dt) ∧
    (∀ de, de ≠ DTy.err → wavelengthFromEnergy (cWavelengthFromEnergy DTy.f64 .f64 .f64 .f64 de) de = DTy.floatDType de) ∧
    (∀ dw dθ, dw ≠ DTy.err → dθ ≠ DTy.err → qFromWavelength DTy.f64 dw dθ = DTy.floatDType dw) ∧
    (∀ dq dθ, dq ≠ DTy.err → dθ ≠ DTy.err → wavelengthFromQ DTy.f64 .f64 .f64 dq dθ = DTy.floatDType dq) ∧
    (∀ dw dθ, dw ≠ DTy.err → dθ ≠ DTy.err →
      dspacingFromWavelength (cDspacingFromWavelength DTy.f64 .f64 dw) .f64 dw dθ = DTy.floatDType dw) ∧
    (∀ de dθ, de ≠ DTy.err → dθ ≠ DTy.err →
      dspacingFromEnergy (cDspacingFromEnergy DTy.f64 .f64 .f64 .f64 de) .f64 de dθ = DTy.floatDType de) ∧
    (∀ dw, dw ≠ DTy.err → qElement dw DTy.f64 = DTy.floatDType dw) ∧
    -- inelastic kernels (C05): float32 iff energy and tof are both float32, never an integer, lengths irrelevant
    (∀ e t l1 l2, (Inelastic.energyTransferDType e t l1 l2 = .f32 ↔ e = .f32 ∧ t = .f32) ∧
      (Inelastic.energyTransferDType e t l1 l2 = .f32 ∨ Inelastic.energyTransferDType e t l1 l2 = .f64)) ∧
    -- Q vector (C08): float_dtype(wavelength)
    (∀ w, (QVec.qResultDType w = .f32 ↔ w = .f32) ∧ (w ≠ .f32 → QVec.qResultDType w = .f64)) ∧
    -- propagate_times (C11 typed carrier)
    (∀ (tk : Cascade.Chopper Cascade.TV → Bool) (k : Cascade.Consts Cascade.TV) (t w d : Cascade.TV),
      k.mn.dt = .f64 → k.h.dt = .f64 → k.s.dt = .f64 →
      (Cascade.propagateTimesH (Cascade.hooksTV tk) k t w d).dt
        = if t.dt = .f32 ∧ w.dt = .f32 ∧ d.dt = .f32 then .f32 else .f64) ∧
    -- gravity kernels (C04): result in the wavelength's carrier
    (∀ (c s d : Float) (w : Float32) (g : V3 Float), ∃ r : Float32, dropDueToGravity Conv.f32 c s d w g = r) ∧
    (∀ (c s d : Float) (w : Float) (g : V3 Float), ∃ r : Float, dropDueToGravity (Conv.id Float) c s d w g = r) ∧
    (∀ (c s : Float) (fr : Frame Float) (b1 b2 g : V3 Float) (w : Float32),
      ∃ r : Angles Float32, anglesGeneric Conv.f32 c s fr b1 b2 w g = r) ∧
    (∀ (c s : Float) (fr : Frame Float) (b2 g : V3 Float) (w : Float32),
      ∃ r : Float32, angleYZ Conv.f32 c s fr b2 w g = r) :=
  ⟨wavelength_from_tof_dtype, dspacing_from_tof_dtype, wavelength_from_energy_dtype, Q_from_wavelength_dtype,
    wavelength_from_Q_dtype, dspacing_from_wavelength_dtype, dspacing_from_energy_dtype, Q_element_dtype,
    fun e t l1 l2 => ⟨(Props.C05.result_dtype_lengths e t l1 l2).1, (Props.C05.result_dtype_lengths e t l1 l2).2.1⟩,
    fun w => ⟨(Props.C08.q_result_dtype w).1, (Props.C08.q_result_dtype w).2.1⟩,
    propagate_times_dtype,
    fun _ _ _ _ _ => ⟨_, rfl⟩, fun _ _ _ _ _ => ⟨_, rfl⟩, fun _ _ _ _ _ _ _ => ⟨_, rfl⟩, fun _ _ _ _ _ _ => ⟨_, rfl⟩⟩

end dtypes

end ScnVerif.Props.C07
