import ScnVerif.Lemmas.TofPhys
/-!
# C07 — kernels are unit-equivariant and keep the documented dtype contract

Three groups of theorems about the kernels of `Model/TofKernels.lean`:

* **unit equivariance** (carrier `ℝ`): re-expressing every operand in *any* other unit (arbitrary positive
  scales, not only the finite grid of the property) leaves the physical result unchanged, and the result
  comes in the documented unit (ångström / meV / one over the wavelength unit) whatever the input units;
* **dtype contract** (carrier `DTy`, the abstract interpretation of the *same* kernel definitions): for all
  element types of all operands, the result is float32 iff the data operand is float32 and float64 otherwise,
  except for the int32 cases scipp has no `pow` kernel for, where evaluation fails;
* **the executable model obeys the abstract dtype evaluation** (carrier `Val`): for all values, the dtype tag
  of the model's result is what the abstract evaluation predicts.
-/
namespace ScnVerif.Props.C07
open ScnVerif ScnVerif.Tof ScnVerif.TofPhys

/-! ## unit equivariance over ℝ -/

/-- `wavelength_from_tof`: same physical tof and flight path in other units ⇒ same wavelength in ångström -/
theorem wavelength_from_tof_unit_equivariant (h mn sA sL sL' sT sT' t t' L L' : ℝ)
    (hh : 0 < h) (hmn : 0 < mn) (hA : 0 < sA) (hL : 0 < sL) (hL' : 0 < sL') (hT : 0 < sT) (hT' : 0 < sT')
    (ht : 0 < t) (ht' : 0 < t') (hLL : 0 < L) (hLL' : 0 < L')
    (et : t * sT = t' * sT') (eL : L * sL = L' * sL') :
    wavelengthFromTof (cWavelengthFromTof h mn sA sL sT) t L
      = wavelengthFromTof (cWavelengthFromTof h mn sA sL' sT') t' L' := by
  apply mul_right_cancel₀ hA.ne'
  rw [wavelength_from_tof_phys h mn sA sL sT t L hh hmn hA hL hT ht hLL,
    wavelength_from_tof_phys h mn sA sL' sT' t' L' hh hmn hA hL' hT' ht' hLL', et, eL]

/-- non-vacuity: 1234.5678 µs over 23.456 m is 1.2345678 ms over 2345.6 cm -/
example : wavelengthFromTof (cWavelengthFromTof (6.62607015e-34 : ℝ) 1.67492749804e-27 1e-10 1 1e-6) 1234.5678 23.456
    = wavelengthFromTof (cWavelengthFromTof 6.62607015e-34 1.67492749804e-27 1e-10 1e-2 1e-3) 1.2345678 2345.6 := by
  apply wavelength_from_tof_unit_equivariant <;> norm_num

theorem dspacing_from_tof_unit_equivariant (h mn sA sL sL' sT sT' sAng sAng' t t' L L' θ θ' : ℝ)
    (hh : 0 < h) (hmn : 0 < mn) (hA : 0 < sA) (hL : 0 < sL) (hL' : 0 < sL') (hT : 0 < sT) (hT' : 0 < sT')
    (ht : 0 < t) (ht' : 0 < t') (hLL : 0 < L) (hLL' : 0 < L')
    (hs : 0 < Real.sin (θ * sAng / 2))
    (et : t * sT = t' * sT') (eL : L * sL = L' * sL') (eθ : θ * sAng = θ' * sAng') :
    dspacingFromTof (cDspacingFromTof h mn sA sL sT) sAng t L θ
      = dspacingFromTof (cDspacingFromTof h mn sA sL' sT') sAng' t' L' θ' := by
  apply mul_right_cancel₀ hA.ne'
  rw [dspacing_from_tof_phys h mn sA sL sT sAng t L θ hh hmn hA hL hT ht hLL hs,
    dspacing_from_tof_phys h mn sA sL' sT' sAng' t' L' θ' hh hmn hA hL' hT' ht' hLL' (eθ ▸ hs), et, eL, eθ]

theorem energy_from_tof_unit_equivariant (mn sE sL sL' sT sT' t t' L L' : ℝ)
    (hmn : 0 < mn) (hE : 0 < sE) (hL : 0 < sL) (hL' : 0 < sL') (hT : 0 < sT) (hT' : 0 < sT')
    (ht : 0 < t) (ht' : 0 < t') (hLL : 0 < L) (hLL' : 0 < L')
    (et : t * sT = t' * sT') (eL : L * sL = L' * sL') :
    energyFromTof (cEnergy mn sE sL sT) t L = energyFromTof (cEnergy mn sE sL' sT') t' L' := by
  apply mul_right_cancel₀ hE.ne'
  rw [energy_from_tof_phys mn sE sL sT t L hmn hE hL hT ht hLL,
    energy_from_tof_phys mn sE sL' sT' t' L' hmn hE hL' hT' ht' hLL', et, eL]

theorem energy_from_wavelength_unit_equivariant (h mn sE sW sW' w w' : ℝ)
    (hh : 0 < h) (hmn : 0 < mn) (hE : 0 < sE) (hW : 0 < sW) (hW' : 0 < sW') (hw : 0 < w) (hw' : 0 < w')
    (ew : w * sW = w' * sW') :
    energyFromWavelength (cEnergyFromWavelength h mn sE sW w) w
      = energyFromWavelength (cEnergyFromWavelength h mn sE sW' w') w' := by
  apply mul_right_cancel₀ hE.ne'
  rw [energy_from_wavelength_phys h mn sE sW w hh hmn hE hW hw,
    energy_from_wavelength_phys h mn sE sW' w' hh hmn hE hW' hw', ew]

theorem wavelength_from_energy_unit_equivariant (h mn sA sE sE' e e' : ℝ)
    (hh : 0 < h) (hmn : 0 < mn) (hA : 0 < sA) (hE : 0 < sE) (hE' : 0 < sE') (he : 0 < e) (he' : 0 < e')
    (ee : e * sE = e' * sE') :
    wavelengthFromEnergy (cWavelengthFromEnergy h mn sA sE e) e
      = wavelengthFromEnergy (cWavelengthFromEnergy h mn sA sE' e') e' := by
  apply mul_right_cancel₀ hA.ne'
  rw [wavelength_from_energy_phys h mn sA sE e hh hmn hA hE he,
    wavelength_from_energy_phys h mn sA sE' e' hh hmn hA hE' he', ee]

/-- `Q_from_wavelength`: the result carries one over the wavelength unit; as a physical quantity (1/m) it does
not depend on the units of wavelength and angle -/
theorem Q_from_wavelength_unit_equivariant (sAng sAng' sW sW' w w' θ θ' : ℝ)
    (hW : 0 < sW) (hW' : 0 < sW') (hw : 0 < w) (hw' : 0 < w')
    (ew : w * sW = w' * sW') (eθ : θ * sAng = θ' * sAng') :
    qFromWavelength sAng w θ / sW = qFromWavelength sAng' w' θ' / sW' := by
  rw [Q_from_wavelength_phys sAng sW w θ hW hw, Q_from_wavelength_phys sAng' sW' w' θ' hW' hw', ew, eθ]

theorem wavelength_from_Q_unit_equivariant (sAng sAng' sQ sQ' sA q q' θ θ' : ℝ)
    (hQ : 0 < sQ) (hQ' : 0 < sQ') (hA : 0 < sA) (hq : 0 < q) (hq' : 0 < q')
    (eq : q / sQ = q' / sQ') (eθ : θ * sAng = θ' * sAng') :
    wavelengthFromQ sAng sQ sA q θ = wavelengthFromQ sAng' sQ' sA q' θ' := by
  apply mul_right_cancel₀ hA.ne'
  rw [wavelength_from_Q_phys sAng sQ sA q θ hQ hA hq, wavelength_from_Q_phys sAng' sQ' sA q' θ' hQ' hA hq', eq, eθ]

theorem dspacing_from_wavelength_unit_equivariant (sA sW sW' sAng sAng' w w' θ θ' : ℝ)
    (hA : 0 < sA) (hW : 0 < sW) (hW' : 0 < sW') (hs : 0 < Real.sin (θ * sAng / 2))
    (ew : w * sW = w' * sW') (eθ : θ * sAng = θ' * sAng') :
    dspacingFromWavelength (cDspacingFromWavelength sA sW w) sAng w θ
      = dspacingFromWavelength (cDspacingFromWavelength sA sW' w') sAng' w' θ' := by
  apply mul_right_cancel₀ hA.ne'
  rw [dspacing_from_wavelength_phys sA sW sAng w θ hA hW hs,
    dspacing_from_wavelength_phys sA sW' sAng' w' θ' hA hW' (eθ ▸ hs), ew, eθ]

theorem dspacing_from_energy_unit_equivariant (h mn sA sE sE' sAng sAng' e e' θ θ' : ℝ)
    (hh : 0 < h) (hmn : 0 < mn) (hA : 0 < sA) (hE : 0 < sE) (hE' : 0 < sE') (he : 0 < e) (he' : 0 < e')
    (hs : 0 < Real.sin (θ * sAng / 2))
    (ee : e * sE = e' * sE') (eθ : θ * sAng = θ' * sAng') :
    dspacingFromEnergy (cDspacingFromEnergy h mn sA sE e) sAng e θ
      = dspacingFromEnergy (cDspacingFromEnergy h mn sA sE' e') sAng' e' θ' := by
  apply mul_right_cancel₀ hA.ne'
  rw [dspacing_from_energy_phys h mn sA sE sAng e θ hh hmn hA hE he hs,
    dspacing_from_energy_phys h mn sA sE' sAng' e' θ' hh hmn hA hE' he' (eθ ▸ hs), ee, eθ]

/-- `time_at_sample_from_tof`: the result, in the unit of `tof`, is `pulse_time + tof − L2·λ·m_n/h` as a physical
time, whatever the units of tof and L2 (wavelength in ångström, as the code requires) -/
theorem time_at_sample_def (h mn sA sL sT p t L2 w : ℝ)
    (hh : 0 < h) (hmn : 0 < mn) (hA : 0 < sA) (hL : 0 < sL) (hT : 0 < sT) :
    timeAtSampleFromTof (cWavelengthFromTof h mn sA sL sT) p t L2 w * sT
      = p * sT + t * sT - (L2 * sL) * (w * sA) * mn / h := by
  simp only [timeAtSampleFromTof, cWavelengthFromTof, toUnitC, asCommon4_real]
  field_simp

theorem time_at_sample_unit_equivariant (h mn sA sL sL' sT sT' p p' t t' L2 L2' w : ℝ)
    (hh : 0 < h) (hmn : 0 < mn) (hA : 0 < sA) (hL : 0 < sL) (hL' : 0 < sL') (hT : 0 < sT) (hT' : 0 < sT')
    (ep : p * sT = p' * sT') (et : t * sT = t' * sT') (eL : L2 * sL = L2' * sL') :
    timeAtSampleFromTof (cWavelengthFromTof h mn sA sL sT) p t L2 w * sT
      = timeAtSampleFromTof (cWavelengthFromTof h mn sA sL' sT') p' t' L2' w * sT' := by
  rw [time_at_sample_def h mn sA sL sT p t L2 w hh hmn hA hL hT,
    time_at_sample_def h mn sA sL' sT' p' t' L2' w hh hmn hA hL' hT', ep, et, eL]

/-- one component of `Q_elements_from_wavelength`: `2π/λ · e` as a physical quantity, any wavelength unit -/
theorem Q_element_unit_equivariant (sW sW' w w' e : ℝ) (hW : 0 < sW) (hW' : 0 < sW') (hw : 0 < w) (hw' : 0 < w')
    (ew : w * sW = w' * sW') :
    qElement w e / sW = qElement w' e / sW' := by
  have h1 : ∀ (w sW : ℝ), 0 < w → 0 < sW → qElement w e / sW = 2 * Real.pi * e / (w * sW) := by
    intro w sW hw hW
    simp only [qElement, i64_real, trans_pi_real, asFloatLike_real]; push_cast; field_simp
  rw [h1 w sW hw hW, h1 w' sW' hw' hW', ew]

/-! ## the dtype contract, decided over all element types

Constants and unit scales are float64 scalars in the code.  `DTy.floatDType d` is float32 for float32 and
float64 for float64 / int64 / int32. -/

open DTy in
theorem wavelength_from_tof_dtype (dt dL : DTy) (h1 : dt ≠ err) (h2 : dL ≠ err) :
    wavelengthFromTof (cWavelengthFromTof f64 f64 f64 f64 f64) dt dL = floatDType dt := by
  cases dt <;> cases dL <;> first | rfl | contradiction

open DTy in
theorem dspacing_from_tof_dtype (dt dL dθ : DTy) (h1 : dt ≠ err) (h2 : dL ≠ err) (h3 : dθ ≠ err) :
    dspacingFromTof (cDspacingFromTof f64 f64 f64 f64 f64) f64 dt dL dθ = floatDType dt := by
  cases dt <;> cases dL <;> cases dθ <;> first | rfl | contradiction

open DTy in
/-- `energy_from_tof`: the flight path is promoted to float64 and the time to its floating type before they are
squared, so every dtype can be evaluated and the precision follows tof -/
theorem energy_from_tof_dtype (dt dL : DTy) (h1 : dt ≠ err) (h2 : dL ≠ err) :
    energyFromTof (cEnergy f64 f64 f64 f64) dt dL = floatDType dt := by
  cases dt <;> cases dL <;> first | rfl | contradiction

open DTy in
theorem energy_from_wavelength_dtype (dw : DTy) (h1 : dw ≠ err) :
    energyFromWavelength (cEnergyFromWavelength f64 f64 f64 f64 dw) dw = if dw = i32 then err else floatDType dw := by
  cases dw <;> first | rfl | contradiction

open DTy in
theorem wavelength_from_energy_dtype (de : DTy) (h1 : de ≠ err) :
    wavelengthFromEnergy (cWavelengthFromEnergy f64 f64 f64 f64 de) de = floatDType de := by
  cases de <;> first | rfl | contradiction

open DTy in
theorem Q_from_wavelength_dtype (dw dθ : DTy) (h1 : dw ≠ err) (h2 : dθ ≠ err) :
    qFromWavelength f64 dw dθ = floatDType dw := by
  cases dw <;> cases dθ <;> first | rfl | contradiction

open DTy in
theorem wavelength_from_Q_dtype (dq dθ : DTy) (h1 : dq ≠ err) (h2 : dθ ≠ err) :
    wavelengthFromQ f64 f64 f64 dq dθ = floatDType dq := by
  cases dq <;> cases dθ <;> first | rfl | contradiction

open DTy in
theorem dspacing_from_wavelength_dtype (dw dθ : DTy) (h1 : dw ≠ err) (h2 : dθ ≠ err) :
    dspacingFromWavelength (cDspacingFromWavelength f64 f64 dw) f64 dw dθ = floatDType dw := by
  cases dw <;> cases dθ <;> first | rfl | contradiction

open DTy in
theorem dspacing_from_energy_dtype (de dθ : DTy) (h1 : de ≠ err) (h2 : dθ ≠ err) :
    dspacingFromEnergy (cDspacingFromEnergy f64 f64 f64 f64 de) f64 de dθ = floatDType de := by
  cases de <;> cases dθ <;> first | rfl | contradiction

open DTy in
/-- `Q_elements_from_wavelength`: single precision iff the wavelength is float32 -/
theorem Q_element_dtype (dw : DTy) (h1 : dw ≠ err) : qElement dw f64 = floatDType dw := by
  cases dw <;> first | rfl | contradiction

open DTy in
/-- `time_at_sample_from_tof`: float32 iff all four operands are float32, else float64 — decided over all
4^4 combinations of element types -/
theorem time_at_sample_dtype (dp dt dL dw : DTy) (h1 : dp ≠ err) (h2 : dt ≠ err) (h3 : dL ≠ err) (h4 : dw ≠ err) :
    timeAtSampleFromTof (cWavelengthFromTof f64 f64 f64 f64 f64) dp dt dL dw
      = if dp = f32 ∧ dt = f32 ∧ dL = f32 ∧ dw = f32 then f32 else f64 := by
  cases dp <;> cases dt <;> cases dL <;> cases dw <;> first | rfl | contradiction

/-! ## the executable model's dtype tags follow the abstract evaluation (all values) -/

theorem dty_bin (d : DTy) (f g i) (a b : Val) : (Val.bin d f g i a b).dty = d := by
  cases d <;> rfl

theorem dty_un (t : DTy) (f g) (a : Val) : (Val.un (DTy.floatOnly t) f g a).dty = DTy.floatOnly t := by
  cases t <;> rfl

theorem dty_mul (a b : Val) : (a * b).dty = a.dty * b.dty := dty_bin _ _ _ _ a b
theorem dty_div (a b : Val) : (a / b).dty = a.dty / b.dty := dty_bin _ _ _ _ a b
theorem dty_add (a b : Val) : (a + b).dty = a.dty + b.dty := dty_bin _ _ _ _ a b
theorem dty_sub (a b : Val) : (a - b).dty = a.dty - b.dty := dty_bin _ _ _ _ a b
theorem dty_sin (a : Val) : (Trans.sin a).dty = Trans.sin a.dty := dty_un _ _ _ a
theorem dty_sqrt (a : Val) : (Trans.sqrt a).dty = Trans.sqrt a.dty := dty_un _ _ _ a
theorem dty_sq (a : Val) : (sq a).dty = sq a.dty := dty_bin _ _ _ _ a a
theorem dty_sqSame (a : Val) : (sqSame a).dty = sqSame a.dty := dty_bin _ _ _ _ a a
theorem dty_i64 (n : Nat) : (i64 n : Val).dty = (i64 n : DTy) := rfl
theorem dty_half : (half : Val).dty = (half : DTy) := rfl
theorem dty_pi : (Trans.pi : Val).dty = (Trans.pi : DTy) := rfl

theorem dty_asCommon4 (x a b c d : Val) :
    (asCommon4 x a b c d).dty = asCommon4 x.dty a.dty b.dty c.dty d.dty := by
  show (Val.cast (DTy.asCommon4 x.dty a.dty b.dty c.dty d.dty) x).dty = DTy.asCommon4 x.dty a.dty b.dty c.dty d.dty
  generalize a.dty = ta; generalize b.dty = tb; generalize c.dty = tc; generalize d.dty = td
  by_cases h : ta = DTy.f32 ∧ tb = DTy.f32 ∧ tc = DTy.f32 ∧ td = DTy.f32
  · cases x <;> simp [DTy.asCommon4, h, Val.dty, Val.cast]
  · cases x <;> simp [DTy.asCommon4, h, Val.dty, Val.cast]

theorem dty_asFloatLike (a r : Val) : (asFloatLike a r).dty = asFloatLike a.dty r.dty := by
  show (Val.cast (DTy.asFloatLike a.dty r.dty) a).dty = DTy.asFloatLike a.dty r.dty
  cases a <;> cases r <;> rfl

/-- for all values: the dtype tag of every modelled kernel's result is the abstract evaluation of the same
kernel on the operands' dtypes -/
theorem model_dtype_is_abstract_wavelength_from_tof (c t L : Val) :
    (wavelengthFromTof c t L).dty = wavelengthFromTof c.dty t.dty L.dty := by
  simp only [wavelengthFromTof, dty_mul, dty_div, dty_asFloatLike]

theorem model_dtype_is_abstract_dspacing_from_tof (c s t L θ : Val) :
    (dspacingFromTof c s t L θ).dty = dspacingFromTof c.dty s.dty t.dty L.dty θ.dty := by
  simp only [dspacingFromTof, sinU, dty_mul, dty_div, dty_asFloatLike, dty_sin, dty_i64]

theorem model_dtype_is_abstract_energy_from_tof (c t L : Val) :
    (energyFromTof c t L).dty = energyFromTof c.dty t.dty L.dty := by
  simp only [energyFromTof, dty_mul, dty_div, dty_asFloatLike, dty_sq, dty_sqSame]

theorem model_dtype_is_abstract_energy_from_wavelength (c w : Val) :
    (energyFromWavelength c w).dty = energyFromWavelength c.dty w.dty := by
  simp only [energyFromWavelength, dty_div, dty_sq]

theorem model_dtype_is_abstract_wavelength_from_energy (c e : Val) :
    (wavelengthFromEnergy c e).dty = wavelengthFromEnergy c.dty e.dty := by
  simp only [wavelengthFromEnergy, dty_div, dty_sqrt]

theorem model_dtype_is_abstract_wavelengthQ (s x θ : Val) :
    (wavelengthQ s x θ).dty = wavelengthQ s.dty x.dty θ.dty := by
  simp only [wavelengthQ, sinU, dty_mul, dty_div, dty_asFloatLike, dty_sin, dty_i64, dty_pi]

theorem model_dtype_is_abstract_wavelength_from_Q (s sQ sA q θ : Val) :
    (wavelengthFromQ s sQ sA q θ).dty = wavelengthFromQ s.dty sQ.dty sA.dty q.dty θ.dty := by
  simp only [wavelengthFromQ, dty_mul, dty_div, dty_asFloatLike, model_dtype_is_abstract_wavelengthQ]

theorem model_dtype_is_abstract_dspacing_from_wavelength (c s w θ : Val) :
    (dspacingFromWavelength c s w θ).dty = dspacingFromWavelength c.dty s.dty w.dty θ.dty := by
  simp only [dspacingFromWavelength, sinU, dty_mul, dty_div, dty_asFloatLike, dty_sin, dty_i64]

theorem model_dtype_is_abstract_dspacing_from_energy (c s e θ : Val) :
    (dspacingFromEnergy c s e θ).dty = dspacingFromEnergy c.dty s.dty e.dty θ.dty := by
  simp only [dspacingFromEnergy, sinU, dty_mul, dty_div, dty_asFloatLike, dty_sin, dty_sqrt, dty_i64]

theorem model_dtype_is_abstract_constants (h mn sA sL sT sE : Val) :
    (cWavelengthFromTof h mn sA sL sT).dty = cWavelengthFromTof h.dty mn.dty sA.dty sL.dty sT.dty ∧
    (cDspacingFromTof h mn sA sL sT).dty = cDspacingFromTof h.dty mn.dty sA.dty sL.dty sT.dty ∧
    (cEnergy mn sE sL sT).dty = cEnergy mn.dty sE.dty sL.dty sT.dty := by
  simp only [cWavelengthFromTof, cDspacingFromTof, cEnergy, toUnitC, dty_mul, dty_div, dty_sq, dty_i64, and_self]

theorem model_dtype_is_abstract_time_at_sample (c p t L w : Val) :
    (timeAtSampleFromTof c p t L w).dty = timeAtSampleFromTof c.dty p.dty t.dty L.dty w.dty := by
  simp only [timeAtSampleFromTof, dty_add, dty_sub, dty_mul, dty_div, dty_asCommon4]

theorem model_dtype_is_abstract_Q_element (w e : Val) : (qElement w e).dty = qElement w.dty e.dty := by
  simp only [qElement, dty_mul, dty_div, dty_i64, dty_pi, dty_asFloatLike]

end ScnVerif.Props.C07
