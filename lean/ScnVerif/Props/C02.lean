import ScnVerif.Model.Convert
import ScnVerif.Gen.Graphs
import ScnVerif.Lemmas.ConvertValue
/-!
# C02 — `convert()` succeeds iff the target is derivable, never uses the wrong mode, and the
reported graph is the one that is used

General theorems (`resolve_sound`, `resolve_complete`, `resolve_no_fuel_error`, `nodes_spec`,
`fetched_present`, `eval_sound`, `unique_of_outsNodup`) hold for ANY graph; table facts
(`graphs_ranked`, `graphs_mode_facts`, `graphs_multi_outs`, `graphs_small`, `factories_agree`,
`factories_consistent`, `wiring_as_documented`) are re-checked by
`decide +kernel` against `Gen/Graphs.lean`, which the translator regenerates from the source on
every run. The property theorems (`convert_ok_iff`, `convert_error_runtime`,
`supplied_takes_precedence`, `never_wrong_mode`, `deduce_eq_used`, `convertLiteral_eq_convert_partial`,
`convert_value`) quantify over EVERY presence
predicate `P : Name → Bool` (so over all 2^11 subsets and beyond), every target name, both scatter
flags and every supported origin.
-/
namespace ScnVerif.Props.C02
open ScnVerif ScnVerif.Convert

inductive Derivable (g : Graph) (P : Name → Bool) : Name → Prop
  | present {n : Name} : P n = true → Derivable g P n
  | rule {n : Name} (r : Rule) : r ∈ g → n ∈ r.outs → (∀ i ∈ r.ins, Derivable g P i) → Derivable g P n

def UniqueOuts (g : Graph) : Prop :=
  ∀ r ∈ g, ∀ r' ∈ g, ∀ n, n ∈ r.outs → n ∈ r'.outs → r = r'

def Ranked (rk : Name → Nat) (g : Graph) : Prop :=
  ∀ r ∈ g, ∀ o ∈ r.outs, ∀ i ∈ r.ins, rk i < rk o

theorem findRule_some {g : Graph} {n : Name} {r : Rule} (h : findRule g n = some r) :
    r ∈ g ∧ n ∈ r.outs := by
  unfold findRule at h
  have h1 := List.mem_of_find?_eq_some h
  have h2 := List.find?_some h
  exact ⟨h1, by simpa using h2⟩

theorem findRule_of_unique {g : Graph} (hu : UniqueOuts g) {n : Name} {r : Rule}
    (hr : r ∈ g) (hn : n ∈ r.outs) : findRule g n = some r := by
  cases h : findRule g n with
  | none =>
    unfold findRule at h
    have := List.find?_eq_none.mp h r hr
    simp [hn] at this
  | some r' =>
    have ⟨h1, h2⟩ := findRule_some h
    rw [hu r' h1 r hr n h2 hn]

/-- pointwise relation of two lists -/
inductive All2 {α β : Type} (R : α → β → Prop) : List α → List β → Prop
  | nil : All2 R [] []
  | cons {a b as bs} : R a b → All2 R as bs → All2 R (a :: as) (b :: bs)

theorem All2.of_mem_left {α β : Type} {R : α → β → Prop} :
    ∀ {l : List α} {bs : List β}, All2 R l bs → ∀ {a}, a ∈ l → ∃ b ∈ bs, R a b
  | _, _, .cons h t, a, ha => by
    rcases List.mem_cons.mp ha with rfl | ha'
    · exact ⟨_, by simp, h⟩
    · obtain ⟨b, hb, hr⟩ := t.of_mem_left ha'
      exact ⟨b, List.mem_cons_of_mem _ hb, hr⟩

theorem All2.of_mem_right {α β : Type} {R : α → β → Prop} :
    ∀ {l : List α} {bs : List β}, All2 R l bs → ∀ {b}, b ∈ bs → ∃ a ∈ l, R a b
  | _, _, .cons h t, b, hb => by
    rcases List.mem_cons.mp hb with rfl | hb'
    · exact ⟨_, by simp, h⟩
    · obtain ⟨a, ha, hr⟩ := t.of_mem_right hb'
      exact ⟨a, List.mem_cons_of_mem _ ha, hr⟩

theorem mapERev_ok {α β ε : Type} {f : α → Except ε β} :
    ∀ {l : List α} {bs : List β}, mapERev f l = .ok bs → All2 (fun a b => f a = .ok b) l bs
  | [], bs, h => by simp [mapERev] at h; subst h; exact .nil
  | a :: as, bs, h => by
    unfold mapERev at h
    cases h1 : mapERev f as with
    | error e => simp [h1] at h
    | ok bs' =>
      cases h2 : f a with
      | error e => simp [h1, h2] at h
      | ok b =>
        simp [h1, h2] at h
        subst h
        exact .cons h2 (mapERev_ok h1)

theorem mapERev_error {α β ε : Type} {f : α → Except ε β} :
    ∀ {l : List α} {e : ε}, mapERev f l = .error e → ∃ a ∈ l, f a = .error e
  | [], e, h => by simp [mapERev] at h
  | a :: as, e, h => by
    unfold mapERev at h
    cases h1 : mapERev f as with
    | error e' =>
      simp [h1] at h
      subst h
      obtain ⟨x, hx, hf⟩ := mapERev_error h1
      exact ⟨x, List.mem_cons_of_mem _ hx, hf⟩
    | ok bs' =>
      cases h2 : f a with
      | error e' =>
        simp [h1, h2] at h
        subst h
        exact ⟨a, by simp, h2⟩
      | ok b => simp [h1, h2] at h

theorem mapERev_of_all_ok {α β ε : Type} {f : α → Except ε β} :
    ∀ {l : List α}, (∀ a ∈ l, ∃ b, f a = .ok b) → ∃ bs, mapERev f l = .ok bs
  | [], _ => ⟨[], rfl⟩
  | a :: as, h => by
    obtain ⟨bs, hbs⟩ := mapERev_of_all_ok (l := as) (fun x hx => h x (List.mem_cons_of_mem _ hx))
    obtain ⟨b, hb⟩ := h a (by simp)
    exact ⟨b :: bs, by simp [mapERev, hbs, hb]⟩

/-- shape of a successful resolution -/
theorem resolve_ok_cases {g : Graph} {P : Name → Bool} {f : Nat} {n : Name} {t : Term}
    (h : resolve g P (f + 1) n = .ok t) :
    (P n = true ∧ t = .fetch n) ∨
    (P n = false ∧ ∃ r args, findRule g n = some r ∧ mapERev (resolve g P f) r.ins = .ok args ∧
      t = .apply r.kernel n args) := by
  unfold resolve at h
  by_cases hp : P n = true
  · simp [hp] at h; exact .inl ⟨hp, h.symm⟩
  · have hp' : P n = false := by simpa using hp
    simp only [hp'] at h
    cases hr : findRule g n with
    | none => simp [hr] at h
    | some r =>
      simp only [hr] at h
      cases hm : mapERev (resolve g P f) r.ins with
      | error e => simp [hm] at h
      | ok args =>
        simp [hm] at h
        exact .inr ⟨hp', r, args, rfl, hm, h.symm⟩

theorem resolve_sound {g : Graph} {P : Name → Bool} :
    ∀ {f : Nat} {n : Name} {t : Term}, resolve g P f n = .ok t → Derivable g P n
  | 0, n, t, h => by simp [resolve] at h
  | f + 1, n, t, h => by
    rcases resolve_ok_cases h with ⟨hp, _⟩ | ⟨_, r, args, hr, hm, _⟩
    · exact .present hp
    · have ⟨h1, h2⟩ := findRule_some hr
      refine .rule r h1 h2 ?_
      intro i hi
      have hall := mapERev_ok hm
      obtain ⟨b, _, hb⟩ := hall.of_mem_left hi
      exact resolve_sound hb


theorem resolve_complete {g : Graph} {P : Name → Bool} {rk : Name → Nat}
    (hu : UniqueOuts g) (hr : Ranked rk g) :
    ∀ (f : Nat) (n : Name), rk n < f → Derivable g P n → ∃ t, resolve g P f n = .ok t
  | 0, n, hf, _ => by omega
  | f + 1, n, hf, hd => by
    by_cases hp : P n = true
    · exact ⟨.fetch n, by simp [resolve, hp]⟩
    · cases hd with
      | present h => exact absurd h hp
      | rule r hrg hno hins =>
        have hfr := findRule_of_unique hu hrg hno
        have hall : ∀ i ∈ r.ins, ∃ b, resolve g P f i = .ok b := by
          intro i hi
          have := hr r hrg n hno i hi
          exact resolve_complete hu hr f i (by omega) (hins i hi)
        obtain ⟨args, hargs⟩ := mapERev_of_all_ok hall
        exact ⟨.apply r.kernel n args, by simp [resolve, hp, hfr, hargs]⟩

/-- in a ranked graph the recursion never runs out of fuel -/
theorem resolve_no_fuel_error {g : Graph} {P : Name → Bool} {rk : Name → Nat} (hr : Ranked rk g) :
    ∀ (f : Nat) (n : Name), rk n < f → resolve g P f n ≠ .error .fuel
  | 0, n, hf => by omega
  | f + 1, n, hf => by
    unfold resolve
    by_cases hp : P n = true
    · simp [hp]
    · have hp' : P n = false := by simpa using hp
      simp only [hp']
      cases hfr : findRule g n with
      | none => simp
      | some r =>
        have ⟨h1, h2⟩ := findRule_some hfr
        cases hm : mapERev (resolve g P f) r.ins with
        | ok args => simp [hm]
        | error e =>
          simp only [hm, Bool.false_eq_true, if_false]
          intro he
          injection he with he
          subst he
          obtain ⟨i, hi, hie⟩ := mapERev_error hm
          have := hr r h1 n h2 i hi
          exact resolve_no_fuel_error hr f i (by omega) hie


theorem mem_nodesL {x : Kernel × Name} : ∀ {ts : List Term}, x ∈ Term.nodesL ts ↔ ∃ t ∈ ts, x ∈ t.nodes
  | [] => by simp [Term.nodesL]
  | t :: ts => by
    simp only [Term.nodesL, List.mem_append, List.mem_cons, mem_nodesL (ts := ts)]
    constructor
    · rintro (h | ⟨t', ht', h⟩)
      · exact ⟨t, .inl rfl, h⟩
      · exact ⟨t', .inr ht', h⟩
    · rintro ⟨t', rfl | ht', h⟩
      · exact .inl h
      · exact .inr ⟨t', ht', h⟩

theorem mem_fetchedL {x : Name} : ∀ {ts : List Term}, x ∈ Term.fetchedL ts ↔ ∃ t ∈ ts, x ∈ t.fetched
  | [] => by simp [Term.fetchedL]
  | t :: ts => by
    simp only [Term.fetchedL, List.mem_append, List.mem_cons, mem_fetchedL (ts := ts)]
    constructor
    · rintro (h | ⟨t', ht', h⟩)
      · exact ⟨t, .inl rfl, h⟩
      · exact ⟨t', .inr ht', h⟩
    · rintro ⟨t', rfl | ht', h⟩
      · exact .inl h
      · exact .inr ⟨t', ht', h⟩

/-- every application node of a derivation applies a rule of the graph to produce a coordinate that
was NOT supplied, and that coordinate is the target or an input of a rule of the graph -/
theorem nodes_spec {g : Graph} {P : Name → Bool} :
    ∀ {f : Nat} {n : Name} {t : Term}, resolve g P f n = .ok t →
      ∀ k o, (k, o) ∈ t.nodes →
        (∃ r ∈ g, r.kernel = k ∧ o ∈ r.outs) ∧ P o = false ∧ (o = n ∨ ∃ r ∈ g, o ∈ r.ins)
  | 0, n, t, h => by simp [resolve] at h
  | f + 1, n, t, h => by
    intro k o hko
    rcases resolve_ok_cases h with ⟨_, rfl⟩ | ⟨hp, r, args, hr, hm, rfl⟩
    · simp [Term.nodes] at hko
    · have ⟨h1, h2⟩ := findRule_some hr
      simp only [Term.nodes, List.mem_cons] at hko
      rcases hko with heq | hin
      · injection heq with hk ho
        subst hk; subst ho
        exact ⟨⟨r, h1, rfl, h2⟩, hp, .inl rfl⟩
      · obtain ⟨t', ht', hx⟩ := mem_nodesL.mp hin
        obtain ⟨i, hi, hri⟩ := (mapERev_ok hm).of_mem_right ht'
        obtain ⟨a, b, c⟩ := nodes_spec hri k o hx
        refine ⟨a, b, .inr ?_⟩
        rcases c with rfl | c
        · exact ⟨r, h1, hi⟩
        · exact c

/-- every name a derivation fetches is present on the input -/
theorem fetched_present {g : Graph} {P : Name → Bool} :
    ∀ {f : Nat} {n : Name} {t : Term}, resolve g P f n = .ok t → ∀ m ∈ t.fetched, P m = true
  | 0, n, t, h => by simp [resolve] at h
  | f + 1, n, t, h => by
    intro m hm
    rcases resolve_ok_cases h with ⟨hp, rfl⟩ | ⟨_, r, args, _, hmap, rfl⟩
    · simp [Term.fetched] at hm; subst hm; exact hp
    · simp only [Term.fetched] at hm
      obtain ⟨t', ht', hx⟩ := mem_fetchedL.mp hm
      obtain ⟨i, _, hri⟩ := (mapERev_ok hmap).of_mem_right ht'
      exact fetched_present hri m hx

theorem evalL_eq {V : Type} (sem : Kernel → Name → List V → V) (env : Name → V) (val : Name → V) :
    ∀ {ins : List Name} {args : List Term},
      All2 (fun i t => t.eval sem env = val i) ins args → Term.evalL sem env args = ins.map val
  | _, _, .nil => by simp [Term.evalL]
  | _, _, .cons h t => by simp [Term.evalL, h, evalL_eq sem env val t]

theorem All2.imp {α β : Type} {R S : α → β → Prop} (h : ∀ a b, R a b → S a b) :
    ∀ {l : List α} {bs : List β}, All2 R l bs → All2 S l bs
  | _, _, .nil => .nil
  | _, _, .cons x t => .cons (h _ _ x) (t.imp h)

/-- generic value theorem: if the supplied coordinates have their true values and every kernel of the graph
computes the true value of its outputs from the true values of its inputs, the derivation evaluates to
the true value of the target -/
theorem eval_sound {V : Type} (sem : Kernel → Name → List V → V) (env truth : Name → V)
    {g : Graph} {P : Name → Bool}
    (henv : ∀ n, P n = true → env n = truth n)
    (hsem : ∀ r ∈ g, ∀ o ∈ r.outs, sem r.kernel o (r.ins.map truth) = truth o) :
    ∀ {f : Nat} {n : Name} {t : Term}, resolve g P f n = .ok t → t.eval sem env = truth n
  | 0, n, t, h => by simp [resolve] at h
  | f + 1, n, t, h => by
    rcases resolve_ok_cases h with ⟨hp, rfl⟩ | ⟨_, r, args, hr, hm, rfl⟩
    · simp [Term.eval, henv n hp]
    · have ⟨h1, h2⟩ := findRule_some hr
      have hall := (mapERev_ok hm).imp (S := fun i t => t.eval sem env = truth i)
        (fun i t hit => eval_sound sem env truth henv hsem hit)
      simp only [Term.eval, evalL_eq sem env truth hall]
      exact hsem r h1 n h2


/-! ## Table facts (re-checked against the regenerated tables) -/

abbrev T : Tables := Gen.Graphs.tables
/-- the supported origins: keys of `_GRAPH_DYNAMICS_BY_ORIGIN` -/
def origins : List Name := T.dynamics.map Prod.fst
def modes : List Mode := [.elastic, .direct, .indirect]

def rankOf (tbl : List Nat) (n : Name) : Nat := tbl.getD n 0

def rankedB (tbl : List Nat) (g : Graph) : Bool :=
  g.all fun r => r.outs.all fun o => r.ins.all fun i => rankOf tbl i < rankOf tbl o

def uniqueB (g : Graph) : Bool :=
  g.all fun r => g.all fun r' => r.outs.all fun n => !r'.outs.contains n || decide (r = r')

theorem ranked_of_rankedB {tbl : List Nat} {g : Graph} (h : rankedB tbl g = true) :
    Ranked (rankOf tbl) g := by
  intro r hr o ho i hi
  simp only [rankedB, List.all_eq_true, decide_eq_true_eq] at h
  exact h r hr o ho i hi

theorem unique_of_uniqueB {g : Graph} (h : uniqueB g = true) : UniqueOuts g := by
  intro r hr r' hr' n hn hn'
  simp only [uniqueB, List.all_eq_true, Bool.or_eq_true, Bool.not_eq_true', decide_eq_true_eq] at h
  rcases h r hr r' hr' n hn with h1 | h1
  · simp [hn'] at h1
  · exact h1

theorem rankOf_lt {tbl : List Nat} {F : Nat} (h : tbl.all (· < F) = true) (hF : 0 < F) (n : Name) :
    rankOf tbl n < F := by
  unfold rankOf
  simp only [List.all_eq_true, decide_eq_true_eq] at h
  rw [List.getD_eq_getElem?_getD]
  cases hn : tbl[n]? with
  | none => simpa using hF
  | some v => exact h v (List.mem_of_getElem? hn)

def rankTbl (o : Name) (s : Bool) : Option (List Nat) :=
  (Gen.Graphs.ranks.find? (fun x => x.1 = o ∧ x.2.1 = s)).map (·.2.2)

def goodGraph (tbl : List Nat) (g : Graph) : Bool :=
  outsNodup g && uniqueB g && rankedB tbl g && tbl.all (· < fuelFor g)

def cfgGood (o : Name) (reach s : Bool) (m : Mode) : Bool :=
  match conversionGraphB T o reach s m, rankTbl o s with
  | .ok g, some tbl => goodGraph tbl g
  | _, _ => false

/-- every conversion graph that `conversion_graph` can assemble for a supported origin exists, has
pairwise distinct output names and respects the generated rank certificate (so it is acyclic), and
the fuel of the model exceeds every rank -/
theorem graphs_ranked :
    (origins.all fun o => [true, false].all fun reach => [true, false].all fun s =>
      modes.all fun m => cfgGood o reach s m) = true := by
  decide +kernel

theorem cfgGood_of_origin {o : Name} (ho : o ∈ origins) (reach s : Bool) (m : Mode) :
    cfgGood o reach s m = true := by
  have h := graphs_ranked
  simp only [List.all_eq_true] at h
  exact h o ho reach (by cases reach <;> simp) s (by cases s <;> simp) m (by cases m <;> simp [modes])

theorem good_graph {o : Name} (ho : o ∈ origins) (reach s : Bool) (m : Mode) :
    ∃ g tbl, conversionGraphB T o reach s m = .ok g ∧ outsNodup g = true ∧ UniqueOuts g ∧
      Ranked (rankOf tbl) g ∧ ∀ n, rankOf tbl n < fuelFor g := by
  have h := cfgGood_of_origin ho reach s m
  unfold cfgGood at h
  split at h
  · rename_i g tbl hg _
    simp only [goodGraph, Bool.and_eq_true] at h
    obtain ⟨⟨⟨h1, h2⟩, h3⟩, h4⟩ := h
    exact ⟨g, tbl, hg, h1, unique_of_uniqueB h2, ranked_of_rankedB h3,
      rankOf_lt h4 (by simp [fuelFor])⟩
  · simp at h


/-! ## `convert` -/

theorem fii_eq (P : Name → Bool) :
    findInelasticInputs P =
      (if P nIncidentEnergy then [nIncidentEnergy] else []) ++ (if P nFinalEnergy then [nFinalEnergy] else []) := by
  cases hi : P nIncidentEnergy <;> cases hf : P nFinalEnergy <;>
    simp [findInelasticInputs, List.filter, hi, hf]

theorem deduceEnergyMode_error {P : Name → Bool} {o t : Name} {e : Err}
    (h : deduceEnergyMode P o t = .error e) : e = .runtime := by
  unfold deduceEnergyMode at h
  rw [fii_eq] at h
  cases hi : P nIncidentEnergy <;> cases hf : P nFinalEnergy <;>
    by_cases ht : t = nEnergyTransfer <;>
    by_cases hoe : (o = nEnergy ∨ t = nEnergy) <;>
    simp [hi, hf, ht, hoe, (by decide : nFinalEnergy ≠ nIncidentEnergy)] at h <;> exact h.symm

/-- what the deduced mode says about the data -/
theorem deduceEnergyMode_spec {P : Name → Bool} {o t : Name} {m : Mode}
    (h : deduceEnergyMode P o t = .ok m) :
    (m = .direct → t = nEnergyTransfer ∧ P nIncidentEnergy = true ∧ P nFinalEnergy = false) ∧
    (m = .indirect → t = nEnergyTransfer ∧ P nFinalEnergy = true ∧ P nIncidentEnergy = false) ∧
    (m = .elastic → t ≠ nEnergyTransfer ∧
      ((o = nEnergy ∨ t = nEnergy) → P nIncidentEnergy = false ∧ P nFinalEnergy = false)) := by
  unfold deduceEnergyMode at h
  rw [fii_eq] at h
  cases hi : P nIncidentEnergy <;> cases hf : P nFinalEnergy <;>
    by_cases ht : t = nEnergyTransfer <;>
    by_cases hoe : (o = nEnergy ∨ t = nEnergy) <;>
    simp [hi, hf, ht, hoe, (by decide : nFinalEnergy ≠ nIncidentEnergy)] at h <;> subst h <;> simp [ht, hoe]


/-- unfolding of `convert` for a supported origin: the graph exists and is well formed, and the
result is that of the resolution in it -/
theorem convert_unfold (P : Name → Bool) {o : Name} (ho : o ∈ origins) (t : Name) (s : Bool) {m : Mode}
    (hm : deduceEnergyMode P o t = .ok m) :
    ∃ g tbl, conversionGraph T o t s m = .ok g ∧ deduceConversionGraph T P o t s = .ok g ∧
      UniqueOuts g ∧ Ranked (rankOf tbl) g ∧ (∀ n, rankOf tbl n < fuelFor g) ∧
      convert T P o t s =
        (match resolve g P (fuelFor g) t with
         | .ok d => .ok d
         | .error (.missing _) => .error .runtime
         | .error .fuel => .error .value) := by
  obtain ⟨g, tbl, hg, hnd, hu, hr, hf⟩ := good_graph ho (reachableBy t (beamline T true)) s m
  refine ⟨g, tbl, hg, ?_, hu, hr, hf, ?_⟩
  · simp [deduceConversionGraph, hm, conversionGraph, hg]
  · simp only [convert, deduceConversionGraph, hm, conversionGraph, hg, hnd]
    cases resolve g P (fuelFor g) t with
    | ok d => rfl
    | error e => cases e <;> rfl

/-- **convert succeeds iff the mode is unambiguous and the target is derivable** — for every
supported origin, every target, both scatter flags and EVERY set `P` of present coordinates. -/
theorem convert_ok_iff (P : Name → Bool) {o : Name} (ho : o ∈ origins) (t : Name) (s : Bool) :
    (∃ d, convert T P o t s = .ok d) ↔
      ∃ m g, deduceEnergyMode P o t = .ok m ∧ conversionGraph T o t s m = .ok g ∧ Derivable g P t := by
  cases hm : deduceEnergyMode P o t with
  | error e => simp [convert, deduceConversionGraph, hm]
  | ok m =>
    obtain ⟨g, tbl, hg, _, hu, hr, hf, hc⟩ := convert_unfold P ho t s hm
    rw [hc]
    constructor
    · rintro ⟨d, hd⟩
      cases hres : resolve g P (fuelFor g) t with
      | ok d' => exact ⟨m, g, rfl, hg, resolve_sound hres⟩
      | error e => cases e <;> simp [hres] at hd
    · rintro ⟨m', g', hm', hg', hder⟩
      injection hm' with hm'
      subst hm'
      rw [hg] at hg'
      injection hg' with hg'
      subst hg'
      obtain ⟨d, hd⟩ := resolve_complete hu hr (fuelFor g) t (hf t) hder
      exact ⟨d, by simp [hd]⟩

/-- … and otherwise it raises `RuntimeError` (never another exception) -/
theorem convert_error_runtime (P : Name → Bool) {o : Name} (ho : o ∈ origins) (t : Name) (s : Bool)
    {e : Err} (h : convert T P o t s = .error e) : e = .runtime := by
  cases hm : deduceEnergyMode P o t with
  | error e' =>
    have := deduceEnergyMode_error hm
    subst this
    simp [convert, deduceConversionGraph, hm] at h
    exact h.symm
  | ok m =>
    obtain ⟨g, tbl, _, _, _, hr, hf, hc⟩ := convert_unfold P ho t s hm
    rw [hc] at h
    cases hres : resolve g P (fuelFor g) t with
    | ok d => simp [hres] at h
    | error re =>
      cases re with
      | missing n => simp [hres] at h; exact h.symm
      | fuel => exact absurd hres (resolve_no_fuel_error hr _ _ (hf t))

/-- the graph reported by `deduce_conversion_graph` is the graph `convert` resolves the target in -/
theorem deduce_eq_used (P : Name → Bool) (o t : Name) (s : Bool) {d : Term}
    (h : convert T P o t s = .ok d) :
    ∃ g, deduceConversionGraph T P o t s = .ok g ∧ resolve g P (fuelFor g) t = .ok d := by
  unfold convert at h
  cases hg : deduceConversionGraph T P o t s with
  | error e => simp [hg] at h
  | ok g =>
    refine ⟨g, rfl, ?_⟩
    simp only [hg] at h
    split at h
    · simp at h
    · split at h <;> simp_all

/-- a supplied coordinate takes precedence: the target itself, if supplied, is returned as supplied … -/
theorem supplied_target_is_fetched (P : Name → Bool) {o : Name} (ho : o ∈ origins) (t : Name) (s : Bool)
    {m : Mode} (hm : deduceEnergyMode P o t = .ok m) (hp : P t = true) :
    convert T P o t s = .ok (.fetch t) := by
  obtain ⟨g, tbl, _, _, _, _, _, hc⟩ := convert_unfold P ho t s hm
  rw [hc]
  simp [fuelFor, resolve, hp]

/-- … and inside a derivation no supplied coordinate is ever recomputed, every fetched coordinate
was supplied, and every kernel applied is the graph's rule for the coordinate it produces -/
theorem supplied_takes_precedence (P : Name → Bool) (o t : Name) (s : Bool) {d : Term}
    (h : convert T P o t s = .ok d) :
    (∀ k n, (k, n) ∈ d.nodes → P n = false) ∧ (∀ n ∈ d.fetched, P n = true) ∧
    ∃ g, deduceConversionGraph T P o t s = .ok g ∧
      ∀ k n, (k, n) ∈ d.nodes → ∃ r ∈ g, r.kernel = k ∧ n ∈ r.outs := by
  obtain ⟨g, hg, hres⟩ := deduce_eq_used P o t s h
  exact ⟨fun k n hkn => (nodes_spec hres k n hkn).2.1, fetched_present hres,
    g, hg, fun k n hkn => (nodes_spec hres k n hkn).1⟩


/-! ## Never a kernel of the wrong scattering mode -/

def kernelsOf (g : Graph) : List Kernel := g.map (·.kernel)
/-- kernels of `beamline(scatter=True)` -/
def scatterKernels : List Kernel := kernelsOf T.scatterBeamline
/-- kernels of `beamline(scatter=False)` -/
def noScatterKernels : List Kernel := kernelsOf T.noScatterBeamline
/-- kernels of the elastic dynamics tables -/
def dynKernels : List Kernel := T.dynamics.flatMap (fun x => kernelsOf x.2)
def directKernels : List Kernel := T.directInelastic.flatMap (fun x => kernelsOf x.2)
def indirectKernels : List Kernel := T.indirectInelastic.flatMap (fun x => kernelsOf x.2)
/-- kernels computing the *elastic* energy -/
def elasticEnergyKernels : List Kernel :=
  T.dynamics.flatMap fun x => (x.2.filter (·.outs.contains nEnergy)).map (·.kernel)

def modeFacts (o : Name) (reach s : Bool) (m : Mode) : Bool :=
  match conversionGraphB T o reach s m with
  | .error _ => false
  | .ok g =>
    (if s then g.all (fun r => !noScatterKernels.contains r.kernel)
     else g.all (fun r => !scatterKernels.contains r.kernel && !directKernels.contains r.kernel
                          && !indirectKernels.contains r.kernel && !r.outs.contains nEnergyTransfer))
    && (decide (m = .direct) || g.all (fun r => !directKernels.contains r.kernel))
    && (decide (m = .indirect) || g.all (fun r => !indirectKernels.contains r.kernel))
    && (decide (m = .elastic) || !s || g.all (fun r => !dynKernels.contains r.kernel))
    && g.all (fun r => !elasticEnergyKernels.contains r.kernel || decide (r.outs = [nEnergy]))
    && (decide (o = nEnergy) || g.all (fun r => !r.ins.contains nEnergy))

/-- per assembled graph: which kernels it can contain at all (table fact) -/
theorem graphs_mode_facts :
    (origins.all fun o => [true, false].all fun reach => [true, false].all fun s =>
      modes.all fun m => modeFacts o reach s m) = true
    ∧ elasticEnergyKernels.all dynKernels.contains = true
    ∧ directKernels ≠ [] ∧ indirectKernels ≠ [] ∧ noScatterKernels ≠ [] ∧ elasticEnergyKernels ≠ []
    ∧ directKernels.all (fun k => !indirectKernels.contains k && !dynKernels.contains k && !scatterKernels.contains k) = true := by
  decide +kernel

theorem modeFacts_of_origin {o : Name} (ho : o ∈ origins) (reach s : Bool) (m : Mode) :
    modeFacts o reach s m = true := by
  have h := graphs_mode_facts.1
  simp only [List.all_eq_true] at h
  exact h o ho reach (by cases reach <;> simp) s (by cases s <;> simp) m (by cases m <;> simp [modes])

theorem root_rule_of_nodes {g : Graph} {P : Name → Bool} {f : Nat} {n : Name} {d : Term}
    (h : resolve g P f n = .ok d) {x : Kernel × Name} (hx : x ∈ d.nodes) : ∃ r ∈ g, n ∈ r.outs := by
  cases f with
  | zero => simp [resolve] at h
  | succ f =>
    rcases resolve_ok_cases h with ⟨_, rfl⟩ | ⟨_, r, _, hr, _, _⟩
    · simp [Term.nodes] at hx
    · exact ⟨r, (findRule_some hr).1, (findRule_some hr).2⟩

/-- **never a quantity computed in the wrong scattering mode**: for every kernel `k` applied in the
derivation that `convert` returns,
1. with `scatter=True` it is not the no-scatter beam-length kernel;
2. with `scatter=False` it is none of the scattering-geometry kernels and no inelastic kernel;
3. the direct-inelastic kernel occurs only for target `energy_transfer` with `incident_energy` supplied and
   `final_energy` absent; 4. symmetrically for the indirect one;
5. for target `energy_transfer` no elastic-dynamics kernel is applied;
6. the elastic `energy` kernels are never applied when an inelastic energy is supplied. -/
theorem never_wrong_mode (P : Name → Bool) {o : Name} (ho : o ∈ origins) (t : Name) (s : Bool) {d : Term}
    (h : convert T P o t s = .ok d) (k : Kernel) (n : Name) (hkn : (k, n) ∈ d.nodes) :
    (s = true → k ∉ noScatterKernels) ∧
    (s = false → k ∉ scatterKernels ∧ k ∉ directKernels ∧ k ∉ indirectKernels) ∧
    (k ∈ directKernels → t = nEnergyTransfer ∧ P nIncidentEnergy = true ∧ P nFinalEnergy = false) ∧
    (k ∈ indirectKernels → t = nEnergyTransfer ∧ P nFinalEnergy = true ∧ P nIncidentEnergy = false) ∧
    (t = nEnergyTransfer → k ∉ dynKernels) ∧
    (k ∈ elasticEnergyKernels → P nIncidentEnergy = false ∧ P nFinalEnergy = false) := by
  cases hm : deduceEnergyMode P o t with
  | error e => simp [convert, deduceConversionGraph, hm] at h
  | ok m =>
    obtain ⟨g, tbl, hg, _, _, _, _, hc⟩ := convert_unfold P ho t s hm
    have hres : resolve g P (fuelFor g) t = .ok d := by
      rw [hc] at h
      cases hr : resolve g P (fuelFor g) t with
      | ok d' => simp [hr] at h; rw [h]
      | error e => cases e <;> simp [hr] at h
    obtain ⟨⟨r, hrg, hrk, hno⟩, _, hcons⟩ := nodes_spec hres k n hkn
    obtain ⟨r0, hr0g, hr0t⟩ := root_rule_of_nodes hres hkn
    have hmf := modeFacts_of_origin ho (reachableBy t (beamline T true)) s m
    unfold modeFacts at hmf
    unfold conversionGraph at hg
    rw [hg] at hmf
    simp only [Bool.and_eq_true, Bool.or_eq_true, decide_eq_true_eq, List.all_eq_true,
      Bool.not_eq_true', List.contains_eq_mem, decide_eq_false_iff_not] at hmf
    obtain ⟨⟨⟨⟨⟨f1, f2⟩, f3⟩, f4⟩, f5⟩, f6⟩ := hmf
    obtain ⟨sd, si, se⟩ := deduceEnergyMode_spec hm
    have hsub : k ∈ elasticEnergyKernels → k ∈ dynKernels := by
      intro hk
      have := graphs_mode_facts.2.1
      simp only [List.all_eq_true, List.contains_eq_mem, decide_eq_true_eq] at this
      exact this k hk
    subst hrk
    refine ⟨?_, ?_, ?_, ?_, ?_, ?_⟩
    · intro hs; subst hs
      simp only [if_true, List.all_eq_true, Bool.not_eq_true', decide_eq_false_iff_not] at f1
      exact f1 r hrg
    · intro hs; subst hs
      simp only [Bool.false_eq_true, if_false, List.all_eq_true, Bool.and_eq_true, Bool.not_eq_true',
        decide_eq_false_iff_not] at f1
      exact ⟨(f1 r hrg).1.1.1, (f1 r hrg).1.1.2, (f1 r hrg).1.2⟩
    · intro hk
      rcases f2 with rfl | f2
      · exact sd rfl
      · exact absurd hk (f2 r hrg)
    · intro hk
      rcases f3 with rfl | f3
      · exact si rfl
      · exact absurd hk (f3 r hrg)
    · intro ht hk
      rcases f4 with (rfl | hs) | f4
      · exact (se rfl).1 ht
      · subst hs
        simp only [Bool.false_eq_true, if_false, List.all_eq_true, Bool.and_eq_true, Bool.not_eq_true',
          decide_eq_false_iff_not] at f1
        exact (f1 r0 hr0g).2 (ht ▸ hr0t)
      · exact f4 r hrg hk
    · intro hk
      have hout : r.outs = [nEnergy] := by
        rcases f5 r hrg with h5 | h5
        · exact absurd hk h5
        · exact h5
      have hn : n = nEnergy := by rw [hout] at hno; simpa using hno
      cases m with
      | elastic =>
        refine (se rfl).2 ?_
        rcases hcons with rfl | ⟨r', hr'g, hr'i⟩
        · exact .inr hn
        · rcases f6 with rfl | f6
          · exact .inl rfl
          · exact absurd (hn ▸ hr'i) (f6 r' hr'g)
      | direct =>
        exfalso
        rcases f4 with (hm' | hs) | f4
        · cases hm'
        · subst hs
          simp only [Bool.false_eq_true, if_false, List.all_eq_true, Bool.and_eq_true, Bool.not_eq_true',
            decide_eq_false_iff_not] at f1
          exact (f1 r0 hr0g).2 ((sd rfl).1 ▸ hr0t)
        · exact f4 r hrg (hsub hk)
      | indirect =>
        exfalso
        rcases f4 with (hm' | hs) | f4
        · cases hm'
        · subst hs
          simp only [Bool.false_eq_true, if_false, List.all_eq_true, Bool.and_eq_true, Bool.not_eq_true',
            decide_eq_false_iff_not] at f1
          exact (f1 r0 hr0g).2 ((si rfl).1 ▸ hr0t)
        · exact f4 r hrg (hsub hk)


/-! ## The graph factories -/

def agrees : Except Err Graph → Option Graph → Bool
  | .ok g, some g' => decide (g = g')
  | .error .key, none => true
  | _, _ => false

/-- the model of every table-driven public factory (`elastic`, `kinematic`, `elastic_Q`, …,
`two_theta`, `Ltotal`, `beamline`, `direct_inelastic`, `indirect_inelastic`) reproduces the
result of calling the real factory (extracted by the translator), including `KeyError` -/
theorem factories_agree :
    Gen.Graphs.factoryResults.all (fun x => agrees (factoryModel T x.1 x.2.1) x.2.2) = true
    ∧ 30 ≤ Gen.Graphs.factoryResults.length := by
  decide +kernel

/-- every rule of every public factory result (also the literal ones: `L1()`, `incident_beam()`, …)
is a rule of one of the master tables: a factory never wires a coordinate differently -/
theorem factories_consistent :
    let master := T.scatterBeamline ++ T.noScatterBeamline ++ T.dynamics.flatMap (·.2)
      ++ T.directInelastic.flatMap (·.2) ++ T.indirectInelastic.flatMap (·.2)
    Gen.Graphs.factories.all (fun x => x.2.2.all (fun r => master.contains r)) = true := by
  decide +kernel


/-! ## scipp's duplicate check implies uniqueness of the producing rule -/

theorem nodup_of_nodupB : ∀ {l : List Nat}, nodupB l = true → l.Nodup
  | [], _ => List.nodup_nil
  | a :: as, h => by
    simp only [nodupB, Bool.and_eq_true, Bool.not_eq_true', List.contains_eq_mem,
      decide_eq_false_iff_not] at h
    exact List.nodup_cons.mpr ⟨h.1, nodup_of_nodupB h.2⟩

theorem unique_of_nodup : ∀ {g : Graph}, (allOuts g).Nodup → UniqueOuts g
  | [], _ => by intro r hr; simp at hr
  | r0 :: g, h => by
    have hall : allOuts (r0 :: g) = r0.outs ++ allOuts g := by simp [allOuts]
    rw [hall, List.nodup_append] at h
    obtain ⟨_, h2, h3⟩ := h
    have ih := unique_of_nodup h2
    have hmem : ∀ r ∈ g, ∀ n ∈ r.outs, n ∈ allOuts g := by
      intro r hr n hn
      simp only [allOuts, List.mem_flatMap]
      exact ⟨r, hr, hn⟩
    intro r hr r' hr' n hn hn'
    rcases List.mem_cons.mp hr with rfl | hg <;> rcases List.mem_cons.mp hr' with rfl | hg'
    · rfl
    · exact absurd rfl (h3 n hn n (hmem r' hg' n hn'))
    · exact absurd rfl (h3 n hn' n (hmem r hg n hn))
    · exact ih r hg r' hg' n hn hn'

/-- the check `_convert_to_rule_graph` performs (no output name twice) makes the rule producing a
coordinate unique, for any graph -/
theorem unique_of_outsNodup {g : Graph} (h : outsNodup g = true) : UniqueOuts g :=
  unique_of_nodup (nodup_of_nodupB h)


/-! ## Non-vacuity: concrete configurations on the generated tables -/

/-- positions and tof supplied -/
def exGeom : Name → Bool := fun n => [nPosition, nSourcePosition, nSamplePosition, nTof].contains n
/-- as `exGeom` plus a supplied `L1` -/
def exGeomL1 : Name → Bool := fun n => n = nL1 || exGeom n
/-- direct-inelastic data -/
def exDirect : Name → Bool := fun n => [nTof, nL1, nL2, nIncidentEnergy].contains n
/-- both inelastic energies: ambiguous -/
def exBoth : Name → Bool := fun n => [nTof, nL1, nL2, nIncidentEnergy, nFinalEnergy].contains n

def nodesOf : Except Err Term → Option (List (Kernel × Name))
  | .ok d => some d.nodes
  | .error _ => none
def isRuntime : Except Err Term → Bool
  | .error .runtime => true
  | _ => false

open Gen.Graphs in
/-- tof → dspacing from the three positions: the full derivation (kernel, output) -/
example : nodesOf (convert T exGeom nTof nDspacing true) = some
    [(k_tof_dspacing_from_tof, nDspacing), (k_beamline_total_beam_length, nLtotal),
     (k_beamline_L1, nL1), (k_beamline_straight_incident_beam, nIncidentBeam),
     (k_beamline_L2, nL2), (k_beamline_straight_scattered_beam, nScatteredBeam),
     (k_beamline_two_theta, nTwoTheta), (k_beamline_straight_incident_beam, nIncidentBeam),
     (k_beamline_straight_scattered_beam, nScatteredBeam)] := by decide +kernel

open Gen.Graphs in
/-- a supplied L1 is fetched, not recomputed (but incident_beam is still derived for two_theta) -/
example : nodesOf (convert T exGeomL1 nTof nDspacing true) = some
    [(k_tof_dspacing_from_tof, nDspacing), (k_beamline_total_beam_length, nLtotal),
     (k_beamline_L2, nL2), (k_beamline_straight_scattered_beam, nScatteredBeam),
     (k_beamline_two_theta, nTwoTheta), (k_beamline_straight_incident_beam, nIncidentBeam),
     (k_beamline_straight_scattered_beam, nScatteredBeam)] := by decide +kernel

/-- `convert_ok_iff` is used in both directions on real instances -/
example : ∃ m g, deduceEnergyMode exGeom nTof nDspacing = .ok m ∧
    conversionGraph T nTof nDspacing true m = .ok g ∧ Derivable g exGeom nDspacing :=
  (convert_ok_iff exGeom (by decide +kernel) nDspacing true).mp
    (by
      cases h : convert T exGeom nTof nDspacing true with
      | ok d => exact ⟨d, rfl⟩
      | error e =>
        have : nodesOf (convert T exGeom nTof nDspacing true) ≠ none := by decide +kernel
        simp [h, nodesOf] at this)

/-- without the sample position nothing scattering-related is derivable: RuntimeError -/
example : isRuntime (convert T (fun n => [nPosition, nSourcePosition, nTof].contains n) nTof nDspacing true) = true := by
  decide +kernel

open Gen.Graphs in
/-- … but with `scatter=False` the same data give the wavelength through the no-scatter kernel -/
example : nodesOf (convert T (fun n => [nPosition, nSourcePosition, nTof].contains n) nTof nWavelength false) = some
    [(k_tof_wavelength_from_tof, nWavelength), (k_beamline_total_straight_beam_length_no_scatter, nLtotal)] := by
  decide +kernel

open Gen.Graphs in
/-- direct inelastic: the direct kernel, and only it -/
example : nodesOf (convert T exDirect nTof nEnergyTransfer true) = some
    [(k_tof_energy_transfer_direct_from_tof, nEnergyTransfer)] := by decide +kernel

/-- both energies supplied: ambiguous mode ⇒ RuntimeError; elastic energy with an inelastic input ⇒ RuntimeError -/
example : isRuntime (convert T exBoth nTof nEnergyTransfer true) = true
    ∧ isRuntime (convert T exDirect nTof nEnergy true) = true
    ∧ isRuntime (convert T exGeom nTof nEnergyTransfer true) = true := by decide +kernel

/-- the hypotheses of the general theorems are satisfiable: the tof graph is unique-output and ranked -/
example : ∃ g tbl, conversionGraph T nTof nDspacing true .elastic = .ok g ∧ UniqueOuts g ∧ Ranked (rankOf tbl) g := by
  obtain ⟨g, tbl, h1, _, h3, h4, _⟩ := good_graph (o := nTof) (by decide +kernel) (reachableBy nDspacing (beamline T true)) true .elastic
  exact ⟨g, tbl, h1, h3, h4⟩

/-- `eval_sound` instantiated: with "truth" = the name itself and kernels that return their output
name, every derivation evaluates to its target -/
example (f : Nat) (n : Name) (t : Term) (g : Graph) (P : Name → Bool) (h : resolve g P f n = .ok t) :
    t.eval (fun _ o _ => o) (fun n => n) = n :=
  eval_sound (fun _ o _ => o) (fun n => n) (fun n => n) (fun _ _ => rfl) (fun _ _ _ _ => rfl) h

/-! ## The literal `graph_for` loop agrees with the recursive resolution -/

theorem subHas_iff {s : Sub} {n : Name} : subHas s n = true ↔ ∃ v, subGet? s n = some v := by
  induction s with
  | nil => simp [subHas, subGet?]
  | cons e rest ih =>
    obtain ⟨k, v⟩ := e
    by_cases hk : k = n
    · simp [subHas, subGet?, hk]
    · simp only [subHas, List.any_cons, subGet?, hk, if_false, decide_false, Bool.false_or] at ih ⊢
      exact ih

theorem subGet?_map_set (s : Sub) (n : Name) (v : Src) (m : Name) :
    subGet? (s.map (fun e => if e.1 = n then (n, v) else e)) m =
      if m = n then (if subHas s n then some v else none) else subGet? s m := by
  induction s with
  | nil => by_cases h : m = n <;> simp [subGet?, subHas, h]
  | cons e rest ih =>
    obtain ⟨k, w⟩ := e
    by_cases hk : k = n
    · subst hk
      by_cases hm : m = k
      · subst hm; simp [subGet?, subHas]
      · have : ¬ k = m := fun h => hm h.symm
        simp [subGet?, this, hm, ih]
    · by_cases hm : m = n
      · subst hm
        have hkm : ¬ k = m := hk
        simp only [List.map_cons, hk, if_false, subGet?, ih, if_true, subHas, List.any_cons,
          decide_false, Bool.false_or]
        rfl
      · by_cases hkm : k = m
        · simp [subGet?, hkm, hm]
        · simp [subGet?, hk, hkm, hm, ih]

theorem subGet?_append_new (s : Sub) (n : Name) (v : Src) (m : Name) :
    subGet? (s ++ [(n, v)]) m = match subGet? s m with
      | some w => some w
      | none => if n = m then some v else none := by
  induction s with
  | nil => simp [subGet?]
  | cons e rest ih =>
    obtain ⟨k, w⟩ := e
    by_cases hk : k = m
    · simp [subGet?, hk]
    · simp [subGet?, hk, ih]

theorem subGet?_subSet (s : Sub) (n : Name) (v : Src) (m : Name) :
    subGet? (subSet s n v) m = if m = n then some v else subGet? s m := by
  unfold subSet
  by_cases hh : subHas s n = true
  · simp only [hh, if_true]
    rw [subGet?_map_set]
    simp [hh]
  · simp only [hh, if_false, Bool.false_eq_true]
    rw [subGet?_append_new]
    have hnone : subGet? s n = none := by
      cases h : subGet? s n with
      | none => rfl
      | some w => exact absurd (subHas_iff.mpr ⟨w, h⟩) hh
    by_cases hm : m = n
    · subst hm; simp [hnone]
    · have : ¬ n = m := fun h => hm h.symm
      cases h : subGet? s m <;> simp [hm, this]

theorem subGet?_foldl (outs : List Name) (v : Src) :
    ∀ (s : Sub) (m : Name),
      subGet? (outs.foldl (fun s o => subSet s o v) s) m = if m ∈ outs then some v else subGet? s m := by
  induction outs with
  | nil => intro s m; simp
  | cons o rest ih =>
    intro s m
    simp only [List.foldl_cons, ih, subGet?_subSet, List.mem_cons]
    by_cases h1 : m ∈ rest <;> by_cases h2 : m = o <;> simp [h1, h2]


/-- no output of a multi-output rule is supplied (true for every configuration of the property:
the 11 coordinates, the origin and the auxiliary inputs are not outputs of such a rule) -/
def Compat (g : Graph) (P : Name → Bool) : Prop :=
  ∀ r ∈ g, 1 < r.outs.length → ∀ o ∈ r.outs, P o = false

/-- every entry of the subgraph is what `_rule_for` returns for that node -/
def SubOk (g : Graph) (P : Name → Bool) (sub : Sub) : Prop :=
  ∀ n src, subGet? sub n = some src →
    (src = .fetch ∧ P n = true) ∨ (∃ r, src = .rule r ∧ P n = false ∧ findRule g n = some r)

/-- every dependency of a computed node is in the subgraph or still on the stack -/
def Closed (sub : Sub) (stack : List Name) : Prop :=
  ∀ n r, subGet? sub n = some (.rule r) → ∀ i ∈ r.ins, subHas sub i = true ∨ i ∈ stack

theorem subHas_subSet_mono {s : Sub} {n i : Name} {v : Src} (h : subHas s i = true) :
    subHas (subSet s n v) i = true := by
  obtain ⟨w, hw⟩ := subHas_iff.mp h
  apply subHas_iff.mpr
  rw [subGet?_subSet]
  by_cases hi : i = n
  · exact ⟨v, by simp [hi]⟩
  · exact ⟨w, by simp [hi, hw]⟩

theorem subHas_foldl_mono {outs : List Name} {v : Src} {s : Sub} {i : Name} (h : subHas s i = true) :
    subHas (outs.foldl (fun s o => subSet s o v) s) i = true := by
  obtain ⟨w, hw⟩ := subHas_iff.mp h
  apply subHas_iff.mpr
  rw [subGet?_foldl]
  by_cases hi : i ∈ outs
  · exact ⟨v, by simp [hi]⟩
  · exact ⟨w, by simp [hi, hw]⟩

theorem graphFor_inv {g : Graph} {P : Name → Bool} (hu : UniqueOuts g) (hc : Compat g P) :
    ∀ (fuel : Nat) (stack : List Name) (sub res : Sub), SubOk g P sub → Closed sub stack →
      graphFor g P fuel stack sub = .ok res →
      SubOk g P res ∧ Closed res [] ∧ (∀ n, (subHas sub n = true ∨ n ∈ stack) → subHas res n = true)
  | 0, _, _, _, _, _, h => by simp [graphFor] at h
  | fuel + 1, [], sub, res, hok, hcl, h => by
    simp only [graphFor] at h
    injection h with h
    subst h
    exact ⟨hok, hcl, fun n hn => hn.elim id (fun h => by simp at h)⟩
  | fuel + 1, n :: rest, sub, res, hok, hcl, h => by
    unfold graphFor at h
    by_cases hin : subHas sub n = true
    · simp only [hin, if_true] at h
      have hcl' : Closed sub rest := by
        intro m r hm i hi
        rcases hcl m r hm i hi with h1 | h1
        · exact .inl h1
        · rcases List.mem_cons.mp h1 with rfl | h2
          · exact .inl hin
          · exact .inr h2
      obtain ⟨a, b, c⟩ := graphFor_inv hu hc fuel rest sub res hok hcl' h
      refine ⟨a, b, fun m hm => ?_⟩
      rcases hm with h1 | h1
      · exact c m (.inl h1)
      · rcases List.mem_cons.mp h1 with rfl | h2
        · exact c _ (.inl hin)
        · exact c m (.inr h2)
    · simp only [hin, if_false, Bool.false_eq_true] at h
      by_cases hp : P n = true
      · simp only [hp, if_true] at h
        have hok' : SubOk g P (subSet sub n .fetch) := by
          intro m src hm
          rw [subGet?_subSet] at hm
          by_cases hmn : m = n
          · subst hmn
            simp only [if_true] at hm
            injection hm with hm
            exact .inl ⟨hm.symm, hp⟩
          · simp only [hmn, if_false] at hm
            exact hok m src hm
        have hcl' : Closed (subSet sub n .fetch) rest := by
          intro m r hm i hi
          rw [subGet?_subSet] at hm
          by_cases hmn : m = n
          · simp [hmn] at hm
          · simp only [hmn, if_false] at hm
            rcases hcl m r hm i hi with h1 | h1
            · exact .inl (subHas_subSet_mono h1)
            · rcases List.mem_cons.mp h1 with rfl | h2
              · exact .inl (subHas_iff.mpr ⟨.fetch, by rw [subGet?_subSet]; simp⟩)
              · exact .inr h2
        obtain ⟨a, b, c⟩ := graphFor_inv hu hc fuel rest _ res hok' hcl' h
        refine ⟨a, b, fun m hm => ?_⟩
        rcases hm with h1 | h1
        · exact c m (.inl (subHas_subSet_mono h1))
        · rcases List.mem_cons.mp h1 with rfl | h2
          · exact c _ (.inl (subHas_iff.mpr ⟨.fetch, by rw [subGet?_subSet]; simp⟩))
          · exact c m (.inr h2)
      · have hp' : P n = false := by simpa using hp
        simp only [hp', Bool.false_eq_true, if_false] at h
        cases hfr : findRule g n with
        | none => simp [hfr] at h
        | some r =>
          simp only [hfr] at h
          have ⟨hrg, hno⟩ := findRule_some hfr
          have hout : ∀ o ∈ r.outs, P o = false ∧ findRule g o = some r := by
            intro o ho
            refine ⟨?_, findRule_of_unique hu hrg ho⟩
            by_cases hl : 1 < r.outs.length
            · exact hc r hrg hl o ho
            · have : r.outs = [n] := by
                match hro : r.outs, hno, ho, hl with
                | [a], hno, _, _ => simp at hno; rw [hno]
                | [], hno, _, _ => simp at hno
                | a :: b :: c, _, _, hl => simp at hl
              rw [this] at ho
              simp at ho
              rw [ho]; exact hp'
          have hget := subGet?_foldl r.outs (.rule r) sub
          have hok' : SubOk g P (r.outs.foldl (fun s o => subSet s o (.rule r)) sub) := by
            intro m src hm
            rw [hget] at hm
            by_cases hmo : m ∈ r.outs
            · simp only [hmo, if_true] at hm
              injection hm with hm
              exact .inr ⟨r, hm.symm, (hout m hmo).1, (hout m hmo).2⟩
            · simp only [hmo, if_false] at hm
              exact hok m src hm
          have hnew : subHas (r.outs.foldl (fun s o => subSet s o (.rule r)) sub) n = true :=
            subHas_iff.mpr ⟨.rule r, by rw [hget]; simp [hno]⟩
          have hcl' : Closed (r.outs.foldl (fun s o => subSet s o (.rule r)) sub) (r.ins.reverse ++ rest) := by
            intro m r' hm i hi
            rw [hget] at hm
            by_cases hmo : m ∈ r.outs
            · simp only [hmo, if_true] at hm
              injection hm with hm
              injection hm with hm
              subst hm
              exact .inr (by simp [hi])
            · simp only [hmo, if_false] at hm
              rcases hcl m r' hm i hi with h1 | h1
              · exact .inl (subHas_foldl_mono h1)
              · rcases List.mem_cons.mp h1 with rfl | h2
                · exact .inl hnew
                · exact .inr (by simp [h2])
          obtain ⟨a, b, c⟩ := graphFor_inv hu hc fuel _ _ res hok' hcl' h
          refine ⟨a, b, fun m hm => ?_⟩
          rcases hm with h1 | h1
          · exact c m (.inl (subHas_foldl_mono h1))
          · rcases List.mem_cons.mp h1 with rfl | h2
            · exact c _ (.inl hnew)
            · exact c m (.inr (by simp [h2]))


theorem map_both {f1 : Name → Except Unit Term} {f2 : Name → Except RErr Term} :
    ∀ {l : List Name}, (∀ i ∈ l, ∃ t, f1 i = .ok t ∧ f2 i = .ok t) →
      ∃ ts, mapE f1 l = .ok ts ∧ mapERev f2 l = .ok ts
  | [], _ => ⟨[], rfl, rfl⟩
  | a :: as, h => by
    obtain ⟨ts, h1, h2⟩ := map_both (l := as) (fun i hi => h i (List.mem_cons_of_mem _ hi))
    obtain ⟨t, ht1, ht2⟩ := h a (by simp)
    exact ⟨t :: ts, by simp [mapE, ht1, h1], by simp [mapERev, ht2, h2]⟩

/-- on a closed, well-formed subgraph of a ranked graph the evaluation order of `transform_coords`
yields for every node exactly the derivation the recursive `resolve` builds -/
theorem planTerm_eq_resolve {g : Graph} {P : Name → Bool} {rk : Name → Nat} {sub : Sub}
    (hok : SubOk g P sub) (hcl : Closed sub []) (hr : Ranked rk g) :
    ∀ (f : Nat) (n : Name), rk n < f → subHas sub n = true →
      ∃ t, planTerm sub f n = some t ∧ resolve g P f n = .ok t
  | 0, n, hf, _ => by omega
  | f + 1, n, hf, hn => by
    obtain ⟨src, hsrc⟩ := subHas_iff.mp hn
    rcases hok n src hsrc with ⟨rfl, hp⟩ | ⟨r, rfl, hp, hfr⟩
    · exact ⟨.fetch n, by simp [planTerm, hsrc], by simp [resolve, hp]⟩
    · have ⟨hrg, hno⟩ := findRule_some hfr
      have hall : ∀ i ∈ r.ins, ∃ t,
          optE (planTerm sub f i) = .ok t ∧
          resolve g P f i = .ok t := by
        intro i hi
        have hlt := hr r hrg n hno i hi
        have hsub : subHas sub i = true := by
          rcases hcl n r hsrc i hi with h | h
          · exact h
          · simp at h
        obtain ⟨t, h1, h2⟩ := planTerm_eq_resolve hok hcl hr f i (by omega) hsub
        exact ⟨t, by simp [h1, optE], h2⟩
      obtain ⟨ts, h1, h2⟩ := map_both hall
      exact ⟨.apply r.kernel n ts, by simp [planTerm, hsrc, h1], by simp [resolve, hp, hfr, h2]⟩

theorem derivable_ins {g : Graph} {P : Name → Bool} (hu : UniqueOuts g) {n : Name} {r : Rule}
    (hd : Derivable g P n) (hp : P n = false) (hfr : findRule g n = some r) :
    ∀ i ∈ r.ins, Derivable g P i := by
  have ⟨hrg, hno⟩ := findRule_some hfr
  cases hd with
  | present h => simp [hp] at h
  | rule r' hr' ho' hins =>
    have : r' = r := hu r' hr' r hrg n ho' hno
    subst this
    exact hins

theorem not_derivable_of_no_rule {g : Graph} {P : Name → Bool} {n : Name}
    (hp : P n = false) (hfr : findRule g n = none) : ¬ Derivable g P n := by
  intro hd
  cases hd with
  | present h => simp [hp] at h
  | rule r hr ho _ =>
    unfold findRule at hfr
    have := List.find?_eq_none.mp hfr r hr
    simp [ho] at this

/-- a `KeyError` of the loop means that the target is not derivable -/
theorem graphFor_missing {g : Graph} {P : Name → Bool} (hu : UniqueOuts g) (t : Name) :
    ∀ (fuel : Nat) (stack : List Name) (sub : Sub) (m : Name),
      (∀ n ∈ stack, Derivable g P t → Derivable g P n) →
      graphFor g P fuel stack sub = .error (.missing m) → ¬ Derivable g P t
  | 0, _, _, _, _, h => by simp [graphFor] at h
  | fuel + 1, [], _, _, _, h => by simp [graphFor] at h
  | fuel + 1, n :: rest, sub, m, hst, h => by
    unfold graphFor at h
    have hrest : ∀ x ∈ rest, Derivable g P t → Derivable g P x :=
      fun x hx => hst x (List.mem_cons_of_mem _ hx)
    by_cases hin : subHas sub n = true
    · simp only [hin, if_true] at h
      exact graphFor_missing hu t fuel rest sub m hrest h
    · simp only [hin, if_false, Bool.false_eq_true] at h
      by_cases hp : P n = true
      · simp only [hp, if_true] at h
        exact graphFor_missing hu t fuel rest _ m hrest h
      · have hp' : P n = false := by simpa using hp
        simp only [hp', Bool.false_eq_true, if_false] at h
        cases hfr : findRule g n with
        | none =>
          intro hd
          exact not_derivable_of_no_rule hp' hfr (hst n (by simp) hd)
        | some r =>
          simp only [hfr] at h
          refine graphFor_missing hu t fuel _ _ m ?_ h
          intro x hx hd
          rcases List.mem_append.mp hx with h1 | h1
          · exact derivable_ins hu (hst n (by simp) hd) hp' hfr x (by simpa using h1)
          · exact hrest x h1 hd

/-- **the literal `graph_for` + evaluation agree with the recursive `resolve`** whenever the loop
does not run out of its iteration budget (that the budget suffices for the generated tables is
`graphFor_terminates_all`) -/
theorem graphFor_agrees_partial {g : Graph} {P : Name → Bool} {rk : Name → Nat}
    (hu : UniqueOuts g) (hr : Ranked rk g) (hc : Compat g P) (t : Name) (L F : Nat) (hF : rk t < F) :
    (∀ sub, graphFor g P L [t] [] = .ok sub →
        ∃ d, planTerm sub F t = some d ∧ resolve g P F t = .ok d) ∧
    (∀ m, graphFor g P L [t] [] = .error (.missing m) → ∃ m', resolve g P F t = .error (.missing m')) := by
  constructor
  · intro sub h
    have hok0 : SubOk g P [] := by intro n src h; simp [subGet?] at h
    have hcl0 : Closed [] [t] := by intro n r h; simp [subGet?] at h
    obtain ⟨a, b, c⟩ := graphFor_inv hu hc L [t] [] sub hok0 hcl0 h
    exact planTerm_eq_resolve a b hr F t hF (c t (.inr (by simp)))
  · intro m h
    have hnd := graphFor_missing hu t L [t] [] m (fun n hn hd => by simp at hn; rw [hn]; exact hd) h
    cases hres : resolve g P F t with
    | ok d => exact absurd (resolve_sound hres) hnd
    | error e =>
      cases e with
      | missing m' => exact ⟨m', rfl⟩
      | fuel => exact absurd hres (resolve_no_fuel_error hr F t hF)

/-- the loop budget of the model is never exhausted (hypothesis of the `_partial` theorem; proved below as
`graphFor_terminates_all`) -/
def GraphForTerminates : Prop :=
  ∀ (P : Name → Bool) (o : Name), o ∈ origins → ∀ (t : Name) (s : Bool) (g : Graph),
    deduceConversionGraph T P o t s = .ok g → graphFor g P loopFuel [t] [] ≠ .error .fuel


/-- outputs of multi-output rules of the tables (Qx,Qy,Qz and h,k,l) -/
def multiOuts : List Name :=
  (T.scatterBeamline ++ T.noScatterBeamline ++ T.dynamics.flatMap (·.2)
    ++ T.directInelastic.flatMap (·.2) ++ T.indirectInelastic.flatMap (·.2)).flatMap
    (fun r => if 1 < r.outs.length then r.outs else [])

def multiFacts (o : Name) (reach s : Bool) (m : Mode) : Bool :=
  match conversionGraphB T o reach s m with
  | .ok g => g.all fun r => decide (r.outs.length ≤ 1) || r.outs.all multiOuts.contains
  | .error _ => false

/-- multi-output rules of every assembled graph produce only `multiOuts`, and none of the 11
coordinates of the quantifier nor an origin is among them -/
theorem graphs_multi_outs :
    (origins.all fun o => [true, false].all fun reach => [true, false].all fun s =>
      modes.all fun m => multiFacts o reach s m) = true
    ∧ multiOuts.all (fun n => !(List.range 11 ++ origins ++ [nTof]).contains n) = true
    ∧ multiOuts ≠ [] := by
  decide +kernel

theorem compat_of_multiOuts {P : Name → Bool} (hP : ∀ n ∈ multiOuts, P n = false)
    {o : Name} (ho : o ∈ origins) (reach s : Bool) (m : Mode) {g : Graph}
    (hg : conversionGraphB T o reach s m = .ok g) : Compat g P := by
  have h := graphs_multi_outs.1
  simp only [List.all_eq_true] at h
  have h' := h o ho reach (by cases reach <;> simp) s (by cases s <;> simp) m (by cases m <;> simp [modes])
  unfold multiFacts at h'
  rw [hg] at h'
  simp only [List.all_eq_true, Bool.or_eq_true, decide_eq_true_eq, List.contains_eq_mem] at h'
  intro r hr hl x hx
  rcases h' r hr with h1 | h1
  · omega
  · exact hP x (h1 x hx)

/-- **`convert` with the literal `graph_for` loop is `convert` with the recursive resolution**, for every
supported origin, every target, both scatter flags and every presence predicate that does not supply an
output of a multi-output rule (in particular for all configurations of the property). Partial: under the
hypothesis that the loop budget is not exhausted; discharged in `convertLiteral_eq_convert`. -/
theorem convertLiteral_eq_convert_partial (P : Name → Bool) {o : Name} (ho : o ∈ origins) (t : Name) (s : Bool)
    (hP : ∀ n ∈ multiOuts, P n = false)
    (hfuel : ∀ g, deduceConversionGraph T P o t s = .ok g → graphFor g P loopFuel [t] [] ≠ .error .fuel) :
    (convertLiteral T P o t s).map (·.2) = convert T P o t s := by
  cases hm : deduceEnergyMode P o t with
  | error e => simp [convertLiteral, convert, deduceConversionGraph, hm, Except.map]
  | ok m =>
    obtain ⟨g, tbl, hg, hnd, hu, hr, hf⟩ := good_graph ho (reachableBy t (beamline T true)) s m
    have hc := compat_of_multiOuts hP ho _ s m hg
    have hdg : deduceConversionGraph T P o t s = .ok g := by
      simp [deduceConversionGraph, hm, conversionGraph, hg]
    obtain ⟨a1, a2⟩ := graphFor_agrees_partial hu hr hc t loopFuel (fuelFor g) (hf t)
    simp only [convertLiteral, convert, hdg, hnd]
    cases hgf : graphFor g P loopFuel [t] [] with
    | ok sub =>
      obtain ⟨d, h1, h2⟩ := a1 sub hgf
      simp [h1, h2, Except.map]
    | error e =>
      cases e with
      | missing m' =>
        obtain ⟨m'', h2⟩ := a2 m' hgf
        simp [h2, Except.map]
      | fuel => exact absurd hgf (hfuel g hdg)

/-! ### The precedence clause does NOT extend to outputs of multi-output rules

scipp assigns the rule to *all* its output names (`for name in rule.out_names: subgraph[name] = rule`),
so a supplied `Qx` is recomputed (and overwritten) when `Qz` has to be computed. The literal model
reproduces this (and the correspondence confirms it on the real code); it is outside the
quantifier of the property (the 11 coordinates), hence not a finding. -/

def FullLiteralPrecedence : Prop :=
  ∀ (P : Name → Bool) (o : Name), o ∈ origins → ∀ (t : Name) (s : Bool) (sub : Sub) (d : Term),
    convertLiteral T P o t s = .ok (sub, d) → ∀ k n, (k, n) ∈ d.nodes → P n = false

def exQx : Name → Bool := fun n => [nPosition, nSourcePosition, nSamplePosition, nTof, nQx].contains n

theorem fullLiteralPrecedence_false : ¬ FullLiteralPrecedence := by
  intro h
  have hnodes : (match convertLiteral T exQx nTof nQvec true with
      | .ok (_, d) => d.nodes.any (fun x => x.2 = nQx)
      | .error _ => false) = true := by decide +kernel
  cases hc : convertLiteral T exQx nTof nQvec true with
  | error e => simp [hc] at hnodes
  | ok r =>
    obtain ⟨sub, d⟩ := r
    simp only [hc, List.any_eq_true, decide_eq_true_eq] at hnodes
    obtain ⟨⟨k, n⟩, hx, hn⟩ := hnodes
    have := h exQx nTof (by decide +kernel) nQvec true sub d hc k n hx
    simp only at hn
    subst hn
    revert this
    decide

/-- non-vacuity of `convertLiteral_eq_convert_partial`: on a concrete configuration both sides are the same derivation -/
example : nodesOf ((convertLiteral T exGeom nTof nDspacing true).map (·.2)) = nodesOf (convert T exGeom nTof nDspacing true)
    ∧ nodesOf (convert T exGeom nTof nDspacing true) ≠ none := by decide +kernel


/-! ## The `graph_for` loop terminates within the model's budget -/

theorem subHas_subSet (s : Sub) (n m : Name) (v : Src) :
    subHas (subSet s n v) m = (decide (m = n) || subHas s m) := by
  rw [Bool.eq_iff_iff]
  simp only [subHas_iff, subGet?_subSet, Bool.or_eq_true, decide_eq_true_eq]
  by_cases h : m = n <;> simp [h]

theorem subHas_foldl (outs : List Name) (v : Src) (s : Sub) (m : Name) :
    subHas (outs.foldl (fun s o => subSet s o v) s) m = (decide (m ∈ outs) || subHas s m) := by
  rw [Bool.eq_iff_iff]
  simp only [subHas_iff, subGet?_foldl, Bool.or_eq_true, decide_eq_true_eq]
  by_cases h : m ∈ outs <;> simp [h]

/-- names of the universe not yet in the subgraph -/
def missingCount (U : List Name) (sub : Sub) : Nat := (U.filter (fun n => !subHas sub n)).length

theorem filter_length_mono {p q : Name → Bool} :
    ∀ (l : List Name), (∀ x, q x = true → p x = true) → (l.filter q).length ≤ (l.filter p).length
  | [], _ => by simp
  | a :: l, h => by
    have ih := filter_length_mono l h
    by_cases hq : q a = true
    · simp [List.filter, hq, h a hq]; exact ih
    · have hq' : q a = false := by simpa using hq
      by_cases hp : p a = true
      · simp [List.filter, hq', hp]; omega
      · have hp' : p a = false := by simpa using hp
        simp [List.filter, hq', hp']; exact ih

theorem filter_length_lt {p q : Name → Bool} :
    ∀ (l : List Name), (∀ x, q x = true → p x = true) → (∃ x ∈ l, p x = true ∧ q x = false) →
      (l.filter q).length < (l.filter p).length
  | [], _, ⟨x, hx, _⟩ => by simp at hx
  | a :: l, h, ⟨x, hx, hpx, hqx⟩ => by
    rcases List.mem_cons.mp hx with rfl | hx'
    · have := filter_length_mono l h
      simp [List.filter, hpx, hqx]; omega
    · have ih := filter_length_lt l h ⟨x, hx', hpx, hqx⟩
      by_cases hq : q a = true
      · simp [List.filter, hq, h a hq]; exact ih
      · have hq' : q a = false := by simpa using hq
        by_cases hp : p a = true
        · simp [List.filter, hq', hp]; omega
        · have hp' : p a = false := by simpa using hp
          simp [List.filter, hq', hp']; exact ih

theorem missing_subSet_lt {U : List Name} {sub : Sub} {n : Name} (v : Src)
    (hn : n ∈ U) (hnot : subHas sub n = false) :
    missingCount U (subSet sub n v) < missingCount U sub := by
  unfold missingCount
  apply filter_length_lt
  · intro x hx
    simp only [subHas_subSet, Bool.not_eq_true', Bool.or_eq_false_iff, decide_eq_false_iff_not] at hx
    simp [hx.2]
  · exact ⟨n, hn, by simp [hnot], by simp [subHas_subSet]⟩

theorem missing_foldl_lt {U : List Name} {sub : Sub} {n : Name} (outs : List Name) (v : Src)
    (hn : n ∈ U) (hno : n ∈ outs) (hnot : subHas sub n = false) :
    missingCount U (outs.foldl (fun s o => subSet s o v) sub) < missingCount U sub := by
  unfold missingCount
  apply filter_length_lt
  · intro x hx
    simp only [subHas_foldl, Bool.not_eq_true', Bool.or_eq_false_iff, decide_eq_false_iff_not] at hx
    simp [hx.2]
  · exact ⟨n, hn, by simp [hnot], by simp [subHas_foldl, hno]⟩

theorem graphFor_terminates {g : Graph} {P : Name → Bool} (U : List Name) (K : Nat)
    (hK : ∀ r ∈ g, r.ins.length ≤ K) (hU : ∀ r ∈ g, ∀ i ∈ r.ins, i ∈ U) :
    ∀ (fuel : Nat) (stack : List Name) (sub : Sub), (∀ n ∈ stack, n ∈ U) →
      stack.length + (K + 1) * missingCount U sub < fuel → graphFor g P fuel stack sub ≠ .error .fuel
  | 0, _, _, _, h => by omega
  | fuel + 1, [], sub, _, _ => by simp [graphFor]
  | fuel + 1, n :: rest, sub, hst, hlt => by
    unfold graphFor
    have hrest : ∀ x ∈ rest, x ∈ U := fun x hx => hst x (List.mem_cons_of_mem _ hx)
    have hnU : n ∈ U := hst n (by simp)
    simp only [List.length_cons] at hlt
    by_cases hin : subHas sub n = true
    · simp only [hin, if_true]
      exact graphFor_terminates U K hK hU fuel rest sub hrest (by omega)
    · have hin' : subHas sub n = false := by simpa using hin
      simp only [hin', Bool.false_eq_true, if_false]
      by_cases hp : P n = true
      · simp only [hp, if_true]
        have hm := missing_subSet_lt (U := U) Src.fetch hnU hin'
        have : (K + 1) * (missingCount U (subSet sub n .fetch) + 1) ≤ (K + 1) * missingCount U sub :=
          Nat.mul_le_mul_left _ hm
        rw [Nat.mul_succ] at this
        exact graphFor_terminates U K hK hU fuel rest _ hrest (by omega)
      · have hp' : P n = false := by simpa using hp
        simp only [hp', Bool.false_eq_true, if_false]
        cases hfr : findRule g n with
        | none => simp
        | some r =>
          have ⟨hrg, hno⟩ := findRule_some hfr
          have hm := missing_foldl_lt (U := U) r.outs (Src.rule r) hnU hno hin'
          have : (K + 1) * (missingCount U (r.outs.foldl (fun s o => subSet s o (.rule r)) sub) + 1)
              ≤ (K + 1) * missingCount U sub := Nat.mul_le_mul_left _ hm
          rw [Nat.mul_succ] at this
          have hk := hK r hrg
          refine graphFor_terminates U K hK hU fuel _ _ ?_ ?_
          · intro x hx
            rcases List.mem_append.mp hx with h1 | h1
            · exact hU r hrg x (by simpa using h1)
            · exact hrest x h1
          · simp only [List.length_append, List.length_reverse]
            omega


def allNames (g : Graph) : List Name := g.flatMap (fun r => r.outs ++ r.ins)

def termFacts (o : Name) (reach s : Bool) (m : Mode) : Bool :=
  match conversionGraphB T o reach s m with
  | .ok g => g.all (fun r => decide (r.ins.length ≤ 8)) && decide (1 + 9 * ((allNames g).length + 1) < loopFuel)
  | .error _ => false

/-- every assembled graph is small enough for the loop budget: kernels have at most 8 inputs and
`1 + 9·(number of name occurrences + 1) < loopFuel` -/
theorem graphs_small :
    (origins.all fun o => [true, false].all fun reach => [true, false].all fun s =>
      modes.all fun m => termFacts o reach s m) = true := by
  decide +kernel

/-- **`GraphForTerminates` holds**: the loop budget of the literal model is never exhausted, for every
presence predicate, supported origin, target and scatter flag -/
theorem graphFor_terminates_all : GraphForTerminates := by
  intro P o ho t s g hdg
  unfold deduceConversionGraph at hdg
  cases hm : deduceEnergyMode P o t with
  | error e => simp [hm] at hdg
  | ok m =>
    simp only [hm, conversionGraph] at hdg
    have h := graphs_small
    simp only [List.all_eq_true] at h
    have h' := h o ho (reachableBy t (beamline T true)) (by cases reachableBy t (beamline T true) <;> simp)
      s (by cases s <;> simp) m (by cases m <;> simp [modes])
    unfold termFacts at h'
    rw [hdg] at h'
    simp only [Bool.and_eq_true, List.all_eq_true, decide_eq_true_eq] at h'
    obtain ⟨hK, hsz⟩ := h'
    refine graphFor_terminates (allNames g ++ [t]) 8 hK ?_ loopFuel [t] [] (by simp) ?_
    · intro r hr i hi
      simp only [allNames, List.mem_append, List.mem_flatMap]
      exact .inl ⟨r, hr, .inr hi⟩
    · have : missingCount (allNames g ++ [t]) [] ≤ (allNames g ++ [t]).length := List.length_filter_le _ _
      simp only [List.length_append, List.length_cons, List.length_nil] at this ⊢
      omega

/-- **`convert` computed with the literal `graph_for` loop of scipp equals `convert` computed with the
recursive resolution** — full strength: every supported origin, every target, both scatter flags, every
presence predicate that does not supply an output of a multi-output rule (so: all configurations of the
property). Hence `convert_ok_iff`, `never_wrong_mode`, `supplied_takes_precedence` … transfer to the
literal algorithm. -/
theorem convertLiteral_eq_convert (P : Name → Bool) {o : Name} (ho : o ∈ origins) (t : Name) (s : Bool)
    (hP : ∀ n ∈ multiOuts, P n = false) :
    (convertLiteral T P o t s).map (·.2) = convert T P o t s :=
  convertLiteral_eq_convert_partial P ho t s hP (fun g hg => graphFor_terminates_all P o ho t s g hg)

/-- the hypothesis of `convertLiteral_eq_convert` holds for every presence predicate supported on the
11 coordinates, the origins and names that no rule produces -/
example (mask : Nat) (o : Name) (ho : o ∈ origins) :
    ∀ n ∈ multiOuts, (fun n => (n < 11 && mask.testBit n) || n = o) n = false := by
  intro n hn
  have h := graphs_multi_outs.2.1
  simp only [List.all_eq_true, Bool.not_eq_true', List.contains_eq_mem, decide_eq_false_iff_not,
    List.mem_append, List.mem_range, not_or] at h
  have := h n hn
  have h1 : ¬ n < 11 := this.1.1
  have h2 : n ≠ o := fun e => this.1.2 (e ▸ ho)
  simp [h1, h2]


/-! ## The wiring is the documented one

A hand-written table (from the docstrings of `conversion/tof.py`, `conversion/beamline.py` and the
user guide): which coordinate is computed by which kernel from which inputs, per origin. The
generated tables must contain exactly these rules (order irrelevant). Together with the kernel
theorems of C01/C03/C05 (each kernel computes its documented formula) and `supplied_takes_precedence`
(every node of a derivation applies the table's rule for the coordinate it produces) this is the value
clause of the property: the target equals the documented formulas applied, recursively, to the
supplied coordinates. -/

def dictEq (a b : Graph) : Bool := a.all (fun r => b.contains r) && b.all (fun r => a.contains r)

open Gen.Graphs in
def documentedBeamline : Graph := [
  ⟨[nIncidentBeam], k_beamline_straight_incident_beam, [nSourcePosition, nSamplePosition]⟩,
  ⟨[nScatteredBeam], k_beamline_straight_scattered_beam, [nPosition, nSamplePosition]⟩,
  ⟨[nL1], k_beamline_L1, [nIncidentBeam]⟩,
  ⟨[nL2], k_beamline_L2, [nScatteredBeam]⟩,
  ⟨[nTwoTheta], k_beamline_two_theta, [nIncidentBeam, nScatteredBeam]⟩,
  ⟨[nLtotal], k_beamline_total_beam_length, [nL1, nL2]⟩]

open Gen.Graphs in
def documentedNoScatter : Graph := [
  ⟨[nLtotal], k_beamline_total_straight_beam_length_no_scatter, [nSourcePosition, nPosition]⟩]

open Gen.Graphs in
/-- momentum-transfer and hkl part, common to the origins tof and wavelength -/
def documentedQ : Graph := [
  ⟨[nQ], k_tof_Q_from_wavelength, [nWavelength, nTwoTheta]⟩,
  ⟨[nQx, nQy, nQz], k_tof_Q_elements_from_wavelength, [nWavelength, nIncidentBeam, nScatteredBeam]⟩,
  ⟨[nQvec], k_tof_Q_vec_from_Q_elements, [nQx, nQy, nQz]⟩,
  ⟨[nUbMatrix], k_tof_ub_matrix_from_u_and_b, [n_u_matrix, n_b_matrix]⟩,
  ⟨[nHklVec], k_tof_hkl_vec_from_Q_vec, [nQvec, nUbMatrix, n_sample_rotation]⟩,
  ⟨[nH, nK, nL], k_tof_hkl_elements_from_hkl_vec, [nHklVec]⟩]

open Gen.Graphs in
def documentedDynamics : List (Name × Graph) := [
  (nTof, [
    ⟨[nWavelength], k_tof_wavelength_from_tof, [nTof, nLtotal]⟩,
    ⟨[nEnergy], k_tof_energy_from_tof, [nTof, nLtotal]⟩,
    ⟨[nDspacing], k_tof_dspacing_from_tof, [nTof, nLtotal, nTwoTheta]⟩,
    ⟨[nTimeAtSample], k_tof_time_at_sample_from_tof, [n_pulse_time, nTof, nL2, nWavelength]⟩] ++ documentedQ),
  (nWavelength, [
    ⟨[nEnergy], k_tof_energy_from_wavelength, [nWavelength]⟩,
    ⟨[nDspacing], k_tof_dspacing_from_wavelength, [nWavelength, nTwoTheta]⟩] ++ documentedQ),
  (nEnergy, [
    ⟨[nWavelength], k_tof_wavelength_from_energy, [nEnergy]⟩,
    ⟨[nDspacing], k_tof_dspacing_from_energy, [nEnergy, nTwoTheta]⟩]),
  (nQ, [
    ⟨[nWavelength], k_tof_wavelength_from_Q, [nQ, nTwoTheta]⟩])]

open Gen.Graphs in
def documentedDirect : Graph :=
  [⟨[nEnergyTransfer], k_tof_energy_transfer_direct_from_tof, [nTof, nL1, nL2, nIncidentEnergy]⟩]
open Gen.Graphs in
def documentedIndirect : Graph :=
  [⟨[nEnergyTransfer], k_tof_energy_transfer_indirect_from_tof, [nTof, nL1, nL2, nFinalEnergy]⟩]

def lookupEq (doc : List (Name × Graph)) (tbl : List (Name × Graph)) : Bool :=
  decide (doc.length = tbl.length) && doc.all (fun x => match assoc tbl x.1 with
    | some g => dictEq x.2 g
    | none => false)

/-- the generated tables are exactly the documented wiring -/
theorem wiring_as_documented :
    dictEq documentedBeamline T.scatterBeamline = true ∧
    dictEq documentedNoScatter T.noScatterBeamline = true ∧
    lookupEq documentedDynamics T.dynamics = true ∧
    lookupEq [(nTof, documentedDirect)] T.directInelastic = true ∧
    lookupEq [(nTof, documentedIndirect)] T.indirectInelastic = true := by
  decide +kernel


section value
open ScnVerif.ConvertValue

/-! ## The value clause: the derivation evaluates to the documented formula of the target -/

def inelasticRules : Graph := T.directInelastic.flatMap (·.2) ++ T.indirectInelastic.flatMap (·.2)

def valueFacts (o : Name) (reach s : Bool) (m : Mode) : Bool :=
  match conversionGraphB T o reach s m with
  | .ok g =>
    g.all (fun r => (if s then T.scatterBeamline else T.noScatterBeamline).contains r
                    || (T.dynamics.flatMap (·.2)).contains r
                    || (decide (m ≠ .elastic) && inelasticRules.contains r))
  | .error _ => false

/-- every rule of every assembled graph is a rule of the beamline table of its scatter mode, of a dynamics
table, or (inelastic modes only) of the inelastic tables -/
theorem graphs_value_facts :
    (origins.all fun o => [true, false].all fun reach => [true, false].all fun s =>
      modes.all fun m => valueFacts o reach s m) = true := by
  decide +kernel

/-- **every kernel of every conversion graph is sound**: it maps the ground truth of its inputs to the
ground truth (documented formula) of its output — elastic kernels by C01 (`TofPhys.*_phys`), geometry by C03
(`two_theta_eq_angle`, Euclidean norms), inelastic kernels by C05 (`direct_/indirect_conserves_energy`,
under the flight-time relation of the inelastic world), Q-vector / hkl kernels by definition of C08's model -/
theorem kernels_sound (W : World) (hv : W.Valid) {o : Name} (ho : o ∈ origins) (reach s : Bool) (m : Mode)
    {g : Graph} (hg : conversionGraphB T o reach s m = .ok g) (hf : m ≠ .elastic → W.Flight) :
    ∀ r ∈ g, ∀ out ∈ r.outs, sem W r.kernel out (r.ins.map (truth W s)) = truth W s out := by
  have h := graphs_value_facts
  simp only [List.all_eq_true] at h
  have h' := h o ho reach (by cases reach <;> simp) s (by cases s <;> simp) m (by cases m <;> simp [modes])
  unfold valueFacts at h'
  rw [hg] at h'
  simp only [List.all_eq_true, Bool.or_eq_true, Bool.and_eq_true, List.contains_eq_mem, decide_eq_true_eq] at h'
  intro r hr
  rcases h' r hr with (hb | hd) | ⟨hm, hi⟩
  · cases s
    · simp only [Bool.false_eq_true, if_false] at hb
      exact no_scatter_rules_sound W hv r hb
    · simp only [if_true] at hb
      exact scatter_rules_sound W hv r hb
  · exact dynamics_rules_sound W hv s r hd
  · exact inelastic_rules_sound W hv (hf hm) s r hi

/-- **`convert_value`** — for every supported origin, every target, both scatter flags and every presence
predicate: if `convert` returns the derivation `d`, and the supplied coordinates carry the ground-truth values of
one neutron on one straight beamline `W` (for the target `energy_transfer`: a neutron obeying the inelastic
flight-time relation), then evaluating `d` with the ℝ semantics of the kernels yields the documented value of
the target: λ = h t/(m_n L), E = m_n L²/(2t²), d = λ/(2 sin θ), Q = 4π sin θ/λ, L1/L2/Ltotal Euclidean, 2θ the
Euclidean angle, ΔE = Ei − Ef, Q⃗ = (2π/λ)(ê_i − ê_f), hkl = (R·UB)⁻¹Q⃗/2π, t_sample = t_pulse + t − L2/v. -/
theorem convert_value (W : World) (hv : W.Valid) (P : Name → Bool) {o : Name} (ho : o ∈ origins) (t : Name)
    (s : Bool) {d : Term} (h : convert T P o t s = .ok d) (env : Name → Val)
    (henv : ∀ n, P n = true → env n = truth W s n)
    (hfl : t = nEnergyTransfer → W.Flight) :
    d.eval (sem W) env = truth W s t := by
  cases hm : deduceEnergyMode P o t with
  | error e => simp [convert, deduceConversionGraph, hm] at h
  | ok m =>
    obtain ⟨g, tbl, hg, _, _, _, _, hc⟩ := convert_unfold P ho t s hm
    have hres : resolve g P (fuelFor g) t = .ok d := by
      rw [hc] at h
      cases hr : resolve g P (fuelFor g) t with
      | ok d' => simp [hr] at h; rw [h]
      | error e => cases e <;> simp [hr] at h
    have hmode : m ≠ .elastic → W.Flight := by
      intro hne
      obtain ⟨sd, si, _⟩ := deduceEnergyMode_spec hm
      cases m with
      | elastic => exact absurd rfl hne
      | direct => exact hfl (sd rfl).1
      | indirect => exact hfl (si rfl).1
    exact eval_sound (sem W) env (truth W s) henv
      (kernels_sound W hv ho (reachableBy t (beamline T true)) s m hg hmode) hres


/-- the documented formulas, spelled out for the scalar targets (corollary of `convert_value`; `dist` is the
Euclidean distance of C03, `V3R.angle` the Euclidean angle `arccos(⟪a,b⟫/(‖a‖‖b‖))`) -/
theorem convert_value_formulas (W : World) (hv : W.Valid) (P : Name → Bool) {o : Name} (ho : o ∈ origins) (t : Name)
    (s : Bool) {d : Term} (h : convert T P o t s = .ok d) (env : Name → Val)
    (henv : ∀ n, P n = true → env n = truth W s n) (hfl : t = nEnergyTransfer → W.Flight) :
    let L : ℝ := if s then Props.C03.dist W.sample W.source + Props.C03.dist W.position W.sample
                 else Props.C03.dist W.position W.source
    let lam : ℝ := W.h * (W.t * W.sT) / (W.mn * (L * W.sL))
    (t = nWavelength → d.eval (sem W) env = .s (lam / W.sA)) ∧
    (t = nEnergy → d.eval (sem W) env = .s (W.mn * (L * W.sL) ^ 2 / (2 * (W.t * W.sT) ^ 2) / W.sE)) ∧
    (t = nDspacing → d.eval (sem W) env = .s (lam / (2 * Real.sin (V3R.angle W.ib W.sb / 2)) / W.sA)) ∧
    (t = nQ → d.eval (sem W) env = .s (4 * Real.pi * Real.sin (V3R.angle W.ib W.sb / 2) / (lam / W.sA))) ∧
    (t = nEnergyTransfer → d.eval (sem W) env = .s (W.Ei - W.Ef)) ∧
    (t = nL1 → d.eval (sem W) env = .s (Props.C03.dist W.sample W.source)) ∧
    (t = nL2 → d.eval (sem W) env = .s (Props.C03.dist W.position W.sample)) ∧
    (t = nLtotal → d.eval (sem W) env = .s L) ∧
    (t = nTwoTheta → d.eval (sem W) env = .s (V3R.angle W.ib W.sb)) := by
  intro L lam
  rw [convert_value W hv P ho t s h env henv hfl]
  have hL : W.Ltot s = L := by
    simp only [World.Ltot, World.L1, World.L2, World.ib, World.sb, Beamline.straightIncidentBeam,
      Beamline.straightScatteredBeam, Props.C03.norm_sub_eq_dist, L]
  have hlam : W.lam s = lam := by simp only [World.lam, hL, lam]
  refine ⟨?_, ?_, ?_, ?_, ?_, ?_, ?_, ?_, ?_⟩ <;> intro ht <;> subst ht
  · simp [truth, nWavelength, nPosition, nSourcePosition, nSamplePosition, nIncidentBeam, nScatteredBeam, nL1, nL2,
      nLtotal, nTwoTheta, nIncidentEnergy, nFinalEnergy, nTof, hlam]
  · simp [truth, nEnergy, nWavelength, nPosition, nSourcePosition, nSamplePosition, nIncidentBeam, nScatteredBeam, nL1,
      nL2, nLtotal, nTwoTheta, nIncidentEnergy, nFinalEnergy, nTof, World.energy, hL]
  · simp [truth, nDspacing, nQ, nEnergy, nWavelength, nPosition, nSourcePosition, nSamplePosition, nIncidentBeam,
      nScatteredBeam, nL1, nL2, nLtotal, nTwoTheta, nIncidentEnergy, nFinalEnergy, nTof, hlam, World.θ]
  · simp [truth, nQ, nEnergy, nWavelength, nPosition, nSourcePosition, nSamplePosition, nIncidentBeam,
      nScatteredBeam, nL1, nL2, nLtotal, nTwoTheta, nIncidentEnergy, nFinalEnergy, nTof, hlam, World.θ]
  · simp [truth, nEnergyTransfer, nDspacing, nQ, nEnergy, nWavelength, nPosition, nSourcePosition, nSamplePosition,
      nIncidentBeam, nScatteredBeam, nL1, nL2, nLtotal, nTwoTheta, nIncidentEnergy, nFinalEnergy, nTof]
  · simp [truth, nL1, nPosition, nSourcePosition, nSamplePosition, nIncidentBeam, nScatteredBeam, World.L1, World.ib,
      Beamline.straightIncidentBeam, Props.C03.norm_sub_eq_dist]
  · simp [truth, nL2, nL1, nPosition, nSourcePosition, nSamplePosition, nIncidentBeam, nScatteredBeam, World.L2,
      World.sb, Beamline.straightScatteredBeam, Props.C03.norm_sub_eq_dist]
  · simp [truth, nLtotal, nL2, nL1, nPosition, nSourcePosition, nSamplePosition, nIncidentBeam, nScatteredBeam, hL]
  · simp [truth, nTwoTheta, nLtotal, nL2, nL1, nPosition, nSourcePosition, nSamplePosition, nIncidentBeam,
      nScatteredBeam, World.θ]

/-! ### non-vacuity: a valid inelastic world and a concrete conversion -/

/-- source at (0,0,−1), sample at the origin, detector at (0,1,0): 2θ = π/2; m_n = 2, Ei = 4, Ef = 1 (speeds 2 and 1),
arrival time 1/2 + 1 -/
noncomputable def exWorld : World :=
  { h := 1, mn := 2, sT := 1, sL := 1, sA := 1, sE := 1, sEn := 1,
    source := ⟨0, 0, -1⟩, sample := ⟨0, 0, 0⟩, position := ⟨0, 1, 0⟩,
    t := 3 / 2, pulse := 0, Ei := 4, Ef := 1,
    U := ⟨1, 0, 0, 0, 1, 0, 0, 0, 1⟩, B := ⟨1, 0, 0, 0, 1, 0, 0, 0, 1⟩, R := ⟨1, 0, 0, 0, 1, 0, 0, 0, 1⟩ }

theorem exWorld_norms : exWorld.L1 = 1 ∧ exWorld.L2 = 1 := by
  constructor <;>
    simp [World.L1, World.L2, World.ib, World.sb, exWorld, Beamline.straightIncidentBeam,
      Beamline.straightScatteredBeam, V3.norm, V3.dot, V3.sub]

theorem exWorld_theta : exWorld.θ = Real.pi / 2 := by
  have hc : V3R.cosAngle exWorld.ib exWorld.sb = 0 := by
    simp [V3R.cosAngle, World.ib, World.sb, exWorld, Beamline.straightIncidentBeam,
      Beamline.straightScatteredBeam, V3.dot, V3.sub]
  simp [World.θ, V3R.angle, hc]

theorem exWorld_valid : exWorld.Valid ∧ exWorld.Flight := by
  have hne : ∀ a b : V3 ℝ, a.x ≠ b.x ∨ a.y ≠ b.y ∨ a.z ≠ b.z → a ≠ b := by
    intro a b h e; subst e; simp at h
  refine ⟨⟨?_, ?_, ?_, ?_, ?_, ?_, ?_, ?_, ?_, ?_, ?_, ?_, ?_, ?_⟩, ?_⟩
  any_goals (simp [exWorld]; done)
  · exact hne _ _ (.inr (.inr (by simp [World.ib, exWorld, Beamline.straightIncidentBeam, V3.sub, V3R.zero])))
  · exact hne _ _ (.inr (.inl (by simp [World.sb, exWorld, Beamline.straightScatteredBeam, V3.sub, V3R.zero])))
  · exact hne _ _ (.inr (.inl (by simp [exWorld, V3.sub, V3R.zero])))
  · rw [exWorld_theta]
    exact Real.sin_pos_of_pos_of_lt_pi (by positivity) (by linarith [Real.pi_pos])
  · unfold World.Flight
    rw [exWorld_norms.1, exWorld_norms.2]
    have h1 := Lemmas.Inelastic.speed_example
    simp only [exWorld]
    rw [h1.1, h1.2]; norm_num

/-- `convert_value` applied: tof → energy_transfer on direct-inelastic data of `exWorld` gives Ei − Ef = 3 -/
example (d : Term) (h : convert T exDirect nTof nEnergyTransfer true = .ok d) (env : Name → Val)
    (henv : ∀ n, exDirect n = true → env n = truth exWorld true n) :
    d.eval (sem exWorld) env = .s 3 := by
  have := (convert_value_formulas exWorld exWorld_valid.1 exDirect (o := nTof) (by decide +kernel)
    nEnergyTransfer true h env henv (fun _ => exWorld_valid.2)).2.2.2.2.1 rfl
  rw [this]; simp [exWorld]; norm_num


end value

end ScnVerif.Props.C02
