import ScnVerif.Model.DiskChopper
import ScnVerif.Lemmas.ChopperRound
import ScnVerif.Lemmas.ChopperRatReal
import Mathlib.Tactic.Ring
import Mathlib.Tactic.Linarith
import Mathlib.Tactic.FieldSimp
import Mathlib.Tactic.Positivity
import Mathlib.Data.Real.Basic
/-!
# C10 — disk-chopper open/close times are exactly the openings of the rotating disk

Angles in turns, frequency in turns per unit time (negative = clockwise), over `ℝ`.
-/
namespace ScnVerif.Props.C10
open ScnVerif ScnVerif.DiskChopper ScnVerif.ChopperRat ScnVerif.Filtering ScnVerif.Lemmas.ChopperRound
open ScnVerif.Lemmas.ChopperRatReal

/-! ## Specification: the uniformly rotating disk

At pulse-relative time `t` the disk has turned by `f·t − phase` turns since its TDC mark passed
the TDC sensor, so the disk point at angle `θ` (anticlockwise from the mark) is at lab angle
`θ + f·t − phase`. The beam crosses the disk at lab angle `beam`. -/

/-- lab angle (turns) of the disk point `θ` at time `t` -/
def labAngle (d : Disk ℝ) (θ t : ℝ) : ℝ := θ + d.freq * t - d.phase

/-- slit `s = (begin, end)` is over the beam at `t`: some point of the slit is at the beam position,
modulo whole turns -/
def SlitOpenAt (d : Disk ℝ) (s : ℝ × ℝ) (t : ℝ) : Prop :=
  ∃ θ, s.1 ≤ θ ∧ θ ≤ s.2 ∧ ∃ k : ℤ, labAngle d θ t = d.beam + k

/-- the chopper is open at `t` -/
def OpenAt (d : Disk ℝ) (t : ℝ) : Prop := ∃ s ∈ d.slits, SlitOpenAt d s t

/-- the same with the disk angle under the beam, `beam + phase − f·t` -/
theorem slitOpenAt_iff_beamAngle (d : Disk ℝ) (s : ℝ × ℝ) (t : ℝ) :
    SlitOpenAt d s t ↔ ∃ k : ℤ, s.1 ≤ d.beam + d.phase - d.freq * t + k ∧ d.beam + d.phase - d.freq * t + k ≤ s.2 := by
  unfold SlitOpenAt labAngle
  constructor
  · rintro ⟨θ, h1, h2, k, hk⟩
    refine ⟨k, ?_, ?_⟩ <;> linarith
  · rintro ⟨k, h1, h2⟩
    exact ⟨d.beam + d.phase - d.freq * t + k, h1, h2, k, by ring⟩

/-! ## Normal form of the code's times -/

/-- the time the code reports for the opening of slit `s` in turn `k` -/
noncomputable def openTime (d : Disk ℝ) (s : ℝ × ℝ) (k : ℤ) : ℝ :=
  timeOfAngle d (if isClockwise d then s.1 + ((k : Int) : ℝ) else s.2 - ((k : Int) : ℝ))

noncomputable def closeTime (d : Disk ℝ) (s : ℝ × ℝ) (k : ℤ) : ℝ :=
  timeOfAngle d (if isClockwise d then s.2 + ((k : Int) : ℝ) else s.1 - ((k : Int) : ℝ))

/-- the list of `(open, close)` pairs in the order of the code's output -/
noncomputable def openings (d : Disk ℝ) (n : Nat) : List (ℝ × ℝ) :=
  (turns n).flatMap (fun k => d.slits.map (fun s => (openTime d s k, closeTime d s k)))

theorem timeOffsetOpen_eq (d : Disk ℝ) (n : Nat) : timeOffsetOpen d n = (openings d n).map Prod.fst := by
  simp only [timeOffsetOpen, timeOffsetAngleAtBeam, applyAngleRepetitions, openings, openTime,
    List.map_flatMap, List.map_map]
  congr 1
  funext k
  apply List.map_congr_left
  intro s _
  by_cases h : isClockwise d = true <;> simp [h]

theorem timeOffsetClose_eq (d : Disk ℝ) (n : Nat) : timeOffsetClose d n = (openings d n).map Prod.snd := by
  simp only [timeOffsetClose, timeOffsetAngleAtBeam, applyAngleRepetitions, openings, closeTime,
    List.map_flatMap, List.map_map]
  congr 1
  funext k
  apply List.map_congr_left
  intro s _
  by_cases h : isClockwise d = true <;> simp [h]

theorem mem_openings (d : Disk ℝ) (n : Nat) (p : ℝ × ℝ) :
    p ∈ openings d n ↔ ∃ k ∈ turns n, ∃ s ∈ d.slits, p = (openTime d s k, closeTime d s k) := by
  simp only [openings, List.mem_flatMap, List.mem_map]
  constructor
  · rintro ⟨k, hk, s, hs, rfl⟩; exact ⟨k, hk, s, hs, rfl⟩
  · rintro ⟨k, hk, s, hs, rfl⟩; exact ⟨k, hk, s, hs, rfl⟩

theorem mem_turns (n : Nat) (k : ℤ) : k ∈ turns n ↔ -1 ≤ k ∧ k < n := by
  simp only [turns, List.mem_map, List.mem_range]
  constructor
  · rintro ⟨i, hi, rfl⟩; omega
  · rintro ⟨h1, h2⟩; exact ⟨(k + 1).toNat, by omega, by omega⟩

/-- angular positions (in turns of `|f|·t`) of the opening and closing edge -/
noncomputable def aOpen (d : Disk ℝ) (s : ℝ × ℝ) : ℝ :=
  if isClockwise d then s.1 - (d.beam + d.phase) else 1 + (d.beam + d.phase) - s.2
noncomputable def aClose (d : Disk ℝ) (s : ℝ × ℝ) : ℝ :=
  if isClockwise d then s.2 - (d.beam + d.phase) else 1 + (d.beam + d.phase) - s.1

theorem isClockwise_iff (d : Disk ℝ) : isClockwise d = true ↔ d.freq < 0 := by
  simp [isClockwise]

theorem openTime_eq (d : Disk ℝ) (hf : d.freq ≠ 0) (s : ℝ × ℝ) (k : ℤ) :
    openTime d s k = (aOpen d s + k) / |d.freq| := by
  unfold openTime aOpen timeOfAngle
  by_cases h : isClockwise d = true
  · have hneg : d.freq < 0 := (isClockwise_iff d).mp h
    simp only [h, if_true, abs_of_neg hneg]
    rw [div_eq_div_iff hf (neg_ne_zero.mpr hf)]; ring
  · have hpos : 0 < d.freq := lt_of_le_of_ne (not_lt.mp (fun hh => h ((isClockwise_iff d).mpr hh))) (Ne.symm hf)
    simp only [h, abs_of_pos hpos, Int.cast_one]
    simp; ring

theorem closeTime_eq (d : Disk ℝ) (hf : d.freq ≠ 0) (s : ℝ × ℝ) (k : ℤ) :
    closeTime d s k = (aClose d s + k) / |d.freq| := by
  unfold closeTime aClose timeOfAngle
  by_cases h : isClockwise d = true
  · have hneg : d.freq < 0 := (isClockwise_iff d).mp h
    simp only [h, if_true, abs_of_neg hneg]
    rw [div_eq_div_iff hf (neg_ne_zero.mpr hf)]; ring
  · have hpos : 0 < d.freq := lt_of_le_of_ne (not_lt.mp (fun hh => h ((isClockwise_iff d).mpr hh))) (Ne.symm hf)
    simp only [h, abs_of_pos hpos, Int.cast_one]
    simp; ring

theorem aClose_sub_aOpen (d : Disk ℝ) (s : ℝ × ℝ) : aClose d s - aOpen d s = s.2 - s.1 := by
  unfold aClose aOpen; split <;> ring

/-- slit `s` is over the beam at `t` iff `|f|·t` lies in `[aOpen + k, aClose + k]` for an integer `k` -/
theorem slitOpenAt_iff (d : Disk ℝ) (hf : d.freq ≠ 0) (s : ℝ × ℝ) (t : ℝ) :
    SlitOpenAt d s t ↔ ∃ k : ℤ, aOpen d s + k ≤ |d.freq| * t ∧ |d.freq| * t ≤ aClose d s + k := by
  rw [slitOpenAt_iff_beamAngle]
  unfold aOpen aClose
  by_cases h : isClockwise d = true
  · have hneg : d.freq < 0 := (isClockwise_iff d).mp h
    simp only [h, if_true, abs_of_neg hneg]
    constructor
    · rintro ⟨k, h1, h2⟩; exact ⟨-k, by push_cast; linarith, by push_cast; linarith⟩
    · rintro ⟨k, h1, h2⟩; exact ⟨-k, by push_cast; linarith, by push_cast; linarith⟩
  · have hpos : 0 < d.freq := lt_of_le_of_ne (not_lt.mp (fun hh => h ((isClockwise_iff d).mpr hh))) (Ne.symm hf)
    simp only [h, abs_of_pos hpos, Bool.false_eq_true, if_false]
    constructor
    · rintro ⟨k, h1, h2⟩; exact ⟨k - 1, by push_cast; linarith, by push_cast; linarith⟩
    · rintro ⟨k, h1, h2⟩; exact ⟨k + 1, by push_cast; linarith, by push_cast; linarith⟩

/-- … i.e. iff `t` lies in one of the intervals `[openTime s k, closeTime s k]`, `k ∈ ℤ` -/
theorem slitOpenAt_iff_times (d : Disk ℝ) (hf : d.freq ≠ 0) (s : ℝ × ℝ) (t : ℝ) :
    SlitOpenAt d s t ↔ ∃ k : ℤ, openTime d s k ≤ t ∧ t ≤ closeTime d s k := by
  have hF : 0 < |d.freq| := abs_pos.mpr hf
  rw [slitOpenAt_iff d hf]
  simp only [openTime_eq d hf, closeTime_eq d hf, div_le_iff₀ hF, le_div_iff₀ hF]
  constructor <;> rintro ⟨k, h1, h2⟩ <;> exact ⟨k, by linarith, by linarith⟩

/-! ## The property theorems for `time_offset_open` / `time_offset_close` / `open_duration` -/

/-- closed form of the output: turn by turn (`k = −1, …, n−1`), within a turn the slits in the given
order, at `(a + k)/|f|` -/
theorem openings_closed_form (d : Disk ℝ) (hf : d.freq ≠ 0) (n : Nat) :
    openings d n = (turns n).flatMap (fun (k : ℤ) => d.slits.map (fun s =>
      ((aOpen d s + ((k : ℤ) : ℝ)) / |d.freq|, (aClose d s + ((k : ℤ) : ℝ)) / |d.freq|))) := by
  simp only [openings, openTime_eq d hf, closeTime_eq d hf]

/-- **open_lt_close**, both senses of rotation -/
theorem open_lt_close (d : Disk ℝ) (hf : d.freq ≠ 0) (n : Nat) (hs : ∀ s ∈ d.slits, s.1 < s.2) :
    ∀ p ∈ openings d n, p.1 < p.2 := by
  intro p hp
  obtain ⟨k, _, s, hs', rfl⟩ := (mem_openings d n p).mp hp
  have hF : 0 < |d.freq| := abs_pos.mpr hf
  simp only [openTime_eq d hf, closeTime_eq d hf]
  apply div_lt_div_of_pos_right _ hF
  have := aClose_sub_aOpen d s
  have := hs s hs'
  linarith

/-- the same, entry by entry on the two arrays the code returns -/
theorem open_lt_close_entrywise (d : Disk ℝ) (hf : d.freq ≠ 0) (n : Nat) (hs : ∀ s ∈ d.slits, s.1 < s.2)
    (i : Nat) (o c : ℝ) (ho : (timeOffsetOpen d n)[i]? = some o) (hc : (timeOffsetClose d n)[i]? = some c) :
    o < c := by
  rw [timeOffsetOpen_eq, List.getElem?_map] at ho
  rw [timeOffsetClose_eq, List.getElem?_map] at hc
  cases hp : (openings d n)[i]? with
  | none => simp [hp] at ho
  | some p =>
    simp only [hp, Option.map_some, Option.some.injEq] at ho hc
    subst ho hc
    exact open_lt_close d hf n hs p (List.mem_of_getElem? hp)

/-- **open_throughout**: during every reported interval a slit is over the beam -/
theorem open_throughout (d : Disk ℝ) (hf : d.freq ≠ 0) (n : Nat) :
    ∀ p ∈ openings d n, ∀ t, p.1 ≤ t → t ≤ p.2 → OpenAt d t := by
  intro p hp t h1 h2
  obtain ⟨k, _, s, hs, rfl⟩ := (mem_openings d n p).mp hp
  exact ⟨s, hs, (slitOpenAt_iff_times d hf s t).mpr ⟨k, h1, h2⟩⟩

/-- **duration_eq_width_over_speed** -/
theorem duration_eq_width_over_speed (d : Disk ℝ) (hf : d.freq ≠ 0) (s : ℝ × ℝ) (k : ℤ) :
    closeTime d s k - openTime d s k = (s.2 - s.1) / |d.freq| := by
  rw [openTime_eq d hf, closeTime_eq d hf, ← aClose_sub_aOpen d s]; ring

/-- `open_duration` is, entry by entry, the slit width over the speed -/
theorem openDuration_eq (d : Disk ℝ) (hf : d.freq ≠ 0) (n : Nat) :
    openDuration d n = (turns n).flatMap (fun _ => d.slits.map (fun s => (s.2 - s.1) / |d.freq|)) := by
  rw [openDuration, timeOffsetOpen_eq, timeOffsetClose_eq, List.zipWith_map, List.zipWith_self]
  simp only [openings, List.map_flatMap, List.map_map]
  congr 1
  funext k
  apply List.map_congr_left
  intro s _
  simpa using duration_eq_width_over_speed d hf s k

/-- **one_opening_per_slit_per_turn**: consecutive entries of a slit are exactly one rotation period
apart (so they are distinct), and there are `n + 1` turns of all slits -/
theorem one_opening_per_slit_per_turn (d : Disk ℝ) (hf : d.freq ≠ 0) (s : ℝ × ℝ) (k : ℤ) :
    openTime d s (k + 1) = openTime d s k + 1 / |d.freq| ∧
    closeTime d s (k + 1) = closeTime d s k + 1 / |d.freq| := by
  simp only [openTime_eq d hf, closeTime_eq d hf]
  push_cast
  constructor <;> ring

theorem openTime_strictMono (d : Disk ℝ) (hf : d.freq ≠ 0) (s : ℝ × ℝ) (k k' : ℤ) (h : k < k') :
    openTime d s k < openTime d s k' := by
  have hF : 0 < |d.freq| := abs_pos.mpr hf
  simp only [openTime_eq d hf]
  apply div_lt_div_of_pos_right _ hF
  have : (k : ℝ) < k' := by exact_mod_cast h
  linarith

theorem openings_length (d : Disk ℝ) (n : Nat) : (openings d n).length = (n + 1) * d.slits.length := by
  simp [openings, turns, List.length_flatMap, Function.comp_def, List.map_const']

/-! ### closed just outside -/

/-- every copy (shift by whole turns) of every slit keeps an angular distance `g` from every other copy:
the slits are disjoint **on the circle**, with margin `g` -/
def Separated (slits : List (ℝ × ℝ)) (g : ℝ) : Prop :=
  ∀ s ∈ slits, ∀ s' ∈ slits, ∀ j : ℤ, (s' = s ∧ j = 0) ∨ s.2 + g ≤ s'.1 + j ∨ s'.2 + j + g ≤ s.1

theorem separated_normal_form (d : Disk ℝ) (g : ℝ) (h : Separated d.slits g)
    (s : ℝ × ℝ) (hs : s ∈ d.slits) (s' : ℝ × ℝ) (hs' : s' ∈ d.slits) (j : ℤ) :
    (s' = s ∧ j = 0) ∨ aClose d s + g ≤ aOpen d s' + j ∨ aClose d s' + j + g ≤ aOpen d s := by
  unfold aOpen aClose
  by_cases hc : isClockwise d = true
  · simp only [hc, if_true]
    rcases h s hs s' hs' j with h0 | h1 | h2
    · exact Or.inl h0
    · right; left; linarith
    · right; right; linarith
  · simp only [hc, Bool.false_eq_true, if_false]
    rcases h s hs s' hs' (-j) with ⟨h0, hj⟩ | h1 | h2
    · exact Or.inl ⟨h0, by omega⟩
    · right; right; push_cast at h1; linarith
    · right; left; push_cast at h2; linarith

/-- **closed_just_outside**: for slits that are disjoint on the circle (margin `g`), no slit is over
the beam during `g/|f|` before the reported opening time and after the reported closing time -/
theorem closed_just_outside (d : Disk ℝ) (hf : d.freq ≠ 0) (n : Nat) (g : ℝ)
    (hsep : Separated d.slits g) (hs : ∀ s ∈ d.slits, s.1 ≤ s.2) :
    ∀ p ∈ openings d n, ∀ t,
      (p.1 - g / |d.freq| < t ∧ t < p.1) ∨ (p.2 < t ∧ t < p.2 + g / |d.freq|) → ¬ OpenAt d t := by
  intro p hp t ht
  obtain ⟨k, _, s, hsm, rfl⟩ := (mem_openings d n p).mp hp
  have hF : 0 < |d.freq| := abs_pos.mpr hf
  rintro ⟨s', hs'm, hopen⟩
  obtain ⟨k', h1, h2⟩ := (slitOpenAt_iff d hf s' t).mp hopen
  have hw := aClose_sub_aOpen d s
  have hw' := aClose_sub_aOpen d s'
  have hb := hs s hsm
  have hb' := hs s' hs'm
  have hsepn := separated_normal_form d g hsep s hsm s' hs'm (k' - k)
  push_cast at hsepn
  simp only [openTime_eq d hf, closeTime_eq d hf] at ht
  rcases ht with ⟨ht1, ht2⟩ | ⟨ht1, ht2⟩
  · have e1 : aOpen d s + k - g < |d.freq| * t := by
      have := (div_lt_iff₀ hF).mp (by rw [sub_div]; exact ht1 : (aOpen d s + k - g) / |d.freq| < t)
      linarith
    have e2 : |d.freq| * t < aOpen d s + k := by
      have := (lt_div_iff₀ hF).mp ht2; linarith
    rcases hsepn with ⟨rfl, hj⟩ | h | h
    · have : (k' : ℝ) = k := by
        have : k' = k := by omega
        exact_mod_cast this
      linarith
    · linarith
    · linarith
  · have e1 : aClose d s + k < |d.freq| * t := by
      have := (div_lt_iff₀ hF).mp ht1; linarith
    have e2 : |d.freq| * t < aClose d s + k + g := by
      have := (lt_div_iff₀ hF).mp (by rw [add_div]; exact ht2 : t < (aClose d s + k + g) / |d.freq|)
      linarith
    rcases hsepn with ⟨rfl, hj⟩ | h | h
    · have : (k' : ℝ) = k := by
        have : k' = k := by omega
        exact_mod_cast this
      linarith
    · linarith
    · linarith

/-! ### none missing -/

/-- the slits lie within one turn of each other (as in NeXus files: begins in `[0°, 360°)`, the last
end possibly beyond 360°) -/
def WithinOneTurn (slits : List (ℝ × ℝ)) : Prop :=
  ∃ base : ℝ, ∀ s ∈ slits, base ≤ s.1 ∧ s.1 ≤ s.2 ∧ s.2 < base + 1

theorem withinOneTurn_normal_form (d : Disk ℝ) (h : WithinOneTurn d.slits)
    (s : ℝ × ℝ) (hs : s ∈ d.slits) (s' : ℝ × ℝ) (hs' : s' ∈ d.slits) :
    aClose d s' < aOpen d s + 1 := by
  obtain ⟨base, hb⟩ := h
  have h1 := hb s hs
  have h2 := hb s' hs'
  unfold aOpen aClose
  split <;> linarith

/-- **none_missing**: if a slit is over the beam at a time `t` that lies inside the reported span
(not before the first reported opening, not after the last reported closing), then `t` lies in one
of the reported intervals -/
theorem none_missing (d : Disk ℝ) (hf : d.freq ≠ 0) (n : Nat) (hw : WithinOneTurn d.slits)
    (t : ℝ) (hopen : OpenAt d t)
    (hlo : ∃ p ∈ openings d n, p.1 ≤ t) (hhi : ∃ p ∈ openings d n, t ≤ p.2) :
    ∃ p ∈ openings d n, p.1 ≤ t ∧ t ≤ p.2 := by
  have hF : 0 < |d.freq| := abs_pos.mpr hf
  obtain ⟨s, hs, hso⟩ := hopen
  obtain ⟨k, hk1, hk2⟩ := (slitOpenAt_iff d hf s t).mp hso
  obtain ⟨p0, hp0, hp0t⟩ := hlo
  obtain ⟨p1, hp1, hp1t⟩ := hhi
  obtain ⟨k0, hk0, s0, hs0, rfl⟩ := (mem_openings d n p0).mp hp0
  obtain ⟨k1, hk1', s1, hs1, rfl⟩ := (mem_openings d n p1).mp hp1
  rw [mem_turns] at hk0 hk1'
  simp only [openTime_eq d hf, closeTime_eq d hf, div_le_iff₀ hF, le_div_iff₀ hF] at hp0t hp1t
  have ha := withinOneTurn_normal_form d hw s0 hs0 s hs     -- aClose s < aOpen s0 + 1
  have hb := withinOneTurn_normal_form d hw s hs s1 hs1     -- aClose s1 < aOpen s + 1
  have hkl : -1 ≤ k := by
    by_contra hc
    have : (k : ℝ) ≤ -2 := by
      have : k ≤ -2 := by omega
      exact_mod_cast this
    have : (-1 : ℝ) ≤ k0 := by exact_mod_cast hk0.1
    linarith
  have hku : k < n := by
    by_contra hc
    have : (n : ℝ) ≤ k := by
      have : (n : ℤ) ≤ k := by omega
      exact_mod_cast this
    have : (k1 : ℝ) ≤ n - 1 := by
      have : k1 ≤ (n : ℤ) - 1 := by omega
      exact_mod_cast this
    linarith
  refine ⟨(openTime d s k, closeTime d s k), (mem_openings d n _).mpr ⟨k, (mem_turns n k).mpr ⟨hkl, hku⟩, s, hs, rfl⟩, ?_, ?_⟩
  · simp only [openTime_eq d hf, div_le_iff₀ hF]; linarith
  · simp only [closeTime_eq d hf, le_div_iff₀ hF]; linarith

/-! ## Integer-ratio test (`_source_phase_factor`, `_is_int_or_inverse_int`) -/

theorem rintReal_eq_of_near (x : ℝ) (m : ℤ) (h : |x - m| < 1 / 2) : rintReal x = m := by
  have h1 : |((rintReal x - m : ℤ) : ℝ)| < 1 := by
    push_cast
    calc |(rintReal x : ℝ) - m| = |((rintReal x : ℝ) - x) + (x - m)| := by ring_nf
      _ ≤ |(rintReal x : ℝ) - x| + |x - m| := abs_add_le _ _
      _ < 1 := by linarith [rintReal_near x]
  have h2 : |rintReal x - m| < 1 := by exact_mod_cast h1
  have := Int.abs_lt_one_iff.mp h2; omega

/-- **phase_factor_accept_iff**: a frequency is accepted iff the pulse frequency is positive and
`x = |f|/f_pulse` or `1/x` is within `rtol` of an integer; the value returned is `round(max(x, 1))` -/
theorem phase_factor_accept_iff (f pf rtol : ℝ) (h : rtol ≤ 1 / 2) (n : ℤ) :
    sourcePhaseFactor f pf rtol = .ok n ↔
      0 < pf ∧ ((∃ m : ℤ, |(|f|) / pf - m| < rtol) ∨ (∃ m : ℤ, |1 / (|f| / pf) - m| < rtol)) ∧
      n = rintReal (max (|f| / pf) 1) := by
  unfold sourcePhaseFactor
  simp only [Int.cast_zero, Int.cast_one, absv_eq_abs]
  by_cases hpf : pf ≤ 0
  · simp [hpf, not_lt.mpr hpf]
  · simp only [hpf, if_false, not_le.mp hpf, true_and]
    by_cases hacc : isIntOrInverseInt (|f| / pf) rtol = true
    · have := (int_or_inverse_iff _ _ h).mp hacc
      simp only [hacc, Bool.not_true, Bool.false_eq_true, if_false, Except.ok.injEq, this, true_and]
      have hmax : (if |f| / pf < 1 then (1 : ℝ) else |f| / pf) = max (|f| / pf) 1 := by
        split
        · next hlt => rw [max_eq_right (le_of_lt hlt)]
        · next hge => rw [max_eq_left (not_lt.mp hge)]
      rw [hmax]
      exact ⟨fun e => e.symm, fun e => e.symm⟩
    · have hn := fun hh => hacc ((int_or_inverse_iff _ _ h).mpr hh)
      simp only [hacc, Bool.not_false, if_true]
      constructor
      · intro e; cases e
      · rintro ⟨hh, _⟩; exact absurd hh hn

/-- every other frequency is rejected with `ValueError` -/
theorem phase_factor_reject (f pf rtol : ℝ) (h : rtol ≤ 1 / 2)
    (hrej : pf ≤ 0 ∨ ¬ ((∃ m : ℤ, |(|f|) / pf - m| < rtol) ∨ (∃ m : ℤ, |1 / (|f| / pf) - m| < rtol))) :
    sourcePhaseFactor f pf rtol = .error .value := by
  cases hres : sourcePhaseFactor f pf rtol with
  | error e => cases e <;> first | rfl | (exfalso; revert hres; unfold sourcePhaseFactor; simp only []; split <;> [simp; (split <;> simp)])
  | ok n =>
    have := (phase_factor_accept_iff f pf rtol h n).mp hres
    rcases hrej with hp | hn
    · linarith [this.1]
    · exact absurd this.2.1 hn

/-- for a ratio within `rtol < 1/2` of an integer `m ≥ 1` the number of repetitions is `m` -/
theorem phase_factor_value (f pf rtol : ℝ) (h : rtol ≤ 1 / 2) (m : ℤ) (hm : 1 ≤ m) (hpf : 0 < pf)
    (hx : |(|f|) / pf - m| < rtol) : sourcePhaseFactor f pf rtol = .ok m := by
  rw [phase_factor_accept_iff f pf rtol h]
  refine ⟨hpf, Or.inl ⟨m, hx⟩, ?_⟩
  symm
  apply rintReal_eq_of_near
  have hm' : (1 : ℝ) ≤ m := by exact_mod_cast hm
  rcases le_total (|f| / pf) 1 with hle | hge
  · rw [max_eq_right hle]
    rw [abs_lt] at hx ⊢
    constructor <;> linarith [hx.1, hx.2]
  · rw [max_eq_left hge]; linarith

/-- for sub-harmonic choppers (`|f| = f_pulse/m`) one repetition is used -/
theorem phase_factor_subharmonic (f pf rtol : ℝ) (h : rtol ≤ 1 / 2) (hr : 0 < rtol) (m : ℤ) (hm : 1 ≤ m) (hpf : 0 < pf)
    (hx : |f| / pf = 1 / m) : sourcePhaseFactor f pf rtol = .ok 1 := by
  rw [phase_factor_accept_iff f pf rtol h]
  have hm' : (1 : ℝ) ≤ m := by exact_mod_cast hm
  have hle : |f| / pf ≤ 1 := by
    rw [hx, div_le_one (by linarith)]; exact hm'
  refine ⟨hpf, Or.inr ⟨m, ?_⟩, ?_⟩
  · rw [hx, one_div_one_div, sub_self, abs_zero]; exact hr
  · rw [max_eq_right hle]
    symm; apply rintReal_eq_of_near; simp

example : sourcePhaseFactor (-28 : ℝ) 14 (1 / 100000000) = .ok 2 :=
  phase_factor_value _ _ _ (by norm_num) 2 (by norm_num) (by norm_num)
    (by rw [abs_of_neg (by norm_num : (-28 : ℝ) < 0)]; norm_num)

/-! ## Slit validation (`_check_edges`, `_check_edge_overlap`) -/

/-- two slits are disjoint on the line (strictly: touching slits count as overlapping, as in the code) -/
def DisjointOnLine (s t : ℝ × ℝ) : Prop := s.2 < t.1 ∨ t.2 < s.1

/-- the open arcs of `s` and of `t` shifted by `k` turns intersect -/
def OverlapOnCircle (s t : ℝ × ℝ) (k : ℤ) : Prop := ∃ θ : ℝ, s.1 < θ ∧ θ < s.2 ∧ t.1 + k < θ ∧ θ < t.2 + k

theorem sortByBegin_perm (slits : List (ℝ × ℝ)) : (sortByBegin slits).Perm slits :=
  List.mergeSort_perm _ _

theorem sortByBegin_sorted (slits : List (ℝ × ℝ)) :
    (sortByBegin slits).Pairwise (fun s t => s.1 ≤ t.1) := by
  have := List.pairwise_mergeSort (le := fun (s t : ℝ × ℝ) => decide (s.1 ≤ t.1))
    (fun a b c h1 h2 => by simp only [decide_eq_true_eq] at *; exact le_trans h1 h2)
    (fun a b => by simp only [Bool.or_eq_true, decide_eq_true_eq]; exact le_total _ _) slits
  exact this.imp (fun h => by simpa using h)

theorem adjacentOverlap_false_iff : ∀ (l : List (ℝ × ℝ)), l.Pairwise (fun s t => s.1 ≤ t.1) →
    (adjacentOverlap l = false ↔ l.Pairwise (fun s t => s.2 < t.1))
  | [], _ => by simp [adjacentOverlap]
  | [a], _ => by simp [adjacentOverlap]
  | a :: b :: rest, hs => by
    have hs' := (List.pairwise_cons.mp hs)
    have ih := adjacentOverlap_false_iff (b :: rest) hs'.2
    simp only [adjacentOverlap, Bool.or_eq_false_iff, decide_eq_false_iff_not, not_le, ih]
    constructor
    · rintro ⟨h1, h2⟩
      refine List.Pairwise.cons ?_ h2
      intro x hx
      rcases List.mem_cons.mp hx with rfl | hx
      · exact h1
      · exact lt_of_lt_of_le h1 ((List.pairwise_cons.mp hs'.2).1 x hx)
    · intro h
      have h' := List.pairwise_cons.mp h
      exact ⟨h'.1 b (by simp), h'.2⟩

/-- **overlap_rejected_iff_partial** (the code as it stands, `wrap = false`): a slit set with
`begin ≤ end` is accepted iff its slits are pairwise disjoint **on the line** -/
theorem overlap_rejected_iff_partial (turn : ℝ) (slits : List (ℝ × ℝ)) (hb : ∀ s ∈ slits, s.1 ≤ s.2) :
    checkEdgeOverlap false turn slits = .ok () ↔ slits.Pairwise DisjointOnLine := by
  have hperm := sortByBegin_perm slits
  have hsorted := sortByBegin_sorted slits
  have hsym : ∀ {x y : ℝ × ℝ}, DisjointOnLine x y → DisjointOnLine y x := fun h => Or.symm h
  rw [← hperm.pairwise_iff hsym]
  have hb' : ∀ s ∈ sortByBegin slits, s.1 ≤ s.2 := fun s hs => hb s (hperm.mem_iff.mp hs)
  unfold checkEdgeOverlap
  simp only [Bool.false_and, Bool.or_false]
  have key := adjacentOverlap_false_iff _ hsorted
  cases hadj : adjacentOverlap (sortByBegin slits) with
  | true =>
    simp only [if_true]
    constructor
    · intro h; cases h
    · intro hd
      exfalso
      have : (sortByBegin slits).Pairwise (fun s t => s.2 < t.1) := by
        have hboth := hsorted.and hd
        refine hboth.imp_of_mem ?_
        intro a b ha hbm hab
        rcases hab.2 with h | h
        · exact h
        · exfalso; have := hb' b hbm; linarith [hab.1]
      have := key.mpr this
      rw [hadj] at this; cases this
  | false =>
    simp only [Bool.false_eq_true, if_false, true_iff]
    exact (key.mp hadj).imp (fun h => Or.inl h)

/-- slits that are disjoint on the circle are accepted -/
theorem disjoint_slits_accepted (turn : ℝ) (slits : List (ℝ × ℝ)) (hb : ∀ s ∈ slits, s.1 ≤ s.2)
    (h : slits.Pairwise DisjointOnLine) : checkEdges false turn (slits.map Prod.fst) (slits.map Prod.snd) = .ok () := by
  unfold checkEdges
  have hz : (slits.map Prod.fst).zip (slits.map Prod.snd) = slits := by
    rw [List.zip_map', List.map_id'']; intro x; rfl
  simp only [List.length_map, ne_eq, not_true_eq_false, if_false, hz]
  have : slits.any (fun s => decide (s.2 < s.1)) = false := by
    rw [List.any_eq_false]; intro s hs; simpa using hb s hs
  simp only [this, Bool.false_eq_true, if_false]
  exact (overlap_rejected_iff_partial turn slits hb).mpr h

/-- the statement the property asks for: an accepted slit set has no two slits (or a slit and itself)
overlapping on the circle, i.e. after shifting one of them by whole turns -/
def OverlapFullStatement (wrap : Bool) : Prop :=
  ∀ slits : List (ℝ × ℝ), (∀ s ∈ slits, s.1 ≤ s.2) → checkEdgeOverlap wrap 1 slits = .ok () →
    ∀ s ∈ slits, ∀ t ∈ slits, ∀ k : ℤ, k ≠ 0 → ¬ OverlapOnCircle s t k

/-- **the full statement is false of the code as it stands**: slits `[10°, 30°]` and `[300°, 380°]`
are accepted although the second one, one turn earlier, covers `[-60°, 20°]` -/
theorem overlap_full_statement_false : ¬ OverlapFullStatement false := by
  intro h
  let slits : List (ℝ × ℝ) := [(10 / 360, 30 / 360), (300 / 360, 380 / 360)]
  have hb : ∀ s ∈ slits, s.1 ≤ s.2 := by
    intro s hs; simp only [slits, List.mem_cons, List.mem_nil_iff, or_false] at hs
    rcases hs with rfl | rfl <;> norm_num
  have hacc : checkEdgeOverlap false 1 slits = .ok () := by
    rw [overlap_rejected_iff_partial 1 slits hb]
    simp only [slits, List.pairwise_cons, List.mem_cons, or_false, forall_eq,
      List.not_mem_nil, false_implies, implies_true, List.Pairwise.nil, and_true]
    left; norm_num
  refine h slits hb hacc (10 / 360, 30 / 360) (by simp [slits]) (300 / 360, 380 / 360) (by simp [slits]) (-1) (by decide) ?_
  exact ⟨15 / 360, by norm_num, by norm_num, by norm_num, by norm_num⟩

/-! ### the repaired variant (`wrap = true`): also compares the last end, one turn back, with the first begin -/

theorem pairwise_rel_last {α : Type} {R : α → α → Prop} : ∀ (l : List α) (h : l ≠ []), l.Pairwise R →
    ∀ x ∈ l, x = l.getLast h ∨ R x (l.getLast h)
  | [a], _, _, x, hx => by left; simpa using hx
  | a :: b :: t, _, hp, x, hx => by
    have hp' := List.pairwise_cons.mp hp
    rw [List.getLast_cons (by simp : b :: t ≠ [])]
    rcases List.mem_cons.mp hx with rfl | hx
    · right; exact hp'.1 _ (List.getLast_mem _)
    · exact pairwise_rel_last (b :: t) (by simp) hp'.2 x hx

/-- **overlap_rejected_iff** for the repaired check: accepted iff the slits are pairwise disjoint on the
line and every end lies at most one turn after every begin -/
theorem overlap_rejected_iff_fixed (slits : List (ℝ × ℝ)) (hb : ∀ s ∈ slits, s.1 ≤ s.2) :
    checkEdgeOverlap true 1 slits = .ok () ↔
      slits.Pairwise DisjointOnLine ∧ ∀ s ∈ slits, ∀ t ∈ slits, t.2 ≤ s.1 + 1 := by
  have hperm := sortByBegin_perm slits
  have hsorted := sortByBegin_sorted slits
  have hpart := overlap_rejected_iff_partial 1 slits hb
  unfold checkEdgeOverlap at hpart ⊢
  simp only [Bool.false_and, Bool.or_false, Bool.true_and] at hpart ⊢
  cases hadj : adjacentOverlap (sortByBegin slits) with
  | true =>
    rw [hadj] at hpart
    simp only [Bool.true_or, if_true] at hpart ⊢
    constructor
    · intro h; cases h
    · intro h; exact absurd (hpart.mpr h.1) (by intro e; cases e)
  | false =>
    rw [hadj] at hpart
    simp only [Bool.false_eq_true, if_false, true_iff] at hpart
    simp only [Bool.false_or]
    have hlt : (sortByBegin slits).Pairwise (fun s t => s.2 < t.1) :=
      (adjacentOverlap_false_iff _ hsorted).mp hadj
    cases hl : sortByBegin slits with
    | nil =>
      have : slits = [] := by
        have := hperm.length_eq; rw [hl] at this; exact List.length_eq_zero_iff.mp this.symm
      subst this
      simp [wrapOverlap]
    | cons a rest =>
      have hne : sortByBegin slits ≠ [] := by rw [hl]; simp
      have hlast : (a :: rest).getLast? = some ((a :: rest).getLast (by simp)) := List.getLast?_eq_some_getLast _
      simp only [wrapOverlap, List.head?_cons, hlast]
      rw [hl] at hsorted hlt
      have hmem : ∀ x, x ∈ slits ↔ x ∈ a :: rest := fun x => by rw [← hl]; exact hperm.mem_iff.symm
      have hfirst : ∀ x ∈ a :: rest, a.1 ≤ x.1 := by
        intro x hx
        rcases List.mem_cons.mp hx with rfl | hx
        · exact le_refl _
        · exact (List.pairwise_cons.mp hsorted).1 x hx
      have hlastle : ∀ x ∈ a :: rest, x.2 ≤ ((a :: rest).getLast (by simp)).2 := by
        intro x hx
        rcases pairwise_rel_last (a :: rest) (by simp) hlt x hx with rfl | h
        · exact le_refl _
        · exact le_trans (le_of_lt h) (hb _ ((hmem _).mpr (List.getLast_mem _)))
      constructor
      · intro h
        have hw : ¬ a.1 < ((a :: rest).getLast (by simp)).2 - 1 := by
          intro hh; simp [hh] at h
        refine ⟨hpart, ?_⟩
        intro s hs t ht
        have h1 := hfirst s ((hmem s).mp hs)
        have h2 := hlastle t ((hmem t).mp ht)
        linarith [not_lt.mp hw]
      · rintro ⟨_, h⟩
        have := h a ((hmem a).mpr (by simp)) _ ((hmem _).mpr (List.getLast_mem (by simp : a :: rest ≠ [])))
        have hw : ¬ a.1 < ((a :: rest).getLast (by simp)).2 - 1 := by linarith
        simp [hw]

/-- **overlap_rejected_iff (repaired check)**: the full statement holds — an accepted slit set has no
overlap on the circle -/
theorem overlap_fixed_sound : OverlapFullStatement true := by
  intro slits hb hacc s hs t ht k hk ⟨θ, h1, h2, h3, h4⟩
  obtain ⟨_, hturn⟩ := (overlap_rejected_iff_fixed slits hb).mp hacc
  rcases lt_or_gt_of_ne hk with hneg | hpos
  · have : (k : ℝ) ≤ -1 := by
      have : k ≤ -1 := by omega
      exact_mod_cast this
    have := hturn s hs t ht
    linarith
  · have : (1 : ℝ) ≤ k := by
      have : 1 ≤ k := by omega
      exact_mod_cast this
    have := hturn t ht s hs
    linarith

example : checkEdgeOverlap true 1 ([(340 / 360, 382 / 360)] : List (ℝ × ℝ)) = .ok () := by
  rw [overlap_rejected_iff_fixed _ (by intro s hs; simp at hs; subst hs; norm_num)]
  constructor
  · simp
  · intro s hs t ht; simp at hs ht; subst hs ht; norm_num

/-! ## Expansion over source pulses (`Chopper.from_disk_chopper`) -/

/-- the `(open, close)` pairs of `from_disk_chopper`, in the order of its output: pulse by pulse, the
single-pulse openings shifted by `j / f_pulse` -/
noncomputable def cascadePairs (d : Disk ℝ) (pf : ℝ) (np n : Nat) : List (ℝ × ℝ) :=
  (List.range np).flatMap (fun (j : Nat) => (openings d n).map (fun p =>
    ((j : ℝ) * (1 / pf) + p.1, (j : ℝ) * (1 / pf) + p.2)))

theorem addPulseOffsets_open (d : Disk ℝ) (pf : ℝ) (np n : Nat) :
    addPulseOffsets pf np (timeOffsetOpen d n) = (cascadePairs d pf np n).map Prod.fst := by
  simp only [addPulseOffsets, cascadePairs, timeOffsetOpen_eq, List.map_flatMap, List.map_map]
  congr 1; funext j; apply List.map_congr_left; intro p _; simp

theorem addPulseOffsets_close (d : Disk ℝ) (pf : ℝ) (np n : Nat) :
    addPulseOffsets pf np (timeOffsetClose d n) = (cascadePairs d pf np n).map Prod.snd := by
  simp only [addPulseOffsets, cascadePairs, timeOffsetClose_eq, List.map_flatMap, List.map_map]
  congr 1; funext j; apply List.map_congr_left; intro p _; simp

theorem fromDiskChopper_eq (d : Disk ℝ) (pf rtol : ℝ) (np : Nat) (n : ℤ)
    (h : sourcePhaseFactor d.freq pf rtol = .ok n) :
    fromDiskChopper d pf rtol np =
      .ok ((cascadePairs d pf np n.toNat).map Prod.fst, (cascadePairs d pf np n.toNat).map Prod.snd) := by
  simp only [fromDiskChopper, h, addPulseOffsets_open, addPulseOffsets_close]

theorem mem_cascadePairs (d : Disk ℝ) (pf : ℝ) (np n : Nat) (q : ℝ × ℝ) :
    q ∈ cascadePairs d pf np n ↔ ∃ j : ℕ, j < np ∧ ∃ k ∈ turns n, ∃ s ∈ d.slits,
      q = ((j : ℝ) * (1 / pf) + openTime d s k, (j : ℝ) * (1 / pf) + closeTime d s k) := by
  simp only [cascadePairs, List.mem_flatMap, List.mem_range, List.mem_map, mem_openings]
  constructor
  · rintro ⟨j, hj, p, ⟨k, hk, s, hs, rfl⟩, rfl⟩; exact ⟨j, hj, k, hk, s, hs, rfl⟩
  · rintro ⟨j, hj, k, hk, s, hs, rfl⟩; exact ⟨j, hj, _, ⟨k, hk, s, hs, rfl⟩, rfl⟩

/-- for an integer frequency ratio `m`, a shift by `j` pulse periods is a shift by `j·m` rotations -/
theorem pulse_shift_integer_ratio (d : Disk ℝ) (pf : ℝ) (m : ℕ) (hm : 1 ≤ m) (hpf : 0 < pf)
    (hf : |d.freq| = m * pf) (s : ℝ × ℝ) (k : ℤ) (j : ℕ) :
    (j : ℝ) * (1 / pf) + openTime d s k = openTime d s (k + j * m) ∧
    (j : ℝ) * (1 / pf) + closeTime d s k = closeTime d s (k + j * m) := by
  have hm' : (0 : ℝ) < m := by exact_mod_cast hm
  have hfne : d.freq ≠ 0 := by
    intro h0; rw [h0, abs_zero] at hf; nlinarith
  simp only [openTime_eq d hfne, closeTime_eq d hfne, hf]
  push_cast
  constructor <;> field_simp <;> ring

/-- **cascade_openings_are_openings_partial** (integer ratios `|f| = m·f_pulse`, `m ≥ 1`): the pairs
reported for `npulses` pulses are exactly the openings of the disk during rotations `−1 … npulses·m − 1`,
each a genuine opening of a slit -/
theorem cascade_openings_are_openings_partial (d : Disk ℝ) (pf : ℝ) (m np : ℕ) (hm : 1 ≤ m) (hnp : 1 ≤ np)
    (hpf : 0 < pf) (hf : |d.freq| = m * pf) (q : ℝ × ℝ) :
    q ∈ cascadePairs d pf np m ↔ q ∈ openings d (np * m) := by
  rw [mem_cascadePairs, mem_openings]
  constructor
  · rintro ⟨j, hj, k, hk, s, hs, rfl⟩
    obtain ⟨e1, e2⟩ := pulse_shift_integer_ratio d pf m hm hpf hf s k j
    refine ⟨k + j * m, ?_, s, hs, by rw [e1, e2]⟩
    rw [mem_turns] at hk ⊢
    have h1 : (0 : ℤ) ≤ (j : ℤ) * m := by positivity
    have h2 : (j : ℤ) * m ≤ ((np : ℤ) - 1) * m := by
      apply mul_le_mul_of_nonneg_right _ (by positivity)
      omega
    push_cast
    constructor
    · omega
    · nlinarith [hk.2]
  · rintro ⟨K, hK, s, hs, rfl⟩
    rw [mem_turns] at hK
    push_cast at hK
    have hmz : (0 : ℤ) < m := by exact_mod_cast hm
    by_cases hneg : K = -1
    · subst hneg
      refine ⟨0, by omega, -1, (mem_turns m _).mpr ⟨le_refl _, by omega⟩, s, hs, ?_⟩
      simp
    · have hK0 : 0 ≤ K := by omega
      have hj0 : 0 ≤ K / m := Int.ediv_nonneg hK0 (le_of_lt hmz)
      have hjlt : K / m < np := Int.ediv_lt_of_lt_mul hmz (by nlinarith [hK.2])
      refine ⟨(K / m).toNat, by omega, K % m, (mem_turns m _).mpr ⟨by have := Int.emod_nonneg K (ne_of_gt hmz); omega,
        Int.emod_lt_of_pos K hmz⟩, s, hs, ?_⟩
      obtain ⟨e1, e2⟩ := pulse_shift_integer_ratio d pf m hm hpf hf s (K % m) (K / m).toNat
      have hK' : K % m + ((K / m).toNat : ℤ) * m = K := by
        rw [Int.toNat_of_nonneg hj0]; have := Int.emod_add_mul_ediv K m; linarith
      rw [e1, e2, hK']

/-- consequently, for integer ratios every reported pair has `open < close`, the chopper is open
throughout, and no opening inside the reported span is missing -/
theorem cascade_integer_ratio_sound (d : Disk ℝ) (pf : ℝ) (m np : ℕ) (hm : 1 ≤ m) (hnp : 1 ≤ np)
    (hpf : 0 < pf) (hf : |d.freq| = m * pf) (hs : ∀ s ∈ d.slits, s.1 < s.2) :
    (∀ q ∈ cascadePairs d pf np m, q.1 < q.2 ∧ ∀ t, q.1 ≤ t → t ≤ q.2 → OpenAt d t) ∧
    (WithinOneTurn d.slits → ∀ t, OpenAt d t → (∃ q ∈ cascadePairs d pf np m, q.1 ≤ t) →
      (∃ q ∈ cascadePairs d pf np m, t ≤ q.2) → ∃ q ∈ cascadePairs d pf np m, q.1 ≤ t ∧ t ≤ q.2) := by
  have hm' : (0 : ℝ) < m := by exact_mod_cast hm
  have hfne : d.freq ≠ 0 := by
    intro h0; rw [h0, abs_zero] at hf; nlinarith
  have key := cascade_openings_are_openings_partial d pf m np hm hnp hpf hf
  constructor
  · intro q hq
    have hq' := (key q).mp hq
    exact ⟨open_lt_close d hfne _ hs q hq', open_throughout d hfne _ q hq'⟩
  · intro hw t hopen ⟨q0, hq0, h0⟩ ⟨q1, hq1, h1⟩
    obtain ⟨q, hq, hq2⟩ := none_missing d hfne (np * m) hw t hopen ⟨q0, (key q0).mp hq0, h0⟩ ⟨q1, (key q1).mp hq1, h1⟩
    exact ⟨q, (key q).mpr hq, hq2⟩

/-! ### where the expansion over pulses is wrong (the code as it stands) -/

theorem zip_fst_snd {α β : Type} (L : List (α × β)) : (L.map Prod.fst).zip (L.map Prod.snd) = L := by
  rw [List.zip_map', List.map_id'']; intro x; rfl

/-- what the property asks of the expansion over pulses, part 1: every reported pair is an interval
during which the chopper is open -/
def CascadeOpeningsAreOpenings : Prop :=
  ∀ (d : Disk ℝ) (pf rtol : ℝ) (np : ℕ) (o c : List ℝ), d.freq ≠ 0 → 0 < rtol → rtol ≤ 1 / 2 →
    fromDiskChopper d pf rtol np = .ok (o, c) →
    ∀ q ∈ o.zip c, ∀ t, q.1 ≤ t → t ≤ q.2 → OpenAt d t

/-- part 2: no opening is reported twice -/
def CascadeNoRepeats : Prop :=
  ∀ (d : Disk ℝ) (pf rtol : ℝ) (np : ℕ) (o c : List ℝ), d.freq ≠ 0 → 0 < rtol → rtol ≤ 1 / 2 →
    (∀ s ∈ d.slits, s.1 < s.2) → d.slits.Nodup →
    fromDiskChopper d pf rtol np = .ok (o, c) → (o.zip c).Nodup

/-- a chopper at half the pulse frequency, one slit `[36°, 72°]`, two pulses -/
noncomputable def subDisk : Disk ℝ := ⟨1 / 2, 0, 0, [(1 / 10, 2 / 10)]⟩

theorem subDisk_cw : isClockwise subDisk = false := by
  simp [isClockwise, subDisk]

/-- **the first part is false of the code as it stands** for sub-harmonic choppers: for `f = f_pulse/2`
the interval reported for the second pulse, `[0.6, 0.8]/f_pulse`, is half a rotation away from the slit -/
theorem cascade_subharmonic_false : ¬ CascadeOpeningsAreOpenings := by
  intro h
  have hf : subDisk.freq ≠ 0 := by simp [subDisk]
  have hn : sourcePhaseFactor subDisk.freq 1 (1 / 100000000) = .ok 1 :=
    phase_factor_subharmonic _ _ _ (by norm_num) (by norm_num) 2 (by norm_num) (by norm_num)
      (by simp [subDisk])
  have hres := fromDiskChopper_eq subDisk 1 (1 / 100000000) 2 1 hn
  have := h subDisk 1 (1 / 100000000) 2 _ _ hf (by norm_num) (by norm_num) hres
  rw [zip_fst_snd] at this
  have hq : ((1 : ℕ) : ℝ) * (1 / 1) + openTime subDisk (1 / 10, 2 / 10) (-1) ≤ 7 / 10 ∧
      (7 / 10 : ℝ) ≤ ((1 : ℕ) : ℝ) * (1 / 1) + closeTime subDisk (1 / 10, 2 / 10) (-1) := by
    rw [openTime_eq _ hf, closeTime_eq _ hf]
    simp only [aOpen, aClose, subDisk_cw]
    simp only [subDisk]
    norm_num
  have hmem : (((1 : ℕ) : ℝ) * (1 / 1) + openTime subDisk (1 / 10, 2 / 10) (-1),
      ((1 : ℕ) : ℝ) * (1 / 1) + closeTime subDisk (1 / 10, 2 / 10) (-1)) ∈ cascadePairs subDisk 1 2 (1 : ℤ).toNat := by
    rw [mem_cascadePairs]
    exact ⟨1, by norm_num, -1, by simp [turns], (1 / 10, 2 / 10), by simp [subDisk], rfl⟩
  obtain ⟨s, hs, hopen⟩ := this _ hmem (7 / 10) hq.1 hq.2
  simp only [subDisk, List.mem_singleton] at hs
  subst hs
  obtain ⟨k, h1, h2⟩ := (slitOpenAt_iff_beamAngle _ _ _).mp hopen
  simp only [subDisk] at h1 h2
  have hk1 : (0 : ℝ) < k := by linarith
  have hk2 : (k : ℝ) < 1 := by linarith
  have : (0 : ℤ) < k := by exact_mod_cast hk1
  have : k < (1 : ℤ) := by exact_mod_cast hk2
  omega

/-- a chopper at the pulse frequency -/
noncomputable def unitDisk : Disk ℝ := ⟨1, 0, 0, [(1 / 10, 2 / 10)]⟩

/-- **the second part is false of the code as it stands**: with two pulses the rotation that ends the
first pulse and begins the second is reported twice -/
theorem cascade_duplicates : ¬ CascadeNoRepeats := by
  intro h
  have hf : unitDisk.freq ≠ 0 := by simp [unitDisk]
  have hn : sourcePhaseFactor unitDisk.freq 1 (1 / 100000000) = .ok 1 :=
    phase_factor_value _ _ _ (by norm_num) 1 (by norm_num) (by norm_num) (by simp [unitDisk])
  have hres := fromDiskChopper_eq unitDisk 1 (1 / 100000000) 2 1 hn
  have := h unitDisk 1 (1 / 100000000) 2 _ _ hf (by norm_num) (by norm_num)
    (by intro s hs; simp only [unitDisk, List.mem_singleton] at hs; subst hs; norm_num)
    (by simp [unitDisk]) hres
  rw [zip_fst_snd] at this
  have hshift := pulse_shift_integer_ratio unitDisk 1 1 (le_refl 1) (by norm_num) (by simp [unitDisk]) (1 / 10, 2 / 10) (-1) 1
  have hL : cascadePairs unitDisk 1 2 (1 : ℤ).toNat =
      [ (((0 : ℕ) : ℝ) * (1 / 1) + openTime unitDisk (1 / 10, 2 / 10) (-1), ((0 : ℕ) : ℝ) * (1 / 1) + closeTime unitDisk (1 / 10, 2 / 10) (-1)),
        (((0 : ℕ) : ℝ) * (1 / 1) + openTime unitDisk (1 / 10, 2 / 10) 0, ((0 : ℕ) : ℝ) * (1 / 1) + closeTime unitDisk (1 / 10, 2 / 10) 0),
        (((1 : ℕ) : ℝ) * (1 / 1) + openTime unitDisk (1 / 10, 2 / 10) (-1), ((1 : ℕ) : ℝ) * (1 / 1) + closeTime unitDisk (1 / 10, 2 / 10) (-1)),
        (((1 : ℕ) : ℝ) * (1 / 1) + openTime unitDisk (1 / 10, 2 / 10) 0, ((1 : ℕ) : ℝ) * (1 / 1) + closeTime unitDisk (1 / 10, 2 / 10) 0) ] := by
    simp [cascadePairs, openings, turns, List.range_succ, unitDisk]
  rw [hL] at this
  have e : (((0 : ℕ) : ℝ) * (1 / 1) + openTime unitDisk (1 / 10, 2 / 10) 0, ((0 : ℕ) : ℝ) * (1 / 1) + closeTime unitDisk (1 / 10, 2 / 10) 0)
      = (((1 : ℕ) : ℝ) * (1 / 1) + openTime unitDisk (1 / 10, 2 / 10) (-1), ((1 : ℕ) : ℝ) * (1 / 1) + closeTime unitDisk (1 / 10, 2 / 10) (-1)) := by
    rw [hshift.1, hshift.2]; simp
  rw [e] at this
  simp at this

/-! ### the repaired expansion (`fromDiskChopperByRotation`, proposed fix): whole rotations -/

/-- by construction the repaired expansion returns `time_offset_open/close` for some number of
rotations, so `open_lt_close`, `open_throughout`, `closed_just_outside`, `duration_eq_width_over_speed`,
`one_opening_per_slit_per_turn` and `none_missing` apply to it verbatim, for every frequency ratio -/
theorem cascade_fixed_is_rotations (d : Disk ℝ) (pf rtol : ℝ) (np : ℕ) (o c : List ℝ)
    (h : fromDiskChopperByRotation d pf rtol np = .ok (o, c)) :
    ∃ nrot : ℕ, o = (openings d nrot).map Prod.fst ∧ c = (openings d nrot).map Prod.snd := by
  unfold fromDiskChopperByRotation at h
  split at h
  · cases h
  · simp only [Except.ok.injEq, Prod.mk.injEq] at h
    exact ⟨_, by rw [← h.1, timeOffsetOpen_eq], by rw [← h.2, timeOffsetClose_eq]⟩

theorem rintReal_le_one (x : ℝ) (hx : x ≤ 1) : rintReal x ≤ 1 := by
  have h := rintReal_near x
  rw [abs_le] at h
  have : (rintReal x : ℝ) < 2 := by linarith [h.2]
  have : rintReal x < 2 := by exact_mod_cast this
  omega

/-- integer ratio `m`: the repaired expansion rotates `npulses·m` times -/
theorem cascade_fixed_integer_ratio (d : Disk ℝ) (pf rtol : ℝ) (m np : ℕ) (hm : 1 ≤ m) (hpf : 0 < pf)
    (hr : 0 < rtol) (hr2 : rtol ≤ 1 / 2) (hf : |d.freq| = m * pf) :
    fromDiskChopperByRotation d pf rtol np = .ok (timeOffsetOpen d (np * m), timeOffsetClose d (np * m)) := by
  have hm' : (1 : ℝ) ≤ m := by exact_mod_cast hm
  have hx : |d.freq| / pf = m := by rw [hf]; field_simp
  have hn : sourcePhaseFactor d.freq pf rtol = .ok (m : ℤ) :=
    phase_factor_value _ _ _ hr2 m (by exact_mod_cast hm) hpf (by rw [hx]; simpa using hr)
  unfold fromDiskChopperByRotation
  simp only [hn, absv_eq_abs, hx, Int.cast_zero, Int.cast_one]
  have hpos : (0 : ℝ) < m := by linarith
  have hppr : max (Rint.rintInt (1 / (m : ℝ))) 1 = (1 : ℤ) := by
    apply max_eq_right
    exact rintReal_le_one _ (by rw [div_le_one hpos]; exact hm')
  simp only [hpos, if_true, hppr, Int.ediv_one, neg_neg]
  have : ((np : ℤ) * (m : ℤ)).toNat = np * m := by
    rw [← Int.natCast_mul]; exact Int.toNat_natCast _
  rw [this]

/-- sub-harmonic ratio `1/m`: the repaired expansion rotates `⌈npulses/m⌉` times, which spans all pulses -/
theorem cascade_fixed_subharmonic (d : Disk ℝ) (pf rtol : ℝ) (m np : ℕ) (hm : 1 ≤ m) (hpf : 0 < pf)
    (hr : 0 < rtol) (hr2 : rtol ≤ 1 / 2) (hf : |d.freq| * m = pf) :
    fromDiskChopperByRotation d pf rtol np =
      .ok (timeOffsetOpen d (-(-(np : ℤ) / (m : ℤ))).toNat, timeOffsetClose d (-(-(np : ℤ) / (m : ℤ))).toNat) ∧
    (np : ℤ) ≤ (-(-(np : ℤ) / (m : ℤ))) * m := by
  have hm' : (1 : ℝ) ≤ m := by exact_mod_cast hm
  have hpos : (0 : ℝ) < m := by linarith
  have hfpos : 0 < |d.freq| := by
    by_contra h0
    have : |d.freq| = 0 := le_antisymm (not_lt.mp h0) (abs_nonneg _)
    rw [this, zero_mul] at hf; linarith
  have hx : |d.freq| / pf = 1 / (m : ℝ) := by rw [← hf]; field_simp
  have hn : sourcePhaseFactor d.freq pf rtol = .ok 1 :=
    phase_factor_subharmonic _ _ _ hr2 hr m (by exact_mod_cast hm) hpf (by rw [hx]; push_cast; rfl)
  constructor
  · unfold fromDiskChopperByRotation
    simp only [hn, absv_eq_abs, hx, Int.cast_zero, Int.cast_one, one_div_one_div]
    have hpos' : (0 : ℝ) < 1 / (m : ℝ) := by positivity
    have hrint : Rint.rintInt (m : ℝ) = (m : ℤ) := rintReal_eq_of_near _ _ (by simp)
    have hppr : max (Rint.rintInt (m : ℝ)) 1 = (m : ℤ) := by
      rw [hrint]; apply max_eq_left; exact_mod_cast hm
    simp only [hpos', if_true, hppr, mul_one]
  · have hmz : (0 : ℤ) < m := by exact_mod_cast hm
    have := Int.ediv_mul_le (-(np : ℤ)) (ne_of_gt hmz)
    linarith

/-! ## Non-vacuity: the hypotheses are met by an ordinary chopper -/

/-- clockwise at twice the pulse frequency, beam at 90°, phase 120°, two slits `[10°, 30°]`, `[288°, 342°]` -/
noncomputable def exDisk : Disk ℝ := ⟨-2, 1 / 4, 1 / 3, [(1 / 36, 1 / 12), (8 / 10, 95 / 100)]⟩

theorem exDisk_freq : exDisk.freq ≠ 0 := by simp [exDisk]
theorem exDisk_slits : ∀ s ∈ exDisk.slits, s.1 < s.2 := by
  intro s hs; simp only [exDisk, List.mem_cons, List.mem_nil_iff, or_false] at hs
  rcases hs with rfl | rfl <;> norm_num
theorem exDisk_within : WithinOneTurn exDisk.slits := by
  refine ⟨0, ?_⟩
  intro s hs; simp only [exDisk, List.mem_cons, List.mem_nil_iff, or_false] at hs
  rcases hs with rfl | rfl <;> norm_num

theorem int_cases (j : ℤ) : (j : ℝ) ≤ -1 ∨ j = 0 ∨ (1 : ℝ) ≤ j := by
  rcases lt_trichotomy j 0 with h | h | h
  · left; have : j ≤ -1 := by omega
    exact_mod_cast this
  · right; left; exact h
  · right; right; have : 1 ≤ j := by omega
    exact_mod_cast this

set_option linter.unusedTactic false in
theorem exDisk_separated : Separated exDisk.slits (1 / 100) := by
  intro s hs s' hs' j
  simp only [exDisk, List.mem_cons, List.mem_nil_iff, or_false] at hs hs'
  rcases hs with rfl | rfl <;> rcases hs' with rfl | rfl <;> rcases int_cases j with hj | hj | hj
  all_goals first
    | (left; exact ⟨rfl, hj⟩)
    | (subst hj; right; left; norm_num; done)
    | (subst hj; right; right; norm_num; done)
    | (right; left; norm_num; linarith)
    | (right; right; norm_num; linarith)

example : ∀ p ∈ openings exDisk 2, p.1 < p.2 := open_lt_close exDisk exDisk_freq 2 exDisk_slits
example : (openings exDisk 2).length = 6 := by rw [openings_length]; simp [exDisk]
example : ∀ p ∈ openings exDisk 2, ∀ t, (p.1 - (1 / 100) / |exDisk.freq| < t ∧ t < p.1) ∨
    (p.2 < t ∧ t < p.2 + (1 / 100) / |exDisk.freq|) → ¬ OpenAt exDisk t :=
  closed_just_outside exDisk exDisk_freq 2 (1 / 100) exDisk_separated (fun s hs => le_of_lt (exDisk_slits s hs))
example : ∀ q, q ∈ cascadePairs exDisk 1 3 2 ↔ q ∈ openings exDisk (3 * 2) :=
  cascade_openings_are_openings_partial exDisk 1 2 3 (by norm_num) (by norm_num) (by norm_num)
    (by simp [exDisk])

/-- `_check_edges`: `DimensionError` for arrays of different length, `ValueError` when some begin
exceeds its end, otherwise the overlap check decides -/
theorem check_edges_spec (wrap : Bool) (turn : ℝ) (begins ends : List ℝ) :
    (begins.length ≠ ends.length → checkEdges wrap turn begins ends = .error .dimension) ∧
    (begins.length = ends.length → (∃ s ∈ begins.zip ends, s.2 < s.1) →
      checkEdges wrap turn begins ends = .error .value) ∧
    (begins.length = ends.length → (∀ s ∈ begins.zip ends, s.1 ≤ s.2) →
      checkEdges wrap turn begins ends = checkEdgeOverlap wrap turn (begins.zip ends)) := by
  unfold checkEdges
  refine ⟨fun h => by simp [h], fun h hex => ?_, fun h hall => ?_⟩
  · have : (begins.zip ends).any (fun s => decide (s.2 < s.1)) = true := by
      rw [List.any_eq_true]; obtain ⟨s, hs, hlt⟩ := hex; exact ⟨s, hs, by simpa using hlt⟩
    simp [h, this]
  · have : (begins.zip ends).any (fun s => decide (s.2 < s.1)) = false := by
      rw [List.any_eq_false]; intro s hs; simpa using hall s hs
    simp [h, this]

/-- the property's rejection clause for the code as it stands, in one statement: a slit set is accepted
by `_check_edges` iff the arrays have equal length, every `begin ≤ end`, and the slits are pairwise
disjoint on the line -/
theorem check_edges_accept_iff_partial (turn : ℝ) (begins ends : List ℝ) :
    checkEdges false turn begins ends = .ok () ↔
      begins.length = ends.length ∧ (∀ s ∈ begins.zip ends, s.1 ≤ s.2) ∧
      (begins.zip ends).Pairwise DisjointOnLine := by
  obtain ⟨h1, h2, h3⟩ := check_edges_spec false turn begins ends
  by_cases hl : begins.length = ends.length
  · by_cases hb : ∀ s ∈ begins.zip ends, s.1 ≤ s.2
    · rw [h3 hl hb, overlap_rejected_iff_partial turn _ hb]
      exact ⟨fun h => ⟨hl, hb, h⟩, fun h => h.2.2⟩
    · have hex : ∃ s ∈ begins.zip ends, s.2 < s.1 := by
        by_contra hne
        apply hb; intro s hs
        by_contra hlt
        exact hne ⟨s, hs, not_le.mp hlt⟩
      rw [h2 hl hex]
      exact ⟨fun h => (by cases h), fun h => absurd h.2.1 hb⟩
  · rw [h1 hl]
    exact ⟨fun h => (by cases h), fun h => absurd h.1 hl⟩

/-! ### further non-vacuity examples -/

example : ∀ p ∈ openings exDisk 2, ∀ t, p.1 ≤ t → t ≤ p.2 → OpenAt exDisk t :=
  open_throughout exDisk exDisk_freq 2
example : closeTime exDisk (1 / 36, 1 / 12) 0 - openTime exDisk (1 / 36, 1 / 12) 0 = (1 / 12 - 1 / 36) / |(-2 : ℝ)| :=
  duration_eq_width_over_speed exDisk exDisk_freq _ 0
example (t : ℝ) (h : OpenAt exDisk t) (hlo : ∃ p ∈ openings exDisk 2, p.1 ≤ t) (hhi : ∃ p ∈ openings exDisk 2, t ≤ p.2) :
    ∃ p ∈ openings exDisk 2, p.1 ≤ t ∧ t ≤ p.2 :=
  none_missing exDisk exDisk_freq 2 exDisk_within t h hlo hhi
/-- the premises of `none_missing` are met at a concrete time: the opening time of the first slit -/
example : OpenAt exDisk (openTime exDisk (1 / 36, 1 / 12) 0) ∧
    (∃ p ∈ openings exDisk 2, p.1 ≤ openTime exDisk (1 / 36, 1 / 12) 0) := by
  have hmem : (openTime exDisk (1 / 36, 1 / 12) 0, closeTime exDisk (1 / 36, 1 / 12) 0) ∈ openings exDisk 2 :=
    (mem_openings _ _ _).mpr ⟨0, (mem_turns 2 0).mpr ⟨by norm_num, by norm_num⟩, _, by simp [exDisk], rfl⟩
  refine ⟨open_throughout exDisk exDisk_freq 2 _ hmem _ (le_refl _) ?_, ⟨_, hmem, le_refl _⟩⟩
  exact le_of_lt (open_lt_close exDisk exDisk_freq 2 exDisk_slits _ hmem)
example : sourcePhaseFactor (7 : ℝ) 14 (1 / 100000000) = .ok 1 :=
  phase_factor_subharmonic _ _ _ (by norm_num) (by norm_num) 2 (by norm_num) (by norm_num) (by norm_num)
example : sourcePhaseFactor (35 : ℝ) 14 (1 / 100000000) = .error .value := by
  apply phase_factor_reject _ _ _ (by norm_num)
  right
  rw [abs_of_pos (by norm_num : (0 : ℝ) < 35)]
  rintro (⟨m, hm⟩ | ⟨m, hm⟩)
  · -- 2.5 is 1/2 away from every integer
    rw [abs_lt] at hm
    norm_num at hm
    have h1 : (2 : ℝ) < m := by linarith [hm.1, hm.2]
    have h2 : (m : ℝ) < 3 := by linarith [hm.1, hm.2]
    have : (2 : ℤ) < m := by exact_mod_cast h1
    have : m < (3 : ℤ) := by exact_mod_cast h2
    omega
  · rw [abs_lt] at hm
    norm_num at hm
    have h1 : (0 : ℝ) < m := by linarith [hm.1, hm.2]
    have h2 : (m : ℝ) < 1 := by linarith [hm.1, hm.2]
    have : (0 : ℤ) < m := by exact_mod_cast h1
    have : m < (1 : ℤ) := by exact_mod_cast h2
    omega
example : fromDiskChopperByRotation exDisk 1 (1 / 100000000) 3 =
    .ok (timeOffsetOpen exDisk (3 * 2), timeOffsetClose exDisk (3 * 2)) :=
  cascade_fixed_integer_ratio exDisk 1 _ 2 3 (by norm_num) (by norm_num) (by norm_num) (by norm_num) (by simp [exDisk])
example : (fromDiskChopperByRotation subDisk 1 (1 / 100000000) 3 =
    .ok (timeOffsetOpen subDisk (-(-((3 : ℕ) : ℤ) / ((2 : ℕ) : ℤ))).toNat, timeOffsetClose subDisk (-(-((3 : ℕ) : ℤ) / ((2 : ℕ) : ℤ))).toNat)) :=
  (cascade_fixed_subharmonic subDisk 1 _ 2 3 (by norm_num) (by norm_num) (by norm_num) (by norm_num) (by simp [subDisk])).1
example : checkEdges false (1 : ℝ) [1 / 36, 8 / 10] [1 / 12, 95 / 100] = .ok () := by
  rw [check_edges_accept_iff_partial]
  refine ⟨rfl, ?_, ?_⟩
  · intro s hs; simp at hs; rcases hs with rfl | rfl <;> norm_num
  · simp [DisjointOnLine]; norm_num

/-! ## The model that is executed (over `Q`) is the model the theorems are about (over `ℝ`) -/

/-- embedding of a rational disk -/
noncomputable def diskToReal (d : Disk Q) : Disk ℝ :=
  ⟨toReal d.freq, toReal d.beam, toReal d.phase, d.slits.map (fun s => (toReal s.1, toReal s.2))⟩

def DiskWF (d : Disk Q) : Prop := WF d.freq ∧ WF d.beam ∧ WF d.phase ∧ ∀ s ∈ d.slits, WF s.1 ∧ WF s.2

theorem isClockwise_toReal (d : Disk Q) (h : DiskWF d) : isClockwise (diskToReal d) = isClockwise d := by
  unfold isClockwise
  have key := toReal_lt h.1 (intCast_wf 0)
  rw [toReal_intCast] at key
  simp only [diskToReal]
  exact decide_eq_decide.mpr key.symm

theorem timeOfAngle_toReal (d : Disk Q) (h : DiskWF d) (a : Q) (ha : WF a) :
    toReal (timeOfAngle d a) = timeOfAngle (diskToReal d) (toReal a) := by
  unfold timeOfAngle
  rw [isClockwise_toReal d h]
  have hx : WF (d.beam + d.phase - a) := sub_wf _ _
  have hxv : toReal (d.beam + d.phase - a) = toReal d.beam + toReal d.phase - toReal a := by
    rw [toReal_sub (add_wf _ _) ha, toReal_add h.2.1 h.2.2.1]
  by_cases hc : isClockwise d = true
  · simp only [hc, if_true]
    rw [toReal_div hx h.1, hxv]; rfl
  · have hc' : isClockwise d = false := by simpa using hc
    simp only [hc', Bool.false_eq_true, if_false]
    rw [toReal_div (add_wf _ _) h.1, toReal_add (intCast_wf 1) hx, toReal_intCast, hxv]; rfl

theorem repeated_angle_toReal (d : Disk Q) (h : DiskWF d) (a : Q) (ha : WF a) (k : ℤ) :
    WF (if isClockwise d then a + ((k : Int) : Q) else a - ((k : Int) : Q)) ∧
    toReal (if isClockwise d then a + ((k : Int) : Q) else a - ((k : Int) : Q)) =
      (if isClockwise (diskToReal d) then toReal a + ((k : Int) : ℝ) else toReal a - ((k : Int) : ℝ)) := by
  rw [isClockwise_toReal d h]
  by_cases hc : isClockwise d = true
  · simp only [hc, if_true]
    exact ⟨add_wf _ _, by rw [toReal_add ha (intCast_wf k), toReal_intCast]⟩
  · have hc' : isClockwise d = false := by simpa using hc
    simp only [hc', Bool.false_eq_true, if_false]
    exact ⟨sub_wf _ _, by rw [toReal_sub ha (intCast_wf k), toReal_intCast]⟩

theorem timeOffsetAngleAtBeam_toReal (d : Disk Q) (h : DiskWF d) (angles : List Q) (ha : ∀ a ∈ angles, WF a) (n : ℕ) :
    (timeOffsetAngleAtBeam d angles n).map toReal =
      timeOffsetAngleAtBeam (diskToReal d) (angles.map toReal) n := by
  simp only [timeOffsetAngleAtBeam, applyAngleRepetitions, List.map_flatMap, List.map_map]
  congr 1
  funext k
  apply List.map_congr_left
  intro a ham
  obtain ⟨hwf, hv⟩ := repeated_angle_toReal d h a (ha a ham) k
  simp only [Function.comp]
  rw [timeOfAngle_toReal d h _ hwf, hv]

/-- **the executed model is the proved model**: the rational numbers printed by the driver for
`time_offset_open` are exactly the reals the theorems speak about, for the embedded disk -/
theorem timeOffsetOpen_toReal (d : Disk Q) (h : DiskWF d) (n : ℕ) :
    (timeOffsetOpen d n).map toReal = timeOffsetOpen (diskToReal d) n := by
  unfold timeOffsetOpen
  rw [timeOffsetAngleAtBeam_toReal d h _ _ n]
  · rw [isClockwise_toReal d h]
    simp only [diskToReal, List.map_map]
    congr 1
    apply List.map_congr_left
    intro s _
    by_cases hc : isClockwise d = true <;> simp [hc]
  · intro a ha
    obtain ⟨s, hs, rfl⟩ := List.mem_map.mp ha
    split
    · exact (h.2.2.2 s hs).1
    · exact (h.2.2.2 s hs).2

theorem timeOffsetClose_toReal (d : Disk Q) (h : DiskWF d) (n : ℕ) :
    (timeOffsetClose d n).map toReal = timeOffsetClose (diskToReal d) n := by
  unfold timeOffsetClose
  rw [timeOffsetAngleAtBeam_toReal d h _ _ n]
  · rw [isClockwise_toReal d h]
    simp only [diskToReal, List.map_map]
    congr 1
    apply List.map_congr_left
    intro s _
    by_cases hc : isClockwise d = true <;> simp [hc]
  · intro a ha
    obtain ⟨s, hs, rfl⟩ := List.mem_map.mp ha
    split
    · exact (h.2.2.2 s hs).2
    · exact (h.2.2.2 s hs).1

example : DiskWF (⟨Q.normalize (-28) 1, Q.normalize 1 4, Q.normalize 1 3, [(Q.normalize 1 36, Q.normalize 1 12)]⟩ : Disk Q) := by
  refine ⟨normalize_wf _ _, normalize_wf _ _, normalize_wf _ _, ?_⟩
  intro s hs; simp only [List.mem_singleton] at hs; subst hs
  exact ⟨normalize_wf _ _, normalize_wf _ _⟩

noncomputable def slitToReal (s : Q × Q) : ℝ × ℝ := (toReal s.1, toReal s.2)

def SlitsWF (l : List (Q × Q)) : Prop := ∀ s ∈ l, WF s.1 ∧ WF s.2

theorem sortByBegin_toReal (l : List (Q × Q)) (h : SlitsWF l) :
    (sortByBegin l).map slitToReal = sortByBegin (l.map slitToReal) := by
  unfold sortByBegin
  apply List.map_mergeSort
  intro a ha b hb
  have := toReal_le (h a ha).1 (h b hb).1
  simp only [slitToReal]
  exact decide_eq_decide.mpr this

theorem adjacentOverlap_toReal : ∀ (l : List (Q × Q)), SlitsWF l →
    adjacentOverlap (l.map slitToReal) = adjacentOverlap l
  | [], _ => rfl
  | [_], _ => rfl
  | s :: t :: rest, h => by
    have ih := adjacentOverlap_toReal (t :: rest) (fun x hx => h x (List.mem_cons_of_mem _ hx))
    simp only [List.map_cons, adjacentOverlap] at ih ⊢
    rw [ih]
    congr 1
    have := toReal_le (h t (by simp)).1 (h s (by simp)).2
    simp only [slitToReal]
    exact decide_eq_decide.mpr this.symm

theorem wrapOverlap_toReal (turn : Q) (ht : WF turn) (l : List (Q × Q)) (h : SlitsWF l) :
    wrapOverlap (toReal turn) (l.map slitToReal) = wrapOverlap turn l := by
  unfold wrapOverlap
  rw [List.head?_map, List.getLast?_map]
  cases hh : l.head? with
  | none => simp
  | some f =>
    cases hl : l.getLast? with
    | none => simp
    | some e =>
      have hf := h f (List.mem_of_mem_head? hh)
      have he := h e (List.mem_of_getLast? hl)
      simp only [Option.map_some, slitToReal]
      have := toReal_lt hf.1 (sub_wf e.2 turn)
      rw [toReal_sub he.2 ht] at this
      exact decide_eq_decide.mpr this.symm

/-- the slit validation evaluated over `Q` by the driver is the one the theorems are about -/
theorem checkEdgeOverlap_toReal (wrap : Bool) (turn : Q) (ht : WF turn) (l : List (Q × Q)) (h : SlitsWF l) :
    checkEdgeOverlap wrap (toReal turn) (l.map slitToReal) = checkEdgeOverlap wrap turn l := by
  unfold checkEdgeOverlap
  have hs : SlitsWF (sortByBegin l) := fun s hs => h s ((sortByBegin_perm_Q l).mem_iff.mp hs)
  rw [← sortByBegin_toReal l h]
  simp only [adjacentOverlap_toReal _ hs, wrapOverlap_toReal turn ht _ hs]
where
  sortByBegin_perm_Q (l : List (Q × Q)) : (sortByBegin l).Perm l := List.mergeSort_perm _ _

/-! ## What acceptance by `_check_edges` (current code, with the comparison across top-dead-centre) gives -/

/-- **check_edges_accept_iff** (current code): a slit set is accepted iff the arrays have equal length, every
`begin ≤ end`, the slits are pairwise disjoint on the line, and every end lies at most one turn after every begin -/
theorem check_edges_accept_iff (begins ends : List ℝ) :
    checkEdges true 1 begins ends = .ok () ↔
      begins.length = ends.length ∧ (∀ s ∈ begins.zip ends, s.1 ≤ s.2) ∧
      (begins.zip ends).Pairwise DisjointOnLine ∧
      ∀ s ∈ begins.zip ends, ∀ t ∈ begins.zip ends, t.2 ≤ s.1 + 1 := by
  obtain ⟨h1, h2, h3⟩ := check_edges_spec true 1 begins ends
  by_cases hl : begins.length = ends.length
  · by_cases hb : ∀ s ∈ begins.zip ends, s.1 ≤ s.2
    · rw [h3 hl hb, overlap_rejected_iff_fixed _ hb]
      exact ⟨fun h => ⟨hl, hb, h.1, h.2⟩, fun h => ⟨h.2.2.1, h.2.2.2⟩⟩
    · have hex : ∃ s ∈ begins.zip ends, s.2 < s.1 := by
        by_contra hne
        apply hb; intro s hs
        by_contra hlt
        exact hne ⟨s, hs, not_le.mp hlt⟩
      rw [h2 hl hex]
      exact ⟨fun h => (by cases h), fun h => absurd h.2.1 hb⟩
  · rw [h1 hl]
    exact ⟨fun h => (by cases h), fun h => absurd h.1 hl⟩

/-- accepted slits: the hypothesis `none_missing` really needs (non-strict version of `WithinOneTurn`) -/
def TurnBounded (slits : List (ℝ × ℝ)) : Prop :=
  (∀ s ∈ slits, s.1 ≤ s.2) ∧ ∀ s ∈ slits, ∀ t ∈ slits, t.2 ≤ s.1 + 1

/-- **accepted_implies_within_one_turn**: acceptance implies that all slits lie within one turn of each other
(non-strictly: the last end may coincide with the first begin one turn later — slits touching across
top-dead-centre and a single slit of exactly one turn are accepted) -/
theorem accepted_implies_within_one_turn (begins ends : List ℝ) (h : checkEdges true 1 begins ends = .ok ()) :
    TurnBounded (begins.zip ends) := by
  obtain ⟨_, hb, _, ht⟩ := (check_edges_accept_iff begins ends).mp h
  exact ⟨hb, ht⟩

theorem turnBounded_normal_form (d : Disk ℝ) (h : TurnBounded d.slits)
    (s : ℝ × ℝ) (hs : s ∈ d.slits) (s' : ℝ × ℝ) (hs' : s' ∈ d.slits) :
    aClose d s' ≤ aOpen d s + 1 ∧ aOpen d s ≤ aClose d s := by
  have h1 := h.2 s hs s' hs'
  have h2 := h.2 s' hs' s hs
  have h3 := h.1 s hs
  unfold aOpen aClose
  split <;> constructor <;> linarith

/-- `none_missing` under the non-strict bound that acceptance provides -/
theorem none_missing_of_turnBounded (d : Disk ℝ) (hf : d.freq ≠ 0) (n : Nat) (hw : TurnBounded d.slits)
    (t : ℝ) (hopen : OpenAt d t)
    (hlo : ∃ p ∈ openings d n, p.1 ≤ t) (hhi : ∃ p ∈ openings d n, t ≤ p.2) :
    ∃ p ∈ openings d n, p.1 ≤ t ∧ t ≤ p.2 := by
  have hF : 0 < |d.freq| := abs_pos.mpr hf
  obtain ⟨s, hs, hso⟩ := hopen
  obtain ⟨k, hk1, hk2⟩ := (slitOpenAt_iff d hf s t).mp hso
  obtain ⟨p0, hp0, hp0t⟩ := hlo
  obtain ⟨p1, hp1, hp1t⟩ := hhi
  obtain ⟨k0, hk0, s0, hs0, rfl⟩ := (mem_openings d n p0).mp hp0
  obtain ⟨k1, hk1', s1, hs1, rfl⟩ := (mem_openings d n p1).mp hp1
  have hk0' := (mem_turns n k0).mp hk0
  have hk1'' := (mem_turns n k1).mp hk1'
  have hp0t' := hp0t
  have hp1t' := hp1t
  simp only [openTime_eq d hf, closeTime_eq d hf, div_le_iff₀ hF, le_div_iff₀ hF] at hp0t' hp1t'
  have ha := turnBounded_normal_form d hw s0 hs0 s hs     -- aClose s ≤ aOpen s0 + 1
  have hb := turnBounded_normal_form d hw s hs s1 hs1     -- aClose s1 ≤ aOpen s + 1
  have hc := turnBounded_normal_form d hw s1 hs1 s1 hs1
  by_cases hkl : -1 ≤ k
  · by_cases hku : k < n
    · refine ⟨(openTime d s k, closeTime d s k), (mem_openings d n _).mpr ⟨k, (mem_turns n k).mpr ⟨hkl, hku⟩, s, hs, rfl⟩, ?_, ?_⟩
      · simp only [openTime_eq d hf, div_le_iff₀ hF]; linarith
      · simp only [closeTime_eq d hf, le_div_iff₀ hF]; linarith
    · -- the opening is in turn `k ≥ n`: then `t` is the instant at which the last reported interval closes
      refine ⟨_, hp1, ?_, hp1t⟩
      have : (n : ℝ) ≤ k := by
        have : (n : ℤ) ≤ k := by omega
        exact_mod_cast this
      have : (k1 : ℝ) ≤ n - 1 := by
        have : k1 ≤ (n : ℤ) - 1 := by omega
        exact_mod_cast this
      simp only [openTime_eq d hf, div_le_iff₀ hF]
      linarith [hc.2]
  · -- the opening is in turn `k ≤ −2`: then `t` is the instant at which the first reported interval opens
    refine ⟨_, hp0, hp0t, ?_⟩
    have : (k : ℝ) ≤ -2 := by
      have : k ≤ -2 := by omega
      exact_mod_cast this
    have : (-1 : ℝ) ≤ k0 := by exact_mod_cast hk0'.1
    simp only [closeTime_eq d hf, le_div_iff₀ hF]
    linarith [ha.2]

/-- **accepted_none_missing**: for every slit set accepted by `_check_edges` (no further hypothesis), no
opening inside the reported span is missing -/
theorem accepted_none_missing (freq beam phase : ℝ) (begins ends : List ℝ)
    (hacc : checkEdges true 1 begins ends = .ok ()) (hf : freq ≠ 0) (n : Nat) (t : ℝ) :
    let d : Disk ℝ := ⟨freq, beam, phase, begins.zip ends⟩
    OpenAt d t → (∃ p ∈ openings d n, p.1 ≤ t) → (∃ p ∈ openings d n, t ≤ p.2) →
      ∃ p ∈ openings d n, p.1 ≤ t ∧ t ≤ p.2 := by
  intro d hopen hlo hhi
  exact none_missing_of_turnBounded d hf n (accepted_implies_within_one_turn begins ends hacc) t hopen hlo hhi

/-! ### separation on the circle -/

theorem exists_pos_lower_bound {α : Type} (l : List α) (f : α → ℝ) (h : ∀ x ∈ l, 0 < f x) :
    ∃ g, 0 < g ∧ ∀ x ∈ l, g ≤ f x := by
  induction l with
  | nil => exact ⟨1, one_pos, by simp⟩
  | cons a t ih =>
    obtain ⟨g, hg, hgt⟩ := ih (fun x hx => h x (List.mem_cons_of_mem _ hx))
    refine ⟨min (f a) g, lt_min (h a (by simp)) hg, ?_⟩
    intro x hx
    rcases List.mem_cons.mp hx with rfl | hx
    · exact min_le_left _ _
    · exact le_trans (min_le_right _ _) (hgt x hx)

theorem pairwise_forall_ne {α : Type} {R : α → α → Prop} (hsymm : ∀ a b, R a b → R b a) :
    ∀ (l : List α), l.Pairwise R → ∀ a ∈ l, ∀ b ∈ l, a ≠ b → R a b
  | [], _, a, ha, _, _, _ => by simp at ha
  | x :: t, hp, a, ha, b, hb, hne => by
    obtain ⟨hx, ht⟩ := List.pairwise_cons.mp hp
    rcases List.mem_cons.mp ha with rfl | ha' <;> rcases List.mem_cons.mp hb with rfl | hb'
    · exact absurd rfl hne
    · exact hx b hb'
    · exact hsymm _ _ (hx a ha')
    · exact pairwise_forall_ne hsymm t ht a ha' b hb' hne

/-- no slit ends exactly one turn after a slit begins: excludes slits that touch across top-dead-centre and a
single slit of exactly one full turn (both are accepted by the code; the chopper then never closes there) -/
def NoTouchAcrossTdc (slits : List (ℝ × ℝ)) : Prop := ∀ s ∈ slits, ∀ t ∈ slits, t.2 ≠ s.1 + 1

/-- **accepted_implies_separated**: an accepted slit set without a touch across top-dead-centre is separated
on the circle by a positive margin `g` (the minimum of finitely many positive gaps: neighbouring slits are
compared strictly by the code) -/
theorem accepted_implies_separated (begins ends : List ℝ) (hacc : checkEdges true 1 begins ends = .ok ())
    (hnt : NoTouchAcrossTdc (begins.zip ends)) : ∃ g, 0 < g ∧ Separated (begins.zip ends) g := by
  obtain ⟨_, hb, hpd, ht⟩ := (check_edges_accept_iff begins ends).mp hacc
  generalize begins.zip ends = slits at hb hpd ht hnt
  let f : (ℝ × ℝ) × (ℝ × ℝ) → ℝ := fun p =>
    min (p.1.1 + 1 - p.2.2)
      (if p.1.2 < p.2.1 then p.2.1 - p.1.2 else if p.2.2 < p.1.1 then p.1.1 - p.2.2 else 1)
  let pairs := slits.flatMap (fun s => slits.map (fun s' => (s, s')))
  have hmem : ∀ s ∈ slits, ∀ s' ∈ slits, (s, s') ∈ pairs := by
    intro s hs s' hs'
    simp only [pairs, List.mem_flatMap, List.mem_map]
    exact ⟨s, hs, s', hs', rfl⟩
  have hpos : ∀ p ∈ pairs, 0 < f p := by
    intro p hp
    simp only [pairs, List.mem_flatMap, List.mem_map] at hp
    obtain ⟨s, hs, s', hs', rfl⟩ := hp
    apply lt_min
    · have h1 := ht s hs s' hs'
      have h2 := hnt s hs s' hs'
      have : s'.2 < s.1 + 1 := lt_of_le_of_ne h1 h2
      simp only; linarith
    · simp only
      split
      · linarith
      · split
        · linarith
        · exact one_pos
  obtain ⟨g, hg, hgle⟩ := exists_pos_lower_bound pairs f hpos
  refine ⟨g, hg, ?_⟩
  intro s hs s' hs' j
  have h1 := hgle _ (hmem s hs s' hs')
  have h2 := hgle _ (hmem s' hs' s hs)
  have h1a : g ≤ s.1 + 1 - s'.2 := le_trans h1 (min_le_left _ _)
  have h2a : g ≤ s'.1 + 1 - s.2 := le_trans h2 (min_le_left _ _)
  rcases int_cases j with hj | hj | hj
  · right; right; linarith
  · subst hj
    by_cases he : s' = s
    · exact Or.inl ⟨he, rfl⟩
    · have hd : DisjointOnLine s s' :=
        pairwise_forall_ne (fun a b h => Or.symm h) slits hpd s hs s' hs' (fun e => he e.symm)
      have h1b := le_trans h1 (min_le_right _ _)
      simp only [] at h1b
      rcases hd with hd | hd
      · rw [if_pos hd] at h1b
        right; left; push_cast; linarith
      · have hnot : ¬ s.2 < s'.1 := by
          intro hh; have := hb s hs; have := hb s' hs'; linarith
        rw [if_neg hnot, if_pos hd] at h1b
        right; right; push_cast; linarith
  · right; left; linarith

/-- **accepted_closed_just_outside** (partial: needs `NoTouchAcrossTdc`): for every accepted slit set without
a touch across top-dead-centre there is a margin `g > 0` such that no slit is over the beam during `g/|f|`
before every reported opening time and after every reported closing time -/
theorem accepted_closed_just_outside_partial (freq beam phase : ℝ) (begins ends : List ℝ)
    (hacc : checkEdges true 1 begins ends = .ok ()) (hnt : NoTouchAcrossTdc (begins.zip ends))
    (hf : freq ≠ 0) (n : Nat) :
    let d : Disk ℝ := ⟨freq, beam, phase, begins.zip ends⟩
    ∃ g, 0 < g ∧ ∀ p ∈ openings d n, ∀ t,
      (p.1 - g / |freq| < t ∧ t < p.1) ∨ (p.2 < t ∧ t < p.2 + g / |freq|) → ¬ OpenAt d t := by
  intro d
  obtain ⟨g, hg, hsep⟩ := accepted_implies_separated begins ends hacc hnt
  have hb := (accepted_implies_within_one_turn begins ends hacc).1
  exact ⟨g, hg, closed_just_outside d hf n g hsep hb⟩

/-- the statement without the extra hypothesis -/
def AcceptedClosedJustOutsideFull : Prop :=
  ∀ (freq beam phase : ℝ) (begins ends : List ℝ), checkEdges true 1 begins ends = .ok () → freq ≠ 0 → ∀ n : Nat,
    ∃ ε, 0 < ε ∧ ∀ p ∈ openings (⟨freq, beam, phase, begins.zip ends⟩ : Disk ℝ) n, ∀ t,
      (p.1 - ε < t ∧ t < p.1) ∨ (p.2 < t ∧ t < p.2 + ε) → ¬ OpenAt ⟨freq, beam, phase, begins.zip ends⟩ t

/-- two slits `[0°, 36°]` and `[324°, 360°]` touching across top-dead-centre, anticlockwise at unit frequency -/
noncomputable def touchDisk : Disk ℝ := ⟨1, 0, 0, [(0, 1 / 10), (9 / 10, 1)]⟩

theorem touchDisk_cw : isClockwise touchDisk = false := by simp [isClockwise, touchDisk]

/-- **it is false of the code**: slits `[0°, 36°]` and `[324°, 360°]` touch across top-dead-centre and are
accepted; immediately before the second slit opens the first one is still over the beam -/
theorem accepted_closed_just_outside_full_false : ¬ AcceptedClosedJustOutsideFull := by
  intro h
  have hacc : checkEdges true 1 ([0, 9 / 10] : List ℝ) [1 / 10, 1] = .ok () := by
    rw [check_edges_accept_iff]
    refine ⟨rfl, ?_, ?_, ?_⟩
    · intro s hs; simp at hs; rcases hs with rfl | rfl <;> norm_num
    · simp [DisjointOnLine]; norm_num
    · intro s hs t ht; simp at hs ht
      rcases hs with rfl | rfl <;> rcases ht with rfl | rfl <;> norm_num
  obtain ⟨ε, hε, hcl⟩ := h 1 0 0 [0, 9 / 10] [1 / 10, 1] hacc one_ne_zero 1
  have e : (⟨1, 0, 0, ([0, 9 / 10] : List ℝ).zip [1 / 10, 1]⟩ : Disk ℝ) = touchDisk := by simp [touchDisk]
  rw [e] at hcl
  have hfd : touchDisk.freq ≠ 0 := by simp [touchDisk]
  have hB : ((9 / 10 : ℝ), (1 : ℝ)) ∈ touchDisk.slits := by simp [touchDisk]
  have hA : ((0 : ℝ), (1 / 10 : ℝ)) ∈ touchDisk.slits := by simp [touchDisk]
  have hopenB : openTime touchDisk (9 / 10, 1) 0 = 0 := by
    rw [openTime_eq _ hfd]; simp only [aOpen, touchDisk_cw]; simp [touchDisk]
  have hmem : (openTime touchDisk (9 / 10, 1) 0, closeTime touchDisk (9 / 10, 1) 0) ∈ openings touchDisk 1 :=
    (mem_openings _ 1 _).mpr ⟨0, (mem_turns 1 0).mpr ⟨by norm_num, by norm_num⟩, _, hB, rfl⟩
  -- a time shortly before the second slit opens
  have hm1 : 0 < min ε (1 / 10) := lt_min hε (by norm_num)
  have hm2 : min ε (1 / 10) ≤ ε := min_le_left _ _
  have hm3 : min ε (1 / 10) ≤ 1 / 10 := min_le_right _ _
  have hbefore : openTime touchDisk (9 / 10, 1) 0 - ε < -(min ε (1 / 10)) / 2 ∧
      -(min ε (1 / 10)) / 2 < openTime touchDisk (9 / 10, 1) 0 := by
    rw [hopenB]; constructor <;> linarith
  apply hcl _ hmem _ (Or.inl hbefore)
  refine ⟨(0, 1 / 10), hA, (slitOpenAt_iff _ hfd _ _).mpr ⟨-1, ?_, ?_⟩⟩
  · simp only [aOpen, touchDisk_cw]; simp only [touchDisk]; push_cast; norm_num; linarith
  · simp only [aClose, touchDisk_cw]; simp only [touchDisk]; push_cast; norm_num; linarith

/-! ## The integer-ratio test over `Q` is the one over `ℝ` -/

theorem floor_toReal (a : Q) (h : WF a) : a.floor = ⌊toReal a⌋ := by
  symm
  rw [Int.floor_eq_iff]
  have hd : (0 : ℝ) < a.den := denR_pos h
  have hdz : (0 : ℤ) < (a.den : ℤ) := by exact_mod_cast h
  unfold Q.floor toReal
  have h1 := Int.emod_add_mul_ediv a.num a.den
  have h2 := Int.emod_nonneg a.num (ne_of_gt hdz)
  have h3 := Int.emod_lt_of_pos a.num hdz
  constructor
  · rw [le_div_iff₀ hd]
    have : (a.num / (a.den : ℤ)) * (a.den : ℤ) ≤ a.num := by nlinarith
    exact_mod_cast this
  · rw [div_lt_iff₀ hd]
    have : a.num < (a.num / (a.den : ℤ) + 1) * (a.den : ℤ) := by nlinarith
    exact_mod_cast this

theorem rintInt_toReal (a : Q) (h : WF a) : a.rintInt = rintReal (toReal a) := by
  have hfl := floor_toReal a h
  have hhalf : WF (⟨1, 2⟩ : Q) := by simp [WF]
  have hhv : toReal (⟨1, 2⟩ : Q) = 1 / 2 := by simp [toReal]
  have hr : toReal (a - Q.ofInt a.floor) = toReal a - (⌊toReal a⌋ : ℝ) := by
    rw [toReal_sub h (ofInt_wf _), toReal_ofInt, hfl]
  have c1 : (a - Q.ofInt a.floor < (⟨1, 2⟩ : Q)) ↔ toReal a - (⌊toReal a⌋ : ℝ) < 1 / 2 := by
    rw [toReal_lt (sub_wf _ _) hhalf, hr, hhv]
  have c2 : ((⟨1, 2⟩ : Q) < a - Q.ofInt a.floor) ↔ 1 / 2 < toReal a - (⌊toReal a⌋ : ℝ) := by
    rw [toReal_lt hhalf (sub_wf _ _), hr, hhv]
  unfold Q.rintInt rintReal
  simp only []
  by_cases h1 : toReal a - (⌊toReal a⌋ : ℝ) < 1 / 2
  · rw [if_pos (c1.mpr h1), if_pos h1, hfl]
  · rw [if_neg (fun hh => h1 (c1.mp hh)), if_neg h1]
    by_cases h2 : 1 / 2 < toReal a - (⌊toReal a⌋ : ℝ)
    · rw [if_pos (c2.mpr h2), if_pos h2, hfl]
    · rw [if_neg (fun hh => h2 (c2.mp hh)), if_neg h2, hfl]

theorem absv_toReal (x : Q) (h : WF x) : WF (absv x) ∧ toReal (absv x) = absv (toReal x) := by
  unfold absv
  have key := toReal_lt h (intCast_wf 0)
  rw [toReal_intCast] at key
  by_cases hc : x < ((0 : Int) : Q)
  · rw [if_pos hc, if_pos (key.mp hc)]
    exact ⟨neg_wf h, toReal_neg x⟩
  · rw [if_neg hc, if_neg (fun hh => hc (key.mpr hh))]
    exact ⟨h, rfl⟩

theorem rint_toReal (q : Q) (h : WF q) : WF (Rint.rint q) ∧ toReal (Rint.rint q) = Rint.rint (toReal q) := by
  show WF (Q.ofInt q.rintInt) ∧ toReal (Q.ofInt q.rintInt) = ((rintReal (toReal q) : ℤ) : ℝ)
  exact ⟨ofInt_wf _, by rw [toReal_ofInt, rintInt_toReal q h]⟩

theorem near_int_test_toReal (q rtol : Q) (h : WF q) (hr : WF rtol) :
    decide (absv (Rint.rint q - q) < rtol) = decide (absv (Rint.rint (toReal q) - toReal q) < toReal rtol) := by
  obtain ⟨hw, hv⟩ := rint_toReal q h
  obtain ⟨haw, hav⟩ := absv_toReal (Rint.rint q - q) (sub_wf _ _)
  apply decide_eq_decide.mpr
  rw [toReal_lt haw hr, hav, toReal_sub hw h, hv]

theorem isIntOrInverseInt_toReal (q rtol : Q) (h : WF q) (hr : WF rtol) :
    isIntOrInverseInt q rtol = isIntOrInverseInt (toReal q) (toReal rtol) := by
  unfold isIntOrInverseInt
  simp only []
  rw [near_int_test_toReal q rtol h hr, near_int_test_toReal _ rtol (div_wf _ q) hr,
    toReal_div (intCast_wf 1) h, toReal_intCast]

/-- **sourcePhaseFactor_toReal**: the integer-ratio test (acceptance and number of repetitions) evaluated over
`Q` is the one the theorems are about -/
theorem sourcePhaseFactor_toReal (f pf rtol : Q) (hf : WF f) (hpf : WF pf) (hr : WF rtol) :
    sourcePhaseFactor f pf rtol = sourcePhaseFactor (toReal f) (toReal pf) (toReal rtol) := by
  unfold sourcePhaseFactor
  have k0 := toReal_le hpf (intCast_wf 0)
  rw [toReal_intCast] at k0
  obtain ⟨haw, hav⟩ := absv_toReal f hf
  have hq : WF (absv f / pf) := div_wf _ _
  have hqv : toReal (absv f / pf) = absv (toReal f) / toReal pf := by rw [toReal_div haw hpf, hav]
  by_cases hp : pf ≤ ((0 : Int) : Q)
  · rw [if_pos hp, if_pos (k0.mp hp)]
  · rw [if_neg hp, if_neg (fun hh => hp (k0.mpr hh))]
    simp only []
    rw [isIntOrInverseInt_toReal _ rtol hq hr, hqv]
    have k1 := toReal_lt hq (intCast_wf 1)
    rw [toReal_intCast, hqv] at k1
    split
    · rfl
    · congr 1
      by_cases h1 : absv f / pf < ((1 : Int) : Q)
      · rw [if_pos h1, if_pos (k1.mp h1)]
        show Q.rintInt _ = rintReal _
        rw [rintInt_toReal _ (intCast_wf 1), toReal_intCast]
      · rw [if_neg h1, if_neg (fun hh => h1 (k1.mpr hh))]
        show Q.rintInt _ = rintReal _
        rw [rintInt_toReal _ hq, hqv]

/-- consequently the cascade expansion over `Q` embeds as well -/
theorem fromDiskChopper_toReal (d : Disk Q) (h : DiskWF d) (pf rtol : Q) (hpf : WF pf) (hr : WF rtol) (np : ℕ) :
    (match fromDiskChopper d pf rtol np with
      | .error e => (Except.error e : Except DiskChopper.Err (List ℝ × List ℝ))
      | .ok (o, c) => .ok (o.map toReal, c.map toReal)) =
    fromDiskChopper (diskToReal d) (toReal pf) (toReal rtol) np := by
  unfold fromDiskChopper
  have hs := sourcePhaseFactor_toReal d.freq pf rtol h.1 hpf hr
  have hfr : (diskToReal d).freq = toReal d.freq := rfl
  rw [hfr, ← hs]
  cases hres : sourcePhaseFactor d.freq pf rtol with
  | error e => rfl
  | ok n =>
    simp only []
    have hoff : ∀ ts : List Q, (∀ t ∈ ts, WF t) →
        (addPulseOffsets pf np ts).map toReal = addPulseOffsets (toReal pf) np (ts.map toReal) := by
      intro ts hts
      simp only [addPulseOffsets, List.map_flatMap, List.map_map]
      congr 1; funext j
      apply List.map_congr_left
      intro t ht
      simp only [Function.comp]
      rw [toReal_add (mul_wf _ _) (hts t ht), toReal_mul (intCast_wf _) (div_wf _ _),
        toReal_div (intCast_wf 1) hpf, toReal_intCast, toReal_intCast]
    have hwf : ∀ (angles : List Q) (m : ℕ), ∀ t ∈ timeOffsetAngleAtBeam d angles m, WF t := by
      intro angles m t ht
      simp only [timeOffsetAngleAtBeam, List.mem_map] at ht
      obtain ⟨a, _, rfl⟩ := ht
      exact div_wf _ _
    have ho : ∀ t ∈ timeOffsetOpen d n.toNat, WF t := fun t ht => hwf _ _ t ht
    have hc : ∀ t ∈ timeOffsetClose d n.toNat, WF t := fun t ht => hwf _ _ t ht
    rw [hoff _ ho, hoff _ hc, timeOffsetOpen_toReal d h, timeOffsetClose_toReal d h]

end ScnVerif.Props.C10
