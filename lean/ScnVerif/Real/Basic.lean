import ScnVerif.Model.Arith
import Mathlib.Analysis.SpecialFunctions.Trigonometric.Basic
import Mathlib.Analysis.SpecialFunctions.Complex.Arg
import Mathlib.Analysis.SpecialFunctions.Sqrt
import Mathlib.Analysis.SpecialFunctions.Exp
/-!
The `ℝ` instance of the numeric carrier. `atan2 y x` is `Complex.arg (x + y i)`.
-/
namespace ScnVerif

noncomputable instance : Trans ℝ where
  sqrt := Real.sqrt
  sin := Real.sin
  cos := Real.cos
  atan2 := fun y x => Complex.arg ⟨x, y⟩
  exp := Real.exp
  pi := Real.pi

@[simp] theorem trans_sqrt_real (x : ℝ) : Trans.sqrt x = Real.sqrt x := rfl
@[simp] theorem trans_sin_real (x : ℝ) : Trans.sin x = Real.sin x := rfl
@[simp] theorem trans_cos_real (x : ℝ) : Trans.cos x = Real.cos x := rfl
@[simp] theorem trans_exp_real (x : ℝ) : Trans.exp x = Real.exp x := rfl
@[simp] theorem trans_pi_real : (Trans.pi : ℝ) = Real.pi := rfl
@[simp] theorem trans_atan2_real (y x : ℝ) : Trans.atan2 y x = Complex.arg ⟨x, y⟩ := rfl

end ScnVerif
