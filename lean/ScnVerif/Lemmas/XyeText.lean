import ScnVerif.Model.Xye
/-!
Text-level lemmas for C15: how the file written by `saveText` splits into lines and fields.
-/
namespace ScnVerif.Xye

theorem splitOn_append_sep (c : Char) (l r : List Char) (h : c ∉ l) :
    splitOn c (l ++ c :: r) = l :: splitOn c r := by
  induction l with
  | nil => simp [splitOn]
  | cons a l ih =>
    have ha : a ≠ c := fun e => h (by simp [e])
    have hl : c ∉ l := fun e => h (by simp [e])
    simp only [List.cons_append, splitOn, ha, if_false, ih hl]

theorem splitOn_no_sep (c : Char) (l : List Char) (h : c ∉ l) : splitOn c l = [l] := by
  induction l with
  | nil => simp [splitOn]
  | cons a l ih =>
    have ha : a ≠ c := fun e => h (by simp [e])
    have hl : c ∉ l := fun e => h (by simp [e])
    simp only [splitOn, ha, if_false, ih hl]

theorem takeWhile_of_all (p : Char → Bool) (l : List Char) (h : ∀ c ∈ l, p c = true) :
    l.takeWhile p = l := by
  induction l with
  | nil => rfl
  | cons a l ih =>
    simp only [List.takeWhile_cons, h a (by simp), if_true]
    rw [ih (fun c hc => h c (by simp [hc]))]

theorem stripTrailingCR_of_not_mem (l : List Char) (h : '\r' ∉ l) : stripTrailingCR l = l := by
  unfold stripTrailingCR
  split
  · rename_i r hr
    exfalso; apply h
    have : '\r' ∈ l.reverse := by rw [hr]; simp
    simpa using this
  · rfl

theorem stripTrailingCR_hash (rest : List Char) :
    ∃ rest', stripTrailingCR ('#' :: rest) = '#' :: rest' := by
  unfold stripTrailingCR
  split
  · rename_i r hr
    rw [List.reverse_cons] at hr
    cases hrr : rest.reverse with
    | nil => rw [hrr] at hr; simp at hr
    | cons a t =>
      rw [hrr] at hr
      simp only [List.cons_append, List.cons.injEq] at hr
      refine ⟨t.reverse, ?_⟩
      rw [← hr.2]; simp
  · exact ⟨rest, rfl⟩

section
variable {F : Type}

/-- a line that starts with `#` contributes no row, whatever follows the `#` -/
theorem processLine_comment (parse : List Char → Option F) (rest : List Char) :
    processLine parse ('#' :: rest) = .ok none := by
  obtain ⟨rest', h⟩ := stripTrailingCR_hash rest
  simp [processLine, h]

theorem processLine_empty (parse : List Char → Option F) : processLine parse [] = .ok none := by
  simp [processLine, stripTrailingCR]

/-- characters a number may not contain for the table to be recoverable -/
def Safe (s : List Char) : Prop := ' ' ∉ s ∧ '\n' ∉ s ∧ '\r' ∉ s ∧ '#' ∉ s

def rowLine (fmt : F → List Char) (sqrt : F → F) (r : F × F × F) : List Char :=
  fmt r.1 ++ ' ' :: fmt r.2.1 ++ ' ' :: fmt (sqrt r.2.2)

theorem rowText_eq (fmt : F → List Char) (sqrt : F → F) (r : F × F × F) :
    rowText fmt sqrt r = rowLine fmt sqrt r ++ ['\n'] := by
  simp [rowText, rowLine]

theorem rowLine_not_mem (fmt : F → List Char) (sqrt : F → F) (hs : ∀ a, Safe (fmt a)) (r : F × F × F)
    (c : Char) (hc : c = '\n' ∨ c = '\r' ∨ c = '#') : c ∉ rowLine fmt sqrt r := by
  have h1 := hs r.1; have h2 := hs r.2.1; have h3 := hs (sqrt r.2.2)
  unfold Safe at h1 h2 h3
  simp only [rowLine, List.mem_append, List.mem_cons, not_or]
  rcases hc with rfl | rfl | rfl <;> simp_all

theorem processLine_row (fmt : F → List Char) (sqrt : F → F) (parse : List Char → Option F) (g : F → F)
    (hs : ∀ a, Safe (fmt a)) (hp : ∀ a, parse (fmt a) = some (g a))
    (r : F × F × F) :
    processLine parse (rowLine fmt sqrt r) = .ok (some [g r.1, g r.2.1, g (sqrt r.2.2)]) := by
  have hcr := rowLine_not_mem fmt sqrt hs r '\r' (by simp)
  have hhash := rowLine_not_mem fmt sqrt hs r '#' (by simp)
  have hsplit : splitOn ' ' (rowLine fmt sqrt r) = [fmt r.1, fmt r.2.1, fmt (sqrt r.2.2)] := by
    unfold rowLine
    simp only [List.append_assoc, List.cons_append]
    rw [splitOn_append_sep _ _ _ (hs r.1).1, splitOn_append_sep _ _ _ (hs r.2.1).1,
      splitOn_no_sep _ _ (hs (sqrt r.2.2)).1]
  have htw : (rowLine fmt sqrt r).takeWhile (· ≠ '#') = rowLine fmt sqrt r := by
    apply takeWhile_of_all; intro c hc; simp; intro e; exact hhash (e ▸ hc)
  have hnonempty : rowLine fmt sqrt r ≠ [] := by
    intro h
    have : ' ' ∈ rowLine fmt sqrt r := by simp [rowLine]
    rw [h] at this; simp at this
  unfold processLine
  rw [stripTrailingCR_of_not_mem _ hcr, htw]
  have hc : (rowLine fmt sqrt r).contains '\r' = false := by
    rw [← Bool.not_eq_true, List.contains_iff_mem]; exact hcr
  simp only [hc, Bool.false_eq_true, if_false, hsplit]
  have : (rowLine fmt sqrt r).isEmpty = false := by
    cases h : rowLine fmt sqrt r with
    | nil => exact absurd h hnonempty
    | cons a t => rfl
  simp [this, hp]

theorem tableRows_comments (parse : List Char → Option F) (ls rest : List (List Char))
    (h : ∀ l ∈ ls, processLine parse l = .ok none) :
    tableRows parse (ls ++ rest) = tableRows parse rest := by
  induction ls with
  | nil => rfl
  | cons l ls ih =>
    have hl := h l (by simp)
    have := ih (fun l' hl' => h l' (by simp [hl']))
    simp only [List.cons_append, tableRows, hl, this, bind, Except.bind, pure, Except.pure]
    cases tableRows parse rest <;> rfl

theorem tableRows_rows (fmt : F → List Char) (sqrt : F → F) (parse : List Char → Option F) (g : F → F)
    (hs : ∀ a, Safe (fmt a)) (hp : ∀ a, parse (fmt a) = some (g a))
    (rows : List (F × F × F)) :
    tableRows parse (rows.map (rowLine fmt sqrt) ++ [[]])
      = .ok (rows.map (fun r => [g r.1, g r.2.1, g (sqrt r.2.2)])) := by
  induction rows with
  | nil => simp [tableRows, processLine_empty, bind, Except.bind, pure, Except.pure]
  | cons r rows ih =>
    simp only [List.map_cons, List.cons_append, tableRows, processLine_row fmt sqrt parse g hs hp r,
      ih, bind, Except.bind, pure, Except.pure]

/-- the rows part of the file splits into one line per row plus the empty piece after the last
newline -/
theorem splitOn_rows (fmt : F → List Char) (sqrt : F → F) (hs : ∀ a, Safe (fmt a))
    (rows : List (F × F × F)) :
    splitOn '\n' (rows.map (rowText fmt sqrt)).flatten = rows.map (rowLine fmt sqrt) ++ [[]] := by
  induction rows with
  | nil => simp [splitOn]
  | cons r rows ih =>
    simp only [List.map_cons, List.flatten_cons, rowText_eq, List.append_assoc, List.cons_append]
    rw [splitOn_append_sep _ _ _ (rowLine_not_mem fmt sqrt hs r '\n' (by simp)), List.nil_append, ih]

/-- every line that the header contributes starts with `#` -/
theorem splitOn_header_aux (h : List Char) (rest : List Char) :
    ∀ pre : List Char, '\n' ∉ pre →
      ∃ ls : List (List Char), (∀ l ∈ ls, ∃ t, l = '#' :: t) ∧
        splitOn '\n' (('#' :: pre) ++ replaceNewlines h ++ '\n' :: rest) = ls ++ splitOn '\n' rest := by
  induction h with
  | nil =>
    intro pre hpre
    refine ⟨['#' :: pre], by simp, ?_⟩
    simp only [replaceNewlines, List.append_nil]
    rw [splitOn_append_sep _ _ _ (by simp [hpre])]; rfl
  | cons c h ih =>
    intro pre hpre
    by_cases hc : c = '\n'
    · subst hc
      obtain ⟨ls, hls, e⟩ := ih [' '] (by simp)
      refine ⟨('#' :: pre) :: ls, ?_, ?_⟩
      · intro l hl; rcases List.mem_cons.mp hl with rfl | hl
        · exact ⟨pre, rfl⟩
        · exact hls l hl
      · simp only [replaceNewlines, if_true]
        have : ('#' :: pre) ++ ('\n' :: '#' :: ' ' :: replaceNewlines h) ++ '\n' :: rest
            = ('#' :: pre) ++ '\n' :: (('#' :: [' ']) ++ replaceNewlines h ++ '\n' :: rest) := by simp
        rw [this, splitOn_append_sep _ _ _ (by simp [hpre]), e]; rfl
    · obtain ⟨ls, hls, e⟩ := ih (pre ++ [c]) (by simp [hpre]; exact fun e => hc e.symm)
      refine ⟨ls, hls, ?_⟩
      simp only [replaceNewlines, hc, if_false]
      have : ('#' :: pre) ++ (c :: replaceNewlines h) ++ '\n' :: rest
          = ('#' :: (pre ++ [c])) ++ replaceNewlines h ++ '\n' :: rest := by simp
      rw [this, e]

theorem splitOn_header (header rest : List Char) :
    ∃ ls : List (List Char), (∀ l ∈ ls, ∃ t, l = '#' :: t) ∧
      splitOn '\n' (headerText header ++ rest) = ls ++ splitOn '\n' rest := by
  unfold headerText
  split
  · exact ⟨[], by simp, by simp⟩
  · obtain ⟨ls, hls, e⟩ := splitOn_header_aux header rest [' '] (by simp)
    refine ⟨ls, hls, ?_⟩
    have : ('#' :: ' ' :: replaceNewlines header ++ ['\n']) ++ rest
        = ('#' :: [' ']) ++ replaceNewlines header ++ '\n' :: rest := by simp
    rw [this, e]

theorem univNewlines_of_not_mem : ∀ t : List Char, '\r' ∉ t → univNewlines t = t
  | [], _ => rfl
  | c :: cs, h => by
    have hc : c ≠ '\r' := fun e => h (by simp [e])
    have ih := univNewlines_of_not_mem cs (fun e => h (by simp [e]))
    unfold univNewlines
    split
    · rename_i heq; simp at heq
    · rename_i heq; simp at heq; exact absurd heq.1 hc
    · rename_i heq; simp at heq; exact absurd heq.1 hc
    · rename_i heq; simp at heq; rw [← heq.1, ← heq.2, ih]

end
end ScnVerif.Xye
