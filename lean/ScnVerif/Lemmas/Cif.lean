import ScnVerif.Model.Cif.Parser
import ScnVerif.Model.Cif.Builder
/-!
# Lemmas about the CIF tokenizer run over what the writer model produces

The compositional device is `Piece t toks`: read from the start of a line, the text `t` yields exactly
the tokens `toks` and leaves the reader at the start of a line.  Every unit the writer emits (comment,
pair, chunk, loop, block heading, block, file heading, file) is a `Piece`, and pieces compose by
concatenation.  All statements are about the *repaired* writer (`Variant.current`).
No Mathlib; induction over character lists throughout.
-/
namespace ScnVerif.Cif

theorem run_nil (st : St) : run st [] = st := rfl
theorem run_cons (st : St) (c : Nat) (cs : Str) : run st (c :: cs) = run (step st c) cs := rfl
theorem run_append (st : St) (a b : Str) : run st (a ++ b) = run (run st a) b := by
  simp [run, List.foldl_append]

/-- an unquoted token accumulates while no white space comes -/
theorem run_bare (buf : Str) (out : List Tok) (s : Str) (h : ∀ c ∈ s, isWs c = false) :
    run (.bare buf, out) s = (.bare (s.reverse ++ buf), out) := by
  induction s generalizing buf with
  | nil => simp [run_nil]
  | cons c t ih =>
    have hc : isWs c = false := h c (by simp)
    rw [run_cons, show step (.bare buf, out) c = (.bare (c :: buf), out) by simp [step, hc]]
    rw [ih _ (fun d hd => h d (by simp [hd]))]; simp

theorem run_quote_body (q : Nat) (buf : Str) (out : List Tok) (s : Str)
    (h : ∀ c ∈ s, c ≠ q ∧ isEol c = false) :
    run (.quote q buf false, out) s = (.quote q (s.reverse ++ buf) false, out) := by
  induction s generalizing buf with
  | nil => simp [run_nil]
  | cons c t ih =>
    have hc := h c (by simp)
    rw [run_cons, show step (.quote q buf false, out) c = (.quote q (c :: buf) false, out) by
      simp [step, hc.1, hc.2]]
    rw [ih _ (fun d hd => h d (by simp [hd]))]; simp

theorem run_comment (out : List Tok) (s : Str) (h : ∀ c ∈ s, isEol c = false) :
    run (.comment, out) s = (.comment, out) := by
  induction s with
  | nil => rfl
  | cons c t ih =>
    rw [run_cons, show step (.comment, out) c = (.comment, out) by simp [step, h c (by simp)]]
    exact ih (fun d hd => h d (by simp [hd]))

/-- no `;` stands at the beginning of a line (`ls`: the first character begins a line) -/
def textSafe : Bool → Str → Bool
  | _, [] => true
  | ls, c :: cs => !(c == 59 && ls) && textSafe (isEol c) cs

def lastLs : Bool → Str → Bool
  | ls, [] => ls
  | _, c :: cs => lastLs (isEol c) cs

theorem run_text_body (buf : Str) (ls : Bool) (out : List Tok) (s : Str) (h : textSafe ls s = true) :
    run (.text buf ls, out) s = (.text (s.reverse ++ buf) (lastLs ls s), out) := by
  induction s generalizing buf ls with
  | nil => simp [run_nil, lastLs]
  | cons c t ih =>
    simp only [textSafe, Bool.and_eq_true, Bool.not_eq_true', Bool.and_eq_false_iff, beq_eq_false_iff_ne] at h
    have hs : step (.text buf ls, out) c = (.text (c :: buf) (isEol c), out) := by
      have : ¬ (c = 59 ∧ ls = true) := by
        rcases h.1 with h1 | h1
        · exact fun hh => h1 hh.1
        · intro hh; simp [hh.2] at h1
      simp [step, this]
    rw [run_cons, hs, ih _ _ h.2]; simp [lastLs]

theorem quotesFor_single {s : Str} (h : quotesFor true s = .single) : 10 ∉ s ∧ 39 ∉ s := by
  unfold quotesFor at h
  repeat' (split at h)
  all_goals simp_all

theorem quotesFor_double {s : Str} (h : quotesFor true s = .double) : 10 ∉ s ∧ 34 ∉ s := by
  unfold quotesFor at h
  repeat' (split at h)
  all_goals simp_all

theorem quotesFor_bare {s : Str} (h : quotesFor true s = .bare) :
    ∃ c t, s = c :: t ∧ 10 ∉ s ∧ 39 ∉ s ∧ 34 ∉ s ∧ 32 ∉ s ∧ 9 ∉ s
      ∧ reservedLead c = false ∧ reservedWord s = false := by
  unfold quotesFor at h
  repeat' (split at h)
  all_goals simp_all


theorem textSafe_append (ls : Bool) (a b : Str) :
    textSafe ls (a ++ b) = (textSafe ls a && textSafe (lastLs ls a) b) := by
  induction a generalizing ls with
  | nil => simp [textSafe, lastLs]
  | cons c t ih => simp [textSafe, lastLs, ih, Bool.and_assoc]

theorem lastLs_append_singleton (ls : Bool) (a : Str) (c : Nat) : lastLs ls (a ++ [c]) = isEol c := by
  induction a generalizing ls with
  | nil => simp [lastLs]
  | cons d t ih => simp [lastLs, ih]

/-- the string carried by the value token of a formatted value: a text field `; s\n;` carries the
blank that the writer puts after the opening semicolon -/
def tokenValue (s : Str) : Str := if quotesFor true s = .text then 32 :: s else s

/-- no line of the value, other than the first, begins with `;` (such a line would close the text
field that has to be used for multi-line values; CIF 1.1 has no escape for it) -/
def Benign (s : Str) : Prop := textSafe false s = true
instance (s : Str) : Decidable (Benign s) := by unfold Benign; infer_instance

theorem isWs_false_of {c : Nat} (h10 : c ≠ 10) (h13 : c ≠ 13) (h32 : c ≠ 32) (h9 : c ≠ 9) : isWs c = false := by
  simp [isWs, isEol, isBlank, h10, h13, h32, h9]

theorem isEol_false_of {c : Nat} (h10 : c ≠ 10) (h13 : c ≠ 13) : isEol c = false := by
  simp [isEol, h10, h13]

theorem ne_of_not_mem {s : Str} {a : Nat} (h : a ∉ s) : ∀ c ∈ s, c ≠ a := fun _ hc e => h (e ▸ hc)

theorem lower_eq (s : Str) : s.map asciiLower = lower s := rfl

theorem classify_value {c : Nat} {t : Str} (hl : reservedLead c = false) (hw : reservedWord (c :: t) = false) :
    classify (c :: t) = .value (c :: t) := by
  simp only [reservedLead, Bool.or_eq_false_iff, beq_eq_false_iff_ne] at hl
  obtain ⟨⟨⟨⟨⟨h95, _⟩, h36⟩, h91⟩, h93⟩, _⟩ := hl
  simp only [reservedWord, lower_eq, Bool.or_eq_false_iff, beq_eq_false_iff_ne] at hw
  obtain ⟨⟨⟨⟨hd, hs⟩, hloop⟩, hstop⟩, hglob⟩ := hw
  unfold classify
  split
  · contradiction
  · rename_i h; simp at h; exact absurd h.1 h95
  · rename_i h; simp at h; exact absurd h.1 h36
  · rename_i h; simp at h; exact absurd h.1 h91
  · rename_i h; simp at h; exact absurd h.1 h93
  · simp only [kwData, kwSave, kwLoop, kwStop, kwGlobal, hd, hs]
    simp [hloop, hstop, hglob]


theorem run_quoted (q : Nat) (hq : q = 39 ∨ q = 34) (s : Str) (hs : ∀ c ∈ s, c ≠ q ∧ isEol c = false)
    (ls : Bool) (w : Nat) (hw : isWs w = true) (out : List Tok) :
    run (.ws ls, out) ([q] ++ s ++ [q] ++ [w]) = (.ws (isEol w), out ++ [.value s]) := by
  have h0 : step (.ws ls, out) q = (.quote q [] false, out) := by
    rcases hq with rfl | rfl <;> simp [step, isEol, isBlank]
  have hqe : isEol q = false := by rcases hq with rfl | rfl <;> simp [isEol]
  simp only [List.append_assoc, List.cons_append, List.nil_append, run_cons, h0]
  rw [run_append, run_quote_body q [] out s hs]
  simp [run_cons, run_nil, step, hqe, hw]

theorem run_textfield (s : Str) (hb : Benign s) (w : Nat) (hw : isWs w = true) (out : List Tok) :
    run (.ws true, out) ([59, 32] ++ s ++ [10, 59] ++ [w]) = (.ws (isEol w), out ++ [.value (32 :: s)]) := by
  have h0 : step (.ws true, out) 59 = (.text [] false, out) := by simp [step, isEol, isBlank]
  have hsafe : textSafe false ([32] ++ s ++ [10]) = true := by
    simp only [List.append_assoc, textSafe_append]
    simp [textSafe, lastLs, isEol]
    exact hb
  have hbody := run_text_body [] false out ([32] ++ s ++ [10]) hsafe
  rw [lastLs_append_singleton] at hbody
  rw [show [59, 32] ++ s ++ [10, 59] ++ [w] = 59 :: (([32] ++ s ++ [10]) ++ [59, w]) by simp,
    run_cons, h0, run_append, hbody]
  simp [run_cons, run_nil, step, isEol, hw]

theorem run_bare_value (c : Nat) (t : Str) (hws : ∀ d ∈ c :: t, isWs d = false)
    (h39 : c ≠ 39) (h34 : c ≠ 34) (hl : reservedLead c = false) (hrw : reservedWord (c :: t) = false)
    (ls : Bool) (w : Nat) (hw : isWs w = true) (out : List Tok) :
    run (.ws ls, out) ((c :: t) ++ [w]) = (.ws (isEol w), out ++ [.value (c :: t)]) := by
  have hc : isWs c = false := hws c (by simp)
  have hl' := hl
  simp only [reservedLead, Bool.or_eq_false_iff, beq_eq_false_iff_ne] at hl'
  obtain ⟨⟨⟨⟨⟨_, h35⟩, _⟩, _⟩, _⟩, h59⟩ := hl'
  have h0 : step (.ws ls, out) c = (.bare [c], out) := by
    simp only [isWs, Bool.or_eq_false_iff] at hc
    simp [step, hc.1, hc.2, h35, h39, h34, h59]
  rw [List.cons_append, run_cons, h0, run_append, run_bare [c] out t (fun d hd => hws d (by simp [hd]))]
  simp [run_cons, run_nil, step, hw, classify_value hl hrw]

/-- **every formatted value is read back as one value token** carrying the value (a text field
carries one more leading blank), whatever white space follows, provided the value has no carriage
return and no line beginning with `;`; a text field has to start a line. -/
theorem fmt_run (s : Str) (hcr : 13 ∉ s) (hb : Benign s) (ls : Bool)
    (hls : quotesFor true s = .text → ls = true) (w : Nat) (hw : isWs w = true) (out : List Tok) :
    run (.ws ls, out) (wrap (quotesFor true s) s ++ [w]) = (.ws (isEol w), out ++ [.value (tokenValue s)]) := by
  cases hq : quotesFor true s with
  | text =>
    have := hls hq; subst this
    simp only [wrap, tokenValue, hq, if_true]
    exact run_textfield s hb w hw out
  | single =>
    obtain ⟨h10, h39⟩ := quotesFor_single hq
    have hs : ∀ c ∈ s, c ≠ 39 ∧ isEol c = false := fun c hc =>
      ⟨ne_of_not_mem h39 c hc, isEol_false_of (ne_of_not_mem h10 c hc) (ne_of_not_mem hcr c hc)⟩
    simp only [wrap, tokenValue, hq]
    exact run_quoted 39 (Or.inl rfl) s hs ls w hw out
  | double =>
    obtain ⟨h10, h34⟩ := quotesFor_double hq
    have hs : ∀ c ∈ s, c ≠ 34 ∧ isEol c = false := fun c hc =>
      ⟨ne_of_not_mem h34 c hc, isEol_false_of (ne_of_not_mem h10 c hc) (ne_of_not_mem hcr c hc)⟩
    simp only [wrap, tokenValue, hq]
    exact run_quoted 34 (Or.inr rfl) s hs ls w hw out
  | bare =>
    obtain ⟨c, t, rfl, h10, h39, h34, h32, h9, hl, hrw⟩ := quotesFor_bare hq
    have hws : ∀ d ∈ c :: t, isWs d = false := fun d hd =>
      isWs_false_of (ne_of_not_mem h10 d hd) (ne_of_not_mem hcr d hd) (ne_of_not_mem h32 d hd) (ne_of_not_mem h9 d hd)
    simp only [wrap, tokenValue, hq]
    exact run_bare_value c t hws (ne_of_not_mem h39 c (by simp)) (ne_of_not_mem h34 c (by simp)) hl hrw ls w hw out


/-! ## pieces: text that is entered and left at the start of a line -/

/-- `Piece t toks`: read from the start of a line, the text `t` yields exactly the tokens `toks`
and leaves the reader at the start of a line -/
def Piece (t : Str) (toks : List Tok) : Prop :=
  ∀ out : List Tok, run (.ws true, out) t = (.ws true, out ++ toks)

theorem Piece.nil : Piece [] [] := fun out => by simp [run_nil]

theorem Piece.newline : Piece [10] [] := fun out => by simp [run_cons, run_nil, step, isEol]

theorem Piece.append {a b : Str} {ta tb : List Tok} (ha : Piece a ta) (hb : Piece b tb) :
    Piece (a ++ b) (ta ++ tb) := fun out => by
  rw [run_append, ha out, hb (out ++ ta), List.append_assoc]

theorem Piece.flatMap {α : Type} (f : α → Str) (g : α → List Tok) (l : List α)
    (h : ∀ x ∈ l, Piece (f x) (g x)) : Piece (l.flatMap f) (l.flatMap g) := by
  induction l with
  | nil => exact Piece.nil
  | cons x xs ih =>
    simp only [List.flatMap_cons]
    exact (h x (by simp)).append (ih (fun y hy => h y (by simp [hy])))

theorem Piece.tokenize {t : Str} {toks : List Tok} (h : Piece t toks) : tokenize t = toks := by
  simp [ScnVerif.Cif.tokenize, h [], finish]

/-! ## comments -/

theorem isEol_of_not_break {c : Nat} (h : isLineBreak c = false) : isEol c = false := by
  simp only [isLineBreak, Bool.or_eq_false_iff, beq_eq_false_iff_ne] at h
  simp [isEol, h.1.1.1.1.1.1.1.1.1, h.1.1.1.1.1.1.1.1.2]

theorem splitLinesAux_no_break (s cur : Str) (hcur : ∀ c ∈ cur, isLineBreak c = false) :
    ∀ l ∈ splitLinesAux s cur, ∀ c ∈ l, isLineBreak c = false := by
  fun_induction splitLinesAux s cur <;> intro l hl <;> (try simp at hl) <;> grind

theorem splitLinesAux_mem (s cur : Str) :
    ∀ l ∈ splitLinesAux s cur, ∀ c ∈ l, c ∈ s ∨ c ∈ cur := by
  fun_induction splitLinesAux s cur <;> intro l hl <;> (try simp at hl) <;> grind

theorem run_comment_lines (lines : List Str) (h : ∀ l ∈ lines, ∀ c ∈ l, isEol c = false) (out : List Tok) :
    run (.comment, out) (joinWith [10, 35, 32] lines ++ [10]) = (.ws true, out) := by
  have hend : ∀ x : Str, (∀ c ∈ x, isEol c = false) → run (.comment, out) (x ++ [10]) = (.ws true, out) := by
    intro x hx
    rw [run_append, run_comment out x hx]; simp [run_cons, run_nil, step, isEol]
  match lines with
  | [] => simpa [joinWith] using hend [] (by simp)
  | [x] => simpa [joinWith] using hend x (h x (by simp))
  | x :: y :: rest =>
    simp only [joinWith, List.append_assoc]
    rw [run_append, run_comment out x (h x (by simp))]
    have : run (.comment, out) [10, 35, 32] = (.comment, out) := by simp [run_cons, run_nil, step, isEol, isBlank]
    rw [show [10, 35, 32] ++ (joinWith [10, 35, 32] (y :: rest) ++ [10])
        = [10, 35, 32] ++ (joinWith [10, 35, 32] (y :: rest) ++ [10]) from rfl, run_append, this]
    exact run_comment_lines (y :: rest) (fun l hl => h l (by simp [hl])) out

/-- **comments never leak**: whatever the comment string, what `_write_comment` writes yields no
token and ends at the start of a line -/
theorem piece_comment (c : Str) : Piece (writeComment c) [] := by
  intro out
  unfold writeComment
  split
  · simp [run_nil]
  · have hl : ∀ l ∈ splitLines c, ∀ d ∈ l, isEol d = false := fun l hl d hd =>
      isEol_of_not_break (splitLinesAux_no_break c [] (by simp) l hl d hd)
    rw [show [35, 32] ++ joinWith [10, 35, 32] (splitLines c) ++ [10]
        = [35, 32] ++ (joinWith [10, 35, 32] (splitLines c) ++ [10]) by simp, run_append]
    have : run (.ws true, out) [35, 32] = (.comment, out) := by simp [run_cons, run_nil, step, isEol, isBlank]
    rw [this, run_comment_lines _ hl]; simp


/-! ## tags, pairs, chunks -/

/-- a CIF data name: non-empty, no white space -/
def TagOk (k : Str) : Prop := k ≠ [] ∧ ∀ c ∈ k, isWs c = false

/-- a value (after `_encode_non_ascii`) the repaired writer can represent -/
def ValueOk (s : Str) : Prop := 13 ∉ s ∧ Benign s

def valueTok (raw : Str) : Tok := .value (tokenValue (encodeNonAscii raw))

theorem run_tag (k : Str) (hk : TagOk k) (ls : Bool) (w : Nat) (hw : isWs w = true) (out : List Tok) :
    run (.ws ls, out) ([95] ++ k ++ [w]) = (.ws (isEol w), out ++ [.tag k]) := by
  have h0 : step (.ws ls, out) 95 = (.bare [95], out) := by simp [step, isEol, isBlank]
  obtain ⟨c, t, rfl⟩ := List.exists_cons_of_ne_nil hk.1
  rw [show [95] ++ (c :: t) ++ [w] = 95 :: ((c :: t) ++ [w]) by simp, run_cons, h0, run_append,
    run_bare [95] out (c :: t) hk.2]
  simp [run_cons, run_nil, step, hw, classify]

theorem head_wrap_text (s : Str) :
    (wrap (quotesFor true s) s).head? = some 59 ↔ quotesFor true s = .text := by
  cases hq : quotesFor true s with
  | text => simp [wrap]
  | single => simp [wrap]
  | double => simp [wrap]
  | bare =>
    obtain ⟨c, t, rfl, _, _, _, _, _, hl, _⟩ := quotesFor_bare hq
    simp only [reservedLead, Bool.or_eq_false_iff, beq_eq_false_iff_ne] at hl
    simp [wrap, hl.2]

theorem writePair_eq (var : Variant) (k raw : Str) : writePair var (k, raw) =
    if (formatValue var raw).head? = some 59 then [95] ++ k ++ [10] ++ formatValue var raw ++ [10]
    else [95] ++ k ++ [32] ++ formatValue var raw ++ [10] := rfl

theorem piece_pair (k raw : Str) (hk : TagOk k) (hv : ValueOk (encodeNonAscii raw)) :
    Piece (writePair Variant.current (k, raw)) [.tag k, valueTok raw] := by
  intro out
  rw [writePair_eq]
  split
  · rename_i h
    simp only [formatValue, Variant.current] at h ⊢
    have ht := (head_wrap_text _).mp h
    rw [show [95] ++ k ++ [10] ++ wrap (quotesFor true (encodeNonAscii raw)) (encodeNonAscii raw) ++ [10]
        = ([95] ++ k ++ [10]) ++ (wrap (quotesFor true (encodeNonAscii raw)) (encodeNonAscii raw) ++ [10]) by simp,
      run_append, run_tag k hk true 10 (by decide),
      fmt_run _ hv.1 hv.2 _ (fun _ => by decide) 10 (by decide)]
    simp [valueTok, isEol]
  · rename_i h
    simp only [formatValue, Variant.current] at h ⊢
    have ht : quotesFor true (encodeNonAscii raw) ≠ .text := fun e => h ((head_wrap_text _).mpr e)
    rw [show [95] ++ k ++ [32] ++ wrap (quotesFor true (encodeNonAscii raw)) (encodeNonAscii raw) ++ [10]
        = ([95] ++ k ++ [32]) ++ (wrap (quotesFor true (encodeNonAscii raw)) (encodeNonAscii raw) ++ [10]) by simp,
      run_append, run_tag k hk true 32 (by decide),
      fmt_run _ hv.1 hv.2 _ (fun h => absurd h ht) 10 (by decide)]
    simp [valueTok, isEol]

def ChunkOk (c : Chunk) : Prop := ∀ kv ∈ c.pairs, TagOk kv.1 ∧ ValueOk (encodeNonAscii kv.2)

def chunkToks (c : Chunk) : List Tok := c.pairs.flatMap (fun kv => [.tag kv.1, valueTok kv.2])

theorem piece_chunk (c : Chunk) (h : ChunkOk c) : Piece (c.write Variant.current) (chunkToks c) := by
  unfold Chunk.write chunkToks
  have := (piece_comment (encodeNonAscii c.comment)).append
    (Piece.flatMap (writePair Variant.current) (fun kv => [.tag kv.1, valueTok kv.2]) c.pairs
      (fun kv hkv => piece_pair kv.1 kv.2 (h kv hkv).1 (h kv hkv).2))
  simpa using this


/-! ## loops -/

/-- formatted (already escaped) value -/
def fmtE (s : Str) : Str := wrap (quotesFor true s) s

theorem formatValue_fixed (raw : Str) : formatValue Variant.current raw = fmtE (encodeNonAscii raw) := rfl

theorem joinWith_cons_cons (sep x y : Str) (rest : List Str) :
    joinWith sep (x :: y :: rest) = x ++ sep ++ joinWith sep (y :: rest) := rfl

theorem run_row (sepc : Nat) (hsep : isWs sepc = true) (rest : List Str) (x : Str)
    (hok : ∀ s ∈ x :: rest, ValueOk s) (ls : Bool)
    (hls : (∃ s ∈ x :: rest, quotesFor true s = .text) → ls = true ∧ isEol sepc = true) (out : List Tok) :
    run (.ws ls, out) (joinWith [sepc] ((x :: rest).map fmtE) ++ [10])
      = (.ws true, out ++ (x :: rest).map (fun s => .value (tokenValue s))) := by
  induction rest generalizing x ls out with
  | nil =>
    have hx := hok x (by simp)
    simp only [List.map_cons, List.map_nil, joinWith, fmtE]
    rw [fmt_run x hx.1 hx.2 ls (fun h => (hls ⟨x, by simp, h⟩).1) 10 (by decide)]
    simp [isEol]
  | cons y r ih =>
    have hx := hok x (by simp)
    simp only [List.map_cons, joinWith_cons_cons]
    rw [show fmtE x ++ [sepc] ++ joinWith [sepc] (fmtE y :: List.map fmtE r) ++ [10]
        = (fmtE x ++ [sepc]) ++ (joinWith [sepc] ((y :: r).map fmtE) ++ [10]) by simp, run_append]
    simp only [fmtE] at *
    rw [fmt_run x hx.1 hx.2 ls (fun h => (hls ⟨x, by simp, h⟩).1) sepc hsep]
    rw [ih y (fun s hs => hok s (by simp [hs])) (isEol sepc)
      (fun ⟨s, hs, ht⟩ => let h := (hls ⟨s, by simp [hs], ht⟩).2; ⟨h, h⟩)]
    simp

theorem piece_row (sepc : Nat) (hsep : isWs sepc = true) (row : List Str) (hok : ∀ s ∈ row, ValueOk s)
    (hls : (∃ s ∈ row, quotesFor true s = .text) → isEol sepc = true) :
    Piece (joinWith [sepc] (row.map fmtE) ++ [10]) (row.map (fun s => .value (tokenValue s))) := by
  intro out
  match row with
  | [] => simp [joinWith, run_cons, run_nil, step, isEol]
  | x :: rest => exact run_row sepc hsep rest x hok true (fun h => ⟨rfl, hls h⟩) out

theorem mem_rowsOf {α : Type} (n : Nat) (cols : List (List α)) (row : List α) (v : α)
    (hr : row ∈ rowsOf n cols) (hv : v ∈ row) : ∃ col ∈ cols, v ∈ col := by
  induction n generalizing cols with
  | zero => simp [rowsOf] at hr
  | succ n ih =>
    simp only [rowsOf, List.mem_cons] at hr
    rcases hr with rfl | hr
    · simp only [List.mem_filterMap] at hv
      obtain ⟨col, hc, hh⟩ := hv
      exact ⟨col, hc, List.mem_of_mem_head? hh⟩
    · obtain ⟨col', hc', hv'⟩ := ih (cols.map List.tail) hr
      simp only [List.mem_map] at hc'
      obtain ⟨col, hc, rfl⟩ := hc'
      exact ⟨col, hc, List.mem_of_mem_tail hv'⟩

theorem flatMap_singleton_eq_map {α β : Type} (f : α → β) (l : List α) :
    l.flatMap (fun x => [f x]) = l.map f := by
  induction l with
  | nil => rfl
  | cons x xs ih => simp [ih]

theorem piece_loop_kw : Piece [108, 111, 111, 112, 95, 10] [.loop] := by
  intro out
  have h0 : step (.ws true, out) 108 = (.bare [108], out) := by simp [step, isEol, isBlank]
  rw [run_cons, h0, show [111, 111, 112, 95, 10] = [111, 111, 112, 95] ++ [10] by rfl, run_append,
    run_bare [108] out [111, 111, 112, 95] (by decide)]
  have : classify [108, 111, 111, 112, 95] = .loop := by decide
  simp [run_cons, run_nil, step, isWs, isEol, this]

theorem piece_tagline (k : Str) (hk : TagOk k) : Piece (writeTag k) [.tag k] := by
  intro out
  have := run_tag k hk true 10 (by decide) out
  simpa [writeTag, isEol] using this

def LoopOk (l : Loop) : Prop := ∀ c ∈ l.columns, TagOk c.1 ∧ ∀ v ∈ c.2, ValueOk (encodeNonAscii v)

/-- the raw values of a loop in the order in which they are written: row by row -/
def Loop.rowMajor (l : Loop) : List Str := (rowsOf l.nrows (l.columns.map (·.2))).flatten

def loopToks (l : Loop) : List Tok :=
  [.loop] ++ l.columns.map (fun c => .tag c.1) ++ l.rowMajor.map valueTok

theorem contains59_of_text {s : Str} (h : quotesFor true s = .text) : (fmtE s).contains 59 = true := by
  simp [fmtE, h, wrap]

theorem piece_loop (l : Loop) (h : LoopOk l) : Piece (l.write Variant.current) (loopToks l) := by
  -- encoded rows
  let E : List (List Str) := (rowsOf l.nrows (l.columns.map (·.2))).map (·.map encodeNonAscii)
  have hE : l.formattedRows Variant.current = E.map (·.map fmtE) := by
    simp [Loop.formattedRows, E, formatValue_fixed, Function.comp_def]
  have hok : ∀ row ∈ E, ∀ s ∈ row, ValueOk s := by
    intro row hrow s hs
    simp only [E, List.mem_map] at hrow
    obtain ⟨r, hr, rfl⟩ := hrow
    simp only [List.mem_map] at hs
    obtain ⟨v, hv, rfl⟩ := hs
    obtain ⟨col, hcol, hvc⟩ := mem_rowsOf _ _ r v hr hv
    simp only [List.mem_map] at hcol
    obtain ⟨c, hc, rfl⟩ := hcol
    exact (h c hc).2 v hvc
  have hrows : ∀ (sepc : Nat), isWs sepc = true →
      ((∃ row ∈ E, ∃ s ∈ row, quotesFor true s = .text) → isEol sepc = true) →
      Piece ((E.map (·.map fmtE)).flatMap (fun row => joinWith [sepc] row ++ [10]))
        (E.flatMap (fun row => row.map (fun s => .value (tokenValue s)))) := by
    intro sepc hsep hls
    have := Piece.flatMap (fun row : List Str => joinWith [sepc] (row.map fmtE) ++ [10])
      (fun row => row.map (fun s => .value (tokenValue s))) E
      (fun row hrow => piece_row sepc hsep row (hok row hrow) (fun ⟨s, hs, ht⟩ => hls ⟨row, hrow, s, hs, ht⟩))
    simpa [List.flatMap_map] using this
  have htoks : E.flatMap (fun row => row.map (fun s => Tok.value (tokenValue s))) = l.rowMajor.map valueTok := by
    simp [E, Loop.rowMajor, List.map_flatten, List.flatMap_def, Function.comp_def]
    rfl
  have htags : Piece (l.columns.flatMap (fun c => writeTag c.1)) (l.columns.map (fun c => Tok.tag c.1)) := by
    have := Piece.flatMap (fun c : Str × List Str => writeTag c.1) (fun c => [Tok.tag c.1]) l.columns
      (fun c hc => piece_tagline c.1 (h c hc).1)
    rwa [flatMap_singleton_eq_map] at this
  unfold Loop.write loopToks
  simp only [hE]
  split
  · -- flat layout
    have := (((piece_comment (encodeNonAscii l.comment)).append piece_loop_kw).append htags).append
      (hrows 10 (by decide) (fun _ => by decide))
    rw [htoks] at this
    simpa using this
  · rename_i hno
    have hls : (∃ row ∈ E, ∃ s ∈ row, quotesFor true s = .text) → isEol 32 = true := by
      intro ⟨row, hrow, s, hs, ht⟩
      exfalso; apply hno
      simp only [List.any_eq_true, List.mem_map]
      exact ⟨row.map fmtE, ⟨row, hrow, rfl⟩, fmtE s, List.mem_map_of_mem hs, contains59_of_text ht⟩
    have := (((piece_comment (encodeNonAscii l.comment)).append piece_loop_kw).append htags).append
      (hrows 32 (by decide) hls)
    rw [htoks] at this
    simpa using this


instance (k : Str) : Decidable (TagOk k) := by unfold TagOk; infer_instance

theorem tagok_name : TagOk (ofString "audit_conform.dict_name") := by decide
theorem tagok_version : TagOk (ofString "audit_conform.dict_version") := by decide
theorem tagok_location : TagOk (ofString "audit_conform.dict_location") := by decide


/-! ## items, blocks, documents -/

theorem piece_joinWith_nl {α : Type} (f : α → Str) (g : α → List Tok) (l : List α)
    (h : ∀ x ∈ l, Piece (f x) (g x)) : Piece (joinWith [10] (l.map f)) (l.flatMap g) := by
  match l with
  | [] => exact Piece.nil
  | [x] => simpa [joinWith] using h x (by simp)
  | x :: y :: rest =>
    have ih := piece_joinWith_nl f g (y :: rest) (fun z hz => h z (by simp [hz]))
    have := ((h x (by simp)).append Piece.newline).append ih
    simpa [joinWith_cons_cons] using this

def ItemOk : Item → Prop
  | .chunk c => ChunkOk c
  | .loop l => LoopOk l

def itemToks : Item → List Tok
  | .chunk c => chunkToks c
  | .loop l => loopToks l

theorem piece_item (it : Item) (h : ItemOk it) : Piece (it.write Variant.current) (itemToks it) := by
  cases it with
  | chunk c => exact piece_chunk c h
  | loop l => exact piece_loop l h

/-- a block name as the `Block.name` setter accepts it, and non-empty, without carriage return -/
def NameOk (n : Str) : Prop := n ≠ [] ∧ ∀ c ∈ n, isWs c = false

theorem piece_dataline (n : Str) (hn : NameOk n) : Piece ([100, 97, 116, 97, 95] ++ n ++ [10, 10]) [.data n] := by
  intro out
  obtain ⟨c, t, rfl⟩ := List.exists_cons_of_ne_nil hn.1
  have h0 : step (.ws true, out) 100 = (.bare [100], out) := by simp [step, isEol, isBlank]
  have hws : ∀ d ∈ [97, 116, 97, 95] ++ (c :: t), isWs d = false := by
    intro d hd
    simp only [List.mem_append] at hd
    rcases hd with hd | hd
    · revert d; decide
    · exact hn.2 d hd
  rw [show [100, 97, 116, 97, 95] ++ (c :: t) ++ [10, 10] = 100 :: (([97, 116, 97, 95] ++ (c :: t)) ++ [10, 10]) by simp,
    run_cons, h0, run_append, run_bare [100] out _ hws]
  have hcl : classify (100 :: 97 :: 116 :: 97 :: 95 :: c :: t) = .data (c :: t) := by
    simp [classify, lower, lowerChar, kwData, List.isPrefixOf]
  simp [run_cons, run_nil, step, isWs, isEol, hcl]

def SchemaOk (s : Schema) : Prop :=
  ValueOk (encodeNonAscii s.name) ∧ ValueOk (encodeNonAscii s.version) ∧ ValueOk (encodeNonAscii s.location)

structure BlockOk (ordered : List Schema) (b : Block) : Prop where
  name : NameOk (encodeNonAscii b.name)
  items : ∀ it ∈ b.content, ItemOk it
  schemas : ∀ s ∈ ordered, SchemaOk s

def schemaToks (ordered : List Schema) : List Tok :=
  match schemaLoop ordered with
  | some l => loopToks l
  | none => []

/-- the token stream of a block: heading, generated schema loop, then the items in order -/
def blockToks (ordered : List Schema) (b : Block) : List Tok :=
  [.data (encodeNonAscii b.name)] ++ schemaToks ordered ++ b.content.flatMap itemToks

theorem schemaLoop_ok (ordered : List Schema) (h : ∀ s ∈ ordered, SchemaOk s) (l : Loop)
    (hl : schemaLoop ordered = some l) : LoopOk l := by
  unfold schemaLoop at hl
  split at hl
  · simp at hl
  · simp only [Option.some.injEq] at hl
    subst hl
    intro c hc
    simp only [List.mem_cons, List.not_mem_nil, or_false] at hc
    rcases hc with rfl | rfl | rfl
    · exact ⟨tagok_name, fun v hv => by
        simp only [List.mem_map] at hv; obtain ⟨s, hs, rfl⟩ := hv; exact (h s hs).1⟩
    · exact ⟨tagok_version, fun v hv => by
        simp only [List.mem_map] at hv; obtain ⟨s, hs, rfl⟩ := hv; exact (h s hs).2.1⟩
    · exact ⟨tagok_location, fun v hv => by
        simp only [List.mem_map] at hv; obtain ⟨s, hs, rfl⟩ := hv; exact (h s hs).2.2⟩

theorem piece_block (ordered : List Schema) (b : Block) (h : BlockOk ordered b) :
    Piece (b.writeWith Variant.current ordered) (blockToks ordered b) := by
  have hitems := piece_joinWith_nl (Item.write Variant.current) itemToks b.content
    (fun it hit => piece_item it (h.items it hit))
  have hhead := (piece_comment (encodeNonAscii b.comment)).append (piece_dataline _ h.name)
  unfold Block.writeWith blockToks writeMulti schemaToks
  cases hl : schemaLoop ordered with
  | none =>
    have := hhead.append hitems
    simpa using this
  | some l =>
    have := ((hhead.append (piece_loop l (schemaLoop_ok ordered h.schemas l hl))).append Piece.newline).append hitems
    simpa using this

theorem piece_magic : Piece [35, 92, 35, 67, 73, 70, 95, 49, 46, 49, 10] [] := by
  intro out
  have h0 : step (.ws true, out) 35 = (.comment, out) := by simp [step, isEol, isBlank]
  rw [run_cons, h0, show [92, 35, 67, 73, 70, 95, 49, 46, 49, 10] = [92, 35, 67, 73, 70, 95, 49, 46, 49] ++ [10] by rfl,
    run_append, run_comment out _ (by decide)]
  simp [run_cons, run_nil, step, isEol]

theorem piece_heading (comment : Str) : Piece (fileHeading Variant.current comment) [] := by
  have := piece_magic.append (piece_comment (encodeNonAscii comment))
  simpa [fileHeading, Variant.current] using this

/-- a whole file: heading and blocks, each with the order in which its schema set is listed -/
def docText (comment : Str) (blocks : List (List Schema × Block)) : Str :=
  fileHeading Variant.current comment ++ writeMulti (blocks.map (fun ob => ob.2.writeWith Variant.current ob.1))

def docToks (blocks : List (List Schema × Block)) : List Tok := blocks.flatMap (fun ob => blockToks ob.1 ob.2)

theorem piece_doc (comment : Str) (blocks : List (List Schema × Block)) (h : ∀ ob ∈ blocks, BlockOk ob.1 ob.2) :
    Piece (docText comment blocks) (docToks blocks) := by
  have := (piece_heading comment).append
    (piece_joinWith_nl (fun ob : List Schema × Block => ob.2.writeWith Variant.current ob.1)
      (fun ob => blockToks ob.1 ob.2) blocks (fun ob hob => piece_block ob.1 ob.2 (h ob hob)))
  simpa [docText, docToks, writeMulti] using this



/-! ## strip -/
theorem strip_cons_blank (s : Str) : strip (32 :: s) = strip s := by
  simp [strip, List.dropWhile, isWs, isBlank]

theorem strip_tokenValue (s : Str) : strip (tokenValue s) = strip s := by
  unfold tokenValue; split
  · exact strip_cons_blank s
  · rfl

/-! ## ASCII -/
def Ascii (t : Str) : Prop := ∀ c ∈ t, c < 128
instance (t : Str) : Decidable (Ascii t) := by unfold Ascii; infer_instance

theorem Ascii.nil : Ascii [] := by simp [Ascii]
theorem Ascii.append {a b : Str} (ha : Ascii a) (hb : Ascii b) : Ascii (a ++ b) := by
  intro c hc; rcases List.mem_append.mp hc with h | h
  · exact ha c h
  · exact hb c h
theorem Ascii.flatMap {α : Type} (f : α → Str) (l : List α) (h : ∀ x ∈ l, Ascii (f x)) : Ascii (l.flatMap f) := by
  intro c hc; obtain ⟨x, hx, hcx⟩ := List.mem_flatMap.mp hc; exact h x hx c hcx
theorem Ascii.joinWith {sep : Str} (hs : Ascii sep) (l : List Str) (h : ∀ x ∈ l, Ascii x) : Ascii (joinWith sep l) := by
  match l with
  | [] => exact Ascii.nil
  | [x] => exact h x (by simp)
  | x :: y :: rest =>
    rw [joinWith_cons_cons]
    exact ((h x (by simp)).append hs).append (Ascii.joinWith hs (y :: rest) (fun z hz => h z (by simp [hz])))

theorem hexNib_lt (n : Nat) (h : n < 16) : hexNib n < 128 := by unfold hexNib; split <;> omega

theorem ascii_hexFixed (w n : Nat) : Ascii (hexFixed w n) := by
  induction w generalizing n with
  | zero => exact Ascii.nil
  | succ w ih =>
    unfold hexFixed
    exact (ih _).append (fun c hc => by
      simp at hc; subst hc; exact hexNib_lt _ (Nat.mod_lt _ (by decide)))

theorem ascii_encodeChar (c : Nat) : Ascii (encodeChar c) := by
  unfold encodeChar
  split
  · intro d hd; simp at hd; omega
  · split
    · exact Ascii.append (by decide) (ascii_hexFixed _ _)
    · split
      · exact Ascii.append (by decide) (ascii_hexFixed _ _)
      · exact Ascii.append (by decide) (ascii_hexFixed _ _)

/-- `_encode_non_ascii` produces ASCII, whatever the input -/
theorem ascii_encode (s : Str) : Ascii (encodeNonAscii s) :=
  Ascii.flatMap _ _ (fun c _ => ascii_encodeChar c)

theorem encode_of_ascii (s : Str) (h : Ascii s) : encodeNonAscii s = s := by
  induction s with
  | nil => rfl
  | cons c t ih =>
    have hc : c < 128 := h c (by simp)
    have ht : Ascii t := fun d hd => h d (by simp [hd])
    simp only [encodeNonAscii, List.flatMap_cons] at *
    rw [ih ht]; simp [encodeChar, hc]

/-- `_encode_non_ascii` is idempotent (comments are encoded by every setter they pass through) -/
theorem encode_idempotent (s : Str) : encodeNonAscii (encodeNonAscii s) = encodeNonAscii s :=
  encode_of_ascii _ (ascii_encode s)

theorem ascii_wrap (q : Quote) (s : Str) (h : Ascii s) : Ascii (wrap q s) := by
  cases q <;> simp only [wrap]
  · exact h
  · exact ((show Ascii [39] by decide).append h).append (by decide)
  · exact ((show Ascii [34] by decide).append h).append (by decide)
  · exact ((show Ascii [59, 32] by decide).append h).append (by decide)

theorem ascii_formatValue (var : Variant) (raw : Str) : Ascii (formatValue var raw) :=
  ascii_wrap _ _ (ascii_encode raw)

theorem ascii_splitLines (c : Str) (h : Ascii c) : ∀ l ∈ splitLines c, Ascii l := by
  intro l hl d hd
  rcases splitLinesAux_mem c [] l hl d hd with h' | h'
  · exact h d h'
  · simp at h'

theorem ascii_writeComment (c : Str) (h : Ascii c) : Ascii (writeComment c) := by
  unfold writeComment; split
  · exact Ascii.nil
  · exact ((show Ascii [35, 32] by decide).append (Ascii.joinWith (by decide) _ (ascii_splitLines c h))).append (by decide)

theorem ascii_writePair (var : Variant) (k raw : Str) (hk : Ascii k) : Ascii (writePair var (k, raw)) := by
  rw [writePair_eq]; split
  · exact ((((show Ascii [95] by decide).append hk).append (show Ascii [10] by decide)).append
      (ascii_formatValue var raw)).append (by decide)
  · exact ((((show Ascii [95] by decide).append hk).append (show Ascii [32] by decide)).append
      (ascii_formatValue var raw)).append (by decide)

def Item.keys : Item → List Str
  | .chunk c => c.pairs.map (·.1)
  | .loop l => l.columns.map (·.1)

theorem ascii_chunk (var : Variant) (c : Chunk) (hk : ∀ kv ∈ c.pairs, Ascii kv.1) : Ascii (c.write var) :=
  (ascii_writeComment _ (ascii_encode _)).append (Ascii.flatMap _ _ (fun kv hkv => ascii_writePair var kv.1 kv.2 (hk kv hkv)))

theorem ascii_loop (var : Variant) (l : Loop) (hk : ∀ c ∈ l.columns, Ascii c.1) : Ascii (l.write var) := by
  unfold Loop.write
  refine (((ascii_writeComment _ (ascii_encode _)).append (by decide)).append
    (Ascii.flatMap _ _ (fun c hc => ((show Ascii [95] by decide).append (hk c hc)).append (by decide)))).append
    (Ascii.flatMap _ _ (fun row hrow => Ascii.append (Ascii.joinWith ?_ row ?_) (by decide)))
  · split <;> decide
  · intro x hx
    simp only [Loop.formattedRows, List.mem_map] at hrow
    obtain ⟨r, _, rfl⟩ := hrow
    simp only [List.mem_map] at hx
    obtain ⟨v, _, rfl⟩ := hx
    exact ascii_formatValue var v

theorem ascii_item (var : Variant) (it : Item) (hk : ∀ k ∈ it.keys, Ascii k) : Ascii (it.write var) := by
  cases it with
  | chunk c => exact ascii_chunk var c (fun kv hkv => hk kv.1 (List.mem_map_of_mem hkv))
  | loop l => exact ascii_loop var l (fun c hc => hk c.1 (List.mem_map_of_mem hc))

theorem ascii_block (var : Variant) (ordered : List Schema) (b : Block)
    (hk : ∀ it ∈ b.content, ∀ k ∈ it.keys, Ascii k) : Ascii (b.writeWith var ordered) := by
  unfold Block.writeWith
  refine ((((ascii_writeComment _ (ascii_encode _)).append (by decide)).append (ascii_encode _)).append (by decide)).append ?_ |>.append ?_
  · cases hl : schemaLoop ordered with
    | none => exact Ascii.nil
    | some l =>
      refine (ascii_loop var l ?_).append (by decide)
      unfold schemaLoop at hl
      split at hl
      · simp at hl
      · simp only [Option.some.injEq] at hl; subst hl
        intro c hc
        simp only [List.mem_cons, List.not_mem_nil, or_false] at hc
        rcases hc with rfl | rfl | rfl
        · exact (by decide : Ascii (ofString "audit_conform.dict_name"))
        · exact (by decide : Ascii (ofString "audit_conform.dict_version"))
        · exact (by decide : Ascii (ofString "audit_conform.dict_location"))
  · exact Ascii.joinWith (by decide) _ (fun x hx => by
      simp only [List.mem_map] at hx
      obtain ⟨it, hit, rfl⟩ := hx
      exact ascii_item var it (hk it hit))

theorem ascii_doc (comment : Str) (blocks : List (List Schema × Block))
    (hk : ∀ ob ∈ blocks, ∀ it ∈ ob.2.content, ∀ k ∈ it.keys, Ascii k) : Ascii (docText comment blocks) := by
  unfold docText fileHeading writeMulti
  refine ((show Ascii [35, 92, 35, 67, 73, 70, 95, 49, 46, 49, 10] by decide).append
    (ascii_writeComment _ ?_)).append (Ascii.joinWith (by decide) _ (fun x hx => by
      simp only [List.mem_map] at hx
      obtain ⟨ob, hob, rfl⟩ := hx
      exact ascii_block _ ob.1 ob.2 (hk ob hob)))
  simp only [Variant.current, if_true]
  exact ascii_encode _



/-! ## author-role ids -/

theorem numberFrom_fst (n : Nat) (l : List Person) : (numberFrom n l).map (·.1) = List.range' n l.length := by
  induction l generalizing n with
  | nil => rfl
  | cons a as ih => simp [numberFrom, ih, List.range'_succ]

theorem idColumn_sublist (ids : List (Nat × Person)) : (idColumn ids).Sublist (ids.map (·.1)) := by
  unfold idColumn; split
  · exact List.Sublist.refl _
  · exact List.nil_sublist _

theorem roles_mem_idColumn (ids : List (Nat × Person)) (i : Nat) (h : i ∈ (rolesOf ids).map (·.1)) :
    i ∈ idColumn ids := by
  simp only [rolesOf, List.map_map, List.mem_map, List.mem_filter, Function.comp] at h
  obtain ⟨p, ⟨hp, hr⟩, rfl⟩ := h
  have : ids.any (fun p => hasRole p.2) = true := List.any_eq_true.mpr ⟨p, hp, hr⟩
  simp only [idColumn, this, if_true]
  exact List.mem_map_of_mem hp

theorem roles_sublist (ids : List (Nat × Person)) : ((rolesOf ids).map (·.1)).Sublist (ids.map (·.1)) := by
  simp only [rolesOf, List.map_map]
  exact (List.filter_sublist (l := ids)).map _

theorem allIds_nodup (authors : List Person) (n : Nat) :
    let x := assignIds authors n
    (x.contact.map (·.1) ++ x.regular.map (·.1)).Nodup := by
  simp only [assignIds, numberFrom_fst]
  rw [List.range'_append_1]
  exact List.nodup_range' 1

/-- **author-role ids are well formed**, for every list of authors and every state of the id
generator (hence after any sequence of builder calls and saves): the ids written into the author id
columns are pairwise distinct, the ids of the role loop are pairwise distinct, and every id of the
role loop occurs in an author id column (so it refers to exactly one author id). -/
theorem role_ids_wellformed' (authors : List Person) (n : Nat) :
    (assignIds authors n).authorIds.Nodup ∧ (assignIds authors n).roleIds.Nodup ∧
      ∀ i ∈ (assignIds authors n).roleIds, i ∈ (assignIds authors n).authorIds := by
  have hnd := allIds_nodup authors n
  generalize assignIds authors n = x at hnd
  simp only at hnd
  refine ⟨?_, ?_, ?_⟩
  · exact ((idColumn_sublist x.contact).append (idColumn_sublist x.regular)).nodup hnd
  · simp only [AuthorIds.roleIds, List.map_append]
    exact ((roles_sublist x.contact).append (roles_sublist x.regular)).nodup hnd
  · intro i hi
    simp only [AuthorIds.roleIds, List.map_append, List.mem_append] at hi
    simp only [AuthorIds.authorIds, List.mem_append]
    rcases hi with h | h
    · exact Or.inl (roles_mem_idColumn _ i h)
    · exact Or.inr (roles_mem_idColumn _ i h)



/-! ## the parser on the token stream of a document -/

theorem prun_nil (s : PState) : prun s [] = s := rfl
theorem prun_cons (s : PState) (t : Tok) (ts : List Tok) : prun s (t :: ts) = prun (pstep s t) ts := rfl
theorem prun_append (s : PState) (a b : List Tok) : prun s (a ++ b) = prun (prun s a) b := by
  simp [prun, List.foldl_append]

/-- the idle parser state inside block `n` with the items `its` (latest first) read so far -/
def pmk (done : List PBlock) (n : Str) (its : List PItem) : PState := ⟨done, some (n, its), .idle, true⟩

/-- `Ready s done n its`: after closing a pending loop the parser is idle inside block `n`, having
read the items `its` (latest first) -/
def Ready (s : PState) (done : List PBlock) (n : Str) (its : List PItem) : Prop := s.flush = pmk done n its

theorem ready_pmk (done : List PBlock) (n : Str) (its : List PItem) : Ready (pmk done n its) done n its := rfl

theorem pstep_tag_of_ready {s : PState} {done n its} (h : Ready s done n its) (k : Str) :
    pstep s (.tag k) = ⟨done, some (n, its), .haveTag k, true⟩ := by
  obtain ⟨d, cur, mode, ok⟩ := s
  unfold Ready at h
  cases mode with
  | idle => simp only [PState.flush, pmk] at h; cases h; rfl
  | haveTag _ => simp [PState.flush, PState.fail, pmk] at h
  | loopTags _ => simp [PState.flush, PState.fail, pmk] at h
  | loopVals tags vals =>
    simp only [pstep]
    rw [h]; rfl

theorem prun_pair {s : PState} {done n its} (h : Ready s done n its) (k v : Str) :
    prun s [.tag k, .value v] = pmk done n (.pair k v :: its) := by
  rw [prun_cons, pstep_tag_of_ready h, prun_cons, prun_nil]; rfl

theorem prun_pairs {s : PState} {done n its} (h : Ready s done n its) (pairs : List (Str × Str)) :
    Ready (prun s (pairs.flatMap (fun kv => [Tok.tag kv.1, Tok.value kv.2]))) done n
      ((pairs.map (fun kv => PItem.pair kv.1 kv.2)).reverse ++ its) := by
  induction pairs generalizing s its with
  | nil => simpa [prun_nil] using h
  | cons kv rest ih =>
    simp only [List.flatMap_cons, prun_append]
    rw [prun_pair h]
    have := ih (ready_pmk done n (.pair kv.1 kv.2 :: its))
    simpa using this

theorem pstep_loop_of_ready {s : PState} {done n its} (h : Ready s done n its) :
    pstep s .loop = ⟨done, some (n, its), .loopTags [], true⟩ := by
  simp only [pstep]; rw [h]; rfl

theorem prun_looptags (done : List PBlock) (cur : Option (Str × List PItem)) (ok : Bool) (acc tags : List Str) :
    prun ⟨done, cur, .loopTags acc, ok⟩ (tags.map Tok.tag) = ⟨done, cur, .loopTags (tags.reverse ++ acc), ok⟩ := by
  induction tags generalizing acc with
  | nil => rfl
  | cons t ts ih => simp only [List.map_cons, prun_cons, pstep]; rw [ih]; simp

theorem prun_loopvals (done : List PBlock) (cur : Option (Str × List PItem)) (ok : Bool) (tags acc vals : List Str) :
    prun ⟨done, cur, .loopVals tags acc, ok⟩ (vals.map Tok.value) = ⟨done, cur, .loopVals tags (vals.reverse ++ acc), ok⟩ := by
  induction vals generalizing acc with
  | nil => rfl
  | cons t ts ih => simp only [List.map_cons, prun_cons, pstep]; rw [ih]; simp

/-- a loop header with its values is read as one loop item, provided there is at least one tag, at
least one value, and the number of values is a multiple of the number of tags -/
theorem prun_loop {s : PState} {done n its} (h : Ready s done n its) (tags vals : List Str)
    (ht : tags ≠ []) (hv : vals ≠ []) (hdiv : vals.length % tags.length = 0) :
    Ready (prun s ([Tok.loop] ++ tags.map Tok.tag ++ vals.map Tok.value)) done n (.loop tags vals :: its) := by
  obtain ⟨v, vs, rfl⟩ := List.exists_cons_of_ne_nil hv
  simp only [List.singleton_append, prun_cons, pstep_loop_of_ready h, prun_append,
    prun_looptags, List.map_cons]
  have hne : (tags.reverse ++ []).isEmpty = false := by
    cases tags with
    | nil => exact absurd rfl ht
    | cons a as => simp
  simp only [pstep, hne]
  simp only [Bool.false_eq_true, if_false, prun_loopvals]
  unfold Ready PState.flush
  simp only [List.append_nil, List.reverse_reverse]
  have hd : (vs.length + 1) % tags.length = 0 := by simpa using hdiv
  simp [hd, PState.addItem, pmk]

theorem pstep_data_of_ready {s : PState} {done n its} (h : Ready s done n its) (m : Str) :
    pstep s (.data m) = pmk (⟨n, its.reverse⟩ :: done) m [] := by
  simp only [pstep]; rw [h]; rfl

theorem pfinish_of_ready {s : PState} {done n its} (h : Ready s done n its) :
    pfinish s = some ((⟨n, its.reverse⟩ :: done).reverse) := by
  simp only [pfinish]; rw [h]; rfl


theorem prun_pairs' {α : Type} (f g : α → Str) {s : PState} {done n its} (h : Ready s done n its) (l : List α) :
    Ready (prun s (l.flatMap (fun x => [Tok.tag (f x), Tok.value (g x)]))) done n
      ((l.map (fun x => PItem.pair (f x) (g x))).reverse ++ its) := by
  have := prun_pairs h (l.map (fun x => (f x, g x)))
  simpa [List.flatMap_map, List.map_map, Function.comp_def] using this

/-- what the independent reader must return for an item: the pairs of a chunk, one loop item with the
tags in order and the values row by row; values as carried by their tokens (see `tokenValue`) -/
def itemP : Item → List PItem
  | .chunk c => c.pairs.map (fun kv => .pair kv.1 (tokenValue (encodeNonAscii kv.2)))
  | .loop l => [.loop (l.columns.map (·.1)) (l.rowMajor.map (fun v => tokenValue (encodeNonAscii v)))]

/-- CIF requires a loop to have at least one tag, at least one value and complete rows -/
def LoopShape (l : Loop) : Prop :=
  l.columns ≠ [] ∧ l.rowMajor ≠ [] ∧ l.rowMajor.length % l.columns.length = 0

def ItemShape : Item → Prop
  | .chunk _ => True
  | .loop l => LoopShape l

theorem prun_item {s : PState} {done n its} (h : Ready s done n its) (it : Item) (hs : ItemShape it) :
    Ready (prun s (itemToks it)) done n ((itemP it).reverse ++ its) := by
  cases it with
  | chunk c =>
    simp only [itemToks, chunkToks, itemP, valueTok]
    exact prun_pairs' (fun kv : Str × Str => kv.1) (fun kv => tokenValue (encodeNonAscii kv.2)) h c.pairs
  | loop l =>
    obtain ⟨h1, h2, h3⟩ := hs
    have := prun_loop h (l.columns.map (·.1)) (l.rowMajor.map (fun v => tokenValue (encodeNonAscii v)))
      (by simpa using h1) (by simpa using h2) (by simpa using h3)
    have e : loopToks l = [Tok.loop] ++ (l.columns.map (·.1)).map Tok.tag
        ++ (l.rowMajor.map (fun v => tokenValue (encodeNonAscii v))).map Tok.value := by
      simp [loopToks, List.map_map, Function.comp_def]; intro a _; rfl
    simpa [itemToks, e, itemP] using this

theorem prun_items {s : PState} {done n its} (h : Ready s done n its) (items : List Item)
    (hs : ∀ it ∈ items, ItemShape it) :
    Ready (prun s (items.flatMap itemToks)) done n ((items.flatMap itemP).reverse ++ its) := by
  induction items generalizing s its with
  | nil => simpa [prun_nil] using h
  | cons it rest ih =>
    simp only [List.flatMap_cons, prun_append]
    have := ih (prun_item h it (hs it (by simp))) (fun x hx => hs x (by simp [hx]))
    simpa [List.reverse_append, List.append_assoc] using this

theorem length_rowsOf_flatten {α : Type} (n : Nat) (cols : List (List α)) (h : ∀ c ∈ cols, c.length = n) :
    (rowsOf n cols).flatten.length = n * cols.length := by
  induction n generalizing cols with
  | zero => simp [rowsOf]
  | succ n ih =>
    have hh : (cols.filterMap List.head?).length = cols.length := by
      clear ih
      induction cols with
      | nil => rfl
      | cons c cs ihc =>
        have hc : c.length = n + 1 := h c (by simp)
        cases c with
        | nil => simp at hc
        | cons a as =>
          simp only [List.filterMap_cons, List.head?_cons, List.length_cons]
          rw [ihc (fun d hd => h d (by simp [hd]))]
    have ht : ∀ c ∈ cols.map List.tail, c.length = n := by
      intro c hc
      simp only [List.mem_map] at hc
      obtain ⟨d, hd, rfl⟩ := hc
      simp [h d hd]
    simp only [rowsOf, List.flatten_cons, List.length_append, hh, ih _ ht, List.length_map]
    rw [Nat.succ_mul]; omega

/-- an `n × m` table: `m ≥ 1` columns of `n ≥ 1` values each -/
def LoopRect (l : Loop) (n : Nat) : Prop := l.columns ≠ [] ∧ 1 ≤ n ∧ ∀ c ∈ l.columns, c.2.length = n

theorem rowMajor_length (l : Loop) (n : Nat) (h : LoopRect l n) : l.rowMajor.length = n * l.columns.length := by
  obtain ⟨h1, _, h3⟩ := h
  have hn : l.nrows = n := by
    unfold Loop.nrows
    cases hc : l.columns with
    | nil => exact absurd hc h1
    | cons c cs => exact h3 c (by simp [hc])
  unfold Loop.rowMajor
  rw [hn, length_rowsOf_flatten n _ (fun c hc => by
    simp only [List.mem_map] at hc; obtain ⟨d, hd, rfl⟩ := hc; exact h3 d hd)]
  simp

theorem loopShape_of_rect (l : Loop) (n : Nat) (h : LoopRect l n) : LoopShape l := by
  have hlen := rowMajor_length l n h
  obtain ⟨h1, h2, _⟩ := h
  have hm : 0 < l.columns.length := List.length_pos_iff.mpr h1
  refine ⟨h1, ?_, ?_⟩
  · intro he
    rw [he] at hlen
    simp only [List.length_nil] at hlen
    have : 0 < n * l.columns.length := Nat.mul_pos h2 hm
    omega
  · rw [hlen]; exact Nat.mul_mod_left _ _

theorem schemaLoop_rect (ordered : List Schema) (l : Loop) (hl : schemaLoop ordered = some l) :
    LoopRect l ordered.length := by
  unfold schemaLoop at hl
  split at hl
  · simp at hl
  · rename_i hne
    simp only [Option.some.injEq] at hl; subst hl
    refine ⟨by simp, ?_, ?_⟩
    · cases ordered with
      | nil => simp at hne
      | cons a as => simp
    · intro c hc
      simp only [List.mem_cons, List.not_mem_nil, or_false] at hc
      rcases hc with rfl | rfl | rfl <;> simp

def schemaP (ordered : List Schema) : List PItem :=
  match schemaLoop ordered with
  | some l => itemP (.loop l)
  | none => []

/-- what the independent reader must return for a block -/
def blockP (ordered : List Schema) (b : Block) : PBlock :=
  ⟨encodeNonAscii b.name, schemaP ordered ++ b.content.flatMap itemP⟩

/-- between blocks: nothing read yet, or idle/closable inside the last block -/
def AtBoundary (s : PState) (acc : List PBlock) : Prop :=
  (s = PState.init ∧ acc = []) ∨
    ∃ done n its, Ready s done n its ∧ acc = (⟨n, its.reverse⟩ :: done).reverse

theorem prun_block {s : PState} {acc : List PBlock} (h : AtBoundary s acc) (ordered : List Schema) (b : Block)
    (hs : ∀ it ∈ b.content, ItemShape it) :
    AtBoundary (prun s (blockToks ordered b)) (acc ++ [blockP ordered b]) := by
  -- after the heading
  have hhead : ∃ done, Ready (pstep s (.data (encodeNonAscii b.name))) done (encodeNonAscii b.name) [] ∧ acc = done.reverse := by
    rcases h with ⟨rfl, rfl⟩ | ⟨done, n, its, hr, rfl⟩
    · exact ⟨[], rfl, rfl⟩
    · exact ⟨_, by rw [pstep_data_of_ready hr]; exact ready_pmk _ _ _, rfl⟩
  obtain ⟨done, hr, rfl⟩ := hhead
  have hschema : Ready (prun (pstep s (.data (encodeNonAscii b.name))) (schemaToks ordered)) done
      (encodeNonAscii b.name) ((schemaP ordered).reverse ++ []) := by
    unfold schemaToks schemaP
    cases hl : schemaLoop ordered with
    | none => simpa [prun_nil] using hr
    | some l =>
      exact prun_item hr (.loop l) (loopShape_of_rect l _ (schemaLoop_rect ordered l hl))
  have hitems := prun_items hschema b.content hs
  refine Or.inr ⟨done, encodeNonAscii b.name,
    (List.flatMap itemP b.content).reverse ++ ((schemaP ordered).reverse ++ []), ?_, ?_⟩
  · simp only [blockToks, List.singleton_append, prun_cons, prun_append]
    exact hitems
  · simp [blockP, List.reverse_append]

theorem prun_doc {s : PState} {acc : List PBlock} (h : AtBoundary s acc) (blocks : List (List Schema × Block))
    (hs : ∀ ob ∈ blocks, ∀ it ∈ ob.2.content, ItemShape it) :
    AtBoundary (prun s (docToks blocks)) (acc ++ blocks.map (fun ob => blockP ob.1 ob.2)) := by
  induction blocks generalizing s acc with
  | nil => simpa [docToks, prun_nil] using h
  | cons ob rest ih =>
    simp only [docToks, List.flatMap_cons, prun_append]
    have := ih (prun_block h ob.1 ob.2 (hs ob (by simp))) (fun x hx => hs x (by simp [hx]))
    simpa [docToks, List.append_assoc] using this

theorem pfinish_of_boundary {s : PState} {acc : List PBlock} (h : AtBoundary s acc) : pfinish s = some acc := by
  rcases h with ⟨rfl, rfl⟩ | ⟨done, n, its, hr, rfl⟩
  · rfl
  · exact pfinish_of_ready hr

/-- the parser returns exactly the supplied structure from the token stream of a document -/
theorem parse_docToks (blocks : List (List Schema × Block))
    (hs : ∀ ob ∈ blocks, ∀ it ∈ ob.2.content, ItemShape it) :
    parseToks (docToks blocks) = some (blocks.map (fun ob => blockP ob.1 ob.2)) := by
  have := pfinish_of_boundary (prun_doc (Or.inl ⟨rfl, rfl⟩) blocks hs)
  simpa [parseToks] using this




/-- row `i` of `zip(*columns)` holds the `i`-th entry of every column, in column order -/
theorem rowsOf_getElem? {α : Type} (n : Nat) (cols : List (List α)) (i : Nat) (hi : i < n) :
    (rowsOf n cols)[i]? = some (cols.filterMap (·[i]?)) := by
  induction n generalizing cols i with
  | zero => omega
  | succ n ih =>
    cases i with
    | zero =>
      simp only [rowsOf, List.getElem?_cons_zero, Option.some.injEq]
      congr 1; funext c; cases c <;> rfl
    | succ j =>
      simp only [rowsOf, List.getElem?_cons_succ]
      rw [ih _ j (by omega), List.filterMap_map]
      congr 2; funext c; cases c <;> simp

theorem mapM_some_eq {α β : Type} (f : α → Option β) (l : List α) (r : List β) (h : l.mapM f = some r) :
    ∀ g : α → β, (∀ x ∈ l, ∀ y, f x = some y → y = g x) → r = l.map g := by
  intro g hg
  induction l generalizing r with
  | nil => simp at h; subst h; rfl
  | cons x xs ih =>
    simp only [List.mapM_cons] at h
    cases hx : f x with
    | none => simp [hx] at h
    | some y =>
      cases hxs : xs.mapM f with
      | none => simp [hx, hxs] at h
      | some ys =>
        simp [hx, hxs] at h
        subst h
        rw [ih ys hxs (fun z hz => hg z (by simp [hz])), hg x (by simp) y hx]
        rfl

/-- the order in which `Block.write` lists the schema set, given the permutation -/
def orderedOf (core : Schema) (b : Block) (perm : List Nat) : List Schema :=
  perm.filterMap ((b.schemaSet core)[·]?)

/-- the executable `save_cif` of the model, whenever it produces a text, produces `docText` -/
theorem saveCif_docText (core : Schema) (comment : Str) (blocks : List (Block × List Nat)) (t : Str)
    (h : saveCif Variant.current core comment blocks = some t) :
    t = docText comment (blocks.map (fun bp => (orderedOf core bp.1 bp.2, bp.1))) := by
  unfold saveCif at h
  cases hm : blocks.mapM (fun bp => bp.1.write Variant.current core bp.2) with
  | none => simp [hm] at h
  | some texts =>
    simp [hm] at h
    subst h
    have := mapM_some_eq _ blocks texts hm (fun bp => bp.1.writeWith Variant.current (orderedOf core bp.1 bp.2))
      (by
        intro bp _ y hy
        simp only [Block.write] at hy
        split at hy
        · simp at hy; exact hy.symm
        · simp at hy)
    subst this
    simp [docText, List.map_map, Function.comp_def]


/-! ## hypotheses stated on the supplied (unescaped) strings -/


theorem textSafe_cons (ls : Bool) (c : Nat) (t : Str) :
    textSafe ls (c :: t) = (!(c == 59 && ls) && textSafe (isEol c) t) := rfl
theorem lastLs_cons (ls : Bool) (c : Nat) (t : Str) : lastLs ls (c :: t) = lastLs (isEol c) t := rfl
theorem lastLs_append (ls : Bool) (a b : Str) : lastLs ls (a ++ b) = lastLs (lastLs ls a) b := by
  induction a generalizing ls with
  | nil => rfl
  | cons x xs ih => simp only [List.cons_append, lastLs_cons, ih]

theorem hexNib_plain (n : Nat) (h : n < 16) : hexNib n ≠ 59 ∧ hexNib n ≠ 10 ∧ hexNib n ≠ 13 := by
  unfold hexNib; split <;> omega

/-- neither `;` nor an end of line -/
def Plain (t : Str) : Prop := ∀ c ∈ t, c ≠ 59 ∧ isEol c = false
instance (t : Str) : Decidable (Plain t) := by unfold Plain; infer_instance

theorem Plain.append {a b : Str} (ha : Plain a) (hb : Plain b) : Plain (a ++ b) := by
  intro c hc; rcases List.mem_append.mp hc with h | h
  · exact ha c h
  · exact hb c h

theorem plain_hexFixed (w n : Nat) : Plain (hexFixed w n) := by
  induction w generalizing n with
  | zero => intro c hc; simp [hexFixed] at hc
  | succ w ih =>
    unfold hexFixed
    refine (ih _).append ?_
    intro c hc
    simp only [List.mem_singleton] at hc
    subst hc
    have := hexNib_plain (n % 16) (Nat.mod_lt _ (by decide))
    exact ⟨this.1, by simp [isEol, this.2.1, this.2.2]⟩

/-- the escape of a non-ASCII character (`\`, a letter, hexadecimal digits) has no `;` and no end of line -/
theorem plain_escape (c : Nat) (h : ¬ c < 128) : Plain (encodeChar c) := by
  unfold encodeChar
  rw [if_neg h]
  split
  · exact Plain.append (by decide) (plain_hexFixed _ _)
  · split
    · exact Plain.append (by decide) (plain_hexFixed _ _)
    · exact Plain.append (by decide) (plain_hexFixed _ _)

theorem textSafe_plain (ls : Bool) (t : Str) (h : Plain t) (hne : t ≠ []) :
    textSafe ls t = true ∧ lastLs ls t = false := by
  induction t generalizing ls with
  | nil => exact absurd rfl hne
  | cons c r ih =>
    have hc := h c (by simp)
    cases r with
    | nil => simp [textSafe, lastLs, hc.1, hc.2]
    | cons d r' =>
      have := ih (isEol c) (fun e he => h e (by simp [he])) (by simp)
      rw [textSafe_cons, lastLs_cons, this.1, this.2]
      simp [hc.1]

theorem encodeChar_ne_nil (c : Nat) : encodeChar c ≠ [] := by
  unfold encodeChar; split <;> (try split) <;> (try split) <;> simp

/-- escaping does not change where lines begin with `;` -/
theorem textSafe_encode (ls : Bool) (raw : Str) :
    textSafe ls (encodeNonAscii raw) = textSafe ls raw ∧ lastLs ls (encodeNonAscii raw) = lastLs ls raw := by
  induction raw generalizing ls with
  | nil => exact ⟨rfl, rfl⟩
  | cons c r ih =>
    simp only [encodeNonAscii, List.flatMap_cons] at *
    by_cases hc : c < 128
    · have : encodeChar c = [c] := by simp [encodeChar, hc]
      rw [this, List.singleton_append, textSafe_cons, textSafe_cons, lastLs_cons, lastLs_cons,
        (ih (isEol c)).1, (ih (isEol c)).2]
      exact ⟨rfl, rfl⟩
    · have hp := textSafe_plain ls (encodeChar c) (plain_escape c hc) (encodeChar_ne_nil c)
      have he : isEol c = false := by
        have : c ≠ 10 ∧ c ≠ 13 := by omega
        simp [isEol, this.1, this.2]
      have h59 : c ≠ 59 := by omega
      rw [textSafe_append, hp.1, hp.2, Bool.true_and, lastLs_append, hp.2, textSafe_cons, lastLs_cons, he,
        (ih false).1, (ih false).2]
      simp [h59]

theorem mem13_encode (raw : Str) (h : 13 ∉ raw) : 13 ∉ encodeNonAscii raw := by
  intro hm
  simp only [encodeNonAscii, List.mem_flatMap] at hm
  obtain ⟨c, hc, hm⟩ := hm
  by_cases h128 : c < 128
  · simp [encodeChar, h128] at hm; exact h (hm ▸ hc)
  · have := plain_escape c h128 13 hm
    simp [isEol] at this

/-- the hypothesis of the round-trip theorems can be checked on the supplied (unescaped) string -/
theorem valueOk_of_raw (raw : Str) (hcr : 13 ∉ raw) (hb : Benign raw) : ValueOk (encodeNonAscii raw) :=
  ⟨mem13_encode raw hcr, by unfold Benign at *; rw [(textSafe_encode false raw).1]; exact hb⟩

/-- the name check of the `Block.name` setter, plus non-empty and no carriage return, is `NameOk` -/
theorem nameOk_of_check (b : Block) (h : b.nameOk = true) (hne : b.name ≠ []) (hcr : 13 ∉ b.name) :
    NameOk (encodeNonAscii b.name) := by
  constructor
  · intro he
    cases hn : b.name with
    | nil => exact hne hn
    | cons c r =>
      rw [hn] at he
      simp only [encodeNonAscii, List.flatMap_cons, List.append_eq_nil_iff] at he
      exact encodeChar_ne_nil c he.1
  · intro c hc
    simp only [Block.nameOk, Bool.not_eq_true', Bool.or_eq_false_iff, List.contains_eq_mem, decide_eq_false_iff_not] at h
    have h13 := mem13_encode b.name hcr
    exact isWs_false_of (fun e => h.2 (e ▸ hc)) (fun e => h13 (e ▸ hc)) (fun e => h.1.1 (e ▸ hc)) (fun e => h.1.2 (e ▸ hc))




/-! ## character sets: only characters of a given set are written

Generic in the character predicate `P`; used at `validChar` (the CIF 1.1 character set, for the
complete reader) and at `printableNl` (printable ASCII, tab, newline — no carriage return). -/

/-- every character satisfies `P` -/
def All (P : Nat → Bool) (t : Str) : Prop := ∀ c ∈ t, P c = true
instance (P : Nat → Bool) (t : Str) : Decidable (All P t) := by unfold All; infer_instance

/-- supplied text: characters satisfying `P`, or any non-ASCII code point (which gets escaped) -/
def DomP (P : Nat → Bool) (t : Str) : Prop := ∀ c ∈ t, P c = true ∨ 128 ≤ c
instance (P : Nat → Bool) (t : Str) : Decidable (DomP P t) := by unfold DomP; infer_instance

/-- supplied *comment* text: as `DomP`, and any line terminator of `str.splitlines` (CR, VT, FF, FS, GS,
RS, …) as well, because `_write_comment` splits at them and does not write them -/
def DomC (P : Nat → Bool) (t : Str) : Prop := ∀ c ∈ t, P c = true ∨ 128 ≤ c ∨ isLineBreak c = true
instance (P : Nat → Bool) (t : Str) : Decidable (DomC P t) := by unfold DomC; infer_instance

theorem DomP.toC {P : Nat → Bool} {t : Str} (h : DomP P t) : DomC P t :=
  fun c hc => (h c hc).elim Or.inl (fun h' => Or.inr (Or.inl h'))

/-- `P` accepts printable ASCII and the newline, i.e. everything the writer emits by itself -/
def AcceptsPrintable (P : Nat → Bool) : Prop := ∀ c, ((32 ≤ c ∧ c ≤ 126) ∨ c = 10) → P c = true

def Printable10 (t : Str) : Prop := ∀ c ∈ t, (32 ≤ c ∧ c ≤ 126) ∨ c = 10
instance (t : Str) : Decidable (Printable10 t) := by unfold Printable10; infer_instance

/-- printable ASCII, tab or newline -/
def printableNl (c : Nat) : Bool := (32 ≤ c && c ≤ 126) || c == 9 || c == 10

theorem acceptsPrintable_validChar : AcceptsPrintable validChar := by
  intro c h; simp only [validChar, Bool.or_eq_true, Bool.and_eq_true, decide_eq_true_eq, beq_iff_eq]
  rcases h with h | h
  · exact Or.inl (Or.inl (Or.inl h))
  · exact Or.inl (Or.inr h)

theorem acceptsPrintable_printableNl : AcceptsPrintable printableNl := by
  intro c h; simp only [printableNl, Bool.or_eq_true, Bool.and_eq_true, decide_eq_true_eq, beq_iff_eq]
  rcases h with h | h
  · exact Or.inl (Or.inl h)
  · exact Or.inr h

section CharSet
variable {P : Nat → Bool} (hP : AcceptsPrintable P)
include hP

theorem All.lit {t : Str} (h : Printable10 t) : All P t := fun c hc => hP c (h c hc)

omit hP in
theorem All.nil : All P [] := by simp [All]
omit hP in
theorem All.append {a b : Str} (ha : All P a) (hb : All P b) : All P (a ++ b) := by
  intro c hc; rcases List.mem_append.mp hc with h | h
  · exact ha c h
  · exact hb c h
omit hP in
theorem All.flatMap {α : Type} (f : α → Str) (l : List α) (h : ∀ x ∈ l, All P (f x)) : All P (l.flatMap f) := by
  intro c hc; obtain ⟨x, hx, hcx⟩ := List.mem_flatMap.mp hc; exact h x hx c hcx
omit hP in
theorem All.joinWith {sep : Str} (hs : All P sep) (l : List Str) (h : ∀ x ∈ l, All P x) : All P (joinWith sep l) := by
  match l with
  | [] => exact All.nil
  | [x] => exact h x (by simp)
  | x :: y :: rest =>
    rw [joinWith_cons_cons]
    exact ((h x (by simp)).append hs).append (All.joinWith hs (y :: rest) (fun z hz => h z (by simp [hz])))

theorem hexNib_all (n : Nat) (h : n < 16) : P (hexNib n) = true := by
  apply hP
  have : ∀ m, m < 16 → (32 ≤ hexNib m ∧ hexNib m ≤ 126) := by decide
  exact Or.inl (this n h)

theorem all_hexFixed (w n : Nat) : All P (hexFixed w n) := by
  induction w generalizing n with
  | zero => exact All.nil
  | succ w ih =>
    unfold hexFixed
    exact (ih _).append (fun c hc => by
      simp at hc; subst hc; exact hexNib_all hP _ (Nat.mod_lt _ (by decide)))

theorem all_encodeChar (c : Nat) (h : P c = true ∨ 128 ≤ c) : All P (encodeChar c) := by
  unfold encodeChar
  split
  · rename_i hlt
    rcases h with h | h
    · intro d hd; simp at hd; subst hd; exact h
    · omega
  · split
    · exact All.append (All.lit hP (by decide)) (all_hexFixed hP _ _)
    · split
      · exact All.append (All.lit hP (by decide)) (all_hexFixed hP _ _)
      · exact All.append (All.lit hP (by decide)) (all_hexFixed hP _ _)

theorem all_encode (s : Str) (h : DomP P s) : All P (encodeNonAscii s) :=
  All.flatMap _ _ (fun c hc => all_encodeChar hP c (h c hc))

theorem all_wrap (q : Quote) (s : Str) (h : All P s) : All P (wrap q s) := by
  cases q <;> simp only [wrap]
  · exact h
  · exact ((All.lit hP (t := [39]) (by decide)).append h).append (All.lit hP (by decide))
  · exact ((All.lit hP (t := [34]) (by decide)).append h).append (All.lit hP (by decide))
  · exact ((All.lit hP (t := [59, 32]) (by decide)).append h).append (All.lit hP (by decide))

/-- every formatted value — whichever container it came from: a plain `str`, a scalar Variable, an
element of a loop column — consists of characters of `P` only: non-ASCII text is escaped first -/
theorem all_formatValue (var : Variant) (raw : Str) (h : DomP P raw) : All P (formatValue var raw) :=
  all_wrap hP _ _ (all_encode hP raw h)

theorem all_writeComment (c : Str) (h : ∀ ch ∈ c, P ch = true ∨ isLineBreak ch = true) : All P (writeComment c) := by
  unfold writeComment; split
  · exact All.nil
  · refine ((All.lit hP (t := [35, 32]) (by decide)).append (All.joinWith (All.lit hP (by decide)) _ ?_)).append
      (All.lit hP (by decide))
    intro l hl d hd
    have hnb := splitLinesAux_no_break c [] (by simp) l hl d hd
    rcases splitLinesAux_mem c [] l hl d hd with h' | h'
    · rcases h d h' with hp | hb
      · exact hp
      · rw [hnb] at hb; cases hb
    · simp at h'

theorem encode_mem_or_break (s : Str) (h : DomC P s) :
    ∀ ch ∈ encodeNonAscii s, P ch = true ∨ isLineBreak ch = true := by
  intro ch hch
  simp only [encodeNonAscii, List.mem_flatMap] at hch
  obtain ⟨c, hc, hcc⟩ := hch
  by_cases h128 : c < 128
  · simp only [encodeChar, h128, if_true, List.mem_singleton] at hcc
    subst hcc
    rcases h ch hc with h1 | h1 | h1
    · exact Or.inl h1
    · omega
    · exact Or.inr h1
  · exact Or.inl (all_encodeChar hP c (Or.inr (by omega)) ch hcc)

/-- a written comment consists of characters of `P` only, whatever line terminators the comment has -/
theorem all_comment (c : Str) (h : DomC P c) : All P (writeComment (encodeNonAscii c)) :=
  all_writeComment hP _ (encode_mem_or_break hP c h)

theorem all_writePair (var : Variant) (k raw : Str) (hk : All P k) (hv : DomP P raw) : All P (writePair var (k, raw)) := by
  rw [writePair_eq]; split
  · exact ((((All.lit hP (t := [95]) (by decide)).append hk).append (All.lit hP (t := [10]) (by decide))).append
      (all_formatValue hP var raw hv)).append (All.lit hP (by decide))
  · exact ((((All.lit hP (t := [95]) (by decide)).append hk).append (All.lit hP (t := [32]) (by decide))).append
      (all_formatValue hP var raw hv)).append (All.lit hP (by decide))

end CharSet

def ChunkDomP (P : Nat → Bool) (c : Chunk) : Prop := DomC P c.comment ∧ ∀ kv ∈ c.pairs, All P kv.1 ∧ DomP P kv.2
def LoopDomP (P : Nat → Bool) (l : Loop) : Prop :=
  DomC P l.comment ∧ ∀ c ∈ l.columns, All P c.1 ∧ ∀ v ∈ c.2, DomP P v
def ItemDomP (P : Nat → Bool) : Item → Prop
  | .chunk c => ChunkDomP P c
  | .loop l => LoopDomP P l
def SchemaDomP (P : Nat → Bool) (s : Schema) : Prop := DomP P s.name ∧ DomP P s.version ∧ DomP P s.location

structure BlockDomP (P : Nat → Bool) (ordered : List Schema) (b : Block) : Prop where
  name : DomP P b.name
  comment : DomC P b.comment
  items : ∀ it ∈ b.content, ItemDomP P it
  schemas : ∀ s ∈ ordered, SchemaDomP P s

section CharSet2
variable {P : Nat → Bool} (hP : AcceptsPrintable P)
include hP

theorem all_chunk (var : Variant) (c : Chunk) (h : ChunkDomP P c) : All P (c.write var) :=
  (all_comment hP _ h.1).append
    (All.flatMap _ _ (fun kv hkv => all_writePair hP var kv.1 kv.2 (h.2 kv hkv).1 (h.2 kv hkv).2))

/-- loops: every element of every column goes through `formatValue`, so it is escaped -/
theorem all_loop (var : Variant) (l : Loop) (h : LoopDomP P l) : All P (l.write var) := by
  unfold Loop.write
  refine (((all_comment hP _ h.1).append (All.lit hP (by decide))).append
    (All.flatMap _ _ (fun c hc => ((All.lit hP (t := [95]) (by decide)).append (h.2 c hc).1).append
      (All.lit hP (by decide))))).append
    (All.flatMap _ _ (fun row hrow => All.append (All.joinWith ?_ row ?_) (All.lit hP (by decide))))
  · split
    · exact All.lit hP (by decide)
    · exact All.lit hP (by decide)
  · intro x hx
    simp only [Loop.formattedRows, List.mem_map] at hrow
    obtain ⟨r, hr, rfl⟩ := hrow
    simp only [List.mem_map] at hx
    obtain ⟨v, hv, rfl⟩ := hx
    obtain ⟨col, hcol, hvc⟩ := mem_rowsOf _ _ r v hr hv
    simp only [List.mem_map] at hcol
    obtain ⟨c, hc, rfl⟩ := hcol
    exact all_formatValue hP var v ((h.2 c hc).2 v hvc)

theorem all_item (var : Variant) (it : Item) (h : ItemDomP P it) : All P (it.write var) := by
  cases it with
  | chunk c => exact all_chunk hP var c h
  | loop l => exact all_loop hP var l h

theorem all_block (var : Variant) (ordered : List Schema) (b : Block) (h : BlockDomP P ordered b) :
    All P (b.writeWith var ordered) := by
  unfold Block.writeWith
  refine ((((all_comment hP _ h.comment).append (All.lit hP (by decide))).append
    (all_encode hP _ h.name)).append (All.lit hP (by decide))).append ?_ |>.append ?_
  · cases hl : schemaLoop ordered with
    | none => exact All.nil
    | some l =>
      refine (all_loop hP var l ?_).append (All.lit hP (by decide))
      unfold schemaLoop at hl
      split at hl
      · simp at hl
      · simp only [Option.some.injEq] at hl; subst hl
        refine ⟨(fun c hc => by simp at hc : DomC P []), ?_⟩
        intro c hc
        simp only [List.mem_cons, List.not_mem_nil, or_false] at hc
        rcases hc with rfl | rfl | rfl
        · exact ⟨All.lit hP (by decide : Printable10 (ofString "audit_conform.dict_name")), fun v hv => by
            simp only [List.mem_map] at hv; obtain ⟨s, hs, rfl⟩ := hv; exact (h.schemas s hs).1⟩
        · exact ⟨All.lit hP (by decide : Printable10 (ofString "audit_conform.dict_version")), fun v hv => by
            simp only [List.mem_map] at hv; obtain ⟨s, hs, rfl⟩ := hv; exact (h.schemas s hs).2.1⟩
        · exact ⟨All.lit hP (by decide : Printable10 (ofString "audit_conform.dict_location")), fun v hv => by
            simp only [List.mem_map] at hv; obtain ⟨s, hs, rfl⟩ := hv; exact (h.schemas s hs).2.2⟩
  · exact All.joinWith (All.lit hP (by decide)) _ (fun x hx => by
      simp only [List.mem_map] at hx
      obtain ⟨it, hit, rfl⟩ := hx
      exact all_item hP var it (h.items it hit))

theorem all_doc (comment : Str) (blocks : List (List Schema × Block)) (hc : DomC P comment)
    (h : ∀ ob ∈ blocks, BlockDomP P ob.1 ob.2) : All P (docText comment blocks) := by
  unfold docText fileHeading writeMulti
  refine ((All.lit hP (t := [35, 92, 35, 67, 73, 70, 95, 49, 46, 49, 10]) (by decide)).append ?_).append
    (All.joinWith (All.lit hP (by decide)) _ (fun x hx => by
      simp only [List.mem_map] at hx
      obtain ⟨ob, hob, rfl⟩ := hx
      exact all_block hP _ ob.1 ob.2 (h ob hob)))
  simp only [Variant.current, if_true]
  exact all_comment hP _ hc

end CharSet2

/-- the CIF 1.1 character set -/
abbrev Valid (t : Str) : Prop := All validChar t
abbrev Dom (t : Str) : Prop := DomP validChar t
abbrev DomComment (t : Str) : Prop := DomC validChar t
abbrev ChunkDom := ChunkDomP validChar
abbrev LoopDom := LoopDomP validChar
abbrev ItemDom := ItemDomP validChar
abbrev SchemaDom := SchemaDomP validChar
abbrev BlockDom := BlockDomP validChar

theorem valid_doc (comment : Str) (blocks : List (List Schema × Block)) (hc : DomComment comment)
    (h : ∀ ob ∈ blocks, BlockDom ob.1 ob.2) : Valid (docText comment blocks) :=
  all_doc acceptsPrintable_validChar comment blocks hc h

/-- the complete reader (`parseCif`: character set, tokenizer, parser) on a written document -/
theorem parseCif_doc (comment : Str) (blocks : List (List Schema × Block)) (hc : DomComment comment)
    (hd : ∀ ob ∈ blocks, BlockDom ob.1 ob.2) (h : ∀ ob ∈ blocks, BlockOk ob.1 ob.2)
    (hs : ∀ ob ∈ blocks, ∀ it ∈ ob.2.content, ItemShape it) :
    parseCif (docText comment blocks) = some (blocks.map (fun ob => blockP ob.1 ob.2)) := by
  have hv : (docText comment blocks).all validChar = true :=
    List.all_eq_true.mpr (valid_doc comment blocks hc hd)
  unfold parseCif
  rw [if_pos hv, (piece_doc comment blocks h).tokenize]
  exact parse_docToks blocks hs

/-! ## decidability of the hypotheses (for the non-vacuity examples) -/
instance (s : Str) : Decidable (ValueOk s) := by unfold ValueOk; infer_instance
instance (n : Str) : Decidable (NameOk n) := by unfold NameOk; infer_instance
instance (c : Chunk) : Decidable (ChunkOk c) := by unfold ChunkOk; infer_instance
instance (l : Loop) : Decidable (LoopOk l) := by unfold LoopOk; infer_instance
instance : (it : Item) → Decidable (ItemOk it)
  | .chunk c => inferInstanceAs (Decidable (ChunkOk c))
  | .loop l => inferInstanceAs (Decidable (LoopOk l))
instance (s : Schema) : Decidable (SchemaOk s) := by unfold SchemaOk; infer_instance
instance (l : Loop) : Decidable (LoopShape l) := by unfold LoopShape; infer_instance
instance (P : Nat → Bool) (c : Chunk) : Decidable (ChunkDomP P c) := by unfold ChunkDomP; infer_instance
instance (P : Nat → Bool) (l : Loop) : Decidable (LoopDomP P l) := by unfold LoopDomP; infer_instance
instance (P : Nat → Bool) : (it : Item) → Decidable (ItemDomP P it)
  | .chunk c => inferInstanceAs (Decidable (ChunkDomP P c))
  | .loop l => inferInstanceAs (Decidable (LoopDomP P l))
instance (P : Nat → Bool) (s : Schema) : Decidable (SchemaDomP P s) := by unfold SchemaDomP; infer_instance
instance : (it : Item) → Decidable (ItemShape it)
  | .chunk _ => inferInstanceAs (Decidable True)
  | .loop l => inferInstanceAs (Decidable (LoopShape l))

end ScnVerif.Cif
