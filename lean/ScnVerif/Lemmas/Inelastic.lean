import ScnVerif.Model.Inelastic
import ScnVerif.Real.Basic
import Mathlib.Tactic.FieldSimp
import Mathlib.Tactic.Ring
import Mathlib.Tactic.Linarith
import Mathlib.Tactic.Positivity
import Mathlib.Tactic.NormNum
/-! helper lemmas for C05: neutron speed, unfolding of the kernels at `ℝ`, the variable leg -/
namespace ScnVerif.Lemmas.Inelastic
open ScnVerif ScnVerif.Inelastic

/-- speed of a neutron of mass `m` and kinetic energy `E` (SI): `v = √(2E/m)` -/
noncomputable def speed (m E : ℝ) : ℝ := Real.sqrt (2 * E / m)

theorem speed_pos {m E : ℝ} (hm : 0 < m) (hE : 0 < E) : 0 < speed m E :=
  Real.sqrt_pos.mpr (by positivity)

theorem speed_sq {m E : ℝ} (hm : 0 < m) (hE : 0 < E) : speed m E * speed m E = 2 * E / m :=
  Real.mul_self_sqrt (by positivity)

theorem direct_unfold (c1 c2 tof L1 L2 Ei : ℝ) :
    energyTransferDirect (Casts.id ℝ) (LenCast.id ℝ) (LenCast.id ℝ) c1 c2 tof L1 L2 Ei
      = if tof - energyTransferT0 (Casts.id ℝ) (LenCast.id ℝ) c1 Ei L1 ≤ 0 then none
        else some (Ei - c2 * (L2 * L2) /
          ((tof - energyTransferT0 (Casts.id ℝ) (LenCast.id ℝ) c1 Ei L1) * (tof - energyTransferT0 (Casts.id ℝ) (LenCast.id ℝ) c1 Ei L1))) :=
  rfl

theorem indirect_unfold (c1 c2 tof L1 L2 Ef : ℝ) :
    energyTransferIndirect (Casts.id ℝ) (LenCast.id ℝ) (LenCast.id ℝ) c1 c2 tof L1 L2 Ef
      = if -energyTransferT0 (Casts.id ℝ) (LenCast.id ℝ) c2 Ef L2 + tof ≤ 0 then none
        else some (c1 * (L1 * L1) /
          ((-energyTransferT0 (Casts.id ℝ) (LenCast.id ℝ) c2 Ef L2 + tof) * (-energyTransferT0 (Casts.id ℝ) (LenCast.id ℝ) c2 Ef L2 + tof)) - Ef) :=
  rfl

/-- the variable leg: `scale/δ² = E` when `δ·s_t = L·s_L / v(E·s_E)` -/
theorem scale_over_delta_sq (m sE st sL L E δ : ℝ) (hm : 0 < m) (hsE : 0 < sE) (hst : 0 < st)
    (hsL : 0 < sL) (hL : 0 < L) (hE : 0 < E) (hδ : δ * st = L * sL / speed m (E * sE)) :
    energyConstant (m / 2) sE st sL * (L * L) / (δ * δ) = E := by
  have hv := speed_pos hm (mul_pos hE hsE)
  have hv2 := speed_sq hm (mul_pos hE hsE)
  have hδe : δ = L * sL / speed m (E * sE) / st := by rw [eq_div_iff hst.ne', hδ]
  generalize speed m (E * sE) = v at *
  subst hδe
  simp only [energyConstant]
  field_simp
  field_simp at hv2
  linarith

/-- the variable leg in physical units for any positive `δ` -/
theorem scale_over_delta_sq_phys (m sE st sL L δ P : ℝ) (hsE : 0 < sE) (hst : 0 < st)
    (hsL : 0 < sL) (hP : 0 < P) (hδ : δ * st = P) :
    energyConstant (m / 2) sE st sL * (L * L) / (δ * δ) * sE = m / 2 * (L * sL) ^ 2 / P ^ 2 := by
  have hδe : δ = P / st := by rw [eq_div_iff hst.ne', hδ]
  subst hδe
  simp only [energyConstant]
  field_simp

/-- concrete speeds used by the non-vacuity examples of C05 -/
theorem speed_example : speed 2 (4 * 1) = 2 ∧ speed 2 (1 * 1) = 1 := by
  constructor
  · unfold speed; rw [show (2 * (4 * 1) / 2 : ℝ) = 2 ^ 2 by norm_num]; exact Real.sqrt_sq (by norm_num)
  · unfold speed; rw [show (2 * (1 * 1) / 2 : ℝ) = 1 ^ 2 by norm_num]; exact Real.sqrt_sq (by norm_num)

end ScnVerif.Lemmas.Inelastic
