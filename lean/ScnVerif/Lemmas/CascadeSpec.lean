import ScnVerif.Lemmas.CascadeGeom
/-!
# Specification of transmission and the soundness invariant

A neutron is `(t0, w)`: emission time and wavelength. `Transmitted` is the physical statement
(emitted inside the pulse rectangle, inside some window of every chopper at its arrival time there).
`Reach` describes every frame the code can produce from a source pulse by any history of
`propagate_to` / `chop` calls.
-/
set_option linter.unusedSectionVars false
namespace ScnVerif.Cascade
variable {α : Type} [Field α] [LinearOrder α] [IsStrictOrderedRing α]

structure Pulse (α : Type) where
  tmin : α
  tmax : α
  wmin : α
  wmax : α

def Pulse.Valid (pl : Pulse α) : Prop := pl.tmin ≤ pl.tmax ∧ pl.wmin ≤ pl.wmax

/-- emitted inside the pulse rectangle -/
def Emitted (pl : Pulse α) (t0 w : α) : Prop :=
  pl.tmin ≤ t0 ∧ t0 ≤ pl.tmax ∧ pl.wmin ≤ w ∧ w ≤ pl.wmax

/-- arrival time at distance `d` of a neutron emitted (at distance 0) at `t0` with wavelength `w` -/
def arrival (k : Consts α) (t0 w d : α) : α := propagateTimes k t0 w d

/-- the neutron finds some window of the chopper open when it arrives there -/
def Passes (k : Consts α) (c : Chopper α) (t0 w : α) : Prop :=
  ∃ win ∈ c.windows, win.1 ≤ arrival k t0 w c.dist ∧ arrival k t0 w c.dist ≤ win.2

/-- emitted inside the pulse and passing every chopper of the list -/
def Transmitted (k : Consts α) (pl : Pulse α) (cs : List (Chopper α)) (t0 w : α) : Prop :=
  Emitted pl t0 w ∧ ∀ c ∈ cs, Passes k c t0 w

/-- emission time of a neutron seen at distance `D` at time `x.1` with wavelength `x.2` -/
def emission (k : Consts α) (D : α) (x : Vtx α) : α := propagateTimes k x.1 x.2 (-D)

/-- the point `x = (arrival time, wavelength)` at distance `D` is a transmitted neutron -/
def TransmittedAt (k : Consts α) (pl : Pulse α) (cs : List (Chopper α)) (D : α) (x : Vtx α) : Prop :=
  Transmitted k pl cs (emission k D x) x.2

/-- the source frame of a pulse (`from_source_pulse`, distance 0) -/
def sourceFrame (pl : Pulse α) : Frame α := fromSourcePulse 0 pl.tmin pl.tmax pl.wmin pl.wmax

/-- frames the code produces from a source pulse by any history of `propagate_to` and `chop`,
with the list of choppers applied (most recent first) -/
inductive Reach (k : Consts α) (pl : Pulse α) : Frame α → List (Chopper α) → Prop
  | source : Reach k pl (sourceFrame pl) []
  | prop {f : Frame α} {cs : List (Chopper α)} (d : α) : Reach k pl f cs → Reach k pl (f.propagateTo k d) cs
  | chop {f f' : Frame α} {cs : List (Chopper α)} {c : Chopper α} :
      Reach k pl f cs → f.chop k c = .ok f' → Reach k pl f' (c :: cs)

/-- the same, with forward propagation only (`d ≥` current distance) -/
inductive ReachFwd (k : Consts α) (pl : Pulse α) : Frame α → List (Chopper α) → Prop
  | source : ReachFwd k pl (sourceFrame pl) []
  | prop {f : Frame α} {cs : List (Chopper α)} (d : α) : f.dist ≤ d → ReachFwd k pl f cs →
      ReachFwd k pl (f.propagateTo k d) cs
  | chop {f f' : Frame α} {cs : List (Chopper α)} {c : Chopper α} :
      ReachFwd k pl f cs → f.chop k c = .ok f' → ReachFwd k pl f' (c :: cs)

theorem ReachFwd.reach {k : Consts α} {pl : Pulse α} {f : Frame α} {cs : List (Chopper α)}
    (h : ReachFwd k pl f cs) : Reach k pl f cs := by
  induction h with
  | source => exact .source
  | prop d _ _ ih => exact .prop d ih
  | chop _ hc ih => exact .chop ih hc

/-! ## shear -/

/-- `Subframe.propagate_by` on one vertex -/
def shearV (k : Consts α) (d : α) (v : Vtx α) : Vtx α := (propagateTimes k v.1 v.2 d, v.2)

theorem shearPoly_eq (k : Consts α) (d : α) (p : Poly α) : shearPoly k d p = p.map (shearV k d) := rfl

theorem shearV_shearV (k : Consts α) (d1 d2 : α) (v : Vtx α) :
    shearV k d2 (shearV k d1 v) = shearV k (d1 + d2) v := by
  simp only [shearV, propagateTimes, Prod.mk.injEq, and_true]; ring

theorem shearV_neg_cancel (k : Consts α) (d : α) (v : Vtx α) : shearV k (-d) (shearV k d v) = v := by
  rw [shearV_shearV]; simp [shearV, propagateTimes]

theorem shearV_cancel_neg (k : Consts α) (d : α) (v : Vtx α) : shearV k d (shearV k (-d) v) = v := by
  rw [shearV_shearV]; simp [shearV, propagateTimes]

theorem shearV_cmb (k : Consts α) (d a : α) (p q : Vtx α) :
    shearV k d (cmb a p q) = cmb a (shearV k d p) (shearV k d q) := by
  simp only [shearV, cmb, propagateTimes, Prod.mk.injEq, and_true]; ring

theorem convex_comp_shear (k : Consts α) (d : α) {P : Vtx α → Prop} (hP : Convex P) :
    Convex (fun x => P (shearV k d x)) := by
  intro p q a hp hq h0 h1
  show P (shearV k d (cmb a p q))
  rw [shearV_cmb]; exact hP _ _ _ hp hq h0 h1

theorem emission_shear (k : Consts α) (D δ : α) (x : Vtx α) :
    emission k (D + δ) (shearV k δ x) = emission k D x := by
  simp only [emission, shearV, propagateTimes]; ring

theorem arrival_emission (k : Consts α) (D : α) (x : Vtx α) : arrival k (emission k D x) x.2 D = x.1 := by
  simp only [arrival, emission, propagateTimes]; ring

theorem emission_arrival (k : Consts α) (D t0 w : α) : emission k D (arrival k t0 w D, w) = t0 := by
  simp only [arrival, emission, propagateTimes]; ring

theorem emission_zero (k : Consts α) (x : Vtx α) : emission k 0 x = x.1 := by
  simp [emission, propagateTimes]

/-! ## the soundness invariant -/

theorem convex_emitted (pl : Pulse α) : Convex (fun x : Vtx α => Emitted pl x.1 x.2) := by
  intro p q a hp hq h0 h1
  obtain ⟨a1, a2, a3, a4⟩ := hp
  obtain ⟨b1, b2, b3, b4⟩ := hq
  have t := cmb_between h0 h1 ⟨a1, a2⟩ ⟨b1, b2⟩
  have w := cmb_between h0 h1 ⟨a3, a4⟩ ⟨b3, b4⟩
  exact ⟨t.1, t.2, w.1, w.2⟩

/-- each subframe lies in a convex set of transmitted points (the window choice of the subframe) -/
def SoundInv (k : Consts α) (pl : Pulse α) (f : Frame α) (cs : List (Chopper α)) : Prop :=
  ∀ sub ∈ f.subframes, ∃ P : Vtx α → Prop, Convex P ∧ (∀ x, P x → TransmittedAt k pl cs f.dist x) ∧
    ∀ v ∈ sub, P v

theorem soundInv_source (k : Consts α) (pl : Pulse α) (hv : pl.Valid) : SoundInv k pl (sourceFrame pl) [] := by
  intro sub hsub
  simp only [sourceFrame, fromSourcePulse, List.mem_singleton] at hsub
  subst hsub
  refine ⟨fun x => Emitted pl x.1 x.2, convex_emitted pl, ?_, ?_⟩
  · intro x hx
    refine ⟨?_, by simp⟩
    simpa [sourceFrame, fromSourcePulse, emission_zero] using hx
  · obtain ⟨ht, hw⟩ := hv
    intro v hv
    simp only [List.mem_cons, List.not_mem_nil, or_false] at hv
    rcases hv with rfl | rfl | rfl | rfl <;> simp [Emitted, ht, hw]

theorem soundInv_prop (k : Consts α) (pl : Pulse α) {f : Frame α} {cs : List (Chopper α)} (d : α)
    (h : SoundInv k pl f cs) : SoundInv k pl (f.propagateTo k d) cs := by
  intro sub hsub
  simp only [Frame.propagateTo, List.mem_map] at hsub
  obtain ⟨sub0, hsub0, rfl⟩ := hsub
  obtain ⟨P, hP, hT, hV⟩ := h sub0 hsub0
  refine ⟨fun x => P (shearV k (-(d - f.dist)) x), convex_comp_shear k _ hP, ?_, ?_⟩
  · intro x hx
    have := hT _ hx
    unfold TransmittedAt at this ⊢
    have he : emission k f.dist (shearV k (-(d - f.dist)) x) = emission k d x := by
      simp only [emission, shearV, propagateTimes]; ring
    rw [he] at this
    simpa [shearV, Frame.propagateTo] using this
  · intro v hv
    rw [shearPoly_eq, List.mem_map] at hv
    obtain ⟨v0, hv0, rfl⟩ := hv
    show P (shearV k (-(d - f.dist)) (shearV k (d - f.dist) v0))
    rw [shearV_neg_cancel]; exact hV v0 hv0

/-- the two nested `_chop` calls keep every convex invariant of the vertices and put them inside
the window -/
theorem chopWindow_preserves {w : α × α} {sub out : Poly α} (h : chopWindow w sub = some out)
    {P : Vtx α → Prop} (hP : Convex P) (hV : ∀ v ∈ sub, P v) :
    ∀ v ∈ out, P v ∧ w.1 ≤ v.1 ∧ v.1 ≤ w.2 := by
  unfold chopWindow at h
  cases h1 : chopStep w.1 true sub with
  | none => simp [h1] at h
  | some o1 =>
    simp only [h1, Option.bind_some] at h
    have hQ : Convex (fun x : Vtx α => P x ∧ w.1 ≤ x.1) := convex_and hP (convex_time_ge w.1)
    have hV1 : ∀ v ∈ o1, P v ∧ w.1 ≤ v.1 := by
      intro v hv
      obtain ⟨hh, hin⟩ := chopStep_hull_inside h1 hv
      exact ⟨Hull.le hP hV v hh, (inside_true_iff _ _).1 hin⟩
    intro v hv
    obtain ⟨hh, hin⟩ := chopStep_hull_inside h hv
    have := Hull.le hQ hV1 v hh
    exact ⟨this.1, this.2, (inside_false_iff _ _).1 hin⟩

theorem mem_chop_subframes {k : Consts α} {f f' : Frame α} {c : Chopper α} (h : f.chop k c = .ok f') :
    ¬ c.dist < f.dist ∧ f'.dist = c.dist ∧
    ∀ sub, sub ∈ f'.subframes ↔ ∃ sub0 ∈ f.subframes, ∃ w ∈ c.windows,
      chopWindow w (shearPoly k (c.dist - f.dist) sub0) = some sub := by
  unfold Frame.chop at h
  by_cases hd : c.dist < f.dist
  · simp [hd] at h
  · simp only [hd, if_false, Except.ok.injEq] at h
    subst h
    refine ⟨hd, rfl, ?_⟩
    intro sub
    simp only [Frame.propagateTo, List.mem_flatMap, List.mem_filterMap, List.mem_map]
    constructor
    · rintro ⟨_, ⟨sub0, h0, rfl⟩, w, hw, hc⟩
      exact ⟨sub0, h0, w, hw, hc⟩
    · rintro ⟨sub0, h0, w, hw, hc⟩
      exact ⟨_, ⟨sub0, h0, rfl⟩, w, hw, hc⟩

theorem soundInv_chop (k : Consts α) (pl : Pulse α) {f f' : Frame α} {cs : List (Chopper α)}
    {c : Chopper α} (h : SoundInv k pl f cs) (hc : f.chop k c = .ok f') : SoundInv k pl f' (c :: cs) := by
  obtain ⟨_, hdist, hmem⟩ := mem_chop_subframes hc
  have hp := soundInv_prop k pl c.dist h
  intro sub hsub
  obtain ⟨sub0, h0, w, hw, hcw⟩ := (hmem sub).1 hsub
  obtain ⟨P, hP, hT, hV⟩ := hp (shearPoly k (c.dist - f.dist) sub0)
    (by simp only [Frame.propagateTo, List.mem_map]; exact ⟨sub0, h0, rfl⟩)
  refine ⟨fun x => P x ∧ w.1 ≤ x.1 ∧ x.1 ≤ w.2,
    convex_and hP (convex_and (convex_time_ge w.1) (convex_time_le w.2)), ?_, ?_⟩
  · rintro x ⟨hx, ho, hcl⟩
    have := hT x hx
    simp only [Frame.propagateTo] at this
    rw [hdist]
    refine ⟨this.1, ?_⟩
    intro c' hc'
    rcases List.mem_cons.1 hc' with rfl | hc'
    · exact ⟨w, hw, by rw [arrival_emission]; exact ho, by rw [arrival_emission]; exact hcl⟩
    · exact this.2 c' hc'
  · exact chopWindow_preserves hcw hP hV

theorem soundInv_of_reach {k : Consts α} {pl : Pulse α} (hv : pl.Valid) {f : Frame α}
    {cs : List (Chopper α)} (h : Reach k pl f cs) : SoundInv k pl f cs := by
  induction h with
  | source => exact soundInv_source k pl hv
  | prop d _ ih => exact soundInv_prop k pl d ih
  | chop _ hc ih => exact soundInv_chop k pl ih hc

end ScnVerif.Cascade
