import ScnVerif.Lemmas.CascadeRegular
/-!
# The completeness / regularity invariant along forward histories
-/
set_option linter.unusedSectionVars false
namespace ScnVerif.Cascade
variable {α : Type} [Field α] [LinearOrder α] [IsStrictOrderedRing α]

def rect (pl : Pulse α) : Poly α :=
  [(pl.tmin, pl.wmin), (pl.tmax, pl.wmin), (pl.tmax, pl.wmax), (pl.tmin, pl.wmax)]

theorem sourceFrame_eq (pl : Pulse α) : sourceFrame pl = ⟨0, [rect pl]⟩ := rfl

theorem rect_leftAll {pl : Pulse α} (_hv : pl.Valid) {x : Vtx α} (hx : Emitted pl x.1 x.2) :
    LeftAll (rect pl) x := by
  obtain ⟨h1, h2, h3, h4⟩ := hx
  intro e he
  simp only [rect, cycPairs, List.take_succ_cons, List.take_zero, List.cons_append, List.nil_append,
    pathPairs, List.mem_cons, List.not_mem_nil, or_false] at he
  unfold LeftOf cross
  rcases he with rfl | rfl | rfl | rfl <;> simp only
  · nlinarith [mul_nonneg (sub_nonneg.2 (h1.trans h2)) (sub_nonneg.2 h3)]
  · nlinarith [mul_nonneg (sub_nonneg.2 (h3.trans h4)) (sub_nonneg.2 h2)]
  · nlinarith [mul_nonneg (sub_nonneg.2 (h1.trans h2)) (sub_nonneg.2 h4)]
  · nlinarith [mul_nonneg (sub_nonneg.2 (h3.trans h4)) (sub_nonneg.2 h1)]

theorem rect_emitted {pl : Pulse α} (hv : pl.Valid) {v : Vtx α} (h : v ∈ rect pl) : Emitted pl v.1 v.2 := by
  obtain ⟨ht, hw⟩ := hv
  simp only [rect, List.mem_cons, List.not_mem_nil, or_false] at h
  rcases h with rfl | rfl | rfl | rfl <;> simp [Emitted, ht, hw]

theorem rect_allLeft {pl : Pulse α} (hv : pl.Valid) : AllLeft (rect pl) :=
  fun _ h => rect_leftAll hv (rect_emitted hv h)

theorem rect_ext {pl : Pulse α} (_hv : pl.Valid) :
    IsExt true (rect pl) (pl.tmin, pl.wmin) ∧ IsExt false (rect pl) (pl.tmax, pl.wmax) := by
  constructor
  · rw [isExt_true_iff]
    refine ⟨by simp [rect], fun v h => ?_⟩
    have := rect_emitted _hv h
    exact ⟨this.1, this.2.2.1⟩
  · rw [isExt_false_iff]
    refine ⟨by simp [rect], fun v h => ?_⟩
    have := rect_emitted _hv h
    exact ⟨this.2.1, this.2.2.2⟩

theorem rect_region {pl : Pulse α} (hv : pl.Valid) {x : Vtx α} (hx : Emitted pl x.1 x.2) :
    Region (rect pl) x := by
  refine ⟨rect_leftAll hv hx, ⟨_, (rect_ext hv).1, ?_, ?_⟩, ⟨_, (rect_ext hv).2, ?_, ?_⟩⟩ <;>
    simp only [sg, if_true, Bool.false_eq_true, if_false] <;> linarith [hx.1, hx.2.1, hx.2.2.1, hx.2.2.2]

/-- every subframe is a regular convex counter-clockwise cycle, and every transmitted neutron is in
the region of some subframe -/
def CompleteInv (k : Consts α) (pl : Pulse α) (f : Frame α) (cs : List (Chopper α)) : Prop :=
  (∀ sub ∈ f.subframes, AllLeft sub ∧ Regular sub) ∧
  ∀ t0 w, Transmitted k pl cs t0 w → ∃ sub ∈ f.subframes, Region sub (arrival k t0 w f.dist, w)

theorem completeInv_source (k : Consts α) (pl : Pulse α) (hv : pl.Valid) :
    CompleteInv k pl (sourceFrame pl) [] := by
  rw [sourceFrame_eq]
  constructor
  · intro sub hsub
    simp only [List.mem_singleton] at hsub; subst hsub
    exact ⟨rect_allLeft hv, ⟨_, (rect_ext hv).1⟩, ⟨_, (rect_ext hv).2⟩⟩
  · intro t0 w ht
    refine ⟨rect pl, by simp, ?_⟩
    have : arrival k t0 w 0 = t0 := by simp [arrival, propagateTimes]
    simp only [this]
    exact rect_region hv ht.1

theorem shearV_arrival (k : Consts α) (t0 w D δ : α) :
    shearV k δ (arrival k t0 w D, w) = (arrival k t0 w (D + δ), w) := by
  simp only [shearV, arrival, propagateTimes]; congr 1; ring

theorem completeInv_prop (k : Consts α) (pl : Pulse α) (hκ : 0 ≤ k.mn / k.h * k.s) {f : Frame α}
    {cs : List (Chopper α)} {d : α} (hd : f.dist ≤ d) (h : CompleteInv k pl f cs) :
    CompleteInv k pl (f.propagateTo k d) cs := by
  have hδ : 0 ≤ d - f.dist := sub_nonneg.2 hd
  constructor
  · intro sub hsub
    simp only [Frame.propagateTo, List.mem_map] at hsub
    obtain ⟨sub0, h0, rfl⟩ := hsub
    obtain ⟨ha, hr⟩ := h.1 sub0 h0
    exact ⟨allLeft_shear k _ ha, regular_shear k hκ hδ hr⟩
  · intro t0 w ht
    obtain ⟨sub0, h0, hreg⟩ := h.2 t0 w ht
    refine ⟨shearPoly k (d - f.dist) sub0, by simp only [Frame.propagateTo, List.mem_map]; exact ⟨sub0, h0, rfl⟩, ?_⟩
    have := region_shear k hκ hδ hreg
    rw [shearV_arrival] at this
    simpa [Frame.propagateTo] using this

theorem completeInv_chop (k : Consts α) (pl : Pulse α) (hκ : 0 ≤ k.mn / k.h * k.s) {f f' : Frame α}
    {cs : List (Chopper α)} {c : Chopper α} (h : CompleteInv k pl f cs) (hc : f.chop k c = .ok f') :
    CompleteInv k pl f' (c :: cs) := by
  obtain ⟨hnlt, hdist, hmem⟩ := mem_chop_subframes hc
  have hd : f.dist ≤ c.dist := not_lt.1 hnlt
  have hp := completeInv_prop k pl hκ hd h
  constructor
  · intro sub hsub
    obtain ⟨sub0, h0, w, hw, hcw⟩ := (hmem sub).1 hsub
    obtain ⟨ha, hr⟩ := hp.1 (shearPoly k (c.dist - f.dist) sub0)
      (by simp only [Frame.propagateTo, List.mem_map]; exact ⟨sub0, h0, rfl⟩)
    unfold chopWindow at hcw
    cases h1 : chopStep w.1 true (shearPoly k (c.dist - f.dist) sub0) with
    | none => simp [h1] at hcw
    | some o1 =>
      simp only [h1, Option.bind_some] at hcw
      have ha1 := chopStep_allLeft h1 ha
      have hr1 := chopStep_regular h1 ha hr
      exact ⟨chopStep_allLeft hcw ha1, chopStep_regular hcw ha1 hr1⟩
  · intro t0 w ht
    have htcs : Transmitted k pl cs t0 w := ⟨ht.1, fun c' hc' => ht.2 c' (List.mem_cons_of_mem _ hc')⟩
    obtain ⟨win, hwin, ho, hcl⟩ := ht.2 c (by simp)
    obtain ⟨sub1, hs1, hreg⟩ := hp.2 t0 w htcs
    simp only [Frame.propagateTo, List.mem_map] at hs1
    obtain ⟨sub0, h0, rfl⟩ := hs1
    obtain ⟨ha, _⟩ := hp.1 (shearPoly k (c.dist - f.dist) sub0)
      (by simp only [Frame.propagateTo, List.mem_map]; exact ⟨sub0, h0, rfl⟩)
    simp only [Frame.propagateTo] at hreg
    obtain ⟨o1, h1, hreg1⟩ := chopStep_region (c := win.1) (dir := true) ha hreg
      ((inside_true_iff _ _).2 ho)
    have ha1 := chopStep_allLeft h1 ha
    obtain ⟨o2, h2, hreg2⟩ := chopStep_region (c := win.2) (dir := false) ha1 hreg1
      ((inside_false_iff _ _).2 hcl)
    refine ⟨o2, (hmem o2).2 ⟨sub0, h0, win, hwin, ?_⟩, by rw [hdist]; exact hreg2⟩
    unfold chopWindow; rw [h1]; exact h2

theorem completeInv_of_reachFwd {k : Consts α} {pl : Pulse α} (hv : pl.Valid)
    (hκ : 0 ≤ k.mn / k.h * k.s) {f : Frame α} {cs : List (Chopper α)} (h : ReachFwd k pl f cs) :
    CompleteInv k pl f cs := by
  induction h with
  | source => exact completeInv_source k pl hv
  | prop d hd _ ih => exact completeInv_prop k pl hκ hd ih
  | chop _ hc ih => exact completeInv_chop k pl hκ ih hc

/-! ## `Subframe.is_regular` (the Boolean of the model) -/

theorem minOf_spec (a : α) (l : List α) : minOf a l ∈ a :: l ∧ ∀ x ∈ a :: l, minOf a l ≤ x := by
  induction l generalizing a with
  | nil => simp [minOf]
  | cons b l ih =>
    simp only [minOf, List.foldl_cons]
    split
    · rename_i hba
      obtain ⟨h1, h2⟩ := ih b
      refine ⟨?_, ?_⟩
      · exact List.mem_cons_of_mem _ h1
      · intro x hx
        rcases List.mem_cons.1 hx with rfl | hx
        · exact (h2 b (by simp)).trans hba
        · exact h2 x hx
    · rename_i hba
      obtain ⟨h1, h2⟩ := ih a
      refine ⟨?_, ?_⟩
      · rcases List.mem_cons.1 h1 with h | h
        · show minOf a l ∈ a :: b :: l
          rw [h]; simp
        · exact List.mem_cons_of_mem _ (List.mem_cons_of_mem _ h)
      · intro x hx
        rcases List.mem_cons.1 hx with rfl | hx
        · exact h2 x (by simp)
        · rcases List.mem_cons.1 hx with rfl | hx
          · exact (h2 a (by simp)).trans (le_of_lt (not_le.1 hba))
          · exact h2 x (List.mem_cons_of_mem _ hx)

theorem maxOf_spec (a : α) (l : List α) : maxOf a l ∈ a :: l ∧ ∀ x ∈ a :: l, x ≤ maxOf a l := by
  induction l generalizing a with
  | nil => simp [maxOf]
  | cons b l ih =>
    simp only [maxOf, List.foldl_cons]
    split
    · rename_i hab
      obtain ⟨h1, h2⟩ := ih b
      refine ⟨List.mem_cons_of_mem _ h1, ?_⟩
      intro x hx
      rcases List.mem_cons.1 hx with rfl | hx
      · exact hab.trans (h2 b (by simp))
      · exact h2 x hx
    · rename_i hab
      obtain ⟨h1, h2⟩ := ih a
      refine ⟨?_, ?_⟩
      · rcases List.mem_cons.1 h1 with h | h
        · show maxOf a l ∈ a :: b :: l
          rw [h]; simp
        · exact List.mem_cons_of_mem _ (List.mem_cons_of_mem _ h)
      · intro x hx
        rcases List.mem_cons.1 hx with rfl | hx
        · exact h2 x (by simp)
        · rcases List.mem_cons.1 hx with rfl | hx
          · exact (le_of_lt (not_le.1 hab)).trans (h2 a (by simp))
          · exact h2 x (List.mem_cons_of_mem _ hx)

theorem eqv_iff (a b : α) : eqv a b = true ↔ a = b := by
  simp only [eqv, Bool.and_eq_true, decide_eq_true_eq]
  exact ⟨fun h => le_antisymm h.1 h.2, fun h => by subst h; exact ⟨le_refl _, le_refl _⟩⟩

/-- the Boolean `Subframe.is_regular` of the model decides `Regular` -/
theorem isRegular_iff (poly : Poly α) : isRegular poly = true ↔ Regular poly := by
  cases poly with
  | nil =>
    simp only [isRegular, Regular, IsExt]
    constructor
    · intro h; cases h
    · rintro ⟨⟨m, hm, _⟩, _⟩; simp at hm
  | cons v l =>
    obtain ⟨tm1, tm2⟩ := minOf_spec v.1 (l.map (·.1))
    obtain ⟨wm1, wm2⟩ := minOf_spec v.2 (l.map (·.2))
    obtain ⟨tM1, tM2⟩ := maxOf_spec v.1 (l.map (·.1))
    obtain ⟨wM1, wM2⟩ := maxOf_spec v.2 (l.map (·.2))
    have hmap1 : ∀ u ∈ v :: l, u.1 ∈ v.1 :: l.map (·.1) := by
      intro u hu
      rcases List.mem_cons.1 hu with rfl | hu
      · simp
      · exact List.mem_cons_of_mem _ (List.mem_map_of_mem hu)
    have hmap2 : ∀ u ∈ v :: l, u.2 ∈ v.2 :: l.map (·.2) := by
      intro u hu
      rcases List.mem_cons.1 hu with rfl | hu
      · simp
      · exact List.mem_cons_of_mem _ (List.mem_map_of_mem hu)
    have hex1 : ∀ y ∈ v.1 :: l.map (·.1), ∃ u ∈ v :: l, u.1 = y := by
      intro y hy
      rcases List.mem_cons.1 hy with rfl | hy
      · exact ⟨v, by simp, rfl⟩
      · obtain ⟨u, hu, rfl⟩ := List.mem_map.1 hy
        exact ⟨u, List.mem_cons_of_mem _ hu, rfl⟩
    have hex2 : ∀ y ∈ v.2 :: l.map (·.2), ∃ u ∈ v :: l, u.2 = y := by
      intro y hy
      rcases List.mem_cons.1 hy with rfl | hy
      · exact ⟨v, by simp, rfl⟩
      · obtain ⟨u, hu, rfl⟩ := List.mem_map.1 hy
        exact ⟨u, List.mem_cons_of_mem _ hu, rfl⟩
    simp only [isRegular, Bool.and_eq_true, List.any_eq_true, eqv_iff]
    constructor
    · rintro ⟨⟨m, hm, hm1, hm2⟩, ⟨M, hM, hM1, hM2⟩⟩
      refine ⟨⟨m, (isExt_true_iff _ _).2 ⟨hm, fun u hu => ?_⟩⟩, ⟨M, (isExt_false_iff _ _).2 ⟨hM, fun u hu => ?_⟩⟩⟩
      · rw [hm1, hm2]; exact ⟨tm2 _ (hmap1 u hu), wm2 _ (hmap2 u hu)⟩
      · rw [hM1, hM2]; exact ⟨tM2 _ (hmap1 u hu), wM2 _ (hmap2 u hu)⟩
    · rintro ⟨⟨m, hm⟩, ⟨M, hM⟩⟩
      rw [isExt_true_iff] at hm
      rw [isExt_false_iff] at hM
      refine ⟨⟨m, hm.1, ?_, ?_⟩, ⟨M, hM.1, ?_, ?_⟩⟩
      · obtain ⟨u, hu, hu1⟩ := hex1 _ tm1
        exact le_antisymm (hu1 ▸ (hm.2 u hu).1) (tm2 _ (hmap1 m hm.1))
      · obtain ⟨u, hu, hu1⟩ := hex2 _ wm1
        exact le_antisymm (hu1 ▸ (hm.2 u hu).2) (wm2 _ (hmap2 m hm.1))
      · obtain ⟨u, hu, hu1⟩ := hex1 _ tM1
        exact le_antisymm (tM2 _ (hmap1 M hM.1)) (hu1 ▸ (hM.2 u hu).1)
      · obtain ⟨u, hu, hu1⟩ := hex2 _ wM1
        exact le_antisymm (wM2 _ (hmap2 M hM.1)) (hu1 ▸ (hM.2 u hu).2)

end ScnVerif.Cascade
