import ScnVerif.Lemmas.CascadeRegular
/-!
# The region of a cycle is contained in its convex hull

For a point `x` on the inner side of every edge and inside the bounding box of a regular cycle, the
vertical line `t = x.1` enters and leaves the cycle through two edges; `x` lies between the two
crossing points, which are in the hull.
-/
set_option linter.unusedSectionVars false
namespace ScnVerif.Cascade
variable {α : Type} [Field α] [LinearOrder α] [IsStrictOrderedRing α]

theorem hull_between {poly : Poly α} {Y X x : Vtx α} (hY : Hull poly Y) (hX : Hull poly X)
    (hY1 : Y.1 = x.1) (hX1 : X.1 = x.1) (h1 : Y.2 ≤ x.2) (h2 : x.2 ≤ X.2) : Hull poly x := by
  by_cases he : X.2 = Y.2
  · have : x = Y := Prod.ext hY1.symm (le_antisymm (he ▸ h2) h1)
    rw [this]; exact hY
  · have hd : 0 < X.2 - Y.2 := by
      rcases lt_or_gt_of_ne he with h | h
      · exact absurd (h1.trans h2) (not_le.2 h)
      · linarith
    have hx : x = cmb ((x.2 - Y.2) / (X.2 - Y.2)) Y X := by
      apply Prod.ext
      · simp only [cmb, hY1, hX1]; ring
      · simp only [cmb]; field_simp; ring
    rw [hx]
    exact Hull.seg hY hX (div_nonneg (by linarith) hd.le) (by rw [div_le_one hd]; linarith)

/-- crossing point of an edge entering the half-plane (`e.1` outside, `e.2` inside) with the clip
line through `x`: in the hull, on the line, and `x` is on its inner side in wavelength -/
theorem entry_point {c : α} {dir : Bool} {poly : Poly α} {e : Vtx α × Vtx α} (he : e ∈ cycPairs poly)
    (hp : inside c dir e.1.1 = false) (hq : inside c dir e.2.1 = true) {x : Vtx α} (hx : LeftOf e x)
    (hxc : x.1 = c) :
    ∃ Y, Hull poly Y ∧ Y.1 = c ∧ 0 ≤ sg dir * (x.2 - Y.2) := by
  have hd : inside c dir e.1.1 ≠ inside c dir e.2.1 := by rw [hp, hq]; decide
  obtain ⟨hne, h0, h1⟩ := lam_bounds hd
  have hm := mem_of_mem_cycPairs he
  have hY1 : (cmb (lam c e.1 e.2) e.1 e.2).1 = c := by rw [← interp_eq_cmb c _ _ hne]; rfl
  refine ⟨_, Hull.seg (Hull.vertex hm.1) (Hull.vertex hm.2) h0 h1, hY1, ?_⟩
  unfold LeftOf at hx
  rw [cross_via e.1 e.2 x (lam c e.1 e.2), hY1, hxc] at hx
  simp only [sub_self, mul_zero, sub_zero] at hx
  rw [not_inside_iff_sg] at hp
  rw [inside_iff_sg] at hq
  set u := x.2 - (cmb (lam c e.1 e.2) e.1 e.2).2
  have hA : 0 < sg dir * (e.2.1 - e.1.1) := by
    have : sg dir * (e.2.1 - e.1.1) = sg dir * (e.2.1 - c) - sg dir * (e.1.1 - c) := by ring
    rw [this]; linarith
  have hs := sg_mul_self (α := α) dir
  have : sg dir * (e.2.1 - e.1.1) * (sg dir * u) = (sg dir * sg dir) * ((e.2.1 - e.1.1) * u) := by ring
  rw [hs, one_mul] at this
  by_contra hn
  have := mul_neg_of_pos_of_neg hA (not_le.1 hn)
  linarith

/-- the same for an edge leaving the half-plane -/
theorem exit_point {c : α} {dir : Bool} {poly : Poly α} {e : Vtx α × Vtx α} (he : e ∈ cycPairs poly)
    (hp : inside c dir e.1.1 = true) (hq : inside c dir e.2.1 = false) {x : Vtx α} (hx : LeftOf e x)
    (hxc : x.1 = c) :
    ∃ X, Hull poly X ∧ X.1 = c ∧ 0 ≤ sg dir * (X.2 - x.2) := by
  have hd : inside c dir e.1.1 ≠ inside c dir e.2.1 := by rw [hp, hq]; decide
  obtain ⟨hne, h0, h1⟩ := lam_bounds hd
  have hm := mem_of_mem_cycPairs he
  have hY1 : (cmb (lam c e.1 e.2) e.1 e.2).1 = c := by rw [← interp_eq_cmb c _ _ hne]; rfl
  refine ⟨_, Hull.seg (Hull.vertex hm.1) (Hull.vertex hm.2) h0 h1, hY1, ?_⟩
  unfold LeftOf at hx
  rw [cross_via e.1 e.2 x (lam c e.1 e.2), hY1, hxc] at hx
  simp only [sub_self, mul_zero, sub_zero] at hx
  rw [inside_iff_sg] at hp
  rw [not_inside_iff_sg] at hq
  set u := x.2 - (cmb (lam c e.1 e.2) e.1 e.2).2
  have hA : sg dir * (e.2.1 - e.1.1) < 0 := by
    have : sg dir * (e.2.1 - e.1.1) = sg dir * (e.2.1 - c) - sg dir * (e.1.1 - c) := by ring
    rw [this]; linarith
  have hs := sg_mul_self (α := α) dir
  have : sg dir * (e.2.1 - e.1.1) * (sg dir * u) = (sg dir * sg dir) * ((e.2.1 - e.1.1) * u) := by ring
  rw [hs, one_mul] at this
  have hu : sg dir * u ≤ 0 := by
    by_contra hn
    have := mul_neg_of_neg_of_pos hA (not_le.1 hn)
    linarith
  have e2 : sg dir * ((cmb (lam c e.1 e.2) e.1 e.2).2 - x.2) = -(sg dir * u) := by ring
  rw [e2]; linarith

/-- a point on the inner side of every edge whose clip line `t = x.1` separates an outside vertex
from an inside vertex is in the hull -/
theorem hull_of_leftAll_of_split {dir : Bool} {poly : Poly α} {x : Vtx α} (hl : LeftAll poly x)
    {a b : Vtx α} (ha : a ∈ poly) (hb : b ∈ poly) (hao : inside x.1 dir a.1 = false)
    (hbi : inside x.1 dir b.1 = true) : Hull poly x := by
  obtain ⟨e, he, hp, hq⟩ := cyc_switch (fun v : Vtx α => inside x.1 dir v.1) ha hb hao hbi
  obtain ⟨e', he', hp', hq'⟩ := cyc_switch (fun v : Vtx α => !inside x.1 dir v.1) hb ha
    (by simp [hbi]) (by simp [hao])
  simp only [Bool.not_eq_eq_eq_not, Bool.not_false, Bool.not_true] at hp' hq'
  obtain ⟨Y, hYh, hY1, hY2⟩ := entry_point he hp hq (hl e he) rfl
  obtain ⟨X, hXh, hX1, hX2⟩ := exit_point he' hp' hq' (hl e' he') rfl
  cases dir
  · simp only [sg, Bool.false_eq_true, if_false] at hY2 hX2
    exact hull_between hXh hYh hX1 hY1 (by linarith) (by linarith)
  · simp only [sg, if_true] at hY2 hX2
    exact hull_between hYh hXh hY1 hX1 (by linarith) (by linarith)

/-- **the region of a cycle is inside its convex hull** -/
theorem region_subset_hull {poly : Poly α} {x : Vtx α} (h : Region poly x) : Hull poly x := by
  obtain ⟨hl, ⟨m, hm, hm1, hm2⟩, ⟨M, hM, hM1, hM2⟩⟩ := h
  simp only [sg, if_true, one_mul, Bool.false_eq_true, if_false] at hm1 hm2 hM1 hM2
  by_cases h1 : ∃ a ∈ poly, a.1 < x.1
  · obtain ⟨a, ha, hlt⟩ := h1
    exact hull_of_leftAll_of_split (dir := true) hl ha hM.1
      (by simp [inside, hlt]) (by simp only [inside, if_true, decide_eq_true_eq]; linarith)
  · by_cases h2 : ∃ a ∈ poly, x.1 < a.1
    · obtain ⟨a, ha, hlt⟩ := h2
      exact hull_of_leftAll_of_split (dir := false) hl ha hm.1
        (by simp [inside, hlt]) (by simp only [inside, Bool.false_eq_true, if_false, decide_eq_true_eq]; linarith)
    · have hall : ∀ v ∈ poly, v.1 = x.1 := by
        intro v hv
        apply le_antisymm
        · by_contra hn; exact h2 ⟨v, hv, not_le.1 hn⟩
        · by_contra hn; exact h1 ⟨v, hv, not_le.1 hn⟩
      exact hull_between (Hull.vertex hm.1) (Hull.vertex hM.1) (hall m hm.1) (hall M hM.1)
        (by linarith) (by linarith)

end ScnVerif.Cascade
