import ScnVerif.Model.Gravity
import ScnVerif.Lemmas.Beamline
import Mathlib.Tactic.LinearCombination
import Mathlib.Analysis.Complex.Norm
/-!
Helper lemmas for C04: the `ℝ` instances the gravity model needs, orthonormal frames built from a
unit pair by a cross product, Parseval in such a frame, and `atan2(r, z) = arccos(z/√(z²+r²))`.
-/
namespace ScnVerif

noncomputable instance : Gravity.HasAbs ℝ := ⟨fun x => |x|⟩
@[simp] theorem hasAbs_real (x : ℝ) : Gravity.HasAbs.abs x = |x| := rfl

namespace V3R
open ScnVerif Real

theorem dot_add_left (a b c : V3 ℝ) : V3.dot (V3.add a b) c = V3.dot a c + V3.dot b c := by
  simp only [V3.dot, V3.add]; ring
theorem dot_add_right (a b c : V3 ℝ) : V3.dot a (V3.add b c) = V3.dot a b + V3.dot a c := by
  simp only [V3.dot, V3.add]; ring
theorem dot_sub_left (a b c : V3 ℝ) : V3.dot (V3.sub a b) c = V3.dot a c - V3.dot b c := by
  simp only [V3.dot, V3.sub]; ring
theorem dot_smul_left (k : ℝ) (a b : V3 ℝ) : V3.dot (V3.smul k a) b = k * V3.dot a b := by
  simp only [V3.dot, V3.smul]; ring
theorem dot_smul_right (k : ℝ) (a b : V3 ℝ) : V3.dot a (V3.smul k b) = k * V3.dot a b := by
  simp only [V3.dot, V3.smul]; ring
theorem dot_sdiv_left (a b : V3 ℝ) (k : ℝ) : V3.dot (V3.sdiv a k) b = V3.dot a b / k := by
  simp only [V3.dot, V3.sdiv]; ring
theorem dot_sdiv_right (a b : V3 ℝ) (k : ℝ) : V3.dot a (V3.sdiv b k) = V3.dot a b / k := by
  simp only [V3.dot, V3.sdiv]; ring

theorem dot_cross_self_left (a b : V3 ℝ) : V3.dot (V3.cross a b) a = 0 := by
  simp only [V3.dot, V3.cross]; ring
theorem dot_cross_self_right (a b : V3 ℝ) : V3.dot (V3.cross a b) b = 0 := by
  simp only [V3.dot, V3.cross]; ring

/-- `(a × b) × a = b (a·a) − a (a·b)` -/
theorem cross_cross_left (a b : V3 ℝ) :
    V3.cross (V3.cross a b) a = V3.sub (V3.smul (V3.dot a a) b) (V3.smul (V3.dot a b) a) := by
  simp only [V3.cross, V3.sub, V3.smul, V3.dot]; apply ext <;> ring

/-- Gram determinant: `(v·(a×b))² = det Gram(a, b, v)` -/
theorem gram (a b v : V3 ℝ) :
    V3.dot v (V3.cross a b) ^ 2 =
      V3.dot a a * V3.dot b b * V3.dot v v + 2 * V3.dot a b * V3.dot b v * V3.dot a v
        - V3.dot a a * V3.dot b v ^ 2 - V3.dot b b * V3.dot a v ^ 2 - V3.dot v v * V3.dot a b ^ 2 := by
  simp only [V3.dot, V3.cross]; ring

/-- a right-handed orthonormal frame `(ex, ey, ez)` -/
structure Orthonormal (ex ey ez : V3 ℝ) : Prop where
  xx : V3.dot ex ex = 1
  yy : V3.dot ey ey = 1
  zz : V3.dot ez ez = 1
  xy : V3.dot ex ey = 0
  xz : V3.dot ex ez = 0
  yz : V3.dot ey ez = 0
  /-- right-handed: `ex × ey = ez` -/
  rh : V3.cross ex ey = ez

/-- from an orthonormal pair `(ey, ez)`, `ex = ey × ez` completes a right-handed orthonormal frame -/
theorem orthonormal_of_pair {ey ez : V3 ℝ} (hy : V3.dot ey ey = 1) (hz : V3.dot ez ez = 1)
    (hyz : V3.dot ey ez = 0) : Orthonormal (V3.cross ey ez) ey ez := by
  refine ⟨?_, hy, hz, dot_cross_self_left _ _, dot_cross_self_right _ _, hyz, ?_⟩
  · have := lagrange ey ez
    rw [hy, hz, hyz] at this
    linarith
  · rw [cross_cross_left, hy, hyz]
    simp only [V3.sub, V3.smul]; apply ext <;> ring

/-- Parseval in a frame `(ey × ez, ey, ez)` -/
theorem parseval {ey ez : V3 ℝ} (hy : V3.dot ey ey = 1) (hz : V3.dot ez ez = 1)
    (hyz : V3.dot ey ez = 0) (v : V3 ℝ) :
    V3.dot v (V3.cross ey ez) ^ 2 + V3.dot v ey ^ 2 + V3.dot v ez ^ 2 = V3.dot v v := by
  have := gram ey ez v
  rw [hy, hz, hyz, dot_comm ey v, dot_comm ez v] at this
  linarith

/-- `atan2(r, z) = arccos(z / √(z² + r²))` for `r ≥ 0`, `(z, r) ≠ 0` -/
theorem arg_eq_arccos {z r : ℝ} (hr : 0 ≤ r) (h : z ≠ 0 ∨ r ≠ 0) :
    Complex.arg ⟨z, r⟩ = arccos (z / √(z ^ 2 + r ^ 2)) := by
  have hne : (⟨z, r⟩ : ℂ) ≠ 0 := by
    intro e
    have h1 : z = 0 := congrArg Complex.re e
    have h2 : r = 0 := congrArg Complex.im e
    rcases h with h | h
    · exact h h1
    · exact h h2
  rw [Complex.arg_of_im_nonneg_of_ne_zero hr hne, Complex.norm_eq_sqrt_sq_add_sq]

end V3R
end ScnVerif
