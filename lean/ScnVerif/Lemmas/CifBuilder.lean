import ScnVerif.Lemmas.Cif
/-!
# The high-level CIF builder: every reachable builder state saves to a document that reads back

`Lemmas/Cif.lean` proves the round trip for any block whose items satisfy `ItemOk`/`ItemShape`/`ItemDomP`.
This file shows that the block assembled by `CIF.save` (`Builder.block`: audit chunk, reducers,
authors and roles with their ids, then the content added by `with_beamline`,
`with_reduced_powder_data`, `with_powder_calibration`) satisfies those hypotheses for every builder
state reached by any chain of calls, given only hypotheses on the *string arguments* of the calls
(`CallOk`).  Generic in the character predicate `P` (see `Lemmas/Cif.lean`, "character sets").
-/
namespace ScnVerif.Cif

/-! ## strings supplied to the builder -/

/-- a supplied string the writer can represent: no carriage return, no line after the first beginning
with `;`, and only characters of `P` or non-ASCII code points -/
def StrOk (P : Nat → Bool) (s : Str) : Prop := 13 ∉ s ∧ Benign s ∧ DomP P s
instance (P : Nat → Bool) (s : Str) : Decidable (StrOk P s) := by unfold StrOk; infer_instance

theorem StrOk.value {P : Nat → Bool} {s : Str} (h : StrOk P s) : ValueOk (encodeNonAscii s) :=
  valueOk_of_raw s h.1 h.2.1

/-- text the writer itself supplies: printable ASCII without `;` -/
def Lit (t : Str) : Prop := ∀ c ∈ t, 32 ≤ c ∧ c ≤ 126 ∧ c ≠ 59
instance (t : Str) : Decidable (Lit t) := by unfold Lit; infer_instance

theorem textSafe_of_plain (ls : Bool) (t : Str) (h : Plain t) : textSafe ls t = true ∧ lastLs ls t = if t = [] then ls else false := by
  cases t with
  | nil => simp [textSafe, lastLs]
  | cons c r => simpa using textSafe_plain ls (c :: r) h (by simp)

theorem Lit.plain {t : Str} (h : Lit t) : Plain t := by
  intro c hc
  have := h c hc
  exact ⟨this.2.2, isEol_false_of (by omega) (by omega)⟩

theorem Lit.strOk {P : Nat → Bool} (hP : AcceptsPrintable P) {t : Str} (h : Lit t) : StrOk P t := by
  refine ⟨fun hm => ?_, (textSafe_of_plain false t h.plain).1, fun c hc => Or.inl (hP c (Or.inl ⟨(h c hc).1, (h c hc).2.1⟩))⟩
  have := h 13 hm; omega

/-- a literal prefix does not disturb a supplied string -/
theorem StrOk.lit_append {P : Nat → Bool} (hP : AcceptsPrintable P) {a s : Str} (ha : Lit a) (hs : StrOk P s) :
    StrOk P (a ++ s) := by
  have hla := Lit.strOk hP ha
  refine ⟨?_, ?_, ?_⟩
  · intro hm; rcases List.mem_append.mp hm with h | h
    · exact hla.1 h
    · exact hs.1 h
  · unfold Benign
    rw [textSafe_append, (textSafe_of_plain false a ha.plain).1, (textSafe_of_plain false a ha.plain).2]
    simp only [Bool.true_and]
    split
    · exact hs.2.1
    · exact hs.2.1
  · intro c hc; rcases List.mem_append.mp hc with h | h
    · exact hla.2.2 c h
    · exact hs.2.2 c h

theorem natDigits_lit (fuel n : Nat) : Lit (natDigits fuel n) := by
  induction fuel generalizing n with
  | zero => intro c hc; simp [natDigits] at hc
  | succ f ih =>
    unfold natDigits
    split
    · intro c hc; simp at hc; subst hc; omega
    · intro c hc
      rcases List.mem_append.mp hc with h | h
      · exact ih _ c h
      · simp at h; subst h; omega

theorem natStr_lit (n : Nat) : Lit (natStr n) := natDigits_lit _ _

theorem DomP.mono {P Q : Nat → Bool} (h : ∀ c, P c = true → Q c = true) {t : Str} (ht : DomP P t) : DomP Q t :=
  fun c hc => (ht c hc).imp (h c) id

theorem DomC.mono {P Q : Nat → Bool} (h : ∀ c, P c = true → Q c = true) {t : Str} (ht : DomC P t) : DomC Q t :=
  fun c hc => (ht c hc).imp (h c) id

theorem StrOk.mono {P Q : Nat → Bool} (h : ∀ c, P c = true → Q c = true) {t : Str} (ht : StrOk P t) : StrOk Q t :=
  ⟨ht.1, ht.2.1, ht.2.2.mono h⟩

theorem printableNl_valid (c : Nat) (h : printableNl c = true) : validChar c = true := by
  simp only [printableNl, validChar, Bool.or_eq_true, Bool.and_eq_true, decide_eq_true_eq, beq_iff_eq] at *
  rcases h with (h | h) | h
  · exact Or.inl (Or.inl (Or.inl h))
  · exact Or.inl (Or.inl (Or.inr h))
  · exact Or.inl (Or.inr h)


/-! ## items assembled by the builder -/

/-- a tag the writer can emit -/
def KeyOk (P : Nat → Bool) (key : Str) : Prop := TagOk key ∧ All P key

theorem keyOk_lit {P : Nat → Bool} (hP : AcceptsPrintable P) {key : Str} (h1 : TagOk key) (h2 : Printable10 key) :
    KeyOk P key := ⟨h1, All.lit hP h2⟩

structure Consts.Ok (P : Nat → Bool) (k : Consts) : Prop where
  core : SchemaOk k.core ∧ SchemaDomP P k.core
  pd : SchemaOk k.pd ∧ SchemaDomP P k.pd
  version : StrOk P k.version

/-- everything the round-trip theorems need from an item of a builder document -/
structure ItemGood (P : Nat → Bool) (k : Consts) (it : Item) : Prop where
  ok : ItemOk it
  dom : ItemDomP P it
  shape : ItemShape it
  schema : ∀ s ∈ it.schema k.core, s = k.core ∨ s = k.pd

theorem schema_single (core s : Schema) : ∀ x ∈ preprocessSchema core (some [s]), x = s ∨ x = core := by
  intro x hx
  simp only [preprocessSchema] at hx
  have := List.mem_eraseDups.mp hx
  simpa using this

theorem chunk_good {P : Nat → Bool} (k : Consts) (comment : Str) (pairs : List (Str × Str)) (s : Schema)
    (hs : s = k.core ∨ s = k.pd) (hc : DomC P comment)
    (hp : ∀ kv ∈ pairs, KeyOk P kv.1 ∧ StrOk P kv.2) : ItemGood P k (.chunk ⟨comment, pairs, some [s]⟩) where
  ok := fun kv hkv => ⟨(hp kv hkv).1.1, (hp kv hkv).2.value⟩
  dom := ⟨hc, fun kv hkv => ⟨(hp kv hkv).1.2, (hp kv hkv).2.2.2⟩⟩
  shape := trivial
  schema := fun x hx => by
    rcases schema_single k.core s x hx with rfl | rfl
    · exact hs
    · exact Or.inl rfl

theorem loop_good {P : Nat → Bool} (k : Consts) (comment : Str) (cols : List (Str × List Str)) (s : Schema) (n : Nat)
    (hs : s = k.core ∨ s = k.pd) (hc : DomC P comment) (hne : cols ≠ []) (hn : 1 ≤ n)
    (hcol : ∀ c ∈ cols, KeyOk P c.1 ∧ c.2.length = n ∧ ∀ v ∈ c.2, StrOk P v) :
    ItemGood P k (.loop ⟨comment, cols, some [s]⟩) where
  ok := fun c hc' => ⟨(hcol c hc').1.1, fun v hv => ((hcol c hc').2.2 v hv).value⟩
  dom := ⟨hc, fun c hc' => ⟨(hcol c hc').1.2, fun v hv => ((hcol c hc').2.2 v hv).2.2⟩⟩
  shape := loopShape_of_rect _ n ⟨hne, hn, fun c hc' => (hcol c hc').2.1⟩
  schema := fun x hx => by
    rcases schema_single k.core s x hx with rfl | rfl
    · exact hs
    · exact Or.inl rfl

/-! ### audit -/

theorem lit_written_by : Lit (ofString "Written by scippneutron ") := by decide

theorem audit_good {P : Nat → Bool} (hP : AcceptsPrintable P) (k : Consts) (hk : k.Ok P) (date : Str) (hd : StrOk P date)
    (reducers : List Str) (hr : ∀ r ∈ reducers, StrOk P r) :
    ∀ it ∈ auditItems k date reducers, ItemGood P k it := by
  have hpairs : ∀ kv ∈ [(ofString "audit.creation_date", date),
      (ofString "audit.creation_method", ofString "Written by scippneutron " ++ k.version)], KeyOk P kv.1 ∧ StrOk P kv.2 := by
    intro kv hkv
    simp only [List.mem_cons, List.not_mem_nil, or_false] at hkv
    rcases hkv with rfl | rfl
    · exact ⟨keyOk_lit hP (key := ofString "audit.creation_date") (by decide) (by decide), hd⟩
    · exact ⟨keyOk_lit hP (key := ofString "audit.creation_method") (by decide) (by decide),
        StrOk.lit_append hP lit_written_by hk.version⟩
  have hdom0 : DomC P [] := fun c hc => by simp at hc
  intro it hit
  match reducers, hr with
  | [], _ =>
    simp only [auditItems, List.mem_singleton] at hit; subst hit
    exact chunk_good k [] _ k.core (Or.inl rfl) hdom0 hpairs
  | [r], hr =>
    simp only [auditItems, List.mem_singleton] at hit; subst hit
    refine chunk_good k [] _ k.core (Or.inl rfl) hdom0 ?_
    intro kv hkv
    rcases List.mem_append.mp hkv with h | h
    · exact hpairs kv h
    · simp only [List.mem_singleton] at h; subst h
      exact ⟨keyOk_lit hP (key := ofString "computing.diffrn_reduction") (by decide) (by decide), hr r (by simp)⟩
  | r1 :: r2 :: rs, hr =>
    simp only [auditItems, List.mem_cons, List.not_mem_nil, or_false] at hit
    rcases hit with rfl | rfl
    · exact chunk_good k [] _ k.core (Or.inl rfl) hdom0 hpairs
    · refine loop_good k [] _ k.core (rs.length + 2) (Or.inl rfl) hdom0 (by simp) (by omega) ?_
      intro c hc
      simp only [List.mem_singleton] at hc; subst hc
      exact ⟨keyOk_lit hP (key := ofString "computing.diffrn_reduction") (by decide) (by decide), by simp, hr⟩


/-! ### authors and roles -/

structure PersonOk (P : Nat → Bool) (a : Person) : Prop where
  nameNe : a.name ≠ []
  name : StrOk P a.name
  email : StrOk P a.email
  address : StrOk P a.address
  orcid : StrOk P a.orcid
  role : StrOk P a.role

def CatOk (category : String) : Prop :=
  ∀ key ∈ ["name", "email", "address", "id_orcid", "id"],
    TagOk (catKey category key) ∧ Printable10 (catKey category key)
instance (c : String) : Decidable (CatOk c) := by unfold CatOk; infer_instance

theorem catOk_contact : CatOk "audit_contact_author" := by decide
theorem catOk_author : CatOk "audit_author" := by decide

theorem idColumn_cases (ids : List (Nat × Person)) : idColumn ids = [] ∨ idColumn ids = ids.map (·.1) := by
  unfold idColumn; split
  · exact Or.inr rfl
  · exact Or.inl rfl

theorem numberFrom_snd (n : Nat) (l : List Person) : (numberFrom n l).map (·.2) = l := by
  induction l generalizing n with
  | nil => rfl
  | cons a as ih => simp [numberFrom, ih]

theorem serializeAuthors_good {P : Nat → Bool} (hP : AcceptsPrintable P) (k : Consts) (category : String)
    (hcat : CatOk category) (ids : List (Nat × Person)) (hne : ids ≠ []) (hp : ∀ p ∈ ids, PersonOk P p.2) :
    ItemGood P k (serializeAuthors k.core category ids) := by
  have hkey : ∀ key ∈ ["name", "email", "address", "id_orcid", "id"], KeyOk P (catKey category key) :=
    fun key hk => keyOk_lit hP (hcat key hk).1 (hcat key hk).2
  have hdom0 : DomC P [] := fun c hc => by simp at hc
  -- the columns
  let authors := ids.map (·.2)
  let base : List (Str × List Str) :=
    [(catKey category "name", authors.map (·.name)), (catKey category "email", authors.map (·.email)),
     (catKey category "address", authors.map (·.address)), (catKey category "id_orcid", authors.map (·.orcid))]
  let cols := base.filter (fun c => c.2.any (!·.isEmpty))
      ++ (match idColumn ids with | [] => [] | col => [(catKey category "id", col.map natStr)])
  have hbase : ∀ c ∈ base, KeyOk P c.1 ∧ c.2.length = ids.length ∧ ∀ v ∈ c.2, StrOk P v := by
    intro c hc
    simp only [base, List.mem_cons, List.not_mem_nil, or_false] at hc
    have hmem : ∀ (f : Person → Str), (∀ p ∈ ids, StrOk P (f p.2)) → ∀ v ∈ authors.map f, StrOk P v := by
      intro f hf v hv
      simp only [authors, List.map_map, List.mem_map, Function.comp] at hv
      obtain ⟨p, hp', rfl⟩ := hv
      exact hf p hp'
    rcases hc with rfl | rfl | rfl | rfl
    · exact ⟨hkey _ (by simp), by simp [authors], hmem _ (fun p h => (hp p h).name)⟩
    · exact ⟨hkey _ (by simp), by simp [authors], hmem _ (fun p h => (hp p h).email)⟩
    · exact ⟨hkey _ (by simp), by simp [authors], hmem _ (fun p h => (hp p h).address)⟩
    · exact ⟨hkey _ (by simp), by simp [authors], hmem _ (fun p h => (hp p h).orcid)⟩
  have hcols : ∀ c ∈ cols, KeyOk P c.1 ∧ c.2.length = ids.length ∧ ∀ v ∈ c.2, StrOk P v := by
    intro c hc
    rcases List.mem_append.mp hc with h | h
    · exact hbase c (List.mem_filter.mp h).1
    · cases hid : idColumn ids with
      | nil => simp [hid] at h
      | cons i is =>
        simp only [hid, List.mem_singleton] at h
        subst h
        have hlen : (i :: is).length = ids.length := by
          rcases idColumn_cases ids with h0 | h1
          · simp [h0] at hid
          · rw [← hid, h1]; simp
        refine ⟨hkey _ (by simp), by simpa using hlen, ?_⟩
        intro v hv
        simp only [List.mem_map] at hv
        obtain ⟨j, _, rfl⟩ := hv
        exact Lit.strOk hP (natStr_lit j)
  have hcolsne : cols ≠ [] := by
    obtain ⟨p, ps, rfl⟩ := List.exists_cons_of_ne_nil hne
    have hn : (p.2.name).isEmpty = false := by
      have := (hp p (by simp)).nameNe
      cases hnm : p.2.name with
      | nil => exact absurd hnm this
      | cons _ _ => rfl
    have : (catKey category "name", authors.map (·.name)) ∈ base.filter (fun c => c.2.any (!·.isEmpty)) := by
      refine List.mem_filter.mpr ⟨by simp [base], ?_⟩
      simp [authors, hn]
    intro he
    have h0 := (List.append_eq_nil_iff.mp he).1
    rw [h0] at this
    simp at this
  have hlenpos : 1 ≤ ids.length := List.length_pos_iff.mpr hne
  show ItemGood P k (if authors.length = 1 then
      Item.chunk ⟨[], cols.map (fun c => (c.1, c.2.headD [])), some [k.core]⟩ else Item.loop ⟨[], cols, some [k.core]⟩)
  split
  · rename_i h1
    refine chunk_good k [] _ k.core (Or.inl rfl) hdom0 ?_
    intro kv hkv
    simp only [List.mem_map] at hkv
    obtain ⟨c, hc, rfl⟩ := hkv
    obtain ⟨hk, hl, hv⟩ := hcols c hc
    refine ⟨hk, ?_⟩
    cases hc2 : c.2 with
    | nil => simp [hc2] at hl; omega
    | cons v vs => exact hv v (by simp [hc2])
  · exact loop_good k [] cols k.core ids.length (Or.inl rfl) hdom0 hcolsne hlenpos hcols

theorem serializeRoles_good {P : Nat → Bool} (hP : AcceptsPrintable P) (k : Consts) (roles : List (Nat × Str))
    (hne : roles ≠ []) (hr : ∀ r ∈ roles, StrOk P r.2) : ItemGood P k (serializeRoles k.core roles) := by
  refine loop_good k [] _ k.core roles.length (Or.inl rfl) (fun c hc => by simp at hc) (by simp)
    (List.length_pos_iff.mpr hne) ?_
  intro c hc
  simp only [List.mem_cons, List.not_mem_nil, or_false] at hc
  rcases hc with rfl | rfl
  · refine ⟨keyOk_lit hP (key := ofString "audit_author_role.id") (by decide) (by decide), by simp, ?_⟩
    intro v hv
    simp only [List.mem_map] at hv
    obtain ⟨r, _, rfl⟩ := hv
    exact Lit.strOk hP (natStr_lit r.1)
  · refine ⟨keyOk_lit hP (key := ofString "audit_author_role.role") (by decide) (by decide), by simp, ?_⟩
    intro v hv
    simp only [List.mem_map] at hv
    obtain ⟨r, hr', rfl⟩ := hv
    exact hr r hr'

theorem rolesOf_ok {P : Nat → Bool} (ids : List (Nat × Person)) (hp : ∀ p ∈ ids, PersonOk P p.2) :
    ∀ r ∈ rolesOf ids, StrOk P r.2 := by
  intro r hr
  simp only [rolesOf, List.mem_map, List.mem_filter] at hr
  obtain ⟨p, ⟨hp', _⟩, rfl⟩ := hr
  exact (hp p hp').role

theorem numberFrom_ok {P : Nat → Bool} (n : Nat) (l : List Person) (h : ∀ a ∈ l, PersonOk P a) :
    ∀ p ∈ numberFrom n l, PersonOk P p.2 := by
  intro p hp
  have : p.2 ∈ (numberFrom n l).map (·.2) := List.mem_map_of_mem hp
  rw [numberFrom_snd] at this
  exact h _ this

theorem assembleAuthors_good {P : Nat → Bool} (hP : AcceptsPrintable P) (k : Consts) (authors : List Person)
    (ha : ∀ a ∈ authors, PersonOk P a) (n : Nat) : ∀ it ∈ assembleAuthors k.core authors n, ItemGood P k it := by
  intro it hit
  unfold assembleAuthors at hit
  have hc : ∀ p ∈ (assignIds authors n).contact, PersonOk P p.2 :=
    numberFrom_ok _ _ (fun a h => ha a (List.mem_filter.mp h).1)
  have hr : ∀ p ∈ (assignIds authors n).regular, PersonOk P p.2 :=
    numberFrom_ok _ _ (fun a h => ha a (List.mem_filter.mp h).1)
  simp only [List.mem_append] at hit
  rcases hit with (h | h) | h
  · split at h
    · simp at h
    · rename_i hne
      simp only [List.mem_singleton] at h; subst h
      exact serializeAuthors_good hP k _ catOk_contact _ (by simpa using hne) hc
  · split at h
    · simp at h
    · rename_i hne
      simp only [List.mem_singleton] at h; subst h
      exact serializeAuthors_good hP k _ catOk_author _ (by simpa using hne) hr
  · split at h
    · simp at h
    · rename_i roles hne
      simp only [List.mem_singleton] at h; subst h
      refine serializeRoles_good hP k _ (by simpa using hne) ?_
      intro r hr'
      rcases List.mem_append.mp hr' with h1 | h1
      · exact rolesOf_ok _ hc r h1
      · exact rolesOf_ok _ hr r h1

def coordNames : List Str := [ofString "pd_meas.time_of_flight", ofString "pd_proc.d_spacing"]
def dataNames : List Str :=
  [ofString "pd_proc.intensity_net", ofString "pd_proc.intensity_norm", ofString "pd_proc.intensity_total"]

theorem powderNames_mem (d : PowderData) (cn dn : Str) (h : powderNames d = .ok (cn, dn)) :
    cn ∈ coordNames ∧ dn ∈ dataNames := by
  unfold powderNames at h
  simp only [bind, Except.bind, pure, Except.pure, throw, throwThe, MonadExceptOf.throw] at h
  repeat' (split at h)
  all_goals (try (simp at h))
  all_goals (
    rename_i hname
    obtain ⟨rfl, rfl⟩ := h
    refine ⟨by decide, ?_⟩
    first
      | decide
      | (have hname' : (d.name = ofString "intensity_net" ∨ d.name = ofString "intensity_norm")
            ∨ d.name = ofString "intensity_total" := by
          have hh : ¬d.name = ofString "intensity_net" → ¬d.name = ofString "intensity_norm" →
              d.name = ofString "intensity_total" := by simpa [Bool.or_eq_true] using hname
          by_cases h1 : d.name = ofString "intensity_net"
          · exact Or.inl (Or.inl h1)
          · by_cases h2 : d.name = ofString "intensity_norm"
            · exact Or.inl (Or.inr h2)
            · exact Or.inr (hh h1 h2)
         rcases hname' with (hn | hn) | hn <;> rw [hn] <;> decide))


/-! ### reduced powder data, calibration, beamline -/

theorem DomP.append {P : Nat → Bool} {a b : Str} (ha : DomP P a) (hb : DomP P b) : DomP P (a ++ b) := by
  intro c hc; rcases List.mem_append.mp hc with h | h
  · exact ha c h
  · exact hb c h

theorem DomP.lit {P : Nat → Bool} (hP : AcceptsPrintable P) {t : Str} (h : Printable10 t) : DomP P t :=
  fun c hc => Or.inl (hP c (h c hc))

/-- what the harness hands over for `with_reduced_powder_data`: `n ≥ 1` rows of number tokens -/
structure PowderOk (P : Nat → Bool) (d : PowderData) (n : Nat) : Prop where
  rows : 1 ≤ n
  unit : DomP P d.dataUnit
  ids : d.pointIds.length = n ∧ ∀ v ∈ d.pointIds, StrOk P v
  coord : d.coord.length = n ∧ ∀ v ∈ d.coord, StrOk P v
  coordSu : ∀ su, d.coordSu = some su → su.length = n ∧ ∀ v ∈ su, StrOk P v
  values : d.values.length = n ∧ ∀ v ∈ d.values, StrOk P v
  valuesSu : ∀ su, d.valuesSu = some su → su.length = n ∧ ∀ v ∈ su, StrOk P v

theorem powder_keys : ∀ key ∈ coordNames ++ dataNames,
    TagOk key ∧ Printable10 key ∧ TagOk (suffixSu key) ∧ Printable10 (suffixSu key) := by decide

theorem DomC.append {P : Nat → Bool} {a b : Str} (ha : DomC P a) (hb : DomC P b) : DomC P (a ++ b) := by
  intro c hc; rcases List.mem_append.mp hc with h | h
  · exact ha c h
  · exact hb c h

theorem powderComment_dom {P : Nat → Bool} (hP : AcceptsPrintable P) (d : PowderData) (comment : Str)
    (hc : DomC P comment) (hu : DomP P d.dataUnit) : DomC P (powderComment d comment) := by
  unfold powderComment
  split
  · exact hc
  · refine ((DomC.append ?_ (DomP.lit hP (by decide)).toC).append hu.toC).append (DomP.lit hP (by decide)).toC
    split
    · exact fun c hc' => by simp at hc'
    · exact hc.append (DomP.lit hP (by decide)).toC

theorem powderLoop_good {P : Nat → Bool} (hP : AcceptsPrintable P) (k : Consts) (d : PowderData) (comment : Str)
    (n : Nat) (hd : PowderOk P d n) (hc : DomC P comment) (l : Loop) (h : reducedPowderLoop k d comment = .ok l) :
    ItemGood P k (.loop l) := by
  unfold reducedPowderLoop at h
  simp only [bind, Except.bind, pure, Except.pure] at h
  cases hn : powderNames d with
  | error e => simp [hn] at h
  | ok names =>
    obtain ⟨cn, dn⟩ := names
    simp only [hn, Except.ok.injEq] at h
    subst h
    obtain ⟨hcn, hdn⟩ := powderNames_mem d cn dn hn
    have kcn := powder_keys cn (List.mem_append_left _ hcn)
    have kdn := powder_keys dn (List.mem_append_right _ hdn)
    refine loop_good k _ _ k.pd n (Or.inr rfl) (powderComment_dom hP d comment hc hd.unit) (by simp [powderColumns]) hd.rows ?_
    intro c hc'
    simp only [powderColumns, List.mem_append, List.mem_cons, List.not_mem_nil, or_false] at hc'
    rcases hc' with (((rfl | rfl) | hc') | rfl) | hc'
    · exact ⟨keyOk_lit hP (key := ofString "pd_data.point_id") (by decide) (by decide), hd.ids.1, hd.ids.2⟩
    · exact ⟨keyOk_lit hP kcn.1 kcn.2.1, hd.coord.1, hd.coord.2⟩
    · cases hsu : d.coordSu with
      | none => simp [hsu] at hc'
      | some su =>
        simp only [hsu, List.mem_singleton] at hc'; subst hc'
        exact ⟨keyOk_lit hP kcn.2.2.1 kcn.2.2.2, (hd.coordSu su hsu).1, (hd.coordSu su hsu).2⟩
    · exact ⟨keyOk_lit hP kdn.1 kdn.2.1, hd.values.1, hd.values.2⟩
    · cases hsu : d.valuesSu with
      | none => simp [hsu] at hc'
      | some su =>
        simp only [hsu, List.mem_singleton] at hc'; subst hc'
        exact ⟨keyOk_lit hP kdn.2.2.1 kdn.2.2.2, (hd.valuesSu su hsu).1, (hd.valuesSu su hsu).2⟩

/-- the id of a calibration coefficient is as representable as the text of its power -/
theorem textSafe_map (f : Nat → Nat) (hf59 : ∀ c, f c = 59 → c = 59) (hfe : ∀ c, isEol (f c) = isEol c)
    (ls : Bool) (t : Str) (h : textSafe ls t = true) : textSafe ls (t.map f) = true := by
  induction t generalizing ls with
  | nil => rfl
  | cons c r ih =>
    rw [textSafe_cons] at h
    simp only [Bool.and_eq_true, Bool.not_eq_true', Bool.and_eq_false_iff, beq_eq_false_iff_ne] at h
    rw [List.map_cons, textSafe_cons, hfe, ih _ h.2]
    simp only [Bool.and_true, Bool.not_eq_true', Bool.and_eq_false_iff, beq_eq_false_iff_ne]
    rcases h.1 with h1 | h1
    · exact Or.inl (fun e => h1 (hf59 c e))
    · exact Or.inr h1

theorem calibId_ok {P : Nat → Bool} (hP : AcceptsPrintable P) (p : Str) (hp : StrOk P p) : StrOk P (calibId p) := by
  unfold calibId
  split
  · exact Lit.strOk hP (by decide)
  · split
    · exact Lit.strOk hP (by decide)
    · split
      · exact Lit.strOk hP (by decide)
      · split
        · exact Lit.strOk hP (by decide)
        · let f : Nat → Nat := fun c => if c = 45 ∨ c = 46 then 95 else c
          have hf : ∀ c, f c = 95 ∨ f c = c := by
            intro c; simp only [f]; split
            · exact Or.inl rfl
            · exact Or.inr rfl
          have hmap : StrOk P (p.map f) := by
            refine ⟨?_, ?_, ?_⟩
            · intro hm
              obtain ⟨c, hc, hfc⟩ := List.mem_map.mp hm
              rcases hf c with h | h
              · omega
              · exact hp.1 (by rw [h] at hfc; exact hfc ▸ hc)
            · refine textSafe_map f (fun c e => ?_) (fun c => ?_) false p hp.2.1
              · rcases hf c with h | h
                · omega
                · omega
              · simp only [f]; split
                · rename_i h; rcases h with rfl | rfl <;> rfl
                · rfl
            · intro c hc
              obtain ⟨c0, hc0, rfl⟩ := List.mem_map.mp hc
              rcases hf c0 with h | h
              · rw [h]; exact Or.inl (hP 95 (Or.inl (by omega)))
              · rw [h]; exact hp.2.2 c0 hc0
          exact StrOk.lit_append hP (a := [99]) (by decide) hmap

theorem calibLoop_good {P : Nat → Bool} (hP : AcceptsPrintable P) (k : Consts) (powers coeffs : List Str)
    (su : Option (List Str)) (comment : Str) (n : Nat) (hn : 1 ≤ n) (hc : DomC P comment)
    (hp : powers.length = n ∧ ∀ v ∈ powers, StrOk P v) (hco : coeffs.length = n ∧ ∀ v ∈ coeffs, StrOk P v)
    (hsu : ∀ s, su = some s → s.length = n ∧ ∀ v ∈ s, StrOk P v) :
    ItemGood P k (.loop (calibrationLoop k powers coeffs su comment)) := by
  refine loop_good k _ _ k.pd n (Or.inr rfl) hc (by simp) hn ?_
  intro c hc'
  simp only [List.mem_append, List.mem_cons, List.not_mem_nil, or_false] at hc'
  rcases hc' with (rfl | rfl | rfl) | hc'
  · refine ⟨keyOk_lit hP (key := ofString "pd_calib_d_to_tof.id") (by decide) (by decide), by simpa using hp.1, ?_⟩
    intro v hv
    obtain ⟨p, hpm, rfl⟩ := List.mem_map.mp hv
    exact calibId_ok hP p (hp.2 p hpm)
  · exact ⟨keyOk_lit hP (key := ofString "pd_calib_d_to_tof.power") (by decide) (by decide), hp.1, hp.2⟩
  · exact ⟨keyOk_lit hP (key := ofString "pd_calib_d_to_tof.coeff") (by decide) (by decide), hco.1, hco.2⟩
  · cases hs : su with
    | none => simp [hs] at hc'
    | some s =>
      simp only [hs, List.mem_singleton] at hc'; subst hc'
      exact ⟨keyOk_lit hP (key := ofString "pd_calib_d_to_tof.coeff_su") (by decide) (by decide), (hsu s hs).1, (hsu s hs).2⟩

theorem beamline_values_lit (facility : Option Str) (source : Option SourceType) :
    (∀ v, beamlineProbe facility source = some v → Lit v) ∧ (∀ v, beamlineDevice facility source = some v → Lit v) := by
  constructor <;> intro v hv <;> cases source with
  | none =>
    first
      | (simp only [beamlineProbe] at hv; split at hv <;> simp at hv; subst hv; decide)
      | (simp only [beamlineDevice] at hv; split at hv <;> simp at hv; subst hv; decide)
  | some s =>
    cases s <;> first
      | (simp only [beamlineProbe, Option.some.injEq] at hv; subst hv; decide)
      | (simp only [beamlineDevice, Option.some.injEq] at hv; subst hv; decide)

theorem beamline_good {P : Nat → Bool} (hP : AcceptsPrintable P) (k : Consts) (name : Str) (facility : Option Str)
    (source : Option SourceType) (comment : Str) (hn : StrOk P name) (hf : ∀ f, facility = some f → StrOk P f)
    (hc : DomC P comment) (pairs : List (Str × Str))
    (hpairs : pairs = ([(ofString "diffrn_radiation.probe", beamlineProbe facility source),
       (ofString "diffrn_source.beamline", some name), (ofString "diffrn_source.facility", facility),
       (ofString "diffrn_source.device", beamlineDevice facility source)] : List (Str × Option Str)).filterMap
         (fun f => f.2.map (fun v => (f.1, v)))) :
    ItemGood P k (.chunk ⟨comment, pairs, some [k.core]⟩) := by
  refine chunk_good k comment pairs k.core (Or.inl rfl) hc ?_
  intro kv hkv
  subst hpairs
  simp only [List.mem_filterMap, List.mem_cons, List.not_mem_nil, or_false, Option.map_eq_some_iff] at hkv
  obtain ⟨f, hf', v, hv, rfl⟩ := hkv
  obtain ⟨hprobe, hdev⟩ := beamline_values_lit facility source
  rcases hf' with rfl | rfl | rfl | rfl
  · exact ⟨keyOk_lit hP (key := ofString "diffrn_radiation.probe") (by decide) (by decide), Lit.strOk hP (hprobe v hv)⟩
  · simp only [Option.some.injEq] at hv; subst hv
    exact ⟨keyOk_lit hP (key := ofString "diffrn_source.beamline") (by decide) (by decide), hn⟩
  · exact ⟨keyOk_lit hP (key := ofString "diffrn_source.facility") (by decide) (by decide), hf v hv⟩
  · exact ⟨keyOk_lit hP (key := ofString "diffrn_source.device") (by decide) (by decide), Lit.strOk hP (hdev v hv)⟩


/-! ## builder states reached by any sequence of calls -/

/-- a block name the `name` setter accepts, not empty, without carriage return -/
structure NameArgOk (P : Nat → Bool) (n : Str) : Prop where
  check : (⟨n, [], [], none⟩ : Block).nameOk = true
  ne : n ≠ []
  cr : 13 ∉ n
  dom : DomP P n

structure BuilderOk (P : Nat → Bool) (k : Consts) (b : Builder) : Prop where
  name : NameArgOk P b.name
  comment : DomC P b.comment
  authors : ∀ a ∈ b.authors, PersonOk P a
  reducers : ∀ r ∈ b.reducers, StrOk P r
  content : ∀ it ∈ b.content, ItemGood P k it

/-- the hypothesis on the arguments of one builder call -/
def CallOk (P : Nat → Bool) : Call → Prop
  | .withAuthors ps => ∀ a ∈ ps, PersonOk P a
  | .withReducers rs => ∀ r ∈ rs, StrOk P r
  | .withBeamline n f _ c => StrOk P n ∧ (∀ x, f = some x → StrOk P x) ∧ DomC P c
  | .withReducedPowderData d c => (∃ n, PowderOk P d n) ∧ DomC P c
  | .withPowderCalibration p co su c => ∃ n, 1 ≤ n ∧ DomC P c ∧ (p.length = n ∧ ∀ v ∈ p, StrOk P v)
      ∧ (co.length = n ∧ ∀ v ∈ co, StrOk P v) ∧ (∀ s, su = some s → s.length = n ∧ ∀ v ∈ s, StrOk P v)
  | .copy => True
  | .setName n => NameArgOk P n
  | .setComment c => DomC P c
  | .save _ _ => True

theorem new_ok {P : Nat → Bool} (k : Consts) (name comment : Str) (hn : NameArgOk P name) (hc : DomC P comment) :
    BuilderOk P k (Builder.new name comment) :=
  ⟨hn, hc, fun a h => by simp [Builder.new] at h, fun a h => by simp [Builder.new] at h,
   fun a h => by simp [Builder.new] at h⟩

theorem apply_ok {P : Nat → Bool} (hP : AcceptsPrintable P) (k : Consts) (b : Builder) (hb : BuilderOk P k b)
    (c : Call) (hc : CallOk P c) : BuilderOk P k (b.apply k c) := by
  cases c with
  | withAuthors ps =>
    exact ⟨hb.name, hb.comment, fun a h => by
      simp only [Builder.apply, Builder.withAuthors, Builder.copy, List.mem_append] at h
      rcases h with h | h
      · exact hb.authors a h
      · exact hc a h, hb.reducers, hb.content⟩
  | withReducers rs =>
    exact ⟨hb.name, hb.comment, hb.authors, fun r h => by
      simp only [Builder.apply, Builder.withReducers, Builder.copy, List.mem_append] at h
      rcases h with h | h
      · exact hb.reducers r h
      · exact hc r h, hb.content⟩
  | withBeamline n f s cm =>
    obtain ⟨hn, hf, hcm⟩ := hc
    exact ⟨hb.name, hb.comment, hb.authors, hb.reducers, fun it h => by
      simp only [Builder.apply, Builder.withBeamline, Builder.copy, List.mem_append, List.mem_singleton] at h
      rcases h with h | h
      · exact hb.content it h
      · subst h; exact beamline_good hP k n f s cm hn hf hcm _ rfl⟩
  | withReducedPowderData d cm =>
    obtain ⟨⟨n, hd⟩, hcm⟩ := hc
    simp only [Builder.apply, Builder.withReducedPowderData, bind, Except.bind, pure, Except.pure]
    cases hl : reducedPowderLoop k d cm with
    | error e => exact hb
    | ok l =>
      exact ⟨hb.name, hb.comment, hb.authors, hb.reducers, fun it h => by
        simp only [List.mem_append, List.mem_singleton] at h
        rcases h with h | h
        · exact hb.content it h
        · subst h; exact powderLoop_good hP k d cm n hd hcm l hl⟩
  | withPowderCalibration p co su cm =>
    obtain ⟨n, hn, hcm, hp, hco, hsu⟩ := hc
    exact ⟨hb.name, hb.comment, hb.authors, hb.reducers, fun it h => by
      simp only [Builder.apply, Builder.withPowderCalibration, Builder.copy, List.mem_append, List.mem_singleton] at h
      rcases h with h | h
      · exact hb.content it h
      · subst h; exact calibLoop_good hP k p co su cm n hn hcm hp hco hsu⟩
  | copy => exact ⟨hb.name, hb.comment, hb.authors, hb.reducers, hb.content⟩
  | setName n => exact ⟨hc, hb.comment, hb.authors, hb.reducers, hb.content⟩
  | setComment cm => exact ⟨hb.name, hc, hb.authors, hb.reducers, hb.content⟩
  | save d p => exact ⟨hb.name, hb.comment, hb.authors, hb.reducers, hb.content⟩

theorem reach_ok {P : Nat → Bool} (hP : AcceptsPrintable P) (k : Consts) (calls : List Call) (b : Builder)
    (hb : BuilderOk P k b) (hc : ∀ c ∈ calls, CallOk P c) : BuilderOk P k (calls.foldl (Builder.apply k) b) := by
  induction calls generalizing b with
  | nil => exact hb
  | cons c cs ih =>
    exact ih _ (apply_ok hP k b hb c (hc c (by simp))) (fun x hx => hc x (by simp [hx]))

/-! ## the block assembled by `CIF.save` -/

theorem block_items_good {P : Nat → Bool} (hP : AcceptsPrintable P) (k : Consts) (hk : k.Ok P) (date : Str)
    (hd : StrOk P date) (b : Builder) (hb : BuilderOk P k b) : ∀ it ∈ (b.block k date).content, ItemGood P k it := by
  intro it hit
  simp only [Builder.block, List.mem_append] at hit
  rcases hit with (h | h) | h
  · exact audit_good hP k hk date hd b.reducers hb.reducers it h
  · exact assembleAuthors_good hP k b.authors hb.authors b.nextId it h
  · exact hb.content it h

theorem ordered_schemas {P : Nat → Bool} (k : Consts) (date : Str) (b : Builder) (perm : List Nat)
    (hitems : ∀ it ∈ (b.block k date).content, ItemGood P k it) :
    ∀ s ∈ orderedOf k.core (b.block k date) perm, s = k.core ∨ s = k.pd := by
  intro s hs
  simp only [orderedOf, List.mem_filterMap] at hs
  obtain ⟨i, _, hi⟩ := hs
  have hmem : s ∈ (b.block k date).schemaSet k.core := List.mem_of_getElem? hi
  simp only [Block.schemaSet] at hmem
  have := List.mem_eraseDups.mp hmem
  rcases List.mem_append.mp this with h | h
  · simp only [Builder.block, preprocessSchema, List.nil_append] at h
    have := List.mem_eraseDups.mp h
    simp only [List.mem_singleton] at this
    exact Or.inl this
  · obtain ⟨it, hit, hsit⟩ := List.mem_flatMap.mp h
    exact (hitems it hit).schema s hsit

theorem block_ok {P : Nat → Bool} (hP : AcceptsPrintable P) (k : Consts) (hk : k.Ok P) (date : Str)
    (hd : StrOk P date) (b : Builder) (hb : BuilderOk P k b) (perm : List Nat) :
    BlockOk (orderedOf k.core (b.block k date) perm) (b.block k date)
      ∧ BlockDomP P (orderedOf k.core (b.block k date) perm) (b.block k date)
      ∧ ∀ it ∈ (b.block k date).content, ItemShape it := by
  have hitems := block_items_good hP k hk date hd b hb
  have hsch := ordered_schemas k date b perm hitems
  refine ⟨⟨?_, fun it h => (hitems it h).ok, ?_⟩, ⟨hb.name.dom, fun c hc => by simp [Builder.block] at hc,
    fun it h => (hitems it h).dom, ?_⟩, fun it h => (hitems it h).shape⟩
  · exact nameOk_of_check (b.block k date) hb.name.check hb.name.ne hb.name.cr
  · intro s hs; rcases hsch s hs with rfl | rfl
    · exact hk.core.1
    · exact hk.pd.1
  · intro s hs; rcases hsch s hs with rfl | rfl
    · exact hk.core.2
    · exact hk.pd.2

/-! ## monotonicity in the character set (hypotheses are stated once, at `printableNl`) -/

section Mono
variable {P Q : Nat → Bool} (h : ∀ c, P c = true → Q c = true)
include h

theorem PersonOk.mono {a : Person} (ha : PersonOk P a) : PersonOk Q a :=
  ⟨ha.nameNe, ha.name.mono h, ha.email.mono h, ha.address.mono h, ha.orcid.mono h, ha.role.mono h⟩

theorem PowderOk.mono {d : PowderData} {n : Nat} (hd : PowderOk P d n) : PowderOk Q d n :=
  ⟨hd.rows, hd.unit.mono h, ⟨hd.ids.1, fun v hv => (hd.ids.2 v hv).mono h⟩,
   ⟨hd.coord.1, fun v hv => (hd.coord.2 v hv).mono h⟩,
   fun su hs => ⟨(hd.coordSu su hs).1, fun v hv => ((hd.coordSu su hs).2 v hv).mono h⟩,
   ⟨hd.values.1, fun v hv => (hd.values.2 v hv).mono h⟩,
   fun su hs => ⟨(hd.valuesSu su hs).1, fun v hv => ((hd.valuesSu su hs).2 v hv).mono h⟩⟩

theorem NameArgOk.mono {n : Str} (hn : NameArgOk P n) : NameArgOk Q n := ⟨hn.check, hn.ne, hn.cr, hn.dom.mono h⟩

theorem CallOk.mono {c : Call} (hc : CallOk P c) : CallOk Q c := by
  cases c with
  | withAuthors ps => exact fun a ha => (hc a ha).mono h
  | withReducers rs => exact fun r hr => (hc r hr).mono h
  | withBeamline n f s cm => exact ⟨hc.1.mono h, fun x hx => (hc.2.1 x hx).mono h, hc.2.2.mono h⟩
  | withReducedPowderData d cm => exact ⟨hc.1.imp (fun n hn => hn.mono h), hc.2.mono h⟩
  | withPowderCalibration p co su cm =>
    obtain ⟨n, hn, hcm, hp, hco, hsu⟩ := hc
    exact ⟨n, hn, hcm.mono h, ⟨hp.1, fun v hv => (hp.2 v hv).mono h⟩, ⟨hco.1, fun v hv => (hco.2 v hv).mono h⟩,
      fun s hs => ⟨(hsu s hs).1, fun v hv => ((hsu s hs).2 v hv).mono h⟩⟩
  | copy => trivial
  | setName n => exact NameArgOk.mono h hc
  | setComment cm => exact DomC.mono h hc
  | save d p => trivial

theorem SchemaDomP.mono {s : Schema} (hs : SchemaDomP P s) : SchemaDomP Q s :=
  ⟨hs.1.mono h, hs.2.1.mono h, hs.2.2.mono h⟩

theorem Consts.Ok.mono {k : Consts} (hk : k.Ok P) : k.Ok Q :=
  ⟨⟨hk.core.1, SchemaDomP.mono h hk.core.2⟩, ⟨hk.pd.1, SchemaDomP.mono h hk.pd.2⟩, hk.version.mono h⟩

end Mono

/-! ## the round trip of the high-level builder -/

/-- for every chain of builder calls whose string arguments satisfy the value hypothesis, what
`CIF.save` writes is read by the complete reader as exactly the block the builder assembled, and
consists of printable ASCII, tab and newline only -/
theorem builder_roundtrip (k : Consts) (hk : k.Ok printableNl) (date : Str) (hd : StrOk printableNl date)
    (name comment : Str) (hn : NameArgOk printableNl name) (hc : DomC printableNl comment)
    (calls : List Call) (hcalls : ∀ c ∈ calls, CallOk printableNl c) (perm : List Nat) (t : Str)
    (ht : ((calls.foldl (Builder.apply k) (Builder.new name comment)).save Variant.current k date perm).1 = some t) :
    let b := calls.foldl (Builder.apply k) (Builder.new name comment)
    parseCif t = some [blockP (orderedOf k.core (b.block k date) perm) (b.block k date)]
      ∧ All printableNl t := by
  intro b
  have hbP := reach_ok acceptsPrintable_printableNl k calls _ (new_ok k name comment hn hc) hcalls
  have hbV := reach_ok acceptsPrintable_validChar k calls _
    (new_ok k name comment (hn.mono printableNl_valid) (hc.mono printableNl_valid))
    (fun c hc' => (hcalls c hc').mono printableNl_valid)
  have hdoc := saveCif_docText k.core (encodeNonAscii b.comment) [(b.block k date, perm)] t ht
  simp only [List.map_cons, List.map_nil] at hdoc
  obtain ⟨hok, hdomP, hshape⟩ := block_ok acceptsPrintable_printableNl k hk date hd b hbP perm
  obtain ⟨_, hdomV, _⟩ := block_ok acceptsPrintable_validChar k (hk.mono printableNl_valid) date
    (hd.mono printableNl_valid) b hbV perm
  have hcomP : DomC printableNl (encodeNonAscii b.comment) :=
    fun c hc' => (encode_mem_or_break acceptsPrintable_printableNl _ hbP.comment c hc').imp id Or.inr
  have hcomV : DomComment (encodeNonAscii b.comment) := hcomP.mono printableNl_valid
  subst hdoc
  refine ⟨?_, ?_⟩
  · have := parseCif_doc (encodeNonAscii b.comment) [(orderedOf k.core (b.block k date) perm, b.block k date)] hcomV
      (by simpa using hdomV) (by simpa using hok) (by simpa using hshape)
    simpa using this
  · exact all_doc acceptsPrintable_printableNl _ _ hcomP (by simpa using hdomP)

/-! ## comments: line terminators; reduced powder loop: which tokens stand under which tag -/


theorem mem_joinWith (sep : Str) (l : List Str) (c : Nat) (h : c ∈ joinWith sep l) : c ∈ sep ∨ ∃ x ∈ l, c ∈ x := by
  match l with
  | [] => simp [joinWith] at h
  | [x] => exact Or.inr ⟨x, by simp, by simpa [joinWith] using h⟩
  | x :: y :: rest =>
    rw [joinWith_cons_cons] at h
    simp only [List.mem_append] at h
    rcases h with (h | h) | h
    · exact Or.inr ⟨x, by simp, h⟩
    · exact Or.inl h
    · rcases mem_joinWith sep (y :: rest) c h with h' | ⟨z, hz, hc⟩
      · exact Or.inl h'
      · exact Or.inr ⟨z, by simp [hz], hc⟩

/-- the only line terminator `_write_comment` ever writes is its own `\n` -/
theorem writeComment_breaks (c : Str) : ∀ ch ∈ writeComment c, isLineBreak ch = true → ch = 10 := by
  intro ch hch hb
  unfold writeComment at hch
  split at hch
  · simp at hch
  · simp only [List.mem_append, List.mem_cons, List.not_mem_nil, or_false] at hch
    rcases hch with ((rfl | rfl) | h) | rfl
    · simp [isLineBreak] at hb
    · simp [isLineBreak] at hb
    · rcases mem_joinWith _ _ ch h with h' | ⟨l, hl, hcl⟩
      · simp only [List.mem_cons, List.not_mem_nil, or_false] at h'
        rcases h' with rfl | rfl | rfl
        · rfl
        · simp [isLineBreak] at hb
        · simp [isLineBreak] at hb
      · have := splitLinesAux_no_break c [] (by simp) l hl ch hcl
        rw [this] at hb; cases hb
    · rfl

theorem powder_tags_distinct : ∀ cn ∈ coordNames, ∀ dn ∈ dataNames,
    [ofString "pd_data.point_id", cn, suffixSu cn, dn, suffixSu dn].Nodup := by decide

/-- the columns of the reduced-powder loop: which tokens stand under which tag -/
theorem powder_columns (k : Consts) (d : PowderData) (comment : Str) (l : Loop)
    (h : reducedPowderLoop k d comment = .ok l) :
    ∃ cn dn, powderNames d = .ok (cn, dn) ∧ cn ∈ coordNames ∧ dn ∈ dataNames
      ∧ l.columns = powderColumns cn dn d
      ∧ [ofString "pd_data.point_id", cn, suffixSu cn, dn, suffixSu dn].Nodup := by
  unfold reducedPowderLoop at h
  simp only [bind, Except.bind, pure, Except.pure] at h
  cases hn : powderNames d with
  | error e => simp [hn] at h
  | ok names =>
    obtain ⟨cn, dn⟩ := names
    simp only [hn, Except.ok.injEq] at h
    subst h
    obtain ⟨hcn, hdn⟩ := powderNames_mem d cn dn hn
    exact ⟨cn, dn, rfl, hcn, hdn, rfl, powder_tags_distinct cn hcn dn hdn⟩


end ScnVerif.Cif
