import ScnVerif.Lemmas.SqwRoundTrip
/-! `decodeFile (create b) = ok (what was supplied)` for a builder state whose inputs fit the format. -/
namespace ScnVerif.Sqw

/-- what the decoder must find in the file: every prepared block as the IR object built from the
supplied model, a zero histogram of the declared shape, all pixels in order rounded once -/
def contentsOf (order : List BlockName) (b : Builder) (st : Stamps) (round : Nat → Nat) : List Content :=
  (prepareBlocks order b).map (fun kv => Content.regular (kv.2.toObj b st)) ++
  ((match b.dnd with
    | some shape => [Content.dnd shape (List.replicate (prodList shape) 0)
        (List.replicate (prodList shape) 0) (List.replicate (prodList shape) 0)]
    | none => []) ++
   (match b.pix with
    | some rows => [Content.pix rows.length (nPixels rows) (pixVals round rows)]
    | none => []))

/-- hypotheses on a builder state: inputs fit their on-disk fields, strings are ASCII -/
structure CreateOk (order : List BlockName) (b : Builder) (st : Stamps) (round : Nat → Nat)
    (chunk : Nat) : Prop where
  chunkOk : 1 ≤ chunk
  nDims : b.nDims < 2 ^ 32
  blocks : ∀ kv ∈ prepareBlocks order b, kv.2.Ok b st ∧ kv.1.1.length < 2 ^ 32 ∧ kv.1.2.length < 2 ^ 32
  dnd : ∀ shape, b.dnd = some shape → shape.length < 2 ^ 32 ∧ ∀ d ∈ shape, d < 2 ^ 32
  pix : ∀ rows, b.pix = some rows → rows.length < 2 ^ 32 ∧ nPixels rows < 2 ^ 64
  roundOk : ∀ v, round v < 2 ^ 32
  size : (create order b st round chunk).length < 2 ^ 32

theorem allDecode_map {α} (o : Order) (l : List α) (f : α → BlockOut) (g : α → Content)
    (h : ∀ x ∈ l, Decodes o (f x) (g x)) : AllDecode o (l.map f) (l.map g) := by
  induction l with
  | nil => exact .nil
  | cons a l ih => exact .cons (h a (by simp)) (ih (fun x hx => h x (by simp [hx])))

theorem allDecode_blockOuts (order : List BlockName) (b : Builder) (st : Stamps) (round : Nat → Nat)
    (chunk : Nat) (h : CreateOk order b st round chunk) :
    AllDecode b.order (blockOuts order b st round chunk) (contentsOf order b st round) := by
  unfold blockOuts contentsOf
  refine AllDecode.append ?_ (AllDecode.append ?_ ?_)
  · apply allDecode_map
    intro kv hkv
    obtain ⟨n, blk⟩ := kv
    have hw := wf_block b st blk (h.blocks _ hkv).1
    exact ⟨fun j => decodeBlock_regular b.order j _ hw, rfl⟩
  · cases hd : b.dnd with
    | none => exact .nil
    | some shape =>
      have := h.dnd shape hd
      exact .cons ⟨fun j => decodeBlock_dnd b.order j shape this.1 this.2, (dnd_size shape b.order).symm⟩ .nil
  · cases hp : b.pix with
    | none => exact .nil
    | some rows =>
      have := h.pix rows hp
      exact .cons ⟨fun j => decodeBlock_pix b.order j round rows chunk h.chunkOk this.1 this.2 h.roundOk,
        (pix_size rows b.order round chunk h.chunkOk).symm⟩ .nil
 where
  dnd_size (shape : List Nat) (o : Order) : (dndWrite o shape).length = dndSize shape := by
    unfold dndWrite dndSize
    simp only [List.length_append, u32_length, List.length_replicate]
    rw [length_flatMap_const _ _ 4 (fun d => by simp)]
    omega
  pix_size (rows : List PixRow) (o : Order) (round : Nat → Nat) (chunk : Nat) (hc : 1 ≤ chunk) :
      (pixWrite o round rows chunk).length = pixSize rows := by
    have h := pixLoop_length o round rows (nPixels rows) chunk hc (nPixels rows) 0 (nPixels rows)
      (by simp) (by simp)
    unfold pixWrite pixWriteBound pixSize
    simp only [List.length_append, u32_length, u64_length, h, Nat.sub_zero]
    rw [Nat.mul_comm (nPixels rows) (rows.length * 4)]
    omega

/-- the descriptors `create` writes (positions patched in) -/
def finalDescs (order : List BlockName) (b : Builder) (st : Stamps) (round : Nat → Nat) (chunk : Nat) :
    List Desc :=
  let descs := (blockOuts order b st round chunk).map (·.desc)
  assignPos ((fileHeader b.order b.nDims).length + (4 + (batBody b.order descs).length)) descs

theorem create_layout (order : List BlockName) (b : Builder) (st : Stamps) (round : Nat → Nat) (chunk : Nat) :
    create order b st round chunk =
      fileHeader b.order b.nDims ++ (u32 b.order (batBody b.order (finalDescs order b st round chunk)).length ++
        (batBody b.order (finalDescs order b st round chunk) ++
          ((blockOuts order b st round chunk).map (·.bytes)).flatten)) := by
  simp only [create, serializeBat, finalDescs, List.length_append, u32_length, batBody_assignPos_length,
    List.append_assoc]
  congr 2
  congr 1
  omega

/-- MASTER THEOREM: the independent decoder accepts the file and returns exactly what was supplied -/
theorem decode_create (order : List BlockName) (b : Builder) (st : Stamps) (round : Nat → Nat)
    (chunk : Nat) (h : CreateOk order b st round chunk) :
    decodeFile (create order b st round chunk) =
      .ok ⟨b.order, ⟨sHorace, fFour, 1, b.nDims⟩,
        (batBody b.order (finalDescs order b st round chunk)).length,
        (finalDescs order b st round chunk).map toDDesc, contentsOf order b st round⟩ := by
  apply decodeFile_layout b.order b.nDims (blockOuts order b st round chunk) (contentsOf order b st round)
    h.nDims (allDecode_blockOuts order b st round chunk h) ?_ _ (finalDescs order b st round chunk) rfl
    (create_layout order b st round chunk) h.size
  intro x hx
  simp only [blockOuts, List.mem_append, List.mem_map] at hx
  rcases hx with ⟨kv, hkv, rfl⟩ | hx | hx
  · have := h.blocks kv hkv
    exact ⟨by show tyRegular.length < 2 ^ 32; decide +kernel, this.2.1, this.2.2, by show 0 < 2 ^ 32; omega⟩
  · cases hd : b.dnd with
    | none => simp [hd] at hx
    | some shape =>
      simp only [hd, List.mem_singleton] at hx
      subst hx
      exact ⟨by show tyDnd.length < 2 ^ 32; decide +kernel, by show nNdData.1.length < 2 ^ 32; decide +kernel,
        by show nNdData.2.length < 2 ^ 32; decide +kernel, by show 0 < 2 ^ 32; omega⟩
  · cases hp : b.pix with
    | none => simp [hp] at hx
    | some rows =>
      simp only [hp, List.mem_singleton] at hx
      subst hx
      exact ⟨by show tyPix.length < 2 ^ 32; decide +kernel, by show nPixData.1.length < 2 ^ 32; decide +kernel,
        by show nPixData.2.length < 2 ^ 32; decide +kernel, by show 0 < 2 ^ 32; omega⟩

end ScnVerif.Sqw
