import ScnVerif.Model.Xye
import Mathlib.Tactic.Set
/-!
# Text-level lemmas for C15: the model's parser reads back what the model's printer wrote

`parseLit (formatFinite neg D k) = some (.num neg D (k - 18))` for every 19-digit `D < 10^19`:
the renderer `d.ddd…e±XX` is inverted by the tokenizer of `parseDecimal` (sign, mantissa split at
`.`, exponent split at `e`), so `parseDecimal ∘ formatE18` is `litBits` applied to the printed
digits — a statement about numbers only.
-/
namespace ScnVerif.Xye

/-! ## digits -/

theorem digitChar_cases (d : Nat) :
    isDigit (digitChar d) = true ∧ (digitChar d).toNat - 48 = d % 10 ∧
    digitChar d ≠ 'e' ∧ digitChar d ≠ 'E' ∧ digitChar d ≠ '.' ∧ digitChar d ≠ '-' ∧ digitChar d ≠ '+' := by
  unfold digitChar
  have h : d % 10 < 10 := Nat.mod_lt _ (by decide)
  generalize d % 10 = k at h
  match k, h with
  | 0, _ | 1, _ | 2, _ | 3, _ | 4, _ | 5, _ | 6, _ | 7, _ | 8, _ | 9, _ => decide
  | k + 10, h => omega

theorem isDigit_ne {c : Char} (h : isDigit c = true) :
    c ≠ 'e' ∧ c ≠ 'E' ∧ c ≠ '.' ∧ c ≠ '-' ∧ c ≠ '+' := by
  refine ⟨?_, ?_, ?_, ?_, ?_⟩ <;> rintro rfl <;> revert h <;> decide

theorem foldl_digits (l : List Char) (a : Nat) :
    l.foldl (fun a c => a * 10 + (c.toNat - 48)) a = a * 10 ^ l.length + digitsToNat l := by
  induction l generalizing a with
  | nil => simp [digitsToNat]
  | cons c l ih =>
    simp only [List.foldl_cons, digitsToNat, List.length_cons]
    rw [ih, ih (0 * 10 + (c.toNat - 48))]
    simp only [Nat.zero_mul, Nat.zero_add, Nat.pow_succ]
    rw [Nat.add_mul, Nat.add_assoc, Nat.mul_assoc, Nat.mul_comm 10]

theorem digitsToNat_cons (c : Char) (l : List Char) :
    digitsToNat (c :: l) = (c.toNat - 48) * 10 ^ l.length + digitsToNat l := by
  have := foldl_digits l (0 * 10 + (c.toNat - 48))
  simpa [digitsToNat] using this

theorem digitsToNat_append_single (l : List Char) (c : Char) :
    digitsToNat (l ++ [c]) = digitsToNat l * 10 + (c.toNat - 48) := by
  simp [digitsToNat, List.foldl_append]

theorem digitsFixed_spec (w n : Nat) :
    (digitsFixed w n).length = w ∧ (digitsFixed w n).all isDigit = true ∧
    digitsToNat (digitsFixed w n) = n % 10 ^ w := by
  induction w generalizing n with
  | zero => simp [digitsFixed, digitsToNat, Nat.mod_one]
  | succ w ih =>
    obtain ⟨h1, h2, h3⟩ := ih (n / 10)
    obtain ⟨d1, d2, _⟩ := digitChar_cases n
    refine ⟨by simp [digitsFixed, h1], by simp [digitsFixed, h2, d1], ?_⟩
    simp only [digitsFixed, digitsToNat_append_single, h3, d2]
    rw [Nat.pow_succ, Nat.mul_comm (10 ^ w) 10, Nat.mod_mul]
    omega

theorem natDecAux_spec : ∀ (f n : Nat) (acc : List Char), n < 10 ^ (f + 1) → acc.all isDigit = true →
    (natDecAux (f + 1) n acc).all isDigit = true ∧ natDecAux (f + 1) n acc ≠ [] ∧
    digitsToNat (natDecAux (f + 1) n acc) = n * 10 ^ acc.length + digitsToNat acc := by
  intro f
  induction f with
  | zero =>
    intro n acc hn hacc
    obtain ⟨d1, d2, _⟩ := digitChar_cases n
    have hlt : n < 10 := by simpa using hn
    unfold natDecAux
    rw [if_pos hlt]
    refine ⟨by simp [d1, hacc], by simp, ?_⟩
    rw [digitsToNat_cons, d2, Nat.mod_eq_of_lt hlt]
  | succ f ih =>
    intro n acc hn hacc
    obtain ⟨d1, d2, _⟩ := digitChar_cases n
    unfold natDecAux
    split
    · rename_i hlt
      refine ⟨by simp [d1, hacc], by simp, ?_⟩
      rw [digitsToNat_cons, d2, Nat.mod_eq_of_lt hlt]
    · rename_i hge
      have hn' : n / 10 < 10 ^ (f + 1) := by
        rw [Nat.pow_succ] at hn; omega
      obtain ⟨a1, a2, a3⟩ := ih (n / 10) (digitChar n :: acc) hn' (by simp [d1, hacc])
      refine ⟨a1, a2, ?_⟩
      rw [a3, digitsToNat_cons, d2, List.length_cons, Nat.pow_succ]
      have := Nat.div_add_mod n 10
      calc n / 10 * (10 ^ acc.length * 10) + (n % 10 * 10 ^ acc.length + digitsToNat acc)
          = (10 * (n / 10) + n % 10) * 10 ^ acc.length + digitsToNat acc := by
            rw [Nat.add_mul, Nat.mul_comm (10 ^ acc.length) 10, ← Nat.mul_assoc, Nat.mul_comm (n / 10) 10,
              Nat.add_assoc]
        _ = n * 10 ^ acc.length + digitsToNat acc := by rw [this]

theorem natDec_spec (n : Nat) :
    (natDec n).all isDigit = true ∧ natDec n ≠ [] ∧ digitsToNat (natDec n) = n := by
  have h : n < 10 ^ (n + 1) :=
    Nat.lt_of_lt_of_le (Nat.lt_pow_self (by decide : 1 < 10)) (Nat.pow_le_pow_right (by decide) (Nat.le_succ n))
  obtain ⟨a, b, c⟩ := natDecAux_spec n n [] h rfl
  unfold natDec
  exact ⟨a, b, by simpa [digitsToNat] using c⟩

/-! ## splitting -/

theorem splitFirst_append (p : Char → Bool) (l : List Char) (x : Char) (r : List Char)
    (hl : ∀ c ∈ l, p c = false) (hx : p x = true) : splitFirst p (l ++ x :: r) = (l, some r) := by
  induction l with
  | nil => simp [splitFirst, hx]
  | cons a l ih =>
    have ha : p a = false := hl a (by simp)
    have := ih (fun c hc => hl c (by simp [hc]))
    simp [splitFirst, ha, this]

/-! ## the exponent field -/

/-- digits of the exponent field and its sign -/
theorem expField_spec (k : Int) :
    ∃ ds : List Char, expField k = (if k < 0 then '-' else '+') :: ds ∧ ds.all isDigit = true ∧ ds ≠ [] ∧
      digitsToNat ds = k.natAbs := by
  unfold expField
  simp only
  by_cases h : k.natAbs < 10
  · obtain ⟨d1, d2, _⟩ := digitChar_cases k.natAbs
    rw [if_pos h]
    refine ⟨_, rfl, ?_, by simp, ?_⟩
    · simp only [List.all_cons, List.all_nil, d1, Bool.and_true, Bool.and_eq_true]; decide
    · rw [digitsToNat_cons, digitsToNat_cons, d2, Nat.mod_eq_of_lt h]
      simp [digitsToNat]
  · obtain ⟨a, b, c⟩ := natDec_spec k.natAbs
    rw [if_neg h]
    exact ⟨_, rfl, a, b, c⟩

/-! ## the mantissa field -/

theorem mantField_spec (D : Nat) (hD : D < 10 ^ 19) :
    ∃ (d : Char) (rest : List Char), mantField D = d :: '.' :: rest ∧ isDigit d = true ∧
      rest.all isDigit = true ∧ rest.length = 18 ∧ digitsToNat (d :: rest) = D := by
  obtain ⟨h1, h2, h3⟩ := digitsFixed_spec 19 D
  unfold mantField
  cases hdf : digitsFixed 19 D with
  | nil => rw [hdf] at h1; simp at h1
  | cons d rest =>
    rw [hdf] at h1 h2 h3
    simp only [List.all_cons, Bool.and_eq_true] at h2
    exact ⟨d, rest, rfl, h2.1, h2.2, by simpa using h1, by rw [h3, Nat.mod_eq_of_lt hD]⟩

/-! ## the parser reads the printer's text -/

theorem stripSign_of_digit (d : Char) (r : List Char) (hd : isDigit d = true) :
    stripSign (d :: r) = (false, d :: r) := by
  obtain ⟨_, _, _, n4, n5⟩ := isDigit_ne hd
  unfold stripSign
  split
  · rename_i heq; simp at heq; exact absurd heq.1 n4
  · rename_i heq; simp at heq; exact absurd heq.1 n5
  · rfl

theorem parseExpo_expField (k : Int) : parseExpo (expField k) = some k := by
  obtain ⟨ds, he, hds, hne, hev⟩ := expField_spec k
  have hdsne : ds.isEmpty = false := by cases ds with | nil => exact absurd rfl hne | cons _ _ => rfl
  rw [he]
  unfold parseExpo
  by_cases hk : k < 0
  · simp only [hk, if_true, stripSign, hdsne, hds, Bool.not_true, Bool.or_self, Bool.false_eq_true,
      if_false, hev]
    congr 1; omega
  · simp only [hk, if_false, stripSign, hdsne, hds, Bool.not_true, Bool.or_self, Bool.false_eq_true, hev]
    congr 1; omega

/-- the unsigned text `d.dddddddddddddddddde±XX` parses to its digits and exponent -/
theorem parseNumber_printed (D : Nat) (hD : D < 10 ^ 19) (k : Int) (neg : Bool) :
    parseNumber neg (mantField D ++ 'e' :: expField k) = some (.num neg D (k - 18)) := by
  obtain ⟨d, rest, hm, hd, hrest, hlen, hval⟩ := mantField_spec D hD
  obtain ⟨n1, n2, n3, _, _⟩ := isDigit_ne hd
  have hmant : ∀ c ∈ d :: '.' :: rest, (decide (c = 'e') || decide (c = 'E')) = false := by
    intro c hc
    simp only [List.mem_cons] at hc
    rcases hc with rfl | rfl | hc
    · simp [n1, n2]
    · decide
    · have := isDigit_ne (List.all_eq_true.mp hrest c hc); simp [this.1, this.2.1]
  have hsplit1 : splitFirst (fun c => decide (c = 'e') || decide (c = 'E')) (mantField D ++ 'e' :: expField k)
      = (d :: '.' :: rest, some (expField k)) := by
    rw [hm]
    exact splitFirst_append _ (d :: '.' :: rest) 'e' (expField k) hmant (by decide)
  have hsplit2 : splitFirst (fun c => decide (c = '.')) (d :: '.' :: rest) = ([d], some rest) := by
    have := splitFirst_append (fun c => decide (c = '.')) [d] '.' rest (by simp [n3]) (by decide)
    simpa using this
  have hall : ([d].all isDigit && rest.all isDigit) = true := by simp [hd, hrest]
  have hval' : digitsToNat ([d] ++ rest) = D := by simpa using hval
  unfold parseNumber
  simp only [hsplit1, hsplit2, Option.getD_some, hall, Bool.not_true, List.isEmpty_cons, Bool.false_and,
    Bool.or_self, Bool.false_eq_true, if_false, hval', hlen, parseExpo_expField, Option.map_some]
  rfl

/-- **the parser inverts the renderer**: the text `[-]d.dddddddddddddddddde±XX` that the model's
printer emits for sign `neg`, digits `D < 10^19` and exponent `k` is read by the model's parser as
exactly `±D·10^(k-18)` -/
theorem parseLit_formatFinite (D : Nat) (hD : D < 10 ^ 19) (k : Int) (neg : Bool) :
    parseLit (formatFinite neg D k) = some (.num neg D (k - 18)) := by
  obtain ⟨d, rest, hm, hd, _, hlen, _⟩ := mantField_spec D hD
  have hstrip : stripSign (formatFinite neg D k) = (neg, mantField D ++ 'e' :: expField k) := by
    unfold formatFinite
    cases neg
    · simp only [signChars, Bool.false_eq_true, if_false, List.nil_append, hm, List.cons_append]
      exact stripSign_of_digit d _ hd
    · simp [signChars, stripSign]
  have hlenb : 22 ≤ (mantField D ++ 'e' :: expField k).length := by
    obtain ⟨ds, he, _, _, _⟩ := expField_spec k
    rw [hm, he]; simp [hlen]; omega
  have hnotspecial : ∀ l : List Char, l.length < 22 →
      ((mantField D ++ 'e' :: expField k).map lower = l) = False := by
    intro l hl; apply eq_false; intro h
    have := congrArg List.length h; simp at this hlenb; omega
  unfold parseLit
  simp only [hstrip, hnotspecial _ (by decide : (['i', 'n', 'f'] : List Char).length < 22),
    hnotspecial _ (by decide : (['i', 'n', 'f', 'i', 'n', 'i', 't', 'y'] : List Char).length < 22),
    hnotspecial _ (by decide : (['n', 'a', 'n'] : List Char).length < 22),
    decide_false, Bool.or_self, Bool.false_eq_true, if_false]
  exact parseNumber_printed D hD k neg

end ScnVerif.Xye
