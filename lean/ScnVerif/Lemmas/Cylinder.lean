import ScnVerif.Model.Cylinder
import ScnVerif.Real.Basic
import Mathlib.Tactic.Ring
import Mathlib.Tactic.Linarith
import Mathlib.Tactic.FieldSimp
import Mathlib.Tactic.Positivity
import Mathlib.Tactic.LinearCombination
import Mathlib.Tactic.NormNum
import Mathlib.Analysis.Real.Pi.Bounds
/-!
# Helper lemmas for C18 (cylinder absorption): the model's scalar helpers over ℝ, the quadratic
inequality, clipped interval intersection, vector identities, Rodrigues' rotation, weighted sums.
-/
namespace ScnVerif.Cylinder
open ScnVerif

theorem isZero_iff (x : ℝ) : isZero x = true ↔ x = 0 := by
  simp only [isZero, Bool.and_eq_true, decide_eq_true_eq]
  constructor
  · rintro ⟨h1, h2⟩; exact le_antisymm h1 h2
  · rintro rfl; exact ⟨le_refl _, le_refl _⟩

theorem isZero_false {x : ℝ} (h : x ≠ 0) : isZero x = false := by
  rw [Bool.eq_false_iff]; intro h0; exact h ((isZero_iff _).1 h0)

/-- over the reals the current code (with the projections of fix ef5a368) is the old formula, for every axis -/
theorem lineInfiniteCylinder_eq_old (a b n : V3 ℝ) (r : ℝ) :
    lineInfiniteCylinder a b r n = lineInfiniteCylinderOld a b r n := by
  have h0 : V3.dot (V3.cross n a) a = 0 := by simp only [V3.dot, V3.cross]; ring
  have h1 : V3.sub (V3.cross n a) (V3.smul (V3.dot (V3.cross n a) a) a) = V3.cross n a := by
    rw [h0]; simp only [V3.sub, V3.smul, V3.cross]; congr 1 <;> ring
  have h2 : V3.dot (V3.sub b (V3.smul (V3.dot b a) a)) (V3.cross n a) = V3.dot b (V3.cross n a) := by
    simp only [V3.dot, V3.sub, V3.smul, V3.cross]; ring
  have h3 : V3.cross (V3.sub b (V3.smul (V3.dot b a) a)) a = V3.cross b a := by
    simp only [V3.dot, V3.sub, V3.smul, V3.cross, V3.mk.injEq]; refine ⟨?_, ?_, ?_⟩ <;> ring
  simp only [lineInfiniteCylinder, lineInfiniteCylinderOld, h1, h2, h3]

theorem maxW_eq (x y : ℝ) : maxW x y = max x y := by
  simp only [maxW]; split_ifs with h
  · exact (max_eq_left h).symm
  · exact (max_eq_right (le_of_not_ge h)).symm

theorem minW_eq (x y : ℝ) : minW x y = min x y := by
  simp only [minW]; split_ifs with h
  · exact (min_eq_left h).symm
  · exact (min_eq_right (le_of_not_ge h)).symm

def Itv.Mem (I : Itv ℝ) (t : ℝ) : Prop :=
  I.hit = true ∧ (∀ l, I.left = some l → l ≤ t) ∧ (∀ r, I.right = some r → t ≤ r)

theorem quad_le_iff (q m c t : ℝ) (hq : 0 < q) :
    q * t ^ 2 - 2 * m * t + c ≤ 0 ↔
      0 ≤ m ^ 2 - q * c ∧ (m - Real.sqrt (m ^ 2 - q * c)) / q ≤ t ∧ t ≤ (m + Real.sqrt (m ^ 2 - q * c)) / q := by
  have key : q * (q * t ^ 2 - 2 * m * t + c) = (q * t - m) ^ 2 - (m ^ 2 - q * c) := by ring
  constructor
  · intro h
    have h1 : (q * t - m) ^ 2 ≤ m ^ 2 - q * c := by nlinarith
    have hD : 0 ≤ m ^ 2 - q * c := le_trans (sq_nonneg _) h1
    have h2 := Real.abs_le_sqrt h1
    rw [abs_le] at h2
    refine ⟨hD, ?_, ?_⟩
    · rw [div_le_iff₀ hq]; linarith [h2.1]
    · rw [le_div_iff₀ hq]; linarith [h2.2]
  · rintro ⟨hD, h1, h2⟩
    rw [div_le_iff₀ hq] at h1
    rw [le_div_iff₀ hq] at h2
    have hs := Real.sq_sqrt hD
    have hs0 := Real.sqrt_nonneg (m ^ 2 - q * c)
    have h3 : (q * t - m) ^ 2 ≤ m ^ 2 - q * c := by
      rw [← hs]; apply sq_le_sq'; linarith; linarith
    have : q * (q * t ^ 2 - 2 * m * t + c) ≤ 0 := by rw [key]; linarith
    by_contra hc
    rw [not_le] at hc
    nlinarith

theorem norm_le_iff (v : V3 ℝ) (r : ℝ) (hr : 0 ≤ r) : V3.norm v ≤ r ↔ V3.dot v v ≤ r ^ 2 := by
  simp only [V3.norm, trans_sqrt_real]
  rw [Real.sqrt_le_left hr]

def InSolid (a base : V3 ℝ) (r h : ℝ) (x : V3 ℝ) : Prop :=
  0 ≤ V3.dot (V3.sub x base) a ∧ V3.dot (V3.sub x base) a ≤ h ∧ V3.norm (V3.cross (V3.sub x base) a) ≤ r

theorem max0_eq (x : ℝ) : max0 x = max x 0 := by simp only [max0, maxW_eq]

theorem max0_nonneg (x : ℝ) : 0 ≤ max0 x := by rw [max0_eq]; exact le_max_right _ _

theorem max0Left_nonneg (l : Option ℝ) : 0 ≤ max0Left l := by
  cases l with
  | none => exact le_refl _
  | some x => exact max0_nonneg x

theorem memLeft_iff (sl cl : Option ℝ) (t : ℝ) :
    (0 ≤ t ∧ (∀ l, sl = some l → l ≤ t) ∧ (∀ l, cl = some l → l ≤ t)) ↔ max0Left (maxLeft sl cl) ≤ t := by
  rcases sl with _ | sl <;> rcases cl with _ | cl <;>
    simp only [maxLeft, max0Left, max0_eq, maxW_eq, max_le_iff, Option.some.injEq, forall_eq', reduceCtorEq,
      IsEmpty.forall_iff, implies_true, and_true] <;> constructor <;> intro h <;> simp_all

theorem memRight_iff (sr cr : Option ℝ) (R t : ℝ) (hR : minRight sr cr = some R) :
    ((∀ r, sr = some r → t ≤ r) ∧ (∀ r, cr = some r → t ≤ r)) ↔ t ≤ R := by
  rcases sr with _ | sr <;> rcases cr with _ | cr <;>
    simp only [minRight, minW_eq, Option.some.injEq, reduceCtorEq] at hR
  all_goals subst hR
  all_goals simp only [le_min_iff, Option.some.injEq, forall_eq', reduceCtorEq,
      IsEmpty.forall_iff, implies_true, and_true, true_and]

theorem posItv_spec (S C : Itv ℝ) (R : ℝ) (hR : minRight S.right C.right = some R) :
    (∀ t, (0 ≤ t ∧ S.Mem t ∧ C.Mem t) ↔
      (S.hit = true ∧ C.hit = true) ∧ max0Left (maxLeft S.left C.left) ≤ t ∧ t ≤ R) ∧
    positiveIntervalIntersection S.left S.right C.left C.right
      = some (max 0 (R - max0Left (maxLeft S.left C.left))) := by
  constructor
  · intro t
    rw [← memLeft_iff, ← memRight_iff _ _ R t hR]
    simp only [Itv.Mem]
    constructor
    · rintro ⟨h0, ⟨h1, h2, h3⟩, h4, h5, h6⟩; exact ⟨⟨h1, h4⟩, ⟨h0, h2, h5⟩, h3, h6⟩
    · rintro ⟨⟨h1, h4⟩, ⟨h0, h2, h5⟩, h3, h6⟩; exact ⟨h0, ⟨h1, h2, h3⟩, h4, h5, h6⟩
  · simp only [positiveIntervalIntersection, hR]
    have hL := max0Left_nonneg (maxLeft S.left C.left)
    generalize max0Left (maxLeft S.left C.left) = L at hL
    simp only [max0_eq, Option.some.injEq]
    rcases le_total 0 R with h | h
    · rw [max_eq_left h, max_comm]
    · rw [max_eq_right h, max_eq_right (by linarith), max_eq_left (by linarith)]

theorem lineSlab_right (a b n : V3 ℝ) (h : ℝ) (hn : V3.dot n a ≠ 0) : ∃ x, (lineSlab a b h n).right = some x := by
  simp only [lineSlab, isZero_false hn, Bool.false_eq_true, if_false]; exact ⟨_, rfl⟩

theorem lineCyl_right (a b n : V3 ℝ) (r : ℝ) (hq : V3.dot (V3.cross n a) (V3.cross n a) ≠ 0) :
    ∃ x, (lineInfiniteCylinder a b r n).right = some x := by
  simp only [lineInfiniteCylinder_eq_old, lineInfiniteCylinderOld, isZero_false hq, Bool.false_eq_true, if_false]; exact ⟨_, rfl⟩

theorem lagrange (u v : V3 ℝ) :
    V3.dot (V3.cross u v) (V3.cross u v) + V3.dot u v ^ 2 = V3.dot u u * V3.dot v v := by
  simp only [V3.dot, V3.cross]; ring

theorem exists_right (a b n : V3 ℝ) (r h : ℝ) (ha : V3.dot a a = 1) (hn : V3.dot n n ≠ 0) :
    ∃ R, minRight (lineSlab a b h n).right (lineInfiniteCylinder a b r n).right = some R := by
  by_cases hnd : V3.dot n a = 0
  · have hq : V3.dot (V3.cross n a) (V3.cross n a) ≠ 0 := by
      intro hq; apply hn
      have := lagrange n a
      rw [hq, hnd, ha] at this; linarith
    obtain ⟨x, hx⟩ := lineCyl_right a b n r hq
    rw [hx]
    cases (lineSlab a b h n).right with
    | none => exact ⟨x, rfl⟩
    | some y => exact ⟨minW y x, rfl⟩
  · obtain ⟨y, hy⟩ := lineSlab_right a b n h hnd
    rw [hy]
    cases (lineInfiniteCylinder a b r n).right with
    | none => exact ⟨y, rfl⟩
    | some x => exact ⟨minW y x, rfl⟩

def wsum : List (ℝ × ℝ) → ℝ
  | [] => 0
  | (w, _) :: rest => w + wsum rest

theorem wt_pos (mu : ℝ) : ∀ (wl : List (ℝ × ℝ)), wl ≠ [] → (∀ p ∈ wl, 0 < p.1) → 0 < weightedTransmission mu wl
  | [], h, _ => absurd rfl h
  | [(w, l)], _, hw => by
      have := hw (w, l) (by simp)
      simp only [weightedTransmission, trans_exp_real]
      have := Real.exp_pos (-(mu * l))
      positivity
  | (w, l) :: p2 :: rest, _, hw => by
      have h1 := hw (w, l) (by simp)
      have ih := wt_pos mu (p2 :: rest) (by simp) (fun p hp => hw p (by simp [hp]))
      simp only [weightedTransmission, trans_exp_real] at ih ⊢
      have := Real.exp_pos (-(mu * l))
      positivity

theorem wt_le_wsum (mu : ℝ) (hmu : 0 ≤ mu) : ∀ (wl : List (ℝ × ℝ)), (∀ p ∈ wl, 0 < p.1 ∧ 0 ≤ p.2) →
    weightedTransmission mu wl ≤ wsum wl
  | [], _ => le_refl _
  | (w, l) :: rest, hw => by
      have ⟨h1, h2⟩ := hw (w, l) (by simp)
      have ih := wt_le_wsum mu hmu rest (fun p hp => hw p (by simp [hp]))
      simp only [weightedTransmission, trans_exp_real, wsum]
      have : Real.exp (-(mu * l)) ≤ 1 := by
        rw [Real.exp_le_one_iff]; nlinarith [mul_nonneg hmu h2]
      nlinarith

theorem wt_zero : ∀ (wl : List (ℝ × ℝ)), weightedTransmission 0 wl = wsum wl
  | [] => rfl
  | (w, l) :: rest => by
      simp only [weightedTransmission, trans_exp_real, wsum, wt_zero rest]; simp

theorem wt_antitone (m1 m2 : ℝ) (hm : m1 ≤ m2) : ∀ (wl : List (ℝ × ℝ)), (∀ p ∈ wl, 0 < p.1 ∧ 0 ≤ p.2) →
    weightedTransmission m2 wl ≤ weightedTransmission m1 wl
  | [], _ => le_refl _
  | (w, l) :: rest, hw => by
      have ⟨h1, h2⟩ := hw (w, l) (by simp)
      have ih := wt_antitone m1 m2 hm rest (fun p hp => hw p (by simp [hp]))
      simp only [weightedTransmission, trans_exp_real]
      have : Real.exp (-(m2 * l)) ≤ Real.exp (-(m1 * l)) := by
        rw [Real.exp_le_exp]; nlinarith [mul_le_mul_of_nonneg_right hm h2]
      nlinarith

def vneg (a : V3 ℝ) : V3 ℝ := ⟨-a.x, -a.y, -a.z⟩

theorem cyl_other_end (a b n : V3 ℝ) (r h : ℝ) (ha : V3.dot a a = 1) :
    lineInfiniteCylinder (vneg a) (V3.add b (V3.smul h a)) r n = lineInfiniteCylinder a b r n := by
  have h1 : V3.dot (V3.cross n (vneg a)) (V3.cross n (vneg a)) = V3.dot (V3.cross n a) (V3.cross n a) := by
    simp only [V3.dot, V3.cross, vneg]; ring
  have h2 : V3.dot (V3.add b (V3.smul h a)) (V3.cross n (vneg a)) * V3.dot (V3.add b (V3.smul h a)) (V3.cross n (vneg a))
      = V3.dot b (V3.cross n a) * V3.dot b (V3.cross n a) := by
    simp only [V3.dot, V3.cross, V3.add, V3.smul, vneg]; ring
  have h3 : V3.dot (V3.cross n (vneg a)) (V3.cross (V3.add b (V3.smul h a)) (vneg a))
      = V3.dot (V3.cross n a) (V3.cross b a) := by
    simp only [V3.dot, V3.cross, V3.add, V3.smul, vneg]; ring
  have h4 : V3.sub (V3.add b (V3.smul h a)) (V3.smul (V3.dot (V3.add b (V3.smul h a)) (vneg a)) (vneg a))
      = V3.sub b (V3.smul (V3.dot b a) a) := by
    simp only [V3.dot, V3.sub, V3.add, V3.smul, vneg, V3.mk.injEq] at ha ⊢
    refine ⟨?_, ?_, ?_⟩
    · linear_combination (-h * a.x) * ha
    · linear_combination (-h * a.y) * ha
    · linear_combination (-h * a.z) * ha
  simp only [lineInfiniteCylinder_eq_old, lineInfiniteCylinderOld, h1, h2, h3, h4]

theorem decide_congr {p q : Prop} [Decidable p] [Decidable q] (h : p ↔ q) : decide p = decide q := by
  simp only [h]

theorem slab_other_end (a b n : V3 ℝ) (h : ℝ) (ha : V3.dot a a = 1) :
    lineSlab (vneg a) (V3.add b (V3.smul h a)) h n = lineSlab a b h n := by
  have h1 : V3.dot n (vneg a) = -V3.dot n a := by simp only [V3.dot, vneg]; ring
  have h2 : V3.dot (V3.add b (V3.smul h a)) (vneg a) = -V3.dot b a - h := by
    simp only [V3.dot, V3.add, V3.smul, vneg] at ha ⊢
    linear_combination (-h) * ha
  have hz : isZero (-V3.dot n a) = isZero (V3.dot n a) := by
    simp only [isZero]
    rw [Bool.and_comm]
    congr 1 <;> apply decide_congr <;> constructor <;> intro _ <;> linarith
  simp only [lineSlab, h1, h2, hz, minW_eq, maxW_eq]
  generalize V3.dot n a = nd
  generalize V3.dot b a = bd
  have e1 : (-bd - h) / -nd = bd / nd + h / nd := by
    rw [← add_div, ← neg_add', neg_div_neg_eq]
  have e2 : (-bd - h) / -nd + h / -nd = bd / nd := by
    rw [e1, div_neg]; ring
  rw [e2, e1, min_comm, max_comm]
  have e3 : (decide (-bd - h ≤ 0) && decide (-h ≤ -bd - h)) = (decide (bd ≤ 0) && decide (-h ≤ bd)) := by
    rw [Bool.and_comm]
    congr 1 <;> apply decide_congr <;> constructor <;> intro _ <;> linarith
  rw [e3]

theorem lagrange' (u v : V3 ℝ) :
    V3.dot (V3.cross u v) (V3.cross u v) = V3.dot u u * V3.dot v v - V3.dot u v ^ 2 := by
  simp only [V3.dot, V3.cross]; ring

theorem binet (u v w : V3 ℝ) :
    V3.dot (V3.cross u v) (V3.cross w v) = V3.dot u w * V3.dot v v - V3.dot u v * V3.dot v w := by
  simp only [V3.dot, V3.cross]; ring

theorem triple_sq (u v w : V3 ℝ) :
    V3.dot u (V3.cross v w) * V3.dot u (V3.cross v w) =
      V3.dot u u * V3.dot v v * V3.dot w w + 2 * V3.dot u v * V3.dot v w * V3.dot u w
        - V3.dot u u * V3.dot v w ^ 2 - V3.dot v v * V3.dot u w ^ 2 - V3.dot w w * V3.dot u v ^ 2 := by
  simp only [V3.dot, V3.cross]; ring

theorem perp_sq (u v : V3 ℝ) :
    V3.dot (V3.sub u (V3.smul (V3.dot u v) v)) (V3.sub u (V3.smul (V3.dot u v) v)) =
      V3.dot u u - 2 * V3.dot u v ^ 2 + V3.dot u v ^ 2 * V3.dot v v := by
  simp only [V3.dot, V3.sub, V3.smul]; ring

theorem cyl_congr (a b n a' b' n' : V3 ℝ) (r : ℝ)
    (haa : V3.dot a' a' = V3.dot a a) (hbb : V3.dot b' b' = V3.dot b b) (hnn : V3.dot n' n' = V3.dot n n)
    (hna : V3.dot n' a' = V3.dot n a) (hba : V3.dot b' a' = V3.dot b a) (hbn : V3.dot b' n' = V3.dot b n) :
    lineInfiniteCylinder a' b' r n' = lineInfiniteCylinder a b r n := by
  have hnb : V3.dot n' b' = V3.dot n b := by
    have e1 : V3.dot n' b' = V3.dot b' n' := by simp only [V3.dot]; ring
    have e2 : V3.dot n b = V3.dot b n := by simp only [V3.dot]; ring
    rw [e1, e2, hbn]
  have hab : V3.dot a' b' = V3.dot a b := by
    have e1 : V3.dot a' b' = V3.dot b' a' := by simp only [V3.dot]; ring
    have e2 : V3.dot a b = V3.dot b a := by simp only [V3.dot]; ring
    rw [e1, e2, hba]
  have h1 : V3.dot (V3.cross n' a') (V3.cross n' a') = V3.dot (V3.cross n a) (V3.cross n a) := by
    rw [lagrange', lagrange', hnn, haa, hna]
  have h2 : V3.dot b' (V3.cross n' a') * V3.dot b' (V3.cross n' a') = V3.dot b (V3.cross n a) * V3.dot b (V3.cross n a) := by
    rw [triple_sq, triple_sq, hbb, hnn, haa, hbn, hna, hba]
  have h3 : V3.dot (V3.cross n' a') (V3.cross b' a') = V3.dot (V3.cross n a) (V3.cross b a) := by
    rw [binet, binet, hnb, haa, hna, hab]
  have h4 : V3.norm (V3.sub b' (V3.smul (V3.dot b' a') a')) = V3.norm (V3.sub b (V3.smul (V3.dot b a) a)) := by
    simp only [V3.norm]; rw [perp_sq, perp_sq, hbb, hba, haa]
  simp only [lineInfiniteCylinder_eq_old, lineInfiniteCylinderOld, h1, h2, h3, h4]

theorem slab_congr (a b n a' b' n' : V3 ℝ) (h : ℝ)
    (hna : V3.dot n' a' = V3.dot n a) (hba : V3.dot b' a' = V3.dot b a) :
    lineSlab a' b' h n' = lineSlab a b h n := by
  simp only [lineSlab, hna, hba]

def rodrigues (k : V3 ℝ) (c s : ℝ) (v : V3 ℝ) : V3 ℝ :=
  V3.add (V3.add (V3.smul c v) (V3.smul s (V3.cross k v))) (V3.smul ((1 - c) * V3.dot k v) k)

theorem rodrigues_dot (k v w : V3 ℝ) (c s : ℝ) (hk : V3.dot k k = 1) (hcs : c ^ 2 + s ^ 2 = 1) :
    V3.dot (rodrigues k c s v) (rodrigues k c s w) = V3.dot v w := by
  simp only [rodrigues, V3.dot, V3.add, V3.smul, V3.cross] at hk ⊢
  linear_combination
    ((v.x * w.x + v.y * w.y + v.z * w.z) - (k.x * v.x + k.y * v.y + k.z * v.z) * (k.x * w.x + k.y * w.y + k.z * w.z)) * hcs
    + (s ^ 2 * (v.x * w.x + v.y * w.y + v.z * w.z)
        + (1 - c) ^ 2 * (k.x * v.x + k.y * v.y + k.z * v.z) * (k.x * w.x + k.y * w.y + k.z * w.z)) * hk

theorem zcross (a : V3 ℝ) : V3.cross (zhat : V3 ℝ) a = ⟨-a.y, a.x, 0⟩ := by
  simp only [V3.cross, zhat, V3.mk.injEq]; refine ⟨by ring, by ring, by ring⟩

theorem zdot (a : V3 ℝ) : V3.dot (zhat : V3 ℝ) a = a.z := by
  simp only [V3.dot, zhat]; ring

/-! ## disk tables -/


/-- `π·10^20` lies strictly between these (Mathlib `Real.pi_gt_d20`, `Real.pi_lt_d20`) -/
def piLo : Int := 314159265358979323846
def piHi : Int := 314159265358979323847
def ten20 : Int := 100000000000000000000

/-- integer numerator of the moment `Σ w xⁱ yʲ` of a table of numerators -/
def momNum (i j : Nat) : List (Int × Int × Int) → Int
  | [] => 0
  | (x, y, w) :: rest => w * x ^ i * y ^ j + momNum i j rest

/-- every weight positive, every node in the closed unit disk -/
def rowsOk (den : Int) (rows : List (Int × Int × Int)) : Bool :=
  rows.all fun r => decide (0 < r.2.2) && decide (r.1 * r.1 + r.2.1 * r.2.1 ≤ den * den)

/-- `|M_ij / den^(i+j+1) − (p/q)·π| ≤ E / 10^20`, decided by integer cross-multiplication -/
def momOk (den : Int) (rows : List (Int × Int × Int)) (i j : Nat) (p q E : Int) : Bool :=
  decide (p * piHi * den ^ (i + j + 1) - E * q * den ^ (i + j + 1) ≤ momNum i j rows * q * ten20) &&
  decide (momNum i j rows * q * ten20 ≤ p * piLo * den ^ (i + j + 1) + E * q * den ^ (i + j + 1))

/-- all table facts used below, as one Boolean pass: positivity, nodes in the disk, and every monomial
    moment up to degree 3 within `E/10^20` of its exact value (π, 0, 0, π/4, 0, π/4, 0, 0, 0, 0) -/
def tableOk (den : Int) (rows : List (Int × Int × Int)) (E : Int) : Bool :=
  decide (0 < den) && rowsOk den rows &&
  momOk den rows 0 0 1 1 E && momOk den rows 1 0 0 1 E && momOk den rows 0 1 0 1 E &&
  momOk den rows 2 0 1 4 E && momOk den rows 1 1 0 1 E && momOk den rows 0 2 1 4 E &&
  momOk den rows 3 0 0 1 E && momOk den rows 2 1 0 1 E && momOk den rows 1 2 0 1 E && momOk den rows 0 3 0 1 E

/-- the table over ℝ: numerators divided by the common denominator -/
noncomputable def realDisk (den : Nat) (rows : List (Int × Int × Int)) : List (ℝ × ℝ × ℝ) :=
  rows.map fun r => ((r.1 : ℝ) / den, (r.2.1 : ℝ) / den, (r.2.2 : ℝ) / den)

/-- moment `Σ w xⁱ yʲ` of a disk rule -/
def rmom (i j : Nat) : List (ℝ × ℝ × ℝ) → ℝ
  | [] => 0
  | (x, y, w) :: rest => w * x ^ i * y ^ j + rmom i j rest

theorem rmom_realDisk (den : Nat) (hden : 0 < den) (i j : Nat) : ∀ rows : List (Int × Int × Int),
    rmom i j (realDisk den rows) = (momNum i j rows : ℝ) / (den : ℝ) ^ (i + j + 1)
  | [] => by simp [realDisk, rmom, momNum]
  | (x, y, w) :: rest => by
      have ih := rmom_realDisk den hden i j rest
      simp only [realDisk, List.map_cons, rmom, momNum] at ih ⊢
      rw [ih]
      have hd : (den : ℝ) ≠ 0 := by positivity
      push_cast
      rw [div_pow, div_pow, pow_succ, pow_add]
      field_simp

theorem momOk_real (den : Int) (rows : List (Int × Int × Int)) (i j : Nat) (p q E : Int)
    (hden : 0 < den) (hp : 0 ≤ p) (hq : 0 < q) (h : momOk den rows i j p q E = true) :
    |(momNum i j rows : ℝ) / (den : ℝ) ^ (i + j + 1) - (p : ℝ) / q * Real.pi| ≤ (E : ℝ) / 10 ^ 20 := by
  simp only [momOk, Bool.and_eq_true, decide_eq_true_eq] at h
  obtain ⟨h1, h2⟩ := h
  have h1r : ((p * piHi * den ^ (i + j + 1) - E * q * den ^ (i + j + 1) : Int) : ℝ)
      ≤ ((momNum i j rows * q * ten20 : Int) : ℝ) := by exact_mod_cast h1
  have h2r : ((momNum i j rows * q * ten20 : Int) : ℝ)
      ≤ ((p * piLo * den ^ (i + j + 1) + E * q * den ^ (i + j + 1) : Int) : ℝ) := by exact_mod_cast h2
  push_cast at h1r h2r
  have hD : (0 : ℝ) < (den : ℝ) ^ (i + j + 1) := by
    have : (0 : ℝ) < (den : ℝ) := by exact_mod_cast hden
    positivity
  generalize (den : ℝ) ^ (i + j + 1) = D at *
  generalize (momNum i j rows : ℝ) = M at *
  have hqr : (0 : ℝ) < q := by exact_mod_cast hq
  have hpr : (0 : ℝ) ≤ p := by exact_mod_cast hp
  have hlo : (piLo : ℝ) / 10 ^ 20 < Real.pi := by
    have := Real.pi_gt_d20; simp only [piLo]; norm_num at this ⊢; linarith
  have hhi : Real.pi < (piHi : ℝ) / 10 ^ 20 := by
    have := Real.pi_lt_d20; simp only [piHi]; norm_num at this ⊢; linarith
  have ht : ((ten20 : Int) : ℝ) = 10 ^ 20 := by simp only [ten20]; norm_num
  rw [ht] at h1r h2r
  rw [abs_le]
  have e : M / D - (p : ℝ) / q * Real.pi = (M * q * 10 ^ 20 - p * Real.pi * 10 ^ 20 * D) / (q * 10 ^ 20 * D) := by
    field_simp
  have hden' : (0 : ℝ) < q * 10 ^ 20 * D := by positivity
  rw [e]
  constructor
  · rw [le_div_iff₀ hden']
    have : (p : ℝ) * Real.pi * 10 ^ 20 * D ≤ p * piHi * D := by
      have : Real.pi * 10 ^ 20 ≤ piHi := by
        have := hhi; rw [lt_div_iff₀ (by positivity)] at this; linarith
      nlinarith [mul_nonneg hpr (le_of_lt hD)]
    have e2 : -((E : ℝ) / 10 ^ 20) * (q * 10 ^ 20 * D) = -(E * q * D) := by field_simp
    rw [e2]; linarith
  · rw [div_le_iff₀ hden']
    have : (p : ℝ) * piLo * D ≤ p * Real.pi * 10 ^ 20 * D := by
      have : (piLo : ℝ) ≤ Real.pi * 10 ^ 20 := by
        have := hlo; rw [div_lt_iff₀ (by positivity)] at this; linarith
      nlinarith [mul_nonneg hpr (le_of_lt hD)]
    have e2 : ((E : ℝ) / 10 ^ 20) * (q * 10 ^ 20 * D) = E * q * D := by field_simp
    rw [e2]; linarith


/-! ## product rule -/

/-- a line rule on [−1, 1]: nodes in the interval, positive weights summing to 2 -/
structure LineOk (line : List (ℝ × ℝ)) : Prop where
  node : ∀ l ∈ line, -1 ≤ l.1 ∧ l.1 ≤ 1
  pos : ∀ l ∈ line, 0 < l.2
  sum : sumList (line.map (·.2)) = 2

theorem sumList_append (l1 l2 : List ℝ) : sumList (l1 ++ l2) = sumList l1 + sumList l2 := by
  induction l1 with
  | nil => simp [sumList]
  | cons x xs ih => simp only [List.cons_append, sumList, ih]; ring

theorem sumList_map_mul {β : Type} (f : β → ℝ) (c : ℝ) (l : List β) :
    sumList (l.map fun b => c * f b) = c * sumList (l.map f) := by
  induction l with
  | nil => simp [sumList]
  | cons x xs ih => simp only [List.map_cons, sumList, ih]; ring

theorem mem_productRule (disk : List (ℝ × ℝ × ℝ)) (line : List (ℝ × ℝ)) (qw : V3 ℝ × ℝ) :
    qw ∈ productRule disk line ↔ ∃ d ∈ disk, ∃ l ∈ line, qw = (⟨d.1, d.2.1, l.1⟩, d.2.2 * l.2) := by
  simp only [productRule, List.mem_flatMap, List.mem_map]
  constructor
  · rintro ⟨d, hd, l, hl, rfl⟩; exact ⟨d, hd, l, hl, rfl⟩
  · rintro ⟨d, hd, l, hl, rfl⟩; exact ⟨d, hd, l, hl, rfl⟩

theorem sum_productRule (k : ℝ) (line : List (ℝ × ℝ)) : ∀ disk : List (ℝ × ℝ × ℝ),
    sumList ((productRule disk line).map fun qw => qw.2 * k) = rmom 0 0 disk * sumList (line.map (·.2)) * k
  | [] => by simp [productRule, sumList, rmom]
  | (x, y, w) :: ds => by
      have ih := sum_productRule k line ds
      simp only [productRule, List.flatMap_cons, List.map_append, List.map_map, sumList_append, rmom,
        pow_zero, mul_one] at ih ⊢
      rw [ih]
      have : sumList (List.map ((fun qw : V3 ℝ × ℝ => qw.2 * k) ∘ fun l : ℝ × ℝ => (({ x := x, y := y, z := l.1 } : V3 ℝ), w * l.2)) line)
          = w * k * sumList (line.map (·.2)) := by
        rw [← sumList_map_mul]
        congr 1
        apply List.map_congr_left
        intro l _; simp only [Function.comp]; ring
      rw [this]; ring

/-! ## line-rule moments -/

/-- moment `Σ w zᵏ` of a line rule -/
def lmom (k : Nat) : List (ℝ × ℝ) → ℝ
  | [] => 0
  | (z, w) :: rest => w * z ^ k + lmom k rest

theorem lmom_eq (k : Nat) (c : ℝ) : ∀ line : List (ℝ × ℝ),
    sumList (line.map fun l => c * (l.2 * l.1 ^ k)) = c * lmom k line
  | [] => by simp [sumList, lmom]
  | (z, w) :: rest => by
      simp only [List.map_cons, sumList, lmom, lmom_eq k c rest]; ring

theorem lmom_zero : ∀ line : List (ℝ × ℝ), lmom 0 line = sumList (line.map (·.2))
  | [] => rfl
  | (z, w) :: rest => by simp only [lmom, List.map_cons, sumList, lmom_zero rest, pow_zero, mul_one]

theorem sumList_map_lin3 {β : Type} (f1 f2 f3 : β → ℝ) (A B C : ℝ) : ∀ l : List β,
    sumList (l.map fun b => A * f1 b + B * f2 b + C * f3 b)
      = A * sumList (l.map f1) + B * sumList (l.map f2) + C * sumList (l.map f3)
  | [] => by simp [sumList]
  | b :: bs => by simp only [List.map_cons, sumList, sumList_map_lin3 f1 f2 f3 A B C bs]; ring


end ScnVerif.Cylinder
