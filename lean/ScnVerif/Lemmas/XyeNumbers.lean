import ScnVerif.Model.Xye
import ScnVerif.Lemmas.Binary64
import Mathlib.Tactic.Ring
import Mathlib.Tactic.Linarith
import Mathlib.Tactic.NormNum
import Mathlib.Tactic.Positivity
import Mathlib.Tactic.FieldSimp
import Mathlib.Data.Real.Basic
import Mathlib.Algebra.Order.Field.Power
/-!
# Number-level lemmas for C15: the exact `%.18e` printer

* `roundHalfEven_spec`, `digitsAt_half_ulp` — rounding to half a unit;
* `decExp_spec` — the decimal exponent brackets the value (`10^k ≤ v < 10^(k+1)`), by construction
  of `decExp` (checked fast path, plain search otherwise);
* `sci19_spec` — the 19 digits `D` and exponent `k` of `sci19`: `10^18 ≤ D < 10^19` and
  `|D·10^(k-18) - v| ≤ ½·10^-18·v`.
-/
namespace ScnVerif.Xye

theorem roundHalfEven_spec (n d : Nat) (hd : 0 < d) :
    2 * n ≤ 2 * (roundHalfEven n d * d) + d ∧ 2 * (roundHalfEven n d * d) ≤ 2 * n + d := by
  have hdm := Nat.div_add_mod n d
  have hlt := Nat.mod_lt n hd
  unfold roundHalfEven
  simp only
  generalize hq : n / d = q at *
  generalize hr : n % d = r at *
  have hqd : d * q = q * d := Nat.mul_comm _ _
  split
  · constructor <;> nlinarith
  · split
    · constructor <;> nlinarith
    · split
      · constructor <;> nlinarith
      · constructor <;> nlinarith

/-- the 19-digit integer the printer emits is within one half of the exactly scaled value -/
theorem half_of_scaled (R q d : ℝ) (hd : 0 < d) (lo : 2 * (q * d) ≤ 2 * (R * d) + d)
    (hi : 2 * (R * d) ≤ 2 * (q * d) + d) : |R - q| ≤ 1 / 2 := by
  rw [abs_le]
  constructor
  · by_contra h; rw [not_le] at h
    have := mul_pos_iff_of_pos_right hd |>.mpr (sub_pos.mpr h)
    nlinarith
  · by_contra h; rw [not_le] at h
    have := mul_pos_iff_of_pos_right hd |>.mpr (sub_pos.mpr h)
    nlinarith

theorem digitsAt_half_ulp (num den : Nat) (hden : 0 < den) (k : Int) :
    |(digitsAt num den k : ℝ) - (num : ℝ) / den * (10 : ℝ) ^ (18 - k)| ≤ 1 / 2 := by
  have hdpos : (0 : ℝ) < den := by exact_mod_cast hden
  unfold digitsAt
  split
  · rename_i hk
    obtain ⟨n, hn⟩ := Int.eq_ofNat_of_zero_le (show (0 : ℤ) ≤ 18 - k by omega)
    rw [hn]
    simp only [Int.toNat_natCast, zpow_natCast]
    obtain ⟨lo, hi⟩ := roundHalfEven_spec (num * 10 ^ n) den hden
    set R : ℕ := roundHalfEven (num * 10 ^ n) den
    have lo' : (2 : ℝ) * (num * 10 ^ n) ≤ 2 * (R * den) + den := by exact_mod_cast lo
    have hi' : (2 : ℝ) * (R * den) ≤ 2 * (num * 10 ^ n) + den := by exact_mod_cast hi
    have hq : (num : ℝ) / den * 10 ^ n * den = num * 10 ^ n := by field_simp
    apply half_of_scaled _ _ _ hdpos <;> rw [hq] <;> assumption
  · rename_i hk
    obtain ⟨n, hn⟩ := Int.eq_ofNat_of_zero_le (show (0 : ℤ) ≤ k - 18 by omega)
    rw [show (18 - k) = -(k - 18) by ring, hn]
    simp only [Int.toNat_natCast, zpow_neg, zpow_natCast]
    have hPpos : 0 < den * 10 ^ n := Nat.mul_pos hden (by positivity)
    obtain ⟨lo, hi⟩ := roundHalfEven_spec num (den * 10 ^ n) hPpos
    set R : ℕ := roundHalfEven num (den * 10 ^ n)
    have lo' : (2 : ℝ) * num ≤ 2 * (R * (den * 10 ^ n)) + den * 10 ^ n := by exact_mod_cast lo
    have hi' : (2 : ℝ) * (R * (den * 10 ^ n)) ≤ 2 * num + den * 10 ^ n := by exact_mod_cast hi
    have hdP : (0 : ℝ) < den * 10 ^ n := by positivity
    have hq : (num : ℝ) / den * ((10 : ℝ) ^ n)⁻¹ * (den * 10 ^ n) = num := by field_simp
    apply half_of_scaled _ _ _ hdP <;> rw [hq] <;> assumption


/-! ## decimal exponent -/

theorem geTenPow_iff (num den : Nat) (hden : 0 < den) (k : Int) :
    geTenPow num den k = true ↔ (10 : ℝ) ^ k ≤ (num : ℝ) / den := by
  have hd : (0 : ℝ) < den := by exact_mod_cast hden
  unfold geTenPow
  split
  · rename_i hk
    obtain ⟨n, rfl⟩ := Int.eq_ofNat_of_zero_le hk
    simp only [Int.toNat_natCast, decide_eq_true_eq, zpow_natCast]
    rw [le_div_iff₀ hd]
    constructor
    · intro h; have : ((den * 10 ^ n : ℕ) : ℝ) ≤ num := by exact_mod_cast h
      push_cast at this; linarith
    · intro h; have : ((den * 10 ^ n : ℕ) : ℝ) ≤ num := by push_cast; linarith
      exact_mod_cast this
  · rename_i hk
    obtain ⟨n, hn⟩ := Int.eq_ofNat_of_zero_le (show (0 : ℤ) ≤ -k by omega)
    have hk' : k = -(n : ℤ) := by omega
    subst hk'
    simp only [neg_neg, Int.toNat_natCast, decide_eq_true_eq, zpow_neg, zpow_natCast]
    have hp : (0 : ℝ) < 10 ^ n := by positivity
    rw [le_div_iff₀ hd, inv_mul_le_iff₀ hp]
    constructor
    · intro h; have : ((den : ℕ) : ℝ) ≤ ((num * 10 ^ n : ℕ) : ℝ) := by exact_mod_cast h
      push_cast at this; linarith
    · intro h; have : ((den : ℕ) : ℝ) ≤ ((num * 10 ^ n : ℕ) : ℝ) := by push_cast; linarith
      exact_mod_cast this

theorem decExpDown_spec (num den : Nat) : ∀ (fuel : Nat) (k : Int),
    geTenPow num den (k + 1) = false → geTenPow num den (k - fuel) = true →
    geTenPow num den (decExpDown num den fuel k) = true ∧
      geTenPow num den (decExpDown num den fuel k + 1) = false := by
  intro fuel
  induction fuel with
  | zero =>
    intro k h1 h2
    have h2' : geTenPow num den k = true := by simpa using h2
    exact ⟨h2', h1⟩
  | succ f ih =>
    intro k h1 h2
    unfold decExpDown
    split
    · rename_i h; exact ⟨h, h1⟩
    · rename_i h
      apply ih
      · simpa using h
      · have : k - 1 - (f : ℤ) = k - ((f + 1 : ℕ) : ℤ) := by push_cast; ring
        rw [this]; exact h2

/-- `decExp` brackets the value, whatever the estimate it starts from -/
theorem decExp_spec (num den : Nat) (hlo : geTenPow num den (-400) = true)
    (hhi : geTenPow num den 401 = false) :
    geTenPow num den (decExp num den) = true ∧ geTenPow num den (decExp num den + 1) = false := by
  unfold decExp
  simp only
  split
  · rename_i h
    simp only [Bool.and_eq_true, Bool.not_eq_eq_eq_not, Bool.not_true] at h
    exact h
  · exact decExpDown_spec num den 800 400 hhi (by simpa using hlo)

/-! ## the 19 digits -/

theorem digitsAt_range (num den : Nat) (hden : 0 < den) (k : Int)
    (h1 : (10 : ℝ) ^ k ≤ (num : ℝ) / den) (h2 : (num : ℝ) / den < (10 : ℝ) ^ (k + 1)) :
    10 ^ 18 ≤ digitsAt num den k ∧ digitsAt num den k ≤ 10 ^ 19 := by
  have hh := abs_le.mp (digitsAt_half_ulp num den hden k)
  have hp : (0 : ℝ) < (10 : ℝ) ^ (18 - k) := by positivity
  have e1 : (10 : ℝ) ^ k * (10 : ℝ) ^ (18 - k) = 10 ^ 18 := by
    rw [← zpow_add₀ (by norm_num), show k + (18 - k) = 18 by ring]; norm_cast
  have e2 : (10 : ℝ) ^ (k + 1) * (10 : ℝ) ^ (18 - k) = 10 ^ 19 := by
    rw [← zpow_add₀ (by norm_num), show k + 1 + (18 - k) = 19 by ring]; norm_cast
  have lo : (10 : ℝ) ^ 18 ≤ (num : ℝ) / den * (10 : ℝ) ^ (18 - k) := by
    rw [← e1]; exact mul_le_mul_of_nonneg_right h1 hp.le
  have hi : (num : ℝ) / den * (10 : ℝ) ^ (18 - k) < 10 ^ 19 := by
    rw [← e2]; exact mul_lt_mul_of_pos_right h2 hp
  constructor
  · have : ((10 ^ 18 - 1 : ℕ) : ℝ) < (digitsAt num den k : ℝ) := by push_cast; linarith [hh.1]
    have := Nat.cast_lt.mp this
    omega
  · have : (digitsAt num den k : ℝ) < ((10 ^ 19 + 1 : ℕ) : ℝ) := by push_cast; linarith [hh.2]
    have := Nat.cast_lt.mp this
    omega

/-- **the printer's digits**: for a positive value `v = num/den` inside `[10^-400, 10^401)`,
`sci19` returns 19 significant digits `10^18 ≤ D < 10^19` and an exponent `k` with
`|D·10^(k-18) - v| ≤ ½·10^-18·v` -/
theorem sci19_spec (num den : Nat) (hden : 0 < den) (hlo : geTenPow num den (-400) = true)
    (hhi : geTenPow num den 401 = false) :
    10 ^ 18 ≤ (sci19 num den).1 ∧ (sci19 num den).1 < 10 ^ 19 ∧
    |((sci19 num den).1 : ℝ) * (10 : ℝ) ^ ((sci19 num den).2 - 18) - (num : ℝ) / den|
      ≤ 1 / 2 * (10 : ℝ) ^ (-18 : ℤ) * ((num : ℝ) / den) := by
  obtain ⟨hk1, hk2⟩ := decExp_spec num den hlo hhi
  set k := decExp num den with hk
  have h1 := (geTenPow_iff num den hden k).mp hk1
  have h2 : (num : ℝ) / den < (10 : ℝ) ^ (k + 1) := by
    by_contra h; rw [not_lt] at h
    have := (geTenPow_iff num den hden (k + 1)).mpr h
    rw [hk2] at this; cases this
  obtain ⟨r1, r2⟩ := digitsAt_range num den hden k h1 h2
  have hh := digitsAt_half_ulp num den hden k
  have hq : (0 : ℝ) < (10 : ℝ) ^ (k - 18) := by positivity
  have einv : (10 : ℝ) ^ (18 - k) * (10 : ℝ) ^ (k - 18) = 1 := by
    rw [← zpow_add₀ (by norm_num), show 18 - k + (k - 18) = 0 by ring, zpow_zero]
  -- absolute error after scaling back
  have habs : |(digitsAt num den k : ℝ) * (10 : ℝ) ^ (k - 18) - (num : ℝ) / den|
      ≤ 1 / 2 * (10 : ℝ) ^ (k - 18) := by
    have : (digitsAt num den k : ℝ) * (10 : ℝ) ^ (k - 18) - (num : ℝ) / den
        = ((digitsAt num den k : ℝ) - (num : ℝ) / den * (10 : ℝ) ^ (18 - k)) * (10 : ℝ) ^ (k - 18) := by
      rw [sub_mul, mul_assoc, einv, mul_one]
    rw [this, abs_mul, abs_of_pos hq]
    exact mul_le_mul_of_nonneg_right hh hq.le
  have hrel : 1 / 2 * (10 : ℝ) ^ (k - 18) ≤ 1 / 2 * (10 : ℝ) ^ (-18 : ℤ) * ((num : ℝ) / den) := by
    have : (10 : ℝ) ^ (k - 18) = (10 : ℝ) ^ (-18 : ℤ) * (10 : ℝ) ^ k := by
      rw [← zpow_add₀ (by norm_num)]; ring_nf
    rw [this, mul_assoc]
    have h18 : (0 : ℝ) < (10 : ℝ) ^ (-18 : ℤ) := by positivity
    nlinarith [mul_le_mul_of_nonneg_left h1 h18.le]
  unfold sci19
  simp only [← hk]
  split
  · rename_i hD
    refine ⟨le_refl _, by norm_num, ?_⟩
    have e : ((10 ^ 18 : ℕ) : ℝ) * (10 : ℝ) ^ (k + 1 - 18) = (digitsAt num den k : ℝ) * (10 : ℝ) ^ (k - 18) := by
      rw [hD]; push_cast
      rw [show k + 1 - 18 = (k - 18) + 1 by ring, zpow_add₀ (by norm_num)]; ring
    simp only
    rw [e]; exact le_trans habs hrel
  · rename_i hD
    exact ⟨r1, lt_of_le_of_ne r2 hD, le_trans habs hrel⟩

/-! ## from bit patterns to the printed digits -/

/-- integer significand of a bit pattern (hidden bit included for normal numbers) -/
def sigOf (b : Nat) : Nat := if (decode b).2.1 = 0 then (decode b).2.2 else (decode b).2.2 + 2 ^ 52
/-- exponent of the unit in the last place -/
def expOf (b : Nat) : Int := ((if (decode b).2.1 = 0 then 1 else (decode b).2.1 : Nat) : Int) - 1075
/-- `|x|` of the finite binary64 with bit pattern `b` -/
noncomputable def absReal (b : Nat) : ℝ := (sigOf b : ℝ) * (2 : ℝ) ^ expOf b

theorem decode_bounds (b : Nat) : (decode b).2.1 < 2048 ∧ (decode b).2.2 < 2 ^ 52 := by
  simp only [decode]; constructor <;> omega

theorem sigOf_lt (b : Nat) : sigOf b < 2 ^ 53 := by
  have := (decode_bounds b).2
  unfold sigOf; split <;> omega

theorem expOf_range (b : Nat) (hfin : (decode b).2.1 ≠ 2047) : -1074 ≤ expOf b ∧ expOf b ≤ 971 := by
  have := (decode_bounds b).1
  unfold expOf; split <;> constructor <;> omega

theorem valueFrac_spec (ef m : Nat) :
    0 < (valueFrac ef m).2 ∧
    ((valueFrac ef m).1 : ℝ) / (valueFrac ef m).2
      = (m : ℝ) * (2 : ℝ) ^ (((if ef = 0 then 1 else ef : Nat) : Int) - 1075) := by
  unfold valueFrac
  simp only
  generalize (((if ef = 0 then 1 else ef : Nat) : Int) - 1075) = E
  split
  · rename_i h
    obtain ⟨n, rfl⟩ := Int.eq_ofNat_of_zero_le h
    simp
  · rename_i h
    obtain ⟨n, hn⟩ := Int.eq_ofNat_of_zero_le (show (0 : ℤ) ≤ -E by omega)
    have hk : E = -(n : ℤ) := by omega
    subst hk
    simp only [neg_neg, Int.toNat_natCast, zpow_neg, zpow_natCast]
    refine ⟨by positivity, ?_⟩
    push_cast; rw [div_eq_mul_inv]

theorem two_pow_1074_le : (2 : ℝ) ^ 1074 ≤ 10 ^ 400 := by
  have h : (2 : ℕ) ^ 1074 ≤ 10 ^ 400 := by decide +kernel
  exact_mod_cast h
theorem two_pow_1024_le : (2 : ℝ) ^ 1024 ≤ 10 ^ 401 := by
  have h : (2 : ℕ) ^ 1024 ≤ 10 ^ 401 := by decide +kernel
  exact_mod_cast h

/-- every finite non-zero binary64 lies in `[10^-400, 10^401)` -/
theorem finite_range (m : Nat) (e : Int) (hm0 : 0 < m) (hm : m < 2 ^ 53) (he1 : -1074 ≤ e) (he2 : e ≤ 971) :
    (10 : ℝ) ^ (-400 : ℤ) ≤ (m : ℝ) * (2 : ℝ) ^ e ∧ (m : ℝ) * (2 : ℝ) ^ e < (10 : ℝ) ^ (401 : ℤ) := by
  have hpe : (0 : ℝ) < (2 : ℝ) ^ e := by positivity
  have h1 : (2 : ℝ) ^ (-1074 : ℤ) ≤ (2 : ℝ) ^ e := zpow_le_zpow_right₀ (by norm_num) he1
  have h2 : (2 : ℝ) ^ e ≤ (2 : ℝ) ^ (971 : ℤ) := zpow_le_zpow_right₀ (by norm_num) he2
  have hm1 : (1 : ℝ) ≤ m := by exact_mod_cast hm0
  have hm2 : (m : ℝ) < 2 ^ 53 := by exact_mod_cast hm
  constructor
  · have : (10 : ℝ) ^ (-400 : ℤ) ≤ (2 : ℝ) ^ (-1074 : ℤ) := by
      rw [zpow_neg, zpow_neg, zpow_ofNat, zpow_ofNat]
      exact inv_anti₀ (by positivity) two_pow_1074_le
    nlinarith
  · have : (m : ℝ) * (2 : ℝ) ^ e < 2 ^ 53 * (2 : ℝ) ^ (971 : ℤ) := by
      apply mul_lt_mul hm2 h2 hpe (by positivity)
    have e' : (2 : ℝ) ^ 53 * (2 : ℝ) ^ (971 : ℤ) = 2 ^ 1024 := by
      rw [zpow_ofNat, ← pow_add]
    rw [e'] at this
    rw [zpow_ofNat]; exact lt_of_lt_of_le this two_pow_1024_le

/-- **`formatE18_error`, value level**: for a finite non-zero bit pattern the printer emits the
sign of `b`, 19 significant digits `10^18 ≤ D < 10^19` and an exponent `k` such that
`D·10^(k-18)` is within `½·10^-18` relative of `|x|` -/
theorem classify_finite (b : Nat) (hfin : (decode b).2.1 ≠ 2047) (hnz : sigOf b ≠ 0) :
    ∃ (D : Nat) (k : Int), classify b = .fin (decode b).1 D k ∧ 10 ^ 18 ≤ D ∧ D < 10 ^ 19 ∧
      |(D : ℝ) * (10 : ℝ) ^ (k - 18) - absReal b| ≤ 1 / 2 * (10 : ℝ) ^ (-18 : ℤ) * absReal b := by
  have hm0 : 0 < sigOf b := Nat.pos_of_ne_zero hnz
  obtain ⟨he1, he2⟩ := expOf_range b hfin
  obtain ⟨hden, hval⟩ := valueFrac_spec (decode b).2.1 (sigOf b)
  have hv : ((valueFrac (decode b).2.1 (sigOf b)).1 : ℝ) / (valueFrac (decode b).2.1 (sigOf b)).2 = absReal b := by
    rw [hval]; rfl
  obtain ⟨r1, r2⟩ := finite_range (sigOf b) (expOf b) hm0 (sigOf_lt b) he1 he2
  have hlo : geTenPow (valueFrac (decode b).2.1 (sigOf b)).1 (valueFrac (decode b).2.1 (sigOf b)).2 (-400) = true := by
    rw [geTenPow_iff _ _ hden, hv]; exact r1
  have hhi : geTenPow (valueFrac (decode b).2.1 (sigOf b)).1 (valueFrac (decode b).2.1 (sigOf b)).2 401 = false := by
    rw [← Bool.not_eq_true, geTenPow_iff _ _ hden, hv, not_le]; exact r2
  obtain ⟨s1, s2, s3⟩ := sci19_spec _ _ hden hlo hhi
  rw [hv] at s3
  refine ⟨_, _, ?_, s1, s2, s3⟩
  unfold classify
  simp only
  rw [if_neg hfin]
  have : (if (decode b).2.1 = 0 then (decode b).2.2 else (decode b).2.2 + 2 ^ 52) = sigOf b := rfl
  rw [this, if_neg hnz]

theorem classify_zero (b : Nat) (hfin : (decode b).2.1 ≠ 2047) (hz : sigOf b = 0) :
    classify b = .fin (decode b).1 0 0 := by
  unfold classify
  simp only
  rw [if_neg hfin]
  have : (if (decode b).2.1 = 0 then (decode b).2.2 else (decode b).2.2 + 2 ^ 52) = sigOf b := rfl
  rw [this, if_pos hz]

/-- the finite bit patterns denote exactly elements of `B64` -/
theorem absReal_mem (b : Nat) (hfin : (decode b).2.1 ≠ 2047) : Binary64.B64 (absReal b) := by
  obtain ⟨he1, he2⟩ := expOf_range b hfin
  refine ⟨sigOf b, expOf b, ?_, he1, he2, by simp [absReal]⟩
  have := sigOf_lt b
  rw [abs_of_nonneg (by positivity)]; exact_mod_cast this

end ScnVerif.Xye
