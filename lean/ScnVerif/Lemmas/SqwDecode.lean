import ScnVerif.Model.Sqw.Build
import ScnVerif.Model.Sqw.Decode
import ScnVerif.Lemmas.SqwWF
import ScnVerif.Lemmas.SqwFile
/-! The independent decoder inverts the pieces the builder writes. -/
namespace ScnVerif.Sqw

theorem rdUInts_flatMap (o : Order) (w : Nat) (vs : List Nat) (r : Bytes) (h : ∀ v ∈ vs, v < 256 ^ w) :
    rdUInts o w vs.length (vs.flatMap (encUInt o w) ++ r) = some (vs, r) := by
  induction vs with
  | nil => simp [rdUInts]
  | cons v vs ih =>
    have hv := h v (by simp)
    have ih' := ih (fun x hx => h x (by simp [hx]))
    simp [rdUInts, List.flatMap_cons, List.append_assoc, rdUInt_enc o w v _ hv, ih']

theorem rdHeader_fileHeader (o : Order) (nd : Nat) (r : Bytes) (h : nd < 2 ^ 32) :
    rdHeader o (fileHeader o nd ++ r) = some (⟨sHorace, fFour, 1, nd⟩, r) := by
  have h4 : fFour < 2 ^ 64 := by decide +kernel
  simp [rdHeader, fileHeader, List.append_assoc, rdCharArray_charArray o sHorace _ (by decide +kernel),
    rdU64_f64 o fFour _ h4, rdU32_u32 o 1 _ (by omega), rdU32_u32 o nd _ h]

/-- a descriptor whose fields fit their on-disk width -/
def DescOk (d : Desc) : Prop :=
  d.ty.length < 2 ^ 32 ∧ d.name.1.length < 2 ^ 32 ∧ d.name.2.length < 2 ^ 32 ∧ d.pos < 2 ^ 64 ∧
  d.size < 2 ^ 32 ∧ d.locked < 2 ^ 32

def toDDesc (d : Desc) : DDesc := ⟨d.ty, d.name.1, d.name.2, d.pos, d.size, d.locked⟩

theorem rdDesc_descBytes (o : Order) (d : Desc) (r : Bytes) (h : DescOk d) :
    rdDesc o (descBytes o d ++ r) = some (toDDesc d, r) := by
  obtain ⟨h1, h2, h3, h4, h5, h6⟩ := h
  simp [rdDesc, descBytes, toDDesc, List.append_assoc, rdCharArray_charArray o _ _ h1,
    rdCharArray_charArray o _ _ h2, rdCharArray_charArray o _ _ h3, rdU64_u64 o _ _ h4,
    rdU32_u32 o _ _ h5, rdU32_u32 o _ _ h6]

theorem rdDescs_flatMap (o : Order) (ds : List Desc) (i : Nat) (r : Bytes) (h : ∀ d ∈ ds, DescOk d) :
    rdDescs o ds.length i (ds.flatMap (descBytes o) ++ r) = .ok (ds.map toDDesc, r) := by
  induction ds generalizing i with
  | nil => simp [rdDescs]
  | cons d ds ih =>
    have hd := h d (by simp)
    have ih' := ih (i + 1) (fun x hx => h x (by simp [hx]))
    simp [rdDescs, List.flatMap_cons, List.append_assoc, rdDesc_descBytes o d _ hd, ih']

/-! ## blocks -/

theorem decodeBlock_regular (o : Order) (i : Nat) (x : Obj) (hw : WF x) :
    decodeBlock o i tyRegular (writeObj o x) = .ok (.regular x) := by
  have h : tyRegular = dTyRegular := rfl
  simp [decodeBlock, h, decObj_block o x hw]

theorem prodDims_eq (l : List Nat) : prodDims l = prodList l := by
  induction l with
  | nil => rfl
  | cons d ds ih => simp [prodDims, prodList, ih]

theorem zeros_flatMap (o : Order) (n : Nat) :
    (List.replicate n 0).flatMap (encUInt o 8) = List.replicate (8 * n) 0 := by
  induction n with
  | zero => rfl
  | succ n ih =>
    have h8 : encUInt o 8 0 = List.replicate 8 0 := by cases o <;> rfl
    rw [List.replicate_succ, List.flatMap_cons, ih, h8, List.replicate_append_replicate]
    congr 1; omega

theorem rdUInts_zeros (o : Order) (n : Nat) (r : Bytes) :
    rdUInts o 8 n (List.replicate (8 * n) 0 ++ r) = some (List.replicate n 0, r) := by
  have := rdUInts_flatMap o 8 (List.replicate n 0) r (by intro v hv; rw [List.mem_replicate] at hv; omega)
  rw [zeros_flatMap, List.length_replicate] at this
  exact this

theorem decodeBlock_dnd (o : Order) (i : Nat) (shape : List Nat) (hs : shape.length < 2 ^ 32)
    (hd : ∀ d ∈ shape, d < 2 ^ 32) :
    decodeBlock o i tyDnd (dndWrite o shape) =
      .ok (.dnd shape (List.replicate (prodList shape) 0) (List.replicate (prodList shape) 0)
        (List.replicate (prodList shape) 0)) := by
  have h1 : tyDnd ≠ dTyRegular := by decide +kernel
  have h2 : tyDnd ≠ dTyPix := by decide +kernel
  have h3 : tyDnd = dTyDnd := rfl
  have hz := fun r => rdUInts_zeros o (prodList shape) r
  unfold dndWrite
  generalize List.replicate (8 * prodList shape) 0 = Z at hz ⊢
  have hz0 : rdUInts o 8 (prodList shape) Z = some (List.replicate (prodList shape) 0, []) := by
    simpa using hz []
  have hdims := rdDims_flatMap o shape (Z ++ (Z ++ Z)) hd
  simp only [decodeBlock, h1, h2, ← h3, if_false, if_true, List.append_assoc, rdU32_u32 o _ _ hs, hdims,
    prodDims_eq, hz, hz0]

theorem flatMap_congr' {α β} (l : List α) (f g : α → List β) (h : ∀ x ∈ l, f x = g x) :
    l.flatMap f = l.flatMap g := by
  induction l with
  | nil => rfl
  | cons a l ih =>
    rw [List.flatMap_cons, List.flatMap_cons, h a (by simp), ih (fun x hx => h x (by simp [hx]))]

theorem map_flatMap' {α β γ} (l : List α) (f : α → β) (g : β → List γ) :
    (l.map f).flatMap g = l.flatMap (fun x => g (f x)) := by
  induction l with
  | nil => rfl
  | cons a l ih => simp [List.flatMap_cons, ih]

/-! ### pixels -/

/-- the pixel payload in file order: pixel by pixel, the rows of one pixel next to each other,
every value passed through `round` exactly once -/
def pixVals (round : Nat → Nat) (rows : List PixRow) : List Nat :=
  (List.range (nPixels rows)).flatMap (fun k => rows.map (fun r => round (r.vals.getD k 0)))

theorem getD_chunk (l : List Nat) (off chunk k : Nat) (hk : k < chunk) :
    ((l.drop off).take chunk).getD k 0 = l.getD (off + k) 0 := by
  simp [List.getD_eq_getElem?_getD, List.getElem?_take, hk]

theorem pixChunk_eq (o : Order) (round : Nat → Nat) (rows : List PixRow) (off chunk n : Nat)
    (hn : n ≤ chunk) :
    pixChunk o round rows off chunk n =
      (List.range' off n).flatMap (fun k => rows.flatMap (fun r => f32 o (round (r.vals.getD k 0)))) := by
  unfold pixChunk
  rw [List.range'_eq_map_range, map_flatMap']
  apply flatMap_congr'
  intro k hk
  have hk' : k < n := by simpa using hk
  apply flatMap_congr'
  intro r _
  rw [getD_chunk _ _ _ _ (by omega)]

theorem pixLoop_eq (o : Order) (round : Nat → Nat) (rows : List PixRow) (npix chunk : Nat)
    (hc : 0 < chunk) :
    ∀ fuel off rem, rem = npix - off → npix - off ≤ fuel →
      pixLoop o round rows npix chunk fuel off rem =
        (List.range' off (npix - off)).flatMap
          (fun k => rows.flatMap (fun r => f32 o (round (r.vals.getD k 0)))) := by
  intro fuel
  induction fuel with
  | zero =>
    intro off rem _ hf
    have : npix - off = 0 := by omega
    simp [pixLoop, this]
  | succ fuel ih =>
    intro off rem hrem hf
    unfold pixLoop
    by_cases hlt : off < npix
    · simp only [hlt, if_true]
      have hrem' : rem - min chunk rem = npix - (off + chunk) := by omega
      rw [ih (off + chunk) (rem - min chunk rem) hrem' (by omega),
        pixChunk_eq o round rows off chunk (min chunk rem) (Nat.min_le_left _ _), ← List.flatMap_append]
      congr 1
      by_cases hcr : chunk ≤ rem
      · have hmin : min chunk rem = chunk := Nat.min_eq_left hcr
        rw [hmin]
        have : npix - off = chunk + (npix - (off + chunk)) := by omega
        rw [this, List.range'_append_1]
      · have hmin : min chunk rem = rem := Nat.min_eq_right (by omega)
        have h0 : npix - (off + chunk) = 0 := by omega
        rw [hmin, h0, hrem]
        simp
    · have : npix - off = 0 := by omega
      simp [hlt, this]

theorem flatMap_rows (o : Order) (round : Nat → Nat) (rows : List PixRow) (ks : List Nat) :
    ks.flatMap (fun k => rows.flatMap (fun r => f32 o (round (r.vals.getD k 0)))) =
      (ks.flatMap (fun k => rows.map (fun r => round (r.vals.getD k 0)))).flatMap (encUInt o 4) := by
  induction ks with
  | nil => rfl
  | cons k ks ih =>
    simp only [List.flatMap_cons, List.flatMap_append, ih]
    congr 1
    rw [map_flatMap']
    rfl

/-- the bytes of the pixel block: row count, pixel count, then every pixel once, in order -/
theorem pixWrite_eq (o : Order) (round : Nat → Nat) (rows : List PixRow) (chunk : Nat) (hc : 1 ≤ chunk) :
    pixWrite o round rows chunk =
      u32 o rows.length ++ (u64 o (nPixels rows) ++ (pixVals round rows).flatMap (encUInt o 4)) := by
  unfold pixWrite pixWriteBound pixVals
  rw [pixLoop_eq o round rows (nPixels rows) chunk hc (nPixels rows) 0 (nPixels rows) (by simp) (by simp)]
  rw [flatMap_rows, Nat.sub_zero, List.range_eq_range']

theorem pixVals_length (round : Nat → Nat) (rows : List PixRow) :
    (pixVals round rows).length = rows.length * nPixels rows := by
  unfold pixVals
  rw [length_flatMap_const _ _ rows.length (fun k => by simp)]
  simp [Nat.mul_comm]

theorem decodeBlock_pix (o : Order) (i : Nat) (round : Nat → Nat) (rows : List PixRow) (chunk : Nat)
    (hc : 1 ≤ chunk) (hr : rows.length < 2 ^ 32) (hn : nPixels rows < 2 ^ 64)
    (hround : ∀ v, round v < 2 ^ 32) :
    decodeBlock o i tyPix (pixWrite o round rows chunk) =
      .ok (.pix rows.length (nPixels rows) (pixVals round rows)) := by
  have h1 : tyPix ≠ dTyRegular := by decide +kernel
  have h3 : tyPix = dTyPix := rfl
  have hv : ∀ v ∈ pixVals round rows, v < 256 ^ 4 := by
    intro v hv
    unfold pixVals at hv
    simp only [List.mem_flatMap, List.mem_map] at hv
    obtain ⟨_, _, _, _, rfl⟩ := hv
    exact hround _
  have hu := rdUInts_flatMap o 4 (pixVals round rows) [] hv
  rw [pixVals_length] at hu
  simp only [List.append_nil] at hu
  rw [pixWrite_eq o round rows chunk hc]
  simp [decodeBlock, h1, ← h3, List.append_assoc, rdU32_u32 o _ _ hr, rdU64_u64 o _ _ hn, hu]

end ScnVerif.Sqw
