import ScnVerif.Model.Beamline
import ScnVerif.Real.Basic
import Mathlib.Analysis.SpecialFunctions.Trigonometric.Inverse
import Mathlib.Tactic.Ring
import Mathlib.Tactic.FieldSimp
import Mathlib.Tactic.Linarith
import Mathlib.Tactic.NormNum
import Mathlib.Tactic.Positivity
/-!
Helper lemmas for C03/C04: algebra of `V3 ℝ` (dot, norm, normalisation, Cauchy–Schwarz) and the
scalar core of W. Kahan's angle formula.
-/
namespace ScnVerif.V3R
open ScnVerif Real

/-- scalar core of Kahan's formula: `2·atan2(√(2−2c), √(2+2c)) = arccos c` -/
theorem kahan_core (c : ℝ) (h1 : -1 ≤ c) (h2 : c ≤ 1) :
    2 * Complex.arg (⟨√(2 + 2 * c), √(2 - 2 * c)⟩ : ℂ) = arccos c := by
  set θ := arccos c with hθ
  have hθ0 : 0 ≤ θ := arccos_nonneg c
  have hθπ : θ ≤ π := arccos_le_pi c
  have hc : c = cos θ := (cos_arccos h1 h2).symm
  have hcos : 0 ≤ cos (θ / 2) := cos_nonneg_of_neg_pi_div_two_le_of_le (by linarith) (by linarith)
  have hsin : 0 ≤ sin (θ / 2) := sin_nonneg_of_nonneg_of_le_pi (by linarith) (by linarith)
  have e1 : √(2 + 2 * c) = 2 * cos (θ / 2) := by
    rw [hc, show 2 + 2 * cos θ = (2 * cos (θ / 2)) ^ 2 by
      have := cos_sq (θ / 2); rw [show 2 * (θ / 2) = θ by ring] at this; nlinarith]
    exact sqrt_sq (by positivity)
  have e2 : √(2 - 2 * c) = 2 * sin (θ / 2) := by
    rw [hc, show 2 - 2 * cos θ = (2 * sin (θ / 2)) ^ 2 by
      have := cos_sq (θ / 2); have := sin_sq_add_cos_sq (θ / 2)
      rw [show 2 * (θ / 2) = θ by ring] at *; nlinarith]
    exact sqrt_sq (by positivity)
  have : (⟨√(2 + 2 * c), √(2 - 2 * c)⟩ : ℂ)
      = ((2:ℝ) : ℂ) * (Complex.cos ((θ / 2 : ℝ)) + Complex.sin ((θ / 2 : ℝ)) * Complex.I) := by
    rw [← Complex.ofReal_cos, ← Complex.ofReal_sin]
    apply Complex.ext
    · simp only [Complex.mul_re, Complex.add_re, Complex.ofReal_re, Complex.ofReal_im, Complex.mul_im,
        Complex.I_re, Complex.I_im, Complex.add_im, e1]; ring
    · simp only [Complex.mul_re, Complex.add_re, Complex.ofReal_re, Complex.ofReal_im, Complex.mul_im,
        Complex.I_re, Complex.I_im, Complex.add_im, e2]; ring
  rw [this, Complex.arg_mul_cos_add_sin_mul_I (by norm_num) ⟨by linarith [pi_pos], by linarith⟩]
  ring

/-! ### `V3 ℝ` algebra -/

@[ext] theorem ext {a b : V3 ℝ} (hx : a.x = b.x) (hy : a.y = b.y) (hz : a.z = b.z) : a = b := by
  cases a; cases b; simp_all

def zero : V3 ℝ := ⟨0, 0, 0⟩

theorem dot_self_nonneg (a : V3 ℝ) : 0 ≤ V3.dot a a := by
  simp only [V3.dot]; nlinarith [mul_self_nonneg a.x, mul_self_nonneg a.y, mul_self_nonneg a.z]

theorem dot_self_eq_zero {a : V3 ℝ} : V3.dot a a = 0 ↔ a = zero := by
  constructor
  · intro h
    simp only [V3.dot] at h
    have hx : a.x = 0 := by nlinarith [mul_self_nonneg a.x, mul_self_nonneg a.y, mul_self_nonneg a.z]
    have hy : a.y = 0 := by nlinarith [mul_self_nonneg a.x, mul_self_nonneg a.y, mul_self_nonneg a.z]
    have hz : a.z = 0 := by nlinarith [mul_self_nonneg a.x, mul_self_nonneg a.y, mul_self_nonneg a.z]
    exact ext hx hy hz
  · rintro rfl; simp [V3.dot, zero]

theorem dot_self_pos {a : V3 ℝ} (h : a ≠ zero) : 0 < V3.dot a a :=
  lt_of_le_of_ne (dot_self_nonneg a) (fun e => h (dot_self_eq_zero.mp e.symm))

theorem norm_def (a : V3 ℝ) : V3.norm a = √(V3.dot a a) := rfl

theorem norm_nonneg (a : V3 ℝ) : 0 ≤ V3.norm a := Real.sqrt_nonneg _

theorem norm_sq (a : V3 ℝ) : V3.norm a ^ 2 = V3.dot a a := Real.sq_sqrt (dot_self_nonneg a)

theorem norm_mul_self (a : V3 ℝ) : V3.norm a * V3.norm a = V3.dot a a := Real.mul_self_sqrt (dot_self_nonneg a)

theorem norm_pos {a : V3 ℝ} (h : a ≠ zero) : 0 < V3.norm a := Real.sqrt_pos.mpr (dot_self_pos h)

theorem norm_ne_zero {a : V3 ℝ} (h : a ≠ zero) : V3.norm a ≠ 0 := (norm_pos h).ne'

theorem dot_comm (a b : V3 ℝ) : V3.dot a b = V3.dot b a := by simp only [V3.dot]; ring

/-- Lagrange's identity, hence Cauchy–Schwarz -/
theorem lagrange (a b : V3 ℝ) :
    V3.dot a a * V3.dot b b - V3.dot a b ^ 2 = V3.dot (V3.cross a b) (V3.cross a b) := by
  simp only [V3.dot, V3.cross]; ring

theorem cauchy_schwarz (a b : V3 ℝ) : V3.dot a b ^ 2 ≤ V3.dot a a * V3.dot b b := by
  have := lagrange a b
  have := dot_self_nonneg (V3.cross a b)
  linarith

theorem abs_dot_le (a b : V3 ℝ) : |V3.dot a b| ≤ V3.norm a * V3.norm b := by
  have h := cauchy_schwarz a b
  rw [← norm_sq a, ← norm_sq b, ← mul_pow] at h
  have := abs_le_of_sq_le_sq' h (mul_nonneg (norm_nonneg a) (norm_nonneg b))
  exact abs_le.mpr this

/-- cosine of the angle between two vectors -/
noncomputable def cosAngle (a b : V3 ℝ) : ℝ := V3.dot a b / (V3.norm a * V3.norm b)

theorem cosAngle_mem {a b : V3 ℝ} (ha : a ≠ zero) (hb : b ≠ zero) :
    -1 ≤ cosAngle a b ∧ cosAngle a b ≤ 1 := by
  have hp : 0 < V3.norm a * V3.norm b := mul_pos (norm_pos ha) (norm_pos hb)
  have h := abs_le.mp (abs_dot_le a b)
  unfold cosAngle
  constructor
  · rw [le_div_iff₀ hp]; linarith
  · rw [div_le_iff₀ hp]; linarith

/-- the Euclidean angle between two vectors: `arccos(⟪a,b⟫ / (‖a‖‖b‖))` -/
noncomputable def angle (a b : V3 ℝ) : ℝ := arccos (cosAngle a b)

theorem dot_normalize_self {a : V3 ℝ} (ha : a ≠ zero) :
    V3.dot (V3.sdiv a (V3.norm a)) (V3.sdiv a (V3.norm a)) = 1 := by
  have hn := norm_ne_zero ha
  have := norm_mul_self a
  simp only [V3.dot, V3.sdiv] at *
  field_simp
  linarith

theorem dot_normalize {a b : V3 ℝ} (ha : a ≠ zero) (hb : b ≠ zero) :
    V3.dot (V3.sdiv a (V3.norm a)) (V3.sdiv b (V3.norm b)) = cosAngle a b := by
  have hn := norm_ne_zero ha
  have hm := norm_ne_zero hb
  simp only [V3.dot, V3.sdiv, cosAngle]
  field_simp

theorem dot_sub_sub (u v : V3 ℝ) :
    V3.dot (V3.sub u v) (V3.sub u v) = V3.dot u u + V3.dot v v - 2 * V3.dot u v := by
  simp only [V3.dot, V3.sub]; ring

theorem dot_add_add (u v : V3 ℝ) :
    V3.dot (V3.add u v) (V3.add u v) = V3.dot u u + V3.dot v v + 2 * V3.dot u v := by
  simp only [V3.dot, V3.add]; ring

end ScnVerif.V3R

namespace ScnVerif.V3R
open ScnVerif Real

/-! ### normalisation, scaling, linear maps -/

theorem smul_ne_zero {c : ℝ} {a : V3 ℝ} (hc : c ≠ 0) (ha : a ≠ zero) : V3.smul c a ≠ zero := by
  intro h
  apply ha
  have hx : c * a.x = 0 := congrArg V3.x h
  have hy : c * a.y = 0 := congrArg V3.y h
  have hz : c * a.z = 0 := congrArg V3.z h
  exact ext ((mul_eq_zero.mp hx).resolve_left hc) ((mul_eq_zero.mp hy).resolve_left hc)
    ((mul_eq_zero.mp hz).resolve_left hc)

theorem dot_smul_smul (c d : ℝ) (a b : V3 ℝ) :
    V3.dot (V3.smul c a) (V3.smul d b) = c * d * V3.dot a b := by
  simp only [V3.dot, V3.smul]; ring

theorem norm_smul {c : ℝ} (hc : 0 ≤ c) (a : V3 ℝ) : V3.norm (V3.smul c a) = c * V3.norm a := by
  rw [norm_def, dot_smul_smul, norm_def, Real.sqrt_mul (mul_self_nonneg c),
    Real.sqrt_mul_self hc]

theorem cosAngle_smul_left {c : ℝ} (hc : 0 < c) (a b : V3 ℝ) (ha : a ≠ zero) (hb : b ≠ zero) :
    cosAngle (V3.smul c a) b = cosAngle a b := by
  have hn := norm_ne_zero ha
  have hm := norm_ne_zero hb
  unfold cosAngle
  rw [norm_smul hc.le, show V3.dot (V3.smul c a) b = c * V3.dot a b by simp only [V3.dot, V3.smul]; ring]
  field_simp

theorem cosAngle_comm (a b : V3 ℝ) : cosAngle a b = cosAngle b a := by
  unfold cosAngle; rw [dot_comm, mul_comm]

theorem cosAngle_self {a : V3 ℝ} (ha : a ≠ zero) : cosAngle a a = 1 := by
  unfold cosAngle; rw [norm_mul_self]; exact div_self (dot_self_pos ha).ne'

/-- a 3×3 real matrix given by its rows -/
structure M3 where
  r1 : V3 ℝ
  r2 : V3 ℝ
  r3 : V3 ℝ

def M3.mulVec (M : M3) (v : V3 ℝ) : V3 ℝ := ⟨V3.dot M.r1 v, V3.dot M.r2 v, V3.dot M.r3 v⟩
def M3.c1 (M : M3) : V3 ℝ := ⟨M.r1.x, M.r2.x, M.r3.x⟩
def M3.c2 (M : M3) : V3 ℝ := ⟨M.r1.y, M.r2.y, M.r3.y⟩
def M3.c3 (M : M3) : V3 ℝ := ⟨M.r1.z, M.r2.z, M.r3.z⟩

/-- `MᵀM = 1`: rotations and reflections -/
structure M3.IsOrthogonal (M : M3) : Prop where
  h11 : V3.dot M.c1 M.c1 = 1
  h22 : V3.dot M.c2 M.c2 = 1
  h33 : V3.dot M.c3 M.c3 = 1
  h12 : V3.dot M.c1 M.c2 = 0
  h13 : V3.dot M.c1 M.c3 = 0
  h23 : V3.dot M.c2 M.c3 = 0

/-- a map of ℝ³ that preserves the dot product -/
def PreservesDot (f : V3 ℝ → V3 ℝ) : Prop := ∀ a b, V3.dot (f a) (f b) = V3.dot a b

theorem PreservesDot.ne_zero {f : V3 ℝ → V3 ℝ} (hf : PreservesDot f) {a : V3 ℝ} (ha : a ≠ zero) :
    f a ≠ zero := by
  intro h
  have := hf a a
  rw [h] at this
  have hp := dot_self_pos ha
  simp [V3.dot, zero] at this
  simp only [V3.dot] at hp
  linarith

theorem PreservesDot.norm {f : V3 ℝ → V3 ℝ} (hf : PreservesDot f) (a : V3 ℝ) :
    V3.norm (f a) = V3.norm a := by rw [norm_def, norm_def, hf]

theorem PreservesDot.cosAngle {f : V3 ℝ → V3 ℝ} (hf : PreservesDot f) (a b : V3 ℝ) :
    cosAngle (f a) (f b) = cosAngle a b := by
  unfold V3R.cosAngle; rw [hf, hf.norm, hf.norm]

theorem M3.mulVec_sub (M : M3) (a b : V3 ℝ) : M.mulVec (V3.sub a b) = V3.sub (M.mulVec a) (M.mulVec b) := by
  simp only [M3.mulVec, V3.sub, V3.dot]
  apply ext <;> ring

end ScnVerif.V3R
