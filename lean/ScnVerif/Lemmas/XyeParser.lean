import ScnVerif.Lemmas.XyeNumbers
/-!
# Number-level lemmas for C15: the rounding core of the exact parser

* `scaleBin_spec`, `binExp_spec` — the binary exponent chosen by `binExp` brackets the value
  (`2^52 ≤ v/2^E < 2^53`, or `E = -1074` with only the upper bound), by construction;
* `roundHalfEven_eq_of_close` — rounding returns the integer that is within a quarter;
* `nearestBits_of_close` — if `v = num/den` is within an eighth of a unit in the last place of the
  canonical binary64 `m·2^e`, `nearestBits num den` is the bit pattern of `m·2^e` (also across a
  binade boundary and in the subnormal range).
-/
namespace ScnVerif.Xye

theorem scaleBin_spec (num den : Nat) (hden : 0 < den) (e : Int) :
    0 < (scaleBin num den e).2 ∧
      ((scaleBin num den e).1 : ℝ) / (scaleBin num den e).2 = (num : ℝ) / den / (2 : ℝ) ^ e := by
  have hd : (0 : ℝ) < den := by exact_mod_cast hden
  unfold scaleBin
  split
  · rename_i h
    obtain ⟨n, rfl⟩ := Int.eq_ofNat_of_zero_le h
    simp only [Int.toNat_natCast, zpow_natCast]
    refine ⟨by positivity, ?_⟩
    push_cast; rw [div_div]
  · rename_i h
    obtain ⟨n, hn⟩ := Int.eq_ofNat_of_zero_le (show (0 : ℤ) ≤ -e by omega)
    have he : e = -(n : ℤ) := by omega
    subst he
    simp only [neg_neg, Int.toNat_natCast, zpow_neg, zpow_natCast]
    refine ⟨hden, ?_⟩
    push_cast; field_simp

/-- the conditions of `binExpOk`, over the reals -/
def BinOk (v : ℝ) (E : Int) : Prop :=
  -1074 ≤ E ∧ v / (2 : ℝ) ^ E < 2 ^ 53 ∧ (2 ^ 52 ≤ v / (2 : ℝ) ^ E ∨ E = -1074)

theorem scaled_lt_iff (num den : Nat) (hden : 0 < den) (e : Int) :
    (scaleBin num den e).1 < 2 ^ 53 * (scaleBin num den e).2 ↔ (num : ℝ) / den / (2 : ℝ) ^ e < 2 ^ 53 := by
  obtain ⟨hd, hv⟩ := scaleBin_spec num den hden e
  have hd' : (0 : ℝ) < (scaleBin num den e).2 := by exact_mod_cast hd
  rw [← hv, div_lt_iff₀ hd']
  constructor
  · intro h; exact_mod_cast h
  · intro h; exact_mod_cast h

theorem scaled_ge_iff (num den : Nat) (hden : 0 < den) (e : Int) :
    2 ^ 52 * (scaleBin num den e).2 ≤ (scaleBin num den e).1 ↔ (2 : ℝ) ^ 52 ≤ (num : ℝ) / den / (2 : ℝ) ^ e := by
  obtain ⟨hd, hv⟩ := scaleBin_spec num den hden e
  have hd' : (0 : ℝ) < (scaleBin num den e).2 := by exact_mod_cast hd
  rw [← hv, le_div_iff₀ hd']
  constructor
  · intro h; exact_mod_cast h
  · intro h; exact_mod_cast h

theorem binExpOk_iff (num den : Nat) (hden : 0 < den) (e : Int) :
    binExpOk num den e = true ↔ BinOk ((num : ℝ) / den) e := by
  unfold binExpOk BinOk
  simp only [Bool.and_eq_true, Bool.or_eq_true, decide_eq_true_eq, scaled_lt_iff num den hden,
    scaled_ge_iff num den hden]
  tauto

theorem zpow_pred (e : Int) : (2 : ℝ) ^ (e - 1) = (2 : ℝ) ^ e / 2 := by
  rw [zpow_sub₀ (by norm_num), zpow_one]

theorem binExpDown_spec (num den : Nat) (hden : 0 < den) : ∀ (fuel : Nat) (e : Int),
    -1074 ≤ e → e + 1074 ≤ fuel → (num : ℝ) / den / (2 : ℝ) ^ e < 2 ^ 53 →
    BinOk ((num : ℝ) / den) (binExpDown num den fuel e) := by
  intro fuel
  induction fuel with
  | zero =>
    intro e h1 h2 h3
    have : e = -1074 := by simp at h2; omega
    unfold binExpDown
    exact ⟨h1, h3, Or.inr this⟩
  | succ f ih =>
    intro e h1 h2 h3
    unfold binExpDown
    split
    · rename_i hle
      have : e = -1074 := by omega
      subst this
      exact ⟨le_refl _, h3, Or.inr rfl⟩
    · rename_i hgt
      split
      · rename_i hge
        exact ⟨h1, h3, Or.inl ((scaled_ge_iff num den hden e).mp hge)⟩
      · rename_i hlt
        have hlt' : ¬ (2 : ℝ) ^ 52 ≤ (num : ℝ) / den / (2 : ℝ) ^ e := fun h => hlt ((scaled_ge_iff num den hden e).mpr h)
        apply ih (e - 1) (by omega) (by push_cast at h2 ⊢; omega)
        rw [zpow_pred, div_div_eq_mul_div, mul_div_assoc]
        have hp : (0 : ℝ) < (2 : ℝ) ^ e := by positivity
        rw [not_le] at hlt'
        have : (num : ℝ) / den * 2 / (2 : ℝ) ^ e = (num : ℝ) / den / (2 : ℝ) ^ e * 2 := by ring
        rw [mul_div_assoc'] at *
        rw [this]; nlinarith

/-- the exponent chosen by the parser brackets the value, whatever estimate it starts from -/
theorem binExp_spec (num den : Nat) (hden : 0 < den) (hhi : (num : ℝ) / den < 2 ^ 1025) :
    BinOk ((num : ℝ) / den) (binExp num den) := by
  have h972 : (num : ℝ) / den / (2 : ℝ) ^ (972 : ℤ) < 2 ^ 53 := by
    rw [div_lt_iff₀ (by positivity)]
    have e : (2 : ℝ) ^ 53 * (2 : ℝ) ^ (972 : ℤ) = 2 ^ 1025 := by
      rw [zpow_ofNat, ← pow_add]
    rw [e]; exact hhi
  unfold binExp
  simp only
  generalize binExpFrom num den 6 _ = e1
  split
  · rename_i h; exact (binExpOk_iff num den hden _).mp h
  · exact binExpDown_spec num den hden 2100 972 (by norm_num) (by norm_num) h972

/-- rounding returns the integer that is within a quarter of the quotient -/
theorem roundHalfEven_eq_of_close (n d M : Nat) (hd : 0 < d) (h : |(n : ℝ) / d - M| ≤ 1 / 4) :
    roundHalfEven n d = M := by
  obtain ⟨lo, hi⟩ := roundHalfEven_spec n d hd
  have hd' : (0 : ℝ) < d := by exact_mod_cast hd
  have lo' : (2 : ℝ) * n ≤ 2 * (roundHalfEven n d * d) + d := by exact_mod_cast lo
  have hi' : (2 : ℝ) * (roundHalfEven n d * d) ≤ 2 * n + d := by exact_mod_cast hi
  have hq : (n : ℝ) / d * d = n := by field_simp
  have hr : |(roundHalfEven n d : ℝ) - (n : ℝ) / d| ≤ 1 / 2 := by
    apply half_of_scaled _ _ _ hd' <;> rw [hq] <;> assumption
  have h3 : |(roundHalfEven n d : ℝ) - M| < 1 := by
    calc |(roundHalfEven n d : ℝ) - M| = |((roundHalfEven n d : ℝ) - (n : ℝ) / d) + ((n : ℝ) / d - M)| := by ring_nf
      _ ≤ |(roundHalfEven n d : ℝ) - (n : ℝ) / d| + |(n : ℝ) / d - M| := abs_add_le _ _
      _ < 1 := by linarith
  have h4 : |((roundHalfEven n d : ℤ) - (M : ℤ))| < 1 := by
    have : ((|((roundHalfEven n d : ℤ) - (M : ℤ))| : ℤ) : ℝ) < 1 := by push_cast; exact h3
    exact_mod_cast this
  have : (roundHalfEven n d : ℤ) - (M : ℤ) = 0 := Int.abs_lt_one_iff.mp h4
  omega

theorem two_zpow_add_nat (E : Int) (j : Nat) : (2 : ℝ) ^ (E + j) = (2 : ℝ) ^ E * 2 ^ j := by
  rw [zpow_add₀ (by norm_num), zpow_natCast]

/-- where the exponent search must land for a value within an eighth of an ulp of the canonical
binary64 `m·2^e`: at `e`, or one below when `m = 2^52` and the value is just under the binade -/
theorem binOk_near (v : ℝ) (m : Nat) (e E : Int) (hm : m < 2 ^ 53) (he : -1074 ≤ e)
    (hcanon : 2 ^ 52 ≤ m ∨ e = -1074) (hclose : |v - (m : ℝ) * (2 : ℝ) ^ e| ≤ 1 / 8 * (2 : ℝ) ^ e)
    (hok : BinOk v E) :
    (E = e ∧ |v / (2 : ℝ) ^ E - m| ≤ 1 / 8) ∨
    (E = e - 1 ∧ m = 2 ^ 52 ∧ |v / (2 : ℝ) ^ E - (2 ^ 53 : ℕ)| ≤ 1 / 4) := by
  obtain ⟨hE, hlt, hge⟩ := hok
  have hpe : (0 : ℝ) < (2 : ℝ) ^ e := by positivity
  have hpE : (0 : ℝ) < (2 : ℝ) ^ E := by positivity
  -- u = v / 2^e is within 1/8 of m
  have hu : |v / (2 : ℝ) ^ e - m| ≤ 1 / 8 := by
    have : v / (2 : ℝ) ^ e - m = (v - (m : ℝ) * (2 : ℝ) ^ e) / (2 : ℝ) ^ e := by field_simp
    rw [this, abs_div, abs_of_pos hpe, div_le_iff₀ hpe]; exact hclose
  obtain ⟨hu1, hu2⟩ := abs_le.mp hu
  have hmR : (m : ℝ) ≤ 2 ^ 53 - 1 := by
    have : m + 1 ≤ 2 ^ 53 := hm
    have : ((m + 1 : ℕ) : ℝ) ≤ ((2 ^ 53 : ℕ) : ℝ) := by exact_mod_cast this
    push_cast at this; linarith
  rcases lt_trichotomy E e with hEe | hEe | hEe
  · -- E < e
    obtain ⟨j, hj⟩ := Int.le.dest (show E + 1 ≤ e by omega)
    have e2 : (2 : ℝ) ^ e = (2 : ℝ) ^ E * (2 * 2 ^ j) := by
      rw [← hj, show E + 1 + (j : ℤ) = E + ((j + 1 : ℕ) : ℤ) by push_cast; ring, two_zpow_add_nat, pow_succ]; ring
    have hs : v / (2 : ℝ) ^ E = v / (2 : ℝ) ^ e * (2 * 2 ^ j) := by rw [e2]; field_simp
    have hj1 : (1 : ℝ) ≤ 2 ^ j := one_le_pow₀ (by norm_num)
    have hupos : 0 < v / (2 : ℝ) ^ e := by
      rcases hcanon with h | h
      · have : (2 : ℝ) ^ 52 ≤ m := by exact_mod_cast h
        linarith
      · omega
    -- v/2^e < 2^52, hence m ≤ 2^52, hence (canonical) m = 2^52
    have hu52 : v / (2 : ℝ) ^ e < 2 ^ 52 := by
      rw [hs] at hlt
      nlinarith
    have hm52 : m = 2 ^ 52 := by
      rcases hcanon with h | h
      · have : (m : ℝ) < 2 ^ 52 + 1 := by linarith
        have : m < 2 ^ 52 + 1 := by exact_mod_cast this
        omega
      · omega
    have hmR52 : (m : ℝ) = 2 ^ 52 := by rw [hm52]; norm_num
    -- j = 0, else the scaled value exceeds 2^53
    have hj0 : j = 0 := by
      by_contra hne
      have : (2 : ℝ) ≤ 2 ^ j := by
        have : 1 ≤ j := Nat.one_le_iff_ne_zero.mpr hne
        calc (2 : ℝ) = 2 ^ 1 := by norm_num
          _ ≤ 2 ^ j := pow_le_pow_right₀ (by norm_num) this
      rw [hs] at hlt
      nlinarith
    subst hj0
    right
    refine ⟨by omega, hm52, ?_⟩
    rw [hs, abs_le]
    push_cast
    constructor <;> nlinarith
  · left
    subst hEe
    exact ⟨rfl, hu⟩
  · -- E > e: impossible
    exfalso
    obtain ⟨j, hj⟩ := Int.le.dest (show e + 1 ≤ E by omega)
    have e2 : (2 : ℝ) ^ E = (2 : ℝ) ^ e * (2 * 2 ^ j) := by
      rw [← hj, show e + 1 + (j : ℤ) = e + ((j + 1 : ℕ) : ℤ) by push_cast; ring, two_zpow_add_nat, pow_succ]; ring
    have hj1 : (1 : ℝ) ≤ 2 ^ j := one_le_pow₀ (by norm_num)
    rcases hge with h | h
    · have hs : v / (2 : ℝ) ^ e = v / (2 : ℝ) ^ E * (2 * 2 ^ j) := by rw [e2]; field_simp
      have : (2 : ℝ) ^ 53 ≤ v / (2 : ℝ) ^ e := by rw [hs]; nlinarith
      linarith
    · omega

/-- bits of the canonical pair -/
theorem packBits_succ_boundary (e : Int) : packBits (2 ^ 52) (e - 1 + 1) = packBits (2 ^ 52) e := by
  rw [show e - 1 + 1 = e by ring]

/-- **the parser's rounding**: a positive rational within an eighth of a unit in the last place of
the canonical binary64 `m·2^e` (normal: `2^52 ≤ m < 2^53`; subnormal: `m < 2^52`, `e = -1074`) is
mapped by `nearestBits` to the fields of exactly that number -/
theorem nearestBits_of_close (num den : Nat) (hden : 0 < den) (m : Nat) (e : Int) (hm : m < 2 ^ 53)
    (he : -1074 ≤ e) (he2 : e ≤ 971) (hcanon : 2 ^ 52 ≤ m ∨ e = -1074)
    (hclose : |(num : ℝ) / den - (m : ℝ) * (2 : ℝ) ^ e| ≤ 1 / 8 * (2 : ℝ) ^ e) :
    nearestBits num den = packBits m e := by
  have hpe : (0 : ℝ) < (2 : ℝ) ^ e := by positivity
  -- the value is below 2^1025
  have hhi : (num : ℝ) / den < 2 ^ 1025 := by
    have h1 := (abs_le.mp hclose).2
    have hmR : (m : ℝ) < 2 ^ 53 := by exact_mod_cast hm
    have h971 : (2 : ℝ) ^ e ≤ (2 : ℝ) ^ (971 : ℤ) := zpow_le_zpow_right₀ (by norm_num) he2
    have e' : (2 : ℝ) ^ 54 * (2 : ℝ) ^ (971 : ℤ) = 2 ^ 1025 := by rw [zpow_ofNat, ← pow_add]
    have : (num : ℝ) / den ≤ ((m : ℝ) + 1 / 8) * (2 : ℝ) ^ e := by linarith
    have : (num : ℝ) / den < 2 ^ 54 * (2 : ℝ) ^ e := by nlinarith
    calc (num : ℝ) / den < 2 ^ 54 * (2 : ℝ) ^ e := this
      _ ≤ 2 ^ 54 * (2 : ℝ) ^ (971 : ℤ) := by nlinarith
      _ = 2 ^ 1025 := e'
  have hok := binExp_spec num den hden hhi
  obtain ⟨hd, hv⟩ := scaleBin_spec num den hden (binExp num den)
  unfold nearestBits
  simp only
  rcases binOk_near _ m e _ hm he hcanon hclose hok with ⟨hE, hs⟩ | ⟨hE, hm52, hs⟩
  · have hr : roundHalfEven (scaleBin num den (binExp num den)).1 (scaleBin num den (binExp num den)).2 = m := by
      apply roundHalfEven_eq_of_close _ _ _ hd
      rw [hv]; linarith
    rw [hr, hE, if_neg (by omega)]
  · have hr : roundHalfEven (scaleBin num den (binExp num den)).1 (scaleBin num den (binExp num den)).2 = 2 ^ 53 := by
      apply roundHalfEven_eq_of_close _ _ _ hd
      rw [hv]; exact hs
    rw [hr, if_pos rfl, hE, hm52, packBits_succ_boundary]

/-! ## from the printed digits back to the bit pattern -/

theorem sigOf_canonical (b : Nat) : 2 ^ 52 ≤ sigOf b ∨ expOf b = -1074 := by
  unfold sigOf expOf
  split
  · right; simp
  · left; omega

/-- sign bit plus packed fields give the pattern back -/
theorem pack_decode (b : Nat) (hb : b < 2 ^ 64) (hfin : (decode b).2.1 ≠ 2047) :
    (if (decode b).1 then 2 ^ 63 else 0) + packBits (sigOf b) (expOf b) = b := by
  have hb1 := (decode_bounds b).1
  unfold packBits sigOf expOf
  simp only [decode] at hfin hb1 ⊢
  by_cases h0 : b / 2 ^ 52 % 2048 = 0
  · simp only [h0, if_true]
    have : b % 2 ^ 52 < 2 ^ 52 := Nat.mod_lt _ (by norm_num)
    rw [if_pos this]
    by_cases hs : b / 2 ^ 63 % 2 = 1
    · simp only [hs, decide_true, if_true]; omega
    · simp only [hs, decide_false, Bool.false_eq_true, if_false]; omega
  · simp only [h0, if_false]
    have h1 : ¬ (b % 2 ^ 52 + 2 ^ 52 < 2 ^ 52) := by omega
    have h2 : ¬ ((2047 : ℤ) ≤ ((b / 2 ^ 52 % 2048 : ℕ) : ℤ) - 1075 + 1075) := by omega
    rw [if_neg h1, if_neg h2]
    have h3 : (((b / 2 ^ 52 % 2048 : ℕ) : ℤ) - 1075 + 1075).toNat = b / 2 ^ 52 % 2048 := by omega
    rw [h3]
    by_cases hs : b / 2 ^ 63 % 2 = 1
    · simp only [hs, decide_true, if_true]; omega
    · simp only [hs, decide_false, Bool.false_eq_true, if_false]; omega

theorem two_pow_1025_le : (2 : ℝ) ^ 1025 ≤ 10 ^ 309 := by
  have h : (2 : ℕ) ^ 1025 ≤ 10 ^ 309 := by decide +kernel
  exact_mod_cast h
theorem two_pow_1075_le : (2 : ℝ) ^ 1075 ≤ 10 ^ 324 := by
  have h : (2 : ℕ) ^ 1075 ≤ 10 ^ 324 := by decide +kernel
  exact_mod_cast h

/-- **the rounding core of the parser**: a decimal `D·10^(k-18)` with 19 significant digits that is
within `½·10^-18` relative of the finite non-zero binary64 with bit pattern `b` is mapped by
`litBits` (sign, magnitude guard, `nearestBits`) to `b` itself -/
theorem litBits_of_close (b D : Nat) (k : Int) (hb : b < 2 ^ 64) (hfin : (decode b).2.1 ≠ 2047)
    (hnz : sigOf b ≠ 0) (hD1 : 10 ^ 18 ≤ D) (hD2 : D < 10 ^ 19)
    (herr : |(D : ℝ) * (10 : ℝ) ^ (k - 18) - absReal b| ≤ 1 / 2 * (10 : ℝ) ^ (-18 : ℤ) * absReal b) :
    litBits (.num (decode b).1 D (k - 18)) = b := by
  obtain ⟨he1, he2⟩ := expOf_range b hfin
  have hsig := sigOf_lt b
  have hsig0 : 0 < sigOf b := Nat.pos_of_ne_zero hnz
  have hpe : (0 : ℝ) < (2 : ℝ) ^ expOf b := by positivity
  have hsR : (sigOf b : ℝ) < 2 ^ 53 := by exact_mod_cast hsig
  have hs1 : (1 : ℝ) ≤ sigOf b := by exact_mod_cast hsig0
  have hx : absReal b = (sigOf b : ℝ) * (2 : ℝ) ^ expOf b := rfl
  have hxpos : 0 < absReal b := by rw [hx]; positivity
  have h18 : (10 : ℝ) ^ (-18 : ℤ) = 1 / 10 ^ 18 := by rw [zpow_neg, zpow_ofNat, one_div]
  have heps : 1 / 2 * (10 : ℝ) ^ (-18 : ℤ) * (2 : ℝ) ^ 53 ≤ 1 / 8 := by rw [h18]; norm_num
  obtain ⟨hq1, hq2⟩ := abs_le.mp herr
  set q : ℝ := (D : ℝ) * (10 : ℝ) ^ (k - 18) with hq
  have hepos : (0 : ℝ) < 1 / 2 * (10 : ℝ) ^ (-18 : ℤ) := by positivity
  have heps1 : 1 / 2 * (10 : ℝ) ^ (-18 : ℤ) ≤ 1 / 2 := by rw [h18]; norm_num
  -- closeness in units of the last place
  have hclose : |q - (sigOf b : ℝ) * (2 : ℝ) ^ expOf b| ≤ 1 / 8 * (2 : ℝ) ^ expOf b := by
    rw [← hx]
    refine le_trans herr ?_
    rw [hx]
    have : 1 / 2 * (10 : ℝ) ^ (-18 : ℤ) * ((sigOf b : ℝ) * (2 : ℝ) ^ expOf b)
        ≤ 1 / 2 * (10 : ℝ) ^ (-18 : ℤ) * (2 ^ 53 * (2 : ℝ) ^ expOf b) := by
      apply mul_le_mul_of_nonneg_left _ hepos.le
      exact mul_le_mul_of_nonneg_right hsR.le hpe.le
    nlinarith
  -- range of the decimal exponent
  have hDR1 : (10 : ℝ) ^ 18 ≤ D := by exact_mod_cast hD1
  have hDR2 : (D : ℝ) < 10 ^ 19 := by exact_mod_cast hD2
  have hp10 : (0 : ℝ) < (10 : ℝ) ^ (k - 18) := by positivity
  have hqlo : (10 : ℝ) ^ k ≤ q := by
    have : (10 : ℝ) ^ k = 10 ^ 18 * (10 : ℝ) ^ (k - 18) := by
      rw [← zpow_ofNat, ← zpow_add₀ (by norm_num)]; ring_nf
    rw [this]; exact mul_le_mul_of_nonneg_right hDR1 hp10.le
  have hqhi : q < (10 : ℝ) ^ (k + 1) := by
    have : (10 : ℝ) ^ (k + 1) = 10 ^ 19 * (10 : ℝ) ^ (k - 18) := by
      rw [← zpow_ofNat, ← zpow_add₀ (by norm_num)]; ring_nf
    rw [this]; exact mul_lt_mul_of_pos_right hDR2 hp10
  have hxhi : absReal b < 2 ^ 1024 := by
    have h971 : (2 : ℝ) ^ expOf b ≤ (2 : ℝ) ^ (971 : ℤ) := zpow_le_zpow_right₀ (by norm_num) he2
    have e' : (2 : ℝ) ^ 53 * (2 : ℝ) ^ (971 : ℤ) = 2 ^ 1024 := by rw [zpow_ofNat, ← pow_add]
    rw [hx, ← e']
    calc (sigOf b : ℝ) * (2 : ℝ) ^ expOf b < 2 ^ 53 * (2 : ℝ) ^ expOf b := mul_lt_mul_of_pos_right hsR hpe
      _ ≤ 2 ^ 53 * (2 : ℝ) ^ (971 : ℤ) := by nlinarith
  have hxlo : (2 : ℝ) ^ (-1074 : ℤ) ≤ absReal b := by
    have : (2 : ℝ) ^ (-1074 : ℤ) ≤ (2 : ℝ) ^ expOf b := zpow_le_zpow_right₀ (by norm_num) he1
    rw [hx]; nlinarith
  have hk1 : k < 309 := by
    have h1 : (10 : ℝ) ^ k < (10 : ℝ) ^ (309 : ℤ) := by
      have : q < 2 ^ 1025 := by
        have hq3 : q ≤ absReal b + 1 / 2 * absReal b := by nlinarith
        have e2 : (2 : ℝ) ^ 1025 = 2 ^ 1024 * 2 := pow_succ _ _
        rw [e2]
        have hP : (0 : ℝ) < 2 ^ 1024 := by positivity
        generalize (2 : ℝ) ^ 1024 = P at hxhi hP ⊢
        linarith
      rw [zpow_ofNat]
      exact lt_of_le_of_lt hqlo (lt_of_lt_of_le this two_pow_1025_le)
    exact (zpow_lt_zpow_iff_right₀ (by norm_num : (1 : ℝ) < 10)).mp h1
  have hk2 : -325 < k := by
    have h1 : (10 : ℝ) ^ (-324 : ℤ) < (10 : ℝ) ^ (k + 1) := by
      have hq' : (2 : ℝ) ^ (-1075 : ℤ) ≤ q := by
        have : absReal b - 1 / 2 * absReal b ≤ q := by nlinarith
        have e2 : (2 : ℝ) ^ (-1075 : ℤ) = (2 : ℝ) ^ (-1074 : ℤ) / 2 := by
          rw [show (-1075 : ℤ) = -1074 - 1 by norm_num, zpow_pred]
        rw [e2]; linarith
      have h324 : (10 : ℝ) ^ (-324 : ℤ) ≤ (2 : ℝ) ^ (-1075 : ℤ) := by
        rw [zpow_neg, zpow_neg, zpow_ofNat, zpow_ofNat]
        exact inv_anti₀ (by positivity) two_pow_1075_le
      exact lt_of_le_of_lt (le_trans h324 hq') hqhi
    have := (zpow_lt_zpow_iff_right₀ (by norm_num : (1 : ℝ) < 10)).mp h1
    omega
  -- the magnitude guard of `litBits` does not fire
  have hD0 : D ≠ 0 := by omega
  have hL1 : 59 ≤ D.log2 := (Nat.le_log2 hD0).mpr (le_trans (by norm_num) hD1)
  have hL2 : D.log2 < 64 := (Nat.log2_lt hD0).mpr (lt_trans hD2 (by norm_num))
  unfold litBits
  simp only [if_neg hD0]
  have hm1 : ¬ ((400 : ℤ) < (D.log2 : ℤ) * 30103 / 100000 + (k - 18)) := by omega
  have hm2 : ¬ ((D.log2 : ℤ) * 30103 / 100000 + (k - 18) < -400) := by omega
  rw [if_neg hm1, if_neg hm2]
  have hcanon := sigOf_canonical b
  have hfinal := pack_decode b hb hfin
  split
  · rename_i hk
    obtain ⟨n, hn⟩ := Int.eq_ofNat_of_zero_le hk
    have hval : ((D * 10 ^ (k - 18).toNat : ℕ) : ℝ) / ((1 : ℕ) : ℝ) = q := by
      rw [hq, hn]; simp
    rw [nearestBits_of_close _ 1 (by norm_num) (sigOf b) (expOf b) hsig he1 he2 hcanon (by rw [hval]; exact hclose)]
    exact hfinal
  · rename_i hk
    obtain ⟨n, hn⟩ := Int.eq_ofNat_of_zero_le (show (0 : ℤ) ≤ -(k - 18) by omega)
    have hk' : k - 18 = -(n : ℤ) := by omega
    have hval : ((D : ℕ) : ℝ) / ((10 ^ (-(k - 18)).toNat : ℕ) : ℝ) = q := by
      rw [hq, hk']; simp [zpow_neg, div_eq_mul_inv]
    rw [nearestBits_of_close _ _ (by positivity) (sigOf b) (expOf b) hsig he1 he2 hcanon (by rw [hval]; exact hclose)]
    exact hfinal

end ScnVerif.Xye
