import ScnVerif.Model.Sqw.Build
import ScnVerif.Lemmas.SqwWF
/-! Every object the builder serialises is well-formed, provided its inputs are
(ASCII strings, bit patterns below 2^64, counts that fit their fields). -/
namespace ScnVerif.Sqw

/-- `wf_structObj` for a literal field list: names short, values well-formed -/
theorem wf_struct_lit (fields : List (Str × Obj))
    (hn : ∀ s ∈ fields.map (·.1), s.length < 2 ^ 32) (hl : fields.length < 2 ^ 32)
    (hw : WFs (fields.map (·.2))) : WF (structObj fields) :=
  wf_structObj fields (fun f hf => hn f.1 (List.mem_map_of_mem hf)) hl hw

def MainHeader.Ok (h : MainHeader) (stamp : Str) : Prop :=
  StrOk h.fullFilename ∧ StrOk h.title ∧ h.nfiles < 2 ^ 53 ∧ StrOk stamp

theorem wf_mainHeader (h : MainHeader) (stamp : Str) (ok : h.Ok stamp) :
    WF (structObj (h.fields stamp)) := by
  obtain ⟨h1, h2, h3, h4⟩ := ok
  refine wf_struct_lit _ (by simp [MainHeader.fields]) (by simp [MainHeader.fields]) ?_
  simp only [MainHeader.fields, List.map, WFs]
  exact ⟨wf_strField _ (by decide +kernel), wf_f64Field _ (by decide +kernel), wf_strField _ h1, wf_strField _ h2,
    wf_natF64 _ h3, wf_strField _ h4, wf_boolField _, trivial⟩

def Experiment.Ok (e : Experiment) : Prop :=
  StrOk e.filename ∧ StrOk e.filepath ∧ e.runId + 1 < 2 ^ 53 ∧ BitsOk e.efix ∧ e.emode < 2 ^ 53 ∧
  ((∀ v ∈ e.en, v < 2 ^ 64) ∧ e.en.length = e.enCols * e.enRows ∧ e.enCols < 2 ^ 32 ∧ e.enRows < 2 ^ 32) ∧
  e.psi < 2 ^ 64 ∧ BitsOk e.u ∧ BitsOk e.v ∧ e.omega < 2 ^ 64 ∧ e.dpsi < 2 ^ 64 ∧ e.gl < 2 ^ 64 ∧
  e.gs < 2 ^ 64

theorem wfs_experiment (e : Experiment) (ok : e.Ok) : WFs (e.fields.map (·.2)) := by
  obtain ⟨h1, h2, h3, h4, h5, ⟨h6, h7, h8, h9⟩, h10, h11, h12, h13, h14, h15, h16⟩ := ok
  simp only [Experiment.fields, List.map, WFs]
  refine ⟨wf_strField _ h1, wf_strField _ h2, wf_natF64 _ h3, wf_arr1 _ h4, wf_natF64 _ h5, ?_,
    wf_f64Field _ h10, wf_arr1 _ h11, wf_arr1 _ h12, wf_f64Field _ h13, wf_f64Field _ h14,
    wf_f64Field _ h15, wf_f64Field _ h16, wf_boolField _, trivial⟩
  exact ⟨shapeOk_two _ _ h8 h9, by simpa [volume] using h7, h6⟩

theorem experiment_fields_length (e : Experiment) : e.fields.length = 14 := rfl
theorem experiment_names (e : Experiment) : e.fields.map (·.1) = experimentFieldNames := rfl

theorem wfs_flatMap_experiments (es : List Experiment) (ok : ∀ e ∈ es, e.Ok) :
    WFs (es.flatMap (fun e => e.fields.map (·.2))) := by
  induction es with
  | nil => trivial
  | cons e es ih =>
    rw [List.flatMap_cons, WFs_append]
    exact ⟨wfs_experiment e (ok e (by simp)), ih (fun x hx => ok x (by simp [hx]))⟩

theorem flatMap_experiments_length (es : List Experiment) :
    (es.flatMap (fun e => e.fields.map (·.2))).length = 14 * es.length := by
  induction es with
  | nil => rfl
  | cons e es ih => simp [List.flatMap_cons, ih, experiment_fields_length]; omega

theorem wf_multiExperiment (es : List Experiment) (ok : ∀ e ∈ es, e.Ok) (hl : es.length < 2 ^ 32) :
    WF (structObj (multiExperimentFields es)) := by
  refine wf_struct_lit _ (by simp [multiExperimentFields]) (by simp [multiExperimentFields]) ?_
  simp only [multiExperimentFields, List.map, WFs]
  refine ⟨wf_strField _ (by decide +kernel), wf_f64Field _ (by decide +kernel), ?_, trivial⟩
  refine ⟨shapeOk_one _ hl, by simp [volume], ?_, ?_, ?_, hl, ?_, wfs_flatMap_experiments es ok⟩
  · rw [flatMap_experiments_length]
    cases es with
    | nil => simp
    | cons e es => simp [experiment_names, experimentFieldNames]
  · cases es with
    | nil => simp
    | cons e es => simp [experiment_names, experimentFieldNames]
  · cases es with
    | nil => simp
    | cons e es => simp [experiment_names, experimentFieldNames]
  · intro h0
    have : es = [] := List.length_eq_zero_iff.mp h0
    subst this
    simp

def PixMeta.Ok (m : PixMeta) : Prop :=
  StrOk m.fullFilename ∧ m.npix < 2 ^ 53 ∧ (∀ p ∈ m.dataRange, p.1 < 2 ^ 64 ∧ p.2 < 2 ^ 64) ∧
  m.dataRange.length < 2 ^ 32

theorem pairs_flat_length (l : List (Nat × Nat)) : (l.flatMap (fun p => [p.1, p.2])).length = 2 * l.length := by
  induction l with
  | nil => rfl
  | cons p l ih => simp [List.flatMap_cons, ih]; omega

theorem pairs_flat_bits (l : List (Nat × Nat)) (h : ∀ p ∈ l, p.1 < 2 ^ 64 ∧ p.2 < 2 ^ 64) :
    ∀ v ∈ l.flatMap (fun p => [p.1, p.2]), v < 2 ^ 64 := by
  intro v hv
  simp only [List.mem_flatMap, List.mem_cons, List.not_mem_nil, or_false] at hv
  obtain ⟨p, hp, rfl | rfl⟩ := hv
  · exact (h p hp).1
  · exact (h p hp).2

theorem wf_pairs (l : List (Nat × Nat)) (h : ∀ p ∈ l, p.1 < 2 ^ 64 ∧ p.2 < 2 ^ 64) (hl : l.length < 2 ^ 32) :
    WF (.f64s [2, l.length] (l.flatMap (fun p => [p.1, p.2]))) :=
  ⟨shapeOk_two _ _ (by omega) hl, by rw [pairs_flat_length]; simp [volume], pairs_flat_bits l h⟩

theorem wf_pixMeta (m : PixMeta) (ok : m.Ok) : WF (structObj m.fields) := by
  obtain ⟨h1, h2, h3, h4⟩ := ok
  refine wf_struct_lit _ (by simp [PixMeta.fields]) (by simp [PixMeta.fields]) ?_
  simp only [PixMeta.fields, List.map, WFs]
  exact ⟨wf_strField _ (by decide +kernel), wf_f64Field _ (by decide +kernel), wf_strField _ h1, wf_natF64 _ h2,
    wf_pairs _ h3 h4, trivial⟩

def Source.Ok (s : Source) : Prop := StrOk s.name ∧ StrOk s.targetName ∧ s.frequency < 2 ^ 64

theorem wf_source (s : Source) (ok : s.Ok) : WF (structObj s.fields) := by
  obtain ⟨h1, h2, h3⟩ := ok
  refine wf_struct_lit _ (by simp [Source.fields]) (by simp [Source.fields]) ?_
  simp only [Source.fields, List.map, WFs]
  exact ⟨wf_strField _ (by decide +kernel), wf_f64Field _ (by decide +kernel), wf_strField _ h1, wf_strField _ h2,
    wf_f64Field _ h3, trivial⟩

def Instrument.Ok (i : Instrument) : Prop := StrOk i.name ∧ i.source.Ok

theorem wf_instrument (i : Instrument) (ok : i.Ok) : WF (structObj i.fields) := by
  obtain ⟨h1, h2⟩ := ok
  refine wf_struct_lit _ (by simp [Instrument.fields]) (by simp [Instrument.fields]) ?_
  simp only [Instrument.fields, List.map, WFs]
  exact ⟨wf_strField _ (by decide +kernel), wf_f64Field _ (by decide +kernel), wf_source _ h2, wf_strField _ h1, trivial⟩

def Sample.Ok (s : Sample) : Prop := StrOk s.name ∧ BitsOk s.alatt ∧ BitsOk s.angdeg

theorem wf_sample (s : Sample) (ok : s.Ok) : WF (structObj s.fields) := by
  obtain ⟨h1, h2, h3⟩ := ok
  refine wf_struct_lit _ (by simp [Sample.fields]) (by simp [Sample.fields]) ?_
  simp only [Sample.fields, List.map, WFs]
  exact ⟨wf_strField _ (by decide +kernel), wf_f64Field _ (by decide +kernel), wf_arr1 _ h2, wf_arr1 _ h3,
    wf_strField _ h1, trivial⟩

theorem fOne_lt : fOne < 2 ^ 64 := by decide +kernel

theorem wf_uniqueObj (baseclass : Str) (objects : List Obj) (nIdx : Nat)
    (hb : StrOk baseclass) (ho : WFs objects) (hol : objects.length < 2 ^ 32) (hn : nIdx < 2 ^ 32) :
    WF (structObj (uniqueObjFields baseclass objects nIdx)) := by
  refine wf_struct_lit _ (by simp [uniqueObjFields]) (by simp [uniqueObjFields]) ?_
  simp only [uniqueObjFields, List.map, WFs]
  refine ⟨wf_strField _ (by decide +kernel), wf_f64Field _ (by decide +kernel), wf_strField _ hb, ?_, ?_, trivial⟩
  · exact ⟨shapeOk_one _ hol, by simp [volume], ho⟩
  · refine ⟨shapeOk_one _ hn, by simp [volume], ?_⟩
    intro v hv
    rw [List.mem_replicate] at hv
    rw [hv.2]; exact fOne_lt

theorem wf_uniqueRef (globalName baseclass : Str) (objects : List Obj) (nIdx : Nat)
    (hg : StrOk globalName) (hb : StrOk baseclass) (ho : WFs objects) (hol : objects.length < 2 ^ 32)
    (hn : nIdx < 2 ^ 32) :
    WF (structObj (uniqueRefFields globalName baseclass objects nIdx)) := by
  refine wf_struct_lit _ (by simp [uniqueRefFields]) (by simp [uniqueRefFields]) ?_
  simp only [uniqueRefFields, List.map, WFs]
  exact ⟨wf_strField _ (by decide +kernel), wf_f64Field _ (by decide +kernel), wf_strField _ hb, wf_strField _ hg,
    wf_uniqueObj baseclass objects nIdx hb ho hol hn, trivial⟩

def NatsOk (l : List Nat) : Prop := (∀ n ∈ l, n < 2 ^ 53) ∧ l.length < 2 ^ 32

theorem bitsOk_map_natToF64 (l : List Nat) (h : NatsOk l) : BitsOk (l.map natToF64) := by
  refine ⟨?_, by simpa using h.2⟩
  intro v hv
  simp only [List.mem_map] at hv
  obtain ⟨n, hn, rfl⟩ := hv
  exact natToF64_lt n (h.1 n hn)

def LineAxes.Ok (a : LineAxes) : Prop :=
  StrOk a.title ∧ ((∀ s ∈ a.label, StrOk s) ∧ a.label.length < 2 ^ 32) ∧ BitsOk a.imgScales ∧
  ((∀ p ∈ a.imgRange, p.1 < 2 ^ 64 ∧ p.2 < 2 ^ 64) ∧ a.imgRange.length < 2 ^ 32) ∧
  NatsOk a.nBins ∧ a.singleBin.length = a.nBins.length ∧ NatsOk (a.dax.map (· + 1)) ∧ BitsOk a.offset

theorem wf_lineAxes (a : LineAxes) (filename filepath : Str) (ok : a.Ok)
    (hfn : StrOk filename) (hfp : StrOk filepath) : WF (structObj (a.fields filename filepath)) := by
  obtain ⟨h1, ⟨h2, h2'⟩, h3, ⟨h4, h4'⟩, h5, h6, h7, h8⟩ := ok
  refine wf_struct_lit _ (by simp [LineAxes.fields]) (by simp [LineAxes.fields]) ?_
  simp only [LineAxes.fields, List.map, WFs]
  refine ⟨wf_strField _ (by decide +kernel), wf_f64Field _ (by decide +kernel), wf_strField _ hfn, wf_strField _ hfp,
    wf_strField _ h1, wf_strArray _ h2 h2', wf_arr1 _ h3, wf_pairs _ h4 h4',
    wf_arr1 _ (bitsOk_map_natToF64 _ h5), ?_, ?_, wf_arr1 _ h8, wf_boolField _, trivial⟩
  · exact ⟨shapeOk_one _ h5.2, by simp [volume, h6]⟩
  · have := bitsOk_map_natToF64 _ h7
    rw [List.map_map] at this
    exact wf_arr1 _ this

def LineProj.Ok (p : LineProj) : Prop :=
  BitsOk p.alatt ∧ BitsOk p.angdeg ∧ BitsOk p.offset ∧ StrOk p.title ∧
  ((∀ s ∈ p.label, StrOk s) ∧ p.label.length < 2 ^ 32) ∧ BitsOk p.u ∧ BitsOk p.v ∧ BitsOk p.w

theorem wf_lineProj (p : LineProj) (ok : p.Ok) : WF (structObj p.fields) := by
  obtain ⟨h1, h2, h3, h4, ⟨h5, h5'⟩, h6, h7, h8⟩ := ok
  refine wf_struct_lit _ (by simp [LineProj.fields]) (by simp [LineProj.fields]) ?_
  simp only [LineProj.fields, List.map, WFs]
  exact ⟨wf_strField _ (by decide +kernel), wf_f64Field _ (by decide +kernel), wf_arr1 _ h1, wf_arr1 _ h2, wf_arr1 _ h3,
    wf_strField _ h4, wf_strArray _ h5 h5', wf_arr1 _ h6, wf_arr1 _ h7, wf_arr1 _ h8, wf_boolField _,
    wf_strField _ (by decide +kernel), trivial⟩

def DndMeta.Ok (d : DndMeta) : Prop := d.axes.Ok ∧ d.proj.Ok

theorem wf_dndMeta (d : DndMeta) (filename filepath stamp : Str) (ok : d.Ok)
    (hfn : StrOk filename) (hfp : StrOk filepath) (hs : StrOk stamp) :
    WF (structObj (d.fields filename filepath stamp)) := by
  refine wf_struct_lit _ (by simp [DndMeta.fields]) (by simp [DndMeta.fields]) ?_
  simp only [DndMeta.fields, List.map, WFs]
  exact ⟨wf_strField _ (by decide +kernel), wf_f64Field _ (by decide +kernel), wf_lineAxes _ _ _ ok.1 hfn hfp,
    wf_lineProj _ ok.2, wf_strField _ hs, trivial⟩

/-- inputs of one block are within what the format can hold -/
def Block.Ok (b : Builder) (st : Stamps) : Block → Prop
  | .mainHeader h => h.Ok st.main
  | .expdata es => (∀ e ∈ es, e.Ok) ∧ es.length < 2 ^ 32
  | .pixMeta m => m.Ok
  | .detpar => True
  | .dndMeta d => d.Ok ∧ StrOk b.filename ∧ StrOk b.filepath ∧ StrOk st.dnd
  | .instruments i n => i.Ok ∧ n < 2 ^ 32
  | .samples s n => s.Ok ∧ n < 2 ^ 32

theorem wf_block (b : Builder) (st : Stamps) (blk : Block) (ok : blk.Ok b st) : WF (blk.toObj b st) := by
  cases blk with
  | mainHeader h => exact wf_mainHeader h st.main ok
  | expdata es => exact wf_multiExperiment es ok.1 ok.2
  | pixMeta m => exact wf_pixMeta m ok
  | detpar =>
    exact wf_uniqueRef _ _ [] 0 (by decide +kernel) (by decide +kernel) trivial (by simp) (by omega)
  | dndMeta d => exact wf_dndMeta d _ _ _ ok.1 ok.2.1 ok.2.2.1 ok.2.2.2
  | instruments i n =>
    exact wf_uniqueRef _ _ _ n (by decide +kernel) (by decide +kernel) ⟨wf_instrument i ok.1, trivial⟩ (by simp) ok.2
  | samples s n =>
    exact wf_uniqueRef _ _ _ n (by decide +kernel) (by decide +kernel) ⟨wf_sample s ok.1, trivial⟩ (by simp) ok.2

end ScnVerif.Sqw
