import ScnVerif.Model.TofKernels
import ScnVerif.Real.Basic
import Mathlib.Tactic.FieldSimp
import Mathlib.Tactic.Ring
import Mathlib.Tactic.Linarith
import Mathlib.Tactic.Positivity
/-!
The `ℝ` reading of the scipp operations used by the TOF kernels: casts are the identity, integer
literals are the integers, `x ** 2 = x ^ 2`.  (No overflow, no rounding: rounding is treated separately
in `Lemmas/RelErr.lean`.)
-/
namespace ScnVerif.Tof

noncomputable instance : Scipp ℝ where
  asFloatLike := fun x _ => x
  sq := fun x => x ^ 2
  sqSame := fun x => x ^ 2
  i64 := fun n => (n : ℝ)
  half := 1 / 2
  asCommon4 := fun x _ _ _ _ => x

@[simp] theorem asFloatLike_real (x r : ℝ) : asFloatLike x r = x := rfl
@[simp] theorem sq_real (x : ℝ) : sq x = x ^ 2 := rfl
@[simp] theorem sqSame_real (x : ℝ) : sqSame x = x ^ 2 := rfl
@[simp] theorem i64_real (n : ℕ) : (i64 n : ℝ) = (n : ℝ) := rfl
@[simp] theorem half_real : (half : ℝ) = 1 / 2 := rfl
@[simp] theorem asCommon4_real (x a b c d : ℝ) : asCommon4 x a b c d = x := rfl

end ScnVerif.Tof
