import ScnVerif.Lemmas.SqwDecode
import ScnVerif.Lemmas.SqwBuildWF
import ScnVerif.Lemmas.SqwBuilder
/-! `decodeFile (create …) = ok …` -/
namespace ScnVerif.Sqw

/-- `out` decodes to `c` (at any position in the table) and its declared size is exact -/
def Decodes (o : Order) (out : BlockOut) (c : Content) : Prop :=
  (∀ j, decodeBlock o j out.desc.ty out.bytes = .ok c) ∧ out.desc.size = out.bytes.length

inductive AllDecode (o : Order) : List BlockOut → List Content → Prop
  | nil : AllDecode o [] []
  | cons {out c outs cs} : Decodes o out c → AllDecode o outs cs → AllDecode o (out :: outs) (c :: cs)

theorem AllDecode.append {o : Order} {a b : List BlockOut} {c d : List Content}
    (h1 : AllDecode o a c) (h2 : AllDecode o b d) : AllDecode o (a ++ b) (c ++ d) := by
  induction h1 with
  | nil => exact h2
  | cons hd _ ih => exact .cons hd ih

theorem decodeBlocks_ok (o : Order) (outs : List BlockOut) (cs : List Content)
    (h : AllDecode o outs cs) :
    ∀ i p, decodeBlocks o i p ((assignPos p (outs.map (·.desc))).map toDDesc)
      ((outs.map (·.bytes)).flatten) = .ok cs := by
  induction h with
  | nil => intro i p; simp [assignPos, decodeBlocks]
  | @cons out c outs cs hd _ ih =>
    intro i p
    obtain ⟨hdec, hsz⟩ := hd
    have ih' := ih (i + 1) (p + out.desc.size)
    simp only [List.map_cons, assignPos, List.flatten_cons, decodeBlocks, toDDesc, ne_eq,
      not_true_eq_false, if_false]
    rw [hsz, takeN_append]
    simp only [hdec i]
    rw [hsz] at ih'
    rw [ih']

theorem tiles_bounds (start : Nat) (ds : List Desc) (total : Nat) (h : Tiles start ds total) :
    ∀ d ∈ ds, d.pos + d.size ≤ total := by
  induction ds generalizing start with
  | nil => intro d hd; simp at hd
  | cons a ds ih =>
    obtain ⟨hp, ht⟩ := h
    have hle : ∀ s l, Tiles s l total → s ≤ total := by
      intro s l
      induction l generalizing s with
      | nil => intro h; exact Nat.le_of_eq h
      | cons x xs ihx => intro h; have := ihx _ h.2; omega
    intro d hd
    rcases List.mem_cons.mp hd with rfl | hd'
    · have := hle _ _ ht; omega
    · exact ih _ ht d hd'

/-- the decoder on a file laid out as `create` lays it out -/
theorem decodeFile_layout (o : Order) (nd : Nat) (outs : List BlockOut) (cs : List Content)
    (hnd : nd < 2 ^ 32) (hF : AllDecode o outs cs)
    (hnames : ∀ x ∈ outs, x.desc.ty.length < 2 ^ 32 ∧ x.desc.name.1.length < 2 ^ 32 ∧
      x.desc.name.2.length < 2 ^ 32 ∧ x.desc.locked < 2 ^ 32)
    (file : Bytes) (ds : List Desc)
    (hds : ds = assignPos ((fileHeader o nd).length + (4 + (batBody o (outs.map (·.desc))).length))
      (outs.map (·.desc)))
    (hfile : file = fileHeader o nd ++ (u32 o (batBody o ds).length ++ (batBody o ds ++ (outs.map (·.bytes)).flatten)))
    (hsize : file.length < 2 ^ 32) :
    decodeFile file = .ok ⟨o, ⟨sHorace, fFour, 1, nd⟩, (batBody o ds).length, ds.map toDDesc, cs⟩ := by
  have hLeq : (batBody o ds).length = (batBody o (outs.map (·.desc))).length := by
    rw [hds, batBody_assignPos_length]
  have hflen : file.length = (fileHeader o nd).length + (4 + (batBody o ds).length) +
      ((outs.map (·.bytes)).flatten).length := by
    rw [hfile]; simp only [List.length_append, u32_length]; omega
  have hL : (batBody o ds).length < 2 ^ 32 := by omega
  have hn : ds.length < 2 ^ 32 := by
    have : (batBody o ds).length = 4 + (ds.flatMap (descBytes o)).length := by simp [batBody]
    have h28 : ds.length ≤ (ds.flatMap (descBytes o)).length := by
      clear hds hfile hLeq hflen hL this
      induction ds with
      | nil => simp
      | cons d ds ih => rw [List.flatMap_cons, List.length_append, List.length_cons, descBytes_length]; omega
    omega
  -- sizes and positions fit
  have hsizes : ∀ x ∈ outs, x.desc.size = x.bytes.length := by
    intro x hx
    clear hds hfile hLeq hflen hL hn hnames
    induction hF with
    | nil => simp at hx
    | cons hd _ ih =>
      rcases List.mem_cons.mp hx with rfl | hx'
      · exact hd.2
      · exact ih hx'
  have hpay := flatten_length_of_sizes outs hsizes
  have htile := tiles_assignPos ((fileHeader o nd).length + (4 + (batBody o (outs.map (·.desc))).length))
    (outs.map (·.desc))
  rw [← hds] at htile
  have hbound := tiles_bounds _ _ _ htile
  have hdesc : ∀ d ∈ ds, DescOk d := by
    intro d hd
    have hb := hbound d hd
    have hmem : ∃ x ∈ outs, d.ty = x.desc.ty ∧ d.name = x.desc.name ∧ d.locked = x.desc.locked := by
      rw [hds] at hd
      clear hds hfile hLeq hflen hL hn hnames hsizes hpay htile hbound hb hF
      generalize (fileHeader o nd).length + (4 + (batBody o (outs.map (·.desc))).length) = p at hd
      induction outs generalizing p with
      | nil => simp [assignPos] at hd
      | cons x xs ih =>
        simp only [List.map_cons, assignPos, List.mem_cons] at hd
        rcases hd with rfl | hd
        · exact ⟨x, by simp, rfl, rfl, rfl⟩
        · obtain ⟨y, hy, h⟩ := ih _ hd
          exact ⟨y, by simp [hy], h⟩
    obtain ⟨x, hx, h1, h2, h3⟩ := hmem
    obtain ⟨a1, a2, a3, a4⟩ := hnames x hx
    refine ⟨by rw [h1]; exact a1, by rw [h2]; exact a2, by rw [h2]; exact a3, ?_, ?_, by rw [h3]; exact a4⟩
    · have : (2:Nat) ^ 32 ≤ 2 ^ 64 := Nat.pow_le_pow_right (by omega) (by omega)
      omega
    · omega
  have hord : deduceOrder file = o := by rw [hfile]; exact deduceOrder_fileHeader o nd _
  have hdescs := rdDescs_flatMap o ds 0 ((outs.map (·.bytes)).flatten) hdesc
  have hblocks := decodeBlocks_ok o outs cs hF 0
    ((fileHeader o nd).length + (4 + (batBody o (outs.map (·.desc))).length))
  rw [← hds] at hblocks
  have hhor : sHorace = dHorace := rfl
  have hfour : fFour = dFour := by decide +kernel
  unfold decodeFile
  simp only [hord]
  rw [hfile, rdHeader_fileHeader o nd _ hnd]
  simp only [hhor, hfour, ne_eq, not_true_eq_false, or_self, if_false]
  rw [rdU32_u32 o _ _ hL]
  simp only [batBody, List.append_assoc]
  rw [rdU32_u32 o _ _ hn]
  simp only [hdescs]
  have hlen1 : (u32 o ds.length ++ (ds.flatMap (descBytes o) ++ (outs.map (·.bytes)).flatten)).length -
      ((outs.map (·.bytes)).flatten).length = (u32 o ds.length ++ ds.flatMap (descBytes o)).length := by
    simp only [List.length_append]; omega
  rw [hlen1]
  simp only [ne_eq, not_true_eq_false, if_false]
  have hlen2 : (fileHeader o nd ++ (u32 o (u32 o ds.length ++ ds.flatMap (descBytes o)).length ++
      (u32 o ds.length ++ (ds.flatMap (descBytes o) ++ (outs.map (·.bytes)).flatten)))).length -
      ((outs.map (·.bytes)).flatten).length =
      (fileHeader o nd).length + (4 + (batBody o (outs.map (·.desc))).length) := by
    rw [← hLeq]
    simp only [List.length_append, u32_length, batBody]; omega
  rw [hlen2, hblocks]

end ScnVerif.Sqw
