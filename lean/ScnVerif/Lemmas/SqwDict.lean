import ScnVerif.Model.Sqw.Build
/-! Python-dict lemmas (`dictSet`, `dictGet`) and the canonical block order. -/
namespace ScnVerif.Sqw

def keys {β} (l : List (BlockName × β)) : List BlockName := l.map (·.1)

theorem keys_dictSet {β} (k : BlockName) (v : β) (l : List (BlockName × β)) :
    keys (dictSet k v l) = if k ∈ keys l then keys l else keys l ++ [k] := by
  induction l with
  | nil => simp [dictSet, keys]
  | cons kv rest ih =>
    obtain ⟨k', v'⟩ := kv
    unfold dictSet
    by_cases h : k' = k
    · subst h; simp [keys]
    · simp only [h, if_false]
      simp only [keys, List.map_cons, List.mem_cons] at ih ⊢
      have hne : ¬ k = k' := fun e => h e.symm
      by_cases hm : k ∈ List.map (·.1) rest
      · simp [hm, hne] at ih ⊢; exact ih
      · simp [hm, hne] at ih ⊢; exact ih

theorem mem_keys_dictSet {β} (k : BlockName) (v : β) (l : List (BlockName × β)) (x : BlockName) :
    x ∈ keys (dictSet k v l) ↔ x ∈ keys l ∨ x = k := by
  rw [keys_dictSet]
  by_cases h : k ∈ keys l
  · simp only [h, if_true]
    constructor
    · exact Or.inl
    · rintro (h' | rfl) <;> assumption
  · simp [h]

theorem nodup_keys_dictSet {β} (k : BlockName) (v : β) (l : List (BlockName × β))
    (h : (keys l).Nodup) : (keys (dictSet k v l)).Nodup := by
  rw [keys_dictSet]
  by_cases hm : k ∈ keys l
  · simp [hm, h]
  · simp only [hm, if_false]
    rw [List.nodup_append]
    refine ⟨h, by simp, ?_⟩
    intro a ha b hb
    simp at hb; subst hb
    intro e; subst e; exact hm ha

theorem mem_dictSet {β} (k : BlockName) (v : β) (l : List (BlockName × β)) (x : BlockName × β)
    (h : x ∈ dictSet k v l) : x = (k, v) ∨ x ∈ l := by
  induction l with
  | nil => simp [dictSet] at h; exact Or.inl h
  | cons kv rest ih =>
    obtain ⟨k', v'⟩ := kv
    unfold dictSet at h
    by_cases hk : k' = k
    · simp only [hk, if_true, List.mem_cons] at h
      rcases h with h | h
      · exact Or.inl h
      · exact Or.inr (List.mem_cons_of_mem _ h)
    · simp only [hk, if_false, List.mem_cons] at h
      rcases h with h | h
      · exact Or.inr (by simp [h])
      · rcases ih h with h' | h'
        · exact Or.inl h'
        · exact Or.inr (List.mem_cons_of_mem _ h')

theorem dictGet_mem {β} (k : BlockName) (l : List (BlockName × β)) (v : β)
    (h : dictGet k l = some v) : (k, v) ∈ l := by
  induction l with
  | nil => simp [dictGet] at h
  | cons kv rest ih =>
    obtain ⟨k', v'⟩ := kv
    unfold dictGet at h
    by_cases hk : k' = k
    · simp only [hk, if_true] at h
      injection h with h; subst h; subst hk; simp
    · simp only [hk, if_false] at h
      exact List.mem_cons_of_mem _ (ih h)

theorem dictGet_isSome {β} (k : BlockName) (l : List (BlockName × β)) :
    (dictGet k l).isSome = decide (k ∈ keys l) := by
  induction l with
  | nil => simp [dictGet, keys]
  | cons kv rest ih =>
    obtain ⟨k', v'⟩ := kv
    unfold dictGet
    by_cases hk : k' = k
    · subst hk; simp [keys]
    · have hne : ¬ k = k' := fun e => hk e.symm
      simp only [hk, if_false, ih, keys, List.map_cons, List.mem_cons, hne, false_or]
      rfl

theorem dictGet_of_mem_nodup {β} (k : BlockName) (v : β) (l : List (BlockName × β))
    (hn : (keys l).Nodup) (hm : (k, v) ∈ l) : dictGet k l = some v := by
  induction l with
  | nil => simp at hm
  | cons kv rest ih =>
    obtain ⟨k', v'⟩ := kv
    simp only [keys, List.map_cons, List.nodup_cons] at hn
    unfold dictGet
    rcases List.mem_cons.mp hm with h | h
    · injection h with h1 h2; subst h1; subst h2; simp
    · have hne : k' ≠ k := by
        intro e; subst e
        exact hn.1 (List.mem_map_of_mem (f := (·.1)) h)
      simp only [hne, if_false]
      exact ih hn.2 h

/-- setting a key to the value it already has, in a dict with distinct keys, changes nothing -/
theorem dictSet_of_mem_nodup {β} (k : BlockName) (v : β) (l : List (BlockName × β))
    (hn : (keys l).Nodup) (hm : (k, v) ∈ l) : dictSet k v l = l := by
  induction l with
  | nil => simp at hm
  | cons kv rest ih =>
    obtain ⟨k', v'⟩ := kv
    simp only [keys, List.map_cons, List.nodup_cons] at hn
    unfold dictSet
    rcases List.mem_cons.mp hm with h | h
    · injection h with h1 h2; subst h1; subst h2; simp
    · have hne : k' ≠ k := by
        intro e; subst e
        exact hn.1 (List.mem_map_of_mem (f := (·.1)) h)
      simp only [hne, if_false]
      rw [ih hn.2 h]

/-- the blocks in table order -/
def canonHead {β} (order : List BlockName) (blocks : List (BlockName × β)) : List (BlockName × β) :=
  order.filterMap (fun n => (dictGet n blocks).map (fun v => (n, v)))

theorem keys_canonHead {β} (order : List BlockName) (blocks : List (BlockName × β)) :
    keys (canonHead order blocks) = order.filter (fun n => decide (n ∈ keys blocks)) := by
  induction order with
  | nil => rfl
  | cons n ns ih =>
    have hs := dictGet_isSome n blocks
    cases hg : dictGet n blocks with
    | none =>
      rw [hg] at hs
      have : ¬ n ∈ keys blocks := by simpa using hs.symm
      simp only [canonHead, List.filterMap_cons, hg, Option.map_none, List.filter_cons, this,
        decide_false, Bool.false_eq_true, if_false]
      exact ih
    | some v =>
      rw [hg] at hs
      have : n ∈ keys blocks := by simpa using hs.symm
      have hd : decide (n ∈ keys blocks) = true := by simpa using this
      rw [List.filter_cons, hd]
      simp only [canonHead, List.filterMap_cons, hg, Option.map_some, keys, List.map_cons, if_true]
      congr 1

theorem mem_canonHead {β} (order : List BlockName) (blocks : List (BlockName × β)) (k : BlockName) (v : β)
    (hk : k ∈ order) (hg : dictGet k blocks = some v) : (k, v) ∈ canonHead order blocks := by
  unfold canonHead
  rw [List.mem_filterMap]
  exact ⟨k, hk, by simp [hg]⟩

theorem mem_of_mem_canonHead {β} (order : List BlockName) (blocks : List (BlockName × β))
    (x : BlockName × β) (h : x ∈ canonHead order blocks) : x ∈ blocks := by
  unfold canonHead at h
  rw [List.mem_filterMap] at h
  obtain ⟨n, _, hn⟩ := h
  cases hg : dictGet n blocks with
  | none => simp [hg] at hn
  | some v =>
    simp only [hg, Option.map_some, Option.some.injEq] at hn
    subst hn
    exact dictGet_mem n blocks v hg

theorem foldl_dictSet_id {β} (head : List (BlockName × β)) (hn : (keys head).Nodup)
    (bs : List (BlockName × β)) (h : ∀ kv ∈ bs, kv ∈ head) :
    bs.foldl (fun out kv => dictSet kv.1 kv.2 out) head = head := by
  induction bs with
  | nil => rfl
  | cons kv rest ih =>
    simp only [List.foldl_cons]
    have : dictSet kv.1 kv.2 head = head := dictSet_of_mem_nodup kv.1 kv.2 head hn (h kv (by simp))
    rw [this]
    exact ih (fun x hx => h x (by simp [hx]))

/-- when every block name occurs in the order table (which lists no name twice) and the dict has
distinct keys, `_to_canonical_block_order` is exactly "the blocks in table order": nothing is appended -/
theorem toCanonicalOrder_eq {β} (order : List BlockName) (blocks : List (BlockName × β))
    (ho : order.Nodup) (hn : (keys blocks).Nodup) (hsub : ∀ k ∈ keys blocks, k ∈ order) :
    toCanonicalOrder order blocks = canonHead order blocks := by
  unfold toCanonicalOrder
  show List.foldl (fun out kv => dictSet kv.1 kv.2 out) (canonHead order blocks) blocks = canonHead order blocks
  apply foldl_dictSet_id
  · rw [keys_canonHead]; exact ho.filter _
  · intro kv hkv
    obtain ⟨k, v⟩ := kv
    have hk : k ∈ keys blocks := List.mem_map_of_mem (f := (·.1)) hkv
    exact mem_canonHead order blocks k v (hsub k hk) (dictGet_of_mem_nodup k v blocks hn hkv)

end ScnVerif.Sqw
