import ScnVerif.Lemmas.CascadeGeneric
import Mathlib.Order.Defs.LinearOrder
import Mathlib.Order.Basic
/-!
# Regularity that survives rounding

The carrier is any linear order with **arbitrary** `+ - * /` (no ring axioms at all): this covers
binary64 without NaN with its real, rounded operations. What can be said without any property of the
arithmetic is exactly what the repair of `_chop` provides: a cut through an edge of constant wavelength
creates a vertex with exactly that wavelength, and if that wavelength is the minimum (maximum) of the
subframe, the new vertex attains both minima (maxima).
-/
set_option linter.unusedSectionVars false
namespace ScnVerif.Cascade
variable {β : Type} [Add β] [Sub β] [Mul β] [Div β] [OfNat β 1] [LinearOrder β]

theorem exists_min_by (f : Vtx β → β) : ∀ l : List (Vtx β), l ≠ [] → ∃ u ∈ l, ∀ v ∈ l, f u ≤ f v
  | [], h => absurd rfl h
  | [a], _ => ⟨a, by simp, by simp⟩
  | a :: b :: l, _ => by
      obtain ⟨u, hu, hmin⟩ := exists_min_by f (b :: l) (by simp)
      by_cases h : f a ≤ f u
      · refine ⟨a, by simp, ?_⟩
        intro v hv
        rcases List.mem_cons.1 hv with rfl | hv
        · exact le_refl _
        · exact h.trans (hmin v hv)
      · refine ⟨u, List.mem_cons_of_mem _ hu, ?_⟩
        intro v hv
        rcases List.mem_cons.1 hv with rfl | hv
        · exact (le_of_lt (not_le.1 h))
        · exact hmin v hv

theorem exists_max_by (f : Vtx β → β) : ∀ l : List (Vtx β), l ≠ [] → ∃ u ∈ l, ∀ v ∈ l, f v ≤ f u
  | [], h => absurd rfl h
  | [a], _ => ⟨a, by simp, by simp⟩
  | a :: b :: l, _ => by
      obtain ⟨u, hu, hmax⟩ := exists_max_by f (b :: l) (by simp)
      by_cases h : f u ≤ f a
      · refine ⟨a, by simp, ?_⟩
        intro v hv
        rcases List.mem_cons.1 hv with rfl | hv
        · exact le_refl _
        · exact (hmax v hv).trans h
      · refine ⟨u, List.mem_cons_of_mem _ hu, ?_⟩
        intro v hv
        rcases List.mem_cons.1 hv with rfl | hv
        · exact (le_of_lt (not_le.1 h))
        · exact hmax v hv

theorem mem_clipPath_of_generic {c : β} {dir : Bool} {v : Vtx β} : ∀ {l : List (Vtx β)} {e : Vtx β × Vtx β},
    e ∈ pathPairs l → v ∈ emit c dir e.1 e.2 → v ∈ clipPath c dir l
  | [], _, h, _ => by simp [pathPairs] at h
  | [_], _, h, _ => by simp [pathPairs] at h
  | p :: q :: l, e, h, hv => by
      rw [pathPairs_cons_cons, List.mem_cons] at h
      simp only [clipPath, List.mem_append]
      rcases h with rfl | h
      · exact Or.inl hv
      · exact Or.inr (mem_clipPath_of_generic h hv)

/-- **opening edge through the bottom edge** (any rounding): if the subframe has a vertex `m` with
minimal time and minimal wavelength and the clip `t ≥ c` cuts a cyclic edge whose two endpoints have
exactly the wavelength of `m`, the output again has a vertex with minimal time and minimal wavelength. -/
theorem minmin_after_open_clip_const_edge {c : β} {poly out : Poly β}
    (h : chopStep c true poly = some out) {m : Vtx β} (hm : ∀ v ∈ poly, m.2 ≤ v.2)
    {e : Vtx β × Vtx β} (he : e ∈ cycPairs poly) (hd : inside c true e.1.1 ≠ inside c true e.2.1)
    (h1 : e.1.2 = m.2) (h2 : e.2.2 = m.2) :
    ∃ m' ∈ out, ∀ v ∈ out, m'.1 ≤ v.1 ∧ m'.2 ≤ v.2 := by
  have hout : out = clipPath c true (poly ++ poly.take 1) := by
    unfold chopStep at h
    by_cases hE : (clipPath c true (poly ++ poly.take 1)).isEmpty = true
    · simp [hE] at h
    · simp only [hE] at h; simpa using h.symm
  -- the new vertex on that edge
  have hY : (c, m.2) ∈ out := by
    rw [hout]
    refine mem_clipPath_of_generic he ?_
    have : interp c e.1 e.2 = (c, m.2) := by
      rw [interp_const_edge c e.1 e.2 (by rw [h1, h2]; simp), h1]
    rw [← this]
    unfold emit
    have hd' : (inside c true e.1.1 != inside c true e.2.1) = true := by simpa using hd
    simp [hd']
  -- all output vertices have t ≥ c; those with t ≠ c are input vertices
  have hall : ∀ v ∈ out, c ≤ v.1 ∧ (v.1 = c ∨ v ∈ poly) := by
    intro v hv
    rcases mem_chopStep_generic h hv with ⟨hp, hin⟩ | ⟨_, _, _, _, hc, _⟩
    · exact ⟨by simpa [inside] using hin, Or.inr hp⟩
    · exact ⟨hc ▸ le_refl _, Or.inl hc⟩
  -- among the output vertices on the line, take one of minimal wavelength
  obtain ⟨u, hu, hmin⟩ := exists_min_by (fun v => v.2) (out.filter (fun v => decide (v.1 = c)))
    (List.ne_nil_of_mem (List.mem_filter.2 ⟨hY, by simp⟩))
  obtain ⟨huo, huc⟩ := List.mem_filter.1 hu
  have huc' : u.1 = c := by simpa using huc
  refine ⟨u, huo, ?_⟩
  intro v hv
  obtain ⟨hcv, hor⟩ := hall v hv
  refine ⟨huc' ▸ hcv, ?_⟩
  by_cases hvc : v.1 = c
  · exact hmin v (List.mem_filter.2 ⟨hv, by simpa using hvc⟩)
  · rcases hor with hvc' | hvp
    · exact absurd hvc' hvc
    · exact (hmin (c, m.2) (List.mem_filter.2 ⟨hY, by simp⟩)).trans (hm v hvp)

/-- **closing edge through the top edge** (any rounding): the mirror statement for the maxima -/
theorem maxmax_after_close_clip_const_edge {c : β} {poly out : Poly β}
    (h : chopStep c false poly = some out) {M : Vtx β} (hM : ∀ v ∈ poly, v.2 ≤ M.2)
    {e : Vtx β × Vtx β} (he : e ∈ cycPairs poly) (hd : inside c false e.1.1 ≠ inside c false e.2.1)
    (h1 : e.1.2 = M.2) (h2 : e.2.2 = M.2) :
    ∃ M' ∈ out, ∀ v ∈ out, v.1 ≤ M'.1 ∧ v.2 ≤ M'.2 := by
  have hout : out = clipPath c false (poly ++ poly.take 1) := by
    unfold chopStep at h
    by_cases hE : (clipPath c false (poly ++ poly.take 1)).isEmpty = true
    · simp [hE] at h
    · simp only [hE] at h; simpa using h.symm
  have hY : (c, M.2) ∈ out := by
    rw [hout]
    refine mem_clipPath_of_generic he ?_
    have : interp c e.1 e.2 = (c, M.2) := by
      rw [interp_const_edge c e.1 e.2 (by rw [h1, h2]; simp), h1]
    rw [← this]
    unfold emit
    have hd' : (inside c false e.1.1 != inside c false e.2.1) = true := by simpa using hd
    simp [hd']
  have hall : ∀ v ∈ out, v.1 ≤ c ∧ (v.1 = c ∨ v ∈ poly) := by
    intro v hv
    rcases mem_chopStep_generic h hv with ⟨hp, hin⟩ | ⟨_, _, _, _, hc, _⟩
    · exact ⟨by simpa [inside] using hin, Or.inr hp⟩
    · exact ⟨hc ▸ le_refl _, Or.inl hc⟩
  obtain ⟨u, hu, hmax⟩ := exists_max_by (fun v => v.2) (out.filter (fun v => decide (v.1 = c)))
    (List.ne_nil_of_mem (List.mem_filter.2 ⟨hY, by simp⟩))
  obtain ⟨huo, huc⟩ := List.mem_filter.1 hu
  have huc' : u.1 = c := by simpa using huc
  refine ⟨u, huo, ?_⟩
  intro v hv
  obtain ⟨hcv, hor⟩ := hall v hv
  refine ⟨huc' ▸ hcv, ?_⟩
  by_cases hvc : v.1 = c
  · exact hmax v (List.mem_filter.2 ⟨hv, by simpa using hvc⟩)
  · rcases hor with hvc' | hvp
    · exact absurd hvc' hvc
    · exact (hM v hvp).trans (hmax (c, M.2) (List.mem_filter.2 ⟨hY, by simp⟩))

/-- a clip that cuts nothing returns the subframe unchanged (any rounding) -/
theorem clipPath_all_inside {c : β} {dir : Bool} : ∀ (l : List (Vtx β)) (x : Vtx β),
    (∀ v ∈ l, inside c dir v.1 = true) → inside c dir x.1 = true → clipPath c dir (l ++ [x]) = l
  | [], x, _, _ => by simp [clipPath]
  | [a], x, hl, hx => by
      have ha := hl a (by simp)
      simp [clipPath, emit, ha, hx]
  | a :: b :: l, x, hl, hx => by
      have ha := hl a (by simp)
      have hb := hl b (by simp)
      have ih := clipPath_all_inside (b :: l) x (fun v hv => hl v (List.mem_cons_of_mem _ hv)) hx
      simp only [List.cons_append] at ih ⊢
      simp only [clipPath, emit, ha, hb, bne_self_eq_false, if_true, List.append_nil, Bool.false_eq_true, if_false]
      simp only [List.singleton_append, List.cons.injEq, true_and]
      exact ih

theorem chopStep_all_inside {c : β} {dir : Bool} {poly : Poly β} (hne : poly ≠ [])
    (hall : ∀ v ∈ poly, inside c dir v.1 = true) : chopStep c dir poly = some poly := by
  cases poly with
  | nil => exact absurd rfl hne
  | cons a t =>
    have hcp : clipPath c dir ((a :: t) ++ (a :: t).take 1) = a :: t := by
      simpa using clipPath_all_inside (a :: t) a hall (hall a (by simp))
    unfold chopStep
    simp only [hcp]
    simp

end ScnVerif.Cascade
