import ScnVerif.Lemmas.Beamline
import Mathlib.Tactic.LinearCombination
namespace ScnVerif.V3R
open ScnVerif

/-- orthogonal matrices (rotations and reflections) preserve the dot product -/
theorem M3.IsOrthogonal.preservesDot {M : M3} (h : M.IsOrthogonal) : PreservesDot M.mulVec := by
  intro v w
  obtain ⟨h11, h22, h33, h12, h13, h23⟩ := h
  simp only [M3.mulVec, M3.c1, M3.c2, M3.c3, V3.dot] at *
  linear_combination (v.x * w.x) * h11 + (v.y * w.y) * h22 + (v.z * w.z) * h33
    + (v.x * w.y + v.y * w.x) * h12 + (v.x * w.z + v.z * w.x) * h13 + (v.y * w.z + v.z * w.y) * h23

end ScnVerif.V3R
