import ScnVerif.Lemmas.Beamline
import Mathlib.Analysis.InnerProductSpace.PiL2
import Mathlib.Geometry.Euclidean.Angle.Unoriented.TriangleInequality
/-!
Bridge from the model's `V3 ℝ` to Mathlib's Euclidean space: `V3R.angle` *is*
`InnerProductGeometry.angle`, `V3.norm` is the Euclidean norm, `V3.dot` the inner product; and the
triangle inequality for angles (used for the bound on the optimised gravity path).
-/
namespace ScnVerif.V3R
open ScnVerif Real

/-- a model vector as a point of Mathlib's `EuclideanSpace ℝ (Fin 3)` -/
noncomputable def toE (v : V3 ℝ) : EuclideanSpace ℝ (Fin 3) := !₂[v.x, v.y, v.z]
theorem inner_toE (a b : V3 ℝ) : inner ℝ (toE a) (toE b) = V3.dot a b := by
  simp [toE, PiLp.inner_apply, Fin.sum_univ_three, V3.dot]
  ring
theorem norm_toE (a : V3 ℝ) : ‖toE a‖ = V3.norm a := by
  rw [norm_def, ← inner_toE, real_inner_self_eq_norm_sq, Real.sqrt_sq (_root_.norm_nonneg _)]
theorem angle_eq_mathlib (a b : V3 ℝ) : angle a b = InnerProductGeometry.angle (toE a) (toE b) := by
  rw [angle, cosAngle, InnerProductGeometry.angle, inner_toE, norm_toE, norm_toE]
theorem angle_triangle (a b c : V3 ℝ) : angle a c ≤ angle a b + angle b c := by
  simp only [angle_eq_mathlib]
  exact InnerProductGeometry.angle_le_angle_add_angle _ _ _
theorem angle_comm (a b : V3 ℝ) : angle a b = angle b a := by
  rw [angle, angle, cosAngle_comm]
theorem abs_angle_sub_le (a a' r : V3 ℝ) : |angle a' r - angle a r| ≤ angle a a' := by
  rw [abs_le]
  constructor
  · have := angle_triangle a a' r
    linarith
  · have := angle_triangle a' a r
    rw [angle_comm a' a] at this
    linarith
end ScnVerif.V3R
