import ScnVerif.Model.Filtering
import Mathlib.Tactic.Ring
import Mathlib.Tactic.Linarith
import Mathlib.Data.Real.Basic
import Mathlib.Algebra.Order.Floor.Ring
import Mathlib.Algebra.Order.Round
import Mathlib.Algebra.Order.Archimedean.Real.Basic
/-!
# Round-half-even on the reals and the "within rtol of an integer" predicate
(helper lemmas shared by C10 and C19)
-/
namespace ScnVerif.Lemmas.ChopperRound
open ScnVerif ScnVerif.Filtering ScnVerif.ChopperRat

theorem absv_eq_abs (x : ℝ) : absv x = |x| := by
  unfold absv
  split
  · next h => rw [abs_of_neg (by simpa using h)]
  · next h => rw [abs_of_nonneg (by simpa using h)]

/-- round half to even on the reals -/
noncomputable def rintReal (x : ℝ) : ℤ :=
  if x - ⌊x⌋ < 1 / 2 then ⌊x⌋
  else if 1 / 2 < x - ⌊x⌋ then ⌊x⌋ + 1
  else if ⌊x⌋ % 2 = 0 then ⌊x⌋ else ⌊x⌋ + 1

noncomputable instance instRintReal : Rint ℝ where
  rint x := (rintReal x : ℝ)
  rintInt := rintReal

theorem rintReal_near (x : ℝ) : |(rintReal x : ℝ) - x| ≤ 1 / 2 := by
  have h0 := Int.floor_le x
  have h1 := Int.lt_floor_add_one x
  unfold rintReal
  split
  · rw [abs_le]; constructor <;> linarith
  · split
    · push_cast; rw [abs_le]; constructor <;> linarith
    · split
      · rw [abs_le]; constructor <;> linarith
      · push_cast; rw [abs_le]; constructor <;> linarith

/-- for any nearest-integer rounding and `rtol ≤ 1/2`, "`|round q − q| < rtol`" says exactly that
`q` is within `rtol` of an integer (the tie-breaking rule is irrelevant) -/
theorem near_int_iff (rnd : ℝ → ℤ) (hr : ∀ x, |(rnd x : ℝ) - x| ≤ 1 / 2) (q rtol : ℝ) (h : rtol ≤ 1 / 2) :
    |(rnd q : ℝ) - q| < rtol ↔ ∃ n : ℤ, |q - n| < rtol := by
  constructor
  · intro hq; exact ⟨rnd q, by rwa [abs_sub_comm]⟩
  · rintro ⟨n, hn⟩
    have h1 : |((rnd q - n : ℤ) : ℝ)| < 1 := by
      push_cast
      calc |(rnd q : ℝ) - n| = |((rnd q : ℝ) - q) + (q - n)| := by ring_nf
        _ ≤ |(rnd q : ℝ) - q| + |q - n| := abs_add_le _ _
        _ < 1 := by linarith [hr q]
    have h2 : |rnd q - n| < 1 := by exact_mod_cast h1
    have h3 : rnd q = n := by
      have := Int.abs_lt_one_iff.mp h2; omega
    rw [h3, abs_sub_comm]; exact hn

/-- `_is_int_or_inverse_int` / `_is_approximate_multiple` accept exactly the numbers within `rtol`
of an integer, or whose reciprocal is -/
theorem int_or_inverse_iff (q rtol : ℝ) (h : rtol ≤ 1 / 2) :
    isIntOrInverseInt q rtol = true ↔ (∃ n : ℤ, |q - n| < rtol) ∨ (∃ n : ℤ, |1 / q - n| < rtol) := by
  simp only [isIntOrInverseInt, Bool.or_eq_true, decide_eq_true_eq, absv_eq_abs, Rint.rint, Int.cast_one]
  rw [near_int_iff rintReal rintReal_near q rtol h, near_int_iff rintReal rintReal_near (1 / q) rtol h]

end ScnVerif.Lemmas.ChopperRound
