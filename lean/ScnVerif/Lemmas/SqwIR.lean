import ScnVerif.Model.Sqw.IR
import ScnVerif.Lemmas.SqwBytes
/-! Round trip `decObj (writeObj x ++ rest) = (x, rest)` for well-formed IR objects. -/
namespace ScnVerif.Sqw

/-- a shape that fits the on-disk encoding: rank in one byte, extents in four -/
def ShapeOk (shape : List Nat) : Prop := shape.length < 256 ∧ ∀ d ∈ shape, d < 2 ^ 32

mutual
/-- well-formed objects: payload length matches the declared shape, everything fits its field.
Character arrays are in the normal form the builder produces (one string = the whole payload). -/
def WF : Obj → Prop
  | .chars shape strs => ShapeOk shape ∧ ∃ s, strs = [s] ∧ s.length = volume shape
  | .f64s shape vals => ShapeOk shape ∧ vals.length = volume shape ∧ ∀ v ∈ vals, v < 2 ^ 64
  | .logicals shape vals => ShapeOk shape ∧ vals.length = volume shape
  | .cell shape items => ShapeOk shape ∧ items.length = volume shape ∧ WFs items
  | .structs shape n names fields =>
      ShapeOk shape ∧ n = volume shape ∧ fields.length = names.length * n ∧
      names.length < 2 ^ 32 ∧ (∀ s ∈ names, s.length < 2 ^ 32) ∧ n < 2 ^ 32 ∧
      (n = 0 → names = [] ∧ fields = []) ∧ WFs fields
def WFs : List Obj → Prop
  | [] => True
  | x :: xs => WF x ∧ WFs xs
end

mutual
def depth : Obj → Nat
  | .chars _ _ => 1
  | .f64s _ _ => 1
  | .logicals _ _ => 1
  | .cell _ items => 1 + depths items
  | .structs _ _ _ fields => 2 + depths fields
def depths : List Obj → Nat
  | [] => 0
  | x :: xs => max (depth x) (depths xs) + 1
end

theorem rdDims_flatMap (o : Order) (ds : List Nat) (r : Bytes) (h : ∀ d ∈ ds, d < 2 ^ 32) :
    rdDims o ds.length (ds.flatMap (u32 o) ++ r) = some (ds, r) := by
  induction ds with
  | nil => simp [rdDims]
  | cons d ds ih =>
    have hd : d < 2 ^ 32 := h d (by simp)
    have ih' := ih (fun x hx => h x (by simp [hx]))
    simp [rdDims, List.flatMap_cons, List.append_assoc, rdU32_u32 o d _ hd, ih']

theorem rdShape_shapeBytes (o : Order) (shape : List Nat) (r : Bytes) (h : ShapeOk shape) :
    rdShape o (shapeBytes o shape ++ r) = some (shape, r) := by
  have hl : shape.length % 256 = shape.length := Nat.mod_eq_of_lt h.1
  simp [shapeBytes, u8, rdShape, hl, rdDims_flatMap o shape r h.2]

theorem rdF64s_flatMap (o : Order) (vs : List Nat) (r : Bytes) (h : ∀ v ∈ vs, v < 2 ^ 64) :
    rdF64s o vs.length (vs.flatMap (f64 o) ++ r) = some (vs, r) := by
  induction vs with
  | nil => simp [rdF64s]
  | cons v vs ih =>
    have hv : v < 2 ^ 64 := h v (by simp)
    have ih' := ih (fun x hx => h x (by simp [hx]))
    simp [rdF64s, List.flatMap_cons, List.append_assoc, rdU64_f64 o v _ hv, ih']

theorem rdPieces_flatten (names : List Bytes) (r : Bytes) :
    rdPieces (names.map List.length) (names.flatten ++ r) = some (names, r) := by
  induction names with
  | nil => simp [rdPieces]
  | cons s ss ih => simp [rdPieces, List.append_assoc, takeN_append, ih]

theorem flatMap_len_eq (o : Order) (names : List Bytes) :
    names.flatMap (fun s => u32 o s.length) = (names.map List.length).flatMap (u32 o) := by
  induction names with
  | nil => rfl
  | cons s ss ih => simp [List.flatMap_cons, ih]

theorem bool_roundtrip (vals : List Bool) :
    vals.map ((fun (x : Nat) => x != 0) ∘ fun b => if b = true then 1 else 0) = vals := by
  induction vals with
  | nil => rfl
  | cons b bs ih => cases b <;> simp_all

mutual
theorem decObj_writeObj (o : Order) (x : Obj) (f : Nat) (rest : Bytes)
    (hw : WF x) (hf : depth x ≤ f) : decObj o f (writeObj o x ++ rest) = some (x, rest) := by
  cases x with
  | chars shape strs =>
    cases f with
    | zero => simp [depth] at hf
    | succ f =>
      obtain ⟨hs, s, rfl, hl⟩ := hw
      simp [writeObj, decObj, List.append_assoc, rdShape_shapeBytes o shape _ hs,
        takeN_append' _ s rest hl]
  | f64s shape vals =>
    cases f with
    | zero => simp [depth] at hf
    | succ f =>
      obtain ⟨hs, hl, hv⟩ := hw
      simp [writeObj, decObj, List.append_assoc, rdShape_shapeBytes o shape _ hs, ← hl,
        rdF64s_flatMap o vals rest hv]
  | logicals shape vals =>
    cases f with
    | zero => simp [depth] at hf
    | succ f =>
      obtain ⟨hs, hl⟩ := hw
      have hl' : (vals.map (fun b => if b then 1 else 0) : Bytes).length = volume shape := by
        simpa using hl
      simp [writeObj, decObj, List.append_assoc, rdShape_shapeBytes o shape _ hs,
        takeN_append' _ _ rest hl', bool_roundtrip]
  | cell shape items =>
    cases f with
    | zero => simp [depth] at hf
    | succ f =>
      obtain ⟨hs, hl, hi⟩ := hw
      have hd : depths items ≤ f := by simp [depth] at hf; omega
      simp [writeObj, decObj, List.append_assoc, rdShape_shapeBytes o shape _ hs, ← hl,
        decObjs_writeObjs o items f rest hi hd]
  | structs shape n names fields =>
    obtain ⟨hs, hn, hfl, hnl, hnames, hn32, hzero, hfs⟩ := hw
    cases f with
    | zero => simp [depth] at hf
    | succ f =>
      cases f with
      | zero => have := hf; simp only [depth] at this; omega
      | succ f =>
        have hd : depths fields ≤ f := by simp [depth] at hf; omega
        have hd1 : depths fields ≤ f + 1 := by omega
        -- core: decoding what follows an optional tag 32
        have core : ∀ g, depths fields ≤ g →
            decObj o (g + 1) (24 :: (shapeBytes o shape ++
              (structPayload o n names (writeObjs o fields) ++ rest)))
            = some (.structs shape n names fields, rest) := by
          intro g hg
          by_cases h0 : n = 0
          · obtain ⟨rfl, rfl⟩ := hzero h0
            subst h0
            simp [decObj, structPayload, rdShape_shapeBytes o shape _ hs, ← hn]
          · have hcs : ShapeOk (structCellShape names.length n) := by
              unfold structCellShape ShapeOk
              split <;> (constructor <;> simp <;> omega)
            have hlen : (names.map List.length).length = names.length := by simp
            have hdims := rdDims_flatMap o (names.map List.length)
              (names.flatten ++ 23 :: (shapeBytes o (structCellShape names.length n) ++ (writeObjs o fields ++ rest)))
              (by intro d hd; simp at hd; obtain ⟨s, hs', rfl⟩ := hd; exact hnames s hs')
            rw [hlen] at hdims
            have hfl' : names.length * n = fields.length := hfl.symm
            simp [decObj, structPayload, h0, List.append_assoc, rdShape_shapeBytes o shape _ hs, ← hn,
              rdU32_u32 o names.length _ hnl, flatMap_len_eq, hdims, rdPieces_flatten,
              rdShape_shapeBytes o _ _ hcs, hfl', decObjs_writeObjs o fields g rest hfs hg]
        by_cases htag : needsSerializableTag n names fields = true
        · have e : writeObj o (.structs shape n names fields) ++ rest =
              32 :: 24 :: (shapeBytes o shape ++ (structPayload o n names (writeObjs o fields) ++ rest)) := by
            simp [writeObj, htag]
          rw [e, decObj]
          simp only [if_true]
          exact core f hd
        · have e : writeObj o (.structs shape n names fields) ++ rest =
              24 :: (shapeBytes o shape ++ (structPayload o n names (writeObjs o fields) ++ rest)) := by
            simp [writeObj, htag]
          rw [e]
          exact core (f + 1) hd1
theorem decObjs_writeObjs (o : Order) (xs : List Obj) (f : Nat) (rest : Bytes)
    (hw : WFs xs) (hf : depths xs ≤ f) :
    decObjs o f xs.length (writeObjs o xs ++ rest) = some (xs, rest) := by
  cases xs with
  | nil => cases f <;> simp [writeObjs, decObjs]
  | cons x xs =>
    cases f with
    | zero => simp [depths] at hf
    | succ f =>
      obtain ⟨hx, hxs⟩ := hw
      have h1 : depth x ≤ f := by simp [depths] at hf; omega
      have h2 : depths xs ≤ f := by simp [depths] at hf; omega
      simp [writeObjs, decObjs, List.append_assoc, decObj_writeObj o x f _ hx h1,
        decObjs_writeObjs o xs f rest hxs h2]
end

end ScnVerif.Sqw
