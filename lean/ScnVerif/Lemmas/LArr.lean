import ScnVerif.Model.QVec
import Mathlib.Tactic.Ring
import Mathlib.Tactic.Linarith
import Mathlib.Data.List.Range
/-! row-major storage of labelled arrays (`Model/QVec.lean`: `allIdx`, `flatIndex`, `LArr.ofFlat`, `LArr.toFlat`): the k-th multi-index of the enumeration has flat index k, hence reading a buffer through labelled indices and writing it back is the identity. Used by C08. -/
namespace ScnVerif.Lemmas.LArr
open ScnVerif ScnVerif.QVec

def prodSizes (s : Sizes) : Nat := (s.map (·.2)).prod

def foldIdx (acc : Nat) (s : Sizes) (idx : Nat → Nat) : Nat :=
  s.foldl (fun acc p => acc * p.2 + idx p.1) acc

theorem flatIndex_eq (s : Sizes) (idx : Nat → Nat) : flatIndex s idx = foldIdx 0 s idx := rfl

theorem foldIdx_congr (s : Sizes) (acc : Nat) (f g : Nat → Nat) (h : ∀ p ∈ s, f p.1 = g p.1) :
    foldIdx acc s f = foldIdx acc s g := by
  induction s generalizing acc with
  | nil => rfl
  | cons p rest ih =>
    simp only [foldIdx, List.foldl_cons]
    rw [h p (by simp)]
    exact ih _ (fun q hq => h q (by simp [hq]))

theorem lookupIdx_cons_self (d i : Nat) (t : List (Nat × Nat)) : lookupIdx ((d, i) :: t) d = i := by
  simp [lookupIdx, List.find?]

theorem lookupIdx_cons_ne (d i d' : Nat) (t : List (Nat × Nat)) (h : d ≠ d') :
    lookupIdx ((d, i) :: t) d' = lookupIdx t d' := by
  have : ((d, i).1 == d') = false := by simpa using h
  simp [lookupIdx, List.find?, this]

theorem range_block (n P a : Nat) :
    (List.range n).flatMap (fun i => (List.range P).map (fun j => a + i * P + j))
      = (List.range (n * P)).map (fun k => a + k) := by
  induction n with
  | zero => simp
  | succ n ih =>
    rw [List.range_succ, List.flatMap_append, ih, Nat.succ_mul, List.range_add, List.map_append]
    congr 1
    simp only [List.flatMap_cons, List.flatMap_nil, List.append_nil, List.map_map]
    apply List.map_congr_left
    intro j _
    simp only [Function.comp]
    omega

/-- row-major enumeration: the `k`-th multi-index of `allIdx s` has flat index `k` -/
theorem map_foldIdx_allIdx (s : Sizes) (hn : (s.map (·.1)).Nodup) (acc : Nat) :
    (allIdx s).map (fun t => foldIdx acc s (lookupIdx t))
      = (List.range (prodSizes s)).map (fun k => acc * prodSizes s + k) := by
  induction s generalizing acc with
  | nil => simp [allIdx, foldIdx, prodSizes]
  | cons p rest ih =>
    obtain ⟨d, n⟩ := p
    simp only [List.map_cons, List.nodup_cons] at hn
    have hprod : prodSizes ((d, n) :: rest) = n * prodSizes rest := by simp [prodSizes]
    rw [hprod]
    simp only [allIdx, List.map_flatMap, List.map_map]
    have step : ∀ i, (allIdx rest).map ((fun t => foldIdx acc ((d, n) :: rest) (lookupIdx t)) ∘ (fun t => (d, i) :: t))
        = (List.range (prodSizes rest)).map (fun j => acc * (n * prodSizes rest) + i * prodSizes rest + j) := by
      intro i
      have : ∀ t, ((fun t => foldIdx acc ((d, n) :: rest) (lookupIdx t)) ∘ (fun t => (d, i) :: t)) t
          = foldIdx (acc * n + i) rest (lookupIdx t) := by
        intro t
        simp only [Function.comp, foldIdx, List.foldl_cons, lookupIdx_cons_self]
        apply foldIdx_congr
        intro q hq
        apply lookupIdx_cons_ne
        intro h
        exact hn.1 (h ▸ List.mem_map_of_mem (f := (·.1)) hq)
      rw [List.map_congr_left (fun t _ => this t), ih hn.2]
      apply List.map_congr_left
      intro j _
      ring
    rw [List.flatMap_congr (fun i _ => step i)]  
    exact range_block n (prodSizes rest) (acc * (n * prodSizes rest))
theorem map_getD_range {α : Type} (l : List α) (d : α) :
    (List.range l.length).map (fun k => l.getD k d) = l := by
  apply List.ext_getElem
  · simp
  · intro i h1 h2
    simp [List.getD_eq_getElem?_getD, List.getElem?_eq_getElem h2]

/-- reading a row-major buffer through labelled indices and writing it back is the identity -/
theorem toFlat_ofFlat {α : Type} (d : α) (s : Sizes) (data : List α) (hn : (s.map (·.1)).Nodup)
    (hl : data.length = prodSizes s) : (LArr.ofFlat d s data).toFlat = data := by
  have h := map_foldIdx_allIdx s hn 0
  simp only [Nat.zero_mul, Nat.zero_add, List.map_id'] at h
  have : (LArr.ofFlat d s data).toFlat
      = ((allIdx s).map (fun t => foldIdx 0 s (lookupIdx t))).map (fun k => data.getD k d) := by
    simp only [LArr.toFlat, LArr.ofFlat, List.map_map, flatIndex_eq]
    rfl
  rw [this, h, ← hl]
  exact map_getD_range data d
end ScnVerif.Lemmas.LArr
