import ScnVerif.Lemmas.SqwBuilder
/-! The file `create` writes depends on the builder calls only through the LAST call of each kind. -/
namespace ScnVerif.Sqw

theorem dictGet_dictSet {β} (n k : BlockName) (v : β) (l : List (BlockName × β)) :
    dictGet n (dictSet k v l) = if n = k then some v else dictGet n l := by
  induction l with
  | nil =>
    by_cases h : n = k
    · subst h; simp [dictSet, dictGet]
    · have : ¬ k = n := fun e => h e.symm
      simp [dictSet, dictGet, h, this]
  | cons kv rest ih =>
    obtain ⟨k', v'⟩ := kv
    unfold dictSet
    by_cases hk : k' = k
    · subst hk
      by_cases h : n = k'
      · subst h; simp [dictGet]
      · have : ¬ k' = n := fun e => h e.symm
        simp [dictGet, h, this]
    · simp only [hk, if_false]
      by_cases hn : k' = n
      · subst hn
        have : ¬ k' = k := hk
        simp [dictGet, this]
      · simp only [dictGet, hn, if_false, ih]

def setN (m : Nat) : Block → Block
  | .mainHeader h => .mainHeader { h with nfiles := m }
  | b => b

theorem dictGet_setNfiles (n : BlockName) (m : Nat) (l : List (BlockName × Block)) :
    dictGet n (setNfiles m l) = (dictGet n l).map (setN m) := by
  induction l with
  | nil => rfl
  | cons kv rest ih =>
    obtain ⟨k, blk⟩ := kv
    cases blk <;> (by_cases hk : k = n <;> simp [setNfiles, dictGet, hk, ih, setN])

theorem nfilesOf_setNfiles (m : Nat) (l : List (BlockName × Block)) (k : BlockName) (h : MainHeader)
    (hm : (k, Block.mainHeader h) ∈ l) : nfilesOf (setNfiles m l) = m := by
  induction l with
  | nil => simp at hm
  | cons kv rest ih =>
    obtain ⟨k', blk⟩ := kv
    cases blk with
    | mainHeader h' => simp [setNfiles, nfilesOf]
    | _ =>
      simp only [List.mem_cons, Prod.mk.injEq, reduceCtorEq, and_false, false_or] at hm
      simp [setNfiles, nfilesOf, ih hm]

/-- replacing/adding a non-header block under a key that does not hold the header keeps `nfilesOf` -/
theorem nfilesOf_dictSet (k : BlockName) (v : Block) (l : List (BlockName × Block))
    (hv : ∀ h, v ≠ .mainHeader h) (hold : ∀ h, dictGet k l ≠ some (.mainHeader h)) :
    nfilesOf (dictSet k v l) = nfilesOf l := by
  induction l with
  | nil => cases v <;> first | (exfalso; exact hv _ rfl) | rfl
  | cons kv rest ih =>
    obtain ⟨k', v'⟩ := kv
    unfold dictSet
    by_cases hk : k' = k
    · subst hk
      simp only [if_true]
      have h1 : ∀ h, v' ≠ .mainHeader h := by
        intro h e; apply hold h; simp [dictGet, e]
      cases v <;> first | (exfalso; exact hv _ rfl) | (cases v' <;> first | (exfalso; exact h1 _ rfl) | rfl)
    · simp only [hk, if_false]
      have hold' : ∀ h, dictGet k rest ≠ some (.mainHeader h) := by
        intro h e; apply hold h; simp [dictGet, hk, e]
      cases v' <;> simp [nfilesOf, ih hold']

/-- everything `create` looks at -/
structure Obs where
  order : Order
  nDims : Nat
  fullFilename : Str
  filename : Str
  filepath : Str
  dnd : Option (List Nat)
  pix : Option (List PixRow)
  instrument : Option Instrument
  sample : Option Sample
  get : BlockName → Option Block
  nfiles : Nat

def obs (b : Builder) : Obs :=
  ⟨b.order, b.nDims, b.fullFilename, b.filename, b.filepath, b.dnd, b.pix, b.instrument, b.sample,
    fun n => dictGet n b.dataBlocks, nfilesOf b.dataBlocks⟩

theorem dictGet_preparedDict (b : Builder) (n : BlockName) :
    dictGet n (preparedDict b) =
      match b.sample with
      | some s => if n = nSamples then some (.samples s (nfilesOf b.dataBlocks)) else
          (match b.instrument with
           | some i => if n = nInstruments then some (.instruments i (nfilesOf b.dataBlocks)) else dictGet n b.dataBlocks
           | none => dictGet n b.dataBlocks)
      | none =>
          (match b.instrument with
           | some i => if n = nInstruments then some (.instruments i (nfilesOf b.dataBlocks)) else dictGet n b.dataBlocks
           | none => dictGet n b.dataBlocks) := by
  unfold preparedDict
  cases b.instrument <;> cases b.sample <;> simp [dictGet_dictSet]

/-- `create` is a function of the observation -/
theorem create_congr (order : List BlockName) (ho : OrderOk order) (b b' : Builder) (st : Stamps)
    (round : Nat → Nat) (chunk : Nat) (hinv : Inv b) (hinv' : Inv b') (h : obs b = obs b') :
    create order b st round chunk = create order b' st round chunk := by
  have e : ∀ {α : Type} (f : Obs → α), f (obs b) = f (obs b') := fun f => by rw [h]
  have h1 : b.order = b'.order := e (·.order)
  have h2 : b.nDims = b'.nDims := e (·.nDims)
  have h4 : b.filename = b'.filename := e (·.filename)
  have h5 : b.filepath = b'.filepath := e (·.filepath)
  have h6 : b.dnd = b'.dnd := e (·.dnd)
  have h7 : b.pix = b'.pix := e (·.pix)
  have h8 : b.instrument = b'.instrument := e (·.instrument)
  have h9 : b.sample = b'.sample := e (·.sample)
  have h10 : ∀ n, dictGet n b.dataBlocks = dictGet n b'.dataBlocks := fun n => congrFun (e (·.get)) n
  have h11 : nfilesOf b.dataBlocks = nfilesOf b'.dataBlocks := e (·.nfiles)
  have hprep : prepareBlocks order b = prepareBlocks order b' := by
    rw [prepareBlocks_canon order ho b hinv, prepareBlocks_canon order ho b' hinv']
    unfold canonHead
    congr 1
    funext n
    rw [dictGet_preparedDict, dictGet_preparedDict, h8, h9, h11, h10]
  have htoObj : ∀ blk : Block, blk.toObj b st = blk.toObj b' st := by
    intro blk; cases blk <;> simp [Block.toObj, h4, h5]
  have houts : blockOuts order b st round chunk = blockOuts order b' st round chunk := by
    unfold blockOuts
    simp only [hprep, h6, h7, h1, htoObj]
  unfold create
  rw [houts, h1, h2]

/-! ## the observation after a program, as a function of the last call of each kind -/

/-- last call of each kind -/
abbrev Last := Kind → Option Op

def updLast (s : Last) (op : Op) : Last := fun k => if op.kind = k then some op else s k

def lastCalls (ops : List Op) : Last := ops.foldl updLast (fun _ => none)

def pixOf : Option Op → Option (List PixRow × List Experiment × Nat)
  | some (.addPixelData rows exps nd) => some (rows, exps, nd)
  | _ => none
def instOf : Option Op → Option Instrument
  | some (.addDefaultInstrument i) => some i
  | _ => none
def sampOf : Option Op → Option Sample
  | some (.addDefaultSample s) => some s
  | _ => none
def dndOf : Option Op → Option DndMeta
  | some (.addEmptyDndData d) => some d
  | _ => none

/-- what the builder state must look like, given the last calls -/
def specObs (lt : Lt) (o : Order) (full fp fn title : Str) (s : Last) : Obs :=
  let nf := match pixOf (s .P) with | some (_, exps, _) => exps.length | none => 0
  { order := o
    nDims := match pixOf (s .P) with | some (_, _, nd) => nd | none => 0
    fullFilename := full, filename := fn, filepath := fp
    dnd := (dndOf (s .N)).map (·.axes.nBins)
    pix := (pixOf (s .P)).map (·.1)
    instrument := instOf (s .I)
    sample := sampOf (s .S)
    get := fun n =>
      if n = nMainHeader then some (.mainHeader ⟨full, title, nf⟩)
      else if n = nExpdata then (pixOf (s .P)).map (fun p => .expdata p.2.1)
      else if n = nPixMeta then (pixOf (s .P)).map (fun p => .pixMeta ⟨full, nPixels p.1, p.1.map (rowRange lt)⟩)
      else if n = nDetpar then (if (s .D).isSome then some .detpar else none)
      else if n = nDataMeta then (dndOf (s .N)).map .dndMeta
      else none
    nfiles := nf }

/-- the slots hold calls of their own kind -/
def LastOk (s : Last) : Prop := ∀ k op, s k = some op → op.kind = k

theorem lastOk_upd (s : Last) (op : Op) (h : LastOk s) : LastOk (updLast s op) := by
  intro k op' hk
  unfold updLast at hk
  by_cases e : op.kind = k
  · simp [e] at hk; subst hk; exact e
  · simp [e] at hk; exact h k op' hk

theorem obs_step (lt : Lt) (o : Order) (full fp fn title : Str) (b : Builder) (s : Last) (op : Op)
    (hs : LastOk s) (h : obs b = specObs lt o full fp fn title s) :
    obs (step lt b op) = specObs lt o full fp fn title (updLast s op) := by
  have e : ∀ {α : Type} (f : Obs → α), f (obs b) = f (specObs lt o full fp fn title s) := fun f => by rw [h]
  have hget : ∀ n, dictGet n b.dataBlocks = (specObs lt o full fp fn title s).get n :=
    fun n => congrFun (e (·.get)) n
  have hfull : b.fullFilename = full := e (·.fullFilename)
  have hnf : nfilesOf b.dataBlocks = (specObs lt o full fp fn title s).nfiles := e (·.nfiles)
  have kne : ∀ a b : Kind, a ≠ b → (a = b) = False := fun a b h => eq_false h
  have n1 : nExpdata ≠ nMainHeader := by decide
  have n2 : nPixMeta ≠ nMainHeader := by decide
  have n3 : nDetpar ≠ nMainHeader := by decide
  have n4 : nDataMeta ≠ nMainHeader := by decide
  have n5 : nPixMeta ≠ nExpdata := by decide
  have n6 : nDetpar ≠ nExpdata := by decide
  have n7 : nDataMeta ≠ nExpdata := by decide
  have n8 : nDetpar ≠ nPixMeta := by decide
  have n9 : nDataMeta ≠ nPixMeta := by decide
  have n10 : nDataMeta ≠ nDetpar := by decide
  -- a slot other than the header never holds a header
  have hnothdr : ∀ k, k ≠ nMainHeader → ∀ hd, dictGet k b.dataBlocks ≠ some (.mainHeader hd) := by
    intro k hk hd
    rw [hget]
    simp only [specObs, hk, if_false]
    split
    · cases pixOf (s .P) <;> simp
    · split
      · cases pixOf (s .P) <;> simp
      · split
        · split <;> simp
        · split
          · cases dndOf (s .N) <;> simp
          · simp
  have hO : b.order = o := e (·.order)
  have hND : b.nDims = (match pixOf (s .P) with | some (_, _, nd) => nd | none => 0) := e (·.nDims)
  have hfn : b.filename = fn := e (·.filename)
  have hfp : b.filepath = fp := e (·.filepath)
  have hdnd : b.dnd = (dndOf (s .N)).map (·.axes.nBins) := e (·.dnd)
  have hpix : b.pix = (pixOf (s .P)).map (·.1) := e (·.pix)
  have hinst : b.instrument = instOf (s .I) := e (·.instrument)
  have hsamp : b.sample = sampOf (s .S) := e (·.sample)
  have hnf' : nfilesOf b.dataBlocks = (match pixOf (s .P) with | some (_, exps, _) => exps.length | none => 0) := hnf
  cases op with
  | addDefaultInstrument i =>
    simp only [obs, step, specObs, updLast, Op.kind, reduceCtorEq, if_false, if_true, instOf, hO, hND, hfull,
      hfn, hfp, hdnd, hpix, hsamp, hnf']
    congr 1
    funext n; exact hget n
  | addDefaultSample sm =>
    simp only [obs, step, specObs, updLast, Op.kind, reduceCtorEq, if_false, if_true, sampOf, hO, hND, hfull,
      hfn, hfp, hdnd, hpix, hinst, hnf']
    congr 1
    funext n; exact hget n
  | addEmptyDetectorParams =>
    simp only [obs, step, specObs, updLast, Op.kind, reduceCtorEq, if_false, if_true, hO, hND, hfull,
      hfn, hfp, hdnd, hpix, hinst, hsamp,
      nfilesOf_dictSet nDetpar .detpar b.dataBlocks (by intro h; simp) (hnothdr nDetpar n3), hnf']
    congr 1
    funext n
    rw [dictGet_dictSet, hget]
    by_cases hn : n = nDetpar
    · subst hn; simp [specObs, n3, n6, n8]
    · simp [specObs, hn]
  | addEmptyDndData d =>
    simp only [obs, step, specObs, updLast, Op.kind, reduceCtorEq, if_false, if_true, dndOf, Option.map_some,
      hO, hND, hfull, hfn, hfp, hpix, hinst, hsamp,
      nfilesOf_dictSet nDataMeta (.dndMeta d) b.dataBlocks (by intro h; simp) (hnothdr nDataMeta n4), hnf']
    congr 1
    funext n
    rw [dictGet_dictSet, hget]
    by_cases hn : n = nDataMeta
    · subst hn; simp [specObs, n4, n7, n9, n10]
    · simp [specObs, hn]
  | addPixelData rows exps nd =>
    have hmem' : (nMainHeader, Block.mainHeader ⟨full, title, (specObs lt o full fp fn title s).nfiles⟩) ∈
        dictSet nPixMeta (.pixMeta ⟨full, nPixels rows, rows.map (rowRange lt)⟩)
          (dictSet nExpdata (.expdata exps) b.dataBlocks) := by
      apply dictGet_mem
      rw [dictGet_dictSet, dictGet_dictSet]
      have a1 : ¬ nMainHeader = nPixMeta := fun e => n2 e.symm
      have a2 : ¬ nMainHeader = nExpdata := fun e => n1 e.symm
      simp only [a1, a2, if_false]
      rw [hget nMainHeader]
      simp [specObs]
    simp only [obs, step, specObs, updLast, Op.kind, reduceCtorEq, if_false, if_true, pixOf, Option.map_some,
      hO, hfull, hfn, hfp, hdnd, hinst, hsamp, nfilesOf_setNfiles _ _ _ _ hmem']
    congr 1
    funext n
    rw [dictGet_setNfiles, dictGet_dictSet, dictGet_dictSet, hget]
    by_cases h1 : n = nPixMeta
    · subst h1; simp [specObs, n2, n5, setN]
    · by_cases h2 : n = nExpdata
      · subst h2; simp [specObs, n1, h1, setN]
      · by_cases h3 : n = nMainHeader
        · subst h3; simp [specObs, h1, h2, setN]
        · simp only [specObs, h1, h2, h3, if_false]
          by_cases h4 : n = nDetpar
          · simp only [h4, if_true]; split <;> simp [setN]
          · by_cases h5 : n = nDataMeta
            · subst h5
              simp only [n10, if_false, if_true]
              cases dndOf (s .N) <;> simp [setN]
            · simp [h4, h5]

theorem obs_init (lt : Lt) (o : Order) (full fp fn title : Str) :
    obs (Builder.init o full fp fn title) = specObs lt o full fp fn title (fun _ => none) := by
  simp only [obs, Builder.init, specObs, pixOf, dndOf, instOf, sampOf, Option.map_none, nfilesOf]
  congr 1
  funext n
  by_cases h : n = nMainHeader
  · subst h; simp [dictGet]
  · have : ¬ nMainHeader = n := fun e => h e.symm
    simp [dictGet, h, this]

theorem obs_run_gen (lt : Lt) (o : Order) (full fp fn title : Str) (ops : List Op) :
    ∀ (b : Builder) (s : Last), LastOk s → obs b = specObs lt o full fp fn title s →
      obs (run lt b ops) = specObs lt o full fp fn title (ops.foldl updLast s) := by
  induction ops with
  | nil => intro b s _ h; exact h
  | cons op ops ih =>
    intro b s hs h
    exact ih (step lt b op) (updLast s op) (lastOk_upd s op hs) (obs_step lt o full fp fn title b s op hs h)

theorem obs_run (lt : Lt) (o : Order) (full fp fn title : Str) (ops : List Op) :
    obs (run lt (Builder.init o full fp fn title) ops) = specObs lt o full fp fn title (lastCalls ops) :=
  obs_run_gen lt o full fp fn title ops _ _ (by intro k op h; simp at h) (obs_init lt o full fp fn title)

/-- the bytes written depend on the program only through the last call of each kind -/
theorem create_last_calls (order : List BlockName) (ho : OrderOk order) (lt : Lt) (o : Order)
    (full fp fn title : Str) (ops ops' : List Op) (st : Stamps) (round : Nat → Nat) (chunk : Nat)
    (h : lastCalls ops = lastCalls ops') :
    create order (run lt (Builder.init o full fp fn title) ops) st round chunk =
      create order (run lt (Builder.init o full fp fn title) ops') st round chunk := by
  apply create_congr order ho _ _ st round chunk (inv_run lt _ ops (inv_init o full fp fn title))
    (inv_run lt _ ops' (inv_init o full fp fn title))
  rw [obs_run, obs_run, h]

/-- `lastCalls` really is "the last call of that kind" -/
theorem foldl_updLast (ops : List Op) (s : Last) (k : Kind) :
    ops.foldl updLast s k =
      match (ops.filter (fun op => decide (op.kind = k))).getLast? with
      | some op => some op
      | none => s k := by
  induction ops generalizing s with
  | nil => rfl
  | cons op ops ih =>
    rw [List.foldl_cons, ih, List.filter_cons]
    by_cases hk : op.kind = k
    · simp only [hk, decide_true, if_true, List.getLast?_cons]
      cases (ops.filter (fun op => decide (op.kind = k))).getLast? with
      | none => simp [updLast, hk]
      | some x => simp
    · simp only [hk, decide_false, Bool.false_eq_true, if_false]
      cases (ops.filter (fun op => decide (op.kind = k))).getLast? with
      | none => simp [updLast, hk]
      | some x => rfl

theorem lastCalls_eq (ops : List Op) (k : Kind) :
    lastCalls ops k = (ops.filter (fun op => decide (op.kind = k))).getLast? := by
  unfold lastCalls
  rw [foldl_updLast]
  cases (ops.filter (fun op => decide (op.kind = k))).getLast? <;> rfl

theorem filter_kind_short (ops : List Op) (k : Kind) (hn : (ops.map (·.kind)).Nodup) :
    (ops.filter (fun op => decide (op.kind = k))).length ≤ 1 := by
  induction ops with
  | nil => simp
  | cons op ops ih =>
    simp only [List.map_cons, List.nodup_cons] at hn
    rw [List.filter_cons]
    by_cases hk : op.kind = k
    · simp only [hk, decide_true, if_true, List.length_cons]
      have : ops.filter (fun op => decide (op.kind = k)) = [] := by
        rw [List.filter_eq_nil_iff]
        intro x hx
        simp only [decide_eq_true_eq]
        intro e
        apply hn.1
        rw [hk, ← e]
        exact List.mem_map_of_mem (f := (·.kind)) hx
      simp [this]
    · simp only [hk, decide_false, Bool.false_eq_true, if_false]
      exact ih hn.2

/-- if no call is repeated, every permutation of the calls has the same last calls -/
theorem lastCalls_perm (ops ops' : List Op) (h : ops.Perm ops') (hn : (ops.map (·.kind)).Nodup) :
    lastCalls ops = lastCalls ops' := by
  funext k
  rw [lastCalls_eq, lastCalls_eq]
  have hp := h.filter (fun op => decide (op.kind = k))
  have hn' : (ops'.map (·.kind)).Nodup := (h.map (·.kind)).nodup_iff.mp hn
  have l1 := filter_kind_short ops k hn
  have l2 := filter_kind_short ops' k hn'
  generalize ops.filter (fun op => decide (op.kind = k)) = a at hp l1
  generalize ops'.filter (fun op => decide (op.kind = k)) = b at hp l2
  match a, b, l1, l2, hp with
  | [], [], _, _, _ => rfl
  | [x], [y], _, _, hp =>
    have : x ∈ [y] := hp.subset (by simp)
    simp at this; subst this; rfl
  | [], _ :: _, _, _, hp => exact absurd hp.length_eq (by simp)
  | _ :: _, [], _, _, hp => exact absurd hp.length_eq (by simp)
  | _ :: _ :: _, _, l1, _, _ => simp at l1
  | _, _ :: _ :: _, _, l2, _ => simp at l2

end ScnVerif.Sqw
