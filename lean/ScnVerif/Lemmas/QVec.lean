import ScnVerif.Model.QVec
import ScnVerif.Real.Basic
import Mathlib.Tactic.FieldSimp
import Mathlib.Tactic.Ring
import Mathlib.Tactic.Linarith
import Mathlib.Tactic.Positivity
import Mathlib.Tactic.NormNum
import Mathlib.Tactic.LinearCombination
/-! helper lemmas for C08: norms of real 3-vectors, orthogonal matrices, closed-form 3×3 inverse -/
namespace ScnVerif.Lemmas.QVec
open ScnVerif ScnVerif.QVec

theorem twoPi_real : (twoPi : ℝ) = 2 * Real.pi := rfl

theorem twoPi_pos : (0 : ℝ) < twoPi := by rw [twoPi_real]; positivity

theorem norm_real (v : V3 ℝ) : V3.norm v = Real.sqrt (v.x * v.x + v.y * v.y + v.z * v.z) := rfl

theorem nsq_nonneg (v : V3 ℝ) : 0 ≤ v.x * v.x + v.y * v.y + v.z * v.z :=
  add_nonneg (add_nonneg (mul_self_nonneg _) (mul_self_nonneg _)) (mul_self_nonneg _)

theorem norm_mul_self (v : V3 ℝ) : V3.norm v * V3.norm v = v.x * v.x + v.y * v.y + v.z * v.z := by
  rw [norm_real]; exact Real.mul_self_sqrt (nsq_nonneg v)

/-- a vector is non-zero iff its norm is positive -/
theorem norm_pos_iff (v : V3 ℝ) : 0 < V3.norm v ↔ (v.x ≠ 0 ∨ v.y ≠ 0 ∨ v.z ≠ 0) := by
  rw [norm_real, Real.sqrt_pos]
  constructor
  · intro h
    by_contra hc
    push Not at hc
    obtain ⟨h1, h2, h3⟩ := hc
    simp [h1, h2, h3] at h
  · rintro (h | h | h)
    · have := mul_self_pos.mpr h; nlinarith [mul_self_nonneg v.y, mul_self_nonneg v.z]
    · have := mul_self_pos.mpr h; nlinarith [mul_self_nonneg v.x, mul_self_nonneg v.z]
    · have := mul_self_pos.mpr h; nlinarith [mul_self_nonneg v.x, mul_self_nonneg v.y]

theorem norm_smul (a : ℝ) (ha : 0 ≤ a) (v : V3 ℝ) : V3.norm (V3.smul a v) = a * V3.norm v := by
  rw [norm_real, norm_real]
  simp only [V3.smul]
  rw [show a * v.x * (a * v.x) + a * v.y * (a * v.y) + a * v.z * (a * v.z)
      = a ^ 2 * (v.x * v.x + v.y * v.y + v.z * v.z) by ring,
    Real.sqrt_mul (by positivity), Real.sqrt_sq ha]

theorem normalize_smul (a : ℝ) (ha : 0 < a) (v : V3 ℝ) (hv : 0 < V3.norm v) :
    V3.sdiv (V3.smul a v) (V3.norm (V3.smul a v)) = V3.sdiv v (V3.norm v) := by
  rw [norm_smul a ha.le]
  simp only [V3.sdiv, V3.smul]
  congr 1 <;> field_simp


theorem norm_normalize (v : V3 ℝ) (hv : 0 < V3.norm v) : V3.norm (V3.normalize v) = 1 := by
  have h := norm_mul_self v
  rw [norm_real]
  simp only [V3.normalize, V3.sdiv]
  set n := V3.norm v
  rw [show v.x / n * (v.x / n) + v.y / n * (v.y / n) + v.z / n * (v.z / n)
      = (v.x * v.x + v.y * v.y + v.z * v.z) / (n * n) by field_simp, ← h, div_self (by positivity)]
  exact Real.sqrt_one

def M3.one : M3 ℝ := ⟨1, 0, 0, 0, 1, 0, 0, 0, 1⟩

/-- `R` is orthogonal: `Rᵀ·R = 1` -/
def IsOrthogonal (r : M3 ℝ) : Prop := M3.mul (M3.transpose r) r = M3.one

theorem dot_mulVec_of_orthogonal (r : M3 ℝ) (hr : IsOrthogonal r) (v : V3 ℝ) :
    V3.dot (M3.mulVec r v) (M3.mulVec r v) = V3.dot v v := by
  simp only [IsOrthogonal, M3.mul, M3.transpose, M3.one, M3.mk.injEq] at hr
  obtain ⟨h11, h12, h13, h21, h22, h23, h31, h32, h33⟩ := hr
  simp only [V3.dot, M3.mulVec]
  linear_combination v.x * v.x * h11 + v.x * v.y * h12 + v.x * v.z * h13 + v.y * v.x * h21
    + v.y * v.y * h22 + v.y * v.z * h23 + v.z * v.x * h31 + v.z * v.y * h32 + v.z * v.z * h33

theorem norm_mulVec_of_orthogonal (r : M3 ℝ) (hr : IsOrthogonal r) (v : V3 ℝ) :
    V3.norm (M3.mulVec r v) = V3.norm v := by
  show Real.sqrt (V3.dot _ _) = Real.sqrt (V3.dot _ _)
  rw [dot_mulVec_of_orthogonal r hr v]

theorem mulVec_inv (m : M3 ℝ) (hd : M3.det m ≠ 0) (q : V3 ℝ) :
    M3.mulVec m (M3.mulVec (M3.inv m) q) = q := by
  obtain ⟨qx, qy, qz⟩ := q
  have h1 : (1 / M3.det m) * M3.det m = 1 := by field_simp
  simp only [M3.mulVec, M3.inv, V3.mk.injEq]
  generalize (1 / M3.det m) = D at h1 ⊢
  simp only [M3.det, M3.c00, M3.c10, M3.c20] at h1 ⊢
  refine ⟨?_, ?_, ?_⟩
  · linear_combination qx * h1
  · linear_combination qy * h1
  · linear_combination qz * h1

theorem inv_mulVec (m : M3 ℝ) (hd : M3.det m ≠ 0) (h : V3 ℝ) :
    M3.mulVec (M3.inv m) (M3.mulVec m h) = h := by
  obtain ⟨hx, hy, hz⟩ := h
  have h1 : (1 / M3.det m) * M3.det m = 1 := by field_simp
  simp only [M3.mulVec, M3.inv, V3.mk.injEq]
  generalize (1 / M3.det m) = D at h1 ⊢
  simp only [M3.det, M3.c00, M3.c10, M3.c20] at h1 ⊢
  refine ⟨?_, ?_, ?_⟩
  · linear_combination hx * h1
  · linear_combination hy * h1
  · linear_combination hz * h1


/-- cosine of the angle between two vectors -/
noncomputable def cosAngle (a b : V3 ℝ) : ℝ := V3.dot a b / (V3.norm a * V3.norm b)


/-- Cauchy–Schwarz: the cosine of the angle lies in `[-1, 1]` -/
theorem cosAngle_mem (a b : V3 ℝ) (ha : 0 < V3.norm a) (hb : 0 < V3.norm b) :
    -1 ≤ cosAngle a b ∧ cosAngle a b ≤ 1 := by
  have h1 := norm_mul_self a
  have h2 := norm_mul_self b
  have hsq : V3.dot a b ^ 2 ≤ (V3.norm a * V3.norm b) ^ 2 := by
    rw [mul_pow, sq (V3.norm a), sq (V3.norm b), h1, h2]
    simp only [V3.dot]
    nlinarith [sq_nonneg (a.y * b.z - a.z * b.y), sq_nonneg (a.z * b.x - a.x * b.z),
      sq_nonneg (a.x * b.y - a.y * b.x)]
  have hab := abs_le_of_sq_le_sq' hsq (mul_pos ha hb).le
  have hp := mul_pos ha hb
  unfold cosAngle
  constructor
  · rw [le_div_iff₀ hp]; linarith [hab.1]
  · rw [div_le_one hp]; exact hab.2


theorem norm_ez : V3.norm (⟨0, 0, 1⟩ : V3 ℝ) = 1 := by rw [norm_real]; norm_num

theorem norm_ex : V3.norm (⟨1, 0, 0⟩ : V3 ℝ) = 1 := by rw [norm_real]; norm_num

end ScnVerif.Lemmas.QVec
