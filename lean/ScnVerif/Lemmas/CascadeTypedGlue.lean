import ScnVerif.Model.Cascade
/-!
# The hooked (`…H`) versions are the plain functions when the hooks are trivial

So the theorems of `Props/C11.lean` about `Frame.chop`, `seqChop`, … are theorems about the `…H`
versions for every carrier on which no dtype-dependent behaviour occurs (all operands double precision).
-/
set_option linter.unusedSectionVars false
set_option linter.unusedSimpArgs false
namespace ScnVerif.Cascade
variable {α : Type} [Add α] [Sub α] [Mul α] [Div α] [OfNat α 1] [LE α] [DecidableLE α]
  [LT α] [DecidableLT α]

theorem shearPolyH_trivial (k : Consts α) (d : α) (p : Poly α) :
    shearPolyH Hooks.trivial k d p = shearPoly k d p := rfl

theorem propagateToH_trivial (k : Consts α) (f : Frame α) (d : α) :
    f.propagateToH Hooks.trivial k d = f.propagateTo k d := rfl

theorem chopStepH_trivial (c : α) (dir : Bool) (poly : Poly α) :
    chopStepH Hooks.trivial c dir poly = .ok (chopStep c dir poly) := by
  unfold chopStepH
  cases chopStep c dir poly <;> simp [Hooks.trivial]

theorem chopWindowH_trivial (w : α × α) (sub : Poly α) :
    chopWindowH Hooks.trivial w sub = .ok (chopWindow w sub) := by
  unfold chopWindowH chopWindow
  rw [chopStepH_trivial]
  cases h : chopStep w.1 true sub with
  | none => simp
  | some o => simp [chopStepH_trivial]

theorem chopWindowsH_trivial (sub : Poly α) : ∀ ws : List (α × α),
    chopWindowsH Hooks.trivial sub ws = .ok (ws.filterMap (fun w => chopWindow w sub))
  | [] => rfl
  | w :: ws => by
      unfold chopWindowsH
      rw [chopWindowH_trivial, chopWindowsH_trivial sub ws]
      cases h : chopWindow w sub <;> simp [List.filterMap_cons, h]

theorem chopSubsH_trivial (wins : List (α × α)) : ∀ subs : List (Poly α),
    chopSubsH Hooks.trivial wins subs =
      .ok (subs.flatMap (fun sub => wins.filterMap (fun w => chopWindow w sub)))
  | [] => rfl
  | sub :: subs => by
      unfold chopSubsH
      rw [chopWindowsH_trivial, chopSubsH_trivial wins subs]
      simp [List.flatMap_cons]

theorem chopH_trivial (k : Consts α) (f : Frame α) (c : Chopper α) :
    f.chopH Hooks.trivial k c = f.chop k c := by
  unfold Frame.chopH Frame.chop
  split
  · rfl
  · simp only [propagateToH_trivial, chopSubsH_trivial]
    simp [Hooks.trivial]

theorem seqChopSortedH_trivial (k : Consts α) : ∀ (cs : List (Chopper α)) (frames : List (Frame α)),
    seqChopSortedH Hooks.trivial k frames cs = seqChopSorted k frames cs
  | [], frames => rfl
  | c :: cs, frames => by
      unfold seqChopSortedH seqChopSorted
      cases frames.getLast? with
      | none => rfl
      | some last =>
        simp only [chopH_trivial]
        cases last.chop k c with
        | error e => rfl
        | ok f => exact seqChopSortedH_trivial k cs _

theorem seqChopH_trivial (k : Consts α) (frames : List (Frame α)) (cs : List (Chopper α)) :
    seqChopH Hooks.trivial k frames cs = seqChop k frames cs :=
  seqChopSortedH_trivial k _ _

theorem seqPropagateToH_trivial (k : Consts α) (frames : List (Frame α)) (d : α) :
    seqPropagateToH Hooks.trivial k frames d = seqPropagateTo k frames d := rfl

theorem seqGetItemH_trivial (k : Consts α) (frames : List (Frame α)) (d : α) :
    seqGetItemH Hooks.trivial k frames d = seqGetItem k frames d := rfl

end ScnVerif.Cascade
